//go:build verif && (vh_all || vh_c17)

package props

import (
	"context"
	"fmt"
	"strings"
	"sync/atomic"

	"github.com/cloudwego/eino/components/tool"
	"github.com/cloudwego/eino/components/tool/utils"
	"github.com/cloudwego/eino/compose"
	"github.com/cloudwego/eino/schema"
	"github.com/cloudwego/eino/verifharness/vh"
)

// Family `utils` (lean/EinoV/Model/C17Utils.lean): tools built by the constructors of
// components/tool/utils over a typed request — a struct, a pointer to it, a map — instead of
// hand-written InvokableTool / StreamableTool implementations.  The wrapper decodes the JSON
// arguments of the call into a request object and hands it to the user's function; the
// function here reads its request only after the barrier script has released it, and with
// `overlap` the script releases the first call only when every call of the message is inside
// its tool (all have decoded), so whatever one call's decoding does to another call's
// request is seen.  `prior` sends an earlier message through the same node (same tool
// instances) first.  The model: every answer is the function's value on the request decoded
// from that call's own arguments, absent fields zero.

type c17UReq struct {
	A string `json:"a"`
	N int    `json:"n"`
	U string `json:"u"`
}

type c17UResp struct {
	R string `json:"r"`
}

// c17Holder lets the tools of one node serve two runs (the prior message, then the case's
// message), each with its own barrier environment.
type c17Holder struct{ env *c17Env }

func c17IsUtilsKind(k string) bool { return k == "uinv" || k == "ustr" }

func (c *c17Case) hasUtils() bool {
	for _, t := range c.Tools {
		if c17IsUtilsKind(t.Kind) {
			return true
		}
	}
	return false
}

func (c *c17Case) allUtils() bool {
	for _, t := range c.Tools {
		if !c17IsUtilsKind(t.Kind) {
			return false
		}
	}
	return len(c.Tools) > 0
}

func (e *c17Env) posOfID(id string) int {
	for k, cl := range e.c.Calls {
		if cl.ID == id {
			return k
		}
	}
	return -1
}

// ubody is the user's function of a utils-built tool: it finds its call by the call id in
// the context (never by what is in the request), waits for the script, and only then reads
// the request.
func (h *c17Holder) ubody(ctx context.Context, spec c17Tool, read func() (string, int, string), opts []tool.Option) (string, error) {
	env := h.env
	k, leave := env.enterPos(ctx, env.posOfID(compose.GetToolCallID(ctx)), opts)
	defer leave()
	a, n, u := read()
	if k >= 0 && a == "boom" {
		return "", env.errs[k]
	}
	return fmt.Sprintf("%s|a=%s|n=%d|u=%s", spec.Tag, a, n, u), nil
}

func c17UHalves(txt string) *schema.StreamReader[c17UResp] {
	h := len(txt) / 2
	return schema.StreamReaderFromArray([]c17UResp{{R: txt[:h]}, {R: txt[h:]}})
}

func c17MapReq(m map[string]any) (string, int, string) {
	a, _ := m["a"].(string)
	u, _ := m["u"].(string)
	n := 0
	switch v := m["n"].(type) {
	case float64:
		n = int(v)
	case int64:
		n = int(v)
	case int:
		n = v
	}
	return a, n, u
}

func c17Opts(opts []tool.Option) []tool.Option {
	if opts == nil {
		return []tool.Option{}
	}
	return opts
}

// The tool handed to the node is the utils-built one behind a delegating wrapper whose only
// job is the rendezvous of `overlap`: a call that returns without its function ever having
// been reached (arguments that do not decode) still counts as arrived, so the script cannot
// wait for it forever.
type c17UInvWrap struct {
	inner tool.InvokableTool
	h     *c17Holder
}

func (w *c17UInvWrap) Info(ctx context.Context) (*schema.ToolInfo, error) { return w.inner.Info(ctx) }
func (w *c17UInvWrap) InvokableRun(ctx context.Context, args string, opts ...tool.Option) (string, error) {
	defer w.h.env.returned(ctx)
	return w.inner.InvokableRun(ctx, args, opts...)
}

type c17UStrWrap struct {
	inner tool.StreamableTool
	h     *c17Holder
}

func (w *c17UStrWrap) Info(ctx context.Context) (*schema.ToolInfo, error) { return w.inner.Info(ctx) }
func (w *c17UStrWrap) StreamableRun(ctx context.Context, args string, opts ...tool.Option) (*schema.StreamReader[string], error) {
	defer w.h.env.returned(ctx)
	return w.inner.StreamableRun(ctx, args, opts...)
}

// returned: a tool call came back; if its function was never reached, it arrives now.
func (e *c17Env) returned(ctx context.Context) {
	k := e.posOfID(compose.GetToolCallID(ctx))
	if k >= 0 && atomic.LoadInt32(&e.count[k]) > 0 {
		return
	}
	e.arrive()
	if k >= 0 {
		// ... and has completed, as far as the completion script is concerned
		select {
		case e.done[k] <- struct{}{}:
		default:
		}
	}
}

func c17UTool(s c17Tool, h *c17Holder) (tool.BaseTool, error) {
	t, err := c17UToolRaw(s, h)
	if err != nil {
		return nil, err
	}
	switch v := t.(type) {
	case tool.InvokableTool:
		return &c17UInvWrap{inner: v, h: h}, nil
	case tool.StreamableTool:
		return &c17UStrWrap{inner: v, h: h}, nil
	}
	return t, nil
}

// c17UToolRaw builds the tool with the repo's constructors: Infer(Optionable)(Stream)Tool for
// struct / pointer requests, New(Stream)Tool with a hand-made ToolInfo for the map request.
func c17UToolRaw(s c17Tool, h *c17Holder) (tool.BaseTool, error) {
	info := &schema.ToolInfo{Name: s.Name, Desc: "c17 utils"}
	switch s.Kind + "/" + s.Req {
	case "uinv/ptr":
		return utils.InferOptionableTool(s.Name, "c17 utils", func(ctx context.Context, r *c17UReq, opts ...tool.Option) (c17UResp, error) {
			txt, err := h.ubody(ctx, s, func() (string, int, string) { return r.A, r.N, r.U }, c17Opts(opts))
			return c17UResp{R: txt}, err
		})
	case "uinv/map":
		return utils.NewTool(info, func(ctx context.Context, m map[string]any) (c17UResp, error) {
			txt, err := h.ubody(ctx, s, func() (string, int, string) { return c17MapReq(m) }, nil)
			return c17UResp{R: txt}, err
		}), nil
	case "ustr/ptr":
		return utils.InferOptionableStreamTool(s.Name, "c17 utils", func(ctx context.Context, r *c17UReq, opts ...tool.Option) (*schema.StreamReader[c17UResp], error) {
			txt, err := h.ubody(ctx, s, func() (string, int, string) { return r.A, r.N, r.U }, c17Opts(opts))
			if err != nil {
				return nil, err
			}
			return c17UHalves(txt), nil
		})
	case "ustr/map":
		return utils.NewStreamTool(info, func(ctx context.Context, m map[string]any) (*schema.StreamReader[c17UResp], error) {
			txt, err := h.ubody(ctx, s, func() (string, int, string) { return c17MapReq(m) }, nil)
			if err != nil {
				return nil, err
			}
			return c17UHalves(txt), nil
		}), nil
	case "ustr/val", "ustr/":
		return utils.InferOptionableStreamTool(s.Name, "c17 utils", func(ctx context.Context, r c17UReq, opts ...tool.Option) (*schema.StreamReader[c17UResp], error) {
			txt, err := h.ubody(ctx, s, func() (string, int, string) { return r.A, r.N, r.U }, c17Opts(opts))
			if err != nil {
				return nil, err
			}
			return c17UHalves(txt), nil
		})
	default: // uinv/val
		return utils.InferOptionableTool(s.Name, "c17 utils", func(ctx context.Context, r c17UReq, opts ...tool.Option) (c17UResp, error) {
			txt, err := h.ubody(ctx, s, func() (string, int, string) { return r.A, r.N, r.U }, c17Opts(opts))
			return c17UResp{R: txt}, err
		})
	}
}

// ---- generators ----

// c17UArgs: a JSON object with any of the request's fields, in any order; now and then a key
// the request does not have, or an explicit null.
func c17UArgs(r *vh.Rand, boom bool) string {
	var parts []string
	if r.Chance(60) {
		v := []string{"x", "y", "z", "w"}[r.Intn(4)]
		if boom && r.Chance(25) {
			v = "boom"
		}
		parts = append(parts, fmt.Sprintf(`"a":"%s"`, v))
	}
	if r.Chance(60) {
		parts = append(parts, fmt.Sprintf(`"n":%d`, r.Intn(10)))
	}
	switch p := r.Intn(100); {
	case p < 55:
		parts = append(parts, fmt.Sprintf(`"u":"%s"`, []string{"F", "C", "K"}[r.Intn(3)]))
	case p < 60:
		parts = append(parts, `"u":null`)
	}
	if r.Chance(10) {
		parts = append(parts, `"zz":1`)
	}
	p := r.Perm(len(parts))
	var out []string
	for _, i := range p {
		out = append(out, parts[i])
	}
	return "{" + strings.Join(out, ",") + "}"
}

func c17GenUtils(r *vh.Rand) *c17Case {
	c := &c17Case{Assistant: true, Handler: r.Chance(30), ViaOption: r.Chance(8), ToolOpt: r.Chance(30), Overlap: r.Chance(85), Sched: []int{}}
	nt := r.Range(1, 3)
	names := []string{"a", "b", "c"}
	kindOf := map[string]string{}
	for i := 0; i < nt; i++ {
		t := c17Tool{Name: names[i], Tag: fmt.Sprintf("T%d", i)}
		if r.Chance(85) {
			t.Kind = []string{"uinv", "ustr"}[r.Intn(2)]
			t.Req = []string{"val", "ptr", "ptr", "map"}[r.Intn(4)]
		} else {
			t.Kind = []string{"inv", "str", "both"}[r.Intn(3)]
		}
		kindOf[t.Name] = t.Kind
		c.Tools = append(c.Tools, t)
	}
	boom := r.Chance(25)
	mkCalls := func(n int, idp string) []c17Call {
		hot := names[r.Intn(nt)]
		var out []c17Call
		for k := 0; k < n; k++ {
			cl := c17Call{ID: fmt.Sprintf("%s%d", idp, k), Name: hot, Fault: "none", Fid: 100 + k}
			if r.Chance(30) {
				cl.Name = names[r.Intn(nt)]
			}
			if c.Handler && idp == "c" && r.Chance(8) {
				cl.Name = "zz"
			}
			if c17IsUtilsKind(kindOf[cl.Name]) {
				cl.Args = c17UArgs(r, boom)
			} else {
				cl.Args = fmt.Sprintf("%d|%s", k, c17Payload(r))
				if r.Chance(40) {
					cl.Cuts = []int{r.Intn(4)}
				}
			}
			out = append(out, cl)
		}
		return out
	}
	n := r.Range(2, 6)
	if r.Chance(8) {
		n = 1
	}
	c.Calls = mkCalls(n, "c")
	if c.allUtils() && r.Chance(45) {
		c.Prior = mkCalls(r.Range(1, 3), "p")
		for i := range c.Prior {
			if c.Prior[i].Name == "zz" {
				c.Prior[i].Name = names[0]
				c.Prior[i].Args = c17UArgs(r, false)
			}
			c.Prior[i].Args = strings.ReplaceAll(c.Prior[i].Args, `"boom"`, `"q"`)
		}
	}
	c.Sigma = r.Perm(n)
	c.Mode = []string{"invoke", "stream"}[r.Intn(2)]
	switch p := r.Intn(100); {
	case p < 50:
		c.Host = "standalone"
	case p < 85:
		c.Host = "graph"
	default:
		c.Host = "graphConcat"
		c.Mode = "stream"
	}
	for q := r.Intn(8); q > 0; q-- {
		c.Sched = append(c.Sched, r.Intn(n))
	}
	return c
}

// c17SystematicUtils: the same utils-built tool called 2-3 times in one message with
// different arguments (every other call leaves fields out) x invokable / streamable x request
// struct / pointer / map x Invoke / Stream x standalone / graph x with / without an earlier
// message that set every field x completion order identity / reversed; the calls overlap.
func c17SystematicUtils() []*c17Case {
	var out []*c17Case
	// pointer and struct requests first: a decode that shares the request object between
	// overlapping calls is a data race on a map request, which the Go runtime may answer by
	// killing the process ("concurrent map writes") — see c17UtilsSkip
	for _, req := range []string{"ptr", "val", "map"} {
		for _, kind := range []string{"uinv", "ustr"} {
			for n := 2; n <= 3; n++ {
				for _, mode := range []string{"invoke", "stream"} {
					for hi, host := range []string{"standalone", "graph"} {
						for pi := 0; pi < 2; pi++ {
							for si := 0; si < 2; si++ {
								c := &c17Case{Assistant: true, Mode: mode, Host: host, Sched: []int{}, Overlap: true, ToolOpt: (hi+pi)%2 == 0}
								c.Tools = []c17Tool{{Name: "a", Kind: kind, Req: req, Tag: "T0"}}
								for k := 0; k < n; k++ {
									args := fmt.Sprintf(`{"n":%d,"a":"x%d","u":"F"}`, k+1, k)
									if k%2 == 1 {
										args = fmt.Sprintf(`{"n":%d}`, k+1)
									}
									if k == 2 {
										args = `{"a":"y"}`
									}
									c.Calls = append(c.Calls, c17Call{ID: fmt.Sprintf("c%d", k), Name: "a", Args: args, Fault: "none", Fid: 100 + k})
									if si == 0 {
										c.Sigma = append(c.Sigma, k)
									} else {
										c.Sigma = append([]int{k}, c.Sigma...)
									}
								}
								if pi == 1 {
									c.Prior = []c17Call{{ID: "p0", Name: "a", Args: `{"a":"old","n":9,"u":"K"}`, Fault: "none", Fid: 100}}
								}
								out = append(out, c)
							}
						}
					}
				}
			}
		}
	}
	return out
}

func c17UtilsShape(c *c17Case) string {
	if !c.hasUtils() && len(c.Prior) == 0 && !c.Overlap {
		return ""
	}
	s := ""
	for _, t := range c.Tools {
		if c17IsUtilsKind(t.Kind) {
			s += t.Req + ","
		}
	}
	return fmt.Sprintf("%sp%d,o%v", s, len(c.Prior), c.Overlap)
}

// c17UtilsBroken is set by the first disagreement on a case with utils-built tools.  From then
// on cases in which one map-request tool serves several overlapping calls are not run any
// more: whatever made the calls of a tool interfere is, for a map request, likely to be
// concurrent writes to one Go map, a fatal runtime error that would take the findings
// already made down with the process.  Nothing is skipped as long as the implementation
// agrees with the model.
var c17UtilsBroken bool

func c17UtilsSkip(c *c17Case) bool {
	if !c17UtilsBroken {
		return false
	}
	for _, t := range c.Tools {
		if c17IsUtilsKind(t.Kind) && t.Req == "map" {
			for _, msg := range [][]c17Call{c.Calls, c.Prior} { // the calls of one message run concurrently
				n := 0
				for _, cl := range msg {
					if cl.Name == t.Name {
						n++
					}
				}
				if n >= 2 {
					return true
				}
			}
		}
	}
	return false
}
