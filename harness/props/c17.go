//go:build verif && (vh_all || vh_c17)

package props

import (
	"context"
	"encoding/json"
	"errors"
	"fmt"
	"io"
	"sort"
	"strconv"
	"strings"
	"sync"
	"sync/atomic"
	"time"

	"github.com/cloudwego/eino/components/tool"
	"github.com/cloudwego/eino/compose"
	"github.com/cloudwego/eino/internal"
	"github.com/cloudwego/eino/internal/safe"
	"github.com/cloudwego/eino/schema"
	"github.com/cloudwego/eino/verifharness/vh"
)

func init() { vh.Register("C17", runC17) }

// ---- case language (shared with lean/EinoV/Oracle/C17.lean) ----

type c17Tool struct {
	Name    string `json:"name"`
	Kind    string `json:"kind"`          // inv | str | both | none | uinv | ustr (built by components/tool/utils, c17_utils.go)
	Req     string `json:"req,omitempty"` // uinv/ustr: request type val | ptr | map
	Tag     string `json:"tag"`
	Diverge bool   `json:"diverge,omitempty"` // both: the streamable form answers "S"+…
}

type c17Call struct {
	ID    string `json:"id"`
	Name  string `json:"name"`
	Args  string `json:"args"`            // "<position>|<payload>"
	Fault string `json:"fault,omitempty"` // none | err | panic
	Fid   int    `json:"fid,omitempty"`
	Cuts  []int  `json:"cuts,omitempty"` // chunking of the streamable form
	Empty bool   `json:"empty,omitempty"`
	// family `late` (c17_late.go): the streamable form sends only the first Hold chunks before
	// StreamableRun returns, the others afterwards, looking at its context before each
	Late   bool   `json:"late,omitempty"`
	Hold   int    `json:"hold,omitempty"`
	OnDone string `json:"onDone,omitempty"` // fail | stop | ignore: on finding the context done
}

type c17Case struct {
	Assistant bool      `json:"assistant"`
	Tools     []c17Tool `json:"tools"`
	Handler   bool      `json:"handler"`
	Calls     []c17Call `json:"calls"`
	Sigma     []int     `json:"sigma"` // completion order forced by the barrier script
	Mode      string    `json:"mode"`  // invoke | stream
	Host      string    `json:"host"`  // standalone | graph | graphConcat | graphBranch | graphFan (c17_readers.go)
	Sched     []int     `json:"sched"` // merge schedule the oracle uses (result must not depend on it)
	Pipe      bool      `json:"pipe,omitempty"`
	ViaOption bool      `json:"viaOption,omitempty"` // tools given by the WithToolList call option
	ToolOpt   bool      `json:"toolOpt,omitempty"`   // a tool option is passed with the call (WithToolOption)
	// family `late`: order of the producers' late steps; the caller cancels its context after
	// CancelAfter steps of it (nil: never)
	Prod        []int `json:"prod,omitempty"`
	CancelAfter *int  `json:"cancelAfter,omitempty"`
	// family `utils`: an earlier message sent through the same node; the script releases the
	// first call only when all calls of the message are inside their tools
	Prior   []c17Call `json:"prior,omitempty"`
	Overlap bool      `json:"overlap,omitempty"`
	// family `readers`: the node's stream is copied Readers times and every copy concatenated,
	// in turn or (ReadConc) concurrently
	Readers  int  `json:"readers,omitempty"`
	ReadConc bool `json:"readConc,omitempty"`
}

// ---- canonical observables ----

type c17Msg struct {
	ID      string `json:"id"`
	Content string `json:"content"`
}

type c17Err struct {
	K  string `json:"k"` // user | panic | empty | prerun | ctx | other
	ID int    `json:"id"`
}

type c17Obs struct {
	Class     string      `json:"class"` // ok | err | panic | newnode-err | hang | …
	Msgs      []*c17Msg   `json:"msgs,omitempty"`
	Sources   [][]*c17Msg `json:"sources,omitempty"`
	Collected []*c17Msg   `json:"collected,omitempty"`
	CollErr   string      `json:"collErr,omitempty"`
	CtxErrs   []int       `json:"ctxErrs,omitempty"` // sources that delivered their context's error
	// family `readers`: what every further consumer of the stream concatenated / received
	Readers    [][]*c17Msg `json:"readers,omitempty"`
	ReaderErrs []string    `json:"readerErrs,omitempty"`
	Modified   string      `json:"modified,omitempty"` // a chunk changed after it had been received
	Err        *c17Err     `json:"err,omitempty"`
	PanicID    int         `json:"panicId,omitempty"`
	Ran        int         `json:"ran"`
	Note       string      `json:"note,omitempty"`
}

// ---- the barrier script ----

type c17PanicVal struct{ id int }

type c17Env struct {
	c       *c17Case
	gate    []chan struct{}
	done    []chan struct{}
	count   []int32
	errs    []error
	abort   chan struct{}
	mu      sync.Mutex
	closed  []bool
	stray   int32 // executions whose argument names no call position
	marker  int   // value of the tool option passed with the call (0 = none passed)
	badCtx  int32 // executions that did not see their own call id / the tool option
	late    *c17LateEnv
	arrived int32         // executions that have reached their gate
	arrSig  chan struct{} // signalled on every arrival
}

type c17Opt struct{ marker int }

func c17NewEnv(c *c17Case) *c17Env {
	n := len(c.Calls)
	e := &c17Env{c: c, gate: make([]chan struct{}, n), done: make([]chan struct{}, n), count: make([]int32, n),
		errs: make([]error, n), abort: make(chan struct{}), closed: make([]bool, n), late: c17NewLateEnv(c), arrSig: make(chan struct{}, 1)}
	for i := 0; i < n; i++ {
		e.gate[i] = make(chan struct{})
		e.done[i] = make(chan struct{}, 16)
		e.errs[i] = fmt.Errorf("c17 tool error %d", c.Calls[i].Fid)
	}
	return e
}

func (e *c17Env) open(k int) {
	e.mu.Lock()
	if k >= 0 && k < len(e.gate) && !e.closed[k] {
		e.closed[k] = true
		close(e.gate[k])
	}
	e.mu.Unlock()
}

func (e *c17Env) openAll() {
	for k := range e.gate {
		e.open(k)
	}
}

// controller releases the tools in the order sigma, each one after the previous one has
// returned.  Every runner is started independently of the others (goroutines are spawned
// before the inline task runs), so the next tool to release is always already waiting or
// about to wait: no deadlock.  abort opens everything at once.
func (e *c17Env) controller(finished chan<- struct{}) {
	defer close(finished)
	if e.c.Overlap {
		// every runner is started independently of the others, so all calls of the message
		// arrive at their gates; only then the first one is released
		for int(atomic.LoadInt32(&e.arrived)) < len(e.gate) {
			select {
			case <-e.arrSig:
			case <-e.abort:
				e.openAll()
				return
			}
		}
	}
	seen := map[int]bool{}
	for _, k := range e.c.Sigma {
		if k < 0 || k >= len(e.gate) || seen[k] {
			continue
		}
		seen[k] = true
		e.open(k)
		// Every runner is started independently of the others, so the execution for call k is
		// at its gate or about to be.  A call that is never executed at all (an implementation
		// that drops calls) must not hold the script — and with it every other call — forever:
		// its arrival is awaited for a generous time only, and once one call of this process
		// has failed to arrive (a violation by then: the execution counts differ) not long.
		if atomic.LoadInt32(&e.count[k]) == 0 {
			limit := 10 * time.Second
			if atomic.LoadInt32(&c17NeverArrived) > 0 {
				limit = 300 * time.Millisecond
			}
			timer := time.NewTimer(limit)
			completed := false
		wait:
			for atomic.LoadInt32(&e.count[k]) == 0 {
				select {
				case <-e.arrSig:
				case <-e.done[k]: // completed without reaching its function (c17Env.returned)
					completed = true
					break wait
				case <-timer.C:
					break wait
				case <-e.abort:
					timer.Stop()
					e.openAll()
					return
				}
			}
			timer.Stop()
			if completed {
				continue
			}
			if atomic.LoadInt32(&e.count[k]) == 0 {
				atomic.AddInt32(&c17NeverArrived, 1)
				continue
			}
		}
		select {
		case <-e.done[k]:
		case <-e.abort:
			e.openAll()
			return
		}
	}
	e.openAll()
}

// c17NeverArrived counts the calls (of all cases of this process) whose execution never
// reached its gate.
var c17NeverArrived int32

func c17Pos(args string) int {
	i := strings.IndexByte(args, '|')
	if i <= 0 {
		return -1
	}
	k, err := strconv.Atoi(args[:i])
	if err != nil {
		return -1
	}
	return k
}

// enter blocks the tool execution for call position k until the script releases it.
func (e *c17Env) enter(ctx context.Context, args string, opts []tool.Option) (k int, leave func()) {
	k = c17Pos(args)
	if k < 0 || k >= len(e.gate) || e.c.Calls[k].Args != args {
		atomic.AddInt32(&e.stray, 1)
		e.arrive()
		return -1, func() {}
	}
	return e.enterPos(ctx, k, opts)
}

// arrive: one more execution of the message is inside its tool (or will never be).
func (e *c17Env) arrive() {
	atomic.AddInt32(&e.arrived, 1)
	select {
	case e.arrSig <- struct{}{}:
	default:
	}
}

// enterPos: the execution for call position k (however the tool found out which call it serves).
func (e *c17Env) enterPos(ctx context.Context, k int, opts []tool.Option) (int, func()) {
	if k < 0 || k >= len(e.gate) {
		atomic.AddInt32(&e.stray, 1)
		e.arrive()
		return -1, func() {}
	}
	atomic.AddInt32(&e.count[k], 1)
	// every runner (the inline one and the goroutines) must hand the tool the id of its own
	// call in the context and the tool options of the node call
	if compose.GetToolCallID(ctx) != e.c.Calls[k].ID {
		atomic.AddInt32(&e.badCtx, 1)
	}
	if opts != nil && tool.GetImplSpecificOptions(&c17Opt{}, opts...).marker != e.marker {
		atomic.AddInt32(&e.badCtx, 1)
	}
	e.arrive()
	<-e.gate[k]
	return k, func() {
		select {
		case e.done[k] <- struct{}{}:
		default:
		}
	}
}

func c17Cut(s string, cuts []int) []string {
	var out []string
	for _, k := range cuts {
		if k > len(s) {
			k = len(s)
		}
		out = append(out, s[:k])
		s = s[k:]
	}
	return append(out, s)
}

// ---- tools built from the repo's interfaces ----

type c17Base struct {
	spec c17Tool
	env  *c17Env
}

func (b *c17Base) Info(ctx context.Context) (*schema.ToolInfo, error) {
	return &schema.ToolInfo{Name: b.spec.Name, Desc: "c17"}, nil
}

func (b *c17Base) fault(k int) error {
	if k < 0 {
		return nil
	}
	switch b.env.c.Calls[k].Fault {
	case "err":
		return b.env.errs[k]
	case "panic":
		panic(c17PanicVal{id: b.env.c.Calls[k].Fid})
	}
	return nil
}

func (b *c17Base) invoke(ctx context.Context, args string, opts []tool.Option, outp func(string) string) (string, error) {
	k, leave := b.env.enter(ctx, args, opts)
	defer leave()
	if err := b.fault(k); err != nil {
		return "", err
	}
	return outp(args), nil
}

func (b *c17Base) stream(ctx context.Context, args string, opts []tool.Option, outp func(string) string) (*schema.StreamReader[string], error) {
	k, leave := b.env.enter(ctx, args, opts)
	defer leave()
	if err := b.fault(k); err != nil {
		return nil, err
	}
	var chunks []string
	if k < 0 {
		chunks = []string{outp(args)}
	} else if !b.env.c.Calls[k].Empty {
		chunks = c17Cut(outp(args), b.env.c.Calls[k].Cuts)
	}
	if k >= 0 && b.env.c.Calls[k].Late {
		return b.lateStream(ctx, k, chunks), nil
	}
	if b.env.c.Pipe {
		sr, sw := schema.Pipe[string](len(chunks) + 1) // never blocks the sender
		go func() {
			defer sw.Close()
			for _, ch := range chunks {
				if sw.Send(ch, nil) {
					return
				}
			}
		}()
		return sr, nil
	}
	return schema.StreamReaderFromArray(chunks), nil
}

func (b *c17Base) outI(a string) string { return b.spec.Tag + "(" + a + ")" }
func (b *c17Base) outS(a string) string {
	if b.spec.Diverge {
		return "S" + b.spec.Tag + "(" + a + ")"
	}
	return b.spec.Tag + "(" + a + ")"
}

type c17InvTool struct{ c17Base }

func (t *c17InvTool) InvokableRun(ctx context.Context, args string, opts ...tool.Option) (string, error) {
	if opts == nil {
		opts = []tool.Option{}
	}
	return t.invoke(ctx, args, opts, t.outI)
}

type c17StrTool struct{ c17Base }

func (t *c17StrTool) StreamableRun(ctx context.Context, args string, opts ...tool.Option) (*schema.StreamReader[string], error) {
	if opts == nil {
		opts = []tool.Option{}
	}
	return t.stream(ctx, args, opts, t.outS)
}

type c17BothTool struct{ c17Base }

func (t *c17BothTool) InvokableRun(ctx context.Context, args string, opts ...tool.Option) (string, error) {
	if opts == nil {
		opts = []tool.Option{}
	}
	return t.invoke(ctx, args, opts, t.outI)
}
func (t *c17BothTool) StreamableRun(ctx context.Context, args string, opts ...tool.Option) (*schema.StreamReader[string], error) {
	if opts == nil {
		opts = []tool.Option{}
	}
	return t.stream(ctx, args, opts, t.outS)
}

type c17NoneTool struct{ c17Base }

func c17Tools(c *c17Case, env *c17Env, hold *c17Holder) ([]tool.BaseTool, error) {
	var out []tool.BaseTool
	for _, s := range c.Tools {
		b := c17Base{spec: s, env: env}
		switch s.Kind {
		case "uinv", "ustr":
			t, err := c17UTool(s, hold)
			if err != nil {
				return nil, err
			}
			out = append(out, t)
		case "inv":
			out = append(out, &c17InvTool{b})
		case "str":
			out = append(out, &c17StrTool{b})
		case "both":
			out = append(out, &c17BothTool{b})
		default:
			out = append(out, &c17NoneTool{b})
		}
	}
	return out, nil
}

// ---- running the implementation ----

func c17Canon(m *schema.Message, shape *string) *c17Msg {
	if m == nil {
		return nil
	}
	if m.Role != schema.Tool || m.Name != "" || len(m.ToolCalls) != 0 {
		*shape = fmt.Sprintf("role=%q name=%q toolcalls=%d", m.Role, m.Name, len(m.ToolCalls))
	}
	return &c17Msg{ID: m.ToolCallID, Content: m.Content}
}

func c17ClassifyErr(env *c17Env, err error) *c17Err {
	var ce *c17CtxErr
	if errors.As(err, &ce) {
		// a producer of the family `late` found its context done
		return &c17Err{K: "ctx", ID: ce.pos}
	}
	for k, s := range env.errs {
		if errors.Is(err, s) {
			return &c17Err{K: "user", ID: env.c.Calls[k].Fid}
		}
	}
	if info, ok := safe.VerifPanicInfo(err); ok {
		if pv, ok := info.(c17PanicVal); ok {
			return &c17Err{K: "panic", ID: pv.id}
		}
		return &c17Err{K: "panic", ID: -1}
	}
	if errors.Is(err, compose.VerifEmptyStreamConcatErr()) {
		return &c17Err{K: "empty"}
	}
	ran := 0
	for k := range env.count {
		ran += int(atomic.LoadInt32(&env.count[k]))
	}
	if ran == 0 {
		return &c17Err{K: "prerun"}
	}
	return &c17Err{K: "other"}
}

// c17Collect is concatStreamReader for the merged stream (0 → error, 1 → the chunk, else
// the registered concat of []*schema.Message, i.e. concatMessageArray).
func c17Collect(chunks [][]*schema.Message) ([]*schema.Message, string) {
	switch len(chunks) {
	case 0:
		return nil, "emptyStream"
	case 1:
		return chunks[0], ""
	}
	r, err := internal.ConcatItems(chunks)
	if err != nil {
		return nil, "concat-error"
	}
	return r, ""
}

const c17Timeout = 20 * time.Second

func c17RunImpl(c *c17Case) *c17Obs {
	env := c17NewEnv(c)
	obs := &c17Obs{}
	ctx, cancelCaller := context.WithCancel(context.Background())
	defer cancelCaller()
	env.late.cancel = cancelCaller
	hold := &c17Holder{env: env}
	tools, terr := c17Tools(c, env, hold)
	if terr != nil {
		obs.Class = "build-error"
		obs.Note = terr.Error()
		return obs
	}
	conf := &compose.ToolsNodeConfig{Tools: tools}
	var callOpts []compose.ToolsNodeOption
	if c.ViaOption {
		conf.Tools = nil
		callOpts = append(callOpts, compose.WithToolList(tools...))
	}
	if c.ToolOpt {
		env.marker = 4242
		callOpts = append(callOpts, compose.WithToolOption(tool.WrapImplSpecificOptFn(func(o *c17Opt) { o.marker = 4242 })))
	}
	if c.Handler {
		conf.UnknownToolsHandler = func(ctx context.Context, name, input string) (string, error) {
			b := &c17Base{env: hold.env}
			return b.invoke(ctx, input, nil, func(a string) string { return "H:" + name + "(" + a + ")" })
		}
	}
	tn, err := compose.NewToolNode(ctx, conf)
	if err != nil {
		obs.Class = "newnode-err"
		return obs
	}
	role := schema.Assistant
	if !c.Assistant {
		role = schema.User
	}
	mkInput := func(calls []c17Call) *schema.Message {
		in := &schema.Message{Role: role}
		for _, cl := range calls {
			in.ToolCalls = append(in.ToolCalls, schema.ToolCall{ID: cl.ID, Type: "function",
				Function: schema.FunctionCall{Name: cl.Name, Arguments: cl.Args}})
		}
		return in
	}
	input := mkInput(c.Calls)

	var invoke func() ([]*schema.Message, error)
	var stream func() (*schema.StreamReader[[]*schema.Message], error)
	rec := &c17Rec{seen: map[string][]*c17Msg{}, raw: map[string][]*schema.Message{}}
	switch c.Host {
	case "graph", "graphConcat":
		g := compose.NewGraph[*schema.Message, []*schema.Message]()
		if err := g.AddToolsNode("tools", tn); err != nil {
			obs.Class = "build-error"
			obs.Note = err.Error()
			return obs
		}
		g.AddEdge(compose.START, "tools")
		if c.Host == "graphConcat" {
			g.AddLambdaNode("same", compose.InvokableLambda(func(ctx context.Context, in []*schema.Message) ([]*schema.Message, error) {
				return in, nil
			}))
			g.AddEdge("tools", "same")
			g.AddEdge("same", compose.END)
		} else {
			g.AddEdge("tools", compose.END)
		}
		r, err := g.Compile(ctx)
		if err != nil {
			obs.Class = "build-error"
			obs.Note = err.Error()
			return obs
		}
		var gopts []compose.Option
		if len(callOpts) > 0 {
			gopts = append(gopts, compose.WithToolsNodeOption(callOpts...))
		}
		invoke = func() ([]*schema.Message, error) { return r.Invoke(ctx, input, gopts...) }
		stream = func() (*schema.StreamReader[[]*schema.Message], error) { return r.Stream(ctx, input, gopts...) }
	case "graphBranch", "graphFan":
		var gopts []compose.Option
		if len(callOpts) > 0 {
			gopts = append(gopts, compose.WithToolsNodeOption(callOpts...))
		}
		var err error
		invoke, stream, err = c17ReaderHost(ctx, c, tn, rec, gopts, func() *schema.Message { return input })
		if err != nil {
			obs.Class = "build-error"
			obs.Note = err.Error()
			return obs
		}
	default:
		invoke = func() ([]*schema.Message, error) { return tn.Invoke(ctx, input, callOpts...) }
		stream = func() (*schema.StreamReader[[]*schema.Message], error) { return tn.Stream(ctx, input, callOpts...) }
	}

	// family `utils`: an earlier message through the same node and the same tool instances,
	// unscripted (every gate open); only the tools built by utils can serve two runs
	if len(c.Prior) > 0 && c.allUtils() {
		pc := &c17Case{Assistant: true, Calls: c.Prior, Mode: c.Mode, Host: c.Host}
		penv := c17NewEnv(pc)
		penv.marker = env.marker
		penv.openAll()
		hold.env = penv
		main := input
		input = mkInput(c.Prior)
		okPrior := vh.WithTimeout(c17Timeout, func() {
			c17Safely(func() {
				if c.Mode == "stream" {
					if sr, err := stream(); err == nil {
						for {
							if _, err := sr.Recv(); err != nil {
								break
							}
						}
						sr.Close()
					}
				} else {
					invoke()
				}
			})
		})
		close(penv.abort)
		input = main
		hold.env = env
		if !okPrior {
			obs.Class = "hang"
			obs.Note = "the earlier message did not return"
			return obs
		}
	}

	ctrlDone := make(chan struct{})
	go env.controller(ctrlDone)

	var (
		msgs     []*schema.Message
		chunks   [][]*schema.Message
		runErr   error
		recvErr  error
		ctxErrs  []int
		rds      []*c17Reader
		panicked bool
		pval     any
	)
	finished := vh.WithTimeout(c17Timeout, func() {
		panicked, pval = c17Safely(func() {
			if c.Mode == "stream" {
				sr, err := stream()
				if err != nil {
					runErr = err
					return
				}
				if !env.late.free && c.hasLate() {
					env.late.started = true
					go env.lateScript()
				}
				k := c.Readers
				if k < 1 || c17ConcatHost(c) {
					k = 1
				}
				srs := []*schema.StreamReader[[]*schema.Message]{sr}
				if k >= 2 {
					srs = sr.Copy(k)
				}
				defer func() {
					for _, x := range srs {
						x.Close()
					}
				}()
				rds = make([]*c17Reader, k)
				for j := range rds {
					rds[j] = &c17Reader{}
				}
				readOne := func(j int) {
					rd := rds[j]
					nerr := 0
					for {
						ch, err := srs[j].Recv()
						if err == io.EOF {
							return
						}
						if err != nil {
							// the context error of a late producer ends that source only: note
							// whose it is and read on (MergeStreamReaders goes on with the others)
							var ce *c17CtxErr
							if errors.As(err, &ce) && !c17ConcatHost(c) && nerr <= 4*len(c.Calls) {
								nerr++
								if j == 0 {
									ctxErrs = append(ctxErrs, ce.pos)
								}
								continue
							}
							rd.err = err
							return
						}
						rd.raw = append(rd.raw, ch)
						rd.snap = append(rd.snap, c17Snap(ch))
					}
				}
				if !c.ReadConc || k < 2 {
					for j := range rds {
						readOne(j)
						if rds[j].err == nil {
							rds[j].concat()
						}
					}
				} else {
					var wg sync.WaitGroup
					for j := range rds {
						wg.Add(1)
						go func(j int) { defer wg.Done(); readOne(j) }(j)
					}
					wg.Wait()
					for j := range rds {
						if rds[j].err == nil {
							wg.Add(1)
							go func(j int) { defer wg.Done(); rds[j].concat() }(j)
						}
					}
					wg.Wait()
				}
				for _, rd := range rds {
					if rd.err != nil && recvErr == nil {
						recvErr = rd.err
					}
				}
				chunks = rds[0].snap
			} else {
				msgs, runErr = invoke()
			}
		})
	})
	if !finished {
		close(env.abort)
		obs.Class = "hang"
		return obs
	}
	started := 0
	for k := range env.count {
		started += int(atomic.LoadInt32(&env.count[k]))
	}
	if started > 0 {
		// Some tool ran, so the tasks were generated and every goroutine was spawned (they are
		// spawned before the inline task runs).  When a panic left the inline task, Invoke
		// returned without wg.Wait(): the other runners may not even have started.  Let the
		// script run to its end so that the execution counts are final and nothing of this
		// case is left running.
		select {
		case <-ctrlDone:
		case <-time.After(c17Timeout):
			obs.Note = "script did not finish after the call returned"
		}
	}
	close(env.abort)
	<-ctrlDone
	if env.late.started {
		<-env.late.done
	}
	sort.Ints(ctxErrs)
	obs.CtxErrs = ctxErrs

	for k := range env.count {
		switch n := atomic.LoadInt32(&env.count[k]); {
		case n == 1:
			obs.Ran++
		case n > 1:
			obs.Note += fmt.Sprintf(" call %d executed %d times;", k, n)
		}
	}
	if b := atomic.LoadInt32(&env.badCtx); b > 0 {
		obs.Note += fmt.Sprintf(" %d executions without their own call id in the context / without the tool option;", b)
	}
	if s := atomic.LoadInt32(&env.stray); s > 0 {
		obs.Note += fmt.Sprintf(" %d executions with arguments of no call;", s)
	}

	shape := ""
	switch {
	case panicked:
		obs.Class = "panic"
		obs.PanicID = -1
		if pv, ok := pval.(c17PanicVal); ok {
			obs.PanicID = pv.id
		}
	case runErr != nil:
		obs.Class = "err"
		obs.Err = c17ClassifyErr(env, runErr)
	case recvErr != nil:
		obs.Class = "recv-err"
		obs.Err = c17ClassifyErr(env, recvErr)
	case c.Mode == "stream":
		obs.Class = "ok"
		n := len(c.Calls)
		if !c17ConcatHost(c) {
			obs.Sources = make([][]*c17Msg, n)
			for i := range obs.Sources {
				obs.Sources[i] = []*c17Msg{}
			}
			for _, ch := range chunks {
				pos := -1
				for i, m := range ch {
					if m != nil {
						if pos >= 0 {
							obs.Note += " chunk with two messages;"
						}
						pos = i
					}
				}
				if len(ch) != n || pos < 0 {
					obs.Note += fmt.Sprintf(" chunk of length %d (want %d) / without message;", len(ch), n)
					continue
				}
				obs.Sources[pos] = append(obs.Sources[pos], c17Canon(ch[pos], &shape))
			}
		}
		// the concatenations were made by the readers themselves, on the chunks as received
		obs.CollErr = rds[0].collErr
		obs.Collected = rds[0].coll
		for j, rd := range rds {
			if rd.shape != "" && shape == "" {
				shape = rd.shape
			}
			if len(rds) >= 2 {
				obs.Readers = append(obs.Readers, rd.coll)
				obs.ReaderErrs = append(obs.ReaderErrs, rd.collErr)
			}
			_ = j
		}
		obs.Modified = c17Modified(rds)
	default:
		obs.Class = "ok"
		obs.Msgs = make([]*c17Msg, len(msgs))
		for i, m := range msgs {
			obs.Msgs[i] = c17Canon(m, &shape)
		}
	}
	if shape != "" {
		obs.Note += " message shape: " + shape + ";"
	}
	if obs.Class == "ok" {
		// what the non-stream consumers inside the graph received
		for _, name := range c17ReaderNames(c) {
			rec.mu.Lock()
			l, ok := rec.seen[name]
			rec.mu.Unlock()
			if !ok {
				obs.Note += " consumer " + name + " did not run;"
			}
			obs.Readers = append(obs.Readers, l)
			obs.ReaderErrs = append(obs.ReaderErrs, "")
		}
		obs.Note += rec.note
	}
	return obs
}

// c17Safely is vh.Safely keeping the panic value itself.
func c17Safely(f func()) (panicked bool, val any) {
	defer func() {
		if r := recover(); r != nil {
			panicked = true
			val = r
		}
	}()
	f()
	return false, nil
}

// ---- the model's answer ----

type c17ModelErr struct {
	K    string `json:"k"`
	I    int    `json:"i"`
	ID   int    `json:"id"`
	Why  string `json:"why"`
	Name string `json:"name"`
	E    *struct {
		K  string `json:"k"`
		ID int    `json:"id"`
	} `json:"e"`
}

type c17Model struct {
	Class     string         `json:"class"`
	Msgs      []*c17Msg      `json:"msgs"`
	Sources   [][]*c17Msg    `json:"sources"`
	Collected *c17ModelColl  `json:"collected"`
	CtxErrs   []int          `json:"ctxErrs"`
	Readers   []c17ModelColl `json:"readers"`
	Err       *c17ModelErr   `json:"err"`
	ID        int            `json:"id"`
	Ran       int            `json:"ran"`
}

type c17ModelColl struct {
	Ok  []*c17Msg `json:"ok"`
	Err string    `json:"err"`
}

// c17Expect turns the model's answer into the canonical observables of the implementation side.
func c17Expect(c *c17Case, m *c17Model) *c17Obs {
	o := &c17Obs{Class: m.Class, Ran: m.Ran}
	if m.Class == "newnode-err" && c.ViaOption {
		// the tool list of the call option is converted by Invoke/Stream itself: the same
		// rejection arrives as an error of the call, before any tool runs
		o.Class = "err"
		o.Err = &c17Err{K: "prerun"}
		return o
	}
	switch m.Class {
	case "ok":
		if c.Mode == "stream" {
			if !c17ConcatHost(c) {
				o.Sources = m.Sources
				for i := range o.Sources {
					if o.Sources[i] == nil {
						o.Sources[i] = []*c17Msg{}
					}
				}
			}
			if m.Collected != nil {
				o.Collected = m.Collected.Ok
				o.CollErr = m.Collected.Err
			}
			if len(m.CtxErrs) > 0 {
				o.CtxErrs = m.CtxErrs
			}
			if c.Readers >= 2 && !c17ConcatHost(c) {
				for _, rd := range m.Readers {
					o.Readers = append(o.Readers, rd.Ok)
					o.ReaderErrs = append(o.ReaderErrs, rd.Err)
				}
			}
			for range c17ReaderNames(c) {
				o.Readers = append(o.Readers, o.Collected)
				o.ReaderErrs = append(o.ReaderErrs, "")
			}
		} else {
			o.Msgs = m.Msgs
			if o.Msgs == nil {
				o.Msgs = []*c17Msg{}
			}
			for range c17ReaderNames(c) {
				o.Readers = append(o.Readers, o.Msgs)
				o.ReaderErrs = append(o.ReaderErrs, "")
			}
		}
	case "err":
		e := m.Err
		switch e.K {
		case "tool":
			o.Err = &c17Err{K: e.E.K, ID: e.E.ID}
		case "nodePanic":
			o.Err = &c17Err{K: "panic", ID: e.ID}
		default:
			o.Err = &c17Err{K: e.K}
		}
	case "panic":
		o.PanicID = m.ID
	}
	return o
}

// ---- generator ----

const c17Alphabet = "abcxyz019{}:,\" _"

func c17Payload(r *vh.Rand) string {
	n := r.Intn(7)
	b := make([]byte, n)
	for i := range b {
		b[i] = c17Alphabet[r.Intn(len(c17Alphabet))]
	}
	return string(b)
}

func c17Gen(r *vh.Rand) *c17Case {
	c := &c17Case{Assistant: !r.Chance(3), Handler: r.Bool(), Pipe: r.Bool(), ViaOption: r.Chance(12), ToolOpt: r.Chance(40)}
	// tools
	nt := r.Range(1, 4)
	names := []string{"a", "b", "c", "d"}
	for i := 0; i < nt; i++ {
		kind := []string{"inv", "str", "both"}[r.Intn(3)]
		if r.Chance(1) {
			kind = "none"
		}
		c.Tools = append(c.Tools, c17Tool{Name: names[i], Kind: kind, Tag: fmt.Sprintf("T%d", i), Diverge: kind == "both" && r.Chance(20)})
	}
	if r.Chance(8) { // a second tool under an already used name: the later one wins
		kind := []string{"inv", "str", "both"}[r.Intn(3)]
		c.Tools = append(c.Tools, c17Tool{Name: names[r.Intn(nt)], Kind: kind, Tag: fmt.Sprintf("T%d", nt)})
	}
	// calls
	n := 0
	switch p := r.Intn(100); {
	case p < 3:
		n = 0
	case p < 13:
		n = 1
	default:
		n = r.Range(2, 6)
	}
	unknown := r.Chance(22)
	faulty := r.Chance(45)
	oddIDs := r.Chance(10)
	idPat := ""
	if !oddIDs && r.Chance(12) { // an id pattern for the whole message (c17IDPattern)
		idPat = []string{"repeated", "all-equal", "empty", "repeated+empty"}[r.Intn(4)]
	}
	for k := 0; k < n; k++ {
		cl := c17Call{ID: fmt.Sprintf("c%d", k), Name: names[r.Intn(nt)], Args: fmt.Sprintf("%d|%s", k, c17Payload(r)), Fault: "none", Fid: 100 + k}
		if unknown && r.Chance(35) {
			cl.Name = []string{"zz", "", "A", "a "}[r.Intn(4)]
		}
		if oddIDs {
			cl.ID = []string{"", "dup", cl.ID}[r.Intn(3)]
		}
		switch idPat {
		case "repeated": // an earlier call's id again
			if k > 0 && r.Chance(50) {
				cl.ID = c.Calls[r.Intn(k)].ID
			}
		case "all-equal":
			cl.ID = "same"
		case "empty":
			if r.Chance(50) {
				cl.ID = ""
			}
		case "repeated+empty":
			switch p := r.Intn(3); {
			case p == 0:
				cl.ID = ""
			case p == 1 && k > 0:
				cl.ID = c.Calls[r.Intn(k)].ID
			}
		}
		if faulty && r.Chance(35) {
			cl.Fault = []string{"err", "panic"}[r.Intn(2)]
		}
		for q := r.Intn(4); q > 0; q-- {
			cl.Cuts = append(cl.Cuts, r.Intn(5))
		}
		cl.Empty = r.Chance(2)
		c.Calls = append(c.Calls, cl)
	}
	if c.Calls == nil {
		c.Calls = []c17Call{}
	}
	c.Sigma = r.Perm(n)
	c.Mode = []string{"invoke", "stream"}[r.Intn(2)]
	switch p := r.Intn(100); {
	case p < 50:
		c.Host = "standalone"
	case p < 85:
		c.Host = "graph"
	default:
		c.Host = "graphConcat"
		c.Mode = "stream"
	}
	c.Sched = []int{}
	for q := r.Intn(12); q > 0 && n > 0; q-- {
		c.Sched = append(c.Sched, r.Intn(n))
	}
	return c
}

func c17Perms(n int) [][]int {
	if n == 0 {
		return [][]int{{}}
	}
	var out [][]int
	for _, p := range c17Perms(n - 1) {
		for pos := 0; pos <= len(p); pos++ {
			q := append(append(append([]int{}, p[:pos]...), n-1), p[pos:]...)
			out = append(out, q)
		}
	}
	return out
}

// c17Systematic: every completion order of n ≤ 4 calls × no fault / one or two faulty
// positions (error or panic) × invoke / stream, tools of rotating kinds.
func c17Systematic(maxN int) []*c17Case {
	var out []*c17Case
	kinds := []string{"inv", "str", "both"}
	for n := 1; n <= maxN; n++ {
		type fp struct {
			pos  []int
			kind []string
		}
		fps := []fp{{}}
		for i := 0; i < n; i++ {
			fps = append(fps, fp{[]int{i}, []string{"err"}}, fp{[]int{i}, []string{"panic"}})
			for j := i + 1; j < n; j++ {
				fps = append(fps, fp{[]int{i, j}, []string{"err", "err"}}, fp{[]int{i, j}, []string{"panic", "err"}}, fp{[]int{i, j}, []string{"err", "panic"}})
			}
		}
		for pi, sigma := range c17Perms(n) {
			for fi, f := range fps {
				for mi, mode := range []string{"invoke", "stream"} {
					c := &c17Case{Assistant: true, Mode: mode, Host: []string{"standalone", "graph"}[(pi+fi+mi)%2], Sigma: sigma, Sched: []int{}, Pipe: (pi+fi)%2 == 0, ToolOpt: (pi+mi)%2 == 0}
					for t := 0; t < 3; t++ {
						c.Tools = append(c.Tools, c17Tool{Name: string(rune('a' + t)), Kind: kinds[(t+pi)%3], Tag: fmt.Sprintf("T%d", t)})
					}
					for k := 0; k < n; k++ {
						cl := c17Call{ID: fmt.Sprintf("c%d", k), Name: string(rune('a' + (k+fi)%3)), Args: fmt.Sprintf("%d|p%d", k, k), Fault: "none", Fid: 100 + k, Cuts: []int{(k + pi) % 4}}
						for q, p := range f.pos {
							if p == k {
								cl.Fault = f.kind[q]
							}
						}
						c.Calls = append(c.Calls, cl)
					}
					out = append(out, c)
				}
			}
		}
	}
	return out
}

// c17SystematicIDs: 2-4 calls of different tools with different arguments whose ids are all
// equal / repeat pairwise / are all empty / mix repeated and empty x Invoke / Stream x
// standalone / graph x two completion orders.
func c17SystematicIDs() []*c17Case {
	var out []*c17Case
	idOf := func(pat string, k int) string {
		switch pat {
		case "all-equal":
			return "same"
		case "repeated":
			return fmt.Sprintf("c%d", k%2)
		case "empty":
			return ""
		}
		return []string{"", "c1", "c1", ""}[k%4] // repeated+empty
	}
	for n := 2; n <= 4; n++ {
		for _, pat := range []string{"all-equal", "repeated", "empty", "repeated+empty"} {
			for mi, mode := range []string{"invoke", "stream"} {
				for hi, host := range []string{"standalone", "graph"} {
					for si := 0; si < 2; si++ {
						c := &c17Case{Assistant: true, Mode: mode, Host: host, Sched: []int{}, Pipe: (mi+hi)%2 == 0}
						c.Tools = []c17Tool{{Name: "a", Kind: "inv", Tag: "T0"}, {Name: "b", Kind: "str", Tag: "T1"}, {Name: "c", Kind: "both", Tag: "T2"}}
						for k := 0; k < n; k++ {
							c.Calls = append(c.Calls, c17Call{ID: idOf(pat, k), Name: string(rune('a' + (k+si)%3)), Args: fmt.Sprintf("%d|i%d", k, k), Fault: "none", Fid: 100 + k, Cuts: []int{1}})
							if si == 0 {
								c.Sigma = append(c.Sigma, k)
							} else {
								c.Sigma = append([]int{k}, c.Sigma...)
							}
						}
						out = append(out, c)
					}
				}
			}
		}
	}
	return out
}

func c17FaultShape(c *c17Case) string {
	var s []string
	for k, cl := range c.Calls {
		if cl.Fault == "err" || cl.Fault == "panic" {
			s = append(s, fmt.Sprintf("%d%s", k, cl.Fault[:1]))
		}
	}
	return strings.Join(s, ",")
}

func c17Key(c *c17Case) string {
	var kinds, names []string
	for _, t := range c.Tools {
		kinds = append(kinds, t.Kind)
	}
	for _, cl := range c.Calls {
		names = append(names, cl.Name)
	}
	return fmt.Sprintf("%s/%s/%v/%v/%v/%s/%v/%v/%s", c.Mode, c.Host, kinds, names, c.Sigma, c17FaultShape(c), c.Handler, c.ViaOption, c17LateShape(c)+c17UtilsShape(c)+c17ReadersShape(c)+"/ids="+c17IDPattern(c))
}

func c17Sig(c *c17Case, what string) string {
	faults := "none"
	for _, cl := range c.Calls {
		if cl.Fault == "panic" {
			faults = "panic"
			break
		}
		if cl.Fault == "err" {
			faults = "err"
		}
	}
	sig := fmt.Sprintf("C17:%s:mode=%s:host=%s:faults=%s", what, c.Mode, c.Host, faults)
	if c.hasLate() {
		// the failing input has a tool still producing after StreamableRun returned
		sig += ":late"
		if c.CancelAfter != nil {
			sig += "+cancel"
		}
	}
	if p := c17IDPattern(c); p != "distinct" {
		// calls are identified by position; what the ids of the message look like matters
		sig += ":ids=" + p
	}
	if c.Readers >= 2 {
		sig += fmt.Sprintf(":readers=%d", c.Readers)
		if c.ReadConc {
			sig += "+conc"
		}
	}
	if c.hasUtils() {
		// the failing input has a tool built by components/tool/utils
		sig += ":utils"
		if len(c.Prior) > 0 {
			sig += "+prior"
		}
	}
	return sig
}

// c17SigBase is the signature without the family suffix (the shrinker may leave the family).
// c17IDPattern: distinct | repeated | all-equal | empty | repeated+empty — how the call ids of
// the message relate (two calls may share an id, an id may be empty; calls are told apart
// by position everywhere in this harness).
func c17IDPattern(c *c17Case) string {
	seen := map[string]int{}
	empty := false
	for _, cl := range c.Calls {
		if cl.ID == "" {
			empty = true
		} else {
			seen[cl.ID]++
		}
	}
	rep := false
	for _, n := range seen {
		if n > 1 {
			rep = true
		}
	}
	switch {
	case rep && !empty && len(seen) == 1 && len(c.Calls) >= 2:
		return "all-equal"
	case rep && empty:
		return "repeated+empty"
	case rep:
		return "repeated"
	case empty:
		return "empty"
	}
	return "distinct"
}

func c17SigBase(c *c17Case, what string) string {
	s := c17Sig(c, what)
	for _, suf := range []string{":ids=", ":late", ":readers", ":utils"} {
		if i := strings.Index(s, suf); i >= 0 {
			s = s[:i]
		}
	}
	return s
}

var (
	c17ShrunkMu sync.Mutex
	c17Shrunk   = map[string]int{}
)

func c17Compare(ctx *vh.Ctx, c *c17Case, raw json.RawMessage) error {
	var m c17Model
	if err := json.Unmarshal(raw, &m); err != nil {
		return fmt.Errorf("oracle answer: %v: %s", err, string(raw))
	}
	want := c17Expect(c, &m)
	if ctx.Replay == nil && c17UtilsSkip(c) {
		ctx.Res.Dist("utils-map-case-not-run-after-a-utils-disagreement")
		return nil
	}
	ctx.Progress.Mark(c)
	got := c17RunImpl(c)

	// distribution
	ctx.Res.Dist(fmt.Sprintf("calls=%d", len(c.Calls)))
	ctx.Res.Dist("mode=" + c.Mode)
	ctx.Res.Dist("host=" + c.Host)
	ctx.Res.Dist("class=" + got.Class)
	if got.Err != nil {
		ctx.Res.Dist("err=" + got.Err.K)
	}
	if m.Err != nil && m.Err.K == "prerun" {
		ctx.Res.Dist("prerun=" + m.Err.Why)
	}
	kinds := map[string]bool{}
	for _, t := range c.Tools {
		kinds[t.Kind] = true
	}
	var ks []string
	for k := range kinds {
		ks = append(ks, k)
	}
	sort.Strings(ks)
	ctx.Res.Dist("toolkinds=" + strings.Join(ks, "+"))
	ident := true
	for i, k := range c.Sigma {
		if i != k {
			ident = false
		}
	}
	if len(c.Sigma) >= 2 {
		ctx.Res.Dist(fmt.Sprintf("sigma-identity=%v", ident))
	}
	nf, np, handled := 0, 0, 0
	known := map[string]bool{}
	for _, t := range c.Tools {
		known[t.Name] = true
	}
	for _, cl := range c.Calls {
		if cl.Fault == "err" {
			nf++
		}
		if cl.Fault == "panic" {
			np++
		}
		if !known[cl.Name] {
			handled++
		}
	}
	ctx.Res.Dist(fmt.Sprintf("failing=%d", nf))
	ctx.Res.Dist(fmt.Sprintf("panicking=%d", np))
	if handled > 0 {
		ctx.Res.Dist(fmt.Sprintf("unknown-names/handler=%v", c.Handler))
	}
	if got.Class == "panic" {
		ctx.Res.Dist("panic-escapes-standalone-inline-task0")
	}
	if len(c.Calls) > 0 {
		ctx.Res.Dist("ids=" + c17IDPattern(c))
	}
	if c.Readers >= 2 || c.Host == "graphBranch" || c.Host == "graphFan" {
		ctx.Res.Dist(fmt.Sprintf("readers/host=%s/mode=%s/copies=%d/conc=%v", c.Host, c.Mode, c.Readers, c.ReadConc))
	}
	if c.hasUtils() {
		for _, t := range c.Tools {
			if c17IsUtilsKind(t.Kind) {
				ctx.Res.Dist("utils-tool=" + t.Kind + "/" + t.Req)
			}
		}
		rep := map[string]int{}
		most := 0
		for _, cl := range c.Calls {
			rep[cl.Name]++
			if rep[cl.Name] > most {
				most = rep[cl.Name]
			}
		}
		ctx.Res.Dist(fmt.Sprintf("utils-same-tool-calls=%d", most))
		ctx.Res.Dist(fmt.Sprintf("utils-prior=%d/overlap=%v", len(c.Prior), c.Overlap))
	}
	if c.hasLate() {
		nl := 0
		for _, cl := range c.Calls {
			if cl.Late {
				nl++
				od := cl.OnDone
				if od == "" {
					od = "fail"
				}
				ctx.Res.Dist("late-onDone=" + od)
			}
		}
		ctx.Res.Dist(fmt.Sprintf("late-calls=%d", nl))
		ctx.Res.Dist("late/mode=" + c.Mode + "/host=" + c.Host)
		switch {
		case c.CancelAfter == nil:
			ctx.Res.Dist("late-cancel=never")
		case *c.CancelAfter == 0:
			ctx.Res.Dist("late-cancel=before-first-step")
		case *c.CancelAfter >= len(c.Prod):
			ctx.Res.Dist("late-cancel=after-script")
		default:
			ctx.Res.Dist("late-cancel=mid-script")
		}
		ctx.Res.Dist(fmt.Sprintf("late-ctx-errors-delivered=%d", len(got.CtxErrs)))
	}
	for _, m := range got.Collected {
		if m == nil {
			// a streamable tool with an empty stream: Invoke fails, the streamed form has a
			// hole (outside tools_stream_agrees; Props/C17.lean empty_stream_disagrees)
			ctx.Res.Dist("stream-hole-from-empty-tool-stream")
			break
		}
	}
	ctx.Res.Count(c17Key(c), len(c.Calls) >= 2 && m.Ran > 0)
	ctx.Res.Sample(c)

	what, text := c17Diff(c, want, got)
	if what == "" {
		return nil
	}
	if c.hasUtils() {
		c17UtilsBroken = true
	}
	// shrink: drop trailing calls / chunkings / unused tools while the same observable differs
	var sc *c17Case
	var sw, sg *c17Obs
	// the framework keeps 3 disagreements per signature: shrinking more of one kind is wasted time
	c17ShrunkMu.Lock()
	c17Shrunk[c17Sig(c, what)]++
	doShrink := c17Shrunk[c17Sig(c, what)] <= 6
	c17ShrunkMu.Unlock()
	if ctx.Replay == nil && doShrink {
		sc, sw, sg = c17Shrink(ctx, c, what)
	}
	if sc != nil {
		c, want, got = sc, sw, sg
		_, text = c17Diff(c, want, got)
	}
	ctx.Res.Disagree(vh.Disagreement{Signature: c17Sig(c, what), What: text, Case: c, Model: want, Impl: got})
	return nil
}

// c17Diff names the first compared observable on which the implementation and the model
// differ ("" = agreement).
func c17Diff(c *c17Case, want, got *c17Obs) (what, text string) {
	// violation classes that need no model
	if got.Class == "hang" {
		return "hang", "the call did not return within the timeout under the barrier script"
	}
	if got.Class == "panic" && c.Host != "standalone" {
		return "panic-escapes-run", "a tool panic left the graph run as a panic instead of an error"
	}
	// graphConcat: the framework concatenates before the next node; an error of that
	// concatenation is an error of the run
	if c17ConcatHost(c) && c.Mode == "stream" && want.Class == "ok" && want.CollErr != "" {
		if got.Class != "err" {
			return "concat-class", "model: the streamed form cannot be concatenated (" + want.CollErr + "); the implementation did not fail"
		}
		return "", ""
	}
	switch {
	case got.Class != want.Class:
		what = "class"
	case got.Note != "":
		what = "shape"
	case got.Ran != want.Ran:
		what = "executions"
	case !vh.CanonEq(got.Err, want.Err):
		what = "which-error"
	case got.PanicID != want.PanicID:
		what = "which-panic"
	case c.Mode != "stream" && got.Class == "ok" && !vh.CanonEq(got.Msgs, want.Msgs):
		what = "messages"
	case c.Mode == "stream" && got.Class == "ok" && !c17SameInts(got.CtxErrs, want.CtxErrs):
		// a source delivered its context's error although the model's context is alive (or
		// did not although the caller had cancelled)
		what = "stream-ctx-error"
	case c.Mode == "stream" && got.Class == "ok" && !c17ConcatHost(c) && !vh.CanonEq(got.Sources, want.Sources):
		what = "stream-chunks"
	case c.Mode == "stream" && got.Class == "ok" && (got.CollErr != want.CollErr || !vh.CanonEq(got.Collected, want.Collected)):
		what = "stream-concat"
	case got.Class == "ok" && (!vh.CanonEq(got.Readers, want.Readers) || !vh.CanonEq(got.ReaderErrs, want.ReaderErrs)):
		// a further consumer of the node's stream did not get the list the first one got
		what = "reader-concat"
	case got.Class == "ok" && got.Modified != "":
		what = "chunks-modified"
	}
	if what != "" {
		text = fmt.Sprintf("%s differs between the implementation and the model (completion order %v)", what, c.Sigma)
	}
	return what, text
}

func c17SameInts(a, b []int) bool {
	if len(a) != len(b) {
		return false
	}
	for i := range a {
		if a[i] != b[i] {
			return false
		}
	}
	return true
}

func c17Clone(c *c17Case) *c17Case {
	b, _ := json.Marshal(c)
	var d c17Case
	json.Unmarshal(b, &d)
	if d.Calls == nil {
		d.Calls = []c17Call{}
	}
	if d.Sigma == nil {
		d.Sigma = []int{}
	}
	if d.Sched == nil {
		d.Sched = []int{}
	}
	return &d
}

// c17Shrink tries smaller variants (at most ~40 oracle+implementation runs); a variant is
// kept when the same observable still differs.
func c17Shrink(ctx *vh.Ctx, c *c17Case, what string) (*c17Case, *c17Obs, *c17Obs) {
	var best *c17Case
	var bw, bg *c17Obs
	cur := c
	try := func(d *c17Case) bool {
		raw, err := ctx.Oracle.Ask("C17", d)
		if err != nil {
			return false
		}
		var m c17Model
		if json.Unmarshal(raw, &m) != nil {
			return false
		}
		want := c17Expect(d, &m)
		ctx.Progress.Mark(d)
		got := c17RunImpl(d)
		if w, _ := c17Diff(d, want, got); w == what && c17SigBase(d, what) == c17SigBase(c, what) {
			if d.hasUtils() {
				// what goes wrong between overlapping calls of a utils-built tool may depend on
				// the order in which they decode: keep a smaller case only if it fails again
				for rep := 0; rep < 2; rep++ {
					ctx.Progress.Mark(d)
					if w2, _ := c17Diff(d, want, c17RunImpl(d)); w2 != what {
						return false
					}
				}
			}
			best, bw, bg, cur = d, want, got, d
			return true
		}
		return false
	}
	for budget := 40; budget > 0; {
		progress := false
		// family `readers`: fewer copies, read in turn
		if cur.Readers > 2 || cur.ReadConc {
			d := c17Clone(cur)
			if d.ReadConc {
				d.ReadConc = false
			} else {
				d.Readers--
			}
			budget--
			if try(d) {
				progress = true
			}
		}
		// family `utils`: no earlier message
		if len(cur.Prior) > 0 {
			d := c17Clone(cur)
			d.Prior = nil
			budget--
			if try(d) {
				progress = true
			}
		}
		// (the forced overlap is kept: without it whether the calls overlap is up to the scheduler
		// and the replay of the shrunk case would not be deterministic)
		// leave the family `late`: every producer eager, nobody cancels
		if cur.hasLate() || cur.CancelAfter != nil || len(cur.Prod) > 0 {
			d := c17Clone(cur)
			for i := range d.Calls {
				d.Calls[i].Late, d.Calls[i].Hold, d.Calls[i].OnDone = false, 0, ""
			}
			d.Prod, d.CancelAfter = nil, nil
			budget--
			if try(d) {
				progress = true
				continue
			}
			// or at least: nobody cancels / one late call only
			if cur.CancelAfter != nil {
				d := c17Clone(cur)
				d.CancelAfter = nil
				budget--
				if try(d) {
					progress = true
				}
			}
			nl := 0
			for _, cl := range cur.Calls {
				if cl.Late {
					nl++
				}
			}
			for i := 0; nl > 1 && i < len(cur.Calls); i++ {
				if !cur.Calls[i].Late {
					continue
				}
				d := c17Clone(cur)
				d.Calls[i].Late, d.Calls[i].Hold, d.Calls[i].OnDone = false, 0, ""
				budget--
				if try(d) {
					progress = true
					nl--
				}
			}
		}
		// drop the last call (positions of the others stay valid)
		if n := len(cur.Calls); n > 1 {
			d := c17Clone(cur)
			d.Calls = d.Calls[:n-1]
			var sg []int
			for _, k := range d.Sigma {
				if k != n-1 {
					sg = append(sg, k)
				}
			}
			d.Sigma = sg
			if d.Sigma == nil {
				d.Sigma = []int{}
			}
			d.Sched = []int{}
			var pr []int
			for _, k := range d.Prod {
				if k != n-1 {
					pr = append(pr, k)
				}
			}
			d.Prod = pr
			budget--
			if try(d) {
				progress = true
				continue
			}
		}
		// one chunk per stream, array-backed streams, tools from the config
		if d := c17Clone(cur); true {
			changed := d.Pipe || d.ViaOption || d.ToolOpt || len(d.Sched) > 0
			d.Pipe, d.ViaOption, d.ToolOpt, d.Sched = false, false, false, []int{}
			for i := range d.Calls {
				if len(d.Calls[i].Cuts) > 0 && !d.Calls[i].Late {
					d.Calls[i].Cuts = nil
					changed = true
				}
			}
			if changed {
				budget--
				if try(d) {
					progress = true
				}
			}
		}
		// drop tools no call names
		if d := c17Clone(cur); true {
			used := map[string]bool{}
			for _, cl := range d.Calls {
				used[cl.Name] = true
			}
			var ts []c17Tool
			for _, t := range d.Tools {
				if used[t.Name] {
					ts = append(ts, t)
				}
			}
			if len(ts) < len(d.Tools) && len(ts) > 0 {
				d.Tools = ts
				budget--
				if try(d) {
					progress = true
				}
			}
		}
		// identity completion order
		if d := c17Clone(cur); true {
			ident := true
			for i, k := range d.Sigma {
				if i != k {
					ident = false
				}
			}
			if !ident {
				for i := range d.Sigma {
					d.Sigma[i] = i
				}
				budget--
				if try(d) {
					progress = true
				}
			}
		}
		if !progress {
			break
		}
	}
	return best, bw, bg
}

func c17Batch(ctx *vh.Ctx, cs []*c17Case) error {
	if len(cs) == 0 {
		return nil
	}
	anys := make([]any, len(cs))
	for i, c := range cs {
		anys[i] = c
	}
	raws, err := ctx.Oracle.AskBatch("C17", anys)
	if err != nil {
		return err
	}
	for i, c := range cs {
		if err := c17Compare(ctx, c, raws[i]); err != nil {
			return err
		}
	}
	return nil
}

func runC17(ctx *vh.Ctx) error {
	ctx.Res.Rule = "tool-call lists of 0-6 calls (repeated tools, unknown names, odd ids) x invokable-only / streamable-only / both tools x completion order forced by a barrier script (tool i returns only when released; releases follow the permutation) x failing / panicking subsets x with/without unknown-tool handler x Invoke / Stream x standalone / graph / graph with framework-side concatenation; systematic part: every permutation of n<=4 (thorough: n<=5) calls x 0-2 faulty positions (error/panic) x Invoke/Stream; every execution also checks that the tool saw its own call id in the context and the tool option of the call; family late: streamable tools that send only their first chunks before StreamableRun returns and the others afterwards, looking at their context before each (fail / stop / ignore on a done context), the late steps of all producers forced into a scripted order (the script starts when Stream has returned and releases each step when the previous one has been taken), the caller cancelling its context never or a given number of steps into the script (systematic: 1-3 calls x late position x str/both x hold x onDone x cancel never/0/1/2 x standalone/graph, never-cancelled also as Invoke and with framework-side concatenation); family utils: tools built by utils.Infer(Optionable)(Stream)Tool / New(Stream)Tool over a request struct / pointer / map with optional fields, JSON arguments with any subset of the fields in any order, the same tool called several times in one message with different arguments, the user's function finding its call by the call id in the context and reading its request only after the script released it, the first release only when all calls of the message are inside their tools (overlap), optionally an earlier message through the same node (systematic: 2-3 calls of one tool x uinv/ustr x val/ptr/map x Invoke/Stream x standalone/graph x with/without earlier message x identity/reversed completion); id patterns: messages whose call ids are all equal / partly repeated / empty / repeated and empty (96 systematic cases, and in a fifth of the random messages), calls being told apart by position everywhere; family readers: several consumers of the node's stream, each concatenating (Copy(2..4) on standalone / graph, the copies read and concatenated in turn or concurrently; graph tools -> non-stream branch condition -> non-stream node; graph tools -> two non-stream successors; run with Stream and Invoke), every consumer's list compared with the model's and every chunk compared with the deep copy made when it was received; non-trivial = at least 2 calls and the tools were run; distinct by (mode, host, tool kinds, call names, permutation, fault positions, handler, tool-list option, late calls with hold/onDone, cancellation point, request types of the utils tools, earlier message, overlap, number of readers / concurrent reading)"
	if ctx.Replay != nil {
		var c c17Case
		if err := json.Unmarshal(ctx.Replay, &c); err != nil {
			return err
		}
		return c17Batch(ctx, []*c17Case{&c})
	}
	sys := c17Systematic(ctx.N(4, 5))
	// the systematic part is deterministic; the seed picks where it starts so that quick
	// runs with different seeds cover different slices when the budget cuts it short
	off := 0
	if len(sys) > 0 {
		off = ctx.Rng.Intn(len(sys))
	}
	for i := 0; i < len(sys) && ctx.TimeLeft(); i += 200 {
		var b []*c17Case
		for j := i; j < i+200 && j < len(sys); j++ {
			b = append(b, sys[(j+off)%len(sys)])
		}
		if err := c17Batch(ctx, b); err != nil {
			return err
		}
	}
	// id patterns, systematic part
	if err := c17Batch(ctx, c17SystematicIDs()); err != nil {
		return err
	}
	// family `late`, systematic part (deterministic; the seed picks the start)
	lsys := c17SystematicLate()
	loff := ctx.Rng.Intn(len(lsys))
	for i := 0; i < len(lsys) && ctx.TimeLeft(); i += 200 {
		var b []*c17Case
		for j := i; j < i+200 && j < len(lsys); j++ {
			b = append(b, lsys[(j+loff)%len(lsys)])
		}
		if err := c17Batch(ctx, b); err != nil {
			return err
		}
	}
	// family `readers`, systematic part
	rsys := c17SystematicReaders()
	roff := ctx.Rng.Intn(len(rsys))
	for i := 0; i < len(rsys) && ctx.TimeLeft(); i += 200 {
		var b []*c17Case
		for j := i; j < i+200 && j < len(rsys); j++ {
			b = append(b, rsys[(j+roff)%len(rsys)])
		}
		if err := c17Batch(ctx, b); err != nil {
			return err
		}
	}
	// family `utils`, systematic part
	usys := c17SystematicUtils()
	for i := 0; i < len(usys) && ctx.TimeLeft(); i += 200 {
		var b []*c17Case
		for j := i; j < i+200 && j < len(usys); j++ {
			b = append(b, usys[j]) // fixed order: pointer / struct requests before map requests
		}
		if err := c17Batch(ctx, b); err != nil {
			return err
		}
	}
	n := ctx.N(12000, 100000)
	for done := 0; done < n && ctx.TimeLeft(); done += 200 {
		var b []*c17Case
		for j := 0; j < 200 && done+j < n; j++ {
			if j%4 == 3 { // a quarter of the random cases are of the family `late`
				b = append(b, c17GenLate(ctx.Rng))
			} else if j%8 == 1 { // an eighth of the family `utils`
				b = append(b, c17GenUtils(ctx.Rng))
			} else if j%8 == 5 { // an eighth of the family `readers`
				b = append(b, c17GenReaders(ctx.Rng))
			} else {
				b = append(b, c17Gen(ctx.Rng))
			}
		}
		if err := c17Batch(ctx, b); err != nil {
			return err
		}
	}
	return nil
}
