//go:build verif && (vh_all || vh_c16)

package props

import (
	"context"
	"encoding/json"
	"fmt"
	"io"
	"reflect"
	"sort"
	"strings"
	"sync"
	"time"

	"github.com/cloudwego/eino/callbacks"
	"github.com/cloudwego/eino/components/model"
	"github.com/cloudwego/eino/components/retriever"
	"github.com/cloudwego/eino/compose"
	"github.com/cloudwego/eino/schema"
	"github.com/cloudwego/eino/verifharness/vh"
)

func init() { vh.Register("C16", runC16) }

// ---------------------------------------------------------------------------------------
// case language (the oracle reads store / calls[].g / calls[].ixs; the rest tells the
// implementation side how to build and call)
// ---------------------------------------------------------------------------------------

// option types: 0 = node takes no option (lambda built without options: unreachableOption),
// 1..4 = lambda option types A..D (struct, struct, func, pointer), 5 = model.Option,
// 6 = retriever.Option; 7 = `any` and 8 = c16OptI (a small interface): lambdas whose declared
// option type is an interface type – no Option has such a type, the type of an Option is the
// dynamic type of its values; 9 = c16OptE, a struct that implements c16OptI (tags as in
// Model/C16.lean: tyAny, tyIface, tyImpl).
const (
	c16TyNone = 0
	c16TyA    = 1
	c16TyB    = 2
	c16TyC    = 3
	c16TyD    = 4
	c16TyM    = 5
	c16TyR    = 6
	c16TyAny  = 7
	c16TyI    = 8
	c16TyE    = 9
)

// the concrete option types (what an Option can carry)
var c16ConcreteTys = []int{c16TyA, c16TyB, c16TyC, c16TyD, c16TyM, c16TyR, c16TyE}

func c16IsIfaceTy(t int) bool { return t == c16TyAny || t == c16TyI }

type c16Node struct {
	K    string    `json:"k"` // comp | pass | graph
	Key  string    `json:"key"`
	Ty   int       `json:"ty"`
	Impl string    `json:"impl,omitempty"` // comp: lambda | model | retriever
	Dag  bool      `json:"dag,omitempty"`  // graph: compiled with AllPredecessor trigger mode
	Ch   []c16Node `json:"ch,omitempty"`
	// comp / graph: the node is added with WithInputKey / WithOutputKey (c16_keys.go)
	InKey  string `json:"inKey,omitempty"`
	OutKey string `json:"outKey,omitempty"`
	// lambda: it can interrupt (returns compose.InterruptAndRerun when the call asks it to) and takes
	// a string, so that it can be run again from a checkpoint with the zero input (c16_resume.go)
	Intr bool `json:"intr,omitempty"`
}

type c16Opt struct {
	Ty       int        `json:"ty"`
	Vals     []int      `json:"vals"`
	Handlers []int      `json:"handlers"`
	Paths    [][]string `json:"paths"`
	ViaKey   bool       `json:"viaKey,omitempty"` // build single-key paths with DesignateNode
	// Spare: unused cells behind the values in the slice handed to WithLambdaOption, which keeps
	// the caller's slice (cap = len + spare); only for the lambda option types (c16_slices.go)
	Spare int `json:"spare,omitempty"`
}

type c16Call struct {
	G        []c16Node `json:"g"`
	Ixs      []int     `json:"ixs"`
	Paradigm string    `json:"paradigm,omitempty"` // invoke | stream | collect | transform
	Dag      bool      `json:"dag,omitempty"`
	// Ask: "" an ordinary call | "interrupt": the call carries a new checkpoint id and the lambda at
	// path At interrupts on its execution | "resume": the call carries the checkpoint id of the last
	// "interrupt" call before it (c16_resume.go)
	Ask string   `json:"ask,omitempty"`
	At  []string `json:"at,omitempty"`
}

// c16BuildOp is one step of constructing Option values: a fresh base, or an Option derived
// from an earlier one with DesignateNode / DesignateNodeWithPath. Every op yields one Option;
// when a case has Build ops, the store is exactly the Options they yield (Store is then only
// the specification view: base attributes, base paths ++ added paths).
type c16BuildOp struct {
	Op       string     `json:"op"` // base | designate
	Ty       int        `json:"ty"`
	Vals     []int      `json:"vals"`
	Handlers []int      `json:"handlers"`
	Src      int        `json:"src"`
	Paths    [][]string `json:"paths"`
	ViaKey   bool       `json:"viaKey,omitempty"`
	Spare    int        `json:"spare,omitempty"` // base: see c16Opt.Spare; a derived Option shares the base's array
}

type c16Case struct {
	Store []c16Opt     `json:"store"`
	Build []c16BuildOp `json:"build,omitempty"`
	Calls []c16Call    `json:"calls"`
	Mode  string       `json:"mode"` // seq | conc
	Reps  int          `json:"reps,omitempty"`
	Kind  string       `json:"kind"` // generator stream
}

type c16Entry struct {
	Path []string `json:"path"`
	G    bool     `json:"g"`
	Vals []int    `json:"vals"`
	Hs   []int    `json:"hs"`
}

type c16Err struct {
	At    []string `json:"at"`
	Class string   `json:"class"`
}

type c16Result struct {
	Err     *c16Err    `json:"err"`
	Entries []c16Entry `json:"entries"`
	Note    string     `json:"note,omitempty"`
}

type c16Out struct {
	Results []c16Result `json:"results"`
	Store   []c16Opt    `json:"store"`
	Arrays  [][]int     `json:"arrays"` // per Option of the store: cells [0, cap) of its value array after the calls
}

// ---------------------------------------------------------------------------------------
// option value types and instrumented nodes
// ---------------------------------------------------------------------------------------

type c16OptA struct{ ID int }
type c16OptB struct{ ID int }
type c16OptC func(ids *[]int)
type c16BoxD struct{ ID int }
type c16OptD *c16BoxD

// c16OptI: a small interface used as the declared option type of a lambda; c16OptE implements it
type c16OptI interface{ OptID() int }
type c16OptE struct{ ID int }

func (e c16OptE) OptID() int { return e.ID }

// c16AnyIDs: the ids of option values of whatever type a lambda declared with an interface
// option type is handed (nothing, on a correct implementation)
func c16AnyIDs(vs []any) []int {
	ids := make([]int, 0, len(vs))
	for _, v := range vs {
		switch o := v.(type) {
		case c16OptA:
			ids = append(ids, o.ID)
		case c16OptB:
			ids = append(ids, o.ID)
		case c16OptC:
			o(&ids)
		case c16OptD:
			ids = append(ids, o.ID)
		case c16OptE:
			ids = append(ids, o.ID)
		case model.Option:
			ids = append(ids, c16ModelIDs([]model.Option{o})...)
		case retriever.Option:
			ids = append(ids, c16RetrIDs([]retriever.Option{o})...)
		default:
			ids = append(ids, -2)
		}
	}
	return ids
}

// c16CheckTypeMenu: the `implements` relation the model has built in (Model/C16.lean
// implementsTy) is the one Go's reflect sees for the menu: every type implements `any`, only
// c16OptE implements c16OptI.
func c16CheckTypeMenu() error {
	it := reflect.TypeOf((*c16OptI)(nil)).Elem()
	samples := map[int]any{c16TyA: c16OptA{}, c16TyB: c16OptB{}, c16TyC: c16OptC(func(*[]int) {}), c16TyD: c16OptD(&c16BoxD{}),
		c16TyM: model.WithMaxTokens(1), c16TyR: retriever.WithTopK(1), c16TyE: c16OptE{}}
	for ty, v := range samples {
		if got, want := reflect.TypeOf(v).Implements(it), ty == c16TyE; got != want {
			return fmt.Errorf("C16 type menu: type %d implements c16OptI = %v, the model assumes %v", ty, got, want)
		}
		if reflect.TypeOf(v).Kind() == reflect.Interface {
			return fmt.Errorf("C16 type menu: option type %d is an interface type", ty)
		}
	}
	return nil
}

type c16RecKey struct{}

// c16Rec collects what one call observes; it travels in the call's context.
type c16Rec struct {
	mu   sync.Mutex
	vals map[string][][]int // node path -> option ids per execution
	hs   map[string][]int   // node name (= path) -> handler ids whose OnStart fired
	// the lambda with this path name interrupts (InterruptAndRerun) after it has recorded its options
	interruptAt string
}

func c16NewRec() *c16Rec { return &c16Rec{vals: map[string][][]int{}, hs: map[string][]int{}} }

func c16RecOf(ctx context.Context) *c16Rec {
	r, _ := ctx.Value(c16RecKey{}).(*c16Rec)
	return r
}

func (r *c16Rec) addVals(path string, ids []int) {
	if r == nil {
		return
	}
	r.mu.Lock()
	r.vals[path] = append(r.vals[path], append([]int{}, ids...))
	r.mu.Unlock()
}

func (r *c16Rec) addH(name string, id int) {
	if r == nil {
		return
	}
	r.mu.Lock()
	r.hs[name] = append(r.hs[name], id)
	r.mu.Unlock()
}

const c16TopName = "<top>"

// what the node must hand to its successor so that the chain type-checks at run time
const (
	c16OutAny  = 0
	c16OutMsgs = 1 // next node is a chat model
	c16OutStr  = 2 // next node is a retriever
)

func c16Output(s c16Spec) any { return c16Value(s) }

// c16LamOpt: an instrumented lambda with input type I and option type T.
func c16LamOpt[I any, T any](path string, out c16Spec, ids func([]T) []int) *compose.Lambda {
	return compose.InvokableLambdaWithOption(func(ctx context.Context, in I, opts ...T) (any, error) {
		c16RecOf(ctx).addVals(path, ids(opts))
		return c16Finish(ctx, path, out)
	})
}

// c16LamPick: input type `any`, or `string` for a lambda that can interrupt (a node that is run
// again from a checkpoint gets the zero value of its input type; nil does not pass for `any`).
func c16LamPick[T any](strIn bool, path string, out c16Spec, ids func([]T) []int) *compose.Lambda {
	if strIn {
		return c16LamOpt[string, T](path, out, ids)
	}
	return c16LamOpt[any, T](path, out, ids)
}

// c16Finish: what an instrumented lambda returns: the value its successor needs, or – when the
// call asks this node to – InterruptAndRerun.
func c16Finish(ctx context.Context, path string, out c16Spec) (any, error) {
	if r := c16RecOf(ctx); r != nil && r.interruptAt != "" && r.interruptAt == path {
		return nil, compose.InterruptAndRerun
	}
	return c16Output(out), nil
}

func c16Lambda(ty int, path string, out c16Spec, strIn bool) *compose.Lambda {
	switch ty {
	case c16TyA:
		return c16LamPick(strIn, path, out, func(opts []c16OptA) []int {
			ids := make([]int, 0, len(opts))
			for _, o := range opts {
				ids = append(ids, o.ID)
			}
			return ids
		})
	case c16TyB:
		return c16LamPick(strIn, path, out, func(opts []c16OptB) []int {
			ids := make([]int, 0, len(opts))
			for _, o := range opts {
				ids = append(ids, o.ID)
			}
			return ids
		})
	case c16TyC:
		return c16LamPick(strIn, path, out, func(opts []c16OptC) []int {
			ids := make([]int, 0, len(opts))
			for _, o := range opts {
				o(&ids)
			}
			return ids
		})
	case c16TyD:
		return c16LamPick(strIn, path, out, func(opts []c16OptD) []int {
			ids := make([]int, 0, len(opts))
			for _, o := range opts {
				ids = append(ids, o.ID)
			}
			return ids
		})
	case c16TyAny:
		return c16LamPick(strIn, path, out, c16AnyIDs)
	case c16TyI:
		return c16LamPick(strIn, path, out, func(opts []c16OptI) []int {
			ids := make([]int, 0, len(opts))
			for _, o := range opts {
				ids = append(ids, o.OptID())
			}
			return ids
		})
	case c16TyE:
		return c16LamPick(strIn, path, out, func(opts []c16OptE) []int {
			ids := make([]int, 0, len(opts))
			for _, o := range opts {
				ids = append(ids, o.ID)
			}
			return ids
		})
	case c16TyM:
		return c16LamPick(strIn, path, out, c16ModelIDs)
	case c16TyR:
		return c16LamPick(strIn, path, out, c16RetrIDs)
	}
	if strIn {
		return compose.InvokableLambda(func(ctx context.Context, in string) (any, error) {
			c16RecOf(ctx).addVals(path, nil)
			return c16Finish(ctx, path, out)
		})
	}
	return compose.InvokableLambda(func(ctx context.Context, in any) (any, error) {
		c16RecOf(ctx).addVals(path, nil)
		return c16Finish(ctx, path, out)
	})
}

func c16ModelIDs(opts []model.Option) []int {
	ids := make([]int, 0, len(opts))
	for _, o := range opts {
		c := model.GetCommonOptions(&model.Options{}, o)
		if c.MaxTokens != nil {
			ids = append(ids, *c.MaxTokens)
		} else {
			ids = append(ids, -1)
		}
	}
	return ids
}

func c16RetrIDs(opts []retriever.Option) []int {
	ids := make([]int, 0, len(opts))
	for _, o := range opts {
		c := retriever.GetCommonOptions(&retriever.Options{}, o)
		if c.TopK != nil {
			ids = append(ids, *c.TopK)
		} else {
			ids = append(ids, -1)
		}
	}
	return ids
}

type c16Model struct{ path string }

func (m *c16Model) Generate(ctx context.Context, in []*schema.Message, opts ...model.Option) (*schema.Message, error) {
	c16RecOf(ctx).addVals(m.path, c16ModelIDs(opts))
	return schema.AssistantMessage("a", nil), nil
}

func (m *c16Model) Stream(ctx context.Context, in []*schema.Message, opts ...model.Option) (*schema.StreamReader[*schema.Message], error) {
	c16RecOf(ctx).addVals(m.path, c16ModelIDs(opts))
	return schema.StreamReaderFromArray([]*schema.Message{schema.AssistantMessage("a", nil)}), nil
}

type c16Retriever struct{ path string }

func (r *c16Retriever) Retrieve(ctx context.Context, q string, opts ...retriever.Option) ([]*schema.Document, error) {
	c16RecOf(ctx).addVals(r.path, c16RetrIDs(opts))
	return []*schema.Document{{ID: "d", Content: "c"}}, nil
}

var c16Handlers sync.Map // id -> callbacks.Handler (one value per id, shared by all cases)

func c16Handler(id int) callbacks.Handler {
	if h, ok := c16Handlers.Load(id); ok {
		return h.(callbacks.Handler)
	}
	h := callbacks.NewHandlerBuilder().OnStartFn(func(ctx context.Context, info *callbacks.RunInfo, input callbacks.CallbackInput) context.Context {
		c16RecOf(ctx).addH(info.Name, id)
		return ctx
	}).OnStartWithStreamInputFn(func(ctx context.Context, info *callbacks.RunInfo, input *schema.StreamReader[callbacks.CallbackInput]) context.Context {
		input.Close()
		c16RecOf(ctx).addH(info.Name, id)
		return ctx
	}).Build()
	act, _ := c16Handlers.LoadOrStore(id, h)
	return act.(callbacks.Handler)
}

// ---------------------------------------------------------------------------------------
// building graphs and options from a case
// ---------------------------------------------------------------------------------------

func c16PathName(pre []string, key string) string {
	return strings.Join(append(append([]string{}, pre...), key), "/")
}

// c16BuildGraph builds one level of the tree; `after` is what the value leaving the level's last
// node must be (c16Flow tells every lambda what to return).
func c16BuildGraph(nodes []c16Node, pre []string, after c16Spec) (*compose.Graph[any, any], error) {
	g := compose.NewGraph[any, any]()
	prev := compose.START
	outs, _, flowOK := c16Flow(nodes, after)
	if !flowOK {
		return nil, fmt.Errorf("harness: the input / output keys below %v do not fit", pre)
	}
	for i := range nodes {
		n := &nodes[i]
		name := c16PathName(pre, n.Key)
		nodeOpts := []compose.GraphAddNodeOpt{compose.WithNodeName(name)}
		if n.InKey != "" {
			nodeOpts = append(nodeOpts, compose.WithInputKey(n.InKey))
		}
		if n.OutKey != "" {
			nodeOpts = append(nodeOpts, compose.WithOutputKey(n.OutKey))
		}
		var err error
		switch n.K {
		case "pass":
			err = g.AddPassthroughNode(n.Key, nodeOpts...)
		case "graph":
			var sub *compose.Graph[any, any]
			sub, err = c16BuildGraph(n.Ch, append(append([]string{}, pre...), n.Key), outs[i])
			if err == nil {
				if n.Dag {
					nodeOpts = append(nodeOpts, compose.WithGraphCompileOptions(compose.WithNodeTriggerMode(compose.AllPredecessor)))
				}
				err = g.AddGraphNode(n.Key, sub, nodeOpts...)
			}
		default:
			switch n.Impl {
			case "model":
				err = g.AddChatModelNode(n.Key, &c16Model{path: name}, nodeOpts...)
			case "retriever":
				err = g.AddRetrieverNode(n.Key, &c16Retriever{path: name}, nodeOpts...)
			default:
				err = g.AddLambdaNode(n.Key, c16Lambda(n.Ty, name, outs[i], n.Intr), nodeOpts...)
			}
		}
		if err != nil {
			return nil, fmt.Errorf("add node %s: %w", name, err)
		}
		if err = g.AddEdge(prev, n.Key); err != nil {
			return nil, fmt.Errorf("edge to %s: %w", name, err)
		}
		prev = n.Key
	}
	if err := g.AddEdge(prev, compose.END); err != nil {
		return nil, err
	}
	return g, nil
}

func c16Compile(call *c16Call) (compose.Runnable[any, any], error) {
	g, err := c16BuildGraph(call.G, nil, c16SpecAny)
	if err != nil {
		return nil, err
	}
	opts := []compose.GraphCompileOption{compose.WithGraphName(c16TopName)}
	if call.Ask != "" {
		opts = append(opts, compose.WithCheckPointStore(c16NewCPStore()))
	}
	if call.Dag {
		opts = append(opts, compose.WithNodeTriggerMode(compose.AllPredecessor))
	}
	return g.Compile(context.Background(), opts...)
}

func c16BuildOption(o *c16Opt) compose.Option {
	opt, _ := c16BuildOptionB(o)
	return opt
}

// c16BuildOptionB also returns the whole backing array (all cap cells) of the value slice when
// the caller keeps it (lambda option types: WithLambdaOption stores the slice it is handed).
func c16BuildOptionB(o *c16Opt) (compose.Option, []any) {
	var opt compose.Option
	var backing []any
	switch {
	case len(o.Vals) > 0:
		switch o.Ty {
		case c16TyM:
			vs := make([]model.Option, 0, len(o.Vals))
			for _, v := range o.Vals {
				vs = append(vs, model.WithMaxTokens(v))
			}
			opt = compose.WithChatModelOption(vs...)
		case c16TyR:
			vs := make([]retriever.Option, 0, len(o.Vals))
			for _, v := range o.Vals {
				vs = append(vs, retriever.WithTopK(v))
			}
			opt = compose.WithRetrieverOption(vs...)
		default:
			spare := o.Spare
			if spare < 0 {
				spare = 0
			}
			vs := make([]any, 0, len(o.Vals)+spare)
			backing = vs[:cap(vs)]
			for _, v := range o.Vals {
				id := v
				switch o.Ty {
				case c16TyA:
					vs = append(vs, c16OptA{ID: id})
				case c16TyB:
					vs = append(vs, c16OptB{ID: id})
				case c16TyC:
					vs = append(vs, c16OptC(func(ids *[]int) { *ids = append(*ids, id) }))
				case c16TyE:
					vs = append(vs, c16OptE{ID: id})
				default:
					vs = append(vs, c16OptD(&c16BoxD{ID: id}))
				}
			}
			opt = compose.WithLambdaOption(vs...)
		}
	case len(o.Handlers) > 0:
		hs := make([]callbacks.Handler, 0, len(o.Handlers))
		for _, h := range o.Handlers {
			hs = append(hs, c16Handler(h))
		}
		opt = compose.WithCallbacks(hs...)
	default:
		opt = compose.Option{}
	}
	if len(o.Paths) == 0 {
		return opt, backing
	}
	return c16Designate(opt, o.Paths, o.ViaKey), backing
}

// c16Designate derives an Option from opt through the public API.
func c16Designate(opt compose.Option, paths [][]string, viaKey bool) compose.Option {
	allSingle := true
	for _, p := range paths {
		if len(p) != 1 {
			allSingle = false
		}
	}
	if viaKey && allSingle {
		keys := make([]string, 0, len(paths))
		for _, p := range paths {
			keys = append(keys, p[0])
		}
		return opt.DesignateNode(keys...)
	}
	nps := make([]*compose.NodePath, 0, len(paths))
	for _, p := range paths {
		nps = append(nps, compose.NewNodePath(append([]string{}, p...)...))
	}
	return opt.DesignateNodeWithPath(nps...)
}

// c16BuildStore runs the construction sequence on the real API.
func c16BuildStore(ops []c16BuildOp) ([]compose.Option, [][]any) {
	store := make([]compose.Option, 0, len(ops))
	backing := make([][]any, 0, len(ops))
	for i := range ops {
		op := &ops[i]
		if op.Op == "designate" && op.Src >= 0 && op.Src < len(store) {
			store = append(store, c16Designate(store[op.Src], op.Paths, op.ViaKey))
			backing = append(backing, backing[op.Src]) // the derived Option shares the array
			continue
		}
		o, b := c16BuildOptionB(&c16Opt{Ty: op.Ty, Vals: op.Vals, Handlers: op.Handlers, Spare: op.Spare})
		store = append(store, o)
		backing = append(backing, b)
	}
	return store, backing
}

// c16SyncStore recomputes the specification view of a constructed store: attributes of the
// base an Option derives from, base paths followed by the added paths.
func c16SyncStore(c *c16Case) {
	if len(c.Build) == 0 {
		return
	}
	st := make([]c16Opt, 0, len(c.Build))
	for i := range c.Build {
		op := &c.Build[i]
		if op.Op == "designate" && op.Src >= 0 && op.Src < len(st) {
			b := st[op.Src]
			o := c16Opt{Ty: b.Ty, Vals: append([]int{}, b.Vals...), Handlers: append([]int{}, b.Handlers...), Paths: [][]string{}, Spare: b.Spare}
			for _, p := range b.Paths {
				o.Paths = append(o.Paths, append([]string{}, p...))
			}
			for _, p := range op.Paths {
				o.Paths = append(o.Paths, append([]string{}, p...))
			}
			st = append(st, o)
			continue
		}
		st = append(st, c16Opt{Ty: op.Ty, Vals: append([]int{}, op.Vals...), Handlers: append([]int{}, op.Handlers...), Paths: [][]string{}, Spare: op.Spare})
	}
	c.Store = st
}

// ---------------------------------------------------------------------------------------
// running the implementation
// ---------------------------------------------------------------------------------------

func c16Classify(err error) *c16Err {
	msg := err.Error()
	e := &c16Err{At: []string{}, Class: "other"}
	if p, ok := compose.VerifErrNodePath(err); ok {
		e.At = append(e.At, p...)
	}
	if !strings.Contains(msg, "extract option fail") {
		return e
	}
	switch {
	case strings.Contains(msg, "unknown node"):
		e.Class = "unknownNode"
	case strings.Contains(msg, "sub path of a component"):
		e.Class = "subPath"
	case strings.Contains(msg, "is different from which the designated node"):
		e.Class = "wrongType"
	case strings.Contains(msg, "empty path"):
		e.Class = "emptyPath"
	default:
		e.Class = "extract-unclassified"
	}
	return e
}

// c16ModelPaths lists, in the model's order, the nodes that have an entry (comp and graph nodes).
func c16ModelPaths(nodes []c16Node, pre []string, out *[]c16Entry) {
	for i := range nodes {
		n := &nodes[i]
		p := append(append([]string{}, pre...), n.Key)
		switch n.K {
		case "comp":
			*out = append(*out, c16Entry{Path: p})
		case "graph":
			*out = append(*out, c16Entry{Path: p, G: true})
			c16ModelPaths(n.Ch, p, out)
		}
	}
}

// c16CallOnce runs one call.  cpID: the checkpoint id an "interrupt" / "resume" call carries;
// want: the nodes expected to execute (nil = all nodes of the tree: a call from START to END).
func c16CallOnce(r compose.Runnable[any, any], call *c16Call, opts []compose.Option, cpID string, want []c16Entry) c16Result {
	rec := c16NewRec()
	if call.Ask == "interrupt" {
		rec.interruptAt = strings.Join(call.At, "/")
	}
	if call.Ask != "" {
		opts = append(append([]compose.Option{}, opts...), compose.WithCheckPointID(cpID))
	}
	ctx := context.WithValue(context.Background(), c16RecKey{}, rec)
	var runErr error
	finished := false
	panicked, pv := vh.Safely(func() {
		finished = vh.WithTimeout(20*time.Second, func() {
			in := c16Input(call.G)
			drain := func(sr *schema.StreamReader[any]) {
				for {
					_, e := sr.Recv()
					if e == io.EOF {
						break
					}
					if e != nil {
						runErr = e
						break
					}
				}
				sr.Close()
			}
			switch call.Paradigm {
			case "stream":
				var sr *schema.StreamReader[any]
				if sr, runErr = r.Stream(ctx, in, opts...); runErr == nil {
					drain(sr)
				}
			case "collect":
				_, runErr = r.Collect(ctx, schema.StreamReaderFromArray([]any{in}), opts...)
			case "transform":
				var sr *schema.StreamReader[any]
				if sr, runErr = r.Transform(ctx, schema.StreamReaderFromArray([]any{in}), opts...); runErr == nil {
					drain(sr)
				}
			default:
				_, runErr = r.Invoke(ctx, in, opts...)
			}
		})
	})
	if panicked {
		return c16Result{Note: fmt.Sprint("panic:", pv), Entries: []c16Entry{}}
	}
	if !finished {
		return c16Result{Note: "hang", Entries: []c16Entry{}}
	}
	interrupted := false
	if runErr != nil {
		if _, isInt := compose.ExtractInterruptInfo(runErr); isInt && call.Ask == "interrupt" {
			interrupted = true // the call ended as asked: compare what the nodes that ran received
		} else {
			return c16Result{Err: c16Classify(runErr), Entries: []c16Entry{}, Note: runErr.Error()}
		}
	}
	res := c16Result{Entries: []c16Entry{}}
	if call.Ask == "interrupt" && !interrupted {
		res.Note += "no-interrupt:the call ran to END although " + strings.Join(call.At, "/") + " was asked to interrupt;"
	}
	rec.mu.Lock()
	defer rec.mu.Unlock()
	used := map[string]bool{}
	top := c16Entry{Path: []string{}, G: true, Vals: []int{}, Hs: append([]int{}, rec.hs[c16TopName]...)}
	used[c16TopName] = true
	sort.Ints(top.Hs)
	res.Entries = append(res.Entries, top)
	if want == nil {
		c16ModelPaths(call.G, nil, &want)
	}
	for _, w := range want {
		name := strings.Join(w.Path, "/")
		e := c16Entry{Path: w.Path, G: w.G, Vals: []int{}, Hs: append([]int{}, rec.hs[name]...)}
		sort.Ints(e.Hs)
		used[name] = true
		if !w.G {
			execs := rec.vals[name]
			switch len(execs) {
			case 1:
				e.Vals = append(e.Vals, execs[0]...)
			case 0:
				res.Note += "node-not-executed:" + name + ";"
			default:
				res.Note += "node-executed-twice:" + name + ";"
			}
		}
		res.Entries = append(res.Entries, e)
	}
	for name := range rec.vals {
		if !used[name] {
			res.Note += "unexpected-node:" + name + ";"
		}
	}
	for name := range rec.hs {
		if !used[name] {
			res.Note += "handler-fired-for-unexpected-name:" + name + ";"
		}
	}
	return res
}

func c16Snapshot(opts []compose.Option) []c16Opt {
	out := make([]c16Opt, 0, len(opts))
	for _, o := range opts {
		v := compose.VerifOptionSnapshot(o)
		out = append(out, c16Opt{Vals: make([]int, len(v.Options)), Handlers: make([]int, v.NHandlers), Paths: v.Paths})
	}
	return out
}

// c16RunImpl builds the shared Option values once, runs the calls (in sequence, or all at
// once from goroutines released by one barrier) and reports per call what was observed, plus
// the Option values as the caller sees them afterwards.
func c16RunImpl(c *c16Case, model *c16Out) (results []c16Result, built []c16Opt, storeChanged string, buildErr string, arrays [][]int) {
	var store []compose.Option
	var backing [][]any
	if len(c.Build) > 0 {
		store, backing = c16BuildStore(c.Build)
	} else {
		store = make([]compose.Option, len(c.Store))
		backing = make([][]any, len(c.Store))
		for i := range c.Store {
			store[i], backing[i] = c16BuildOptionB(&c.Store[i])
		}
	}
	before := c16Snapshot(store)
	built = before
	runs := make([]compose.Runnable[any, any], len(c.Calls))
	cache := map[string]compose.Runnable[any, any]{}
	for i := range c.Calls {
		k, _ := json.Marshal(struct {
			G   []c16Node
			Dag bool
			CP  bool
		}{c.Calls[i].G, c.Calls[i].Dag, c.Calls[i].Ask != ""})
		if r, ok := cache[string(k)]; ok {
			runs[i] = r
			continue
		}
		var r compose.Runnable[any, any]
		var err error
		if panicked, pv := vh.Safely(func() { r, err = c16Compile(&c.Calls[i]) }); panicked {
			return nil, nil, "", fmt.Sprint("compile-panic:", pv), nil
		}
		if err != nil {
			return nil, nil, "", "compile-error:" + err.Error(), nil
		}
		cache[string(k)] = r
		runs[i] = r
	}
	pickOpts := func(call *c16Call) []compose.Option {
		os := make([]compose.Option, 0, len(call.Ixs))
		for _, ix := range call.Ixs {
			if ix >= 0 && ix < len(store) {
				os = append(os, store[ix])
			}
		}
		return os
	}
	results = make([]c16Result, len(c.Calls))
	if c.Mode == "conc" {
		reps := c.Reps
		if reps < 1 {
			reps = 1
		}
		start := make(chan struct{})
		var wg sync.WaitGroup
		all := make([][]c16Result, len(c.Calls))
		for i := range c.Calls {
			i := i
			all[i] = make([]c16Result, reps)
			wg.Add(1)
			go func() {
				defer wg.Done()
				<-start
				for k := 0; k < reps; k++ {
					all[i][k] = c16CallOnce(runs[i], &c.Calls[i], pickOpts(&c.Calls[i]), "", nil)
				}
			}()
		}
		close(start)
		wg.Wait()
		for i := range c.Calls {
			results[i] = all[i][0]
			for k := 1; k < reps; k++ {
				if !vh.CanonEq(c16Strip(all[i][k]), c16Strip(all[i][0])) {
					results[i].Note += fmt.Sprintf("repetition-%d-differs;", k)
				}
			}
		}
	} else {
		for i := range c.Calls {
			results[i] = c16CallOnce(runs[i], &c.Calls[i], pickOpts(&c.Calls[i]), c16CPID(c, i), c16Want(c, model, i))
		}
	}
	after := c16Snapshot(store)
	if !vh.CanonEq(before, after) {
		storeChanged = fmt.Sprintf("before=%s after=%s", vh.Canon(before), vh.Canon(after))
	}
	return results, built, storeChanged, "", c16Cells(backing)
}

// c16Strip drops the free-text note (error message) before comparing results.
func c16Strip(r c16Result) c16Result {
	r.Note = ""
	return r
}

// ---------------------------------------------------------------------------------------
// comparison
// ---------------------------------------------------------------------------------------

// c16PathBelow reports the kind ("pass", "comp", "") of the first non-graph node that some
// designated path of the options used by the call continues below.
func c16PathBelow(c *c16Case, call *c16Call) string {
	res := ""
	for _, ix := range call.Ixs {
		if ix < 0 || ix >= len(c.Store) {
			continue
		}
		for _, p := range c.Store[ix].Paths {
			nodes := call.G
			for d, k := range p {
				var hit *c16Node
				for i := range nodes {
					if nodes[i].Key == k {
						hit = &nodes[i]
					}
				}
				if hit == nil {
					break
				}
				if hit.K != "graph" {
					if d < len(p)-1 {
						if hit.K == "pass" {
							return "pass"
						}
						res = "comp"
					}
					break
				}
				nodes = hit.Ch
			}
		}
	}
	return res
}

func c16Multiset(a []int) map[int]int {
	m := map[int]int{}
	for _, x := range a {
		m[x]++
	}
	return m
}

func c16DiffKind(model, impl []int) string {
	mm, mi := c16Multiset(model), c16Multiset(impl)
	extra, missing := false, false
	for k, v := range mi {
		if v > mm[k] {
			extra = true
		}
	}
	for k, v := range mm {
		if v > mi[k] {
			missing = true
		}
	}
	switch {
	case extra && missing:
		return "extra+missing"
	case extra:
		return "extra"
	case missing:
		return "missing"
	}
	return "order"
}

// c16Compare reports the disagreements of one call; returns true when there was none.
func c16Compare(ctx *vh.Ctx, c *c16Case, ci int, m, im c16Result) bool {
	call := &c.Calls[ci]
	report := func(sig, what string) {
		ctx.Res.Disagree(vh.Disagreement{Signature: sig, What: fmt.Sprintf("call %d (%s): %s", ci, c.Mode, what), Case: c, Model: m, Impl: im})
	}
	if strings.HasPrefix(im.Note, "panic:") {
		report("C16:panic-escaped", "a panic escaped the public API: "+im.Note)
		return false
	}
	if im.Note == "hang" {
		report("C16:hang", "the call did not return within 20s")
		return false
	}
	switch {
	case m.Err != nil && im.Err == nil:
		report(fmt.Sprintf("C16:missing-error:%s:below=%s", m.Err.Class, c16PathBelow(c, call)),
			fmt.Sprintf("the model rejects the call (%s at %v), the implementation ran it without error", m.Err.Class, m.Err.At))
		return false
	case m.Err == nil && im.Err != nil:
		report("C16:unexpected-error:"+im.Err.Class, fmt.Sprintf("the implementation failed (%s at %v: %s), the model accepts the call", im.Err.Class, im.Err.At, im.Note))
		return false
	case m.Err != nil && im.Err != nil:
		ok := true
		if !vh.CanonEq(m.Err.At, im.Err.At) {
			report("C16:error-location", fmt.Sprintf("error raised by graph %v on the implementation, %v in the model", im.Err.At, m.Err.At))
			ok = false
		}
		if im.Err.Class == "extract-unclassified" {
			ctx.Res.Note("an extractOption error message was not recognised; class not compared: " + im.Note)
		} else if m.Err.Class != im.Err.Class {
			report(fmt.Sprintf("C16:error-class:%s-vs-%s", m.Err.Class, im.Err.Class), fmt.Sprintf("error class %s on the implementation (%s), %s in the model", im.Err.Class, im.Note, m.Err.Class))
			ok = false
		}
		return ok
	}
	ok := true
	if im.Note != "" {
		report("C16:nodes-executed:"+strings.SplitN(im.Note, ":", 2)[0], "node executions differ from the chain: "+im.Note)
		ok = false
	}
	if len(m.Entries) != len(im.Entries) {
		report("C16:entries-count", fmt.Sprintf("%d entries in the model, %d on the implementation", len(m.Entries), len(im.Entries)))
		return false
	}
	for i := range m.Entries {
		me, ie := m.Entries[i], im.Entries[i]
		if !vh.CanonEq(me.Path, ie.Path) || me.G != ie.G {
			report("C16:entries-order", fmt.Sprintf("entry %d is %v in the model, %v on the implementation", i, me.Path, ie.Path))
			return false
		}
		mv, iv := append([]int{}, me.Vals...), append([]int{}, ie.Vals...)
		if !vh.CanonEq(mv, iv) {
			report("C16:vals:"+c16DiffKind(mv, iv), fmt.Sprintf("node %v received option values %v, the model says %v", me.Path, iv, mv))
			ok = false
		}
		mh := append([]int{}, me.Hs...)
		sort.Ints(mh)
		ih := append([]int{}, ie.Hs...)
		if !vh.CanonEq(mh, ih) {
			report("C16:handlers:"+c16DiffKind(mh, ih), fmt.Sprintf("handlers fired (OnStart) for node %v: %v, the model says %v", me.Path, ih, mh))
			ok = false
		}
	}
	return ok
}

func c16Ask(ctx *vh.Ctx, c *c16Case) (*c16Out, error) {
	raw, err := ctx.Oracle.Ask("C16", c)
	if err != nil {
		return nil, err
	}
	var out c16Out
	if err := json.Unmarshal(raw, &out); err != nil {
		return nil, err
	}
	return &out, nil
}

// c16Eval runs one case on both sides and reports every disagreement to ctx.Res.
func c16Eval(ctx *vh.Ctx, c *c16Case) (agree bool, model *c16Out, err error) {
	c16SyncStore(c)
	model, err = c16Ask(ctx, c)
	if err != nil {
		return false, nil, err
	}
	if len(model.Results) != len(c.Calls) {
		return false, model, fmt.Errorf("oracle returned %d results for %d calls", len(model.Results), len(c.Calls))
	}
	impl, built, storeChanged, buildErr, arrays := c16RunImpl(c, model)
	if buildErr != "" {
		ctx.Res.Disagree(vh.Disagreement{Signature: "C16:build:" + strings.SplitN(buildErr, ":", 2)[0], What: "the generated graph did not compile: " + buildErr, Case: c})
		return false, model, nil
	}
	agree = true
	for i := range c.Calls {
		if !c16Compare(ctx, c, i, model.Results[i], impl[i]) {
			agree = false
		}
	}
	if storeChanged != "" {
		ctx.Res.Disagree(vh.Disagreement{Signature: "C16:caller-option-mutated", What: "Option values held by the caller changed during the calls: " + storeChanged, Case: c})
		agree = false
	}
	// the caller's own value arrays (elements and spare cells) after the calls
	if !c16CompareArrays(ctx, c, model, arrays) {
		agree = false
	}
	// the model's view of the caller's store after the calls
	ms := make([][][]string, 0, len(model.Store))
	for _, o := range model.Store {
		ms = append(ms, o.Paths)
	}
	is := make([][][]string, 0, len(c.Store))
	for _, o := range c.Store {
		is = append(is, o.Paths)
	}
	if !vh.CanonEq(c16NormPaths(ms), c16NormPaths(is)) {
		ctx.Res.Disagree(vh.Disagreement{Signature: "C16:model-store-changed", What: "the model's Option values differ from base paths ++ added paths, or change during the calls", Case: c, Model: model.Store})
		agree = false
	}
	// the Option values as constructed through the public API (before any call) against the model's
	bs := make([][][]string, 0, len(built))
	for _, o := range built {
		bs = append(bs, o.Paths)
	}
	if !vh.CanonEq(c16NormPaths(ms), c16NormPaths(bs)) {
		sig := "C16:option-paths"
		if len(c.Build) > 0 {
			sig = "C16:derived-option-paths"
		}
		ctx.Res.Disagree(vh.Disagreement{Signature: sig, What: fmt.Sprintf("designated paths of the constructed Option values: %s on the implementation, %s in the model (base paths ++ added paths)", vh.Canon(c16NormPaths(bs)), vh.Canon(c16NormPaths(ms))), Case: c, Model: model.Store, Impl: built})
		agree = false
	}
	return agree, model, nil
}

func c16NormPaths(x [][][]string) [][][]string {
	out := make([][][]string, len(x))
	for i := range x {
		out[i] = make([][]string, len(x[i]))
		for j := range x[i] {
			out[i][j] = append([]string{}, x[i][j]...)
		}
	}
	return out
}

// ---------------------------------------------------------------------------------------
// driver
// ---------------------------------------------------------------------------------------

func c16Stats(ctx *vh.Ctx, c *c16Case, agree bool) {
	depth, nodes := 0, 0
	var walk func(ns []c16Node, d int)
	walk = func(ns []c16Node, d int) {
		if d > depth {
			depth = d
		}
		for i := range ns {
			nodes++
			ctx.Res.Dist("node=" + ns[i].K + c16ImplTag(&ns[i]))
			if ns[i].K == "graph" {
				walk(ns[i].Ch, d+1)
			}
		}
	}
	for i := range c.Calls {
		walk(c.Calls[i].G, 1)
		ctx.Res.Dist("paradigm=" + c.Calls[i].Paradigm)
		kin, kout := c16HasKeys(c.Calls[i].G)
		ctx.Res.Dist(fmt.Sprintf("keys.in=%v/out=%v/%s", kin, kout, c.Calls[i].Paradigm))
	}
	ctx.Res.Dist(fmt.Sprintf("depth=%d", depth))
	ctx.Res.Dist(fmt.Sprintf("calls=%d/%s", len(c.Calls), c.Mode))
	ctx.Res.Dist("stream=" + c.Kind)
	if len(c.Build) > 0 {
		derived := map[int]int{}
		for i := range c.Build {
			if c.Build[i].Op == "designate" {
				derived[c.Build[i].Src]++
			}
		}
		maxSib := 0
		for _, n := range derived {
			if n > maxSib {
				maxSib = n
			}
		}
		ctx.Res.Dist(fmt.Sprintf("build.maxSiblings=%d", maxSib))
	}
	for i := range c.Store {
		o := &c.Store[i]
		k := "empty"
		if len(o.Vals) > 0 {
			k = "vals"
		} else if len(o.Handlers) > 0 {
			k = "callbacks"
		}
		if len(o.Paths) == 0 {
			k += "/undesignated"
		} else {
			maxl := 0
			for _, p := range o.Paths {
				if len(p) > maxl {
					maxl = len(p)
				}
			}
			k += fmt.Sprintf("/designated-len%d", maxl)
		}
		ctx.Res.Dist("opt=" + k)
		if len(o.Vals) > 0 && c16KeepsCallerSlice(o.Ty) {
			ctx.Res.Dist(fmt.Sprintf("opt.spare=%d", o.Spare))
		}
	}
	// lambdas with an interface option type: are there any, does an undesignated value option pass
	// them, is a value option designated to one (top level / nested)
	if len(c.Calls) > 0 {
		var ts []c16Target
		c16Targets(c.Calls[0].G, nil, &ts)
		iface := map[string]int{}
		for _, t := range ts {
			if t.kind == "comp" && c16IsIfaceTy(t.ty) {
				iface[strings.Join(t.path, "/")] = len(t.path)
			}
		}
		if len(iface) > 0 {
			ctx.Res.Dist("iface.lambda-present")
			for i := range c.Store {
				o := &c.Store[i]
				if len(o.Vals) == 0 {
					continue
				}
				if len(o.Paths) == 0 {
					ctx.Res.Dist("iface.undesignated-values-pass-by")
				}
				for _, p := range o.Paths {
					if d, ok := iface[strings.Join(p, "/")]; ok {
						if d == 1 {
							ctx.Res.Dist("iface.values-designated-to-it/top")
						} else {
							ctx.Res.Dist("iface.values-designated-to-it/nested")
						}
					}
				}
			}
		}
	}
}

func c16ImplTag(n *c16Node) string {
	if n.K != "comp" {
		return ""
	}
	if n.Impl == "model" || n.Impl == "retriever" {
		return "/" + n.Impl
	}
	return fmt.Sprintf("/lambda-ty%d", n.Ty)
}

func c16ShapeKey(c *c16Case, model *c16Out) string {
	var sb strings.Builder
	var walk func(ns []c16Node)
	walk = func(ns []c16Node) {
		sb.WriteByte('[')
		for i := range ns {
			sb.WriteString(ns[i].K[:1])
			if ns[i].K == "comp" {
				fmt.Fprintf(&sb, "%d", ns[i].Ty)
			}
			if ns[i].InKey != "" {
				sb.WriteByte('<')
			}
			if ns[i].OutKey != "" {
				sb.WriteByte('>')
			}
			if ns[i].K == "graph" {
				walk(ns[i].Ch)
			}
		}
		sb.WriteByte(']')
	}
	for i := range c.Calls {
		walk(c.Calls[i].G)
		fmt.Fprintf(&sb, "%v", c.Calls[i].Ixs)
		if p := c.Calls[i].Paradigm; p != "" && p != "invoke" {
			sb.WriteString(p[:1])
		}
		if a := c.Calls[i].Ask; a != "" {
			fmt.Fprintf(&sb, "!%s@%s", a[:1], strings.Join(c.Calls[i].At, "/"))
		}
	}
	for i := range c.Build {
		fmt.Fprintf(&sb, "<%s%d>", c.Build[i].Op[:1], c.Build[i].Src)
	}
	for i := range c.Store {
		o := &c.Store[i]
		fmt.Fprintf(&sb, "|%d:%d:%d:", o.Ty, len(o.Vals), len(o.Handlers))
		if o.Spare > 0 {
			sb.WriteByte('+')
		}
		for _, p := range o.Paths {
			fmt.Fprintf(&sb, "%s,", strings.Join(p, "/"))
		}
	}
	return sb.String()
}

func c16One(ctx *vh.Ctx, c *c16Case, shrink bool) error {
	ctx.Progress.Mark(c)
	tmp := *ctx
	tmp.Res = vh.NewResult("C16", ctx.Seed, ctx.Tier)
	agree, model, err := c16Eval(&tmp, c)
	if err != nil {
		return err
	}
	for _, n := range tmp.Res.Notes {
		ctx.Res.Note(n)
	}
	class := "ok"
	nontrivial := false
	if model != nil {
		for _, r := range model.Results {
			if r.Err != nil {
				class = "error:" + r.Err.Class
				ctx.Res.Dist(fmt.Sprintf("errorDepth=%d", len(r.Err.At)))
				nontrivial = true
			}
			for _, e := range r.Entries {
				if len(e.Vals) > 0 || len(e.Hs) > 0 {
					nontrivial = true
				}
			}
		}
	}
	ctx.Res.Dist("model=" + class)
	if agree {
		ctx.Res.Dist("agree=yes")
	} else {
		ctx.Res.Dist("agree=no")
		ctx.Res.Dist("agree=no/stream=" + c.Kind)
	}
	c16Stats(ctx, c, agree)
	c16SliceStats(ctx, c, model)
	c16ResumeStats(ctx, c, model)
	ctx.Res.Count(c16ShapeKey(c, model), nontrivial)
	ctx.Res.Sample(c)
	if agree {
		return nil
	}
	// report: the shrunk case for the first signature, the original for any other
	reported := map[string]bool{}
	if shrink && len(tmp.Res.Disagreements) > 0 {
		small := c16Shrink(ctx, c, tmp.Res.Disagreements[0].Signature)
		n0 := len(ctx.Res.Disagreements)
		if _, _, err := c16Eval(ctx, small); err != nil {
			return err
		}
		for _, d := range ctx.Res.Disagreements[n0:] {
			reported[d.Signature] = true
		}
		reported[tmp.Res.Disagreements[0].Signature] = true
	}
	for _, d := range tmp.Res.Disagreements {
		if !reported[d.Signature] {
			ctx.Res.Disagree(d)
		}
	}
	return nil
}

func runC16(ctx *vh.Ctx) error {
	ctx.Res.Rule = "random chains of nested graphs (depth<=3; lambdas with 7 concrete option types incl. model.Option/retriever.Option, lambdas whose declared option type is an interface type (any, a small custom interface implemented by one of the concrete types), lambdas without option, fake ChatModel/Retriever components, passthrough nodes, reused keys across levels) x 0-5 Options (built in one step, or by sequences of DesignateNode/DesignateNodeWithPath calls deriving several Options from shared bases; undesignated / designated by DesignateNode or DesignateNodeWithPath with 1-3 paths; values or callbacks or empty; valid targets, wrong type, unknown node, path below component/passthrough, empty path) x nodes (lambdas, components, nested graphs) added with WithInputKey / WithOutputKey behind a predecessor that yields the map x Invoke/Stream/Collect/Transform x pregel/dag; single calls, sequences of calls and concurrent calls sharing the same Option values; value lists of lambda Options with spare capacity (WithLambdaOption keeps the caller's slice) and Options derived from one base sharing its array, several Options addressing the same nodes (stream shared/*), the caller's arrays inspected cell by cell after the calls; interrupt-then-resume call pairs (a lambda at any depth interrupts, the checkpoint is stored, the next call – its own options, any paradigm – resumes; stream resume/*); non-trivial = some node receives a value or a handler, or the call is rejected; distinct by (tree shape with types and keys, option kinds and paths, call index sets, paradigm)"
	if err := c16CheckTypeMenu(); err != nil {
		return err
	}
	if ctx.Replay != nil {
		var c c16Case
		if err := json.Unmarshal(ctx.Replay, &c); err != nil {
			return err
		}
		return c16One(ctx, &c, false)
	}
	for _, c := range c16Corpus() {
		if err := c16One(ctx, c, false); err != nil {
			return err
		}
	}
	n := ctx.N(2500, 60000)
	for i := 0; i < n && ctx.TimeLeft(); i++ {
		var c *c16Case
		switch w := ctx.Rng.Intn(100); {
		case w < 12:
			c = c16GenResume(ctx.Rng)
		case w < 25:
			c = c16GenShared(ctx.Rng)
		case w < 41:
			c = c16GenIface(ctx.Rng)
		case w < 59:
			c = c16Gen(ctx.Rng, true)
		default:
			c = c16Gen(ctx.Rng, false)
		}
		if err := c16One(ctx, c, true); err != nil {
			return err
		}
	}
	return nil
}
