//go:build verif && (vh_all || vh_c03)

package props

// C03, family "rerun" — parallel nodes of which some answer compose.InterruptAndRerun or are
// nested graphs that interrupt inside.
//
// Such an execution ends with task.err != nil, but the run loop does not stop: it goes on
// collecting the remaining executions (tm.waitAll, compose/graph_run.go:303-311), writes a
// checkpoint and returns the interrupt error.  The hand-off between executors and run loop
// must therefore also be intact after an *erroring* task has been received (Lean:
// tm_err_collect_refills, tm_waitAll_after_interrupt; negation lost_wakeup_after_interrupt_*).
//
// One case = an acyclic graph (Pregel batch / AllPredecessor batch / eager Workflow) with a
// checkpoint store, 1-3 interrupting nodes next to plain ones, and a completion script that
// is *enforced* (every body blocks on its own gate; a releaser opens the gates one at a time
// and waits until the executor has really pushed the finished task, as seen in the hook
// events, before it opens the next):
//   priority    seeded order among the nodes in flight together
//   sync-last   batch modes: the goroutine tasks finish first, the inlined first task of the
//               step last (everything is queued when the run loop starts collecting)
//   sync-first  control: the inlined task first
//   hold        eager mode: the state post-handler of one node keeps the run loop inside
//               waitOne until the listed siblings have finished, in the listed order
//   free        no script; seeded yields at the hook points
// The run is invoked with a checkpoint id and resumed until it completes.  Observed:
//   * every Invoke returns within the hang guard (15 s) with a result or an interrupt error
//   * the interrupt names exactly the nodes whose body answered InterruptAndRerun
//     (RerunNodes) / whose nested graph interrupted (SubGraphs); batch modes: these are the
//     interrupting nodes of the superstep the Lean reference engine predicts
//   * per run and per task manager (outer and nested): the hook trace is a run of the Lean
//     transition system (finish events of erroring executions marked err), num = 0 at
//     return and the executions received are a permutation of the executions submitted
//   * after the last resume: the result of the uninterrupted Lean reference; plain nodes
//     executed once, interrupting nodes twice; every node's post-handler ran exactly once

import (
	"context"
	"encoding/json"
	"fmt"
	"runtime"
	"sort"
	"strings"
	"sync"
	"sync/atomic"
	"time"

	"github.com/cloudwego/eino/compose"
	"github.com/cloudwego/eino/verifharness/vh"
)

func init() {
	c03Extra = append(c03Extra, c03Family{Kind: "rerun", Run: c03rFamily, Replay: c03rReplay})
}

const c03rHangGuard = 15 * time.Second

// ---- case language ----

type c03rNode struct {
	Key   string   `json:"key"`
	Preds []string `json:"preds"`           // sorted; "start" for START
	Kind  string   `json:"kind"`            // plain | rerun | sub
	Inner string   `json:"inner,omitempty"` // sub: <pregel|dag|workflow>-<chain|par>
}

type c03rCase struct {
	Kind      string     `json:"kind"` // "rerun"
	Nodes     []c03rNode `json:"nodes"`
	EndPreds  []string   `json:"endPreds"`
	Input     string     `json:"input"`
	Mode      string     `json:"mode"`  // pregel | dag | workflow
	Sched     string     `json:"sched"` // priority | sync-last | sync-first | hold | free
	Priority  []string   `json:"priority,omitempty"`
	SyncPlain bool       `json:"syncPlain,omitempty"` // sync-last: the script asks for a plain node as the inlined task (which task is inlined is decided by Go map order: the case is rebuilt until it is, at most 6 times)
	Hold      string     `json:"hold,omitempty"`
	HoldUntil []string   `json:"holdUntil,omitempty"`
	YieldSeed uint64     `json:"yieldSeed,omitempty"`
	Note      string     `json:"note,omitempty"`
}

type c03rRef struct {
	Result  [][]string `json:"result"`
	Execs   []string   `json:"execs"`
	Batches [][]string `json:"batches"`
}

type c03rRunObs struct {
	Class        string         `json:"class"` // ok | interrupt | error | hang | panic-escaped
	Detail       string         `json:"detail,omitempty"`
	Rerun        []string       `json:"rerun"`              // InterruptInfo.RerunNodes
	Subs         []string       `json:"subs"`               // keys of InterruptInfo.SubGraphs
	InnerBad     []string       `json:"innerBad,omitempty"` // nested info that does not name exactly <key>.in
	Answered     []string       `json:"answered"`           // nodes whose body / nested graph answered InterruptAndRerun in this run
	Entered      map[string]int `json:"entered"`
	SyncTask     string         `json:"syncTask,omitempty"` // the inlined task of the superstep that interrupted
	Stage        string         `json:"stage,omitempty"`    // where the completion script stood when the guard fired
	ScriptDone   bool           `json:"scriptDone"`
	ErrRecvQueue int            `json:"errRecvQueue"` // erroring executions received while the overflow list was not empty
	Trace        any            `json:"trace,omitempty"`
	events       []compose.VerifC03Event
}

type c03rObs struct {
	Class     string         `json:"class"` // ok | hang | error | panic-escaped | build-error | no-progress
	Detail    string         `json:"detail,omitempty"`
	Runs      []*c03rRunObs  `json:"runs"`
	Result    [][]string     `json:"result"`
	Execs     map[string]int `json:"execs"`
	Collected map[string]int `json:"collected"`
	Attempts  int            `json:"attempts"`
	Desync    bool           `json:"desync,omitempty"`
}

var c03rReg = compose.RegisterSerializableType[c03rState]("verif_c03r_state")

type c03rState struct{}

type c03rStore struct {
	mu sync.Mutex
	m  map[string][]byte
}

func (s *c03rStore) Get(_ context.Context, id string) ([]byte, bool, error) {
	s.mu.Lock()
	defer s.mu.Unlock()
	v, ok := s.m[id]
	return v, ok, nil
}

func (s *c03rStore) Set(_ context.Context, id string, b []byte) error {
	s.mu.Lock()
	defer s.mu.Unlock()
	s.m[id] = append([]byte{}, b...)
	return nil
}

// ---- instrumented bodies ----

// per Invoke
type c03rPer struct {
	idx        int
	gate       map[string]chan struct{}
	started    map[string]chan struct{}
	left       map[string]chan struct{}
	gOnce      map[string]*sync.Once
	sOnce      map[string]*sync.Once
	lOnce      map[string]*sync.Once
	done       chan struct{} // Invoke returned or the guard fired
	relDone    chan struct{} // the releaser has returned
	holdIn     chan struct{} // the holding post-handler has been entered
	holdOut    chan struct{} // ... may return
	holdInOnce sync.Once
	holdOutOne sync.Once
	// guarded by c03rRun.mu
	answered map[string]bool
	entered  map[string]int
	stage    string
	syncTask string
}

type c03rRun struct {
	c         *c03rCase
	node      map[string]*c03rNode
	mu        sync.Mutex
	cond      *sync.Cond
	active    int
	execs     map[string]int
	collected map[string]int
	saved     map[string]string
	per       atomic.Pointer[c03rPer]
	// state of the releaser's simulation of the engine, across the Invokes of one case
	okDone      map[string]bool
	pending     []string
	hasAnswered map[string]bool
	// an Invoke returned although the script had not reached its end (the simulation and the
	// engine disagree about what is in flight): later Invokes of the case run without script
	desync bool
}

func c03rNewRun(c *c03rCase) *c03rRun {
	r := &c03rRun{c: c, node: map[string]*c03rNode{}, execs: map[string]int{}, collected: map[string]int{}, saved: map[string]string{},
		okDone: map[string]bool{}, hasAnswered: map[string]bool{}}
	r.cond = sync.NewCond(&r.mu)
	for i := range c.Nodes {
		r.node[c.Nodes[i].Key] = &c.Nodes[i]
	}
	return r
}

func (r *c03rRun) newPer(idx int) *c03rPer {
	p := &c03rPer{idx: idx, gate: map[string]chan struct{}{}, started: map[string]chan struct{}{}, left: map[string]chan struct{}{},
		gOnce: map[string]*sync.Once{}, sOnce: map[string]*sync.Once{}, lOnce: map[string]*sync.Once{},
		done: make(chan struct{}), relDone: make(chan struct{}), holdIn: make(chan struct{}), holdOut: make(chan struct{}),
		answered: map[string]bool{}, entered: map[string]int{}}
	for _, n := range r.c.Nodes {
		p.gate[n.Key] = make(chan struct{})
		p.started[n.Key] = make(chan struct{})
		p.left[n.Key] = make(chan struct{})
		p.gOnce[n.Key], p.sOnce[n.Key], p.lOnce[n.Key] = &sync.Once{}, &sync.Once{}, &sync.Once{}
	}
	return p
}

func (p *c03rPer) open(key string) {
	if o, ok := p.gOnce[key]; ok {
		o.Do(func() { close(p.gate[key]) })
	}
}

func (p *c03rPer) releaseHold() { p.holdOutOne.Do(func() { close(p.holdOut) }) }

// wait: false when the Invoke is over
func (p *c03rPer) wait(ch <-chan struct{}) bool {
	select {
	case <-ch:
		return true
	case <-p.done:
		return false
	}
}

// body of the outer node `key` (execKey = key) or of the node `<key>.in` of its nested graph.
// An interrupting body answers InterruptAndRerun on its first execution and, re-run with the
// zero input after the resume, gives the output it would have given then.
func (r *c03rRun) body(key, execKey string, interrupts bool, in map[string]any) (map[string]any, error) {
	p := r.per.Load()
	r.mu.Lock()
	r.active++
	r.execs[execKey]++
	answer := interrupts && r.execs[execKey] == 1
	if answer {
		r.saved[key] = c03Render(key, in)
		p.answered[key] = true
	}
	p.entered[execKey]++
	r.mu.Unlock()
	if o, ok := p.sOnce[key]; ok {
		o.Do(func() { close(p.started[key]) })
	}
	defer func() {
		if o, ok := p.lOnce[key]; ok {
			o.Do(func() { close(p.left[key]) })
		}
		r.mu.Lock()
		r.active--
		r.cond.Broadcast()
		r.mu.Unlock()
	}()
	if g, ok := p.gate[key]; ok {
		<-g
	}
	if answer {
		return nil, compose.InterruptAndRerun
	}
	if interrupts {
		r.mu.Lock()
		v := r.saved[key]
		r.mu.Unlock()
		return map[string]any{key: v}, nil
	}
	return map[string]any{key: c03Render(key, in)}, nil
}

// the plain sibling `<key>.q` inside a nested graph: same gate, contributes nothing
func (r *c03rRun) side(key, execKey string) (map[string]any, error) {
	p := r.per.Load()
	r.mu.Lock()
	r.active++
	r.execs[execKey]++
	p.entered[execKey]++
	r.mu.Unlock()
	defer func() {
		r.mu.Lock()
		r.active--
		r.cond.Broadcast()
		r.mu.Unlock()
	}()
	if g, ok := p.gate[key]; ok {
		<-g
	}
	return map[string]any{}, nil
}

// state post-handler: runs on the run-loop goroutine inside waitOne, only for an execution
// without error
func (r *c03rRun) post(key string) {
	p := r.per.Load()
	r.mu.Lock()
	r.collected[key]++
	r.mu.Unlock()
	if r.c.Sched == "hold" && key == r.c.Hold && p.idx == 1 {
		p.holdInOnce.Do(func() { close(p.holdIn) })
		<-p.holdOut
	}
}

// ---- building the runnable ----

type c03rInvoker func(ctx context.Context) (map[string]any, error)

type c03rM = map[string]any

func c03rInner(n *c03rNode, r *c03rRun) (compose.AnyGraph, []compose.GraphCompileOption, error) {
	key := n.Key
	inKey, qKey := key+".in", key+".q"
	mode, shape := "pregel", "chain"
	if parts := strings.SplitN(n.Inner, "-", 2); len(parts) == 2 {
		mode, shape = parts[0], parts[1]
	}
	in := compose.InvokableLambda(func(ctx context.Context, x c03rM) (c03rM, error) { return r.body(key, inKey, true, x) })
	q := compose.InvokableLambda(func(ctx context.Context, x c03rM) (c03rM, error) { return r.side(key, qKey) })
	if mode == "workflow" {
		wf := compose.NewWorkflow[c03rM, c03rM]()
		wf.AddLambdaNode(inKey, in).AddInput(compose.START)
		wf.End().AddInput(inKey)
		if shape == "par" {
			wf.AddLambdaNode(qKey, q).AddInput(compose.START)
			wf.End().AddDependency(qKey)
		}
		return wf, nil, nil
	}
	g := compose.NewGraph[c03rM, c03rM]()
	if err := g.AddLambdaNode(inKey, in); err != nil {
		return nil, nil, err
	}
	if err := g.AddEdge(compose.START, inKey); err != nil {
		return nil, nil, err
	}
	if err := g.AddEdge(inKey, compose.END); err != nil {
		return nil, nil, err
	}
	if shape == "par" {
		if err := g.AddLambdaNode(qKey, q); err != nil {
			return nil, nil, err
		}
		if err := g.AddEdge(compose.START, qKey); err != nil {
			return nil, nil, err
		}
		if err := g.AddEdge(qKey, compose.END); err != nil {
			return nil, nil, err
		}
	}
	var opts []compose.GraphCompileOption
	if mode == "dag" {
		opts = append(opts, compose.WithNodeTriggerMode(compose.AllPredecessor))
	}
	return g, opts, nil
}

func c03rBuild(c *c03rCase, r *c03rRun, store compose.CheckPointStore) (c03rInvoker, error) {
	if c03rReg != nil {
		return nil, fmt.Errorf("harness: state type not registered: %v", c03rReg)
	}
	ctx := context.Background()
	gen := compose.WithGenLocalState(func(ctx context.Context) *c03rState { return &c03rState{} })
	post := func(key string) compose.GraphAddNodeOpt {
		return compose.WithStatePostHandler(func(ctx context.Context, out c03rM, st *c03rState) (c03rM, error) {
			r.post(key)
			return out, nil
		})
	}
	lambda := func(n *c03rNode) *compose.Lambda {
		key, interrupts := n.Key, n.Kind == "rerun"
		return compose.InvokableLambda(func(ctx context.Context, in c03rM) (c03rM, error) { return r.body(key, key, interrupts, in) })
	}
	if c.Mode == "workflow" {
		wf := compose.NewWorkflow[c03rM, c03rM](gen)
		for i := range c.Nodes {
			n := &c.Nodes[i]
			var wn *compose.WorkflowNode
			if n.Kind == "sub" {
				g, sopts, err := c03rInner(n, r)
				if err != nil {
					return nil, err
				}
				wn = wf.AddGraphNode(n.Key, g, post(n.Key), compose.WithGraphCompileOptions(sopts...))
			} else {
				wn = wf.AddLambdaNode(n.Key, lambda(n), post(n.Key))
			}
			for _, p := range n.Preds {
				wn.AddInput(p, compose.MapFields(p, p))
			}
		}
		for _, p := range c.EndPreds {
			wf.End().AddInput(p, compose.MapFields(p, p))
		}
		run, err := wf.Compile(ctx, compose.WithCheckPointStore(store))
		if err != nil {
			return nil, err
		}
		return func(ctx context.Context) (map[string]any, error) {
			return run.Invoke(ctx, c03rM{compose.START: c.Input}, compose.WithCheckPointID("c03r"))
		}, nil
	}
	g := compose.NewGraph[c03rM, c03rM](gen)
	for i := range c.Nodes {
		n := &c.Nodes[i]
		var err error
		if n.Kind == "sub" {
			ig, sopts, e := c03rInner(n, r)
			if e != nil {
				return nil, e
			}
			err = g.AddGraphNode(n.Key, ig, post(n.Key), compose.WithGraphCompileOptions(sopts...))
		} else {
			err = g.AddLambdaNode(n.Key, lambda(n), post(n.Key))
		}
		if err != nil {
			return nil, err
		}
	}
	for _, n := range c.Nodes {
		for _, p := range n.Preds {
			if err := g.AddEdge(p, n.Key); err != nil {
				return nil, err
			}
		}
	}
	for _, p := range c.EndPreds {
		if err := g.AddEdge(p, compose.END); err != nil {
			return nil, err
		}
	}
	opts := []compose.GraphCompileOption{compose.WithCheckPointStore(store)}
	if c.Mode == "dag" {
		opts = append(opts, compose.WithNodeTriggerMode(compose.AllPredecessor))
	}
	run, err := g.Compile(ctx, opts...)
	if err != nil {
		return nil, err
	}
	return func(ctx context.Context) (map[string]any, error) {
		return run.Invoke(ctx, c03rM{compose.START: c.Input}, compose.WithCheckPointID("c03r"))
	}, nil
}

// ---- the completion script (releaser) ----

func (r *c03rRun) setStage(p *c03rPer, s string) {
	r.mu.Lock()
	p.stage = s
	r.mu.Unlock()
}

// waitPushed: the executor of `key` has appended the finished task to the hand-off (its
// `finish` hook event exists).  Without the call-site hooks only the body's return is known.
func (r *c03rRun) waitPushed(p *c03rPer, key string) bool {
	if !compose.VerifC03TraceEnabled() {
		return true
	}
	for i := 0; ; i++ {
		for _, e := range compose.VerifC03Events() {
			if e.TM == 1 && e.K == "finish" && e.Node == key {
				return true
			}
		}
		select {
		case <-p.done:
			return false
		default:
		}
		if i < 200 {
			runtime.Gosched()
		} else {
			time.Sleep(50 * time.Microsecond) // polling an event of the implementation, not a synchronisation by delay
		}
	}
}

// the task the outer task manager runs inline in its latest submit ("" = none / unknown)
func c03rSyncTask() string {
	last := ""
	for _, e := range compose.VerifC03Events() {
		if e.TM == 1 && e.K == "submit" {
			last = ""
			if e.T >= 0 {
				last = e.Node
			}
		}
	}
	return last
}

func (r *c03rRun) willAnswer(key string) bool {
	n := r.node[key]
	return n != nil && n.Kind != "plain" && !r.hasAnswered[key]
}

func (r *c03rRun) inPending(key string) bool { return c03Has(r.pending, key) }

// nodes that become ready: not run yet, not submitted in this Invoke, every predecessor resolved
func (r *c03rRun) readySet(submitted map[string]bool) []string {
	var out []string
	for _, n := range r.c.Nodes {
		if r.okDone[n.Key] || submitted[n.Key] || r.inPending(n.Key) {
			continue
		}
		ok := true
		for _, p := range n.Preds {
			if p != compose.START && !r.okDone[p] {
				ok = false
			}
		}
		if ok {
			out = append(out, n.Key)
		}
	}
	return out
}

func (r *c03rRun) endReady() bool {
	for _, p := range r.c.EndPreds {
		if !r.okDone[p] {
			return false
		}
	}
	return true
}

func (r *c03rRun) byPriority(ks []string) []string {
	rank := map[string]int{}
	for i, k := range r.c.Priority {
		if _, ok := rank[k]; !ok {
			rank[k] = i
		}
	}
	out := append([]string{}, ks...)
	sort.SliceStable(out, func(i, j int) bool {
		ri, oki := rank[out[i]]
		rj, okj := rank[out[j]]
		if oki != okj {
			return oki
		}
		return oki && ri < rj
	})
	return out
}

func (r *c03rRun) releaseOne(p *c03rPer, k string) bool {
	r.setStage(p, "released "+k+", waiting for its body to return")
	p.open(k)
	if !p.wait(p.left[k]) {
		return false
	}
	r.setStage(p, "waiting for the executor of "+k+" to push the finished task")
	return r.waitPushed(p, k)
}

func (r *c03rRun) releaser(p *c03rPer) {
	defer close(p.relDone)
	if r.c.Mode == "workflow" {
		r.relEager(p)
	} else {
		r.relBatch(p)
	}
	r.setStage(p, "script finished")
}

// batch modes: supersteps; the run loop collects only when the whole step has finished
func (r *c03rRun) relBatch(p *c03rPer) {
	submitted := map[string]bool{}
	var batch []string
	if p.idx == 1 {
		batch = r.readySet(submitted)
	} else {
		batch, r.pending = r.pending, nil
	}
	for len(batch) > 0 {
		for _, k := range batch {
			submitted[k] = true
		}
		for _, k := range batch {
			r.setStage(p, "waiting for "+k+" to be started")
			if !p.wait(p.started[k]) {
				return
			}
		}
		var answering []string
		for _, k := range batch {
			if r.willAnswer(k) {
				answering = append(answering, k)
			}
		}
		inl := c03rSyncTask()
		if len(answering) > 0 {
			r.mu.Lock()
			p.syncTask = inl
			r.mu.Unlock()
		}
		order := r.byPriority(batch)
		if c03Has(order, inl) && (r.c.Sched == "sync-last" || r.c.Sched == "sync-first") {
			var rest []string
			for _, k := range order {
				if k != inl {
					rest = append(rest, k)
				}
			}
			if r.c.Sched == "sync-last" {
				order = append(rest, inl)
			} else {
				order = append([]string{inl}, rest...)
			}
		}
		for _, k := range order {
			if !r.releaseOne(p, k) {
				return
			}
		}
		for _, k := range batch {
			if c03Has(answering, k) {
				r.hasAnswered[k] = true
				r.pending = append(r.pending, k)
			} else {
				r.okDone[k] = true
			}
		}
		if len(answering) > 0 || r.endReady() {
			return
		}
		batch = r.readySet(submitted)
	}
}

// eager mode: the run loop takes the pushed completions one at a time, in FIFO order, and
// submits what became ready at once; after an interrupting completion it only drains
func (r *c03rRun) relEager(p *c03rPer) {
	submitted := map[string]bool{}
	var cand []string
	add := func(ks []string) {
		for _, k := range ks {
			submitted[k] = true
			cand = append(cand, k)
		}
	}
	if p.idx == 1 {
		add(r.readySet(submitted))
	} else {
		ks := r.pending
		r.pending = nil
		add(ks)
	}
	var pushed []string
	answers := map[string]bool{}
	pos, interrupted := 0, false
	holdNode := ""
	if n := r.node[r.c.Hold]; r.c.Sched == "hold" && p.idx == 1 && n != nil && n.Kind == "plain" {
		holdNode = r.c.Hold
	}
	holdActive := false
	anyHeld := func() bool {
		for _, k := range r.c.HoldUntil {
			if c03Has(cand, k) {
				return true
			}
		}
		return false
	}
	for {
		blocked := false
		for pos < len(pushed) && !blocked {
			x := pushed[pos]
			if x == holdNode {
				// the run loop is inside x's post-handler
				r.setStage(p, "waiting for the run loop to enter the post-handler of "+x)
				if !p.wait(p.holdIn) {
					return
				}
				if anyHeld() {
					holdActive, blocked = true, true
					continue
				}
				p.releaseHold()
				holdNode, holdActive = "", false
			}
			pos++
			if answers[x] {
				interrupted = true
				r.pending = append(r.pending, x)
				continue
			}
			r.okDone[x] = true
			if interrupted {
				continue
			}
			if r.endReady() {
				return
			}
			add(r.readySet(submitted))
		}
		if len(cand) == 0 {
			if holdActive {
				p.releaseHold()
				holdNode, holdActive = "", false
				continue
			}
			return
		}
		for _, k := range cand {
			r.setStage(p, "waiting for "+k+" to be started")
			if !p.wait(p.started[k]) {
				return
			}
		}
		next := ""
		if holdActive {
			for _, k := range r.c.HoldUntil {
				if next == "" && c03Has(cand, k) {
					next = k
				}
			}
		}
		if next == "" {
			next = r.byPriority(cand)[0]
		}
		if r.willAnswer(next) {
			answers[next] = true
			r.hasAnswered[next] = true
		}
		if !r.releaseOne(p, next) {
			return
		}
		pushed = append(pushed, next)
		var rest []string
		for _, k := range cand {
			if k != next {
				rest = append(rest, k)
			}
		}
		cand = rest
	}
}

// ---- one case on the implementation ----

func c03rSortedKeys(m map[string]bool) []string {
	out := []string{}
	for k, v := range m {
		if v {
			out = append(out, k)
		}
	}
	sort.Strings(out)
	return out
}

func (c *c03rCase) interrupting() []string {
	var out []string
	for _, n := range c.Nodes {
		if n.Kind != "plain" {
			out = append(out, n.Key)
		}
	}
	return out
}

func c03rImpl(c *c03rCase) *c03rObs {
	for attempt := 1; ; attempt++ {
		o, retry := c03rAttempt(c, attempt < 6)
		o.Attempts = attempt
		if !retry {
			return o
		}
	}
}

func c03rAttempt(c *c03rCase, mayRetry bool) (o *c03rObs, retry bool) {
	o = &c03rObs{Runs: []*c03rRunObs{}, Result: [][]string{}, Execs: map[string]int{}, Collected: map[string]int{}}
	r := c03rNewRun(c)
	store := &c03rStore{m: map[string][]byte{}}
	var inv c03rInvoker
	var berr error
	if p, pv := vh.Safely(func() { inv, berr = c03rBuild(c, r, store) }); p {
		o.Class, o.Detail = "build-error", fmt.Sprint("panic: ", pv)
		return o, false
	}
	if berr != nil {
		o.Class, o.Detail = "build-error", berr.Error()
		return o, false
	}
	maxRuns := len(c.Nodes) + 2
	for idx := 1; ; idx++ {
		if idx > maxRuns {
			o.Class, o.Detail = "no-progress", fmt.Sprintf("still interrupted after %d resumes", maxRuns)
			break
		}
		p := r.newPer(idx)
		r.per.Store(p)
		compose.VerifC03Reset(c.YieldSeed+uint64(idx), c.Sched == "free")
		if c.Sched == "free" || r.desync {
			for _, n := range c.Nodes {
				p.open(n.Key)
			}
			close(p.relDone)
		} else {
			go r.releaser(p)
		}
		var res map[string]any
		var rerr error
		finished := false
		panicked, pv := vh.Safely(func() {
			finished = vh.WithTimeout(c03rHangGuard, func() { res, rerr = inv(context.Background()) })
		})
		ro := &c03rRunObs{Rerun: []string{}, Subs: []string{}, Answered: []string{}, Entered: map[string]int{}}
		r.mu.Lock()
		ro.Stage = p.stage
		r.mu.Unlock()
		if finished && !panicked {
			// the script ends by itself once the engine has done what it waits for: let it finish
			// its bookkeeping (what is pending for the next Invoke) before it is cancelled
			select {
			case <-p.relDone:
			case <-time.After(5 * time.Second):
				r.desync = true
			}
		}
		select {
		case <-p.relDone:
			ro.ScriptDone = true
		default:
		}
		close(p.done)
		p.releaseHold()
		for _, n := range c.Nodes { // whatever is still inside a body may leave
			p.open(n.Key)
		}
		<-p.relDone
		ro.events = compose.VerifC03Events()
		r.mu.Lock()
		ro.Answered = c03rSortedKeys(p.answered)
		for k, v := range p.entered {
			ro.Entered[k] = v
		}
		ro.SyncTask = p.syncTask
		r.mu.Unlock()
		o.Runs = append(o.Runs, ro)
		stop := true
		switch {
		case panicked:
			ro.Class, ro.Detail = "panic-escaped", fmt.Sprint(pv)
		case !finished:
			ro.Class = "hang"
		case rerr == nil:
			ro.Class, ro.Stage = "ok", ""
			o.Result = c03Pairs(res)
		default:
			if info, ok := compose.ExtractInterruptInfo(rerr); ok && info != nil {
				ro.Class, ro.Stage = "interrupt", ""
				ro.Rerun = c03Sorted(append([]string{}, info.RerunNodes...))
				for k, sub := range info.SubGraphs {
					ro.Subs = append(ro.Subs, k)
					if sub == nil || !vh.CanonEq(append([]string{}, sub.RerunNodes...), []string{k + ".in"}) || len(sub.SubGraphs) != 0 {
						ro.InnerBad = append(ro.InnerBad, k)
					}
				}
				sort.Strings(ro.Subs)
				sort.Strings(ro.InnerBad)
				if len(info.BeforeNodes)+len(info.AfterNodes) > 0 {
					ro.Detail = fmt.Sprintf("before=%v after=%v", info.BeforeNodes, info.AfterNodes)
				}
				stop = false
			} else {
				ro.Class, ro.Detail = "error", rerr.Error()
			}
		}
		if idx == 1 && mayRetry && c.SyncPlain && ro.SyncTask != "" && ro.Class != "hang" {
			if n := r.node[ro.SyncTask]; n != nil && n.Kind != "plain" {
				c03rQuiesce(r)
				return o, true
			}
		}
		if stop {
			if ro.Class != "ok" {
				o.Class, o.Detail = ro.Class, ro.Detail
			} else {
				o.Class = "ok"
			}
			break
		}
	}
	c03rQuiesce(r)
	o.Desync = r.desync
	r.mu.Lock()
	for k, v := range r.execs {
		o.Execs[k] = v
	}
	for k, v := range r.collected {
		o.Collected[k] = v
	}
	r.mu.Unlock()
	return o, false
}

// every body that was entered has returned (cleanup only)
func c03rQuiesce(r *c03rRun) {
	done := make(chan struct{})
	go func() {
		r.mu.Lock()
		for r.active > 0 {
			r.cond.Wait()
		}
		r.mu.Unlock()
		close(done)
	}()
	select {
	case <-done:
	case <-time.After(10 * time.Second):
	}
}

// ---- comparison ----

type c03rEv struct {
	compose.VerifC03Event
	Err bool `json:"err,omitempty"`
}

// hanging runs cost the full guard time: at most one per (mode, script) and three in all
var c03rHangs int
var c03rHung = map[string]bool{}

func c03rSkip(c *c03rCase) bool { return c03rHangs >= 3 || c03rHung[c.Mode+":"+c.Sched] }

func c03rOne(ctx *vh.Ctx, c *c03rCase) error {
	ctx.Progress.Mark(c)
	var rn []c03Node
	for _, n := range c.Nodes {
		rn = append(rn, c03Node{Key: n.Key, Preds: n.Preds})
	}
	raw, err := ctx.Oracle.Ask("C03", map[string]any{"kind": "run", "nodes": rn, "endPreds": c.EndPreds, "input": c.Input})
	if err != nil {
		return err
	}
	var ref c03rRef
	if err := json.Unmarshal(raw, &ref); err != nil {
		return fmt.Errorf("oracle answer: %v: %s", err, raw)
	}
	obs := c03rImpl(c)

	ints := c.interrupting()
	parallel := false // an interrupting node shares a superstep with another node
	for _, b := range ref.Batches {
		for _, k := range b {
			if c03Has(ints, k) && len(b) >= 2 {
				parallel = true
			}
		}
	}
	ctx.Res.Count(fmt.Sprintf("rerun|%s|%s|%v|%v|%v|%s|%v", c.Mode, c.Sched, c.Nodes, c.EndPreds, c.Priority, c.Hold, c.HoldUntil), parallel)
	ctx.Res.Dist("family:rerun")
	ctx.Res.Dist("rerun:mode:" + c.Mode)
	ctx.Res.Dist("rerun:sched:" + c.Sched)
	ctx.Res.Dist(fmt.Sprintf("rerun:nodes:%d", len(c.Nodes)))
	ctx.Res.Dist(fmt.Sprintf("rerun:interrupting:%d", len(ints)))
	ctx.Res.Dist("rerun:class:" + obs.Class)
	ctx.Res.Dist(fmt.Sprintf("rerun:invokes:%d", len(obs.Runs)))
	for _, n := range c.Nodes {
		if n.Kind == "sub" {
			ctx.Res.Dist("rerun:nested:" + n.Inner)
		}
	}
	if obs.Attempts > 1 {
		ctx.Res.Dist("rerun:rebuilt-for-plain-inlined-task")
	}
	if obs.Desync {
		ctx.Res.Dist("rerun:script-left-behind-by-the-engine")
	}
	ctx.Res.Sample(c)
	ms := c.Mode + ":" + c.Sched
	dis := func(sig, what string, model any) {
		ctx.Res.Disagree(vh.Disagreement{Signature: sig, What: what, Case: c, Model: model, Impl: obs})
	}
	last := &c03rRunObs{}
	if len(obs.Runs) > 0 {
		last = obs.Runs[len(obs.Runs)-1]
	}
	switch obs.Class {
	case "build-error":
		dis("C03:rerun:build-error:"+c.Mode, "the generated graph does not compile: "+obs.Detail, ref)
		return nil
	case "hang":
		c03rHangs++
		c03rHung[ms] = true
		last.Trace = last.events
		if last.ScriptDone {
			dis("C03:hang:rerun:"+ms, fmt.Sprintf("Invoke #%d did not return within %v although every node body had returned and been pushed to the hand-off (answered InterruptAndRerun in this run: %v): the run loop waits for a completion that is never handed over", len(obs.Runs), c03rHangGuard, last.Answered), ref)
		} else {
			dis("C03:hang:rerun:"+ms+":script-waiting", fmt.Sprintf("Invoke #%d did not return within %v; the completion script was still %s", len(obs.Runs), c03rHangGuard, last.Stage), ref)
		}
		return nil
	case "panic-escaped":
		dis("C03:rerun:panic-escaped:"+ms, "a panic escaped Invoke: "+obs.Detail, ref)
		return nil
	case "error":
		dis("C03:rerun:unexpected-error:"+ms, fmt.Sprintf("Invoke #%d failed with an error that is not an interrupt: %s", len(obs.Runs), obs.Detail), ref)
		return nil
	case "no-progress":
		dis("C03:rerun:no-progress:"+ms, obs.Detail, ref)
		return nil
	}

	// the interrupts: exactly the nodes that answered; batch modes: the step the reference predicts
	var expected [][]string
	for _, b := range ref.Batches {
		var is []string
		for _, k := range b {
			if c03Has(ints, k) {
				is = append(is, k)
			}
		}
		if len(is) > 0 {
			expected = append(expected, c03Sorted(is))
		}
	}
	nInt := 0
	for i, ro := range obs.Runs {
		if ro.Class != "interrupt" {
			continue
		}
		nInt++
		var wantRerun, wantSubs []string
		for _, k := range ro.Answered {
			if n := c03rFind(c, k); n != nil && n.Kind == "sub" {
				wantSubs = append(wantSubs, k)
			} else {
				wantRerun = append(wantRerun, k)
			}
		}
		if !vh.CanonEq(append([]string{}, ro.Rerun...), append([]string{}, wantRerun...)) {
			dis("C03:rerun:rerun-set-differs:"+c.Mode, fmt.Sprintf("Invoke #%d: InterruptInfo.RerunNodes = %v, the bodies that answered InterruptAndRerun: %v", i+1, ro.Rerun, wantRerun), ref)
		}
		if !vh.CanonEq(append([]string{}, ro.Subs...), append([]string{}, wantSubs...)) {
			dis("C03:rerun:subgraph-set-differs:"+c.Mode, fmt.Sprintf("Invoke #%d: InterruptInfo.SubGraphs = %v, the nested graphs that interrupted: %v", i+1, ro.Subs, wantSubs), ref)
		}
		if len(ro.InnerBad) > 0 {
			dis("C03:rerun:nested-info-differs:"+c.Mode, fmt.Sprintf("Invoke #%d: the nested interrupt info of %v does not name exactly its inner rerun node", i+1, ro.InnerBad), ref)
		}
		if ro.Detail != "" {
			dis("C03:rerun:spurious-before-after:"+c.Mode, fmt.Sprintf("Invoke #%d reports interrupt-before/after nodes although none are configured: %s", i+1, ro.Detail), ref)
		}
		if c.Mode != "workflow" && (i >= len(expected) || !vh.CanonEq(append([]string{}, ro.Answered...), expected[i])) {
			dis("C03:rerun:interrupt-step-differs:"+c.Mode, fmt.Sprintf("Invoke #%d was interrupted by %v; the supersteps of the reference engine %v predict %v", i+1, ro.Answered, ref.Batches, expected), ref)
		}
		if ro.ErrRecvQueue = c03rQueueAtErrRecv(ro); ro.ErrRecvQueue > 0 {
			ctx.Res.Dist("rerun:erroring-task-received-while-overflow-list-nonempty")
		}
		if ro.SyncTask != "" {
			if n := c03rFind(c, ro.SyncTask); n != nil && n.Kind == "plain" {
				ctx.Res.Dist("rerun:inlined-task:plain")
			} else {
				ctx.Res.Dist("rerun:inlined-task:interrupting")
			}
		}
	}
	ctx.Res.Dist(fmt.Sprintf("rerun:interrupts:%d", nInt))
	if c.Mode != "workflow" && nInt != len(expected) {
		dis("C03:rerun:interrupt-count-differs:"+c.Mode, fmt.Sprintf("%d interrupted Invokes, the reference predicts %d (%v)", nInt, len(expected), expected), ref)
	}
	// after the last resume
	if !vh.CanonEq(obs.Result, ref.Result) {
		dis("C03:rerun:result-differs-after-resume:"+ms, "the result after the last resume differs from the uninterrupted order-free reference", ref)
	}
	for _, n := range c.Nodes {
		type want struct {
			key string
			n   int
		}
		ws := []want{{n.Key, 1}}
		switch n.Kind {
		case "rerun":
			ws = []want{{n.Key, 2}}
		case "sub":
			ws = []want{{n.Key + ".in", 2}}
			if strings.HasSuffix(n.Inner, "-par") {
				ws = append(ws, want{n.Key + ".q", 1})
			}
		}
		for _, w := range ws {
			if obs.Execs[w.key] != w.n {
				dis("C03:rerun:executions-differ:"+ms, fmt.Sprintf("%s was executed %d times over all Invokes, expected %d", w.key, obs.Execs[w.key], w.n), ref)
			}
		}
		if obs.Collected[n.Key] != 1 {
			dis("C03:rerun:collection-differs:"+ms, fmt.Sprintf("the post-handler of %s ran %d times (once per execution without error expected)", n.Key, obs.Collected[n.Key]), ref)
		}
	}
	// protocol traces, per Invoke and task manager
	if !compose.VerifC03TraceEnabled() {
		ctx.Res.Dist("rerun:trace:skipped-no-hooks")
		return nil
	}
	c03TraceSeen = true
	for i, ro := range obs.Runs {
		if err := c03rTrace(ctx, c, i, ro, dis); err != nil {
			return err
		}
	}
	return nil
}

func c03rFind(c *c03rCase, key string) *c03rNode {
	for i := range c.Nodes {
		if c.Nodes[i].Key == key {
			return &c.Nodes[i]
		}
	}
	return nil
}

// how often the outer run loop received an erroring execution while the overflow list was
// not empty (the counters of `finish`/`refill` are read under the mutex; only a re-fill of
// the run loop itself shrinks the list)
func c03rQueueAtErrRecv(ro *c03rRunObs) int {
	n, lastL := 0, 0
	for _, e := range ro.events {
		if e.TM != 1 {
			continue
		}
		switch e.K {
		case "finish", "refill":
			lastL = e.L
		case "recv":
			if c03Has(ro.Answered, e.Node) && lastL > 0 {
				n++
			}
		}
	}
	return n
}

func c03rTrace(ctx *vh.Ctx, c *c03rCase, i int, ro *c03rRunObs, dis func(sig, what string, model any)) error {
	// executions that ended with an error in this Invoke: the answering bodies and, for a
	// nested graph, the graph node around them
	errs := map[string]bool{}
	for _, k := range ro.Answered {
		errs[k] = true
		errs[k+".in"] = true
	}
	byTM := map[int][]c03rEv{}
	var tms []int
	for _, e := range ro.events {
		if _, ok := byTM[e.TM]; !ok {
			tms = append(tms, e.TM)
		}
		byTM[e.TM] = append(byTM[e.TM], c03rEv{VerifC03Event: e, Err: e.K == "finish" && errs[e.Node]})
	}
	sort.Ints(tms)
	for _, tm := range tms {
		evs := byTM[tm]
		needAll, seen := false, false
		for _, e := range evs {
			if e.K == "submit" && !seen {
				needAll, seen = e.NeedAll, true
			}
		}
		if tm == 1 && seen && needAll != (c.Mode != "workflow") {
			dis("C03:rerun:trace-needAll:"+c.Mode, fmt.Sprintf("the outer task manager runs with needAll=%v in mode %s", needAll, c.Mode), nil)
			continue
		}
		raw, err := ctx.Oracle.Ask("C03", map[string]any{"kind": "tmtrace", "needAll": needAll, "events": evs})
		if err != nil {
			return err
		}
		var ans struct {
			OK    bool   `json:"ok"`
			At    int    `json:"at"`
			Why   string `json:"why"`
			Final struct {
				Num  int   `json:"num"`
				Got  []int `json:"got"`
				Errs []int `json:"errs"`
			} `json:"final"`
			Submitted []int `json:"submitted"`
		}
		if err := json.Unmarshal(raw, &ans); err != nil {
			return fmt.Errorf("oracle trace answer: %v: %s", err, raw)
		}
		ctx.Res.Dist("rerun:trace:replayed")
		which := "outer"
		if tm != 1 {
			which = "nested"
			ctx.Res.Dist("rerun:trace:nested-task-manager")
		}
		if !ans.OK {
			kind := "?"
			if ans.At < len(evs) {
				kind = evs[ans.At].K
			}
			ro.Trace = evs
			dis("C03:rerun:trace-nonconformance:"+kind+":"+c.Mode,
				fmt.Sprintf("Invoke #%d, %s task manager: event %d (%s) of the real trace is not a transition of the model: %s", i+1, which, ans.At, kind, ans.Why), json.RawMessage(raw))
			continue
		}
		if len(ans.Final.Errs) > 0 {
			ctx.Res.Dist("rerun:trace:erroring-execution-collected")
		}
		if ro.Class != "ok" && ro.Class != "interrupt" {
			continue
		}
		got := append([]int{}, ans.Final.Got...)
		sub := append([]int{}, ans.Submitted...)
		sort.Ints(got)
		sort.Ints(sub)
		if ans.Final.Num != 0 || !vh.CanonEq(got, sub) {
			ro.Trace = evs
			dis("C03:rerun:uncollected-at-return:"+c.Mode,
				fmt.Sprintf("Invoke #%d, %s task manager: at return num=%d, executions submitted %v, received %v (every started execution must be collected exactly once)", i+1, which, ans.Final.Num, sub, got), json.RawMessage(raw))
		}
	}
	return nil
}

// ---- generator ----

func c03rFrom(g *c03Case) *c03rCase {
	c := &c03rCase{Kind: "rerun", Input: g.Input, Mode: g.Mode}
	hasSucc := map[string]bool{}
	for _, n := range g.Nodes {
		for _, p := range n.Preds {
			hasSucc[p] = true
		}
	}
	for _, n := range g.Nodes {
		c.Nodes = append(c.Nodes, c03rNode{Key: n.Key, Preds: n.Preds, Kind: "plain"})
		if !hasSucc[n.Key] {
			c.EndPreds = append(c.EndPreds, n.Key) // every node has a path to END
		}
	}
	c.EndPreds = c03Sorted(c.EndPreds)
	return c
}

var c03rInnerKinds = []string{"pregel-chain", "pregel-par", "dag-chain", "dag-par", "workflow-chain", "workflow-par"}

func c03rGen(r *vh.Rand, mode string) *c03rCase {
	c := c03rFrom(c03Gen(r, mode))
	var first, later []int
	for i, n := range c.Nodes {
		if len(n.Preds) == 1 && n.Preds[0] == compose.START {
			first = append(first, i)
		} else {
			later = append(later, i)
		}
	}
	mark := func(i int) {
		if r.Chance(30) {
			c.Nodes[i].Kind, c.Nodes[i].Inner = "sub", c03rInnerKinds[r.Intn(len(c03rInnerKinds))]
		} else {
			c.Nodes[i].Kind = "rerun"
		}
	}
	k := 1
	if len(first) >= 3 && r.Chance(40) {
		k = 2
	}
	perm := r.Perm(len(first))
	for j := 0; j < k && j < len(first)-1; j++ {
		mark(first[perm[j]])
	}
	if len(first) == 1 {
		mark(first[0])
	}
	if len(later) > 0 && r.Chance(25) {
		mark(later[r.Intn(len(later))])
	}
	// schedule
	for _, i := range r.Perm(len(c.Nodes)) {
		c.Priority = append(c.Priority, c.Nodes[i].Key)
	}
	x := r.Intn(100)
	switch {
	case x < 15:
		c.Sched, c.Priority, c.YieldSeed = "free", nil, r.U64()>>1
	case mode != "workflow" && x < 55:
		c.Sched = "sync-last"
	case mode != "workflow" && x < 65:
		c.Sched = "sync-first"
	case mode == "workflow" && x < 65:
		var plain, others []string
		for _, i := range first {
			if c.Nodes[i].Kind == "plain" {
				plain = append(plain, c.Nodes[i].Key)
			}
		}
		if len(plain) == 0 {
			c.Sched = "priority"
			break
		}
		c.Sched, c.Hold = "hold", plain[r.Intn(len(plain))]
		var ints []string
		for _, i := range first {
			if k := c.Nodes[i].Key; k != c.Hold {
				if c.Nodes[i].Kind == "plain" {
					others = append(others, k)
				} else {
					ints = append(ints, k)
				}
			}
		}
		if r.Chance(50) && len(ints) > 0 {
			// the interrupting sibling(s) first, then the plain ones
			c.HoldUntil = append(append([]string{}, ints...), others...)
		} else {
			all := append(append([]string{}, ints...), others...)
			n := r.Range(1, len(all))
			for j, pi := range r.Perm(len(all)) {
				if j < n {
					c.HoldUntil = append(c.HoldUntil, all[pi])
				}
			}
		}
		if r.Chance(60) { // the holder finishes first
			pr := []string{c.Hold}
			for _, k := range c.Priority {
				if k != c.Hold {
					pr = append(pr, k)
				}
			}
			c.Priority = pr
		}
	default:
		c.Sched = "priority"
	}
	return c
}

// directed shapes: the windows named in the property text, each with its control
func c03rDirected() []*c03rCase {
	st := []string{compose.START}
	var out []*c03rCase
	three := func(k2, inner string) []c03rNode {
		return []c03rNode{{Key: "a", Preds: st, Kind: "plain"}, {Key: "r", Preds: st, Kind: k2, Inner: inner}, {Key: "b", Preds: st, Kind: "plain"}}
	}
	for _, mode := range []string{"pregel", "dag"} {
		out = append(out,
			&c03rCase{Kind: "rerun", Input: "x", Mode: mode, Sched: "sync-last", SyncPlain: true, Nodes: three("rerun", ""), EndPreds: []string{"a", "b", "r"},
				Priority: []string{"r", "b", "a"}, Note: "goroutine tasks (rerun first) finish, then the inlined plain task"},
			&c03rCase{Kind: "rerun", Input: "x", Mode: mode, Sched: "sync-last", SyncPlain: true, Nodes: three("rerun", ""), EndPreds: []string{"a", "b", "r"},
				Priority: []string{"b", "r", "a"}, Note: "a plain goroutine task, the rerun task, then the inlined plain task"},
			&c03rCase{Kind: "rerun", Input: "x", Mode: mode, Sched: "sync-last", SyncPlain: true, Nodes: three("sub", mode+"-par"), EndPreds: []string{"a", "b", "r"},
				Priority: []string{"r", "b", "a"}, Note: "nested graph interrupts, the inlined plain task last"},
			&c03rCase{Kind: "rerun", Input: "x", Mode: mode, Sched: "sync-last", EndPreds: []string{"b", "r1", "r2"},
				Nodes:    []c03rNode{{Key: "r1", Preds: st, Kind: "rerun"}, {Key: "r2", Preds: st, Kind: "rerun"}, {Key: "b", Preds: st, Kind: "plain"}},
				Priority: []string{"r1", "r2", "b"}, Note: "two rerun nodes: whichever task is inlined, a rerun task is received while others are queued"},
			&c03rCase{Kind: "rerun", Input: "x", Mode: mode, Sched: "sync-last", SyncPlain: true, EndPreds: []string{"c"},
				Nodes: []c03rNode{{Key: "p", Preds: st, Kind: "plain"}, {Key: "a", Preds: []string{"p"}, Kind: "plain"}, {Key: "r", Preds: []string{"p"}, Kind: "rerun"},
					{Key: "b", Preds: []string{"p"}, Kind: "plain"}, {Key: "c", Preds: []string{"a", "b", "r"}, Kind: "plain"}},
				Priority: []string{"p", "r", "b", "a", "c"}, Note: "the parallel step is not the first one; a join after it"},
			&c03rCase{Kind: "rerun", Input: "x", Mode: mode, Sched: "sync-first", Nodes: three("rerun", ""), EndPreds: []string{"a", "b", "r"},
				Priority: []string{"r", "b", "a"}, Note: "control: the inlined task first"},
			&c03rCase{Kind: "rerun", Input: "x", Mode: mode, Sched: "priority", Nodes: three("rerun", ""), EndPreds: []string{"a", "b", "r"},
				Priority: []string{"a", "b", "r"}, Note: "control: the rerun task last"},
		)
	}
	out = append(out,
		&c03rCase{Kind: "rerun", Input: "x", Mode: "workflow", Sched: "hold", Nodes: three("rerun", ""), EndPreds: []string{"a", "b", "r"},
			Priority: []string{"a", "r", "b"}, Hold: "a", HoldUntil: []string{"r", "b"}, Note: "the post-handler of a holds the run loop until r (rerun) and then b have finished"},
		&c03rCase{Kind: "rerun", Input: "x", Mode: "workflow", Sched: "hold", Nodes: three("sub", "workflow-par"), EndPreds: []string{"a", "b", "r"},
			Priority: []string{"a", "r", "b"}, Hold: "a", HoldUntil: []string{"r", "b"}, Note: "the same with a nested workflow that interrupts"},
		&c03rCase{Kind: "rerun", Input: "x", Mode: "workflow", Sched: "hold", Nodes: three("sub", "pregel-chain"), EndPreds: []string{"a", "b", "r"},
			Priority: []string{"a", "r", "b"}, Hold: "a", HoldUntil: []string{"r", "b"}, Note: "the same with a nested pregel graph that interrupts"},
		&c03rCase{Kind: "rerun", Input: "x", Mode: "workflow", Sched: "hold", EndPreds: []string{"c", "d"},
			Nodes: []c03rNode{{Key: "a", Preds: st, Kind: "plain"}, {Key: "r", Preds: st, Kind: "rerun"}, {Key: "b", Preds: st, Kind: "plain"},
				{Key: "c", Preds: []string{"a", "r"}, Kind: "plain"}, {Key: "d", Preds: []string{"b"}, Kind: "plain"}},
			Priority: []string{"a", "r", "b", "d", "c"}, Hold: "a", HoldUntil: []string{"r", "b"}, Note: "successors that are ready but not started when the run is interrupted"},
		&c03rCase{Kind: "rerun", Input: "x", Mode: "workflow", Sched: "hold", EndPreds: []string{"a", "b", "r1", "r2"},
			Nodes:    []c03rNode{{Key: "a", Preds: st, Kind: "plain"}, {Key: "r1", Preds: st, Kind: "rerun"}, {Key: "r2", Preds: st, Kind: "rerun"}, {Key: "b", Preds: st, Kind: "plain"}},
			Priority: []string{"a", "r1", "r2", "b"}, Hold: "a", HoldUntil: []string{"r1", "r2", "b"}, Note: "two rerun nodes and a plain one queued behind the holder"},
		&c03rCase{Kind: "rerun", Input: "x", Mode: "workflow", Sched: "hold", Nodes: three("rerun", ""), EndPreds: []string{"a", "b", "r"},
			Priority: []string{"a", "b", "r"}, Hold: "a", HoldUntil: []string{"b", "r"}, Note: "control: b, then r"},
		&c03rCase{Kind: "rerun", Input: "x", Mode: "workflow", Sched: "priority", Nodes: three("rerun", ""), EndPreds: []string{"a", "b", "r"},
			Priority: []string{"r", "a", "b"}, Note: "control: no holder, r first"},
	)
	return out
}

func c03rReplay(ctx *vh.Ctx, raw json.RawMessage) error {
	var c c03rCase
	if err := json.Unmarshal(raw, &c); err != nil {
		return err
	}
	return c03rOne(ctx, &c)
}

func c03rFamily(ctx *vh.Ctx) error {
	ctx.Res.Rule += " | family rerun (kind=rerun): distinct = (mode, script, graph with node kinds, priority, holder); non-trivial = an interrupting node (InterruptAndRerun / nested graph that interrupts) shares a superstep with at least one other node"
	deadline := ctx.Start.Add(ctx.Budget * 45 / 100)
	live := func() bool { return ctx.TimeLeft() && time.Now().Before(deadline) && c03rHangs < 3 }
	for _, c := range c03rDirected() {
		if c03rSkip(c) {
			ctx.Res.Dist("rerun:skipped-after-hang")
			continue
		}
		if err := c03rOne(ctx, c); err != nil {
			return err
		}
	}
	n := ctx.N(180, 1500)
	modes := []string{"pregel", "dag", "workflow"}
	for i := 0; i < n && live(); i++ {
		c := c03rGen(ctx.Rng, modes[i%len(modes)])
		if c03rSkip(c) {
			ctx.Res.Dist("rerun:skipped-after-hang")
			continue
		}
		if err := c03rOne(ctx, c); err != nil {
			return err
		}
	}
	if c03rHangs > 0 {
		ctx.Res.Note(fmt.Sprintf("family rerun: %d hanging run(s); further cases of the same (mode, script) were skipped (each hang costs the full guard time of %v)", c03rHangs, c03rHangGuard))
	}
	return nil
}
