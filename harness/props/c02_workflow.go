//go:build verif && (vh_all || vh_c02)

package props

// C02, Workflow case family: random acyclic workflows built with the real compose.NewWorkflow
// API (control-only, data-only and combined dependencies, branches without data flow,
// converging branches, nested skips, nodes whose only inputs are control dependencies, END fed
// by several nodes, static values), run under scripted completion orders (barriers: a node's
// body is released when its predecessor in the order has been collected by the run loop),
// free-running with seeded yields, and (thorough) in Stream mode; compared with the Lean
// model's eager loop under the same completion schedule / any of its schedule alternatives.

import (
	"encoding/json"
	"fmt"
	"sort"
	"strings"
	"time"

	"github.com/cloudwego/eino/verifharness/gcase"
	"github.com/cloudwego/eino/verifharness/vh"
)

func init() {
	c02Extra = append(c02Extra, runC02Workflow)
	c02ReplayExtra["workflow"] = c02wfReplay
}

type c02wfRunSpec struct {
	Mode   string         `json:"mode"` // script | free | stream
	Sched  string         `json:"sched,omitempty"`
	Yields map[string]int `json:"yields,omitempty"`
}

type c02wfCase struct {
	Kind   string          `json:"kind"`
	W      *gcase.Workflow `json:"w"`
	Input  string          `json:"input"`
	Scheds []string        `json:"scheds"`
	Run    *c02wfRunSpec   `json:"run,omitempty"` // set in a reported case: the run that disagreed
}

type c02wfModelRun struct {
	Sched     string          `json:"sched"`
	Result    gcase.ResultJ   `json:"result"`
	Batches   [][]gcase.TaskJ `json:"batches"`
	Order     []string        `json:"order"`
	Abandoned []string        `json:"abandoned"`
	Skipped   []string        `json:"skipped"`
}

type c02wfModel struct {
	Runs         []c02wfModelRun `json:"runs"`
	Alts         []gcase.ResultJ `json:"alts"`         // results under every completion schedule (if complete)
	AltsComplete bool            `json:"altsComplete"` // the exploration of all schedules finished within its budget
	Possible     []gcase.TaskJ   `json:"possible"`     // failing cases: every (node, input) submitted under some schedule
	WF           *bool           `json:"wf"`           // the model's compiled runner satisfies DagWF (hypothesis of workflow_at_most_once)
	WF2          *bool           `json:"wf2"`          // ... and DagWF2 (hypothesis of dag_enabled_nodes_start)
	GWF          *bool           `json:"gwf"`          // WorkflowDefWF of the definition (counted)
	WF3          *bool           `json:"wf3"`          // ... and DagWF3 (hypothesis of the schedule-independence theorems)
}

// set once a scripted completion order could not be followed (each such run costs a 15 s
// classification timeout): the remaining cases of this process run without scripts
var c02wfScriptBroken bool

var c02wfScheds = []string{"first", "last", "kmax", "kmin", "rot1", "rot2", "h1", "h2", "okfirst"}

func c02wfNormRes(r gcase.ResultJ) gcase.ResultJ {
	if r.Path == nil {
		r.Path = []string{}
	}
	return r
}

func c02wfSubmitted(m *c02wfModelRun) []gcase.TaskJ {
	out := []gcase.TaskJ{}
	for _, b := range m.Batches {
		out = append(out, b...)
	}
	sort.Slice(out, func(i, j int) bool {
		if out[i].K != out[j].K {
			return out[i].K < out[j].K
		}
		return out[i].In < out[j].In
	})
	return out
}

func c02wfTraceKeys(m *c02wfModelRun) [][]string {
	out := [][]string{}
	for _, b := range m.Batches {
		ks := []string{}
		for _, t := range b {
			ks = append(ks, t.K)
		}
		sort.Strings(ks)
		out = append(out, ks)
	}
	return out
}

func c02wfResClass(r gcase.ResultJ) string {
	if r.Err != nil {
		return r.Err.C
	}
	return "ok"
}

// subset: every (k,in) of a occurs in b (multiset inclusion)
func c02wfSubset(a, b []gcase.TaskJ) bool {
	cnt := map[string]int{}
	for _, t := range b {
		cnt[t.K+"\x00"+t.In]++
	}
	for _, t := range a {
		k := t.K + "\x00" + t.In
		if cnt[k] == 0 {
			return false
		}
		cnt[k]--
	}
	return true
}

type c02wfReporter struct {
	ctx  *vh.Ctx
	c    *c02wfCase
	spec c02wfRunSpec
}

func (rp *c02wfReporter) disagree(obs, what string, model, impl any) {
	cc := *rp.c
	sp := rp.spec
	cc.Run = &sp
	rp.ctx.Res.Disagree(vh.Disagreement{Signature: "C02:wf:" + obs + ":" + rp.spec.Mode, What: what, Case: cc, Model: model, Impl: impl})
}

// one run of the implementation against the model
func c02wfCompare(ctx *vh.Ctx, c *c02wfCase, model *c02wfModel, spec c02wfRunSpec) (impl *gcase.WOutcome) {
	rp := &c02wfReporter{ctx: ctx, c: c, spec: spec}
	var mrun *c02wfModelRun
	opts := &gcase.WRunOpts{Yields: spec.Yields, Stream: spec.Mode == "stream"}
	if spec.Mode == "script" {
		if c02wfScriptBroken && ctx.Replay == nil {
			ctx.Res.Dist("wf-script-skipped-after-stuck")
			return nil
		}
		for i := range model.Runs {
			if model.Runs[i].Sched == spec.Sched {
				mrun = &model.Runs[i]
			}
		}
		if mrun == nil {
			return nil
		}
		// the completion order of the model's run, then whatever it left running (released last)
		opts.Script = append(append([]string{}, mrun.Order...), mrun.Abandoned...)
		if len(opts.Script) == 0 {
			opts.Script = []string{"-"} // keeps the state post-handlers installed
		}
	}
	ctx.Progress.Mark(c)
	var class string
	impl, class = gcase.RunWorkflow(c.W, c.Input, opts)
	if impl == nil {
		cl := strings.SplitN(class, ":", 2)[0]
		ctx.Res.Dist("wf-class=" + cl)
		if cl == "hang" || cl == "panic-escaped" || cl == "compile-panic" || cl == "build-panic" {
			rp.disagree(cl, "workflow run: "+class, nil, nil)
		}
		return nil
	}
	impl.Result = c02wfNormRes(impl.Result)
	// direct property predicate: at most once per node
	seen := map[string]int{}
	for _, t := range impl.Execs {
		seen[t.K]++
		if seen[t.K] == 2 {
			rp.disagree("ran-twice", "node "+t.K+" executed twice in one workflow run", nil, impl)
		}
	}
	if len(impl.Stuck) > 0 {
		c02wfScriptBroken = true
		rp.disagree("script-stuck", "the completion order of the model's run could not be followed by the implementation: body of "+strings.Join(impl.Stuck, ",")+" never released", mrun, impl)
		return impl
	}
	if mrun != nil {
		// exact comparison with the model's run under this completion schedule
		if !vh.CanonEq(impl.Result, c02wfNormRes(mrun.Result)) {
			rp.disagree("result", "result of the workflow run differs from the model's run under the same completion order", mrun, impl)
			return impl
		}
		if !vh.CanonEq(impl.Trace, c02wfTraceKeys(mrun)) {
			rp.disagree("trace", "the tasks submitted after each completion differ from the model's run under the same completion order", mrun, impl)
			return impl
		}
		sub := c02wfSubmitted(mrun)
		if impl.Result.Err == nil {
			if !vh.CanonEq(impl.Execs, sub) {
				rp.disagree("execs", "executed nodes / their inputs differ from the model (same completion order)", mrun, impl)
			}
		} else {
			// stragglers may or may not have entered their body when the run returned the error
			var done []gcase.TaskJ
			for _, t := range sub {
				for _, k := range mrun.Order {
					if k == t.K {
						done = append(done, t)
						break
					}
				}
			}
			if !c02wfSubset(impl.Execs, sub) || !c02wfSubset(done, impl.Execs) {
				rp.disagree("execs", "executed nodes / their inputs are not between the model's collected and submitted sets (failing run, same completion order)", mrun, impl)
			}
		}
		return impl
	}
	// free-running / stream: any of the model's schedule alternatives
	okRes := false
	for _, a := range model.Alts {
		if vh.CanonEq(impl.Result, c02wfNormRes(a)) {
			okRes = true
		}
	}
	if !okRes {
		if impl.Result.Err != nil && !model.AltsComplete {
			ctx.Res.Dist("wf-failing-free-run-unverified") // too many schedules to enumerate
			return impl
		}
		rp.disagree("result", "result of the workflow run is none of the model's results under any completion schedule", model.Alts, impl)
		return impl
	}
	if impl.Result.Err == nil {
		for i := range model.Runs {
			if model.Runs[i].Result.Err == nil {
				if !vh.CanonEq(impl.Execs, c02wfSubmitted(&model.Runs[i])) {
					rp.disagree("execs", "executed nodes / their inputs differ from the model", &model.Runs[i], impl)
				}
				break
			}
		}
	} else if model.AltsComplete {
		// which nodes have started when the failure is collected depends on the completion order
		if !c02wfSubset(impl.Execs, model.Possible) {
			rp.disagree("execs", "a node executed (or its input) that no completion schedule of the model executes (failing run)", model.Possible, impl)
		}
	}
	return impl
}

func c02wfAsk(ctx *vh.Ctx, c *c02wfCase) (*c02wfModel, error) {
	q := *c
	q.Run = nil
	raw, err := ctx.Oracle.Ask("C02", &q)
	if err != nil {
		return nil, err
	}
	var model c02wfModel
	if err := json.Unmarshal(raw, &model); err != nil {
		return nil, err
	}
	return &model, nil
}

// model-internal: successful runs must not depend on the completion schedule
func c02wfModelConfluent(ctx *vh.Ctx, c *c02wfCase, model *c02wfModel) {
	var first *c02wfModelRun
	for i := range model.Runs {
		m := &model.Runs[i]
		if m.Result.Err != nil {
			continue
		}
		if first == nil {
			first = m
			continue
		}
		if !vh.CanonEq(m.Result, first.Result) || !vh.CanonEq(c02wfSubmitted(m), c02wfSubmitted(first)) {
			ctx.Res.Disagree(vh.Disagreement{Signature: "C02:wf:schedule-dependent:model", What: "the model's eager run succeeds with different results / execution sets under two completion schedules", Case: c, Model: []any{first, m}})
			return
		}
	}
	for i := range model.Runs {
		if model.Runs[i].Result.Err == nil && len(model.Runs[i].Abandoned) > 0 {
			ctx.Res.Dist("wf-abandoned-on-success") // generator promises a path to END for every node
		}
	}
}

func c02wfOne(ctx *vh.Ctx, c *c02wfCase, specs []c02wfRunSpec) error {
	model, err := c02wfAsk(ctx, c)
	if err != nil {
		return err
	}
	if len(model.Runs) == 0 {
		return fmt.Errorf("c02 workflow: oracle returned no runs")
	}
	c02wfModelConfluent(ctx, c, model)
	nodes, ctrlOnly, dataOnly, both, branches, zeroIn := gcase.WShape(c.W)
	ctx.Res.Dist(fmt.Sprintf("wf-nodes=%d", nodes))
	ctx.Res.Dist(fmt.Sprintf("wf-branches=%d", branches))
	if ctrlOnly > 0 {
		ctx.Res.Dist("wf-has-control-only-dep")
	}
	if dataOnly > 0 {
		ctx.Res.Dist("wf-has-data-only-dep")
	}
	if both > 0 {
		ctx.Res.Dist("wf-has-combined-dep")
	}
	m0 := &model.Runs[0]
	ctx.Res.Dist("wf-result=" + c02wfResClass(m0.Result))
	if len(m0.Skipped) > 0 {
		ctx.Res.Dist("wf-some-skipped")
	}
	for _, t := range c02wfSubmitted(m0) {
		if t.In == "" {
			ctx.Res.Dist("wf-zero-value-input-ran")
			break
		}
	}
	orders := map[string]bool{}
	for i := range model.Runs {
		orders[strings.Join(model.Runs[i].Order, ",")] = true
	}
	if len(orders) > 1 {
		ctx.Res.Dist("wf-distinct-completion-orders>1")
	}
	if len(model.Alts) > 1 {
		ctx.Res.Dist("wf-result-alternatives>1")
	}
	q := *c
	q.Run = nil
	ctx.Res.Count("wf:"+vh.Canon(&q), nodes >= 2 && len(m0.Order) >= 2 && (ctrlOnly > 0 || dataOnly > 0 || branches > 0 || zeroIn))
	ctx.Res.Sample(&q)
	var okScript *gcase.WOutcome
	var okSpec c02wfRunSpec
	wfHyp := model.WF != nil && *model.WF
	ctx.Res.Dist(fmt.Sprintf("wf-hypothesis=%v", wfHyp))
	ctx.Res.Dist(fmt.Sprintf("wf2-hypothesis=%v", model.WF2 != nil && *model.WF2))
	ctx.Res.Dist(fmt.Sprintf("wf3-hypothesis=%v", model.WF3 != nil && *model.WF3))
	ctx.Res.Dist(fmt.Sprintf("workflowdef-wf=%v", model.GWF != nil && *model.GWF))
	for _, sp := range specs {
		impl := c02wfCompare(ctx, c, model, sp)
		if impl != nil && !wfHyp {
			// eino compiled and ran it: the theorem's hypothesis must cover it
			cc := *c
			cc.Run = nil
			ctx.Res.Disagree(vh.Disagreement{Signature: "C02:wf:wf-hypothesis", What: "eino compiled and ran this workflow, but the model's compiled runner does not satisfy DagWF — the hypothesis of workflow_at_most_once", Case: cc, Impl: impl})
			break
		}
		ctx.Res.Dist("wf-run=" + sp.Mode)
		// direct property predicate on the implementation alone: two successful runs under two
		// enforced completion orders execute the same nodes on the same inputs, same result
		if impl != nil && sp.Mode == "script" && impl.Result.Err == nil {
			if okScript == nil {
				okScript, okSpec = impl, sp
			} else if !vh.CanonEq(okScript.Result, impl.Result) || !vh.CanonEq(okScript.Execs, impl.Execs) {
				cc := *c
				cc.Run = nil
				ctx.Res.Disagree(vh.Disagreement{Signature: "C02:wf:schedule-dependent:impl", What: "two successful runs of the same workflow under the enforced completion orders " + okSpec.Sched + " / " + sp.Sched + " execute different nodes or return different results", Case: cc, Impl: []any{okScript, impl}})
			}
		}
	}
	return nil
}

func c02wfYields(r *vh.Rand, w *gcase.Workflow) map[string]int {
	y := map[string]int{}
	for _, n := range w.Nodes {
		if r.Chance(60) {
			y[n.Key] = r.Intn(6)
		}
	}
	return y
}

func c02wfReplay(ctx *vh.Ctx, raw json.RawMessage) error {
	var c c02wfCase
	if err := json.Unmarshal(raw, &c); err != nil {
		return err
	}
	if len(c.Scheds) == 0 {
		c.Scheds = c02wfScheds
	}
	var specs []c02wfRunSpec
	if c.Run != nil {
		specs = []c02wfRunSpec{*c.Run}
		if c.Run.Mode != "script" {
			for i := 0; i < 20; i++ { // a free run is one sample of the scheduler: repeat
				specs = append(specs, *c.Run)
			}
		}
	} else {
		for _, s := range c.Scheds {
			specs = append(specs, c02wfRunSpec{Mode: "script", Sched: s})
		}
		specs = append(specs, c02wfRunSpec{Mode: "free"}, c02wfRunSpec{Mode: "stream"})
	}
	return c02wfOne(ctx, &c, specs)
}

func runC02Workflow(ctx *vh.Ctx) error {
	ctx.Res.Rule += " | workflows (kind=workflow): random acyclic compose.Workflow, 1-7 nodes (thorough 1-11), AddInput / AddDependency / WithNoDirectDependency, branches without data flow (single/multi, converging, nested skips), static values, END fed by several nodes; each under scripted completion orders, a free run with seeded yields and (thorough) Stream mode; non-trivial = >=2 nodes, >=2 completions and (control-only | data-only dependency | branch | zero-input node)"
	n := ctx.N(3000, 30000)
	limit := time.Duration(ctx.N(11, 40)) * time.Second
	start := time.Now()
	penalised := false
	for i := 0; i < n && time.Since(start) < limit; i++ {
		if c02wfScriptBroken && !penalised {
			// one classification timeout was spent on a script that could not be followed
			// (a disagreement already): do not let it eat the family's budget
			penalised = true
			limit += 16 * time.Second
		}
		o := gcase.WGenOpts{MaxNodes: 7, FailPct: 4, BranchPct: 30, Natives: false}
		if ctx.Thorough() {
			o.MaxNodes = 11
		}
		stream := ctx.Thorough() && ctx.Rng.Chance(30)
		o.Natives = stream
		c := &c02wfCase{Kind: "workflow", W: gcase.GenWorkflow(ctx.Rng, o), Input: fmt.Sprintf("x%d", ctx.Rng.Intn(5)), Scheds: c02wfScheds}
		// two scripted completion orders (one adversarial: newest / greatest key first), one free run
		specs := []c02wfRunSpec{
			{Mode: "script", Sched: []string{"last", "kmax", "first"}[ctx.Rng.Intn(3)]},
			{Mode: "script", Sched: c02wfScheds[ctx.Rng.Intn(len(c02wfScheds))]},
			{Mode: "free", Yields: c02wfYields(ctx.Rng, c.W)},
		}
		if ctx.Thorough() {
			specs = append(specs, c02wfRunSpec{Mode: "script", Sched: c02wfScheds[ctx.Rng.Intn(len(c02wfScheds))]},
				c02wfRunSpec{Mode: "free", Yields: c02wfYields(ctx.Rng, c.W)})
		}
		if stream {
			specs = append(specs, c02wfRunSpec{Mode: "stream", Yields: c02wfYields(ctx.Rng, c.W)})
		}
		if err := c02wfOne(ctx, c, specs); err != nil {
			return err
		}
	}
	ctx.Res.Extra["workflow_family_seconds"] = time.Since(start).Seconds()
	return nil
}
