//go:build verif && (vh_all || vh_c09)

package props

// C09 — family "errpath": runs that FAIL.  "Each run returns what it would return if it ran
// alone" includes the error a run returns: its class, its message and the node path it names are
// a function of that run's graph, input and options only.
//
// One case = 1..3 compiled objects living in ONE process, each a tower of nested graphs
// (level 0 = the compiled runnable, level k+1 = a graph node of level k; every level is a
// pregel graph / dag graph / chain / workflow), and 2..8 callers (four paradigms), each aimed at
// one of the objects with a directive carried in its input:
//
//	ok     the run succeeds (value = input + "." + key of every node it went through)
//	f<l>   the lambda node "f<l>" of level l fails                       (node failure)
//	site   the innermost graph fails in the way the object was built for:
//	         loop    ping -> pong -> (branch: ping again) : an AnyPredecessor graph that runs
//	                 into its step limit (WithMaxRunSteps at compile time, or the default)
//	         branch  the branch condition returns an error               (branch failure)
//	         merge   two fan-out nodes answer with the same map key       (merge failure)
//
// The child process (-race, halt_on_error=0) runs every call alone, one after the other
// (SUCCESSIVE runs of the same and of different compiled objects), then all calls concurrently
// in `Reps` waves; gates at the head of the outermost and inside the innermost graph are
// barriers (every run of a wave is in flight before one of them fails).  Reference: the Lean
// model (EinoV.C09.Err: the specification `runSpec` — the error path is the run's own nesting
// path — and the error-object machine under a schedule) and, for one failing call of every case
// and for every call that deviates, the SAME call run alone in a FRESH process.

import (
	"context"
	"encoding/json"
	"errors"
	"fmt"
	"strings"
	"time"

	"github.com/cloudwego/eino/compose"
	"github.com/cloudwego/eino/schema"
	"github.com/cloudwego/eino/verifharness/vh"
)

// ---- case language ----

type c09ELevel struct {
	Key    string `json:"key"`              // key of this graph as a node of its parent ("" at level 0)
	Mode   string `json:"mode"`             // pregel|dag|chain|workflow
	Pre    int    `json:"pre"`              // pass nodes p<l>_<j> before the fail node f<l>
	Post   int    `json:"post"`             // pass nodes q<l>_<j> after the nested graph / the site
	Stream bool   `json:"stream,omitempty"` // the pass nodes are transformable lambdas
}

type c09EObj struct {
	Levels   []c09ELevel `json:"levels"`             // outermost first
	Site     string      `json:"site"`               // none|loop|branch|merge : what the innermost graph holds behind its fail node
	MaxSteps int         `json:"maxSteps,omitempty"` // loop: WithMaxRunSteps of the innermost graph (0: the default, len(nodes)+10)
}

type c09ErrPath struct {
	Objs []c09EObj `json:"objs"`
}

func c09EDirOf(in string) (tok, dir string) {
	i := strings.Index(in, "~")
	if i < 0 {
		return in, ""
	}
	dir = in[i+1:]
	if j := strings.Index(dir, "."); j >= 0 {
		dir = dir[:j]
	}
	return in[:i], dir
}

// ---- generator ----

var c09EModes = []string{"pregel", "dag", "chain", "workflow"}

// c09ErrCorpusCase is the fixed case every run of the family starts with (k = 0), whatever the
// seed: two compiled objects whose innermost graph loops (one below node `agent` with
// WithMaxRunSteps, one two graphs deep with the default limit), callers that overrun in both,
// in all four paradigms, a node failure and a successful run in between, two waves.
func c09ErrCorpusCase() c09Case {
	c := c09Case{Kind: "errpath", Seed: 1, Reps: 2}
	c.Err = &c09ErrPath{Objs: []c09EObj{
		{Site: "loop", MaxSteps: 6, Levels: []c09ELevel{{Mode: "pregel"}, {Key: "agent", Mode: "pregel"}}},
		{Site: "loop", Levels: []c09ELevel{{Mode: "chain", Pre: 1}, {Key: "alpha", Mode: "workflow", Post: 1}, {Key: "beta", Mode: "pregel", Pre: 1}}},
	}}
	c.Calls = []c09Call{
		{In: "c0~site", Obj: 0, Paradigm: "invoke"},
		{In: "c1~site", Obj: 0, Paradigm: "stream"},
		{In: "c2~site", Obj: 1, Paradigm: "collect", Chunks: 2},
		{In: "c3~f1", Obj: 0, Paradigm: "transform", Chunks: 1},
		{In: "c4~ok", Obj: 1, Paradigm: "invoke"},
		{In: "c5~site", Obj: 1, Paradigm: "transform", Chunks: 2},
	}
	for s := 0; s < 6; s++ {
		for t := len(c.Calls)*c.Reps - 1; t >= 0; t-- {
			c.Sched = append(c.Sched, t)
		}
	}
	return c
}

func c09GenErrPath(r *vh.Rand, k int) c09Case {
	if k == 0 {
		r.U64() // keep the stream of the caller's generator where it was
		return c09ErrCorpusCase()
	}
	c := c09Case{Kind: "errpath", Seed: r.U64() % 1000000}
	e := &c09ErrPath{}
	no := 1
	switch x := r.Intn(100); {
	case x < 15:
		no = 3
	case x < 50:
		no = 2
	}
	for oi := 0; oi < no; oi++ {
		o := c09EObj{}
		switch x := r.Intn(100); {
		case x < 40 || (oi == 0 && k%3 == 0):
			o.Site = "loop"
		case x < 52:
			o.Site = "none"
		case x < 76:
			o.Site = "branch"
		default:
			o.Site = "merge"
		}
		depth := 1
		switch x := r.Intn(100); {
		case x < 12:
			depth = 0
		case x < 60:
			depth = 1
		case x < 92:
			depth = 2
		default:
			depth = 3
		}
		for l := 0; l <= depth; l++ {
			lv := c09ELevel{Mode: c09EModes[r.Intn(4)], Pre: r.Range(0, 2), Post: r.Range(0, 1), Stream: r.Chance(20)}
			if l > 0 {
				lv.Key = fmt.Sprintf("o%dg%d", oi, l)
				if r.Chance(25) { // the same key in every object and at every level: only the position tells the runs apart
					lv.Key = "agent"
				}
			}
			if l == depth {
				switch o.Site {
				case "loop":
					lv.Mode = "pregel"
				case "branch":
					lv.Mode = []string{"pregel", "dag", "chain"}[r.Intn(3)]
				case "merge":
					lv.Mode = []string{"pregel", "dag"}[r.Intn(2)]
				}
			}
			o.Levels = append(o.Levels, lv)
		}
		if o.Site == "loop" && r.Chance(50) {
			in := o.Levels[depth]
			o.MaxSteps = in.Pre + in.Post + 4 + r.Range(1, 4)
		}
		e.Objs = append(e.Objs, o)
	}
	c.Err = e
	ng := []int{2, 3, 4, 4, 6, 8}[r.Intn(6)]
	c.Reps = r.Range(1, 3)
	poff := r.Intn(4)
	for i := 0; i < ng; i++ {
		oi := r.Intn(no)
		if i < 2 {
			oi = 0 // two callers of the first object
		} else if i == 2 && no > 1 {
			oi = 1
		}
		o := e.Objs[oi]
		dir := "ok"
		switch x := r.Intn(100); {
		case x < 45 && o.Site != "none":
			dir = "site"
		case x < 78:
			dir = fmt.Sprintf("f%d", r.Intn(len(o.Levels)))
		}
		if i < 2 && o.Site != "none" && r.Chance(65) {
			dir = "site"
		}
		par := c09Paradigms[(i+poff)%4]
		if o.Site == "merge" && dir == "site" {
			// a fan-in of two maps with the same key is an error only when the run works on values
			// (Invoke); in the stream paradigms the two one-chunk streams are merged and the chunks
			// concatenated, which is a difference between paradigms, not between runs
			par = "invoke"
		}
		c.Calls = append(c.Calls, c09Call{In: fmt.Sprintf("c%d~%s", i, dir), Obj: oi, Paradigm: par, Chunks: r.Range(1, 2)})
	}
	// the model's interleaving: one thread per (call, wave); a failing run takes one step to
	// obtain its error object and one per enclosing graph
	for t := 0; t < ng*c.Reps; t++ {
		for s := 5 + r.Intn(2); s > 0; s-- {
			c.Sched = append(c.Sched, t)
		}
	}
	c.Sched = c09Shuffle(r, c.Sched)
	return c
}

// ---- the compiled objects ----

func c09EPass(key string, stream bool) *compose.Lambda {
	if stream {
		return compose.TransformableLambda(func(ctx context.Context, in *schema.StreamReader[string]) (*schema.StreamReader[string], error) {
			v, err := c09ReadAll(in)
			if err != nil {
				return nil, err
			}
			return schema.StreamReaderFromArray(c09Split(v + "." + key)), nil
		})
	}
	return compose.InvokableLambda(func(ctx context.Context, in string) (string, error) { return in + "." + key, nil })
}

// the fail node of level l; `gate` >= 0: the first time a run gets here it waits for the wave
func c09EFail(l, gate int) *compose.Lambda {
	key := fmt.Sprintf("f%d", l)
	return compose.InvokableLambda(func(ctx context.Context, in string) (string, error) {
		if gate >= 0 {
			c09TokOf(ctx).arrive(gate)
		}
		tok, dir := c09EDirOf(in)
		if dir == key {
			return "", errors.New("boom(" + tok + ")")
		}
		return in + "." + key, nil
	})
}

type c09EStep struct {
	key  string
	l    *compose.Lambda
	g    compose.AnyGraph
	opts []compose.GraphAddNodeOpt
}

type c09ECompile func(ctx context.Context, copts ...compose.GraphCompileOption) (compose.Runnable[string, string], error)

// START -> steps… -> END in the given mode
func c09ELinear(mode string, steps []c09EStep) (compose.AnyGraph, c09ECompile, error) {
	switch mode {
	case "chain":
		ch := compose.NewChain[string, string]()
		for _, s := range steps {
			o := append(append([]compose.GraphAddNodeOpt{}, s.opts...), compose.WithNodeKey(s.key))
			if s.g != nil {
				ch.AppendGraph(s.g, o...)
			} else {
				ch.AppendLambda(s.l, o...)
			}
		}
		return ch, func(ctx context.Context, copts ...compose.GraphCompileOption) (compose.Runnable[string, string], error) {
			return ch.Compile(ctx, copts...)
		}, nil
	case "workflow":
		wf := compose.NewWorkflow[string, string]()
		prev := compose.START
		for _, s := range steps {
			if s.g != nil {
				wf.AddGraphNode(s.key, s.g, s.opts...).AddInput(prev)
			} else {
				wf.AddLambdaNode(s.key, s.l, s.opts...).AddInput(prev)
			}
			prev = s.key
		}
		wf.End().AddInput(prev)
		return wf, func(ctx context.Context, copts ...compose.GraphCompileOption) (compose.Runnable[string, string], error) {
			return wf.Compile(ctx, copts...)
		}, nil
	}
	g := compose.NewGraph[string, string]()
	prev := compose.START
	for _, s := range steps {
		var err error
		if s.g != nil {
			err = g.AddGraphNode(s.key, s.g, s.opts...)
		} else {
			err = g.AddLambdaNode(s.key, s.l, s.opts...)
		}
		if err != nil {
			return nil, nil, err
		}
		if err = g.AddEdge(prev, s.key); err != nil {
			return nil, nil, err
		}
		prev = s.key
	}
	if err := g.AddEdge(prev, compose.END); err != nil {
		return nil, nil, err
	}
	return g, c09EGraphCompile(g, mode), nil
}

func c09EGraphCompile(g *compose.Graph[string, string], mode string) c09ECompile {
	return func(ctx context.Context, copts ...compose.GraphCompileOption) (compose.Runnable[string, string], error) {
		if mode == "dag" {
			copts = append(copts, compose.WithNodeTriggerMode(compose.AllPredecessor))
		}
		return g.Compile(ctx, copts...)
	}
}

// the innermost graph of an object whose site is loop / branch / merge (a Graph, or a Chain for
// a branch):  START -> p… -> f -> <site> -> q… -> END
func c09ESiteGraph(o *c09EObj, l int, gate int) (compose.AnyGraph, c09ECompile, error) {
	lv := o.Levels[l]
	if lv.Mode == "chain" { // branch only
		ch := compose.NewChain[string, string]()
		for j := 0; j < lv.Pre; j++ {
			k := fmt.Sprintf("p%d_%d", l, j)
			ch.AppendLambda(c09EPass(k, lv.Stream), compose.WithNodeKey(k))
		}
		ch.AppendLambda(c09EFail(l, gate), compose.WithNodeKey(fmt.Sprintf("f%d", l)))
		cb := compose.NewChainBranch(c09EBranchCond())
		cb.AddLambda("ba", c09EPass("ba", false))
		cb.AddLambda("bb", c09EPass("bb", false))
		ch.AppendBranch(cb)
		ch.AppendLambda(c09EPass("bm", false), compose.WithNodeKey("bm"))
		for j := 0; j < lv.Post; j++ {
			k := fmt.Sprintf("q%d_%d", l, j)
			ch.AppendLambda(c09EPass(k, lv.Stream), compose.WithNodeKey(k))
		}
		return ch, func(ctx context.Context, copts ...compose.GraphCompileOption) (compose.Runnable[string, string], error) {
			return ch.Compile(ctx, copts...)
		}, nil
	}
	g := compose.NewGraph[string, string]()
	var berr error
	note := func(err error) {
		if err != nil && berr == nil {
			berr = err
		}
	}
	prev := compose.START
	lin := func(key string, lam *compose.Lambda) {
		note(g.AddLambdaNode(key, lam))
		note(g.AddEdge(prev, key))
		prev = key
	}
	for j := 0; j < lv.Pre; j++ {
		k := fmt.Sprintf("p%d_%d", l, j)
		lin(k, c09EPass(k, lv.Stream))
	}
	lin(fmt.Sprintf("f%d", l), c09EFail(l, gate))
	// what follows the site: the post nodes (added first: edges and branches may only name existing nodes)
	next := compose.END
	if lv.Post > 0 {
		next = fmt.Sprintf("q%d_0", l)
	}
	pprev := ""
	for j := 0; j < lv.Post; j++ {
		k := fmt.Sprintf("q%d_%d", l, j)
		note(g.AddLambdaNode(k, c09EPass(k, lv.Stream)))
		if pprev != "" {
			note(g.AddEdge(pprev, k))
		}
		pprev = k
	}
	if pprev != "" {
		note(g.AddEdge(pprev, compose.END))
	}
	switch o.Site {
	case "loop":
		lin("ping", c09EPass("ping", false))
		lin("pong", c09EPass("pong", false))
		note(g.AddBranch("pong", compose.NewGraphBranch(func(ctx context.Context, in string) (string, error) {
			if _, dir := c09EDirOf(in); dir == "site" {
				return "ping", nil // never leaves
			}
			return next, nil
		}, map[string]bool{"ping": true, next: true})))
	case "branch":
		note(g.AddLambdaNode("ba", c09EPass("ba", false)))
		note(g.AddLambdaNode("bb", c09EPass("bb", false)))
		note(g.AddLambdaNode("bm", c09EPass("bm", false)))
		note(g.AddBranch(prev, compose.NewGraphBranch(c09EBranchCond(), map[string]bool{"ba": true, "bb": true})))
		note(g.AddEdge("ba", "bm"))
		note(g.AddEdge("bb", "bm"))
		note(g.AddEdge("bm", next))
	case "merge":
		half := func(key, field string) *compose.Lambda {
			return compose.InvokableLambda(func(ctx context.Context, in string) (map[string]any, error) {
				if _, dir := c09EDirOf(in); dir == "site" {
					return map[string]any{"dup": in + "." + key}, nil
				}
				return map[string]any{field: in + "." + key}, nil
			})
		}
		note(g.AddLambdaNode("ma", half("ma", "a")))
		note(g.AddLambdaNode("mb", half("mb", "b")))
		note(g.AddLambdaNode("mj", compose.InvokableLambda(func(ctx context.Context, m map[string]any) (string, error) {
			return fmt.Sprint(m["a"]) + "+" + fmt.Sprint(m["b"]), nil
		})))
		note(g.AddEdge(prev, "ma"))
		note(g.AddEdge(prev, "mb"))
		note(g.AddEdge("ma", "mj"))
		note(g.AddEdge("mb", "mj"))
		note(g.AddEdge("mj", next))
	}
	if berr != nil {
		return nil, nil, berr
	}
	return g, c09EGraphCompile(g, lv.Mode), nil
}

func c09EBranchCond() func(ctx context.Context, in string) (string, error) {
	return func(ctx context.Context, in string) (string, error) {
		tok, dir := c09EDirOf(in)
		if dir == "site" {
			return "", errors.New("bboom(" + tok + ")")
		}
		return "ba", nil
	}
}

// compile options a level needs when it is compiled as a node of its parent / on its own
func c09ECompileOpts(o *c09EObj, l int) []compose.GraphCompileOption {
	var co []compose.GraphCompileOption
	if l == len(o.Levels)-1 && o.Site == "loop" && o.MaxSteps > 0 {
		co = append(co, compose.WithMaxRunSteps(o.MaxSteps))
	}
	return co
}

func c09EBuildLevel(o *c09EObj, l int) (compose.AnyGraph, c09ECompile, error) {
	lv := o.Levels[l]
	last := l == len(o.Levels)-1
	gate := -1
	if last {
		gate = 1
	}
	if last && o.Site != "none" && o.Site != "" {
		return c09ESiteGraph(o, l, gate)
	}
	var steps []c09EStep
	if l == 0 {
		steps = append(steps, c09EStep{key: "g0", l: c09GateLambda(0)})
	}
	for j := 0; j < lv.Pre; j++ {
		k := fmt.Sprintf("p%d_%d", l, j)
		steps = append(steps, c09EStep{key: k, l: c09EPass(k, lv.Stream)})
	}
	steps = append(steps, c09EStep{key: fmt.Sprintf("f%d", l), l: c09EFail(l, gate)})
	if !last {
		child, _, err := c09EBuildLevel(o, l+1)
		if err != nil {
			return nil, nil, err
		}
		co := c09ECompileOpts(o, l+1)
		if o.Levels[l+1].Mode == "dag" {
			co = append(co, compose.WithNodeTriggerMode(compose.AllPredecessor))
		}
		var no []compose.GraphAddNodeOpt
		if len(co) > 0 {
			no = append(no, compose.WithGraphCompileOptions(co...))
		}
		steps = append(steps, c09EStep{key: o.Levels[l+1].Key, g: child, opts: no})
	}
	for j := 0; j < lv.Post; j++ {
		k := fmt.Sprintf("q%d_%d", l, j)
		steps = append(steps, c09EStep{key: k, l: c09EPass(k, lv.Stream)})
	}
	return c09ELinear(lv.Mode, steps)
}

func c09BuildErrPath(c *c09Case) ([]compose.Runnable[string, string], error) {
	if c.Err == nil || len(c.Err.Objs) == 0 {
		return nil, errors.New("errpath: no objects")
	}
	var rs []compose.Runnable[string, string]
	for oi := range c.Err.Objs {
		o := &c.Err.Objs[oi]
		if len(o.Levels) == 0 {
			return nil, errors.New("errpath: object without levels")
		}
		var compile c09ECompile
		var err error
		if len(o.Levels) == 1 && o.Site != "none" && o.Site != "" {
			// the site graph is the compiled object itself: it has no gate node of its own,
			// so it is put behind one in a chain-free way: compile it directly (gate 1 is in f0)
			_, compile, err = c09ESiteGraph(o, 0, 0)
		} else {
			_, compile, err = c09EBuildLevel(o, 0)
		}
		if err != nil {
			return nil, fmt.Errorf("object %d: %v", oi, err)
		}
		r, err := compile(context.Background(), c09ECompileOpts(o, 0)...)
		if err != nil {
			return nil, fmt.Errorf("object %d: %v", oi, err)
		}
		rs = append(rs, r)
	}
	return rs, nil
}

// ---- what a run returned, in a form that can be compared ----

// c09ERender: "ok|<value>"  or  "err|<tag>|<cause>|<k1,k2,…>"
//
//	tag   = the bracketed first line of the message ("NodeRunError", "GraphRunError"; "" if none)
//	cause = maxsteps (the text AND errors.Is(err, compose.ErrExceedMaxSteps)) | boom | branch | merge | other
//	path  = the "node path: […]" the message ends with
func c09ERender(out string, err error, tok string) string {
	if err == nil {
		return "ok|" + out
	}
	msg := err.Error()
	tag := ""
	if strings.HasPrefix(msg, "[") {
		if j := strings.Index(msg, "]"); j > 0 {
			tag = msg[1:j]
		}
	}
	cause := "other"
	is := errors.Is(err, compose.ErrExceedMaxSteps)
	switch {
	case strings.Contains(msg, "exceeds max steps") && is:
		cause = "maxsteps"
	case strings.Contains(msg, "exceeds max steps") || is:
		cause = "maxsteps-inconsistent"
	case strings.Contains(msg, "bboom("+tok+")"):
		cause = "branch"
	case strings.Contains(msg, "boom("+tok+")"):
		cause = "boom"
	case strings.Contains(msg, "boom("):
		cause = "foreign-boom"
	case strings.Contains(msg, "duplicated key") || strings.Contains(msg, "merge"):
		cause = "merge"
	}
	return "err|" + tag + "|" + cause + "|" + c09EPathOf(msg)
}

func c09EPathOf(msg string) string {
	i := strings.LastIndex(msg, "node path: [")
	if i < 0 {
		return ""
	}
	rest := msg[i+len("node path: ["):]
	if j := strings.Index(rest, "]"); j >= 0 {
		rest = rest[:j]
	}
	return strings.ReplaceAll(rest, ", ", ",")
}

func c09ErrPathRunner(c *c09Case, rs []compose.Runnable[string, string]) c09Runner {
	ws := &c09Waves{n: len(c.Calls), g: 2, waves: map[int]*c09Wave{}}
	return func(ci, rep int, phase string) (obs c09Obs) {
		call := c.Calls[ci]
		ctx, tok := ws.ctxFor(phase, rep)
		defer func() {
			if p := recover(); p != nil {
				obs = c09Obs{Err: "panic", Msg: fmt.Sprint(p)}
			}
			if tok != nil {
				tok.finish()
				if tok.timedOut && obs.Err == "" {
					obs.Err = "gate-timeout"
				}
			}
		}()
		if call.Obj < 0 || call.Obj >= len(rs) {
			return c09Obs{Err: "panic", Msg: "no such object"}
		}
		t, _ := c09EDirOf(call.In)
		out, err := c09RunParadigm(ctx, rs[call.Obj], call, nil)
		if err != nil {
			if c09ErrClass(err) == "interrupt" {
				return c09Obs{Err: "interrupt", Msg: err.Error()}
			}
			// the error is rendered HERE, when the run returns it (an error object that other
			// runs keep writing to may read differently later) …
			obs = c09Obs{Out: c09ERender("", err, t), Msg: err.Error()}
			if phase == "conc" {
				// … and once more when the call has let go of its barrier token, i.e. while /
				// after other runs of the wave report their errors
				tok.finish()
				time.Sleep(200 * time.Microsecond)
				if later := c09ERender("", err, t); later != obs.Out {
					obs.Out += " THEN " + later
				}
			}
			return obs
		}
		return c09Obs{Out: c09ERender(out, nil, t)}
	}
}

// ---- the model's view ----

func c09ErrOracleCase(c *c09Case) any {
	type ol struct {
		Key  string `json:"key"`
		Pre  int    `json:"pre"`
		Post int    `json:"post"`
	}
	type oo struct {
		Levels []ol   `json:"levels"`
		Site   string `json:"site"`
	}
	type oc struct {
		Obj int    `json:"obj"`
		Tok string `json:"tok"`
		Dir string `json:"dir"`
	}
	objs := []oo{}
	for _, o := range c.Err.Objs {
		x := oo{Site: o.Site, Levels: []ol{}}
		for _, l := range o.Levels {
			x.Levels = append(x.Levels, ol{l.Key, l.Pre, l.Post})
		}
		objs = append(objs, x)
	}
	calls := []oc{}
	for _, k := range c.Calls {
		t, d := c09EDirOf(k.In)
		calls = append(calls, oc{k.Obj, t, d})
	}
	sched := c.Sched
	if sched == nil {
		sched = []int{}
	}
	return map[string]any{"family": "errpath", "objs": objs, "calls": calls, "reps": c09Reps(c), "sched": sched}
}

// ---- parent side ----

func c09EWhat(got, want string) string {
	g, w := strings.Split(got, "|"), strings.Split(want, "|")
	switch {
	case strings.Contains(got, " THEN "):
		return "error-changed-after-return"
	case g[0] != w[0]:
		return "outcome"
	case g[0] == "ok":
		return "output"
	case len(g) == 4 && len(w) == 4 && g[1] == w[1] && g[2] == w[2]:
		return "node-path"
	}
	return "error"
}

func c09EvaluateE(ctx *vh.Ctx, c *c09Case) error {
	ctx.Progress.Mark(c)
	if c.Err == nil {
		return fmt.Errorf("errpath case without description")
	}
	reps := c09Reps(c)
	raw, err := ctx.Oracle.Ask("C09", c09ErrOracleCase(c))
	if err != nil {
		return err
	}
	var ans c09XAns
	if err := json.Unmarshal(raw, &ans); err != nil {
		return err
	}
	if len(ans.Alone) != len(c.Calls) || len(ans.Interleaved) != len(c.Calls)*reps {
		return fmt.Errorf("oracle answer has wrong arity (%d/%d, want %d/%d)", len(ans.Alone), len(ans.Interleaved), len(c.Calls), len(c.Calls)*reps)
	}
	expected := ans.Alone

	// ---- accounting ----
	pars := map[string]bool{}
	for _, k := range c.Calls {
		pars[k.Paradigm] = true
		ctx.Res.Dist("paradigm:" + k.Paradigm)
	}
	ctx.Res.Dist("kind:" + c.Kind)
	ctx.Res.Dist(fmt.Sprintf("goroutines:%d", len(c.Calls)))
	ctx.Res.Dist(fmt.Sprintf("errpath:objects:%d", len(c.Err.Objs)))
	shape := ""
	for _, o := range c.Err.Objs {
		ctx.Res.Dist("errpath:site:" + o.Site)
		ctx.Res.Dist(fmt.Sprintf("errpath:depth:%d", len(o.Levels)-1))
		shape += o.Site + ":"
		for l, lv := range o.Levels {
			shape += lv.Mode[:1]
			if l > 0 {
				ctx.Res.Dist("errpath:nested-as:" + o.Levels[l-1].Mode + ">" + lv.Mode)
			}
		}
		if o.Site == "loop" {
			if o.MaxSteps > 0 {
				ctx.Res.Dist("errpath:loop:WithMaxRunSteps")
			} else {
				ctx.Res.Dist("errpath:loop:default-limit")
			}
		}
		shape += "/"
	}
	overruns := map[int]int{} // object -> runs that exceed the step limit of a NESTED graph
	fails := 0
	for i, k := range c.Calls {
		e := strings.Split(expected[i], "|")
		if e[0] == "ok" {
			ctx.Res.Dist("errpath:run:ok")
			continue
		}
		fails++
		if len(e) == 4 {
			ctx.Res.Dist("errpath:run:" + e[2])
			ctx.Res.Dist(fmt.Sprintf("errpath:run:path-length:%d", len(strings.Split(e[3], ","))-c09BoolInt(e[3] == "")))
			if e[2] == "maxsteps" && e[3] != "" {
				overruns[k.Obj]++
			}
		}
	}
	nOver := 0
	for _, n := range overruns {
		nOver += n
	}
	if nOver >= 2 {
		ctx.Res.Dist("errpath:nested-overruns>=2")
		if len(overruns) >= 2 {
			ctx.Res.Dist("errpath:nested-overruns-in-different-objects")
		}
	}
	key := fmt.Sprintf("errpath/%s/g%d/r%d/%d/f%d", shape, len(c.Calls), reps, len(pars), fails)
	nontrivial := false
	defer func() { ctx.Res.Count(key, nontrivial) }()
	ctx.Res.Sample(map[string]any{"kind": c.Kind, "goroutines": len(c.Calls), "reps": reps, "err": c.Err, "calls": c.Calls[:1]})

	if !ans.Complete {
		ctx.Res.Disagree(vh.Disagreement{Signature: "C09:model:interleaved-ne-alone:errpath", What: "the schedule given to the model does not let every run finish (harness problem)", Case: c, Model: ans})
		return nil
	}
	for i := range c.Calls {
		for r := 0; r < reps; r++ {
			if ans.Interleaved[i*reps+r] != expected[i] {
				ctx.Res.Disagree(vh.Disagreement{Signature: "C09:model:interleaved-ne-alone:errpath",
					What: "the model's interleaved result differs from its alone result (contradicts run_error_is_own)", Case: c, Model: ans})
				return nil
			}
		}
	}

	// ---- implementation ----
	const gorace = "halt_on_error=0 exitcode=66 atexit_sleep_ms=50"
	res := c09RunChildEnv(c, 60*time.Second, gorace)
	raced := strings.Contains(res.Stderr, "WARNING: DATA RACE")
	reportRace := func() {
		fs, wr := c09RaceFuncsAny(res.Stderr)
		ctx.Res.Dist("outcome:race")
		ctx.Res.Disagree(vh.Disagreement{
			Signature: "C09:race:write-in:" + strings.Join(wr, "|"),
			What:      "data race reported by the Go race detector while " + fmt.Sprint(len(c.Calls)) + " goroutines ran failing calls on " + fmt.Sprint(len(c.Err.Objs)) + " compiled object(s) of one process (racing functions: " + strings.Join(fs, " / ") + ")",
			Case:      c,
			Model:     map[string]any{"expected": "no data race; every concurrent call returns what it returns alone"},
			Impl:      map[string]any{"exit_code": res.ExitCode, "race_report": res.Stderr},
		})
	}
	if res.TimedOut {
		ctx.Res.Dist("outcome:hang")
		ctx.Res.Disagree(vh.Disagreement{Signature: "C09:hang:" + c.Kind, What: "the concurrent invocation did not finish within 60 s", Case: c,
			Impl: map[string]any{"stderr": res.Stderr}})
		return nil
	}
	if res.Out == nil || (res.ExitCode != 0 && !(raced && res.ExitCode == 66)) {
		if raced {
			reportRace()
			return nil
		}
		ctx.Res.Dist("outcome:crash")
		ctx.Res.Disagree(vh.Disagreement{Signature: "C09:crash:" + c.Kind, What: fmt.Sprintf("the child process running the compiled objects died (exit %d)", res.ExitCode), Case: c,
			Impl: map[string]any{"stderr": res.Stderr, "err": res.Err}})
		return nil
	}
	if res.Out.BuildErr != "" {
		ctx.Res.Dist("outcome:build-error")
		ctx.Res.Note("case did not build: " + res.Out.BuildErr)
		ctx.Res.Disagree(vh.Disagreement{Signature: "C09:harness:build-error:" + c.Kind, What: "generated object failed to build: " + res.Out.BuildErr, Case: c})
		return nil
	}
	if len(res.Out.Alone) != len(c.Calls) || len(res.Out.Conc) != len(c.Calls) {
		ctx.Res.Disagree(vh.Disagreement{Signature: "C09:crash:" + c.Kind, What: "the child's answer is incomplete", Case: c, Impl: res.Out})
		return nil
	}
	// the same call, alone, in a FRESH process
	solo := func(i int) (c09Obs, bool) {
		sc := *c
		sc.Calls = []c09Call{c.Calls[i]}
		sc.Reps = 1
		sc.Sched = nil
		sr := c09RunChildEnv(&sc, 120*time.Second, gorace)
		if sr.Out == nil || len(sr.Out.Alone) != 1 {
			return c09Obs{}, false
		}
		return sr.Out.Alone[0], true
	}
	obsStr := func(o c09Obs) string {
		if o.Err != "" {
			return "!" + o.Err
		}
		return o.Out
	}
	// (0) the model against a fresh process, for one failing call of the case
	if fails > 0 {
		pick := int(c.Seed) % len(c.Calls)
		for !strings.HasPrefix(expected[pick], "err|") {
			pick = (pick + 1) % len(c.Calls)
		}
		if so, ok := solo(pick); ok && obsStr(so) != expected[pick] {
			ctx.Res.Dist("outcome:alone-mismatch")
			ctx.Res.Disagree(vh.Disagreement{
				Signature: fmt.Sprintf("C09:alone-vs-model:%s:%s", c.Kind, c.Calls[pick].Paradigm),
				What:      "a call run ALONE IN A FRESH PROCESS returns something else than the model (correspondence of the single-run semantics, not concurrency)",
				Case:      c, Model: map[string]any{"call": pick, "expected": expected[pick]}, Impl: so})
			return nil
		}
		ctx.Res.Dist("errpath:fresh-process-reference")
	}
	var first *vh.Disagreement
	bad := 0
	deviates := func(i int, o c09Obs, where, phase string) {
		bad++
		if first != nil {
			return
		}
		got := obsStr(o)
		if o.Err == "gate-timeout" {
			first = &vh.Disagreement{Signature: "C09:hang:" + c.Kind + ":gate", What: "a run waited 15 s at a barrier of the harness for runs that neither arrived nor finished",
				Case: c, Model: map[string]any{"call": i, "expected": expected[i]}, Impl: map[string]any{"got": o}}
			return
		}
		so, ok := solo(i)
		if !ok || obsStr(so) != expected[i] {
			first = &vh.Disagreement{
				Signature: fmt.Sprintf("C09:alone-vs-model:%s:%s", c.Kind, c.Calls[i].Paradigm),
				What:      "a call run ALONE IN A FRESH PROCESS returns something else than the model (correspondence of the single-run semantics, not concurrency)",
				Case:      c, Model: map[string]any{"call": i, "expected": expected[i]}, Impl: map[string]any{"fresh_process": so, "in_process": o}}
			return
		}
		first = &vh.Disagreement{
			Signature: fmt.Sprintf("C09:interference:errpath:%s:%s", phase, c09EWhat(got, expected[i])),
			What: fmt.Sprintf("call %d (object %d, %s) %s returns something else than the same call run alone in a fresh process: what a failing run reports depends on the other runs of the process",
				i, c.Calls[i].Obj, c.Calls[i].In, where),
			Case: c, Model: map[string]any{"call": i, "expected": expected[i], "fresh_process": so},
			Impl: map[string]any{"got": o}}
	}
	// (1) successive runs (the sequential phase of the child: same process, one call after the other)
	for i := range c.Calls {
		if o := res.Out.Alone[i]; obsStr(o) != expected[i] {
			deviates(i, o, fmt.Sprintf("run after %d other call(s) of the same process had returned", i), "successive-runs")
		}
	}
	// (2) concurrent runs
	for i := range c.Calls {
		for r, o := range res.Out.Conc[i] {
			if obsStr(o) != expected[i] {
				deviates(i, o, fmt.Sprintf("run concurrently with %d others (wave %d)", len(c.Calls)-1, r), "concurrent-runs")
			}
		}
	}
	if first != nil {
		ctx.Res.Dist("outcome:interference")
		if m, ok := first.Impl.(map[string]any); ok {
			m["wrong_runs"] = bad
			if raced {
				m["race_report"] = res.Stderr
			}
		}
		ctx.Res.Disagree(*first)
	}
	if raced {
		reportRace()
	}
	if first == nil && !raced {
		ctx.Res.Dist("outcome:agree")
		nontrivial = len(c.Calls) >= 2 && fails > 0
	}
	return nil
}

func c09BoolInt(b bool) int {
	if b {
		return 1
	}
	return 0
}
