//go:build verif && (vh_all || vh_c05)

package props

import (
	"encoding/json"
	"fmt"

	"github.com/cloudwego/eino/verifharness/gcase5"
	"github.com/cloudwego/eino/verifharness/vh"
)

func init() { vh.Register("C05", runC05) }

// c05Extra: additional case families of this property (other files of the c05 group append
// to it in their init); each gets the same Ctx and reports into the same result.
var c05Extra []vh.PropFunc

// c05ReplayExtra: replay dispatch for the extra families, by the "kind" field of the case.
var c05ReplayExtra = map[string]func(ctx *vh.Ctx, raw json.RawMessage) error{}

// c05Gen draws one case: a random graph (either trigger mode, cycles in pregel, branches, fan-in,
// nested graphs) decorated with interrupt-before/after points at every nesting level,
// rerun-requesting nodes and state with pre/post handlers.
func c05Gen(ctx *vh.Ctx, i int) *gcase5.Case {
	r := ctx.Rng
	o := gcase5.GenOpts{Mode: "mixed", MaxNodes: 6, Depth: 2, Cycles: true, FailPct: 2, BranchPct: 22,
		StatePct: 60, HandlerPct: 30, RerunPct: 12, IntPct: 22}
	if ctx.Thorough() {
		o.MaxNodes = 7 // (the shared engine model's skip-propagation fuel covers chains of up to 6 skipped nodes)
	}
	switch i % 5 {
	case 1: // nesting heavy
		o.Depth = 2
		o.MaxNodes = 4
		o.NestedPct = 45
	case 2: // rerun / state heavy
		o.StatePct = 100
		o.RerunPct = 35
		o.HandlerPct = 50
	case 3: // many interrupt points, cycles
		o.IntPct = 45
		o.Mode = "pregel"
	}
	c := &gcase5.Case{G: gcase5.Gen(r, o), Input: fmt.Sprintf("x%d", r.Intn(5)), MaxCalls: 40}
	if (ctx.Thorough() && r.Chance(35)) || (!ctx.Thorough() && r.Chance(20)) {
		// resume through the other paradigm / mix paradigms between calls
		switch r.Intn(3) {
		case 0:
			c.Paradigms = []string{"stream"}
		case 1:
			c.Paradigms = []string{"invoke", "stream"}
		default:
			c.Paradigms = []string{"stream", "invoke"}
		}
	}
	return c
}

func runC05(ctx *vh.Ctx) error {
	ctx.Res.Rule = "random graphs (pregel incl. cycles / dag, 1-6 nodes (7 thorough), branches, fan-in, nested graphs depth<=2) x interrupt-before/after subsets at every level x rerun-requesting nodes x state with pre/post handlers; driven with Invoke(WithCheckPointID) on a bytes-only store until completion (<=40 calls; thorough: Stream / mixed paradigms); compared per call with the Lean model (outcome, canonical InterruptInfo, store written, supersteps per (sub)graph, node executions with inputs) and across calls with the uninterrupted run of the same graph (final output, multiset of node executions minus aborted rerun attempts); non-trivial = at least one interrupt happened and >=2 nodes; distinct by canonical case"
	// the other property of the pair (C05 <-> C06) has its own source fact and repair: run the model with
	// the variant the implementation under test has, so that this check is independent of that repair
	other := gcase5.ProbeInitialChecked()
	ctx.Res.Note(fmt.Sprintf("CfgInitialChecked=%v (probed on the implementation)", other))
	if ctx.Replay != nil {
		var probe struct {
			Kind string `json:"kind"`
		}
		if json.Unmarshal(ctx.Replay, &probe) == nil && probe.Kind != "" {
			if f, ok := c05ReplayExtra[probe.Kind]; ok {
				return f(ctx, ctx.Replay)
			}
		}
		var c gcase5.Case
		if err := json.Unmarshal(ctx.Replay, &c); err != nil {
			return err
		}
		if c.Special != "" {
			return gcase5.EvaluateSpecial(ctx, &c)
		}
		c.CfgInitialChecked = &other
		return gcase5.Evaluate(ctx, "C05", &c, false)
	}
	if err := gcase5.EvaluateSpecial(ctx, &gcase5.Case{Special: gcase5.SpecialWorkflowStream}); err != nil {
		return err
	}
	n := ctx.N(6000, 60000)
	if !c05FamilyOn("main") {
		n = 0
	}
	for i := 0; i < n && ctx.TimeLeft(); i++ {
		c := c05Gen(ctx, i)
		c.CfgInitialChecked = &other
		if err := gcase5.Evaluate(ctx, "C05", c, true); err != nil {
			return err
		}
	}
	for _, f := range c05Extra {
		if err := f(ctx); err != nil {
			return err
		}
	}
	return nil
}
