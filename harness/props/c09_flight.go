//go:build verif && (vh_all || vh_c09)

package props

// C09 — family "inflight": MANY runs held in flight at once
// ("may be invoked from any number of goroutines at once"; "runs do not share channels").
//
// 1-2 compiled objects (chain / pregel / dag / workflow around a ToolsNode, followed by a rendering
// lambda) in one process, 40-300 concurrent callers, every input message with 1-3 tool calls.
// Every (outer) tool call waits at ONE barrier that opens only when every tool call of every run of
// the wave is in flight – the runs must be able to make progress side by side, however many they
// are.  Nested variant (agent-as-tool): the tool delegates, after the barrier, to an inner compiled
// runnable whose tools node runs 2-3 leaf calls; no run depends on another one.
// Reference: the same call alone (barrier of its own tool calls only), and the model
// (EinoV.C09.Flight: every run returns `runOut`, all of them complete).
// A tool call that waits 12 s at the barrier breaks it for everybody (the calls return an error:
// "not in flight together"); a run that has not returned after 25 s is reported as never returned.
// Both are liveness couplings between runs: disagreements with the model, which says that all runs
// are in flight together and return what they return alone.

import (
	"context"
	"errors"
	"fmt"
	"strings"
	"sync"
	"time"

	"github.com/cloudwego/eino/components/tool"
	"github.com/cloudwego/eino/compose"
	"github.com/cloudwego/eino/schema"
	"github.com/cloudwego/eino/verifharness/vh"
)

// ---- case language ----

type c09Flight struct {
	Mode  string `json:"mode"`            // chain|pregel|dag|workflow
	Objs  int    `json:"objs"`            // compiled objects the runs are spread over (call.Obj)
	Inner int    `json:"inner,omitempty"` // 0: plain tools; m>0: every tool call delegates to an inner tools node with m leaf calls
	Tool  string `json:"tool,omitempty"`  // i|s|is : the outer tool is invokable / streamable / both
}

// ---- generator ----

// k = how many cases of the family were generated before; the first two of every run are the
// big ones (barrier variant, nested variant), later ones are smaller
func c09GenFlight(r *vh.Rand, k int, thorough bool) c09Case {
	c := c09Case{Kind: "inflight", Seed: r.U64() % 1000000, Reps: 1}
	f := &c09Flight{Mode: []string{"chain", "pregel", "workflow", "dag"}[(k+r.Intn(2))%4], Objs: 1, Tool: []string{"i", "i", "s", "is"}[r.Intn(4)]}
	if r.Chance(35) {
		f.Objs = 2
	}
	nested := k%2 == 1
	var n, calls int
	switch {
	case k < 2 && nested:
		n, calls = r.Range(70, 110), 2
	case k < 2:
		n, calls = r.Range(90, 160), r.Range(2, 3)
	default:
		n, calls = r.Range(40, 120), r.Range(1, 3)
	}
	if thorough && r.Chance(30) {
		n = r.Range(150, 300)
	}
	if nested {
		f.Inner = r.Range(2, 3)
		if calls < 2 {
			calls = 2
		}
	}
	c.FL = f
	poff := r.Intn(4)
	for i := 0; i < n; i++ {
		p := []string{"invoke", "stream"}[(i+poff)%2]
		if r.Chance(15) {
			p = []string{"collect", "transform"}[r.Intn(2)]
		}
		call := c09Call{In: fmt.Sprintf("r%d", i), Paradigm: p, Obj: i % f.Objs}
		nc := calls
		if k >= 2 && r.Chance(30) {
			nc = r.Range(1, 3) // messages of different sizes in one wave (a single call never leaves the caller's goroutine)
			if nested && nc < 2 {
				nc = 2
			}
		}
		for j := 0; j < nc; j++ {
			call.TCalls = append(call.TCalls, c09TCall{Name: "work", Arg: fmt.Sprintf("r%d-%d", i, j)})
		}
		c.Calls = append(c.Calls, call)
	}
	// the model's interleaving: call indices are laid out run after run, every outer call followed
	// by its inner calls.  Some random events first, then enough of every kind to bring all back.
	var outer, inner, all []int
	id := 0
	for _, call := range c.Calls {
		for range call.TCalls {
			outer = append(outer, id)
			all = append(all, id)
			id++
			for l := 0; l < f.Inner; l++ {
				inner = append(inner, id)
				all = append(all, id)
				id++
			}
		}
	}
	c.Sched = append(c.Sched, c09Shuffle(r, all)...)
	c.Sched = append(c.Sched, c09Shuffle(r, outer)...)
	c.Sched = append(c.Sched, c09Shuffle(r, inner)...)
	c.Sched = append(c.Sched, c09Shuffle(r, inner)...)
	c.Sched = append(c.Sched, c09Shuffle(r, outer)...)
	return c
}

// ---- the model's view ----

func c09FlightOracleCase(c *c09Case) any {
	type orun struct {
		Tok   string `json:"tok"`
		Calls int    `json:"calls"`
		Inner int    `json:"inner"`
	}
	runs := []orun{}
	for _, k := range c.Calls {
		runs = append(runs, orun{Tok: k.In, Calls: len(k.TCalls), Inner: c.FL.Inner})
	}
	sched := c.Sched
	if sched == nil {
		sched = []int{}
	}
	return map[string]any{"family": "inflight", "runs": runs, "sched": sched}
}

// ---- the barrier of the tool bodies ----

type c09FBarrier struct {
	mu      sync.Mutex
	parties int
	arrived int
	open    chan struct{}
	broken  chan struct{}
	isOpen  bool
	isBrok  bool
}

func c09NewFBarrier(parties int) *c09FBarrier {
	return &c09FBarrier{parties: parties, open: make(chan struct{}), broken: make(chan struct{})}
}

const c09FlightMark = "NOT-IN-FLIGHT-TOGETHER"

func (b *c09FBarrier) await() error {
	b.mu.Lock()
	b.arrived++
	if b.arrived >= b.parties && !b.isOpen {
		b.isOpen = true
		close(b.open)
	}
	b.mu.Unlock()
	fail := func() error {
		b.mu.Lock()
		defer b.mu.Unlock()
		return fmt.Errorf("%s: only %d of the %d tool calls of the concurrent runs were in flight at once", c09FlightMark, b.arrived, b.parties)
	}
	select {
	case <-b.open:
		return nil
	case <-b.broken:
		return fail()
	case <-time.After(12 * time.Second):
		b.mu.Lock()
		if !b.isBrok && !b.isOpen {
			b.isBrok = true
			close(b.broken)
		}
		opened := b.isOpen
		b.mu.Unlock()
		if opened {
			return nil
		}
		return fail()
	}
}

type c09FBarKey struct{}

// ---- tools ----

type c09FTool struct {
	name string
	run  func(ctx context.Context, args string) (string, error)
}

func (t *c09FTool) Info(context.Context) (*schema.ToolInfo, error) {
	return &schema.ToolInfo{Name: t.name, Desc: "tool " + t.name}, nil
}

type c09FToolI struct{ c09FTool }

func (t *c09FToolI) InvokableRun(ctx context.Context, args string, _ ...tool.Option) (string, error) {
	return t.run(ctx, args)
}

type c09FToolS struct{ c09FTool }

func (t *c09FToolS) StreamableRun(ctx context.Context, args string, _ ...tool.Option) (*schema.StreamReader[string], error) {
	out, err := t.run(ctx, args)
	if err != nil {
		return nil, err
	}
	return schema.StreamReaderFromArray(c09Split(out)), nil
}

type c09FToolIS struct{ c09FTool }

func (t *c09FToolIS) InvokableRun(ctx context.Context, args string, _ ...tool.Option) (string, error) {
	return t.run(ctx, args)
}

func (t *c09FToolIS) StreamableRun(ctx context.Context, args string, _ ...tool.Option) (*schema.StreamReader[string], error) {
	out, err := t.run(ctx, args)
	if err != nil {
		return nil, err
	}
	return schema.StreamReaderFromArray(c09Split(out)), nil
}

func c09FMkTool(kind string, b c09FTool) tool.BaseTool {
	switch kind {
	case "s":
		return &c09FToolS{b}
	case "is":
		return &c09FToolIS{b}
	}
	return &c09FToolI{b}
}

// ---- the compiled objects ----

func c09FlightObject(mode string, tn *compose.ToolsNode) (compose.Runnable[*schema.Message, string], error) {
	ctx := context.Background()
	switch mode {
	case "chain":
		return compose.NewChain[*schema.Message, string]().
			AppendToolsNode(tn, compose.WithNodeKey("tools")).
			AppendLambda(c09RenderMsgs(), compose.WithNodeKey("render")).Compile(ctx)
	case "workflow":
		wf := compose.NewWorkflow[*schema.Message, string]()
		wf.AddToolsNode("tools", tn).AddInput(compose.START)
		wf.AddLambdaNode("render", c09RenderMsgs()).AddInput("tools")
		wf.End().AddInput("render")
		return wf.Compile(ctx)
	}
	g := compose.NewGraph[*schema.Message, string]()
	if err := g.AddToolsNode("tools", tn); err != nil {
		return nil, err
	}
	if err := g.AddLambdaNode("render", c09RenderMsgs()); err != nil {
		return nil, err
	}
	for _, e := range [][2]string{{compose.START, "tools"}, {"tools", "render"}, {"render", compose.END}} {
		if err := g.AddEdge(e[0], e[1]); err != nil {
			return nil, err
		}
	}
	var copts []compose.GraphCompileOption
	if mode == "dag" {
		copts = append(copts, compose.WithNodeTriggerMode(compose.AllPredecessor))
	}
	return g.Compile(ctx, copts...)
}

func c09BuildFlight(c *c09Case) ([]compose.Runnable[*schema.Message, string], error) {
	f := c.FL
	if f == nil {
		return nil, errors.New("inflight: no description")
	}
	ctx := context.Background()
	// the inner runnable of the delegating tool: chain{ToolsNode(leaf)}
	var inner compose.Runnable[*schema.Message, []*schema.Message]
	if f.Inner > 0 {
		ltn, err := compose.NewToolNode(ctx, &compose.ToolsNodeConfig{Tools: []tool.BaseTool{&c09FToolI{c09FTool{name: "leaf",
			run: func(_ context.Context, args string) (string, error) { return "leaf:" + args, nil }}}}})
		if err != nil {
			return nil, err
		}
		inner, err = compose.NewChain[*schema.Message, []*schema.Message]().AppendToolsNode(ltn).Compile(ctx)
		if err != nil {
			return nil, err
		}
	}
	body := func(ctx context.Context, args string) (string, error) {
		if b, _ := ctx.Value(c09FBarKey{}).(*c09FBarrier); b != nil {
			if err := b.await(); err != nil {
				return "", err
			}
		}
		if f.Inner == 0 {
			return "met:" + args, nil
		}
		var tcs []schema.ToolCall
		for l := 0; l < f.Inner; l++ {
			id := fmt.Sprintf("%s-%d", args, l)
			tcs = append(tcs, schema.ToolCall{ID: id, Type: "function", Function: schema.FunctionCall{Name: "leaf", Arguments: id}})
		}
		out, err := inner.Invoke(ctx, schema.AssistantMessage("", tcs))
		if err != nil {
			return "", err
		}
		parts := make([]string, len(out))
		for i, m := range out {
			parts[i] = m.Content
		}
		return strings.Join(parts, "+"), nil
	}
	var rs []compose.Runnable[*schema.Message, string]
	objs := f.Objs
	if objs < 1 {
		objs = 1
	}
	modes := []string{"chain", "pregel", "workflow", "dag"}
	for o := 0; o < objs; o++ {
		tn, err := compose.NewToolNode(ctx, &compose.ToolsNodeConfig{Tools: []tool.BaseTool{c09FMkTool(f.Tool, c09FTool{name: "work", run: body})}})
		if err != nil {
			return nil, err
		}
		mode := f.Mode
		if o > 0 { // the second object is of another kind
			for i, m := range modes {
				if m == f.Mode {
					mode = modes[(i+o)%4]
				}
			}
		}
		r, err := c09FlightObject(mode, tn)
		if err != nil {
			return nil, err
		}
		rs = append(rs, r)
	}
	return rs, nil
}

func c09FlightRunner(c *c09Case, rs []compose.Runnable[*schema.Message, string]) c09Runner {
	total := 0
	for _, k := range c.Calls {
		total += len(k.TCalls)
	}
	var mu sync.Mutex
	waves := map[int]*c09FBarrier{}
	return func(ci, rep int, phase string) c09Obs {
		call := c.Calls[ci]
		var bar *c09FBarrier
		if phase == "conc" {
			mu.Lock()
			bar = waves[rep]
			if bar == nil {
				bar = c09NewFBarrier(total) // every tool call of every run of the wave
				waves[rep] = bar
			}
			mu.Unlock()
		} else {
			bar = c09NewFBarrier(len(call.TCalls)) // alone: a run is not held up by anybody
		}
		ctx := context.WithValue(context.Background(), c09FBarKey{}, bar)
		var tcs []schema.ToolCall
		for _, tc := range call.TCalls {
			tcs = append(tcs, schema.ToolCall{ID: tc.Arg, Type: "function", Function: schema.FunctionCall{Name: tc.Name, Arguments: tc.Arg}})
		}
		msg := schema.AssistantMessage("", tcs)
		r := rs[call.Obj%len(rs)]
		done := make(chan c09Obs, 1)
		go func() {
			var obs c09Obs
			defer func() {
				if p := recover(); p != nil {
					obs = c09Obs{Err: "panic", Msg: fmt.Sprint(p)}
				}
				done <- obs
			}()
			var out string
			var err error
			switch call.Paradigm {
			case "stream":
				var sr *schema.StreamReader[string]
				if sr, err = r.Stream(ctx, msg); err == nil {
					out, err = c09ReadAll(sr)
				}
			case "collect":
				out, err = r.Collect(ctx, schema.StreamReaderFromArray([]*schema.Message{msg}))
			case "transform":
				var sr *schema.StreamReader[string]
				if sr, err = r.Transform(ctx, schema.StreamReaderFromArray([]*schema.Message{msg})); err == nil {
					out, err = c09ReadAll(sr)
				}
			default:
				out, err = r.Invoke(ctx, msg)
			}
			switch {
			case err != nil && strings.Contains(err.Error(), c09FlightMark):
				obs = c09Obs{Err: "not-in-flight-together", Msg: err.Error()}
			case err != nil:
				obs = c09Obs{Err: c09ErrClass(err), Msg: err.Error()}
			default:
				obs = c09Obs{Out: out}
			}
		}()
		select {
		case o := <-done:
			return o
		case <-time.After(25 * time.Second):
			return c09Obs{Err: "never-returned", Msg: "the run had not returned after 25 s (alone it returns at once)"}
		}
	}
}

// ---- accounting (called by c09EvaluateX) ----

func c09FlightAccount(ctx *vh.Ctx, c *c09Case) string {
	f := c.FL
	ctx.Res.Dist("inflight:mode:" + f.Mode)
	ctx.Res.Dist(fmt.Sprintf("inflight:objects:%d", f.Objs))
	ctx.Res.Dist("inflight:tool:" + f.Tool)
	total, extra := 0, 0
	sizes := map[int]bool{}
	for _, k := range c.Calls {
		total += len(k.TCalls)
		extra += len(k.TCalls) - 1
		sizes[len(k.TCalls)] = true
	}
	if f.Inner > 0 {
		ctx.Res.Dist(fmt.Sprintf("inflight:nested:leaves:%d", f.Inner))
	} else {
		ctx.Res.Dist("inflight:plain")
	}
	bucket := func(n int) string {
		switch {
		case n < 64:
			return "<64"
		case n < 128:
			return "64-127"
		case n < 256:
			return "128-255"
		}
		return ">=256"
	}
	ctx.Res.Dist("inflight:runs:" + bucket(len(c.Calls)))
	ctx.Res.Dist("inflight:tool-calls-in-flight:" + bucket(total))
	ctx.Res.Dist("inflight:extra-goroutine-calls:" + bucket(extra))
	return fmt.Sprintf("%s/o%d/inner%d/%s/runs%s/calls%s/sizes%d", f.Mode, f.Objs, f.Inner, f.Tool, bucket(len(c.Calls)), bucket(total), len(sizes))
}
