//go:build verif && (vh_all || vh_c09)

package props

// C09 — family "inflight": MANY runs held in flight at once
// ("may be invoked from any number of goroutines at once"; "runs do not share channels").
//
// 1-2 compiled objects (chain / pregel / dag / workflow around a ToolsNode, followed by a rendering
// lambda) in one process, 40-300 concurrent callers, every input message with 1-3 tool calls.
// Every (outer) tool call waits at ONE barrier that opens only when every tool call of every run of
// the wave is in flight – the runs must be able to make progress side by side, however many they
// are.  Nested variant (agent-as-tool): the tool delegates, after the barrier, to an inner compiled
// runnable whose tools node runs 2-3 leaf calls; no run depends on another one.
// Reference: the same call alone (barrier of its own tool calls only), and the model
// (EinoV.C09.Flight: every run returns `runOut`, all of them complete).
// A tool call that waits 12 s at the barrier breaks it for everybody (the calls return an error:
// "not in flight together"); a run that has not returned after 25 s is reported as never returned.
// Both are liveness couplings between runs: disagreements with the model, which says that all runs
// are in flight together and return what they return alone.

import (
	"context"
	"errors"
	"fmt"
	"strings"
	"sync"
	"time"

	"github.com/cloudwego/eino/callbacks"
	"github.com/cloudwego/eino/components/tool"
	"github.com/cloudwego/eino/compose"
	"github.com/cloudwego/eino/schema"
	"github.com/cloudwego/eino/verifharness/vh"
)

// ---- case language ----

type c09Flight struct {
	Mode  string `json:"mode"`            // chain|pregel|dag|workflow
	Objs  int    `json:"objs"`            // compiled objects the runs are spread over (call.Obj)
	Inner int    `json:"inner,omitempty"` // 0: plain tools; m>0: every tool call delegates to an inner tools node with m leaf calls
	Tool  string `json:"tool,omitempty"`  // i|s|is : the outer tool is invokable / streamable / both
	// variant hold-at: a stateful graph START -> a -> b -> fin; call 0 of a wave is PARKED inside user
	// code of its own run (generator = the WithGenLocalState generator, pre-handler = the state
	// pre-handler of b, node = the body of a, callback = its own OnStart handler at a) until every
	// other run of the wave, started after it has parked, has returned
	Hold string `json:"hold,omitempty"`
}

// ---- generator ----

// k = how many cases of the family were generated before; the first two of every run are the
// big ones (barrier variant, nested variant), later ones are smaller
func c09GenFlight(r *vh.Rand, k int, thorough bool) c09Case {
	c := c09Case{Kind: "inflight", Seed: r.U64() % 1000000, Reps: 1}
	if k >= 2 && k <= 5 { // the four hold-at variants open every run
		return c09GenHold(r, k-2, c)
	}
	if k > 5 && k%2 == 0 {
		return c09GenHold(r, k/2, c)
	}
	f := &c09Flight{Mode: []string{"chain", "pregel", "workflow", "dag"}[(k+r.Intn(2))%4], Objs: 1, Tool: []string{"i", "i", "s", "is"}[r.Intn(4)]}
	if r.Chance(35) {
		f.Objs = 2
	}
	nested := k%2 == 1 && (k < 6 || k%4 == 1)
	var n, calls int
	switch {
	case k < 2 && nested:
		n, calls = r.Range(70, 110), 2
	case k < 2:
		n, calls = r.Range(90, 160), r.Range(2, 3)
	default:
		n, calls = r.Range(40, 120), r.Range(1, 3)
	}
	if thorough && r.Chance(30) {
		n = r.Range(150, 300)
	}
	if nested {
		f.Inner = r.Range(2, 3)
		if calls < 2 {
			calls = 2
		}
	}
	c.FL = f
	poff := r.Intn(4)
	for i := 0; i < n; i++ {
		p := []string{"invoke", "stream"}[(i+poff)%2]
		if r.Chance(15) {
			p = []string{"collect", "transform"}[r.Intn(2)]
		}
		call := c09Call{In: fmt.Sprintf("r%d", i), Paradigm: p, Obj: i % f.Objs}
		nc := calls
		if k >= 2 && r.Chance(30) {
			nc = r.Range(1, 3) // messages of different sizes in one wave (a single call never leaves the caller's goroutine)
			if nested && nc < 2 {
				nc = 2
			}
		}
		for j := 0; j < nc; j++ {
			call.TCalls = append(call.TCalls, c09TCall{Name: "work", Arg: fmt.Sprintf("r%d-%d", i, j)})
		}
		c.Calls = append(c.Calls, call)
	}
	// the model's interleaving: call indices are laid out run after run, every outer call followed
	// by its inner calls.  Some random events first, then enough of every kind to bring all back.
	var outer, inner, all []int
	id := 0
	for _, call := range c.Calls {
		for range call.TCalls {
			outer = append(outer, id)
			all = append(all, id)
			id++
			for l := 0; l < f.Inner; l++ {
				inner = append(inner, id)
				all = append(all, id)
				id++
			}
		}
	}
	c.Sched = append(c.Sched, c09Shuffle(r, all)...)
	c.Sched = append(c.Sched, c09Shuffle(r, outer)...)
	c.Sched = append(c.Sched, c09Shuffle(r, inner)...)
	c.Sched = append(c.Sched, c09Shuffle(r, inner)...)
	c.Sched = append(c.Sched, c09Shuffle(r, outer)...)
	return c
}

func c09GenHold(r *vh.Rand, k int, c c09Case) c09Case {
	c.FL = &c09Flight{Mode: []string{"pregel", "chain", "workflow", "dag"}[r.Intn(4)], Objs: 1,
		Hold: []string{"generator", "pre-handler", "node", "callback"}[k%4]}
	c.Reps = r.Range(1, 2)
	n := r.Range(3, 8)
	poff := r.Intn(4)
	for i := 0; i < n; i++ {
		c.Calls = append(c.Calls, c09Call{In: fmt.Sprintf("r%d", i), Paradigm: c09Paradigms[(i+poff)%4], Chunks: r.Range(1, 2)})
	}
	// model: run 0 enters its section, the others run (twice each, shuffled), run 0 leaves
	var others []int
	for i := 1; i < n; i++ {
		others = append(others, i, i)
	}
	c.Sched = append([]int{0}, c09Shuffle(r, others)...)
	c.Sched = append(c.Sched, 0, 0)
	return c
}

// ---- the model's view ----

func c09FlightOracleCase(c *c09Case) any {
	if c.FL.Hold != "" {
		toks := []string{}
		for _, k := range c.Calls {
			toks = append(toks, k.In)
		}
		sched := c.Sched
		if sched == nil {
			sched = []int{}
		}
		return map[string]any{"family": "inflight", "hold": c.FL.Hold, "toks": toks, "sched": sched}
	}
	type orun struct {
		Tok   string `json:"tok"`
		Calls int    `json:"calls"`
		Inner int    `json:"inner"`
	}
	runs := []orun{}
	for _, k := range c.Calls {
		runs = append(runs, orun{Tok: k.In, Calls: len(k.TCalls), Inner: c.FL.Inner})
	}
	sched := c.Sched
	if sched == nil {
		sched = []int{}
	}
	return map[string]any{"family": "inflight", "runs": runs, "sched": sched}
}

// ---- the barrier of the tool bodies ----

type c09FBarrier struct {
	mu      sync.Mutex
	parties int
	arrived int
	open    chan struct{}
	broken  chan struct{}
	isOpen  bool
	isBrok  bool
}

func c09NewFBarrier(parties int) *c09FBarrier {
	return &c09FBarrier{parties: parties, open: make(chan struct{}), broken: make(chan struct{})}
}

const c09FlightMark = "NOT-IN-FLIGHT-TOGETHER"

func (b *c09FBarrier) await() error {
	b.mu.Lock()
	b.arrived++
	if b.arrived >= b.parties && !b.isOpen {
		b.isOpen = true
		close(b.open)
	}
	b.mu.Unlock()
	fail := func() error {
		b.mu.Lock()
		defer b.mu.Unlock()
		return fmt.Errorf("%s: only %d of the %d tool calls of the concurrent runs were in flight at once", c09FlightMark, b.arrived, b.parties)
	}
	select {
	case <-b.open:
		return nil
	case <-b.broken:
		return fail()
	case <-time.After(12 * time.Second):
		b.mu.Lock()
		if !b.isBrok && !b.isOpen {
			b.isBrok = true
			close(b.broken)
		}
		opened := b.isOpen
		b.mu.Unlock()
		if opened {
			return nil
		}
		return fail()
	}
}

type c09FBarKey struct{}

// ---- tools ----

type c09FTool struct {
	name string
	run  func(ctx context.Context, args string) (string, error)
}

func (t *c09FTool) Info(context.Context) (*schema.ToolInfo, error) {
	return &schema.ToolInfo{Name: t.name, Desc: "tool " + t.name}, nil
}

type c09FToolI struct{ c09FTool }

func (t *c09FToolI) InvokableRun(ctx context.Context, args string, _ ...tool.Option) (string, error) {
	return t.run(ctx, args)
}

type c09FToolS struct{ c09FTool }

func (t *c09FToolS) StreamableRun(ctx context.Context, args string, _ ...tool.Option) (*schema.StreamReader[string], error) {
	out, err := t.run(ctx, args)
	if err != nil {
		return nil, err
	}
	return schema.StreamReaderFromArray(c09Split(out)), nil
}

type c09FToolIS struct{ c09FTool }

func (t *c09FToolIS) InvokableRun(ctx context.Context, args string, _ ...tool.Option) (string, error) {
	return t.run(ctx, args)
}

func (t *c09FToolIS) StreamableRun(ctx context.Context, args string, _ ...tool.Option) (*schema.StreamReader[string], error) {
	out, err := t.run(ctx, args)
	if err != nil {
		return nil, err
	}
	return schema.StreamReaderFromArray(c09Split(out)), nil
}

func c09FMkTool(kind string, b c09FTool) tool.BaseTool {
	switch kind {
	case "s":
		return &c09FToolS{b}
	case "is":
		return &c09FToolIS{b}
	}
	return &c09FToolI{b}
}

// ---- the compiled objects ----

func c09FlightObject(mode string, tn *compose.ToolsNode) (compose.Runnable[*schema.Message, string], error) {
	ctx := context.Background()
	switch mode {
	case "chain":
		return compose.NewChain[*schema.Message, string]().
			AppendToolsNode(tn, compose.WithNodeKey("tools")).
			AppendLambda(c09RenderMsgs(), compose.WithNodeKey("render")).Compile(ctx)
	case "workflow":
		wf := compose.NewWorkflow[*schema.Message, string]()
		wf.AddToolsNode("tools", tn).AddInput(compose.START)
		wf.AddLambdaNode("render", c09RenderMsgs()).AddInput("tools")
		wf.End().AddInput("render")
		return wf.Compile(ctx)
	}
	g := compose.NewGraph[*schema.Message, string]()
	if err := g.AddToolsNode("tools", tn); err != nil {
		return nil, err
	}
	if err := g.AddLambdaNode("render", c09RenderMsgs()); err != nil {
		return nil, err
	}
	for _, e := range [][2]string{{compose.START, "tools"}, {"tools", "render"}, {"render", compose.END}} {
		if err := g.AddEdge(e[0], e[1]); err != nil {
			return nil, err
		}
	}
	var copts []compose.GraphCompileOption
	if mode == "dag" {
		copts = append(copts, compose.WithNodeTriggerMode(compose.AllPredecessor))
	}
	return g.Compile(ctx, copts...)
}

func c09BuildFlight(c *c09Case) ([]compose.Runnable[*schema.Message, string], error) {
	f := c.FL
	if f == nil {
		return nil, errors.New("inflight: no description")
	}
	ctx := context.Background()
	// the inner runnable of the delegating tool: chain{ToolsNode(leaf)}
	var inner compose.Runnable[*schema.Message, []*schema.Message]
	if f.Inner > 0 {
		ltn, err := compose.NewToolNode(ctx, &compose.ToolsNodeConfig{Tools: []tool.BaseTool{&c09FToolI{c09FTool{name: "leaf",
			run: func(_ context.Context, args string) (string, error) { return "leaf:" + args, nil }}}}})
		if err != nil {
			return nil, err
		}
		inner, err = compose.NewChain[*schema.Message, []*schema.Message]().AppendToolsNode(ltn).Compile(ctx)
		if err != nil {
			return nil, err
		}
	}
	body := func(ctx context.Context, args string) (string, error) {
		if b, _ := ctx.Value(c09FBarKey{}).(*c09FBarrier); b != nil {
			if err := b.await(); err != nil {
				return "", err
			}
		}
		if f.Inner == 0 {
			return "met:" + args, nil
		}
		var tcs []schema.ToolCall
		for l := 0; l < f.Inner; l++ {
			id := fmt.Sprintf("%s-%d", args, l)
			tcs = append(tcs, schema.ToolCall{ID: id, Type: "function", Function: schema.FunctionCall{Name: "leaf", Arguments: id}})
		}
		out, err := inner.Invoke(ctx, schema.AssistantMessage("", tcs))
		if err != nil {
			return "", err
		}
		parts := make([]string, len(out))
		for i, m := range out {
			parts[i] = m.Content
		}
		return strings.Join(parts, "+"), nil
	}
	var rs []compose.Runnable[*schema.Message, string]
	objs := f.Objs
	if objs < 1 {
		objs = 1
	}
	modes := []string{"chain", "pregel", "workflow", "dag"}
	for o := 0; o < objs; o++ {
		tn, err := compose.NewToolNode(ctx, &compose.ToolsNodeConfig{Tools: []tool.BaseTool{c09FMkTool(f.Tool, c09FTool{name: "work", run: body})}})
		if err != nil {
			return nil, err
		}
		mode := f.Mode
		if o > 0 { // the second object is of another kind
			for i, m := range modes {
				if m == f.Mode {
					mode = modes[(i+o)%4]
				}
			}
		}
		r, err := c09FlightObject(mode, tn)
		if err != nil {
			return nil, err
		}
		rs = append(rs, r)
	}
	return rs, nil
}

func c09FlightRunner(c *c09Case, rs []compose.Runnable[*schema.Message, string]) c09Runner {
	total := 0
	for _, k := range c.Calls {
		total += len(k.TCalls)
	}
	var mu sync.Mutex
	waves := map[int]*c09FBarrier{}
	return func(ci, rep int, phase string) c09Obs {
		call := c.Calls[ci]
		var bar *c09FBarrier
		if phase == "conc" {
			mu.Lock()
			bar = waves[rep]
			if bar == nil {
				bar = c09NewFBarrier(total) // every tool call of every run of the wave
				waves[rep] = bar
			}
			mu.Unlock()
		} else {
			bar = c09NewFBarrier(len(call.TCalls)) // alone: a run is not held up by anybody
		}
		ctx := context.WithValue(context.Background(), c09FBarKey{}, bar)
		var tcs []schema.ToolCall
		for _, tc := range call.TCalls {
			tcs = append(tcs, schema.ToolCall{ID: tc.Arg, Type: "function", Function: schema.FunctionCall{Name: tc.Name, Arguments: tc.Arg}})
		}
		msg := schema.AssistantMessage("", tcs)
		r := rs[call.Obj%len(rs)]
		done := make(chan c09Obs, 1)
		go func() {
			var obs c09Obs
			defer func() {
				if p := recover(); p != nil {
					obs = c09Obs{Err: "panic", Msg: fmt.Sprint(p)}
				}
				done <- obs
			}()
			var out string
			var err error
			switch call.Paradigm {
			case "stream":
				var sr *schema.StreamReader[string]
				if sr, err = r.Stream(ctx, msg); err == nil {
					out, err = c09ReadAll(sr)
				}
			case "collect":
				out, err = r.Collect(ctx, schema.StreamReaderFromArray([]*schema.Message{msg}))
			case "transform":
				var sr *schema.StreamReader[string]
				if sr, err = r.Transform(ctx, schema.StreamReaderFromArray([]*schema.Message{msg})); err == nil {
					out, err = c09ReadAll(sr)
				}
			default:
				out, err = r.Invoke(ctx, msg)
			}
			switch {
			case err != nil && strings.Contains(err.Error(), c09FlightMark):
				obs = c09Obs{Err: "not-in-flight-together", Msg: err.Error()}
			case err != nil:
				obs = c09Obs{Err: c09ErrClass(err), Msg: err.Error()}
			default:
				obs = c09Obs{Out: out}
			}
		}()
		select {
		case o := <-done:
			return o
		case <-time.After(25 * time.Second):
			return c09Obs{Err: "never-returned", Msg: "the run had not returned after 25 s (alone it returns at once)"}
		}
	}
}

// ---- accounting (called by c09EvaluateX) ----

func c09FlightAccount(ctx *vh.Ctx, c *c09Case) string {
	f := c.FL
	if f.Hold != "" {
		ctx.Res.Dist("inflight:hold-at=" + f.Hold)
		ctx.Res.Dist("inflight:hold:mode:" + f.Mode)
		return fmt.Sprintf("hold-at=%s/%s/runs%d", f.Hold, f.Mode, len(c.Calls))
	}
	ctx.Res.Dist("inflight:mode:" + f.Mode)
	ctx.Res.Dist(fmt.Sprintf("inflight:objects:%d", f.Objs))
	ctx.Res.Dist("inflight:tool:" + f.Tool)
	total, extra := 0, 0
	sizes := map[int]bool{}
	for _, k := range c.Calls {
		total += len(k.TCalls)
		extra += len(k.TCalls) - 1
		sizes[len(k.TCalls)] = true
	}
	if f.Inner > 0 {
		ctx.Res.Dist(fmt.Sprintf("inflight:nested:leaves:%d", f.Inner))
	} else {
		ctx.Res.Dist("inflight:plain")
	}
	bucket := func(n int) string {
		switch {
		case n < 64:
			return "<64"
		case n < 128:
			return "64-127"
		case n < 256:
			return "128-255"
		}
		return ">=256"
	}
	ctx.Res.Dist("inflight:runs:" + bucket(len(c.Calls)))
	ctx.Res.Dist("inflight:tool-calls-in-flight:" + bucket(total))
	ctx.Res.Dist("inflight:extra-goroutine-calls:" + bucket(extra))
	return fmt.Sprintf("%s/o%d/inner%d/%s/runs%s/calls%s/sizes%d", f.Mode, f.Objs, f.Inner, f.Tool, bucket(len(c.Calls)), bucket(total), len(sizes))
}

// ---- variant hold-at ----

type c09HoldWave struct {
	mu       sync.Mutex
	others   int
	entered  chan struct{}
	back     chan struct{}
	once     sync.Once
	timedOut bool
}

type c09HoldRun struct {
	w      *c09HoldWave
	parked bool
}

type c09HoldKey struct{}

// park: called at every hold point of every run; only the parked run of a concurrent wave waits
func c09Park(ctx context.Context, where, at string) {
	hr, _ := ctx.Value(c09HoldKey{}).(*c09HoldRun)
	if hr == nil || !hr.parked || where != at {
		return
	}
	first := false
	hr.w.once.Do(func() { first = true; close(hr.w.entered) })
	if !first {
		return
	}
	select {
	case <-hr.w.back:
	case <-time.After(12 * time.Second):
		hr.w.mu.Lock()
		hr.w.timedOut = true
		hr.w.mu.Unlock()
	}
}

func c09BuildHold(c *c09Case) (compose.Runnable[string, string], error) {
	ctx := context.Background()
	at := c.FL.Hold
	gen := compose.WithGenLocalState(func(ctx context.Context) *c09State {
		c09Park(ctx, "generator", at)
		return &c09State{}
	})
	a := compose.InvokableLambda(func(ctx context.Context, in string) (string, error) {
		c09Park(ctx, "node", at)
		return in + "|a", nil
	})
	b := compose.InvokableLambda(func(ctx context.Context, in string) (string, error) { return in + "|b", nil })
	pre := compose.WithStatePreHandler(func(ctx context.Context, in string, s *c09State) (string, error) {
		c09Park(ctx, "pre-handler", at)
		s.N++
		return in, nil
	})
	switch c.FL.Mode {
	case "chain":
		return compose.NewChain[string, string](gen).
			AppendLambda(a, compose.WithNodeKey("a"), compose.WithNodeName("a")).
			AppendLambda(b, compose.WithNodeKey("b"), compose.WithNodeName("b"), pre).
			AppendLambda(c09Fin(), compose.WithNodeKey("fin")).Compile(ctx)
	case "workflow":
		wf := compose.NewWorkflow[string, string](gen)
		wf.AddLambdaNode("a", a, compose.WithNodeName("a")).AddInput(compose.START)
		wf.AddLambdaNode("b", b, compose.WithNodeName("b"), pre).AddInput("a")
		wf.AddLambdaNode("fin", c09Fin()).AddInput("b")
		wf.End().AddInput("fin")
		return wf.Compile(ctx)
	}
	g := compose.NewGraph[string, string](gen)
	if err := g.AddLambdaNode("a", a, compose.WithNodeName("a")); err != nil {
		return nil, err
	}
	if err := g.AddLambdaNode("b", b, compose.WithNodeName("b"), pre); err != nil {
		return nil, err
	}
	if err := g.AddLambdaNode("fin", c09Fin()); err != nil {
		return nil, err
	}
	for _, e := range [][2]string{{compose.START, "a"}, {"a", "b"}, {"b", "fin"}, {"fin", compose.END}} {
		if err := g.AddEdge(e[0], e[1]); err != nil {
			return nil, err
		}
	}
	var copts []compose.GraphCompileOption
	if c.FL.Mode == "dag" {
		copts = append(copts, compose.WithNodeTriggerMode(compose.AllPredecessor))
	}
	return g.Compile(ctx, copts...)
}

func c09HoldRunner(c *c09Case, r compose.Runnable[string, string]) c09Runner {
	var mu sync.Mutex
	waves := map[int]*c09HoldWave{}
	at := c.FL.Hold
	return func(ci, rep int, phase string) (obs c09Obs) {
		call := c.Calls[ci]
		ctx := context.Background()
		var w *c09HoldWave
		parked := false
		if phase == "conc" {
			mu.Lock()
			w = waves[rep]
			if w == nil {
				w = &c09HoldWave{others: len(c.Calls) - 1, entered: make(chan struct{}), back: make(chan struct{})}
				if w.others == 0 {
					close(w.back)
				}
				waves[rep] = w
			}
			mu.Unlock()
			parked = ci == 0
			ctx = context.WithValue(ctx, c09HoldKey{}, &c09HoldRun{w: w, parked: parked})
			if !parked { // the other runs start once run 0 is inside its section
				select {
				case <-w.entered:
				case <-time.After(12 * time.Second):
				}
			}
		}
		defer func() {
			if p := recover(); p != nil {
				obs = c09Obs{Err: "panic", Msg: fmt.Sprint(p)}
			}
			if w == nil {
				return
			}
			if !parked {
				w.mu.Lock()
				w.others--
				if w.others == 0 {
					close(w.back)
				}
				w.mu.Unlock()
				return
			}
			w.mu.Lock()
			to := w.timedOut
			w.mu.Unlock()
			if to && obs.Err == "" {
				obs = c09Obs{Err: "others-held-up", Msg: "the other runs of the compiled object had not returned 12 s after run 0 parked inside its own " + at + " (out: " + obs.Out + ")"}
			}
		}()
		opts := []compose.Option{compose.WithCallbacks(callbacks.NewHandlerBuilder().
			OnStartFn(func(ctx context.Context, info *callbacks.RunInfo, in callbacks.CallbackInput) context.Context {
				if info != nil && info.Name == "a" {
					c09Park(ctx, "callback", at)
				}
				return ctx
			}).Build())}
		out, err := c09RunParadigm(ctx, r, call, opts)
		if err != nil {
			return c09Obs{Err: c09ErrClass(err), Msg: err.Error()}
		}
		return c09Obs{Out: out}
	}
}
