//go:build verif && (vh_all || vh_c12)

package props

// C12, family "embedded": struct types that EMBED other structs (by value, by pointer, two
// levels deep) whose field names clash with fields of the outer struct (shadowing, outer field
// declared before or after the embedded one) or with each other at the same depth (ambiguous
// selectors).  For the serialiser an embedded struct is ONE field, named after its type, holding
// a struct value (fact structEncoderOwnFieldsOnly; the decoder's FieldByName resolves a name the
// struct declares itself to that own field, depth 0 wins): the values of Task.ID and
// Task.C12Audit.ID live in two tables and both come back.  The embedded type names are exported
// (an embedded field is exported iff its type name is): an unexported one is skipped like any
// unexported field.  The file name sorts after c12_more.go so that the menu indices of the older
// files stay what they were.

type C12Audit struct {
	ID      string
	Version int
	By      *string
}

// outer field declared after the embedded struct / before it
type C12Task struct {
	C12Audit
	ID string
	N  int
}
type C12Task2 struct {
	ID      string
	Version *int // shadows C12Audit.Version with another type
	C12Audit
}

// two embedded structs that both declare ID and Tag (ambiguous at depth 1), no outer field of that name
type C12EmbA struct {
	ID  string
	Tag any
}
type C12EmbB struct {
	ID  int
	Tag []string
}
type C12Two struct {
	C12EmbA
	C12EmbB
	X float64
}

// embedded by pointer (nil or not), shadowed
type C12PTask struct {
	*C12Audit
	ID   c12MyStr
	Next *C12PTask
}

// two levels: C12Deep.Version shadows C12Deep.C12Task.C12Audit.Version, C12Deep.ID shadows both IDs
type C12Deep struct {
	C12Task
	Version int
	ID      []string
	Two     C12Two
	M       map[string]C12Task
}

func init() {
	c12Register[C12Audit]("c12_audit")
	c12Register[C12Task]("c12_task")
	c12Register[C12Task2]("c12_task2")
	c12Register[C12EmbA]("c12_emb_a")
	c12Register[C12EmbB]("c12_emb_b")
	c12Register[C12Two]("c12_two")
	c12Register[C12PTask]("c12_ptask")
	c12Register[C12Deep]("c12_deep")
	c12Menu = append(c12Menu,
		c12T[C12Task](), c12T[*C12Task](), c12T[C12Task2](), c12T[**C12Task2](), c12T[C12Two](), c12T[*C12Two](),
		c12T[C12PTask](), c12T[*C12PTask](), c12T[C12Deep](), c12T[*C12Deep](),
		c12T[[]C12Task](), c12T[map[string]*C12Task2](), c12T[[]*C12PTask](), c12T[map[c12MyStr]C12Two](), c12T[C12Audit](),
	)
}

func c12EmbedWitness(name string) (any, bool) {
	by := "ops"
	seven := 7
	switch name {
	case "embed-shadow-outer-after":
		return C12Task{C12Audit: C12Audit{ID: "audit-1", Version: 3, By: &by}, ID: "task-7", N: 1}, true
	case "embed-shadow-outer-first":
		return C12Task2{ID: "job-9", Version: &seven, C12Audit: C12Audit{ID: "audit-2", Version: 1}}, true
	case "embed-same-depth":
		return C12Two{C12EmbA: C12EmbA{ID: "a", Tag: 5}, C12EmbB: C12EmbB{ID: 2, Tag: []string{"t"}}, X: 0.5}, true
	case "embed-ptr":
		return []*C12PTask{{C12Audit: &C12Audit{ID: "inner"}, ID: "outer", Next: &C12PTask{ID: "nil-embedded"}}, nil}, true
	case "embed-deep-any":
		t := C12Task{C12Audit: C12Audit{ID: "a"}, ID: "t"}
		return c12Any{X: C12Deep{C12Task: t, Version: 9, ID: []string{"d"}, M: map[string]C12Task{"k": t}}, L: []any{&t, t.C12Audit},
			M: map[string]any{"two": &C12Two{C12EmbA: C12EmbA{ID: "x"}, C12EmbB: C12EmbB{ID: 1}}}}, true
	}
	return nil, false
}

var c12EmbedWitnesses = []string{"embed-shadow-outer-after", "embed-shadow-outer-first", "embed-same-depth", "embed-ptr", "embed-deep-any"}
