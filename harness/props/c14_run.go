//go:build verif && (vh_all || vh_c14)

package props

import (
	"context"
	"crypto/sha1"
	"encoding/hex"
	"encoding/json"
	"fmt"
	"sort"
	"strings"
	"time"

	"github.com/cloudwego/eino/compose"
	"github.com/cloudwego/eino/schema"
	"github.com/cloudwego/eino/verifharness/vh"
)

func init() { vh.Register("C14", runC14) }

// ---------------------------------------------------------------------------------------
// implementation side
// ---------------------------------------------------------------------------------------

type c14Res struct {
	Class string `json:"class"` // ok | fail | panic | hang
	Out   any    `json:"out,omitempty"`
	Info  string `json:"info,omitempty"`
}

func (r c14Res) canon() string {
	if r.Class == "ok" {
		return vh.Canon(map[string]any{"ok": r.Out})
	}
	return vh.Canon(map[string]any{"err": r.Class})
}

// quick: a cheaper canonical form (one Marshal; map keys sorted by encoding/json) that is only ever
// compared with the quick form of another implementation result
func (r c14Res) quick() string {
	if r.Class == "ok" {
		b, err := json.Marshal(map[string]any{"ok": r.Out})
		if err != nil {
			return "!marshal:" + err.Error()
		}
		return string(b)
	}
	return `{"err":"` + r.Class + `"}`
}

type c14Ops[T any] struct {
	parse  func(raw json.RawMessage) (any, error) // once per chunk
	mk     func(parsed any) T                     // fresh Go value for every call
	concat func([]T) (T, error)
	out    func(T) any
}

// parsed chunks are cached per case (keyed by the address of the first chunk)
type c14Parsed struct {
	key *json.RawMessage
	n   int
	ps  []any
}

var c14ParseCache c14Parsed

func c14Guard[T any](f func() (T, error)) (v T, class string, info string) {
	var err error
	done := false
	panicked, pv := vh.Safely(func() {
		done = vh.WithTimeout(20*time.Second, func() { v, err = f() })
	})
	switch {
	case panicked:
		return v, "panic", fmt.Sprint(pv)
	case !done:
		return v, "hang", ""
	case err != nil:
		if strings.Contains(err.Error(), "panic") { // a panic recovered by the graph runtime
			return v, "panic", err.Error()
		}
		return v, "fail", ""
	}
	return v, "ok", ""
}

func c14BuildAll[T any](ops c14Ops[T], chunks []json.RawMessage) ([]T, error) {
	var ps []any
	if len(chunks) > 0 && c14ParseCache.key == &chunks[0] && c14ParseCache.n == len(chunks) {
		ps = c14ParseCache.ps
	} else {
		ps = make([]any, 0, len(chunks))
		for _, c := range chunks {
			p, err := ops.parse(c)
			if err != nil {
				return nil, err
			}
			ps = append(ps, p)
		}
		if len(chunks) > 0 {
			c14ParseCache = c14Parsed{key: &chunks[0], n: len(chunks), ps: ps}
		}
	}
	xs := make([]T, 0, len(ps))
	for _, p := range ps {
		xs = append(xs, ops.mk(p))
	}
	return xs, nil
}

// c14All = concat(all chunks)
func c14All[T any](ops c14Ops[T], chunks []json.RawMessage) (c14Res, error) {
	xs, err := c14BuildAll(ops, chunks)
	if err != nil {
		return c14Res{}, err
	}
	v, class, info := c14Guard(func() (T, error) { return ops.concat(xs) })
	r := c14Res{Class: class, Info: info}
	if class == "ok" {
		r.Out = ops.out(v)
	}
	return r, nil
}

// c14Split = concat(concat(chunks[:k]) :: chunks[k:])   (an error of the prefix is an error)
func c14Split[T any](ops c14Ops[T], chunks []json.RawMessage, k int) (c14Res, error) {
	xs, err := c14BuildAll(ops, chunks)
	if err != nil {
		return c14Res{}, err
	}
	p, class, info := c14Guard(func() (T, error) { return ops.concat(xs[:k]) })
	if class != "ok" {
		return c14Res{Class: class, Info: "prefix: " + info}, nil
	}
	rest := append([]T{p}, xs[k:]...)
	v, class, info := c14Guard(func() (T, error) { return ops.concat(rest) })
	r := c14Res{Class: class, Info: info}
	if class == "ok" {
		r.Out = ops.out(v)
	}
	return r, nil
}

func c14StreamConcat[T any](xs []T) (T, error) {
	return compose.VerifConcatStreamC14(schema.StreamReaderFromArray(xs))
}

// the same conversion reached through the public API: a stream-only node called with Invoke
func c14GraphConcat[T any](xs []T) (T, error) {
	ctx := context.Background()
	ch := compose.NewChain[string, T]()
	ch.AppendLambda(compose.StreamableLambda(func(ctx context.Context, in string) (*schema.StreamReader[T], error) {
		return schema.StreamReaderFromArray(xs), nil
	}))
	r, err := ch.Compile(ctx)
	if err != nil {
		var t T
		return t, fmt.Errorf("compile: %w", err)
	}
	return r.Invoke(ctx, "x")
}

func c14ParseMsg(raw json.RawMessage) (any, error) {
	var m *c14Msg
	err := json.Unmarshal(raw, &m)
	return m, err
}
func c14MkMsg(p any) *schema.Message { return c14ToMessage(p.(*c14Msg)) }

func c14ParseMap(raw json.RawMessage) (any, error) {
	v, err := c14ParseVal(raw)
	return v, err
}

// a map chunk of the static type T (a nil chunk = the nil T)
func c14MkTMap[T any](p any) T {
	v := p.(*c14Val)
	if v == nil {
		var t T
		return t
	}
	return c14ToGo(v).(T)
}

// a chunk of type any
func c14MkAny(p any) any { return c14ToGo(p.(*c14Val)) }

func c14ParseStr(raw json.RawMessage) (any, error) {
	var s string
	err := json.Unmarshal(raw, &s)
	return s, err
}
func c14MkStr(p any) string { return p.(string) }

func c14ParseArr(raw json.RawMessage) (any, error) {
	var ms []*c14Msg
	err := json.Unmarshal(raw, &ms)
	return ms, err
}
func c14MkArr(p any) []*schema.Message {
	ms := p.([]*c14Msg)
	out := make([]*schema.Message, len(ms))
	for i, m := range ms {
		out[i] = c14ToMessage(m)
	}
	return out
}

func c14ArrOut(ms []*schema.Message) any {
	out := []any{}
	for _, m := range ms {
		out = append(out, c14MsgOut(m))
	}
	return out
}

var (
	c14OpsMsgs  = c14Ops[*schema.Message]{parse: c14ParseMsg, mk: c14MkMsg, concat: schema.ConcatMessages, out: func(m *schema.Message) any { return c14MsgOut(m) }}
	c14OpsCMsgs = c14Ops[*schema.Message]{parse: c14ParseMsg, mk: c14MkMsg, concat: c14StreamConcat[*schema.Message], out: func(m *schema.Message) any { return c14MsgOut(m) }}
	c14OpsAnys  = c14Ops[any]{parse: c14ParseMap, mk: c14MkAny, concat: c14StreamConcat[any], out: func(x any) any { return c14Out(x) }}
	c14OpsStrs  = c14Ops[string]{parse: c14ParseStr, mk: c14MkStr, concat: c14StreamConcat[string], out: func(s string) any { return s }}
	c14OpsArr   = c14Ops[[]*schema.Message]{parse: c14ParseArr, mk: c14MkArr, concat: c14StreamConcat[[]*schema.Message], out: c14ArrOut}

	c14OpsGMsgs = c14Ops[*schema.Message]{parse: c14ParseMsg, mk: c14MkMsg, concat: c14GraphConcat[*schema.Message], out: func(m *schema.Message) any { return c14MsgOut(m) }}
	c14OpsGStrs = c14Ops[string]{parse: c14ParseStr, mk: c14MkStr, concat: c14GraphConcat[string], out: func(s string) any { return s }}
)

type c14Runner struct {
	all   func(chunks []json.RawMessage) (c14Res, error)
	split func(chunks []json.RawMessage, k int) (c14Res, error)
}

func c14MkRunner[T any](ops c14Ops[T]) c14Runner {
	return c14Runner{
		all:   func(ch []json.RawMessage) (c14Res, error) { return c14All(ops, ch) },
		split: func(ch []json.RawMessage, k int) (c14Res, error) { return c14Split(ops, ch, k) },
	}
}

// map chunks of the static Go type T: directly through concatStreamReader, and through a graph
func c14MapRunners[T any]() [2]c14Runner {
	out := func(m T) any { return c14Out(any(m)) }
	return [2]c14Runner{
		c14MkRunner(c14Ops[T]{parse: c14ParseMap, mk: c14MkTMap[T], concat: c14StreamConcat[T], out: out}),
		c14MkRunner(c14Ops[T]{parse: c14ParseMap, mk: c14MkTMap[T], concat: c14GraphConcat[T], out: out}),
	}
}

// element type of the chunk type map[string]<et> → runners
var c14MapRunnersByEt = map[string][2]c14Runner{
	"any":                          c14MapRunners[map[string]any](),
	"string":                       c14MapRunners[map[string]string](),
	"int":                          c14MapRunners[map[string]int](),
	"float64":                      c14MapRunners[map[string]float64](),
	"bool":                         c14MapRunners[map[string]bool](),
	"c14S":                         c14MapRunners[map[string]c14S](),
	"*c14S":                        c14MapRunners[map[string]*c14S](),
	"[]string":                     c14MapRunners[map[string][]string](),
	"map[string]string":            c14MapRunners[map[string]map[string]string](),
	"map[string]int":               c14MapRunners[map[string]map[string]int](),
	"map[string]c14S":              c14MapRunners[map[string]map[string]c14S](),
	"map[string]any":               c14MapRunners[map[string]map[string]any](),
	"map[string]map[string]string": c14MapRunners[map[string]map[string]map[string]string](),
}

// the typed chunk types the generator draws from (weights by repetition)
var c14TopEts = []string{"string", "string", "int", "float64", "bool", "c14S", "c14S", "*c14S", "[]string", "[]string",
	"map[string]string", "map[string]string", "map[string]int", "map[string]c14S", "map[string]any", "map[string]map[string]string"}

func c14RunnerFor(kind string, et string, graph bool) (c14Runner, bool) {
	switch kind {
	case "msgs":
		return c14MkRunner(c14OpsMsgs), true
	case "cmsgs":
		if graph {
			return c14MkRunner(c14OpsGMsgs), true
		}
		return c14MkRunner(c14OpsCMsgs), true
	case "maps":
		rs, ok := c14MapRunnersByEt[et]
		if !ok {
			return c14Runner{}, false
		}
		if graph {
			return rs[1], true
		}
		return rs[0], true
	case "anys":
		return c14MkRunner(c14OpsAnys), true
	case "strs":
		if graph {
			return c14MkRunner(c14OpsGStrs), true
		}
		return c14MkRunner(c14OpsStrs), true
	case "marr":
		return c14MkRunner(c14OpsArr), true
	}
	return c14Runner{}, false
}

// ---------------------------------------------------------------------------------------
// generator
// ---------------------------------------------------------------------------------------

var c14Frag = []string{"a", "b", "{\"x\":", "1}", " ", "é", "zz", "\"q\"", "0"}

func c14Pick(r *vh.Rand, xs ...string) string { return xs[r.Intn(len(xs))] }

// every key has a "home" type so that most sequences are consistent; clashes are injected
var c14Home = map[string]string{"a": "string", "b": "int", "c": "map", "d": "c14S", "e": "*c14S", "f": "float64", "g": "c14L", "h": "bool", "i": "int64",
	"j": "map[string]string", "k": "map[string]int", "l": "map[string]c14S", "m": "map[string][]string", "n": "map[string]map[string]string",
	"o": "[]string", "p": "map[string]float64", "q": "map[string]any"}

// the first c14FocusKeys keys are drawn more often so that chunks overlap on them
var c14Keys = []string{"a", "b", "c", "j", "n", "l", "d", "e", "f", "g", "h", "i", "k", "m", "o", "p", "q"}

const c14FocusKeys = 6

var c14Types = []string{"string", "int", "map", "c14S", "*c14S", "float64", "c14L", "bool", "int64",
	"map[string]string", "map[string]int", "map[string]c14S", "map[string][]string", "map[string]map[string]string", "[]string", "map[string]float64", "map[string]any"}

// keys of typed maps: few, so that one key occurs in 1, 2, 3 … chunks
var c14TKeys = []string{"x", "y", "z"}

// c14GenTMap: a value of type map[string]<et> (nil, empty, or 1-3 keys with values of type et)
func c14GenTMap(r *vh.Rand, et string, depth int) *c14Val {
	if et == "any" {
		return c14GenMap(r, depth, true)
	}
	m := &c14Val{IsMap: true, E: et}
	switch {
	case r.Chance(8):
		m.Nil = true
		return m
	case r.Chance(8) || (depth >= 3 && strings.HasPrefix(et, "map[")):
		return m
	}
	used := map[string]bool{}
	for i := r.Range(1, 3); i > 0; i-- {
		k := c14TKeys[r.Intn(len(c14TKeys))]
		if used[k] {
			continue
		}
		used[k] = true
		m.M = append(m.M, c14KV{k, c14GenVal(r, et, depth)})
	}
	c14SortKVs(m)
	return m
}

func c14GenVal(r *vh.Rand, ty string, depth int) *c14Val {
	if strings.HasPrefix(ty, "map[string]") {
		return c14GenTMap(r, strings.TrimPrefix(ty, "map[string]"), depth+1)
	}
	switch ty {
	case "map":
		if depth >= 3 {
			return &c14Val{T: "string", V: "deep"}
		}
		return c14GenMap(r, depth+1, true)
	case "[]string": // zero (nil) most of the time; "-" = empty but not nil (not zero)
		switch {
		case r.Chance(55):
			return &c14Val{T: ty, V: ""}
		case r.Chance(25):
			return &c14Val{T: ty, V: "-"}
		}
		return &c14Val{T: ty, V: c14Pick(r, "p", "q")}
	case "string":
		return &c14Val{T: ty, V: c14Pick(r, "", "x", "yz", "é", "x")}
	case "int", "int64", "float64":
		return &c14Val{T: ty, V: c14Pick(r, "0", "1", "7", "-3", "42")}
	case "bool":
		return &c14Val{T: ty, V: c14Pick(r, "true", "false")}
	default: // unregistered types: mostly zero so that the single-non-zero rule often succeeds
		if r.Chance(65) {
			return &c14Val{T: ty, V: ""}
		}
		return &c14Val{T: ty, V: c14Pick(r, "p", "q")}
	}
}

func c14GenMap(r *vh.Rand, depth int, allowEmpty bool) *c14Val {
	m := &c14Val{IsMap: true}
	n := r.Range(1, 3)
	if allowEmpty && r.Chance(10) {
		n = 0
	}
	used := map[string]bool{}
	for i := 0; i < n; i++ {
		k := c14Keys[r.Intn(len(c14Keys))]
		if r.Chance(50) {
			k = c14Keys[r.Intn(c14FocusKeys)] // concentrate on a few keys so that chunks overlap
		}
		if used[k] {
			continue
		}
		used[k] = true
		var v *c14Val
		switch {
		case r.Chance(7):
			v = nil // a nil value
		case r.Chance(7):
			v = c14GenVal(r, c14Types[r.Intn(len(c14Types))], depth) // possible type clash
		default:
			v = c14GenVal(r, c14Home[k], depth)
		}
		m.M = append(m.M, c14KV{k, v})
	}
	c14SortKVs(m)
	return m
}

func c14GenMsg(r *vh.Rand, profile int) *c14Msg {
	if r.Chance(2) {
		return nil
	}
	m := &c14Msg{Multi: []int{}, TCs: []c14TC{}}
	if r.Chance(50) {
		m.Role = c14Pick(r, "assistant", "assistant", "assistant", "assistant", "assistant", "assistant", "user")
	}
	if r.Chance(30) {
		m.Name = c14Pick(r, "n1", "n1", "n1", "n1", "n1", "n2")
	}
	if r.Chance(20) {
		m.TCID = c14Pick(r, "t1", "t1", "t1", "t1", "t2")
	}
	if r.Chance(60) {
		m.Content = c14Frag[r.Intn(len(c14Frag))]
	}
	if r.Chance(15) {
		for i := r.Range(1, 2); i > 0; i-- {
			m.Multi = append(m.Multi, r.Intn(5))
		}
	}
	if profile != 1 && r.Chance(60) {
		for i := r.Range(1, 3); i > 0; i-- {
			tc := c14TC{}
			if !r.Chance(20) {
				idx := []int{0, 1, 2, -1, 5, 1, 0}[r.Intn(7)]
				tc.Idx = &idx
				if r.Chance(35) {
					tc.ID = fmt.Sprintf("id%d", idx)
				}
				if r.Chance(35) {
					tc.Name = fmt.Sprintf("f%d", idx)
				}
				if r.Chance(3) {
					tc.ID = "idX"
				}
				if r.Chance(3) {
					tc.Name = "fX"
				}
			} else {
				tc.ID = c14Pick(r, "", "nid")
				tc.Name = c14Pick(r, "", "nf")
			}
			if r.Chance(40) {
				tc.Type = "function"
			}
			if r.Chance(2) {
				tc.Type = "other"
			}
			if r.Chance(75) {
				tc.Args = c14Frag[r.Intn(len(c14Frag))]
			}
			if r.Chance(25) {
				tc.Ex = r.Range(1, 3)
			}
			m.TCs = append(m.TCs, tc)
		}
	}
	if r.Chance(45) {
		mt := &c14Meta{}
		if r.Chance(40) {
			mt.Finish = c14Pick(r, "stop", "length", "tool_calls")
		}
		if r.Chance(50) {
			u := [3]int{r.Range(-2, 40), r.Range(0, 40), r.Range(0, 80)}
			mt.Usage = &u
		}
		if r.Chance(35) {
			lp := []int{}
			for i := r.Intn(3); i > 0; i-- {
				lp = append(lp, r.Intn(9))
			}
			mt.LP = &lp
		}
		m.Meta = mt
	}
	if profile != 2 && r.Chance(55) {
		m.Extra = c14GenMap(r, 0, true)
	}
	return m
}

func c14GenCase(r *vh.Rand, kind string) *c14Case {
	c := &c14Case{Kind: kind}
	n := r.Range(1, 6)
	profile := r.Intn(3) // 0 everything, 1 no tool calls (extras focus), 2 no extras (tool-call focus)
	switch kind {
	case "msgs", "cmsgs":
		for i := 0; i < n; i++ {
			c.Chunks = append(c.Chunks, c14Raw(c14GenMsg(r, profile)))
		}
	case "maps":
		if r.Chance(3) {
			n = 0
		}
		if r.Chance(50) { // a typed chunk type: map[string]string, map[string]S, map[string]map[string]string …
			c.Et = c14TopEts[r.Intn(len(c14TopEts))]
		}
		for i := 0; i < n; i++ {
			switch {
			case r.Chance(3):
				c.Chunks = append(c.Chunks, json.RawMessage("null")) // a nil map chunk
			case c.Et != "":
				c.Chunks = append(c.Chunks, c14Raw(c14GenTMap(r, c.Et, 0)))
			default:
				c.Chunks = append(c.Chunks, c14Raw(c14GenMap(r, 0, true)))
			}
		}
	case "anys": // chunks of type any: mostly nil, so that all-nil / one non-nil / several non-nil all occur
		if r.Chance(3) {
			n = 0
		}
		for i := 0; i < n; i++ {
			if r.Chance(70) {
				c.Chunks = append(c.Chunks, json.RawMessage("null"))
			} else {
				c.Chunks = append(c.Chunks, c14Raw(c14GenVal(r, c14Types[r.Intn(len(c14Types))], 1)))
			}
		}
	case "strs":
		if r.Chance(3) {
			n = 0
		}
		for i := 0; i < n; i++ {
			c.Chunks = append(c.Chunks, c14Raw(c14Pick(r, "", "a", "bc", "é", "\n", "long-ish fragment ")))
		}
	case "marr":
		l := r.Range(0, 3)
		for i := 0; i < n; i++ {
			ll := l
			if r.Chance(4) {
				ll = l + 1
			}
			arr := make([]*c14Msg, ll)
			for j := range arr {
				if r.Chance(70) {
					arr[j] = c14GenMsg(r, profile)
				}
			}
			c.Chunks = append(c.Chunks, c14Raw(arr))
		}
	}
	if c.Chunks == nil {
		c.Chunks = []json.RawMessage{}
	}
	return c
}

// ---------------------------------------------------------------------------------------
// features of a case (distribution, non-triviality, signatures)
// ---------------------------------------------------------------------------------------

type c14Feat struct {
	nilVal, extras, indexed, nilIdx, nilChunk bool
	typed, nilMap                             bool // a map with a non-any element type / a nil typed map somewhere
	depth, tcs                                int
	sameKeyTyped                              int // max number of chunks in which one top-level key holds a typed map / a typed chunk has the key
}

func c14HasNilMap(v *c14Val) bool {
	if v == nil || !v.IsMap {
		return false
	}
	if v.Nil && len(v.M) == 0 {
		return true
	}
	for _, kv := range v.M {
		if c14HasNilMap(kv.V) {
			return true
		}
	}
	return false
}

func c14Features(c *c14Case) c14Feat {
	var f c14Feat
	perKey := map[string]int{}
	if c.Kind == "maps" && c.et() != "any" {
		f.typed = true
	}
	visitExtra := func(v *c14Val) {
		if v == nil {
			return
		}
		if len(v.M) > 0 {
			f.extras = true
		}
		if c14HasTyped(v) {
			f.typed = true
		}
		if c14HasNilMap(v) {
			f.nilMap = true
		}
		if v.IsMap {
			for _, kv := range v.M {
				if v.et() != "any" || (kv.V != nil && kv.V.IsMap && kv.V.et() != "any") {
					perKey[kv.K]++
					if perKey[kv.K] > f.sameKeyTyped {
						f.sameKeyTyped = perKey[kv.K]
					}
				}
			}
		}
		if c14HasNil(v, true) {
			f.nilVal = true
		}
		if d := c14Depth(v); d > f.depth {
			f.depth = d
		}
	}
	visitMsg := func(m *c14Msg) {
		if m == nil {
			f.nilChunk = true
			return
		}
		visitExtra(m.Extra)
		for _, t := range m.TCs {
			f.tcs++
			if t.Idx != nil {
				f.indexed = true
			} else {
				f.nilIdx = true
			}
		}
	}
	for _, raw := range c.Chunks {
		switch c.Kind {
		case "msgs", "cmsgs":
			var m *c14Msg
			json.Unmarshal(raw, &m)
			visitMsg(m)
		case "maps":
			v, _ := c14ParseVal(raw)
			visitExtra(v)
		case "anys":
			v, _ := c14ParseVal(raw)
			if v == nil {
				f.nilChunk = true
			} else if v.IsMap {
				visitExtra(v)
			}
		case "marr":
			var ms []*c14Msg
			json.Unmarshal(raw, &ms)
			for _, m := range ms {
				if m != nil {
					visitMsg(m)
				}
			}
		}
	}
	return f
}

func c14Hash(c *c14Case) string {
	b, _ := json.Marshal(c)
	h := sha1.Sum(b)
	return hex.EncodeToString(h[:8])
}

// first top-level field on which two canonical results differ
func c14DiffField(a, b string) string {
	var x, y map[string]any
	if json.Unmarshal([]byte(a), &x) != nil || json.Unmarshal([]byte(b), &y) != nil {
		return "value"
	}
	_, aok := x["ok"]
	_, bok := y["ok"]
	if !aok || !bok {
		return "class"
	}
	xm, ok1 := x["ok"].(map[string]any)
	ym, ok2 := y["ok"].(map[string]any)
	if !ok1 || !ok2 {
		return "value"
	}
	keys := []string{}
	for k := range xm {
		keys = append(keys, k)
	}
	for k := range ym {
		if _, ok := xm[k]; !ok {
			keys = append(keys, k)
		}
	}
	sort.Strings(keys)
	for _, k := range keys {
		if vh.Canon(xm[k]) != vh.Canon(ym[k]) {
			if k == "tcs" && c14TCOrderOnly(xm[k], ym[k]) {
				return "tcs-order" // the same tool calls, in a different order
			}
			return k
		}
	}
	return "value"
}

// ---------------------------------------------------------------------------------------
// one case: oracle vs implementation, re-chunking law on the implementation, determinism
// ---------------------------------------------------------------------------------------

type c14Finding struct {
	Sig, What   string
	Model, Impl any
}

// c14Eval returns the findings of one case (empty = agreement). modelRaw may be nil for kinds
// without an oracle ("marr").
func c14Eval(c *c14Case, modelRaw json.RawMessage, graph bool, reps int) ([]c14Finding, c14Res, error) {
	run, ok := c14RunnerFor(c.Kind, c.et(), graph)
	if !ok {
		return nil, c14Res{}, fmt.Errorf("unknown kind %q (element type %q)", c.Kind, c.et())
	}
	f := c14Features(c)
	via := c.Kind
	if graph {
		via += "-graph"
	}
	var out []c14Finding
	all, err := run.all(c.Chunks)
	if err != nil {
		return nil, all, err
	}
	allCanon := all.canon() // computed once (long messages: canonicalisation dominates the cost)
	allQuick := all.quick()
	panicSig := func(r c14Res) string {
		shape := "other"
		switch {
		case strings.Contains(r.Info, "reflect.Value.IsNil"):
			shape = "isnil-on-non-nillable-map-element" // IsNil called on a string / number / struct map element
		case strings.Contains(r.Info, "interface conversion: interface is nil"):
			shape = "nil-interface-result" // ConcatItems asserts a nil interface result to T
		case f.nilVal:
			shape = "nil-extra-value"
		}
		return fmt.Sprintf("C14:panic:%s:%s", c.Kind, shape)
	}
	typedTag := func(sig string) string {
		if f.typed {
			return sig + ":typed-map"
		}
		return sig
	}
	if all.Class == "panic" || all.Class == "hang" {
		var mdl any
		if modelRaw != nil {
			mdl = json.RawMessage(modelRaw)
		}
		out = append(out, c14Finding{Sig: panicSig(all), What: fmt.Sprintf("concatenation %ss (%s): %s", all.Class, via, all.Info), Model: mdl, Impl: all})
	}
	// determinism (Go map iteration order inside concatMaps / concatToolCalls)
	for i := 0; i < reps; i++ {
		again, err := run.all(c.Chunks)
		if err != nil {
			return nil, all, err
		}
		if again.quick() != allQuick {
			againCanon := again.canon()
			sig := fmt.Sprintf("C14:nondeterministic:%s:%s", c.Kind, c14DiffField(allCanon, againCanon))
			if (again.Class == "panic" || all.Class == "panic") && f.nilVal {
				sig = panicSig(all) // panic or error depending on map order: same defect
			}
			out = append(out, c14Finding{Sig: sig, What: "two runs on the same chunk sequence gave different results (" + via + ")", Model: again, Impl: all})
			break
		}
	}
	// model vs implementation
	if modelRaw != nil {
		model := vh.Canon(json.RawMessage(modelRaw))
		if model != allCanon && all.Class != "panic" && all.Class != "hang" {
			field := c14DiffField(model, allCanon)
			sig := typedTag(fmt.Sprintf("C14:result-mismatch:%s:%s", c.Kind, field))
			if field == "class" {
				var mm map[string]any
				json.Unmarshal(modelRaw, &mm)
				mc := "ok"
				if e, ok := mm["err"].(string); ok {
					mc = e
				}
				sig = fmt.Sprintf("C14:class-mismatch:%s:impl=%s:model=%s", c.Kind, all.Class, mc)
				if mc == "panic" && f.nilVal {
					sig = panicSig(all)
				} else if f.nilVal {
					sig += ":nil-extra-value"
				} else {
					sig = typedTag(sig)
				}
			}
			out = append(out, c14Finding{Sig: sig, What: fmt.Sprintf("implementation and model disagree on %s (%s)", field, via), Model: json.RawMessage(modelRaw), Impl: all})
		}
	}
	// re-chunking law, directly on the implementation, every two-way split (long sequences: both
	// ends and an evenly spaced selection of split points)
	for _, k := range c14SplitPoints(len(c.Chunks)) {
		sp, err := run.split(c.Chunks, k)
		if err != nil {
			return nil, all, err
		}
		if sp.Class == "panic" || sp.Class == "hang" {
			if all.Class != "panic" {
				out = append(out, c14Finding{Sig: panicSig(sp), What: fmt.Sprintf("concatenating the first %d chunks first %ss (%s): %s", k, sp.Class, via, sp.Info), Impl: sp})
			}
			continue
		}
		if all.Class == "panic" || all.Class == "hang" {
			continue // already reported
		}
		same := sp.quick() == allQuick || (sp.Class != "ok" && all.Class != "ok")
		if !same {
			spCanon := sp.canon()
			field := c14DiffField(allCanon, spCanon)
			out = append(out, c14Finding{Sig: typedTag(fmt.Sprintf("C14:rechunk:%s:%s", c.Kind, field)),
				What:  fmt.Sprintf("concat(concat(chunks[:%d]) :: chunks[%d:]) differs from concat(chunks) on %s (%s)", k, k, field, via),
				Model: map[string]any{"all": all}, Impl: map[string]any{"split": k, "result": sp}})
			break
		}
	}
	// chunk boundaries inside a nested map value (theorem concat_split_nested_map), directly on the
	// implementation: the first nested map value with >= 2 entries is delivered in two consecutive
	// chunks instead (first entry / the rest)
	if c.Kind == "maps" && all.Class != "panic" && all.Class != "hang" {
		if c2, where := c14SplitNested(c); c2 != nil {
			sp, err := run.all(c2.Chunks)
			if err != nil {
				return nil, all, err
			}
			switch {
			case sp.Class == "panic" || sp.Class == "hang":
				out = append(out, c14Finding{Sig: panicSig(sp), What: fmt.Sprintf("with the nested map %s delivered in two chunks the concatenation %ss (%s): %s", where, sp.Class, via, sp.Info), Impl: sp})
			case !(sp.canon() == allCanon || (sp.Class != "ok" && all.Class != "ok")):
				field := c14DiffField(allCanon, sp.canon())
				out = append(out, c14Finding{Sig: typedTag(fmt.Sprintf("C14:split-nested-map:%s:%s", c.Kind, field)),
					What:  fmt.Sprintf("delivering the nested map %s in two consecutive chunks (first entry / the rest) changes the result on %s (%s)", where, field, via),
					Model: map[string]any{"one-chunk": all}, Impl: map[string]any{"split-case": c2, "result": sp}})
			}
		}
	}
	return out, all, nil
}

// c14SplitNested: the case with the first nested map value (any map type) that has >= 2 entries
// split over two consecutive chunks: chunk i keeps everything but only the first entry of that
// map, a new chunk i+1 holds {key: the remaining entries}.
func c14SplitNested(c *c14Case) (*c14Case, string) {
	for i, raw := range c.Chunks {
		v, _ := c14ParseVal(raw)
		if v == nil || !v.IsMap {
			continue
		}
		for j, kv := range v.M {
			if kv.V == nil || !kv.V.IsMap || len(kv.V.M) < 2 {
				continue
			}
			first := c14CopyVal(v)
			first.M[j].V.M = first.M[j].V.M[:1]
			restMap := c14CopyVal(kv.V)
			restMap.M = restMap.M[1:]
			second := &c14Val{IsMap: true, E: v.E, M: []c14KV{{kv.K, restMap}}}
			n := &c14Case{Kind: c.Kind, Et: c.Et}
			n.Chunks = append(n.Chunks, c.Chunks[:i]...)
			n.Chunks = append(n.Chunks, c14Raw(first), c14Raw(second))
			n.Chunks = append(n.Chunks, c.Chunks[i+1:]...)
			return n, fmt.Sprintf("under key %q of chunk %d (map[string]%s)", kv.K, i, kv.V.et())
		}
	}
	return nil, ""
}

// ---- shrinking: drop chunks / fields while the same signature is still produced ----

func c14CopyVal(v *c14Val) *c14Val {
	if v == nil {
		return nil
	}
	n := &c14Val{T: v.T, V: v.V, IsMap: v.IsMap, E: v.E, Nil: v.Nil}
	for _, kv := range v.M {
		n.M = append(n.M, c14KV{kv.K, c14CopyVal(kv.V)})
	}
	return n
}

// every copy of v with one (key, value) removed at some depth
func c14ValEdits(v *c14Val) []*c14Val {
	if v == nil || !v.IsMap {
		return nil
	}
	var out []*c14Val
	for j := range v.M {
		n := c14CopyVal(v)
		n.M = append(n.M[:j:j], n.M[j+1:]...)
		out = append(out, n)
		for _, sub := range c14ValEdits(v.M[j].V) {
			n := c14CopyVal(v)
			n.M[j].V = sub
			out = append(out, n)
		}
	}
	return out
}

func c14Candidates(c *c14Case) []*c14Case {
	var out []*c14Case
	clone := func() *c14Case {
		n := &c14Case{Kind: c.Kind, Et: c.Et, Chunks: append([]json.RawMessage{}, c.Chunks...)}
		return n
	}
	// long sequences: whole blocks of chunks first (halves, quarters, …)
	for size := len(c.Chunks) / 2; size >= 2; size /= 2 {
		for i := 0; i+size <= len(c.Chunks); i += size {
			n := clone()
			n.Chunks = append(n.Chunks[:i:i], n.Chunks[i+size:]...)
			out = append(out, n)
		}
	}
	for i := range c.Chunks {
		n := clone()
		n.Chunks = append(n.Chunks[:i:i], n.Chunks[i+1:]...)
		out = append(out, n)
	}
	if c.Kind == "msgs" || c.Kind == "cmsgs" {
		for i, raw := range c.Chunks {
			var m *c14Msg
			if json.Unmarshal(raw, &m) != nil || m == nil {
				continue
			}
			edits := []func(m *c14Msg) bool{
				func(m *c14Msg) bool { ok := m.Extra != nil; m.Extra = nil; return ok },
				func(m *c14Msg) bool { ok := len(m.TCs) > 0; m.TCs = []c14TC{}; return ok },
				func(m *c14Msg) bool { ok := m.Meta != nil; m.Meta = nil; return ok },
				func(m *c14Msg) bool { ok := len(m.Multi) > 0; m.Multi = []int{}; return ok },
				func(m *c14Msg) bool { ok := m.Content != ""; m.Content = ""; return ok },
				func(m *c14Msg) bool { ok := m.Role != ""; m.Role = ""; return ok },
				func(m *c14Msg) bool { ok := m.Name != ""; m.Name = ""; return ok },
				func(m *c14Msg) bool { ok := m.TCID != ""; m.TCID = ""; return ok },
				func(m *c14Msg) bool {
					if len(m.TCs) < 2 {
						return false
					}
					m.TCs = m.TCs[1:]
					return true
				},
				func(m *c14Msg) bool {
					if len(m.TCs) < 2 {
						return false
					}
					m.TCs = m.TCs[:len(m.TCs)-1]
					return true
				},
			}
			for _, ev := range c14ValEdits(m.Extra) {
				ev := ev
				edits = append(edits, func(m *c14Msg) bool { m.Extra = ev; return true })
			}
			for _, e := range edits {
				var mm *c14Msg
				json.Unmarshal(raw, &mm)
				if e(mm) {
					n := clone()
					n.Chunks[i] = c14Raw(mm)
					out = append(out, n)
				}
			}
		}
	}
	if c.Kind == "marr" {
		for i, raw := range c.Chunks {
			var ms []*c14Msg
			if json.Unmarshal(raw, &ms) != nil {
				continue
			}
			for j := range ms {
				if ms[j] == nil {
					continue
				}
				var cp []*c14Msg
				json.Unmarshal(raw, &cp)
				cp[j] = nil
				n := clone()
				n.Chunks[i] = c14Raw(cp)
				out = append(out, n)
				for _, ev := range c14ValEdits(ms[j].Extra) {
					var cp []*c14Msg
					json.Unmarshal(raw, &cp)
					cp[j].Extra = ev
					n := clone()
					n.Chunks[i] = c14Raw(cp)
					out = append(out, n)
				}
				if len(ms[j].TCs) > 0 {
					var cp []*c14Msg
					json.Unmarshal(raw, &cp)
					cp[j].TCs = []c14TC{}
					n := clone()
					n.Chunks[i] = c14Raw(cp)
					out = append(out, n)
				}
			}
		}
	}
	if c.Kind == "maps" || c.Kind == "anys" {
		for i, raw := range c.Chunks {
			v, _ := c14ParseVal(raw)
			if v == nil {
				continue
			}
			for _, ev := range c14ValEdits(v) {
				n := clone()
				n.Chunks[i] = c14Raw(ev)
				out = append(out, n)
			}
		}
	}
	return out
}

func c14AskModel(ctx *vh.Ctx, c *c14Case) (json.RawMessage, error) {
	return ctx.Oracle.Ask("C14", c)
}

func c14Shrink(ctx *vh.Ctx, c *c14Case, sig string, graph bool) *c14Case {
	cur := c
	stop := time.Now().Add(5 * time.Second) // long sequences: shrinking is best effort
	for round := 0; round < 200 && time.Now().Before(stop); round++ {
		progressed := false
		for _, cand := range c14Candidates(cur) {
			if !time.Now().Before(stop) {
				break
			}
			raw, err := c14AskModel(ctx, cand)
			if err != nil {
				continue
			}
			ctx.Progress.Mark(cand)
			fs, _, err := c14Eval(cand, raw, graph, 2)
			if err != nil {
				continue
			}
			for _, f := range fs {
				if f.Sig == sig {
					cur = cand
					progressed = true
					break
				}
			}
			if progressed {
				break
			}
		}
		if !progressed {
			break
		}
	}
	return cur
}

// how often a signature has been reported in this run (the result keeps 3 per signature:
// further occurrences are not shrunk again)
var c14Reported = map[string]int{}

func c14Report(ctx *vh.Ctx, c *c14Case, fs []c14Finding, graph bool) {
	seen := map[string]bool{}
	for _, f := range fs {
		if seen[f.Sig] || c14Reported[f.Sig] >= 3 {
			continue
		}
		seen[f.Sig] = true
		c14Reported[f.Sig]++
		small := c14Shrink(ctx, c, f.Sig, graph)
		model, impl := f.Model, f.Impl
		if small != c {
			raw, _ := c14AskModel(ctx, small)
			if fs2, _, err := c14Eval(small, raw, graph, 2); err == nil {
				for _, g := range fs2 {
					if g.Sig == f.Sig {
						model, impl = g.Model, g.Impl
						f.What = g.What
					}
				}
			}
		}
		ctx.Res.Disagree(vh.Disagreement{Signature: f.Sig, What: f.What, Case: small, Model: model, Impl: impl})
	}
}

func c14Account(ctx *vh.Ctx, c *c14Case, all c14Res, graph bool) {
	f := c14Features(c)
	ctx.Res.Dist("kind=" + c.Kind)
	if graph {
		ctx.Res.Dist("via=graph")
	}
	switch n := len(c.Chunks); {
	case n <= 6:
		ctx.Res.Dist(fmt.Sprintf("chunks=%d", n))
	case n <= 16:
		ctx.Res.Dist("chunks=7-16")
	case n <= 48:
		ctx.Res.Dist("chunks=17-48")
	default:
		ctx.Res.Dist("chunks=49+")
	}
	ctx.Res.Dist("class=" + all.Class)
	ctx.Res.Dist(fmt.Sprintf("extra-depth=%d", f.depth))
	if f.nilVal {
		ctx.Res.Dist("has-nil-extra-value")
	}
	if c.Kind == "maps" {
		ctx.Res.Dist("map-chunk-elem=" + c.et())
	}
	if f.typed {
		ctx.Res.Dist("has-typed-map")
		switch {
		case f.sameKeyTyped >= 3:
			ctx.Res.Dist("typed-map-same-key-in-chunks=3+")
		default:
			ctx.Res.Dist(fmt.Sprintf("typed-map-same-key-in-chunks=%d", f.sameKeyTyped))
		}
		if c.Kind != "maps" || c.et() == "any" {
			ctx.Res.Dist("typed-map-nested-under-any:" + c.Kind)
		}
	}
	if f.nilMap {
		ctx.Res.Dist("has-nil-typed-map")
	}
	if c.Kind == "maps" {
		if c2, _ := c14SplitNested(c); c2 != nil {
			ctx.Res.Dist("split-nested-map-law-checked")
		}
	}
	if f.nilChunk {
		ctx.Res.Dist("has-nil-chunk")
	}
	if f.nilIdx {
		ctx.Res.Dist("has-nil-index-toolcall")
	}
	if f.indexed {
		ctx.Res.Dist("has-indexed-toolcall")
	}
	switch {
	case f.tcs == 0:
		ctx.Res.Dist("toolcalls=0")
	case f.tcs <= 3:
		ctx.Res.Dist("toolcalls=1-3")
	default:
		ctx.Res.Dist("toolcalls=4+")
	}
	if merged, nilIdx := c14MergedCalls(c); merged > 0 {
		b := "1-4"
		switch {
		case merged > 48:
			b = "49+"
		case merged > 12:
			b = "13-48"
		case merged > 8:
			b = "9-12"
		case merged > 4:
			b = "5-8"
		}
		ctx.Res.Dist("merged-toolcalls=" + b)
		if merged > 12 {
			switch {
			case nilIdx == merged:
				ctx.Res.Dist("merged-toolcalls>12:all-without-index")
			case nilIdx >= 2:
				ctx.Res.Dist("merged-toolcalls>12:2+-without-index-and-indexed")
			case nilIdx == 1:
				ctx.Res.Dist("merged-toolcalls>12:1-without-index")
			default:
				ctx.Res.Dist("merged-toolcalls>12:all-indexed")
			}
		}
	}
	nontrivial := len(c.Chunks) >= 2 && (c.Kind == "strs" || c.Kind == "anys" || f.extras || f.indexed)
	ctx.Res.Count(c.Kind+"/"+c14Hash(c), nontrivial)
	ctx.Res.Sample(c)
}

func runC14(ctx *vh.Ctx) error {
	ctx.Res.Rule = "random chunk sequences (0-6 chunks) of *schema.Message (ConcatMessages and the compose stream→value conversion), map[string]any, typed maps (map[string]string/int/float64/bool/S/*S/[]string/map[string]string/map[string]int/map[string]S/map[string]any/map[string]map[string]string), string, any, []*Message; every field independently absent/zero/set, tool-call fragments with repeated/missing/nil/negative indexes and conflicting id/type/name, nested extras with nil values, type clashes and typed maps (nil, empty, the same key in 1, 2, 3+ chunks) under keys of map[string]any chunks and of Message.Extra; family heavy: long message streams (up to ~300 chunks) whose concatenation holds 2-130 tool calls, share of complete calls without an Index none / 2-3 / half / nearly all / all, contiguous or sparse indexes opened ascending / descending / neighbours swapped / shuffled, 1-4 interleaved fragments per indexed call, 1-24 calls per chunk; non-trivial = at least 2 chunks and (string or any chunks, or a non-empty extra/map, or an indexed tool call); distinct by hash of the whole case"
	if ctx.Replay != nil {
		var c c14Case
		if err := json.Unmarshal(ctx.Replay, &c); err != nil {
			return err
		}
		raw, err := c14AskModel(ctx, &c)
		if err != nil {
			return err
		}
		ctx.Progress.Mark(&c)
		for _, graph := range []bool{false, true} {
			if graph && (c.Kind == "msgs" || c.Kind == "marr" || c.Kind == "anys") {
				continue
			}
			fs, all, err := c14Eval(&c, raw, graph, 5)
			if err != nil {
				return err
			}
			c14Account(ctx, &c, all, graph)
			for _, f := range fs {
				ctx.Res.Disagree(vh.Disagreement{Signature: f.Sig, What: f.What, Case: &c, Model: f.Model, Impl: f.Impl})
			}
		}
		return nil
	}
	plan := []struct {
		kind     string // generator: a kind of the case language, or "heavy" (kinds msgs / cmsgs)
		quick, t int
		share    float64 // cumulative share of the time budget after which the kind stops
	}{{"msgs", 8000, 150000, 0.36}, {"cmsgs", 2000, 40000, 0.46}, {"heavy", 1200, 24000, 0.62}, {"maps", 6000, 120000, 0.86}, {"strs", 400, 4000, 0.88}, {"anys", 600, 8000, 0.91}, {"marr", 800, 15000, 1.0}}
	const batch = 250
	for _, p := range plan {
		n := ctx.N(p.quick, p.t)
		deadline := ctx.Start.Add(time.Duration(float64(ctx.Budget) * p.share))
		for done := 0; done < n && ctx.TimeLeft() && time.Now().Before(deadline); done += batch {
			cases := make([]*c14Case, 0, batch)
			asks := make([]any, 0, batch)
			for i := 0; i < batch && done+i < n; i++ {
				var c *c14Case
				if p.kind == "heavy" {
					kind := "msgs"
					if ctx.Rng.Chance(30) {
						kind = "cmsgs"
					}
					var info c14HeavyInfo
					c, info = c14GenHeavy(ctx.Rng, kind)
					ctx.Res.Dist("heavy:opening=" + info.opening)
					if info.conflict {
						ctx.Res.Dist("heavy:conflicting-fragment")
					}
				} else {
					c = c14GenCase(ctx.Rng, p.kind)
				}
				cases = append(cases, c)
				asks = append(asks, c)
			}
			answers, err := ctx.Oracle.AskBatch("C14", asks)
			if err != nil {
				return err
			}
			for i, c := range cases {
				var raw json.RawMessage
				if answers != nil {
					raw = answers[i]
				}
				ctx.Progress.Mark(c)
				fs, all, err := c14Eval(c, raw, false, 2)
				if err != nil {
					return err
				}
				c14Account(ctx, c, all, false)
				if len(fs) > 0 {
					c14Report(ctx, c, fs, false)
				}
				// the same conversion through the public API (stream-only node + Invoke)
				if (c.Kind == "cmsgs" || c.Kind == "maps" || c.Kind == "strs") && i%5 == 0 {
					fs, all, err := c14Eval(c, raw, true, 0)
					if err != nil {
						return err
					}
					c14Account(ctx, c, all, true)
					if len(fs) > 0 {
						c14Report(ctx, c, fs, true)
					}
				}
			}
		}
	}
	return nil
}
