//go:build verif && (vh_all || vh_c07 || vh_c20)

package props

// Shared by the C20 and C07 harnesses: the fixed menu of Go types, generic registries that
// build real compose graphs / lambdas / branches / state handlers for every menu type, and
// the executor that replays a construction sequence (the "build" case language the Lean
// oracle also reads) against the real code, classifying every call's result without looking
// at message text: ok | fresh (a new error value) | stored (the very error value returned by
// the first failing call) | compiled (errors.Is ErrGraphCompiled) | panic.

import (
	"context"
	"errors"
	"fmt"
	"io"
	"reflect"
	"sort"
	"time"

	"github.com/cloudwego/eino/compose"
	"github.com/cloudwego/eino/verifharness/vh"
)

// ---- the type menu ----

type c20S struct{ X int }
type c20I0 interface{ A() }
type c20I1 interface {
	A()
	B()
}
type c20ImplA struct{ N int } // implements I0 and I1
type c20ImplB struct{ N int } // implements I0 only

func (c20ImplA) A() {}
func (c20ImplA) B() {}
func (c20ImplB) A() {}

type c20StA struct{ N int }
type c20StB struct{ N int }

// names used in the case language: cN concrete, iN interface, any
var c20TyNames = []string{"c0", "c1", "c2", "c3", "c4", "c5", "i0", "i1", "any"}
var c20Concrete = []string{"c0", "c1", "c2", "c3", "c4", "c5"}

var c20RTypes = map[string]reflect.Type{
	"c0":  reflect.TypeOf(""),
	"c1":  reflect.TypeOf(0),
	"c2":  reflect.TypeOf(c20S{}),
	"c3":  reflect.TypeOf(c20ImplA{}),
	"c4":  reflect.TypeOf(c20ImplB{}),
	"c5":  reflect.TypeOf(map[string]any{}),
	"i0":  reflect.TypeOf((*c20I0)(nil)).Elem(),
	"i1":  reflect.TypeOf((*c20I1)(nil)).Elem(),
	"any": reflect.TypeOf((*any)(nil)).Elem(),
}

func c20Val(ty string) any {
	switch ty {
	case "c0":
		return "s"
	case "c1":
		return 7
	case "c2":
		return c20S{X: 1}
	case "c3":
		return c20ImplA{N: 3}
	case "c4":
		return c20ImplB{N: 4}
	case "c5":
		return map[string]any{"k": "v"}
	}
	if f, ok := c20ExtVals[ty]; ok {
		return f()
	}
	return nil
}

// extension points filled by a property that widens the menu (C07: defined types over unnamed
// members of the universe, harness/props/c07_types.go); empty for C20
var c20ExtVals = map[string]func() any{}
var c20ExtConcrete []string

// c20Inhabits: a variable of type ty can hold a value whose dynamic type is the concrete type
// dyn (`v.(ty)` succeeds): the identical type, or an interface dyn implements.  (Not
// AssignableTo: assigning a defined type to its unnamed literal converts the value.)
func c20Inhabits(dyn, ty string) bool {
	t := c20RTypes[ty]
	if t.Kind() != reflect.Interface {
		return dyn == ty
	}
	return c20RTypes[dyn].Implements(t)
}

// c20Impl: the `implements` relation of the menu as Go's reflect sees it (pairs type,
// interface id) – sent to the oracle with every case, so the model's relation is Go's.
func c20Impl() [][2]any {
	var out [][2]any
	for _, t := range c20TyNames {
		for j, in := range []string{"i0", "i1"} {
			if t != in && c20RTypes[t].Implements(c20RTypes[in]) {
				out = append(out, [2]any{t, j})
			}
		}
	}
	return out
}

// ---- the case language (JSON shared with the oracle) ----

type c20Handler struct {
	S      int    `json:"s"`
	T      string `json:"t"`
	Stream bool   `json:"stream,omitempty"` // C07: WithStreamStatePre/PostHandler instead of the value form
}

type c20Op struct {
	Op string `json:"op"` // node | edge | branch | compile
	// node
	Key    string      `json:"key,omitempty"`
	PT     bool        `json:"pt,omitempty"`
	In     string      `json:"in,omitempty"`
	Out    string      `json:"out,omitempty"`
	Pre    *c20Handler `json:"pre,omitempty"`
	Post   *c20Handler `json:"post,omitempty"`
	KeyOpt bool        `json:"keyOpt,omitempty"`
	Dyn    string      `json:"dyn,omitempty"` // concrete type of the value the lambda returns
	// C07 only: the node is a graph (START -> lambda In->Out -> END) added with AddGraphNode;
	// WithInputKey("k") / WithOutputKey("k"): its declared input / output type is map[string]any
	Sub    bool   `json:"sub,omitempty"`
	InKey  bool   `json:"inKey,omitempty"`
	OutKey bool   `json:"outKey,omitempty"`
	IDyn   string `json:"idyn,omitempty"` // with OutKey: what the lambda itself returns (Dyn is then c5, the map)
	// edge / branch
	S      string   `json:"s,omitempty"`
	E      string   `json:"e,omitempty"`
	Mapped *int     `json:"mapped,omitempty"`
	NC     bool     `json:"nc,omitempty"`
	ND     bool     `json:"nd,omitempty"`
	T      string   `json:"t,omitempty"`
	Ends   []string `json:"ends"`
	Skip   bool     `json:"skip,omitempty"`
	Pick   string   `json:"pick,omitempty"` // end node the condition returns
	// compile
	Mode     string `json:"mode,omitempty"` // "" | any | all
	MaxSteps int    `json:"maxSteps,omitempty"`
	GetState bool   `json:"getState,omitempty"`
}

type c20Case struct {
	Stream string    `json:"stream"` // graph | chain | workflow (how the implementation side builds it)
	Cmp    string    `json:"cmp"`
	InT    string    `json:"inT"`
	OutT   string    `json:"outT"`
	State  *int      `json:"state"`
	Impl   [][2]any  `json:"impl"`
	Ops    []c20Op   `json:"ops"`
	Inject string    `json:"inject,omitempty"` // violation kind injected by the generator (informational)
	Runs   []string  `json:"runs,omitempty"`   // C07: dynamic types of the START values to run with
	SRuns  bool      `json:"streamRuns,omitempty"` // C07: every run also through Stream (output drained)
	Extra  *c20WfExt `json:"wf,omitempty"`
	// C20 (c20_keys.go): compile only, do not run the runnable; fact values the oracle is to use
	// instead of the expected ones (hand-made replays against a tree that has the other value)
	NoRun  bool          `json:"noRun,omitempty"`
	KFacts *c20KFactsOvr `json:"kfacts,omitempty"`
}

type c20KFactsOvr struct {
	HelperNilSafe         bool `json:"helperNilSafe"`
	CompileChecksOwnTypes bool `json:"compileChecksOwnTypes"`
}

// c20WfExt: how the workflow side is built (the lowered form is in Ops)
type c20WfExt struct {
	Nodes  []c20WfNode `json:"nodes"`
	EndIn  []c20WfIn   `json:"endIn"`
	Branch []c20Op     `json:"branches,omitempty"`
	Static string      `json:"static,omitempty"` // node key that gets a static value on field path Y.Z
	// calls after the first Compile
	Recompiles int `json:"recompiles"`
}

type c20WfNode struct {
	Key string    `json:"key"`
	PT  bool      `json:"pt,omitempty"`
	In  string    `json:"in,omitempty"`
	Out string    `json:"out,omitempty"`
	Dyn string    `json:"dyn,omitempty"`
	Ins []c20WfIn `json:"ins"`
	// C20 (c20_keys.go): the node is added with WithInputKey("k") / WithOutputKey("k")
	InKey  bool `json:"inKey,omitempty"`
	OutKey bool `json:"outKey,omitempty"`
}

type c20WfIn struct {
	From   string `json:"from"`
	Kind   string `json:"kind"` // input | dep | indirect
	Mapped bool   `json:"mapped,omitempty"`
	Fid    int    `json:"fid,omitempty"` // > 0: the input is MapFields("k", "k<Fid>") (map-typed nodes; c20_dup.go)
}

// ---- generic registries ----

type c20Builder interface {
	AddLambdaNode(key string, node *compose.Lambda, opts ...compose.GraphAddNodeOpt) error
	AddPassthroughNode(key string, opts ...compose.GraphAddNodeOpt) error
	AddBranch(startNode string, branch *compose.GraphBranch) error
	AddEdge(s, e string) error
}

type c20RunFn func(ctx context.Context, in any) (any, error)
type c20CompileFn func(ctx context.Context, opts ...compose.GraphCompileOption) (c20RunFn, error)

var c20Graphs = map[string]func(opts ...compose.NewGraphOption) (c20Builder, c20CompileFn){}
var c20Lambdas = map[string]func(dyn string) *compose.Lambda{}
var c20Branches = map[string]func(pick string, ends map[string]bool) *compose.GraphBranch{}
var c20Pres = map[string]func() compose.GraphAddNodeOpt{}
var c20Posts = map[string]func() compose.GraphAddNodeOpt{}

// stream forms of the state handlers and the Stream side of the last successful Compile:
// filled / read by C07 only (c07_keys.go)
var c20StreamPres = map[string]func() compose.GraphAddNodeOpt{}
var c20StreamPosts = map[string]func() compose.GraphAddNodeOpt{}
var c20LastStream c20RunFn

func c20RegPair[I, O any](i, o string) {
	c20Graphs[i+">"+o] = func(opts ...compose.NewGraphOption) (c20Builder, c20CompileFn) {
		g := compose.NewGraph[I, O](opts...)
		return g, func(ctx context.Context, copts ...compose.GraphCompileOption) (c20RunFn, error) {
			r, err := g.Compile(ctx, copts...)
			if err != nil {
				return nil, err
			}
			c20LastStream = func(ctx context.Context, in any) (any, error) {
				sr, err := r.Stream(ctx, in.(I))
				if err != nil {
					return nil, err
				}
				defer sr.Close()
				var last any
				for {
					v, e := sr.Recv()
					if e == io.EOF {
						return last, nil
					}
					if e != nil {
						return nil, e
					}
					last = v
				}
			}
			return func(ctx context.Context, in any) (any, error) { return r.Invoke(ctx, in.(I)) }, nil
		}
	}
	c20Lambdas[i+">"+o] = func(dyn string) *compose.Lambda {
		return compose.InvokableLambda(func(ctx context.Context, in I) (O, error) {
			return c20Val(dyn).(O), nil
		})
	}
}

func c20RegIn[I any](i string) {
	c20RegPair[I, string](i, "c0")
	c20RegPair[I, int](i, "c1")
	c20RegPair[I, c20S](i, "c2")
	c20RegPair[I, c20ImplA](i, "c3")
	c20RegPair[I, c20ImplB](i, "c4")
	c20RegPair[I, map[string]any](i, "c5")
	c20RegPair[I, c20I0](i, "i0")
	c20RegPair[I, c20I1](i, "i1")
	c20RegPair[I, any](i, "any")
	c20Branches[i] = func(pick string, ends map[string]bool) *compose.GraphBranch {
		return compose.NewGraphBranch(func(ctx context.Context, in I) (string, error) { return pick, nil }, ends)
	}
	c20RegHandler[I, *c20StA](i, 0)
	c20RegHandler[I, *c20StB](i, 1)
}

func c20RegHandler[T, S any](t string, s int) {
	k := fmt.Sprintf("%s/%d", t, s)
	c20Pres[k] = func() compose.GraphAddNodeOpt {
		return compose.WithStatePreHandler(func(ctx context.Context, in T, st S) (T, error) { return in, nil })
	}
	c20Posts[k] = func() compose.GraphAddNodeOpt {
		return compose.WithStatePostHandler(func(ctx context.Context, out T, st S) (T, error) { return out, nil })
	}
}

func init() {
	c20RegIn[string]("c0")
	c20RegIn[int]("c1")
	c20RegIn[c20S]("c2")
	c20RegIn[c20ImplA]("c3")
	c20RegIn[c20ImplB]("c4")
	c20RegIn[map[string]any]("c5")
	c20RegIn[c20I0]("i0")
	c20RegIn[c20I1]("i1")
	c20RegIn[any]("any")
}

func c20StateOpt(s *int) []compose.NewGraphOption {
	if s == nil {
		return nil
	}
	if *s == 0 {
		return []compose.NewGraphOption{compose.WithGenLocalState(func(ctx context.Context) *c20StA { return &c20StA{} })}
	}
	return []compose.NewGraphOption{compose.WithGenLocalState(func(ctx context.Context) *c20StB { return &c20StB{} })}
}

func c20NodeOpts(op *c20Op) []compose.GraphAddNodeOpt {
	var opts []compose.GraphAddNodeOpt
	if op.Pre != nil {
		k := fmt.Sprintf("%s/%d", op.Pre.T, op.Pre.S)
		if op.Pre.Stream {
			opts = append(opts, c20StreamPres[k]())
		} else {
			opts = append(opts, c20Pres[k]())
		}
	}
	if op.Post != nil {
		k := fmt.Sprintf("%s/%d", op.Post.T, op.Post.S)
		if op.Post.Stream {
			opts = append(opts, c20StreamPosts[k]())
		} else {
			opts = append(opts, c20Posts[k]())
		}
	}
	if op.KeyOpt {
		opts = append(opts, compose.WithNodeKey("custom_"+op.Key))
	}
	if op.InKey {
		opts = append(opts, compose.WithInputKey("k"))
	}
	if op.OutKey {
		opts = append(opts, compose.WithOutputKey("k"))
	}
	return opts
}

// c20SubGraph: the graph START -> l (lambda In -> Out returning a value of dynamic type dyn) -> END
func c20InnerDyn(op *c20Op) string {
	if op.IDyn != "" {
		return op.IDyn
	}
	return op.Dyn
}

func c20SubGraph(op *c20Op) compose.AnyGraph {
	g, _ := c20Graphs[op.In+">"+op.Out]()
	_ = g.AddLambdaNode("l", c20Lambdas[op.In+">"+op.Out](c20InnerDyn(op)))
	_ = g.AddEdge(compose.START, "l")
	_ = g.AddEdge("l", compose.END)
	return g.(compose.AnyGraph)
}

func c20CompileOpts(op *c20Op) []compose.GraphCompileOption {
	var opts []compose.GraphCompileOption
	switch op.Mode {
	case "any":
		opts = append(opts, compose.WithNodeTriggerMode(compose.AnyPredecessor))
	case "all":
		opts = append(opts, compose.WithNodeTriggerMode(compose.AllPredecessor))
	}
	if op.MaxSteps > 0 {
		opts = append(opts, compose.WithMaxRunSteps(op.MaxSteps))
	}
	// getStateEnabled has no public setter in this version of eino: the option check in
	// compile is modelled but cannot be driven from here.
	return opts
}

// ---- result classification ----

// c20Classifier turns returned errors into ok|fresh|stored|compiled using only identity and
// the exported sentinel.
type c20Classifier struct{ seen []error }

func (c *c20Classifier) class(err error, panicked bool) string {
	if panicked {
		return "panic"
	}
	if err == nil {
		return "ok"
	}
	if errors.Is(err, compose.ErrGraphCompiled) || errors.Is(err, compose.ErrChainCompiled) {
		return "compiled"
	}
	for _, e := range c.seen {
		if e == err { // the very same error value came back: it was kept by the builder
			return "stored"
		}
	}
	return "fresh"
}

// remember every error value returned so far (compared by identity only)
func (c *c20Classifier) remember(err error) {
	if err != nil && !errors.Is(err, compose.ErrGraphCompiled) && reflect.TypeOf(err).Comparable() {
		c.seen = append(c.seen, err)
	}
}

// c20RunClass: outcome of one Invoke: "ok:<dyn type of result>" | "err" | "err-panic" (an error
// that carries a recovered panic) | "panic" (escaped Invoke) | "hang"
func c20RunOnce(run c20RunFn, in any) (cls string, detail string) {
	var out any
	var err error
	finished := false
	panicked, pv := vh.Safely(func() {
		finished = vh.WithTimeout(20*time.Second, func() {
			out, err = run(context.Background(), in)
		})
	})
	switch {
	case panicked:
		return "panic", fmt.Sprint(pv)
	case !finished:
		return "hang", ""
	case err != nil:
		if c20HasPanicErr(err) {
			return "err-panic", err.Error()
		}
		if errors.Is(err, compose.ErrExceedMaxSteps) {
			return "steps", err.Error()
		}
		return "err", err.Error()
	}
	return "ok:" + c20DynName(out), ""
}

// c20HasPanicErr: some error in the Unwrap chain is the framework's recovered-panic type
// (internal/safe.panicErr), recognised by its Go type, not by its text.
func c20HasPanicErr(err error) bool {
	for e := err; e != nil; e = errors.Unwrap(e) {
		if t := reflect.TypeOf(e); t != nil && t.String() == "*safe.panicErr" {
			return true
		}
	}
	return false
}

func c20DynName(v any) string {
	if v == nil {
		return "nil"
	}
	t := reflect.TypeOf(v)
	for _, n := range c20Concrete {
		if c20RTypes[n] == t {
			return n
		}
	}
	for _, n := range c20ExtConcrete {
		if c20RTypes[n] == t {
			return n
		}
	}
	return t.String()
}

// ---- executor for the `graph` stream ----

type c20Obs struct {
	Out   []string `json:"out"`             // class of every call, in order
	R1    []string `json:"r1,omitempty"`    // first runnable: run right after its compile, and again at the end
	Runs  []string `json:"runs,omitempty"`  // C07: class of every run of the last runnable
	RunsS []string `json:"runsS,omitempty"` // C07: the same runs through Stream
	Notes []string `json:"notes,omitempty"` // panic values / messages (never compared)
}

// c20FirstInhabitant: a concrete menu type whose values can be passed where ty is expected
func c20FirstInhabitant(ty string) string {
	for _, c := range c20Concrete {
		if c20Inhabits(c, ty) {
			return c
		}
	}
	for _, c := range c20ExtConcrete {
		if c20Inhabits(c, ty) {
			return c
		}
	}
	return "c0"
}

func c20ExecGraph(c *c20Case) (obs c20Obs, last c20RunFn) {
	mk := c20Graphs[c.InT+">"+c.OutT]
	g, compile := mk(c20StateOpt(c.State)...)
	cl := &c20Classifier{}
	var first c20RunFn
	in := c20Val(c20FirstInhabitant(c.InT))
	for i := range c.Ops {
		op := &c.Ops[i]
		var err error
		isCompile := false
		panicked, pv := vh.Safely(func() {
			switch op.Op {
			case "node":
				if op.PT {
					err = g.AddPassthroughNode(op.Key, c20NodeOpts(op)...)
				} else if op.Sub {
					err = g.(interface {
						AddGraphNode(key string, node compose.AnyGraph, opts ...compose.GraphAddNodeOpt) error
					}).AddGraphNode(op.Key, c20SubGraph(op), c20NodeOpts(op)...)
				} else {
					err = g.AddLambdaNode(op.Key, c20Lambdas[op.In+">"+op.Out](c20InnerDyn(op)), c20NodeOpts(op)...)
				}
			case "edge":
				err = g.AddEdge(op.S, op.E)
			case "branch":
				ends := map[string]bool{}
				for _, e := range op.Ends {
					ends[e] = true
				}
				err = g.AddBranch(op.S, c20Branches[op.T](op.Pick, ends))
			case "compile":
				isCompile = true
				var r c20RunFn
				r, err = compile(context.Background(), c20CompileOpts(op)...)
				if err == nil {
					last = r
					if first == nil {
						first = r
						cls, d := c20RunOnce(first, in)
						obs.R1 = append(obs.R1, cls)
						if d != "" {
							obs.Notes = append(obs.Notes, "r1 first run: "+d)
						}
					}
				}
			}
		})
		obs.Out = append(obs.Out, cl.class(err, panicked))
		if panicked {
			obs.Notes = append(obs.Notes, fmt.Sprintf("call %d panicked: %v", i, pv))
		}
		_ = isCompile
		cl.remember(err)
	}
	if first != nil {
		cls, d := c20RunOnce(first, in)
		obs.R1 = append(obs.R1, cls)
		if d != "" {
			obs.Notes = append(obs.Notes, "r1 last run: "+d)
		}
	}
	return obs, last
}

func c20SortedCopy(s []string) []string {
	c := append([]string{}, s...)
	sort.Strings(c)
	return c
}
