//go:build verif && (vh_all || vh_c06)

package props

// registers the streams family (c05_empty.go: natively streaming producers — also of streams without
// chunks — and chunk readers around checkpoints, histories in the stream paradigms; the same
// generated cases and runs, judged by directC06 and the per-call comparison with the model) with the
// C06 check
func init() { c06Extra = append(c06Extra, runC05Streams) }
