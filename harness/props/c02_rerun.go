//go:build verif && (vh_all || vh_c02)

package props

// C02, rerun family: ONE compiled runnable (a Workflow, or an all-predecessor Graph) is called
// several times in sequence with inputs that drive different branch outcomes. The model is
// stateless across calls (Props/C02.lean runs_are_independent / dag_runs_are_independent: a
// session of calls is the list of independent runs), so the k-th call must show exactly what the
// model's run on the k-th input ALONE shows: executed nodes, the input each node body saw, the
// result. A node that receives something an earlier call left behind, runs although this call's
// branches discarded it, or does not run because an earlier call left it skipped, is reported
// with the index of the call.

import (
	"context"
	"encoding/json"
	"fmt"
	"runtime"
	"sort"
	"strings"
	"sync"
	"time"

	"github.com/cloudwego/eino/compose"
	"github.com/cloudwego/eino/verifharness/gcase"
	"github.com/cloudwego/eino/verifharness/vh"
)

func init() {
	c02Extra = append(c02Extra, runC02Rerun)
	c02ReplayExtra["rerun"] = c02rrReplay
}

type c02rrCase struct {
	Kind   string          `json:"kind"` // rerun
	W      *gcase.Workflow `json:"w,omitempty"`
	G      *gcase.Graph    `json:"g,omitempty"`
	Scheds []string        `json:"scheds,omitempty"`
	Inputs []string        `json:"inputs"`           // the pool of inputs the oracle answers for
	Seq    []int           `json:"seq"`              // the calls, in order: indices into Inputs
	Yields map[string]int  `json:"yields,omitempty"` // scheduler yields in node bodies (workflows)
}

type c02rrModel struct {
	Runs    []json.RawMessage `json:"runs"`
	Session []gcase.ResultJ   `json:"session"`
}

// ---- recording: per call, through the context ----

type c02rrRec struct {
	mu     sync.Mutex
	execs  []gcase.TaskJ // K = node path
	closed bool
}

type c02rrKey struct{}

func c02rrRecord(ctx context.Context, path string, in gcase.M) {
	if r, _ := ctx.Value(c02rrKey{}).(*c02rrRec); r != nil {
		r.mu.Lock()
		if !r.closed {
			r.execs = append(r.execs, gcase.TaskJ{K: path, In: gcase.Render(in)})
		}
		r.mu.Unlock()
	}
}

func (r *c02rrRec) snapshot() []gcase.TaskJ {
	r.mu.Lock()
	defer r.mu.Unlock()
	r.closed = true
	out := append([]gcase.TaskJ{}, r.execs...)
	sort.Slice(out, func(i, j int) bool {
		if out[i].K != out[j].K {
			return out[i].K < out[j].K
		}
		return out[i].In < out[j].In
	})
	return out
}

// one call of a compiled runnable; nil outcome with a class on hang / escaped panic
type c02rrCall struct {
	Result gcase.ResultJ            `json:"result"`
	Execs  []gcase.TaskJ            `json:"execs"`
	Steps  []compose.VerifStepEvent `json:"-"`
}

func c02rrInvoke(r compose.Runnable[gcase.M, gcase.M], input string) (*c02rrCall, string) {
	rec := &c02rrRec{}
	steps := &compose.VerifRecorder{}
	ctx := compose.VerifWithRecorder(context.WithValue(context.Background(), c02rrKey{}, rec), steps)
	var res gcase.M
	var runErr error
	finished := false
	panicked, pv := vh.Safely(func() {
		finished = vh.WithTimeout(20*time.Second, func() { res, runErr = r.Invoke(ctx, gcase.M{"in": input}) })
	})
	execs := rec.snapshot()
	if panicked {
		return nil, fmt.Sprint("panic-escaped: ", pv)
	}
	if !finished {
		return nil, "hang"
	}
	out := &c02rrCall{Execs: execs, Steps: steps.Snapshot()}
	if runErr != nil {
		out.Result = c02wfNormRes(gcase.Classify(runErr))
	} else {
		s := gcase.Render(res)
		out.Result = c02wfNormRes(gcase.ResultJ{Ok: &s})
	}
	return out, "ran"
}

// what differs between the executions of one call and the model's: a node the model does not
// execute, a node the model executes and the call did not, or a node body that saw another input
func c02rrExecDiff(impl, model []gcase.TaskJ) (obs, what string) {
	mi, mm := map[string][]string{}, map[string][]string{}
	for _, t := range impl {
		mi[t.K] = append(mi[t.K], t.In)
	}
	for _, t := range model {
		mm[t.K] = append(mm[t.K], t.In)
	}
	var keys []string
	for k := range mi {
		keys = append(keys, k)
	}
	for k := range mm {
		if _, ok := mi[k]; !ok {
			keys = append(keys, k)
		}
	}
	sort.Strings(keys)
	for _, k := range keys {
		if len(mi[k]) > 1 {
			return "ran-twice", "node " + k + " executed twice in one call"
		}
	}
	for _, k := range keys {
		if len(mm[k]) == 0 {
			return "extra-exec", "node " + k + " executed although the model's run on this call's input alone does not execute it"
		}
	}
	for _, k := range keys {
		if len(mi[k]) == 0 {
			return "missing-exec", "node " + k + " did not execute although the model's run on this call's input alone executes it"
		}
	}
	for _, k := range keys {
		if !vh.CanonEq(mi[k], mm[k]) {
			return "input", "the body of node " + k + " saw the input " + strings.Join(mi[k], "|") + ", the model's run on this call's input alone gives it " + strings.Join(mm[k], "|") + " (something that is not the output of a data predecessor that ran in this call)"
		}
	}
	return "", ""
}

func c02rrDisagree(ctx *vh.Ctx, c *c02rrCase, fam, obs string, call int, what string, model, impl any) {
	ctx.Res.Disagree(vh.Disagreement{Signature: fmt.Sprintf("C02:rerun:%s:%s:run=%d", fam, obs, call+1),
		What: fmt.Sprintf("call %d of %d on one compiled runnable: %s", call+1, len(c.Seq), what), Case: c, Model: model, Impl: impl})
}

// ---- workflows ----

func c02rrBuildWorkflow(w *gcase.Workflow, yields map[string]int) (*compose.Workflow[gcase.M, gcase.M], error) {
	wf := compose.NewWorkflow[gcase.M, gcase.M]()
	dataPreds := map[string]int{}
	for _, d := range w.Deps {
		if d.Kind == "in" || d.Kind == "data" {
			dataPreds[d.To]++
		}
	}
	nodeOf := map[string]*gcase.WNode{}
	handles := map[string]*compose.WorkflowNode{}
	for i := range w.Nodes {
		n := w.Nodes[i]
		nodeOf[n.Key] = &w.Nodes[i]
		f := func(ctx context.Context, in gcase.M) (gcase.M, error) {
			c02rrRecord(ctx, n.Key, in)
			for i := 0; i < yields[n.Key]; i++ {
				runtime.Gosched()
			}
			if n.Body.Op == "fail" {
				return nil, &gcase.UserErr{ID: n.Body.ID}
			}
			return gcase.TagBody(n.Key, in), nil
		}
		h := wf.AddLambdaNode(n.Key, compose.InvokableLambda(f))
		if n.Static != "" {
			h.SetStaticValue(compose.FieldPath{"s_" + n.Key}, n.Static)
		}
		handles[n.Key] = h
	}
	handles["end"] = wf.End()
	outKey := func(from string) string {
		if from == "start" {
			return "in"
		}
		return from
	}
	for _, d := range w.Deps {
		h, ok := handles[d.To]
		if !ok {
			return nil, fmt.Errorf("dependency to unknown node %s", d.To)
		}
		from := d.From
		if from == "start" {
			from = compose.START
		}
		whole := false
		if d.To == "end" {
			whole = w.EndWhole && dataPreds["end"] == 1
		} else if n := nodeOf[d.To]; n != nil {
			whole = n.Whole && dataPreds[d.To] == 1 && n.Static == ""
		}
		var maps []*compose.FieldMapping
		if !whole {
			maps = []*compose.FieldMapping{compose.MapFields(outKey(d.From), outKey(d.From))}
		}
		switch d.Kind {
		case "in":
			h.AddInput(from, maps...)
		case "dep":
			h.AddDependency(from)
		case "data":
			h.AddInputWithOptions(from, maps, compose.WithNoDirectDependency())
		default:
			return nil, fmt.Errorf("bad dependency kind %s", d.Kind)
		}
	}
	for i := range w.Branches {
		b := w.Branches[i]
		ends := map[string]bool{}
		for _, e := range b.Ends {
			ends[e] = true
		}
		from := b.From
		if from == "start" {
			from = compose.START
		}
		var br *compose.GraphBranch
		if b.Multi {
			br = compose.NewGraphMultiBranch(func(ctx context.Context, in gcase.M) (map[string]bool, error) {
				if b.Fail != nil {
					return nil, &gcase.BranchErr{ID: *b.Fail}
				}
				out := map[string]bool{}
				for _, t := range gcase.Pick(b.Table, in) {
					out[t] = true
				}
				return out, nil
			}, ends)
		} else {
			br = compose.NewGraphBranch(func(ctx context.Context, in gcase.M) (string, error) {
				if b.Fail != nil {
					return "", &gcase.BranchErr{ID: *b.Fail}
				}
				row := gcase.Pick(b.Table, in)
				if len(row) != 1 {
					return "", fmt.Errorf("harness: single branch row must have one target")
				}
				return row[0], nil
			}, ends)
		}
		wf.AddBranch(from, br)
	}
	return wf, nil
}

// the executed (node, input) sets of the model's run on every pooled input (first successful
// schedule; nil when the run fails under the probed schedules)
func c02rrWfExecs(m *c02wfModel) []gcase.TaskJ {
	for i := range m.Runs {
		if m.Runs[i].Result.Err == nil {
			return c02wfSubmitted(&m.Runs[i])
		}
	}
	return nil
}

// c02rrChooseSeq orders the calls so that consecutive calls differ in BOTH directions where the
// pool allows it (some node runs in the earlier call only, some node in the later call only):
// the outcome vectors come from the model, the choice among equally good orders from the rng.
func c02rrChooseSeq(r *vh.Rand, sets []map[string]bool, n int) []int {
	score := func(a, b int) int {
		onlyA, onlyB := 0, 0
		for k := range sets[a] {
			if !sets[b][k] {
				onlyA++
			}
		}
		for k := range sets[b] {
			if !sets[a][k] {
				onlyB++
			}
		}
		s := 0
		if onlyA > 0 {
			s += 2
		}
		if onlyB > 0 {
			s += 2
		}
		if onlyA > 0 && onlyB > 0 {
			s += 2
		}
		return s
	}
	seq := []int{r.Intn(len(sets))}
	for len(seq) < n {
		last := seq[len(seq)-1]
		best, bestS := -1, -1
		for _, j := range r.Perm(len(sets)) {
			if s := score(last, j); s > bestS {
				best, bestS = j, s
			}
		}
		seq = append(seq, best)
	}
	return seq
}

func c02rrKeySet(ts []gcase.TaskJ) map[string]bool {
	m := map[string]bool{}
	for _, t := range ts {
		m[t.K] = true
	}
	return m
}

func c02rrAsk(ctx *vh.Ctx, c *c02rrCase) (*c02rrModel, error) {
	q := *c
	q.Seq = nil
	q.Yields = nil
	raw, err := ctx.Oracle.Ask("C02", &q)
	if err != nil {
		return nil, err
	}
	var m c02rrModel
	if err := json.Unmarshal(raw, &m); err != nil {
		return nil, err
	}
	if len(m.Runs) != len(c.Inputs) || len(m.Session) != len(c.Inputs) {
		return nil, fmt.Errorf("c02 rerun: oracle answered %d runs / %d session results for %d inputs", len(m.Runs), len(m.Session), len(c.Inputs))
	}
	return &m, nil
}

// workflow case; chooses c.Seq when it is empty
func c02rrWorkflowOne(ctx *vh.Ctx, c *c02rrCase, calls int) error {
	m, err := c02rrAsk(ctx, c)
	if err != nil {
		return err
	}
	models := make([]*c02wfModel, len(m.Runs))
	sets := make([]map[string]bool, len(m.Runs))
	for i, raw := range m.Runs {
		models[i] = &c02wfModel{}
		if err := json.Unmarshal(raw, models[i]); err != nil {
			return err
		}
		if len(models[i].Runs) == 0 {
			return fmt.Errorf("c02 rerun: oracle returned no runs")
		}
		sets[i] = c02rrKeySet(c02wfSubmitted(&models[i].Runs[0]))
		// the session model (channels threaded from call to call, expected fact) against the
		// independent run: runs_are_independent, evaluated
		if !vh.CanonEq(c02wfNormRes(m.Session[i]), c02wfNormRes(models[i].Runs[0].Result)) {
			c02rrDisagree(ctx, c, "wf", "model-session", i, "the session model's result differs from the model's independent run (schedule "+models[i].Runs[0].Sched+")", m.Session, models[i].Runs[0])
			return nil
		}
	}
	if len(c.Seq) == 0 {
		c.Seq = c02rrChooseSeq(ctx.Rng, sets, calls)
	}
	distinct := map[string]bool{}
	for _, i := range c.Seq {
		ks := []string{}
		for k := range sets[i] {
			ks = append(ks, k)
		}
		sort.Strings(ks)
		distinct[strings.Join(ks, ",")] = true
	}
	ctx.Res.Dist(fmt.Sprintf("rerun-wf-calls=%d", len(c.Seq)))
	ctx.Res.Dist(fmt.Sprintf("rerun-wf-distinct-executed-sets=%d", len(distinct)))
	ctx.Res.Count("rerun:"+vh.Canon(c), len(distinct) > 1)
	ctx.Res.Sample(c)
	ctx.Progress.Mark(c)
	var wf *compose.Workflow[gcase.M, gcase.M]
	var run compose.Runnable[gcase.M, gcase.M]
	var berr error
	if panicked, pv := vh.Safely(func() {
		wf, berr = c02rrBuildWorkflow(c.W, c.Yields)
		if berr == nil {
			run, berr = wf.Compile(context.Background())
		}
	}); panicked {
		ctx.Res.Disagree(vh.Disagreement{Signature: "C02:rerun:wf:compile-panic", What: fmt.Sprint("building / compiling the workflow panicked: ", pv), Case: c})
		return nil
	}
	if berr != nil {
		ctx.Res.Dist("rerun-wf-class=compile-error")
		return nil
	}
	for k, idx := range c.Seq {
		if idx < 0 || idx >= len(c.Inputs) {
			return fmt.Errorf("c02 rerun: bad seq index %d", idx)
		}
		model := models[idx]
		impl, class := c02rrInvoke(run, c.Inputs[idx])
		if impl == nil {
			c02rrDisagree(ctx, c, "wf", strings.SplitN(class, ":", 2)[0], k, "the call "+class, nil, nil)
			return nil
		}
		ctx.Res.Dist("rerun-wf-result=" + c02wfResClass(impl.Result))
		okRes := false
		for _, a := range model.Alts {
			if vh.CanonEq(impl.Result, c02wfNormRes(a)) {
				okRes = true
			}
		}
		mexecs := c02rrWfExecs(model)
		if impl.Result.Err == nil && mexecs != nil {
			if obs, what := c02rrExecDiff(impl.Execs, mexecs); obs != "" {
				c02rrDisagree(ctx, c, "wf", obs, k, what, model.Runs[0], impl)
				return nil
			}
		} else if obs, what := c02rrExecDiff(impl.Execs, impl.Execs); obs != "" { // at most once, directly
			c02rrDisagree(ctx, c, "wf", obs, k, what, nil, impl)
			return nil
		} else if impl.Result.Err != nil && model.AltsComplete && !c02wfSubset(impl.Execs, model.Possible) {
			c02rrDisagree(ctx, c, "wf", "extra-exec", k, "a node executed (or saw an input) that no completion schedule of the model's run on this call's input alone executes (failing call)", model.Possible, impl)
			return nil
		}
		if !okRes {
			if impl.Result.Err != nil && !model.AltsComplete {
				ctx.Res.Dist("rerun-wf-failing-call-unverified")
				continue
			}
			c02rrDisagree(ctx, c, "wf", "result", k, "the result is none of the results of the model's run on this call's input alone", model.Alts, impl)
			return nil
		}
	}
	return nil
}

// ---- all-predecessor graphs ----

func c02rrGraphTrace(g *gcase.Graph, call *c02rrCall) [][]gcase.TaskJ {
	ins := map[string][]string{}
	for _, e := range call.Execs {
		ins[e.K] = append(ins[e.K], e.In)
	}
	cur := map[string]int{}
	out := [][]gcase.TaskJ{}
	for _, ev := range call.Steps {
		if ev.Step < 0 || len(ev.Path) > 0 {
			continue
		}
		keys := append([]string{}, ev.Keys...)
		sort.Strings(keys)
		step := []gcase.TaskJ{}
		for _, k := range keys {
			t := gcase.TaskJ{K: k, In: "?"}
			for j := range g.Nodes {
				if g.Nodes[j].Key == k && (g.Nodes[j].Body.Op == "tag" || g.Nodes[j].Body.Op == "fail") {
					if cur[k] < len(ins[k]) {
						t.In = ins[k][cur[k]]
						cur[k]++
					} else {
						t.In = "<not-executed>"
					}
				}
			}
			step = append(step, t)
		}
		out = append(out, step)
	}
	return out
}

func c02rrGraphOne(ctx *vh.Ctx, c *c02rrCase, calls int) error {
	bo := &gcase.BuildOpts{Wrap: func(path string, f func(ctx context.Context, in gcase.M) (gcase.M, error)) func(ctx context.Context, in gcase.M) (gcase.M, error) {
		return func(ctx context.Context, in gcase.M) (gcase.M, error) {
			c02rrRecord(ctx, path, in)
			return f(ctx, in)
		}
	}}
	var run compose.Runnable[gcase.M, gcase.M]
	var berr error
	if panicked, _ := vh.Safely(func() {
		cg, err := gcase.Build(c.G, "", bo)
		if err != nil {
			berr = err
			return
		}
		run, berr = cg.Compile(context.Background(), gcase.CompileOpts(c.G)...)
	}); panicked || berr != nil {
		ctx.Res.Dist("rerun-dag-class=not-compiled") // the single-run family classifies these
		return nil
	}
	m, err := c02rrAsk(ctx, c)
	if err != nil {
		return err
	}
	models := make([]*gcase.OutcomeJ, len(m.Runs))
	sets := make([]map[string]bool, len(m.Runs))
	for i, raw := range m.Runs {
		models[i] = &gcase.OutcomeJ{}
		if err := json.Unmarshal(raw, models[i]); err != nil {
			return err
		}
		gcase.NormalizeModel(c.G, models[i])
		sets[i] = map[string]bool{}
		for _, st := range models[i].Trace {
			for _, t := range st {
				sets[i][t.K] = true
			}
		}
		ses := &gcase.OutcomeJ{Result: m.Session[i]}
		if ses.Result.Path == nil && ses.Result.Err != nil {
			ses.Result.Path = []string{}
		}
		if !vh.CanonEq(ses.Result, models[i].Result) {
			c02rrDisagree(ctx, c, "dag", "model-session", i, "the session model's result differs from the model's independent run", m.Session, models[i])
			return nil
		}
	}
	if len(c.Seq) == 0 {
		c.Seq = c02rrChooseSeq(ctx.Rng, sets, calls)
	}
	distinct := map[string]bool{}
	for _, i := range c.Seq {
		ks := []string{}
		for k := range sets[i] {
			ks = append(ks, k)
		}
		sort.Strings(ks)
		distinct[strings.Join(ks, ",")] = true
	}
	ctx.Res.Dist(fmt.Sprintf("rerun-dag-calls=%d", len(c.Seq)))
	ctx.Res.Dist(fmt.Sprintf("rerun-dag-distinct-executed-sets=%d", len(distinct)))
	ctx.Res.Count("rerun:"+vh.Canon(c), len(distinct) > 1)
	ctx.Res.Sample(c)
	ctx.Progress.Mark(c)
	for k, idx := range c.Seq {
		if idx < 0 || idx >= len(c.Inputs) {
			return fmt.Errorf("c02 rerun: bad seq index %d", idx)
		}
		model := *models[idx]
		call, class := c02rrInvoke(run, c.Inputs[idx])
		if call == nil {
			c02rrDisagree(ctx, c, "dag", strings.SplitN(class, ":", 2)[0], k, "the call "+class, nil, nil)
			return nil
		}
		impl := &gcase.OutcomeJ{Result: call.Result, Trace: c02rrGraphTrace(c.G, call)}
		if impl.Result.Err == nil {
			impl.Result.Path = nil
		}
		resEq := gcase.ResultMatches(&model, impl)
		model.Alts = nil
		if !vh.CanonEq(impl.Trace, model.Trace) {
			var it, mt []gcase.TaskJ
			for _, st := range impl.Trace {
				it = append(it, st...)
			}
			for _, st := range model.Trace {
				mt = append(mt, st...)
			}
			obs, what := c02rrExecDiff(it, mt)
			if obs == "" {
				obs, what = "trace", "the same nodes run on the same inputs, but in other steps than in the model's run on this call's input alone"
			}
			if resEq || impl.Result.Err == nil {
				c02rrDisagree(ctx, c, "dag", obs, k, what, model, impl)
				return nil
			}
		}
		if !resEq {
			c02rrDisagree(ctx, c, "dag", "result", k, "the result differs from the model's run on this call's input alone", model, impl)
			return nil
		}
	}
	return nil
}

func c02rrReplay(ctx *vh.Ctx, raw json.RawMessage) error {
	var c c02rrCase
	if err := json.Unmarshal(raw, &c); err != nil {
		return err
	}
	if c.W != nil {
		if len(c.Scheds) == 0 {
			c.Scheds = []string{"first", "last"}
		}
		return c02rrWorkflowOne(ctx, &c, len(c.Seq))
	}
	if c.G == nil {
		return fmt.Errorf("c02 rerun replay: neither w nor g")
	}
	return c02rrGraphOne(ctx, &c, len(c.Seq))
}

func c02rrInputs(r *vh.Rand, n int) []string {
	out := []string{}
	for _, i := range r.Perm(8)[:n] {
		out = append(out, fmt.Sprintf("x%d", i))
	}
	return out
}

func runC02Rerun(ctx *vh.Ctx) error {
	ctx.Res.Rule += " | reruns (kind=rerun): one compiled Workflow / all-predecessor Graph called 3 times (thorough 4) in sequence, the inputs taken from a pool of 5 so that consecutive calls differ in both directions in which nodes run (by the model's outcome vectors); every call compared with the model's run on that call's input alone; non-trivial = the calls execute >=2 distinct node sets"
	start := time.Now()
	calls := ctx.N(3, 4)
	// workflows
	limit := time.Duration(ctx.N(7, 60)) * time.Second
	n := ctx.N(1500, 20000)
	for i := 0; i < n && time.Since(start) < limit && ctx.TimeLeft(); i++ {
		o := gcase.WGenOpts{MaxNodes: 7, FailPct: 2, BranchPct: 45}
		if ctx.Thorough() {
			o.MaxNodes = 10
		}
		w := gcase.GenWorkflow(ctx.Rng, o)
		_, _, _, _, branches, _ := gcase.WShape(w)
		if branches == 0 {
			continue // every call executes the same nodes
		}
		c := &c02rrCase{Kind: "rerun", W: w, Scheds: []string{"first", "last"}, Inputs: c02rrInputs(ctx.Rng, 5), Yields: c02wfYields(ctx.Rng, w)}
		if err := c02rrWorkflowOne(ctx, c, calls); err != nil {
			return err
		}
	}
	ctx.Res.Extra["rerun_workflow_seconds"] = time.Since(start).Seconds()
	// all-predecessor graphs
	start2 := time.Now()
	limit2 := time.Duration(ctx.N(3, 30)) * time.Second
	n = ctx.N(600, 10000)
	for i := 0; i < n && time.Since(start2) < limit2 && ctx.TimeLeft(); i++ {
		o := gcase.GenOpts{Mode: "dag", MaxNodes: 7, Depth: 0, FailPct: 2, BranchPct: 45}
		if ctx.Thorough() {
			o.MaxNodes = 10
		}
		g := gcase.Gen(ctx.Rng, o)
		if _, _, branches, _, _, _ := gcase.Shape(g); branches == 0 {
			continue
		}
		c := &c02rrCase{Kind: "rerun", G: g, Inputs: c02rrInputs(ctx.Rng, 5)}
		if err := c02rrGraphOne(ctx, c, calls); err != nil {
			return err
		}
	}
	ctx.Res.Extra["rerun_graph_seconds"] = time.Since(start2).Seconds()
	return nil
}
