//go:build verif && (vh_all || vh_c07)

package props

// C07 over the extended universe (c07_types.go):
//
//   * c07CheckUniverse – the Lean description of the universe (named?, Go assignability, which
//     type assertions succeed) compared with reflect and with real assertions, one oracle query;
//   * c07PairCases – the complete decision table through the public API: for every ordered pair
//     (A, B) of the 17 types, seven minimal graphs whose only questionable connection is A -> B
//     (data edge into a node, START -> END, branch condition, through a pass-through node typed
//     from either side, branch on a pass-through node typed from either side), compiled and run
//     with a START value of every dynamic type inhabiting A;
//   * c07GenNamed – the pass-through heavy random generator over a family (an unnamed literal
//     and the defined types over it) plus a few other types.

import (
	"encoding/json"
	"fmt"
	"strings"

	"github.com/cloudwego/eino/verifharness/vh"
)

func c07IsIface(t string) bool { return t == "any" || t == "i0" || t == "i1" }

// c07DynFor: a concrete type of the extended universe whose values inhabit `out`
func c07DynFor(r *vh.Rand, out string) string {
	var cands []string
	for _, c := range c07AllConcrete {
		if c20Inhabits(c, out) {
			cands = append(cands, c)
		}
	}
	return c20Pick(r, cands)
}

// c07PairClass: how the two declared types of a connection relate (Go's view)
func c07PairClass(a, b string) string {
	switch {
	case a == b:
		return "same"
	case c07IsIface(a):
		return "iface-upstream"
	case c07IsIface(b):
		return "iface-downstream"
	case c20RTypes[a].AssignableTo(c20RTypes[b]):
		return "go-assignable-only" // named vs unnamed with identical underlying type, chan -> <-chan
	}
	return "distinct-concrete"
}

// pair cases carry "pair:<shape>:<A>><B>" in Inject
func c07PairOf(c *c20Case) (a, b string, ok bool) {
	if !strings.HasPrefix(c.Inject, "pair:") {
		return "", "", false
	}
	parts := strings.Split(c.Inject, ":")
	if len(parts) != 3 {
		return "", "", false
	}
	ab := strings.Split(parts[2], ">")
	if len(ab) != 2 {
		return "", "", false
	}
	return ab[0], ab[1], true
}

func c07ConnSuffix(c *c20Case) string {
	if a, b, ok := c07PairOf(c); ok {
		return ":conn=" + c07PairClass(a, b)
	}
	return ""
}

func c07ConnText(c *c20Case) string {
	if a, b, ok := c07PairOf(c); ok {
		return fmt.Sprintf(" [the only questionable connection of this graph is %s (%s) -> %s (%s): %s]", a, c20RTypes[a], b, c20RTypes[b], c07PairClass(a, b))
	}
	return ""
}

var c07PairShapes = []string{"edge", "direct", "branch", "pt-fwd", "pt-bwd", "pt-branch-fwd", "pt-branch-bwd", "pt-start-2nd"}

func c07PairCase(shape, a, b string) *c20Case {
	lam := func(k, t string) c20Op {
		return c20Op{Op: "node", Key: k, In: t, Out: t, Dyn: c20FirstInhabitant(t)}
	}
	edge := func(s, e string) c20Op { return c20Op{Op: "edge", S: s, E: e} }
	pt := func(k string) c20Op { return c20Op{Op: "node", Key: k, PT: true} }
	c := &c20Case{Stream: "graph", Cmp: "graph", Impl: c07Impl(), InT: a, OutT: b, Inject: "pair:" + shape + ":" + a + ">" + b}
	switch shape {
	case "edge": // START(A) -> b(B->B) -> END(B)
		c.Ops = []c20Op{lam("b", b), edge("start", "b"), edge("b", "end")}
	case "direct": // START(A) -> END(B)
		c.Ops = []c20Op{edge("start", "end")}
	case "branch": // a branch with a B condition on START(A); everything else is A
		c.OutT = a
		c.Ops = []c20Op{lam("x", a), lam("y", a),
			{Op: "branch", S: "start", T: b, Ends: []string{"x", "y"}, Pick: "x"},
			edge("x", "end"), edge("y", "end")}
	case "pt-fwd": // p typed A from START, then p -> b(B)
		c.Ops = []c20Op{pt("p"), lam("b", b), edge("start", "p"), edge("p", "b"), edge("b", "end")}
	case "pt-bwd": // p typed B from b, then START(A) -> p
		c.Ops = []c20Op{pt("p"), lam("b", b), edge("p", "b"), edge("b", "end"), edge("start", "p")}
	case "pt-branch-fwd": // p typed A from START, then a B branch on p
		c.Ops = []c20Op{pt("p"), lam("x", b), lam("y", b), edge("start", "p"),
			{Op: "branch", S: "p", T: b, Ends: []string{"x", "y"}, Pick: "x"},
			edge("x", "end"), edge("y", "end")}
	case "pt-branch-bwd": // p typed B by the branch, then START(A) -> p
		c.Ops = []c20Op{pt("p"), lam("x", b), lam("y", b),
			{Op: "branch", S: "p", T: b, Ends: []string{"x", "y"}, Pick: "x"},
			edge("x", "end"), edge("y", "end"), edge("start", "p")}
	case "pt-start-2nd":
		// graph[A -> B]: p typed A from START, and a second predecessor x(A -> any) of p: the edge
		// x -> p is checked at run time against p's type (A, not the graph's output type B)
		x := c20Op{Op: "node", Key: "x", In: a, Out: "any", Dyn: c20FirstInhabitant(a)}
		y := c20Op{Op: "node", Key: "y", In: a, Out: b, Dyn: c20FirstInhabitant(b)}
		c.Ops = []c20Op{pt("p"), x, y, edge("start", "p"), edge("start", "x"), edge("x", "p"), edge("p", "y"), edge("y", "end")}
	}
	c.Ops = append(c.Ops, c20Op{Op: "compile"})
	return c
}

// c07PairCases: every ordered pair of the extended universe in every shape
func c07PairCases() []*c20Case {
	var out []*c20Case
	for _, a := range c07AllNames {
		for _, b := range c07AllNames {
			for _, sh := range c07PairShapes {
				out = append(out, c07PairCase(sh, a, b))
			}
		}
	}
	return out
}

// c07GenNamed: pass-through heavy graphs over one family (unnamed literal + defined types over
// it), usually with `any` and/or one or two unrelated types mixed in
func c07GenNamed(r *vh.Rand) *c20Case {
	fam := c07Families[r.Intn(len(c07Families))]
	few := append([]string{}, fam...)
	if r.Chance(50) {
		few = append(few, "any")
	}
	for k := r.Intn(3); k > 0; k-- {
		t := c20Pick(r, c07AllNames)
		dup := false
		for _, f := range few {
			dup = dup || f == t
		}
		if !dup {
			few = append(few, t)
		}
	}
	return c07GenPTOver(r, few, "pt-named")
}

// ---- the universe itself ----

type c07UniverseQ struct {
	Kind  string   `json:"kind"`
	Names []string `json:"names"`
	Impl  [][2]any `json:"impl"`
	// what Go says (informational; the comparison recomputes it)
	Desc []c07TypeDesc `json:"desc,omitempty"`
}

type c07UniverseA struct {
	Check []string `json:"check"`
	Go    []string `json:"go"`
	Dyn   []string `json:"dyn"`
	Named []string `json:"named"`
}

func c07IsUniverseReplay(raw json.RawMessage) bool {
	var p struct {
		Kind string `json:"kind"`
	}
	return json.Unmarshal(raw, &p) == nil && p.Kind == "universe"
}

func c07YN(b bool) string {
	if b {
		return "y"
	}
	return "n"
}

// c07CheckUniverse: the model's description of the menu types against Go itself
func c07CheckUniverse(ctx *vh.Ctx) error {
	q := &c07UniverseQ{Kind: "universe", Names: c07AllNames, Impl: c07Impl()}
	for _, n := range c07AllNames {
		q.Desc = append(q.Desc, c07Describe(n))
	}
	ctx.Progress.Mark(q)
	raw, err := ctx.Oracle.Ask("C07", q)
	if err != nil {
		return err
	}
	var a c07UniverseA
	if err := json.Unmarshal(raw, &a); err != nil {
		return err
	}
	n := len(c07AllNames)
	ctx.Res.Count("universe", true)
	ctx.Res.Dist("gen=universe-table")
	if len(a.Go) != n*n || len(a.Dyn) != n*n || len(a.Check) != n*n || len(a.Named) != n {
		ctx.Res.Disagree(vh.Disagreement{Signature: "C07:harness:universe-length", What: "the oracle's universe tables have the wrong size", Case: q, Model: a})
		return nil
	}
	report := func(sig, what string) {
		ctx.Res.Disagree(vh.Disagreement{Signature: sig, What: what, Case: q, Model: a})
	}
	for i, x := range c07AllNames {
		if !c07IsIface(x) {
			if want := c07YN(c20RTypes[x].Name() != ""); a.Named[i] != want {
				report("C07:universe:named:"+x, fmt.Sprintf("type %s (%s): the model's description says named=%s, reflect says %s", x, c20RTypes[x], a.Named[i], want))
			}
		}
		for j, y := range c07AllNames {
			k := i*n + j
			goSays := c20RTypes[x].AssignableTo(c20RTypes[y])
			if a.Go[k] != c07YN(goSays) {
				report("C07:universe:go-assignable:"+x+">"+y, fmt.Sprintf("%s (%s) -> %s (%s): the model's goAssignable says %s, reflect.AssignableTo says %v", x, c20RTypes[x], y, c20RTypes[y], a.Go[k], goSays))
			}
			if !c07IsIface(x) {
				asserts := c07Asserts(x, y)
				if a.Dyn[k] != c07YN(asserts) {
					report("C07:universe:assertion:"+x+">"+y, fmt.Sprintf("a value of type %s asserted to %s: the model's dynOk says %s, Go's v.(T) says %v", c20RTypes[x], c20RTypes[y], a.Dyn[k], asserts))
				}
				// the two facts the property rests on, observed on Go itself
				if a.Check[k] == "must" && !asserts {
					report("C07:universe:must-but-assertion-fails:"+x+">"+y, fmt.Sprintf("%s -> %s: the model's checkAssignable answers must, but Go's assertion of a %s value to %s fails", x, y, c20RTypes[x], c20RTypes[y]))
				}
			}
			if goSays && !c07IsIface(x) && !c07IsIface(y) && x != y {
				ctx.Res.Dist("universe:go-assignable-only=" + x + ">" + y)
			}
		}
	}
	return nil
}
