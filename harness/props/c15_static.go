//go:build verif && (vh_all || vh_c15)

package props

// C15, family "static": Workflow nodes with field mappings AND static values
// (WorkflowNode.SetStaticValue), called through all four paradigms (Invoke, Stream, Collect,
// Transform) of the same compiled workflow.
//
// Such a node has TWO pre-node handlers: [merge static values, inputFieldMappingConverter].
// preNodeHandlerManager.handle applies the list in a value twin and a stream twin; the family
// observes, per paradigm, the input the node is handed (the node is an identity lambda, or END)
// and compares it with the Lean model (EinoV.C15.assembleStatic / assembleStaticStream) and with
// the other paradigms.

import (
	"context"
	"encoding/json"
	"fmt"
	"io"
	"reflect"
	"sort"
	"strings"
	"time"

	"github.com/cloudwego/eino/compose"
	"github.com/cloudwego/eino/schema"
	"github.com/cloudwego/eino/verifharness/vh"
)

func init() {
	c15Extra = append(c15Extra, c15Family{name: "static", run: c15sRun, replay: c15sReplay})
}

// ---------------------------------------------------------------------------------------
// types of the family
// ---------------------------------------------------------------------------------------

type C15SCfg struct {
	Mode  string
	Level int
	Tags  map[string]any
}

type C15SReq struct {
	Query string
	N     int
	Cfg   C15SCfg
	PCfg  *C15SCfg
	Meta  map[string]any
	Extra any
}

type C15SOuter struct {
	Name string
	Req  C15SReq
	PReq *C15SReq
}

type c15sTarget struct {
	name string
	kind string // struct | ptr | map | nested
	rt   reflect.Type
	run  func(c *c15sCase) *c15sImpl
}

var (
	c15sTargets = map[string]*c15sTarget{}
	// predecessor node bodies: map[string]any (the workflow input) -> P, returning the case's value
	c15sPreds = map[string]func(get func() any) *compose.Lambda{}
)

func c15sRegTarget[T any](name, kind string) {
	var z *T
	rt := reflect.TypeOf(z).Elem()
	c15sTargets[name] = &c15sTarget{name: name, kind: kind, rt: rt, run: func(c *c15sCase) *c15sImpl { return c15sRunT[T](c) }}
	if rt.Kind() != reflect.Map {
		// struct-typed chunks have no built-in concatenation: register the field-wise one (the Go
		// twin of EinoV.C15.mergeV).  Maps are concatenated by eino's own concatMaps.
		compose.RegisterStreamChunkConcatFunc(func(xs []T) (T, error) {
			acc := reflect.ValueOf(&xs[0]).Elem()
			for i := 1; i < len(xs); i++ {
				acc = c15sMerge(acc, reflect.ValueOf(&xs[i]).Elem())
			}
			return acc.Interface().(T), nil
		})
	}
}

func c15sRegPred[P any](name string) {
	c15sPreds[name] = func(get func() any) *compose.Lambda {
		return compose.InvokableLambda(func(ctx context.Context, in map[string]any) (P, error) {
			v := get()
			if v == nil {
				var zero P
				return zero, nil
			}
			return v.(P), nil
		})
	}
}

func init() {
	c15Reg[C15SCfg]("SCfg")
	c15Reg[*C15SCfg]("PSCfg")
	c15Reg[C15SReq]("SReq")
	c15Reg[*C15SReq]("PSReq")
	c15Reg[C15SOuter]("SOuter")

	c15sRegTarget[C15SReq]("SReq", "struct")
	c15sRegTarget[*C15SReq]("PSReq", "ptr")
	c15sRegTarget[C15SOuter]("SOuter", "nested")
	c15sRegTarget[map[string]any]("MapAny", "map")

	c15sRegPred[C15SReq]("SReq")
	c15sRegPred[*C15SReq]("PSReq")
	c15sRegPred[C15SCfg]("SCfg")
	c15sRegPred[*C15SCfg]("PSCfg")
	c15sRegPred[map[string]any]("MapAny")
	c15sRegPred[C15Top]("Top")
	c15sRegPred[C15Leaf]("Leaf")
	c15sRegPred[C15SOuter]("SOuter")
}

// c15sMerge: concatenation of two chunks of one type, a arriving before b (EinoV.C15.mergeV):
// strings in arrival order, ints "the one that is set", pointers/structs/maps member-wise,
// interface values by their dynamic type.
func c15sMerge(a, b reflect.Value) reflect.Value {
	out := reflect.New(a.Type()).Elem()
	switch a.Kind() {
	case reflect.String:
		out.SetString(a.String() + b.String())
	case reflect.Int:
		if b.Int() != 0 {
			out.SetInt(b.Int())
		} else {
			out.SetInt(a.Int())
		}
	case reflect.Ptr:
		switch {
		case a.IsNil():
			out.Set(b)
		case b.IsNil():
			out.Set(a)
		default:
			p := reflect.New(a.Type().Elem())
			p.Elem().Set(c15sMerge(a.Elem(), b.Elem()))
			out.Set(p)
		}
	case reflect.Struct:
		for i := 0; i < a.NumField(); i++ {
			out.Field(i).Set(c15sMerge(a.Field(i), b.Field(i)))
		}
	case reflect.Map:
		switch {
		case a.IsNil():
			out.Set(b)
		case b.IsNil():
			out.Set(a)
		default:
			m := reflect.MakeMap(a.Type())
			for _, k := range b.MapKeys() {
				m.SetMapIndex(k, b.MapIndex(k))
			}
			for _, k := range a.MapKeys() {
				if bv := b.MapIndex(k); bv.IsValid() {
					m.SetMapIndex(k, c15sMerge(a.MapIndex(k), bv))
				} else {
					m.SetMapIndex(k, a.MapIndex(k))
				}
			}
			out.Set(m)
		}
	case reflect.Interface:
		switch {
		case a.IsNil():
			out.Set(b)
		case b.IsNil():
			out.Set(a)
		case a.Elem().Type() == b.Elem().Type():
			out.Set(c15sMerge(a.Elem(), b.Elem()))
		default:
			out.Set(b)
		}
	default:
		out.Set(b)
	}
	return out
}

// ---------------------------------------------------------------------------------------
// case language
// ---------------------------------------------------------------------------------------

type c15sStatic struct {
	Path   []string `json:"path"`
	TyName string   `json:"tyName"` // informational
	Ty     c15J     `json:"ty"`     // dynamic type of the value
	Val    c15J     `json:"val"`
}

type c15sCase struct {
	Family      string       `json:"family"` // "static"
	TargetName  string       `json:"targetName"`
	Target      c15J         `json:"target"`
	Succ        string       `json:"succ"`        // inv | tr | end: invokable lambda, transformable lambda, END itself
	Decls       []c15Decl    `json:"decls"`       // AddInput declarations, in order; pred "start" = the workflow input
	Statics     []c15sStatic `json:"statics"`     // SetStaticValue calls
	Input       c15J         `json:"input"`       // the workflow input (map[string]any)
	InputChunks []c15J       `json:"inputChunks"` // the same, as the chunks sent to Collect / Transform
	Gen         string       `json:"gen"`
}

type c15sRunObs struct {
	Class  string `json:"class"` // ok | err | panic | hang
	Info   string `json:"info,omitempty"`
	Val    c15J   `json:"val,omitempty"`    // the result (stream paradigms: the concatenation of the chunks)
	Chunks []c15J `json:"chunks,omitempty"` // stream paradigms: the chunks in arrival order
}

type c15sImpl struct {
	Compile     string       `json:"compile"`
	CompileErr  string       `json:"compileErr,omitempty"`
	Invoke      []c15sRunObs `json:"invoke,omitempty"` // distinct outcomes of the repeated runs
	Stream      *c15sRunObs  `json:"stream,omitempty"`
	Collect     *c15sRunObs  `json:"collect,omitempty"`
	Transform   *c15sRunObs  `json:"transform,omitempty"`
	SrcMutated  []string     `json:"srcMutated,omitempty"`
	BuildFailed string       `json:"buildFailed,omitempty"`
}

type c15sMode struct {
	Class      string `json:"class"`
	Chunks     []c15J `json:"chunks,omitempty"`
	Concat     c15J   `json:"concat,omitempty"`
	TwinsAgree *bool  `json:"twinsAgree,omitempty"`
}

type c15sModel struct {
	Compile     string    `json:"compile"`
	OverlapFree bool      `json:"overlapFree"`
	Invoke      *c15Run   `json:"invoke,omitempty"`
	Single      *c15sMode `json:"single,omitempty"`
	Chunked     *c15sMode `json:"chunked,omitempty"`
	ChunksOK    bool      `json:"chunksOK"`
}

const c15sInvokeRepeats = 3

// ---------------------------------------------------------------------------------------
// implementation side
// ---------------------------------------------------------------------------------------

func c15sErrClass(err error) string {
	s := err.Error()
	switch {
	case strings.Contains(s, "unexpected input type"):
		return "recovered-type-panic"
	case strings.Contains(s, "convertTo failed when must succeed"):
		return "recovered-convertTo-panic"
	case strings.Contains(s, "panic error"):
		return "recovered-panic"
	case strings.Contains(s, "concat"):
		return "concat"
	}
	return "run"
}

func c15sGuard(f func() c15sRunObs) c15sRunObs {
	var run c15sRunObs
	finished := false
	panicked, pv := vh.Safely(func() {
		finished = vh.WithTimeout(20*time.Second, func() { run = f() })
	})
	if panicked {
		c15Debug("static: panic: %.300v", pv)
		return c15sRunObs{Class: "panic", Info: c15PanicClass(pv)}
	}
	if !finished {
		return c15sRunObs{Class: "hang"}
	}
	return run
}

func c15sDrain[T any](sr *schema.StreamReader[T], err error, rt reflect.Type) c15sRunObs {
	if err != nil {
		c15Debug("static: stream error: %.400v", err)
		return c15sRunObs{Class: "err", Info: c15sErrClass(err)}
	}
	defer sr.Close()
	var chunks []c15J
	var acc reflect.Value
	for {
		out, err := sr.Recv()
		if err == io.EOF {
			break
		}
		if err != nil {
			c15Debug("static: recv error: %.400v", err)
			return c15sRunObs{Class: "err", Info: c15sErrClass(err)}
		}
		v := reflect.New(rt).Elem()
		if any(out) != nil {
			v.Set(reflect.ValueOf(out))
		}
		chunks = append(chunks, c15Enc(v))
		if !acc.IsValid() {
			acc = v
		} else {
			acc = c15sMerge(acc, v)
		}
	}
	run := c15sRunObs{Class: "ok", Chunks: chunks}
	if acc.IsValid() {
		run.Val = c15Enc(acc)
	}
	return run
}

func c15sRunT[T any](c *c15sCase) *c15sImpl {
	impl := &c15sImpl{}
	var z *T
	rt := reflect.TypeOf(z).Elem()
	mapT := reflect.TypeOf(map[string]any{})
	ctx := context.Background()

	vals := make([]reflect.Value, len(c.Decls))
	for i, d := range c.Decls {
		st, ok := c15Types[d.TyName]
		if !ok {
			return &c15sImpl{BuildFailed: "unknown source type " + d.TyName}
		}
		v, err := c15Dec(d.Val, st.rt)
		if err != nil {
			return &c15sImpl{BuildFailed: err.Error()}
		}
		vals[i] = v
	}
	dec := func(j c15J) (map[string]any, error) {
		v, err := c15Dec(j, mapT)
		if err != nil {
			return nil, err
		}
		return v.Interface().(map[string]any), nil
	}
	input, err := dec(c.Input)
	if err != nil {
		return &c15sImpl{BuildFailed: err.Error()}
	}
	for i, d := range c.Decls {
		if d.Pred == compose.START {
			input = vals[i].Interface().(map[string]any)
		}
	}
	mkChunks := func() ([]map[string]any, error) {
		var out []map[string]any
		for _, j := range c.InputChunks {
			m, err := dec(j)
			if err != nil {
				return nil, err
			}
			out = append(out, m)
		}
		if len(out) == 0 {
			out = append(out, input)
		}
		return out, nil
	}
	if _, err := mkChunks(); err != nil {
		return &c15sImpl{BuildFailed: err.Error()}
	}
	type sv struct {
		path compose.FieldPath
		v    any
	}
	var statics []sv
	for _, s := range c.Statics {
		drt, ok := c15ByDesc[vhCanonC15(s.Ty)]
		if !ok {
			return &c15sImpl{BuildFailed: fmt.Sprintf("unknown static value type %v", s.Ty)}
		}
		v, err := c15Dec(s.Val, drt)
		if err != nil {
			return &c15sImpl{BuildFailed: err.Error()}
		}
		statics = append(statics, sv{compose.FieldPath(s.Path), v.Interface()})
	}

	var r compose.Runnable[map[string]any, T]
	var cerr error
	if panicked, pv := vh.Safely(func() {
		wf := compose.NewWorkflow[map[string]any, T]()
		for i, d := range c.Decls {
			if d.Pred == compose.START {
				continue
			}
			v := vals[i]
			mk, ok := c15sPreds[d.TyName]
			if !ok {
				panic("c15 static: no predecessor body for type " + d.TyName)
			}
			wf.AddLambdaNode(d.Pred, mk(func() any { return v.Interface() })).AddInput(compose.START)
		}
		var succ *compose.WorkflowNode
		switch c.Succ {
		case "inv":
			succ = wf.AddLambdaNode("succ", compose.InvokableLambda(func(ctx context.Context, in T) (T, error) { return in, nil }))
			wf.End().AddInput("succ")
		case "tr":
			succ = wf.AddLambdaNode("succ", compose.TransformableLambda(func(ctx context.Context, in *schema.StreamReader[T]) (*schema.StreamReader[T], error) { return in, nil }))
			wf.End().AddInput("succ")
		default:
			succ = wf.End()
		}
		for _, d := range c.Decls {
			var ms []*compose.FieldMapping
			for _, m := range d.Maps {
				ms = append(ms, c15Mapping(m))
			}
			succ.AddInput(d.Pred, ms...)
		}
		for _, s := range statics {
			succ.SetStaticValue(s.path, s.v)
		}
		r, cerr = wf.Compile(ctx)
	}); panicked {
		impl.Compile = "panic"
		impl.CompileErr = c15PanicClass(pv)
		return impl
	}
	if cerr != nil {
		impl.Compile = "reject"
		impl.CompileErr = cerr.Error()
		if len(impl.CompileErr) > 200 {
			impl.CompileErr = impl.CompileErr[:200]
		}
		return impl
	}
	impl.Compile = "accept"

	// Invoke (repeated: Go's map iteration order in mergeMap / convertTo differs between runs)
	seen := map[string]bool{}
	for i := 0; i < c15sInvokeRepeats; i++ {
		run := c15sGuard(func() c15sRunObs {
			out, err := r.Invoke(ctx, input)
			if err != nil {
				c15Debug("static: invoke error: %.400v", err)
				return c15sRunObs{Class: "err", Info: c15sErrClass(err)}
			}
			return c15sRunObs{Class: "ok", Val: c15EncAny(out, rt)}
		})
		k := run.Class + run.Info + vhCanonC15(run.Val)
		if !seen[k] {
			seen[k] = true
			impl.Invoke = append(impl.Invoke, run)
		}
		if run.Class == "hang" {
			return impl
		}
	}
	// Stream: the whole input, the output as a stream
	st := c15sGuard(func() c15sRunObs {
		sr, err := r.Stream(ctx, input)
		return c15sDrain(sr, err, rt)
	})
	impl.Stream = &st
	// Collect: the input in chunks, one output value
	co := c15sGuard(func() c15sRunObs {
		chunks, _ := mkChunks()
		out, err := r.Collect(ctx, schema.StreamReaderFromArray(chunks))
		if err != nil {
			c15Debug("static: collect error: %.400v", err)
			return c15sRunObs{Class: "err", Info: c15sErrClass(err)}
		}
		return c15sRunObs{Class: "ok", Val: c15EncAny(out, rt)}
	})
	impl.Collect = &co
	// Transform: the input in chunks, the output as a stream
	tr := c15sGuard(func() c15sRunObs {
		chunks, _ := mkChunks()
		sr, err := r.Transform(ctx, schema.StreamReaderFromArray(chunks))
		return c15sDrain(sr, err, rt)
	})
	impl.Transform = &tr

	for i, d := range c.Decls {
		if vhCanonC15(c15Enc(vals[i])) != vhCanonC15(d.Val) {
			impl.SrcMutated = append(impl.SrcMutated, d.Pred)
		}
	}
	return impl
}

func c15sRunImpl(c *c15sCase) *c15sImpl {
	t, ok := c15sTargets[c.TargetName]
	if !ok {
		return &c15sImpl{BuildFailed: "unknown target type " + c.TargetName}
	}
	return t.run(c)
}

// ---------------------------------------------------------------------------------------
// comparison
// ---------------------------------------------------------------------------------------

func c15sSortedCanon(js []c15J) string {
	var ss []string
	for _, j := range js {
		ss = append(ss, vhCanonC15(j))
	}
	sort.Strings(ss)
	return strings.Join(ss, "\n")
}

func c15sCompare(c *c15sCase, model *c15sModel, impl *c15sImpl) []c15Finding {
	var fs []c15Finding
	if impl.BuildFailed != "" {
		return []c15Finding{{"C15:static:harness:build", impl.BuildFailed}}
	}
	kind := "?"
	if t := c15sTargets[c.TargetName]; t != nil {
		kind = t.kind
	}
	shape := ":succ=" + c.Succ + ":target=" + kind
	if impl.Compile != model.Compile {
		return []c15Finding{{fmt.Sprintf("C15:static:compile:impl=%s:model=%s:overlapFree=%v", impl.Compile, model.Compile, model.OverlapFree),
			fmt.Sprintf("Workflow.Compile of a node with field mappings and static values: implementation %s (%s), model %s (mapped and static paths overlap-free: %v)", impl.Compile, impl.CompileErr, model.Compile, model.OverlapFree)}}
	}
	if impl.Compile != "accept" {
		return nil
	}
	// the case must lie in the domain the theorems speak about
	if !model.ChunksOK {
		fs = append(fs, c15Finding{"C15:static:harness:input-chunks", "the generated input chunks do not concatenate to the input (generator defect)"})
	}
	for name, m := range map[string]*c15sMode{"single": model.Single, "chunked": model.Chunked} {
		if m != nil && m.Class == "ok" && (m.TwinsAgree == nil || !*m.TwinsAgree) {
			fs = append(fs, c15Finding{"C15:static:harness:outside-commuting-domain:" + name, "in the model the stream twin followed by concatenation differs from the value twin on the concatenated chunks: the handlers do not commute with concatenation on this case (generator defect)"})
		}
	}
	if len(impl.Invoke) > 1 {
		fs = append(fs, c15Finding{"C15:static:invoke:nondeterministic" + shape, fmt.Sprintf("%d different Invoke outcomes in %d runs of one compiled workflow", len(impl.Invoke), c15sInvokeRepeats)})
	}
	cls := func(r *c15sRunObs) string {
		if r.Info != "" {
			return r.Class + ":" + r.Info
		}
		return r.Class
	}
	// Invoke against the value twin
	var inv *c15sRunObs
	if len(impl.Invoke) > 0 && model.Invoke != nil {
		inv = &impl.Invoke[0]
		if inv.Class != model.Invoke.Class {
			fs = append(fs, c15Finding{fmt.Sprintf("C15:static:invoke:impl=%s:model=%s%s", cls(inv), model.Invoke.Class, shape),
				fmt.Sprintf("Invoke outcome class: implementation %s, model %s", cls(inv), model.Invoke.Class)})
		} else if inv.Class == "ok" && vhCanonC15(inv.Val) != vhCanonC15(model.Invoke.Val) {
			fs = append(fs, c15Finding{"C15:static:invoke:value" + shape, "Invoke: the node input differs from 'mapped fields + static fields' as the model assembles it"})
		}
	}
	// the three streaming paradigms against the stream twin
	stream := func(name string, r *c15sRunObs, m *c15sMode, oneValue bool) {
		if r == nil || m == nil {
			return
		}
		if r.Class != m.Class {
			fs = append(fs, c15Finding{fmt.Sprintf("C15:static:%s:impl=%s:model=%s%s", name, cls(r), m.Class, shape),
				fmt.Sprintf("%s outcome class: implementation %s, model %s (Invoke on the same workflow: %s)", name, cls(r), m.Class, func() string {
					if inv != nil {
						return cls(inv)
					}
					return "-"
				}())})
			return
		}
		if r.Class != "ok" {
			return
		}
		if vhCanonC15(r.Val) != vhCanonC15(m.Concat) {
			fs = append(fs, c15Finding{fmt.Sprintf("C15:static:%s:value%s", name, shape),
				fmt.Sprintf("%s: the (concatenated) node input differs from the concatenation of the chunks the model's stream twin yields", name)})
			return
		}
		if !oneValue && c.Succ != "inv" {
			// the node passes every chunk on: the chunks themselves are observable
			if c15sSortedCanon(r.Chunks) != c15sSortedCanon(m.Chunks) {
				fs = append(fs, c15Finding{fmt.Sprintf("C15:static:%s:chunks%s", name, shape),
					fmt.Sprintf("%s: the chunks handed to the node differ from the model's (%d vs %d chunks)", name, len(r.Chunks), len(m.Chunks))})
			}
		}
	}
	stream("stream", impl.Stream, model.Single, false)
	stream("collect", impl.Collect, model.Chunked, true)
	stream("transform", impl.Transform, model.Chunked, false)
	// the paradigms against each other
	if inv != nil && inv.Class == "ok" {
		var diff []string
		for _, p := range []struct {
			name string
			r    *c15sRunObs
		}{{"stream", impl.Stream}, {"collect", impl.Collect}, {"transform", impl.Transform}} {
			if p.r != nil && (p.r.Class != "ok" || vhCanonC15(p.r.Val) != vhCanonC15(inv.Val)) {
				diff = append(diff, p.name)
			}
		}
		if len(diff) > 0 {
			fs = append(fs, c15Finding{"C15:static:paradigms-differ:invoke-vs-" + strings.Join(diff, "+") + shape,
				"the node receives a different input (or the run fails) in " + strings.Join(diff, ", ") + " while Invoke on the same compiled workflow succeeds"})
		}
	}
	if len(impl.SrcMutated) > 0 {
		fs = append(fs, c15Finding{"C15:static:source-mutated", fmt.Sprintf("predecessor output modified by the run: %v", impl.SrcMutated)})
	}
	return fs
}

func c15sEval(ctx *vh.Ctx, c *c15sCase) (*c15sModel, *c15sImpl, []c15Finding, error) {
	raw, err := ctx.Oracle.Ask("C15", c)
	if err != nil {
		return nil, nil, nil, err
	}
	var m c15sModel
	if err := json.Unmarshal(raw, &m); err != nil {
		return nil, nil, nil, err
	}
	impl := c15sRunImpl(c)
	return &m, impl, c15sCompare(c, &m, impl), nil
}

// c15sShrink: fewer chunks, static values, declarations, mappings while the signature persists.
func c15sShrink(ctx *vh.Ctx, c *c15sCase, sig string) *c15sCase {
	cur := c
	for changed := true; changed; {
		changed = false
		var cands []*c15sCase
		if len(cur.InputChunks) > 1 {
			n := *cur
			n.InputChunks = []c15J{cur.Input}
			cands = append(cands, &n)
		}
		for i := range cur.Statics {
			if len(cur.Statics) > 1 {
				n := *cur
				n.Statics = append(append([]c15sStatic{}, cur.Statics[:i]...), cur.Statics[i+1:]...)
				cands = append(cands, &n)
			}
		}
		for i := range cur.Decls {
			if len(cur.Decls) > 1 {
				n := *cur
				n.Decls = append(append([]c15Decl{}, cur.Decls[:i]...), cur.Decls[i+1:]...)
				cands = append(cands, &n)
			}
			for j := range cur.Decls[i].Maps {
				if len(cur.Decls[i].Maps) > 1 {
					n := *cur
					n.Decls = append([]c15Decl{}, cur.Decls...)
					d := n.Decls[i]
					d.Maps = append(append([]c15Map{}, d.Maps[:j]...), d.Maps[j+1:]...)
					n.Decls[i] = d
					cands = append(cands, &n)
				}
			}
		}
		for _, n := range cands {
			ctx.Progress.Mark(n)
			_, _, fs, err := c15sEval(ctx, n)
			if err != nil {
				continue
			}
			for _, f := range fs {
				if f.sig == sig {
					cur, changed = n, true
					break
				}
			}
			if changed {
				break
			}
		}
	}
	return cur
}

func c15sKey(c *c15sCase) string {
	var sb strings.Builder
	sb.WriteString("static|" + c.TargetName + "|" + c.Succ + fmt.Sprintf("|chunks=%d", len(c.InputChunks)))
	for _, d := range c.Decls {
		sb.WriteString("|" + d.Pred + ":" + d.TyName + ":")
		for _, m := range d.Maps {
			sb.WriteString(strings.Join(m.From, ".") + ">" + strings.Join(m.To, ".") + ",")
		}
	}
	for _, s := range c.Statics {
		sb.WriteString("|=" + strings.Join(s.Path, ".") + ":" + s.TyName)
	}
	return sb.String()
}

func c15sOne(ctx *vh.Ctx, c *c15sCase) error {
	ctx.Progress.Mark(c)
	model, impl, fs, err := c15sEval(ctx, c)
	if err != nil {
		return err
	}
	nm, depth, sdepth := 0, 0, 0
	for _, d := range c.Decls {
		nm += len(d.Maps)
		for _, m := range d.Maps {
			if len(m.To) > depth {
				depth = len(m.To)
			}
		}
	}
	viaMap := false
	if t := c15sTargets[c.TargetName]; t != nil {
		for _, s := range c.Statics {
			if len(s.Path) > sdepth {
				sdepth = len(s.Path)
			}
			ctx.Res.Dist(fmt.Sprintf("static:static-value-at-depth=%d", len(s.Path)))
			// a static path of length >= 2 whose first steps lead into a map / any: intermediate maps are created
			if len(s.Path) >= 2 && c15sThroughMap(t.rt, s.Path) {
				viaMap = true
			}
		}
	}
	ctx.Res.Dist("static:target=" + c.TargetName)
	ctx.Res.Dist("static:succ=" + c.Succ)
	ctx.Res.Dist(fmt.Sprintf("static:preds=%d", len(c.Decls)))
	ctx.Res.Dist(fmt.Sprintf("static:mappings=%d", nm))
	ctx.Res.Dist(fmt.Sprintf("static:statics=%d", len(c.Statics)))
	ctx.Res.Dist(fmt.Sprintf("static:static-depth=%d", sdepth))
	ctx.Res.Dist(fmt.Sprintf("static:mapping-depth=%d", depth))
	ctx.Res.Dist(fmt.Sprintf("static:input-chunks=%d", len(c.InputChunks)))
	if viaMap {
		ctx.Res.Dist("static:static-path-creates-intermediate-map")
	}
	for _, d := range c.Decls {
		if d.Pred == compose.START {
			ctx.Res.Dist("static:pred=START")
		}
		for _, m := range d.Maps {
			switch {
			case len(m.From) == 0:
				ctx.Res.Dist("static:mapping=ToField")
			case len(m.To) == 0:
				ctx.Res.Dist("static:mapping=FromField")
			case len(m.From) == 1 && len(m.To) == 1:
				ctx.Res.Dist("static:mapping=MapFields")
			default:
				ctx.Res.Dist("static:mapping=MapFieldPaths")
			}
		}
	}
	ctx.Res.Dist("static:gen=" + c.Gen)
	ctx.Res.Dist("static:compile=" + impl.Compile)
	if len(impl.Invoke) > 0 {
		ctx.Res.Dist("static:invoke=" + impl.Invoke[0].Class)
	}
	for name, r := range map[string]*c15sRunObs{"stream": impl.Stream, "collect": impl.Collect, "transform": impl.Transform} {
		if r != nil {
			ctx.Res.Dist("static:" + name + "=" + r.Class)
			if name != "collect" && r.Class == "ok" {
				n := len(r.Chunks)
				if n > 4 {
					n = 4
				}
				ctx.Res.Dist(fmt.Sprintf("static:%s-out-chunks=%d%s", name, n, map[bool]string{true: "+", false: ""}[n == 4]))
			}
		}
	}
	ctx.Res.Count(c15sKey(c), len(c.Statics) >= 1 && nm >= 1)
	ctx.Res.Sample(c)
	for _, f := range fs {
		if c15Reported[f.sig] >= 3 {
			ctx.Res.Dist("disagreement-suppressed")
			continue
		}
		c15Reported[f.sig]++
		sc, sm, si := c, model, impl
		if ctx.Replay == nil && c15Reported[f.sig] == 1 {
			sc = c15sShrink(ctx, c, f.sig)
			if sm, si, _, err = c15sEval(ctx, sc); err != nil {
				return err
			}
		}
		ctx.Res.Disagree(vh.Disagreement{Signature: f.sig, What: f.what, Case: sc, Model: sm, Impl: si})
	}
	return nil
}

// c15sThroughMap: does the path pass through a map or an `any` hole before its last segment?
func c15sThroughMap(rt reflect.Type, path []string) bool {
	t := rt
	for i, s := range path {
		if t.Kind() == reflect.Ptr {
			t = t.Elem()
		}
		switch t.Kind() {
		case reflect.Map:
			if i < len(path)-1 {
				return true
			}
			t = t.Elem()
		case reflect.Interface:
			if i < len(path)-1 {
				return true
			}
		case reflect.Struct:
			f, ok := t.FieldByName(s)
			if !ok {
				return false
			}
			t = f.Type
		default:
			return false
		}
	}
	return false
}

// ---------------------------------------------------------------------------------------
// generator
// ---------------------------------------------------------------------------------------

var c15sStrings = []string{"a", "b", "hello", "xy", "fast", "slow", ""}

// c15sGenVal: like c15GenVal without nil interface values (a nil `any` arriving at a node is the
// out-of-scope case of the mapping family), without nil maps and with few nil pointers.
func c15sGenVal(r *vh.Rand, rt reflect.Type, depth int) reflect.Value {
	v := reflect.New(rt).Elem()
	switch rt.Kind() {
	case reflect.String:
		v.SetString(c15sStrings[r.Intn(len(c15sStrings))])
	case reflect.Int:
		v.SetInt(int64([]int{0, 1, 7, -3, 42}[r.Intn(5)]))
	case reflect.Interface:
		dts := []reflect.Type{reflect.TypeOf(""), reflect.TypeOf(0)}
		if depth > 1 {
			dts = append(dts, reflect.TypeOf(map[string]any{}), reflect.TypeOf(C15SCfg{}), reflect.TypeOf(C15Leaf{}))
		}
		v.Set(c15sGenVal(r, dts[r.Intn(len(dts))], depth-1))
	case reflect.Ptr:
		if r.Chance(10) {
			return v
		}
		p := reflect.New(rt.Elem())
		p.Elem().Set(c15sGenVal(r, rt.Elem(), depth))
		v.Set(p)
	case reflect.Map:
		// never a nil map: internal/concat.go concatMaps rebuilds every map it meets, so a nil
		// map[string]any found under a key of a map chunk comes out as an empty map in the
		// streaming paradigms (a property of stream concatenation, not of field mappings)
		m := reflect.MakeMap(rt)
		if depth > 0 {
			for i, n := 0, r.Intn(3); i < n; i++ {
				m.SetMapIndex(reflect.ValueOf(c15Keys[r.Intn(len(c15Keys))]), c15sGenVal(r, rt.Elem(), depth-1))
			}
		}
		v.Set(m)
	case reflect.Struct:
		for i := 0; i < rt.NumField(); i++ {
			v.Field(i).Set(c15sGenVal(r, rt.Field(i).Type, depth-1))
		}
	}
	return v
}

// c15sGenInput: the workflow input, a map[string]any with a few typed entries.
func c15sGenInput(r *vh.Rand) map[string]any {
	in := map[string]any{}
	type ent struct {
		k  string
		rt reflect.Type
	}
	pool := []ent{{"q", reflect.TypeOf("")}, {"q2", reflect.TypeOf("")}, {"n", reflect.TypeOf(0)}, {"cfg", reflect.TypeOf(C15SCfg{})},
		{"pcfg", reflect.TypeOf(&C15SCfg{})}, {"sub", reflect.TypeOf(map[string]any{})}, {"leaf", reflect.TypeOf(C15Leaf{})}, {"tags", reflect.TypeOf(map[string]any{})}}
	for _, e := range pool {
		if r.Chance(62) {
			in[e.k] = c15sGenVal(r, e.rt, 3).Interface()
		}
	}
	if len(in) == 0 {
		in["q"] = "hello"
	}
	return in
}

// c15sSplit: the input as 1..3 chunks.  Every top-level key goes to one chunk; a string value of
// length >= 2 may arrive in two pieces (in order).  eino's concatMaps of the chunks is the input.
func c15sSplit(r *vh.Rand, in map[string]any, n int) []map[string]any {
	chunks := make([]map[string]any, n)
	for i := range chunks {
		chunks[i] = map[string]any{}
	}
	keys := make([]string, 0, len(in))
	for k := range in {
		keys = append(keys, k)
	}
	sort.Strings(keys)
	for _, k := range keys {
		v := in[k]
		if s, ok := v.(string); ok && len(s) >= 2 && n >= 2 && r.Chance(45) {
			i := r.Intn(n - 1)
			j := i + 1 + r.Intn(n-1-i)
			cut := 1 + r.Intn(len(s)-1)
			chunks[i][k] = s[:cut]
			chunks[j][k] = s[cut:]
			continue
		}
		chunks[r.Intn(n)][k] = v
	}
	return chunks
}

type c15sSrc struct {
	path []string
	ty   reflect.Type // static type of the slot
	dyn  reflect.Type // dynamic type of the value found there (interface slots), else ty
}

func c15sSources(v reflect.Value) []c15sSrc {
	var ps []c15PathInfo
	c15SourcePaths(v, 3, nil, false, &ps)
	ps = append(ps, c15PathInfo{path: nil, ty: v.Type()})
	var out []c15sSrc
	for _, p := range ps {
		x := v
		ok := true
		for _, s := range p.path {
			if x.Kind() == reflect.Interface {
				x = x.Elem()
			}
			if x.Kind() == reflect.Ptr {
				x = x.Elem()
			}
			switch x.Kind() {
			case reflect.Struct:
				x = x.FieldByName(s)
			case reflect.Map:
				x = x.MapIndex(reflect.ValueOf(s))
			default:
				ok = false
			}
			if !ok || !x.IsValid() {
				ok = false
				break
			}
		}
		if !ok {
			continue
		}
		src := c15sSrc{path: p.path, ty: p.ty, dyn: p.ty}
		if x.Kind() == reflect.Interface {
			if x.IsNil() {
				continue
			}
			src.dyn = x.Elem().Type()
		}
		out = append(out, src)
	}
	return out
}

func c15sRelated(a, b []string) bool { return c15IsPrefix(a, b) || c15IsPrefix(b, a) }

var (
	c15sTargetNames   = []string{"SReq", "PSReq", "SOuter", "MapAny"}
	c15sTargetWeights = []int{36, 18, 20, 26}
	c15sPredNames     = []string{"SReq", "PSReq", "SCfg", "PSCfg", "MapAny", "Top", "Leaf", "SOuter"}
	c15sPredWeights   = []int{22, 8, 20, 8, 18, 8, 8, 8}
)

func c15sGenCase(r *vh.Rand) *c15sCase {
	c := &c15sCase{Family: "static", Gen: "valid"}
	c.TargetName = c15Pick(r, c15sTargetNames, c15sTargetWeights)
	tt := c15sTargets[c.TargetName]
	c.Target = c15TyDesc(tt.rt)
	c.Succ = []string{"inv", "inv", "tr", "tr", "end"}[r.Intn(5)]
	mapT := reflect.TypeOf(map[string]any{})

	// predecessors: the workflow input (START) and / or lambda nodes
	input := c15sGenInput(r)
	type pred struct {
		name string
		tn   string
		val  reflect.Value
		srcs []c15sSrc
	}
	var preds []pred
	if r.Chance(70) {
		v := reflect.ValueOf(input)
		preds = append(preds, pred{compose.START, "MapAny", v, c15sSources(v)})
	}
	nNode := []int{0, 1, 1, 2}[r.Intn(4)]
	if len(preds) == 0 && nNode == 0 {
		nNode = 1
	}
	for i := 0; i < nNode; i++ {
		tn := c15Pick(r, c15sPredNames, c15sPredWeights)
		v := c15sGenVal(r, c15Types[tn].rt, 3)
		preds = append(preds, pred{fmt.Sprintf("p%d", i), tn, v, c15sSources(v)})
	}
	for _, p := range preds {
		c.Decls = append(c.Decls, c15Decl{Pred: p.name, TyName: p.tn, Ty: c15Types[p.tn].desc, Val: c15Enc(p.val)})
	}
	c.Input = c15Enc(reflect.ValueOf(input))
	nChunks := 1 + r.Intn(3)
	for _, ch := range c15sSplit(r, input, nChunks) {
		c.InputChunks = append(c.InputChunks, c15Enc(reflect.ValueOf(ch)))
	}

	// target paths
	var tps []c15PathInfo
	c15TargetPaths(tt.rt, 3, nil, false, &tps)
	var chosen [][]string
	free := func(p []string) bool {
		for _, q := range chosen {
			if c15sRelated(p, q) {
				return false
			}
		}
		return true
	}
	pickTarget := func(ok func(c15PathInfo) bool) (c15PathInfo, bool) {
		// the depth first (most enumerated paths are deep ones), then a path of that depth
		want := []int{1, 1, 1, 2, 2, 2, 2, 3, 3, 3}[r.Intn(10)]
		for try := 0; try < 40; try++ {
			t := tps[r.Intn(len(tps))]
			if try < 28 && len(t.path) != want {
				continue
			}
			if free(t.path) && ok(t) {
				return t, true
			}
		}
		return c15PathInfo{}, false
	}

	// mappings: at least one per predecessor
	mismatch := r.Chance(6) // one mapping whose run-time type does not fit (a run-time error in every paradigm)
	nMap := len(preds) + []int{0, 0, 1, 1, 2, 3}[r.Intn(6)]
	for k := 0; k < nMap; k++ {
		pi := k
		if k >= len(preds) {
			pi = r.Intn(len(preds))
		}
		p := preds[pi]
		if len(p.srcs) == 0 {
			continue
		}
		done := false
		for try := 0; try < 20 && !done; try++ {
			s := p.srcs[r.Intn(len(p.srcs))]
			if len(s.path) == 0 && p.name == compose.START && r.Chance(70) {
				continue // the whole input into one field: keep it rare
			}
			wantMismatch := mismatch && s.ty.Kind() == reflect.Interface
			t, ok := pickTarget(func(t c15PathInfo) bool {
				fits := t.ty.Kind() == reflect.Interface || s.dyn == t.ty
				if wantMismatch {
					return !fits && t.ty.Kind() != reflect.Interface
				}
				// a statically typed source must match exactly (or go into an `any` slot)
				if s.ty.Kind() != reflect.Interface && t.ty.Kind() != reflect.Interface && s.ty != t.ty {
					return false
				}
				return fits
			})
			if !ok {
				continue
			}
			if wantMismatch {
				mismatch = false
				c.Gen = "runtime-mismatch"
			}
			chosen = append(chosen, t.path)
			c.Decls[pi].Maps = append(c.Decls[pi].Maps, c15Map{From: append([]string{}, s.path...), To: append([]string{}, t.path...)})
			done = true
		}
	}
	// now and then FromField: one source field becomes the whole node input.  Alone it is an
	// ordinary accepted mapping; together with any static value it must be rejected at compile time.
	fromField := false
	if r.Chance(7) {
		type cand struct {
			pi int
			s  c15sSrc
		}
		var cands []cand
		for pi, p := range preds {
			for _, s := range p.srcs {
				if len(s.path) >= 1 && s.dyn == tt.rt {
					cands = append(cands, cand{pi, s})
				}
			}
		}
		if len(cands) > 0 {
			cd := cands[r.Intn(len(cands))]
			for i := range c.Decls {
				c.Decls[i].Maps = nil
			}
			c.Decls[cd.pi].Maps = []c15Map{{From: append([]string{}, cd.s.path...), To: []string{}}}
			chosen = nil
			fromField = true
			c.Gen = "fromfield"
		}
	}
	// predecessors that got no mapping are dropped (a declaration without mappings would map the
	// whole output and conflict with everything else)
	var kept []c15Decl
	for _, d := range c.Decls {
		if len(d.Maps) > 0 {
			kept = append(kept, d)
		}
	}
	c.Decls = kept
	if len(c.Decls) == 0 {
		return nil
	}

	// static values
	nStatic := []int{0, 1, 1, 1, 2, 2, 2, 3, 3, 4}[r.Intn(10)]
	overlap := r.Chance(8)
	if fromField {
		nStatic = []int{0, 1, 1, 2}[r.Intn(4)]
		if nStatic > 0 {
			c.Gen = "fromfield+static"
		}
	}
	for k := 0; k < nStatic; k++ {
		var t c15PathInfo
		ok := false
		if overlap && len(chosen) > 0 {
			// a static path equal to / a prefix of / an extension of a path already taken
			base := chosen[r.Intn(len(chosen))]
			var rel []c15PathInfo
			for _, x := range tps {
				if c15sRelated(x.path, base) {
					rel = append(rel, x)
				}
			}
			if len(rel) > 0 {
				t, ok = rel[r.Intn(len(rel))], true
				c.Gen = "overlap"
				overlap = false
			}
		}
		if !ok {
			t, ok = pickTarget(func(t c15PathInfo) bool { return true })
		}
		if !ok {
			continue
		}
		// SetStaticValue keeps one value per path: an equal path would silently replace the earlier one
		dup := false
		for _, s := range c.Statics {
			if strings.Join(s.Path, "\x1f") == strings.Join(t.path, "\x1f") {
				dup = true
			}
		}
		if dup {
			continue
		}
		vt := t.ty
		if vt.Kind() == reflect.Interface {
			vt = []reflect.Type{reflect.TypeOf(""), reflect.TypeOf(""), reflect.TypeOf(0), mapT, reflect.TypeOf(C15SCfg{})}[r.Intn(5)]
		}
		v := c15sGenVal(r, vt, 2)
		chosen = append(chosen, t.path)
		c.Statics = append(c.Statics, c15sStatic{Path: append([]string{}, t.path...), TyName: vt.String(), Ty: c15TyDesc(vt), Val: c15Enc(v)})
	}
	return c
}

// ---------------------------------------------------------------------------------------
// fixed cases
// ---------------------------------------------------------------------------------------

func c15sFixed() []*c15sCase {
	mapT := reflect.TypeOf(map[string]any{})
	str := func(s string) c15sStatic {
		return c15sStatic{TyName: "string", Ty: c15TyDesc(reflect.TypeOf("")), Val: c15Enc(reflect.ValueOf(s))}
	}
	num := func(n int) c15sStatic {
		return c15sStatic{TyName: "int", Ty: c15TyDesc(reflect.TypeOf(0)), Val: c15Enc(reflect.ValueOf(n))}
	}
	at := func(s c15sStatic, path ...string) c15sStatic { s.Path = path; return s }
	mk := func(target, succ string, input map[string]any, chunks []map[string]any, maps []c15Map, statics ...c15sStatic) *c15sCase {
		c := &c15sCase{Family: "static", Gen: "fixed", TargetName: target, Target: c15TyDesc(c15sTargets[target].rt), Succ: succ, Statics: statics}
		c.Input = c15Enc(reflect.ValueOf(input))
		for _, ch := range chunks {
			c.InputChunks = append(c.InputChunks, c15Enc(reflect.ValueOf(ch)))
		}
		c.Decls = []c15Decl{{Pred: compose.START, TyName: "MapAny", Ty: c15TyDesc(mapT), Val: c.Input, Maps: maps}}
		return c
	}
	in := map[string]any{"q": "hello", "n": 3}
	chunks := []map[string]any{{"q": "hel"}, {"n": 3}, {"q": "lo"}}
	reqMaps := []c15Map{{From: []string{"q"}, To: []string{"Query"}}, {From: []string{"n"}, To: []string{"Cfg", "Level"}}}
	var out []*c15sCase
	// the witness of the Lean examples: Req{Query, Cfg.Level} mapped, Cfg.Mode and Meta.a.b static
	for _, succ := range []string{"inv", "tr", "end"} {
		for _, target := range []string{"SReq", "PSReq"} {
			out = append(out, mk(target, succ, in, chunks, reqMaps, at(str("fast"), "Cfg", "Mode"), at(num(7), "Meta", "a", "b")))
		}
	}
	// a map-typed node input: the converter turns the joined static key cfg\x1fmode into nested maps
	mapMaps := []c15Map{{From: []string{"q"}, To: []string{"query"}}, {From: []string{"n"}, To: []string{"cfg", "level"}}}
	for _, succ := range []string{"inv", "tr", "end"} {
		out = append(out, mk("MapAny", succ, in, chunks, mapMaps, at(str("fast"), "cfg", "mode")))
	}
	// nested struct target, pointer on the way
	out = append(out, mk("SOuter", "inv", in, chunks, []c15Map{{From: []string{"q"}, To: []string{"Req", "Query"}}, {From: []string{"n"}, To: []string{"PReq", "Cfg", "Level"}}},
		at(str("fast"), "PReq", "Cfg", "Mode"), at(str("x"), "Req", "Extra", "k1"), at(str("outer"), "Name")))
	// no static value: the converter alone
	out = append(out, mk("SReq", "tr", in, chunks, reqMaps))
	// a static path equal to / below a mapped path: rejected at compile time
	out = append(out, mk("SReq", "inv", in, chunks, reqMaps, at(str("dup"), "Query")))
	out = append(out, mk("MapAny", "inv", in, chunks, mapMaps, at(str("below"), "query", "x")))
	// FromField: a source field is the whole node input; accepted alone, rejected next to a static value
	inSub := map[string]any{"sub": map[string]any{"a": "x", "n": 1}, "q": "hello"}
	subChunks := []map[string]any{{"q": "hel"}, {"sub": map[string]any{"a": "x", "n": 1}}, {"q": "lo"}}
	out = append(out, mk("MapAny", "tr", inSub, subChunks, []c15Map{{From: []string{"sub"}, To: []string{}}}))
	out = append(out, mk("MapAny", "tr", inSub, subChunks, []c15Map{{From: []string{"sub"}, To: []string{}}}, at(str("s"), "k1")))
	return out
}

// ---------------------------------------------------------------------------------------
// driver
// ---------------------------------------------------------------------------------------

func c15sReplay(ctx *vh.Ctx, raw json.RawMessage) (bool, error) {
	var probe struct {
		Family string `json:"family"`
	}
	if json.Unmarshal(raw, &probe) != nil || probe.Family != "static" {
		return false, nil
	}
	var c c15sCase
	if err := json.Unmarshal(raw, &c); err != nil {
		return true, err
	}
	return true, c15sOne(ctx, &c)
}

func c15sRun(ctx *vh.Ctx) error {
	ctx.Res.Rule += " || family static: workflow nodes with field mappings AND static values (SetStaticValue at top-level fields, nested paths, paths into map[string]any / any creating intermediate maps) over node input types struct / *struct / nested struct / map[string]any, successor = invokable lambda / transformable lambda / END, predecessors START (map[string]any, sent in 1-3 chunks, strings possibly in pieces) and lambda nodes; per case: Compile class, 3 Invoke runs, Stream, Collect, Transform on the same compiled workflow, each compared with the model's value twin / stream twin of the pre-node handler chain and with each other; non-trivial = at least one mapping and one static value; distinct by (target, successor, chunk count, declarations, static paths and types)"
	for _, c := range c15sFixed() {
		if err := c15sOne(ctx, c); err != nil {
			return err
		}
	}
	n := ctx.N(1500, 30000)
	// the family's share of the budget; its own generator stream, so that the cases of the mapping
	// family do not depend on how many cases were run here
	rng := ctx.Rng.Fork()
	deadline := time.Now().Add(ctx.Budget * 30 / 100)
	if lim := ctx.Start.Add(ctx.Budget * 42 / 100); deadline.After(lim) {
		deadline = lim
	}
	for i := 0; i < n && time.Now().Before(deadline); i++ {
		c := c15sGenCase(rng)
		if c == nil {
			continue
		}
		if err := c15sOne(ctx, c); err != nil {
			return err
		}
	}
	return nil
}
