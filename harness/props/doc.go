// Package props holds one file group per property (cxx*.go). Every file carries the build
// constraint `//go:build verif && (vh_all || vh_cxx)` so that one property's harness can be
// built (and be broken, while it is being written) independently of the others.
package props
