//go:build verif && (vh_all || vh_c05 || vh_c06)

package props

import (
	"fmt"
	"time"

	"github.com/cloudwego/eino/verifharness/gcase5"
	"github.com/cloudwego/eino/verifharness/vh"
)

// Case family "streams" of C05 / C06 (registered for C05 in c05_empty_reg.go and for C06 in
// c06_empty.go): the graph case language with natively streaming nodes (gcase5/streams.go) —
// producers that answer with a stream of one chunk or with a stream closed WITHOUT any chunk
// (compose.StreamableLambda / TransformableLambda), chunk readers (compose.CollectableLambda,
// TransformableLambda), stream branch conditions. The stream without chunks is the one value the
// stream paradigms have and the value paradigm has not; the checkpoint has to carry it (as a pending
// input, as a channel content, at any nesting level) and hand it back as what it was — not as a
// stream with one zero chunk. The interrupt points are biased so that it is the pending input of a
// checkpoint (interrupt-after on the producer or on a pass-through node behind it, interrupt-before
// on the consumer) or waits in an all-predecessor channel while a sibling is interrupted.
//
// Histories run in the stream paradigms only (Stream / Transform / Collect per call), through the
// bytes-only store, until completion. Compared (gcase5.Evaluate, as for the other graph families)
//   (a) with the uninterrupted run of the same graph on the implementation, driven in the stream
//       paradigm of the history (Case.PlainPar): same final output, same node executions with the same
//       inputs — a chunk reader's input is logged as "<empty>=;" when it received no chunk, as the
//       merged chunks otherwise;
//   (b) per call with the Lean model run in stream mode (Oracle/C05GraphCase.lean: the value universe
//       extended by emptyV): outcome, InterruptInfo, store written, supersteps, executions.

// c05sParadigms draws the paradigms of a history: all calls on streams. The result of a run whose
// END is handed a chunk-less stream depends on the paradigm of the call that returns it (Stream /
// Transform: a stream without chunks; Collect: the framework's concatenation error), so a history is
// either Collect only (reference run by Collect) or Stream / Transform mixed (reference run by the first).
func c05sParadigms(r *vh.Rand) (pars []string, plainPar string) {
	if r.Chance(15) {
		return []string{"collect"}, "collect"
	}
	n := r.Range(1, 3)
	for j := 0; j < n; j++ {
		if r.Chance(60) {
			pars = append(pars, "stream")
		} else {
			pars = append(pars, "transform")
		}
	}
	return pars, pars[0]
}

// c05StreamsGen draws one case of the family (from the family's own generator state).
func c05StreamsGen(ctx *vh.Ctx, r *vh.Rand, i int) *gcase5.Case {
	o := gcase5.GenOpts{Mode: "mixed", MaxNodes: 5, Depth: 1, Cycles: true, FailPct: 1, BranchPct: 18,
		StatePct: 40, HandlerPct: 20, RerunPct: 10, IntPct: 14, NestedPct: 10,
		EmitPct: 35, EmptyPct: 70, XformPct: 40, CollectPct: 30, StreamBranchPct: 60}
	switch i % 4 {
	case 1: // all-predecessor graphs: the chunk-less stream waits in a channel while a sibling asks for a rerun / another predecessor is still to come
		o.Mode = "dag"
		o.RerunPct = 25
		o.StatePct = 80
	case 2: // short chains: producer -> (pass-through) -> reader
		o.MaxNodes = 3
		o.EmitPct = 50
		o.BranchPct = 8
	case 3: // inside nested graphs / handed to a nested graph
		o.NestedPct = 40
		o.MaxNodes = 4
		o.Depth = 2
	}
	g := gcase5.Gen(r, o)
	gcase5.SanitizeStreams(r, g, false, true)
	c := &gcase5.Case{G: g, Input: fmt.Sprintf("x%d", r.Intn(5)), MaxCalls: 40}
	c.Paradigms, c.PlainPar = c05sParadigms(r)
	return c
}

func runC05Streams(ctx *vh.Ctx) error {
	if !c05FamilyOn("streams") {
		return nil
	}
	ctx.Res.Rule += " | streams family: the same case language with natively streaming nodes (StreamableLambda / TransformableLambda producers of one chunk or of a stream without chunks, CollectableLambda / TransformableLambda chunk readers, stream branch conditions), interrupt points biased so that a chunk-less stream is the pending input of a checkpoint (interrupt-after on its producer or on a pass-through node behind it, interrupt-before on its consumer, also inside / in front of nested graphs) or a channel content of an all-predecessor graph; histories on streams only (Stream / Transform mixed, or Collect), compared with the uninterrupted run in the same paradigm and per call with the model run in stream mode"
	pin := c05PinOther(ctx)
	r := vh.NewRand(ctx.Seed*0x9E3779B97F4A7C15 + 0xE05)
	n := ctx.N(2500, 25000)
	limit := time.Duration(ctx.N(8, 60)) * time.Second
	start := time.Now()
	done := 0
	for i := 0; i < n && time.Since(start) < limit; i++ {
		done++
		c := c05StreamsGen(ctx, r, i)
		pin(c)
		if err := gcase5.Evaluate(ctx, ctx.Prop, c, true); err != nil {
			return err
		}
	}
	ctx.Res.Extra["streams_family_seconds"] = time.Since(start).Seconds()
	ctx.Res.Extra["streams_family_cases"] = done
	return nil
}
