//go:build verif && (vh_all || vh_c11)

package props

// C11 — graph state is per run and accessed under mutual exclusion.
//
// Parent process: generates cases, re-executes this binary as a child (so that a data race
// reported by the race detector, a crash or a hang of the implementation is an observation),
// reads the child's observations, asks the Lean oracle and compares.
// Child process (env VH_C11_CHILD_IN set): builds the real compose graphs and runs them.

import (
	"bytes"
	"encoding/json"
	"fmt"
	"os"
	"os/exec"
	"regexp"
	"runtime/debug"
	"sort"
	"strings"
	"time"

	"github.com/cloudwego/eino/verifharness/vh"
)

func init() { vh.Register("C11", runC11) }

// ---------- case language ----------

type c11Op struct {
	O   string `json:"o"`             // stamp | inc | tag | const
	W   string `json:"w,omitempty"`   // pre|post|spre|spost|proc
	Tag string `json:"tag,omitempty"` // stamp
	C   int    `json:"c"`             // inc: counter
	D   int    `json:"d"`             // inc: amount
	Rep int    `json:"rep,omitempty"` // inc: repetitions
	T   string `json:"t,omitempty"`   // tag
	V   string `json:"v,omitempty"`   // const
}

type c11Node struct {
	Key   string    `json:"key"`
	Preds []int     `json:"preds"`          // indices into Nodes; empty = fed by START
	Join  bool      `json:"join,omitempty"` // fan-in node: input is the map of its predecessors' outputs
	Pre   string    `json:"pre,omitempty"`  // "" | plain | stream
	Post  string    `json:"post,omitempty"` // "" | plain | stream
	Body  []c11Op   `json:"body,omitempty"`
	Sub   *c11Graph `json:"sub,omitempty"`   // the node is a nested graph
	Rerun bool      `json:"rerun,omitempty"` // resume family: the body returns InterruptAndRerun the first time
	Role  string    `json:"role,omitempty"`  // eager family: holder | witness | late (barrier roles)
}

type c11Graph struct {
	Mode     string    `json:"mode"` // pregel | dag | workflow
	Stateful bool      `json:"stateful"`
	Nodes    []c11Node `json:"nodes"`            // topological order; the last node feeds END
	Before   []string  `json:"before,omitempty"` // resume family: interrupt options of this graph level
	After    []string  `json:"after,omitempty"`
	// resume family: a Pregel cycle.  After node LoopFrom a branch leads back to node LoopTo
	// (LoopTo <= LoopFrom) LoopN more times, then on to the next node / END: the nodes
	// LoopTo..LoopFrom are executed LoopN+1 times.  LoopN = 0: no cycle.
	LoopFrom int `json:"loopFrom,omitempty"`
	LoopTo   int `json:"loopTo,omitempty"`
	LoopN    int `json:"loopN,omitempty"`
}

type c11Interrupt struct {
	Before []string `json:"before,omitempty"`
	After  []string `json:"after,omitempty"`
	Mod    *struct {
		C int `json:"c"`
		D int `json:"d"`
	} `json:"mod,omitempty"`
}

type c11Case struct {
	Kind      string        `json:"kind"` // graph | misuse | resume | eager | paths
	G         c11Graph      `json:"g"`
	Ctrs      int           `json:"ctrs"`
	Paradigm  string        `json:"paradigm"` // invoke | stream
	Runs      int           `json:"runs"`     // concurrent top-level runs of the compiled graph
	Interrupt *c11Interrupt `json:"interrupt,omitempty"`
	Micro     uint64        `json:"micro,omitempty"`
	Misuse    string        `json:"misuse,omitempty"`
	Mods      []int         `json:"mods,omitempty"`    // resume/eager family: per resume, 0 = without a state modifier, D = with
	Wrapped   bool          `json:"wrapped,omitempty"` // eager family: the Workflow is a graph node of a stateless parent
	IntKind   string        `json:"intKind,omitempty"` // eager family: before | after | rerun
	// graph family: representation of the state.  "" = *struct; the others are NON-pointer types whose
	// values share storage: mapint = map[string]int, mapany = map[string]any, box = struct value holding a slice
	StateType string `json:"stateType,omitempty"`
	// late family: the closure that keeps a handler's context (c11_late.go)
	Late *c11Late `json:"late,omitempty"`
}

// ---------- observations (child → parent) ----------

type c11NodeObs struct {
	PreIn    *string `json:"preIn,omitempty"`
	PreOut   *string `json:"preOut,omitempty"`
	BodyIn   *string `json:"bodyIn,omitempty"`
	BodyOut  *string `json:"bodyOut,omitempty"`
	PostIn   *string `json:"postIn,omitempty"`
	PostOut  *string `json:"postOut,omitempty"`
	StateIDs []int   `json:"stateIDs,omitempty"` // ids of the state objects the node's state operations got
	Probe    *int    `json:"probe,omitempty"`    // -1: ProcessState reported "no state"; else the state id
	PreN     int     `json:"preN,omitempty"`     // how often each stage ran
	BodyN    int     `json:"bodyN,omitempty"`
	PostN    int     `json:"postN,omitempty"`
	RerunN   int     `json:"rerunN,omitempty"`
	Err      string  `json:"err,omitempty"`
}

type c11StateObs struct {
	ID    int   `json:"id"`
	Gen   bool  `json:"gen"` // produced by the generator in this run (else: restored from a checkpoint)
	Ctr   []int `json:"ctr"`
	Seq   int   `json:"seq"`
	Order []int `json:"order"`
}

type c11RunObs struct {
	Class      string                 `json:"class"` // ok | error | panic | hang
	ErrText    string                 `json:"errText,omitempty"`
	Out        string                 `json:"out"`
	GenIDs     []int                  `json:"genIDs"`
	States     []c11StateObs          `json:"states"`
	Interrupts int                    `json:"interrupts"`
	IntBefore  []string               `json:"intBefore,omitempty"`
	IntAfter   []string               `json:"intAfter,omitempty"`
	IntStateID int                    `json:"intStateID"`
	Nodes      map[string]*c11NodeObs `json:"nodes"`
	Ints       []c11IntObs            `json:"ints,omitempty"`     // resume family: every interrupt of the run
	Overlaps   int                    `json:"overlaps,omitempty"` // eager family: state operations that started while another one was inside
	Barrier    string                 `json:"barrier,omitempty"`  // eager family: how the forced schedule went
	LateCalls  int                    `json:"lateCalls,omitempty"` // late family: closure calls that ran to their end
}

type c11CaseObs struct {
	Index    int         `json:"index"`
	BuildErr string      `json:"buildErr,omitempty"`
	Runs     []c11RunObs `json:"runs"`
	Misuse   string      `json:"misuse,omitempty"` // outcome class of a misuse case
	Ref      *c11RunObs  `json:"ref,omitempty"`    // resume family: the uninterrupted reference run
}

// ---------- static structure shared by parent and child ----------

// c11Flat is one node of the whole tree with its global id (pre-order over graphs, node order
// inside a graph) and its path.
type c11Flat struct {
	Gid   int
	Path  string // "n0", "n2/m1", ...
	Graph int    // index of the graph instance (pre-order)
	Node  *c11Node
	Par   int // gid of the sub-graph node containing it (-1 at top level)
}

type c11Layout struct {
	Nodes  []c11Flat
	Graphs []*c11Graph // pre-order
	GPar   []int       // parent graph index
	GNodes [][]int     // gids of the nodes of each graph, node order
	GOwner []int       // gid of the node that embeds the graph (-1 for the root)
}

func c11LayoutOf(g *c11Graph) *c11Layout {
	l := &c11Layout{}
	var walk func(g *c11Graph, prefix string, par int, pgraph int)
	walk = func(g *c11Graph, prefix string, par int, pgraph int) {
		gi := len(l.Graphs)
		l.Graphs = append(l.Graphs, g)
		l.GPar = append(l.GPar, pgraph)
		l.GNodes = append(l.GNodes, nil)
		l.GOwner = append(l.GOwner, par)
		// ids of this graph's own nodes first keep node order; sub-graphs are walked after
		// assigning the id of the embedding node
		for i := range g.Nodes {
			n := &g.Nodes[i]
			gid := len(l.Nodes)
			l.Nodes = append(l.Nodes, c11Flat{Gid: gid, Path: prefix + n.Key, Graph: gi, Node: n, Par: par})
			l.GNodes[gi] = append(l.GNodes[gi], gid)
			if n.Sub != nil {
				walk(n.Sub, prefix+n.Key+"/", gid, gi)
			}
		}
	}
	walk(g, "", -1, -1)
	return l
}

func c11TreeJSON(g *c11Graph) map[string]any {
	subs := []any{}
	for i := range g.Nodes {
		if g.Nodes[i].Sub != nil {
			subs = append(subs, c11TreeJSON(g.Nodes[i].Sub))
		}
	}
	return map[string]any{"s": g.Stateful, "subs": subs}
}

// ---------- generator ----------

func c11GenBody(r *vh.Rand, key string, ctrs int, withState bool, quick bool) []c11Op {
	ops := []c11Op{{O: "tag", T: "b" + key}}
	if !withState {
		return ops
	}
	nInc := r.Range(1, 3)
	for i := 0; i < nInc; i++ {
		rep := r.Range(5, 40)
		if r.Chance(25) {
			rep = r.Range(60, 150)
		}
		if !quick && r.Chance(15) {
			rep = r.Range(200, 600)
		}
		ops = append(ops, c11Op{O: "inc", W: "proc", C: r.Intn(ctrs), D: r.Range(1, 5), Rep: rep})
		if r.Chance(40) {
			ops = append(ops, c11Op{O: "stamp", W: "proc", Tag: "s" + key + ":"})
		}
	}
	if r.Chance(50) {
		ops = append(ops, c11Op{O: "tag", T: "e" + key})
	}
	return ops
}

func c11HandlerKind(r *vh.Rand, p int) string {
	if !r.Chance(p) {
		return ""
	}
	if r.Chance(35) {
		return "stream"
	}
	return "plain"
}

// c11GenGraph: layers of parallel branches (chains of 1-2 nodes) each closed by a join node.
// visible: is a state object visible to the nodes of this graph (own or inherited).
func c11GenGraph(r *vh.Rand, prefix string, depth int, parentVisible bool, ctrs int, quick bool, forceStateful bool) c11Graph {
	g := c11Graph{Mode: []string{"pregel", "dag", "workflow"}[r.Intn(3)]}
	g.Stateful = forceStateful || r.Chance(65)
	visible := g.Stateful || parentVisible
	layers := 1
	if depth == 0 && r.Chance(45) {
		layers = 2
	}
	src := -1 // index of the node feeding the layer (-1 = START)
	for L := 0; L < layers; L++ {
		w := r.Range(2, 4)
		if depth == 0 && r.Chance(35) {
			w = r.Range(4, 6)
		}
		blen := make([]int, w)
		same := r.Range(1, 2)
		for i := range blen {
			blen[i] = same
			if g.Mode != "pregel" && r.Chance(40) {
				blen[i] = r.Range(1, 2)
			}
		}
		var lasts []int
		for b := 0; b < w; b++ {
			prev := src
			for d := 0; d < blen[b]; d++ {
				key := fmt.Sprintf("%sL%db%dd%d", prefix, L, b, d)
				n := c11Node{Key: key}
				if prev >= 0 {
					n.Preds = []int{prev}
				} else {
					n.Preds = []int{}
				}
				if depth < 2 && r.Chance(map[int]int{0: 9, 1: 6}[depth]) {
					sub := c11GenGraph(r, key+"_", depth+1, visible, ctrs, quick, false)
					n.Sub = &sub
					if g.Stateful { // handlers of the embedding node work on this graph's state
						n.Pre = c11HandlerKind(r, 70)
						n.Post = c11HandlerKind(r, 70)
					}
				} else {
					n.Body = c11GenBody(r, key, ctrs, visible, quick)
					if g.Stateful {
						n.Pre = c11HandlerKind(r, 60)
						n.Post = c11HandlerKind(r, 60)
					}
				}
				g.Nodes = append(g.Nodes, n)
				prev = len(g.Nodes) - 1
			}
			lasts = append(lasts, prev)
		}
		jkey := fmt.Sprintf("%sJ%d", prefix, L)
		j := c11Node{Key: jkey, Join: true, Preds: lasts, Body: []c11Op{{O: "tag", T: "j" + jkey}}}
		if visible && r.Chance(50) {
			j.Body = append(j.Body, c11Op{O: "inc", W: "proc", C: r.Intn(ctrs), D: 1, Rep: r.Range(1, 5)})
		}
		if g.Stateful {
			j.Post = c11HandlerKind(r, 60)
		}
		g.Nodes = append(g.Nodes, j)
		src = len(g.Nodes) - 1
	}
	return g
}

func c11Gen(r *vh.Rand, quick bool) *c11Case {
	c := &c11Case{Kind: "graph", Ctrs: r.Range(1, 3), Paradigm: "invoke", Runs: 1}
	if r.Chance(30) {
		c.Paradigm = "stream"
	}
	c.G = c11GenGraph(r, "", 0, false, c.Ctrs, quick, !r.Chance(8))
	if r.Chance(45) {
		c.Runs = r.Range(2, 8)
	}
	c.Micro = r.U64()%1000000 + 1
	// interrupt + resume: flat stateful graphs only
	flat := true
	for i := range c.G.Nodes {
		if c.G.Nodes[i].Sub != nil {
			flat = false
		}
	}
	if flat && c.G.Stateful && r.Chance(55) {
		it := &c11Interrupt{}
		g := &c.G
		// candidates by layer
		var joins, seconds, firsts []string
		for i := range g.Nodes {
			n := &g.Nodes[i]
			switch {
			case n.Join:
				joins = append(joins, n.Key)
			case len(n.Preds) == 1 && !g.Nodes[n.Preds[0]].Join && strings.HasPrefix(n.Key, "L0"):
				seconds = append(seconds, n.Key)
			case strings.HasPrefix(n.Key, "L0") && len(n.Preds) == 0:
				firsts = append(firsts, n.Key)
			}
		}
		switch k := r.Intn(3); {
		case k == 0 || (k == 1 && len(seconds) == 0):
			it.Before = []string{joins[0]}
		case k == 1:
			for _, s := range seconds {
				if len(it.Before) == 0 || r.Bool() {
					it.Before = append(it.Before, s)
				}
			}
		default:
			for _, s := range firsts {
				if len(it.After) == 0 || r.Bool() {
					it.After = append(it.After, s)
				}
			}
		}
		if r.Chance(75) {
			it.Mod = &struct {
				C int `json:"c"`
				D int `json:"d"`
			}{C: r.Intn(c.Ctrs), D: r.Range(1, 1000)}
		}
		c.Interrupt = it
		if c.G.Mode == "workflow" {
			// stream-mode interrupt of a Workflow with field mappings fails in the checkpoint
			// conversion ("cannot convert sr to streamReader[string]"): C05's subject, avoided here
			c.Paradigm = "invoke"
		}
	}
	// the state need not be a pointer: maps and struct values holding slices are shared by all the
	// handlers of a run just the same (no checkpoint here: these types do not go through a store)
	if c.Interrupt == nil && c.G.Stateful && r.Chance(45) {
		c.StateType = []string{"mapint", "mapany", "box"}[r.Intn(3)]
	}
	return c
}

// ---------- parent side ----------

var c11RaceRe = regexp.MustCompile(`(?m)^  ([^\s\[\(]+(?:\(\*[A-Za-z0-9_]+\))?[^\s\[\(]*)`)

func c11IsRaceBuild() bool {
	if bi, ok := debug.ReadBuildInfo(); ok {
		for _, s := range bi.Settings {
			if s.Key == "-race" && s.Value == "true" {
				return true
			}
		}
	}
	return false
}

// c11RunChild executes the cases in a child process; returns the observations (by index),
// the race reports (by case index) and a crash description.
func c11RunChild(ctx *vh.Ctx, cases []*c11Case, tag string) (map[int]*c11CaseObs, map[int][]string, string) {
	dir, err := os.MkdirTemp("", "c11-")
	if err != nil {
		return nil, nil, "tempdir: " + err.Error()
	}
	defer os.RemoveAll(dir)
	in, out := dir+"/in.json", dir+"/out.jsonl"
	b, _ := json.Marshal(cases)
	os.WriteFile(in, b, 0o644)
	cmd := exec.Command(os.Args[0], "-prop", "C11", "-seed", fmt.Sprint(ctx.Seed), "-tier", ctx.Tier)
	cmd.Env = append(os.Environ(), "VH_C11_CHILD_IN="+in, "VH_C11_CHILD_OUT="+out,
		"GORACE=exitcode=77 halt_on_error=0 history_size=2")
	var stderr bytes.Buffer
	cmd.Stderr = &stderr
	cmd.Stdout = &stderr
	done := make(chan error, 1)
	if err := cmd.Start(); err != nil {
		return nil, nil, "start child: " + err.Error()
	}
	go func() { done <- cmd.Wait() }()
	limit := 8*time.Minute + time.Duration(len(cases))*2*time.Second
	crash := ""
	select {
	case err := <-done:
		if err != nil {
			if ee, ok := err.(*exec.ExitError); ok {
				if ee.ExitCode() != 77 {
					crash = fmt.Sprintf("child exit %d", ee.ExitCode())
				}
			} else {
				crash = "child: " + err.Error()
			}
		}
	case <-time.After(limit):
		cmd.Process.Kill()
		<-done
		crash = "child timeout"
	}
	obs := map[int]*c11CaseObs{}
	if f, err := os.ReadFile(out); err == nil {
		for _, line := range bytes.Split(f, []byte("\n")) {
			if len(bytes.TrimSpace(line)) == 0 {
				continue
			}
			var o c11CaseObs
			if json.Unmarshal(line, &o) == nil {
				oo := o
				obs[o.Index] = &oo
			}
		}
	}
	// race reports, attributed to the case whose marker precedes them
	races := map[int][]string{}
	cur := -1
	text := stderr.String()
	blocks := strings.Split(text, "\n")
	var rep []string
	inRep := false
	for _, line := range blocks {
		if strings.HasPrefix(line, "C11CASE ") {
			fmt.Sscanf(line, "C11CASE %d", &cur)
			continue
		}
		if strings.HasPrefix(line, "WARNING: DATA RACE") {
			inRep = true
			rep = nil
		}
		if inRep {
			rep = append(rep, line)
			if strings.HasPrefix(line, "==================") && len(rep) > 1 {
				races[cur] = append(races[cur], strings.Join(rep, "\n"))
				inRep = false
			}
		}
	}
	if crash != "" {
		tail := text
		if len(tail) > 3000 {
			tail = tail[len(tail)-3000:]
		}
		crash += " (last case marker " + fmt.Sprint(cur) + ")\n" + tail
	}
	return obs, races, crash
}

// c11RaceSite: the first frame of the report inside eino's compose package (else the first frame).
func c11RaceSite(report string) string {
	first := ""
	for _, m := range c11RaceRe.FindAllStringSubmatch(report, -1) {
		f := m[1]
		if strings.HasSuffix(f, ".") { // generic receiver: name cut at the bracket
			continue
		}
		if first == "" {
			first = f
		}
		if i := strings.Index(f, "/eino/compose."); i >= 0 {
			f = f[i+len("/eino/"):]
			if j := strings.Index(f, "["); j >= 0 {
				f = f[:j]
			}
			f = strings.TrimSuffix(f, ".func1")
			return f
		}
	}
	if i := strings.LastIndex(first, "/"); i >= 0 {
		first = first[i+1:]
	}
	return first
}

type c11ModelRun struct {
	Conforms  bool       `json:"conforms"`
	Ctr       []int      `json:"ctr"`
	Seq       int        `json:"seq"`
	Vals      [][]string `json:"vals"`
	Remaining []int      `json:"remaining"`
	AtInt     *struct {
		Ctr []int `json:"ctr"`
		Seq int   `json:"seq"`
	} `json:"atInt"`
	Micro *struct {
		Done bool  `json:"done"`
		Ctr  []int `json:"ctr"`
		Seq  int   `json:"seq"`
	} `json:"micro"`
}

func c11Shape(c *c11Case) string {
	l := c11LayoutOf(&c.G)
	modes := ""
	for _, g := range l.Graphs {
		modes += g.Mode[:1]
		if g.Stateful {
			modes += "S"
		}
	}
	it := "-"
	if c.Interrupt != nil {
		it = fmt.Sprintf("b%da%d", len(c.Interrupt.Before), len(c.Interrupt.After))
		if c.Interrupt.Mod != nil {
			it += "m"
		}
	}
	if c.StateType != "" {
		it += "/" + c.StateType
	}
	return fmt.Sprintf("%s/n%d/%s/r%d/%s", modes, len(l.Nodes), c.Paradigm, c.Runs, it)
}

func c11Sig(c *c11Case, what string) string {
	extra := ""
	if c.Interrupt != nil {
		extra += ":interrupt"
	}
	if len(c11LayoutOf(&c.G).Graphs) > 1 {
		extra += ":nested"
	}
	if c.StateType != "" {
		extra += ":state=" + c.StateType
	}
	return "C11:" + what + ":mode=" + c.G.Mode + extra
}

func c11Str(p *string) string {
	if p == nil {
		return "<unset>"
	}
	return *p
}

// c11ExpandOps: the operations of a node's pipeline in program order, as the oracle reads them.
func c11NodeOps(n *c11Node, gid int, subOut string) (ops []c11Op, preLen, bodyLen int) {
	hw := func(kind, plain, stream string) string {
		if kind == "stream" {
			return stream
		}
		return plain
	}
	if n.Pre != "" {
		ops = append(ops, c11Op{O: "stamp", W: hw(n.Pre, "pre", "spre"), Tag: fmt.Sprintf("p%d:", gid)})
		preLen = 1
	}
	if n.Sub != nil {
		ops = append(ops, c11Op{O: "const", V: subOut})
		bodyLen = 1
	} else {
		for _, o := range n.Body {
			ops = append(ops, o)
			if o.O == "inc" {
				bodyLen += o.Rep
			} else {
				bodyLen++
			}
		}
	}
	if n.Post != "" {
		ops = append(ops, c11Op{O: "stamp", W: hw(n.Post, "post", "spost"), Tag: fmt.Sprintf("q%d:", gid)})
	}
	return
}

// c11Render: what a join node receives, canonically rendered.
func c11Render(m map[string]string) string {
	keys := make([]string, 0, len(m))
	for k := range m {
		keys = append(keys, k)
	}
	sort.Strings(keys)
	var sb strings.Builder
	for _, k := range keys {
		sb.WriteString(k + "=" + m[k] + ";")
	}
	return sb.String()
}

// c11Compare checks one case's observations against the model.
func c11Compare(ctx *vh.Ctx, c *c11Case, o *c11CaseObs) error {
	dis := func(what, text string, model, impl any) {
		ctx.Res.Disagree(vh.Disagreement{Signature: c11Sig(c, what), What: text, Case: c, Model: model, Impl: impl})
	}
	if o.BuildErr != "" {
		dis("build-error", "the stateful graph could not be built/compiled: "+o.BuildErr, nil, o)
		return nil
	}
	l := c11LayoutOf(&c.G)
	// ---- mutual exclusion, observed directly (non-pointer state types): no state operation may
	// start while another one is inside its user code on the same state object ----
	for ri := range o.Runs {
		if n := o.Runs[ri].Overlaps; n > 0 {
			dis("mutual-exclusion", fmt.Sprintf("run %d: %d state operation(s) (pre-handler / post-handler / ProcessState callback) started while another one was inside its user code on the SAME state object (state type %s: not a pointer, but its values share storage); the model has one mutex per state object, whatever its type", ri, n, c.StateType), 0, map[string]any{"overlaps": n, "class": o.Runs[ri].Class})
			return nil
		}
	}
	// ---- allocation: which state object does each graph of each run see ----
	raw, err := ctx.Oracle.Ask("C11", map[string]any{"k": "alloc", "tree": c11TreeJSON(&c.G), "runs": len(o.Runs)})
	if err != nil {
		return err
	}
	var alloc struct {
		Runs [][]*int `json:"runs"`
	}
	if err := json.Unmarshal(raw, &alloc); err != nil {
		return err
	}
	relabel := func(rows [][]*int) [][]int {
		m := map[int]int{}
		out := make([][]int, len(rows))
		for i, row := range rows {
			for _, a := range row {
				if a == nil {
					out[i] = append(out[i], -1)
					continue
				}
				if _, ok := m[*a]; !ok {
					m[*a] = len(m)
				}
				out[i] = append(out[i], m[*a])
			}
		}
		return out
	}
	implRows := make([][]*int, len(o.Runs))
	allOK := true
	for ri := range o.Runs {
		run := &o.Runs[ri]
		if run.Class != "ok" {
			allOK = false
			dis("run-"+run.Class, fmt.Sprintf("run %d of %d did not complete: %s %s", ri, len(o.Runs), run.Class, run.ErrText), nil, run)
			continue
		}
		for gi := range l.Graphs {
			// the probe of the graph's first node
			first := l.Nodes[l.GNodes[gi][0]]
			var id *int
			for _, gid := range l.GNodes[gi] {
				if no := run.Nodes[l.Nodes[gid].Path]; no != nil && no.Probe != nil {
					v := *no.Probe
					if v >= 0 {
						id = &v
					}
					break
				}
			}
			_ = first
			implRows[ri] = append(implRows[ri], id)
		}
	}
	if !allOK {
		return nil
	}
	mRows, iRows := relabel(alloc.Runs), relabel(implRows)
	if !vh.CanonEq(mRows, iRows) {
		dis("state-identity", "which state object the graphs of the runs see (canonical ids, per run, graphs in pre-order; -1 = none) differs from per-run allocation", mRows, iRows)
		return nil
	}
	for ri := range o.Runs {
		run := &o.Runs[ri]
		distinct := map[int]bool{}
		for _, a := range mRows[ri] {
			if a >= 0 {
				distinct[a] = true
			}
		}
		if len(run.GenIDs) != len(distinct) {
			dis("generator-calls", fmt.Sprintf("run %d: the state generator was called %d times, the model allocates %d objects", ri, len(run.GenIDs), len(distinct)), len(distinct), run.GenIDs)
			return nil
		}
	}
	// ---- per run, per state object: the serial replay ----
	for ri := range o.Runs {
		run := &o.Runs[ri]
		cells := map[int][]int{} // canonical cell -> graph indices
		var cellOrder []int
		for gi, a := range mRows[ri] {
			if a < 0 {
				continue
			}
			if _, ok := cells[a]; !ok {
				cellOrder = append(cellOrder, a)
			}
			cells[a] = append(cells[a], gi)
		}
		// impl state id of each cell
		cellID := map[int]int{}
		for gi, a := range iRows[ri] {
			if a >= 0 && implRows[ri][gi] != nil {
				cellID[a] = *implRows[ri][gi]
			}
		}
		// observed first input and final value of every node
		obsIn := func(gid int) *string { return nil }
		var obsInRec func(gid int) *string
		obsInRec = func(gid int) *string {
			f := l.Nodes[gid]
			no := run.Nodes[f.Path]
			if no == nil {
				return nil
			}
			if f.Node.Pre != "" {
				return no.PreIn
			}
			if f.Node.Sub != nil {
				// the first node of the nested graph
				for gi := range l.Graphs {
					if l.GOwner[gi] == gid {
						return obsInRec(l.GNodes[gi][0])
					}
				}
				return nil
			}
			return no.BodyIn
		}
		obsIn = obsInRec
		// the value a nested graph returned, as observed (final value of its last node)
		obsFinal := func(gid int) *string {
			f := l.Nodes[gid]
			no := run.Nodes[f.Path]
			if no == nil {
				return nil
			}
			if f.Node.Post != "" {
				return no.PostOut
			}
			return no.BodyOut
		}
		var subOut func(gid int) string
		subOut = func(gid int) string {
			for gi := range l.Graphs {
				if l.GOwner[gi] == gid {
					last := l.GNodes[gi][len(l.GNodes[gi])-1]
					if l.Nodes[last].Node.Sub != nil && l.Nodes[last].Node.Post == "" {
						return subOut(last)
					}
					return c11Str(obsFinal(last))
				}
			}
			return "<no-sub>"
		}
		modelFinal := map[int]string{}    // gid -> model's final value of the node
		modelAfterPre := map[int]string{} // gid -> model's value handed to the body
		type cellRes struct {
			tasks []int
			model c11ModelRun
		}
		results := map[int]*cellRes{}
		for _, cell := range cellOrder {
			var tasks []int
			for _, gi := range cells[cell] {
				tasks = append(tasks, l.GNodes[gi]...)
			}
			local := map[int]int{}
			for i, gid := range tasks {
				local[gid] = i
			}
			var tj []map[string]any
			for _, gid := range tasks {
				f := l.Nodes[gid]
				so := ""
				if f.Node.Sub != nil {
					so = subOut(gid)
				}
				ops, pl, bl := c11NodeOps(f.Node, gid, so)
				tot := pl + bl
				if f.Node.Post != "" {
					tot++
				}
				tj = append(tj, map[string]any{"in": c11Str(obsIn(gid)), "ops": ops, "cut": []int{0, pl, pl + bl, tot}})
			}
			// the state objects of this cell: the generator's and the ones restored on resume
			var sts []c11StateObs
			for _, s := range run.States {
				if s.ID == cellID[cell] {
					sts = append(sts, s)
				}
			}
			sort.SliceStable(sts, func(i, j int) bool {
				if sts[i].Gen != sts[j].Gen {
					return sts[i].Gen
				}
				return len(sts[i].Order) < len(sts[j].Order)
			})
			if len(sts) == 0 || !sts[0].Gen {
				dis("state-object-missing", fmt.Sprintf("run %d: no generator-made state object observed for cell %d", ri, cell), nil, run)
				return nil
			}
			toLocal := func(order []int) ([]int, bool) {
				out := make([]int, 0, len(order))
				for _, g := range order {
					li, ok := local[g]
					if !ok {
						return nil, false
					}
					out = append(out, li)
				}
				return out, true
			}
			q := map[string]any{"k": "run", "init": map[string]any{"ctr": make([]int, c.Ctrs), "seq": 0}, "tasks": tj}
			first, last := sts[0], sts[len(sts)-1]
			o1, ok1 := toLocal(first.Order)
			if !ok1 {
				dis("foreign-operation", fmt.Sprintf("run %d: the state object of cell %d logged an operation of a node that works on another state object", ri, cell), nil, first)
				return nil
			}
			q["order"] = o1
			total := 0
			for _, t := range tj {
				for _, op := range t["ops"].([]c11Op) {
					if op.O == "inc" {
						total += op.Rep
					} else {
						total++
					}
				}
			}
			if total <= 500 {
				q["micro"] = c.Micro
			}
			resumed := run.Interrupts > 0 && len(sts) > 1
			if resumed {
				if len(last.Order) < len(first.Order) || !vh.CanonEq(last.Order[:len(first.Order)], first.Order) {
					dis("resume-log", fmt.Sprintf("run %d: the operation log of the restored state does not extend the log at the interrupt", ri), first.Order, last.Order)
					return nil
				}
				o2, ok2 := toLocal(last.Order[len(first.Order):])
				if !ok2 {
					dis("foreign-operation", fmt.Sprintf("run %d: restored state logged a foreign operation", ri), nil, last)
					return nil
				}
				var mod any
				if c.Interrupt != nil && c.Interrupt.Mod != nil {
					mod = c.Interrupt.Mod
				}
				q["resume"] = map[string]any{"mod": mod, "order": o2}
			}
			if dump := os.Getenv("VH_C11_DUMP"); dump != "" { // debugging aid: the oracle queries of this run
				if f, err := os.OpenFile(dump, os.O_APPEND|os.O_CREATE|os.O_WRONLY, 0o644); err == nil {
					b, _ := json.Marshal(map[string]any{"p": "C11", "case": q})
					f.Write(append(b, '\n'))
					f.Close()
				}
			}
			raw, err := ctx.Oracle.Ask("C11", q)
			if err != nil {
				return err
			}
			var m c11ModelRun
			if err := json.Unmarshal(raw, &m); err != nil {
				return err
			}
			results[cell] = &cellRes{tasks: tasks, model: m}
			implFinal := map[string]any{"ctr": last.Ctr, "seq": last.Seq}
			modelFinalSt := map[string]any{"ctr": m.Ctr, "seq": m.Seq}
			if !m.Conforms {
				dis("trace-order", fmt.Sprintf("run %d: the commit order logged in the state is not a trace of the model: an operation was logged for a node whose pipeline has no state operation pending there (pre/body/post order broken, or an operation ran twice)", ri), m.Remaining, last.Order)
				return nil
			}
			for i, rem := range m.Remaining {
				if rem != 0 {
					dis("operation-lost", fmt.Sprintf("run %d: node %s has %d operation(s) that never reached the state log", ri, l.Nodes[tasks[i]].Path, rem), m.Remaining, last.Order)
					return nil
				}
			}
			if resumed && !vh.CanonEq(implFinal, modelFinalSt) && m.AtInt != nil &&
				vh.CanonEq(map[string]any{"ctr": m.AtInt.Ctr, "seq": m.AtInt.Seq}, map[string]any{"ctr": first.Ctr, "seq": first.Seq}) {
				dis("state-after-resume", fmt.Sprintf("run %d: the state at the interrupt agrees with the model, the final state of the resumed run does not: it is not modifier(state at interrupt) followed by the resumed operations", ri), modelFinalSt, implFinal)
				return nil
			}
			if !vh.CanonEq(implFinal, modelFinalSt) {
				dis("lost-update", fmt.Sprintf("run %d: final state of cell %d differs from the serial replay of its own operation log", ri, cell), modelFinalSt, implFinal)
				return nil
			}
			if m.Micro != nil && (!m.Micro.Done || !vh.CanonEq(m.Micro.Ctr, last.Ctr) || m.Micro.Seq != last.Seq) {
				dis("micro-model", fmt.Sprintf("run %d: counters differ from the micro-step model under a random interleaving", ri), m.Micro, implFinal)
				return nil
			}
			if resumed {
				if m.AtInt == nil || !vh.CanonEq(map[string]any{"ctr": m.AtInt.Ctr, "seq": m.AtInt.Seq}, map[string]any{"ctr": first.Ctr, "seq": first.Seq}) {
					dis("state-at-interrupt", fmt.Sprintf("run %d: state at the interrupt differs from the model", ri), m.AtInt, first)
					return nil
				}
			}
			// ---- values along each pipeline ----
			for i, gid := range tasks {
				f := l.Nodes[gid]
				no := run.Nodes[f.Path]
				vals := m.Vals[i]
				if len(vals) != 4 {
					return fmt.Errorf("oracle: vals of task %d has %d entries", i, len(vals))
				}
				// vals: input, after the pre-handler, after the body, after the post-handler
				modelFinal[gid] = vals[3]
				modelAfterPre[gid] = vals[1]
				chk := func(stage string, got *string, want string) bool {
					if got == nil || *got != want {
						dis("value-flow-"+stage, fmt.Sprintf("run %d node %s: %s is %q on the implementation, %q in the model", ri, f.Path, stage, c11Str(got), want), want, no)
						return false
					}
					return true
				}
				if no == nil {
					dis("node-not-run", fmt.Sprintf("run %d: node %s left no observation", ri, f.Path), nil, nil)
					return nil
				}
				want1 := 1
				if f.Node.Pre != "" {
					if no.PreN != want1 {
						dis("handler-count", fmt.Sprintf("run %d node %s: pre-handler ran %d times", ri, f.Path, no.PreN), 1, no)
						return nil
					}
					if !chk("pre-returned", no.PreOut, vals[1]) {
						return nil
					}
				}
				if f.Node.Sub == nil {
					if no.BodyN != 1 {
						dis("body-count", fmt.Sprintf("run %d node %s: body ran %d times", ri, f.Path, no.BodyN), 1, no)
						return nil
					}
					if !chk("body-received", no.BodyIn, vals[1]) || !chk("body-returned", no.BodyOut, vals[2]) {
						return nil
					}
				}
				if f.Node.Post != "" {
					if no.PostN != 1 {
						dis("handler-count", fmt.Sprintf("run %d node %s: post-handler ran %d times", ri, f.Path, no.PostN), 1, no)
						return nil
					}
					if !chk("post-received", no.PostIn, vals[2]) || !chk("post-returned", no.PostOut, vals[3]) {
						return nil
					}
				}
				for _, sid := range no.StateIDs {
					if sid != cellID[cell] {
						dis("state-identity", fmt.Sprintf("run %d node %s: a state operation got state object %d, its graph's object is %d", ri, f.Path, sid, cellID[cell]), cellID[cell], no)
						return nil
					}
				}
			}
		}
		// nodes of graphs that see no state: values are pure
		for gi, a := range mRows[ri] {
			if a >= 0 {
				continue
			}
			for _, gid := range l.GNodes[gi] {
				f := l.Nodes[gid]
				no := run.Nodes[f.Path]
				if f.Node.Sub != nil {
					modelAfterPre[gid] = c11Str(obsIn(gid))
					modelFinal[gid] = subOut(gid)
					continue
				}
				v := c11Str(obsIn(gid))
				modelAfterPre[gid] = v
				for _, op := range f.Node.Body {
					if op.O == "tag" {
						v += "|" + op.T
					}
				}
				modelFinal[gid] = v
				if no == nil || no.BodyOut == nil || *no.BodyOut != v {
					dis("value-flow-body-returned", fmt.Sprintf("run %d node %s (no state): body returned %q, expected %q", ri, f.Path, c11Str(no.BodyOut), v), v, no)
					return nil
				}
			}
		}
		// ---- edges: what every node received is what its predecessors' pipelines returned ----
		for gi, g := range l.Graphs {
			for ni := range g.Nodes {
				gid := l.GNodes[gi][ni]
				n := &g.Nodes[ni]
				got := obsIn(gid)
				want := ""
				switch {
				case len(n.Preds) == 0 && l.GOwner[gi] < 0:
					want = "x"
				case len(n.Preds) == 0:
					want = modelAfterPre[l.GOwner[gi]]
				case n.Join:
					m := map[string]string{}
					for _, p := range n.Preds {
						m[g.Nodes[p].Key] = modelFinal[l.GNodes[gi][p]]
					}
					want = c11Render(m)
				default:
					want = modelFinal[l.GNodes[gi][n.Preds[0]]]
				}
				if got == nil || *got != want {
					dis("value-flow-successor", fmt.Sprintf("run %d node %s received %q; its predecessors' pipelines returned %q", ri, l.Nodes[gid].Path, c11Str(got), want), want, c11Str(got))
					return nil
				}
			}
		}
		lastTop := l.GNodes[0][len(l.GNodes[0])-1]
		if run.Out != modelFinal[lastTop] {
			dis("run-output", fmt.Sprintf("run %d returned %q, the last node's pipeline returned %q", ri, run.Out, modelFinal[lastTop]), modelFinal[lastTop], run.Out)
			return nil
		}
		if c.Interrupt != nil && run.Interrupts == 0 {
			ctx.Res.Dist("interrupt=not-hit")
		}
	}
	return nil
}

func c11Account(ctx *vh.Ctx, c *c11Case) {
	l := c11LayoutOf(&c.G)
	ctx.Res.Dist("mode=" + c.G.Mode)
	st := c.StateType
	if st == "" {
		st = "ptr"
	}
	ctx.Res.Dist("state-type=" + st)
	ctx.Res.Dist("paradigm=" + c.Paradigm)
	ctx.Res.Dist(fmt.Sprintf("runs=%d", c.Runs))
	ctx.Res.Dist(fmt.Sprintf("graphs=%d", len(l.Graphs)))
	nb := len(l.Nodes)
	switch {
	case nb <= 5:
		ctx.Res.Dist("nodes<=5")
	case nb <= 10:
		ctx.Res.Dist("nodes<=10")
	default:
		ctx.Res.Dist("nodes>10")
	}
	if c.Interrupt != nil {
		k := "interrupt=before"
		if len(c.Interrupt.After) > 0 {
			k = "interrupt=after"
		}
		ctx.Res.Dist(k)
		if c.Interrupt.Mod != nil {
			ctx.Res.Dist("modifier=yes")
		}
	} else {
		ctx.Res.Dist("interrupt=none")
	}
	stateless := 0
	for _, g := range l.Graphs {
		if !g.Stateful {
			stateless++
		}
	}
	if stateless > 0 {
		ctx.Res.Dist("has-stateless-graph")
	}
	par := 0
	for i := range c.G.Nodes {
		if len(c.G.Nodes[i].Preds) == 0 {
			par++
		}
	}
	ctx.Res.Count(c11Shape(c)+fmt.Sprintf("/%d", c.Micro%97), par >= 2 && (c.G.Stateful || len(l.Graphs) > 1))
	ctx.Res.Sample(c)
}

func c11Batch(ctx *vh.Ctx, cases []*c11Case, tag string) error {
	if len(cases) == 0 {
		return nil
	}
	t0 := time.Now()
	obs, races, crash := c11RunChild(ctx, cases, tag)
	c11ChildTime += time.Since(t0)
	fam := strings.TrimRight(tag, "0123456789")
	c11FamTime[fam] += time.Since(t0)
	ctx.Res.Extra["child_s:"+fam] = c11FamTime[fam].Seconds()
	defer func(t1 time.Time) {
		c11CompareTime += time.Since(t1)
		ctx.Res.Extra["child_s"] = c11ChildTime.Seconds()
		ctx.Res.Extra["compare_and_oracle_s"] = c11CompareTime.Seconds()
	}(time.Now())
	for i, c := range cases {
		ctx.Progress.Mark(c)
		if c.Kind == "misuse" {
			o := obs[i]
			ctx.Res.Count("misuse/"+c.Misuse, true)
			got := "<no observation>"
			if o != nil {
				got = o.Misuse
			}
			ctx.Res.Dist("misuse=" + c.Misuse + ":" + got)
			if got != "error" {
				ctx.Res.Disagree(vh.Disagreement{Signature: "C11:misuse:" + c.Misuse + ":" + got,
					What: "misuse of the state API must be reported as an error: " + c.Misuse + " gave " + got, Case: c})
			}
			continue
		}
		if c.Kind == "late" {
			c11LateAccount(ctx, c)
		} else if c.Kind == "paths" {
			c11PathsAccount(ctx, c)
		} else if c.Kind == "resume" || c.Kind == "eager" {
			c11ResumeAccount(ctx, c)
		} else {
			c11Account(ctx, c)
		}
		for _, rep := range races[i] {
			site := c11RaceSite(rep)
			if len(rep) > 4000 {
				rep = rep[:4000]
			}
			ctx.Res.Dist("data-race")
			ctx.Res.Disagree(vh.Disagreement{Signature: "C11:data-race:" + site,
				What: "the race detector reported a data race while state handlers / ProcessState callbacks were running (" + site + ")", Case: c, Impl: rep})
		}
		o := obs[i]
		if o == nil {
			if crash != "" {
				ctx.Res.Disagree(vh.Disagreement{Signature: c11Sig(c, "child-crash"), What: "the implementation crashed or hung the child process: " + crash, Case: c})
				crash = ""
			}
			continue
		}
		var err error
		switch c.Kind {
		case "resume":
			err = c11ResumeCompare(ctx, c, o)
		case "eager":
			err = c11EagerCompare(ctx, c, o)
		case "paths":
			err = c11PathsCompare(ctx, c, o)
		case "late":
			err = c11LateCompare(ctx, c, o)
		default:
			err = c11Compare(ctx, c, o)
		}
		if err != nil {
			return err
		}
	}
	if r, ok := races[-1]; ok && len(r) > 0 {
		ctx.Res.Note("race report before the first case marker: " + c11RaceSite(r[0]))
	}
	return nil
}

var c11ChildTime, c11CompareTime time.Duration
var c11FamTime = map[string]time.Duration{}

func c11MisuseCases() []*c11Case {
	var out []*c11Case
	for _, m := range []string{"handler-on-stateless-graph", "process-state-without-state", "process-state-wrong-type", "handler-wrong-state-type"} {
		out = append(out, &c11Case{Kind: "misuse", Misuse: m})
	}
	return out
}

func runC11(ctx *vh.Ctx) error {
	if in := os.Getenv("VH_C11_CHILD_IN"); in != "" {
		return c11ChildMain(in, os.Getenv("VH_C11_CHILD_OUT"))
	}
	ctx.Res.Rule = "stateful compose graphs (Pregel / DAG / Workflow, 1-2 layers of 2-6 parallel branches of 1-2 nodes closed by join nodes, nested stateful and stateless sub-graphs, plain and stream pre/post handlers, ProcessState increments and stamps in node bodies) run 1-8 times concurrently, optionally interrupted (before/after nodes) and resumed with a StateModifier; resume family: sequential nests of 1-5 graph levels (each with or without own state) interrupted 1-3 times before/after nodes of any level or by InterruptAndRerun through a bytes-only checkpoint store and resumed with and without a StateModifier, Invoke and Stream, compared with the level-by-level resume model and the uninterrupted reference; eager family: stateful Workflows (top-level or nested) whose resume restores 2-4 tasks that run in parallel, one held inside a ProcessState callback by barriers while a successor created after the resume touches the state (overlap detector, N increments give N, race detector); paths family: nests up to node-path length 5 (every inner level [head] -> 1-3 sibling sub-graphs in parallel -> join, leaf levels chains with interrupt points, levels with and without own state) in which several sibling graphs interrupt at the same time, resumed with a StateModifier that dispatches on the NodePath it is called with (a different amount per graph level) and records every call: compared with nestLevels/modCalls/resumeNest (one call per restored level that has a state, with that level's own path and state; resumed state = checkpointed state modified for that path); late family: stateful eager Workflows (top-level or nested) START -> [head ->] a -> c, START -> b, side nodes, in which a user function of a (plain or stream pre-/post-handler, or a ProcessState callback of its body) creates a closure that keeps the context it was given and calls ProcessState with it after that user function has returned — the per-chunk converter of the stream a stream handler returns (run by whoever consumes the stream: the node itself, its successor, the engine concatenating on the run-loop goroutine) or a goroutine started inside the user function —, forced by barriers to call while sibling b is inside a ProcessState callback or its post-handler (overlap detector on every state operation, N increments give N, every operation in the state log, race detector), Invoke and Stream, compared with runK under lateGuard (every ProcessState call takes the lock whatever context it is called with); graph family also with NON-pointer state types whose values share storage (map[string]int, map[string]any, struct value holding a slice) under an overlap detector (no state operation may start while another is inside its user code on the same object); non-trivial = at least two parallel branches and a state object / an interrupt inside a nested level or a single level / every eager case; distinct by (modes+statefulness of all graphs, node count, paradigm, runs, interrupt shape, micro seed class)"
	if !c11IsRaceBuild() {
		ctx.Res.Note("harness binary built without -race: data races are not observed in this run")
	} else {
		ctx.Res.Note("harness binary built with -race: the child process runs the implementation under the race detector")
	}
	if ctx.Replay != nil {
		var c c11Case
		if err := json.Unmarshal(ctx.Replay, &c); err != nil {
			return err
		}
		return c11Batch(ctx, []*c11Case{&c}, "replay")
	}
	quick := !ctx.Thorough()
	n := ctx.N(140, 1500)
	if err := c11Batch(ctx, append(c11MisuseCases(), c11WitnessStatelessNested(), c11WitnessSiblingPaths()), "misuse"); err != nil {
		return err
	}
	// three families, interleaved chunk by chunk so that a budget cut-off starves none of them:
	// sequential nests interrupted at any level (resume), eager Workflows resuming several
	// restored tasks in parallel (eager), parallel stateful graphs (graph)
	nChain, nEager, nPaths, nLate := ctx.N(150, 900), ctx.N(54, 300), ctx.N(120, 800), ctx.N(64, 400)
	fams := []struct {
		name     string
		n, chunk int
		gen      func() *c11Case
		done     int
	}{
		{"chain", nChain, 50, func() *c11Case { return c11GenChain(ctx.Rng, quick) }, 0},
		{"late", nLate, 16, func() *c11Case { return c11GenLate(ctx.Rng, quick) }, 0},
		{"eager", nEager, 18, func() *c11Case { return c11GenEager(ctx.Rng, quick) }, 0},
		{"paths", nPaths, 40, func() *c11Case { return c11GenPaths(ctx.Rng, quick) }, 0},
		{"graph", n, 35, func() *c11Case { return c11Gen(ctx.Rng, quick) }, 0},
	}
	for more := true; more && ctx.TimeLeft(); {
		more = false
		for fi := range fams {
			f := &fams[fi]
			if f.done >= f.n || !ctx.TimeLeft() {
				continue
			}
			var cases []*c11Case
			for i := 0; i < f.chunk && f.done+i < f.n; i++ {
				cases = append(cases, f.gen())
			}
			if err := c11Batch(ctx, cases, fmt.Sprint(f.name, f.done)); err != nil {
				return err
			}
			f.done += len(cases)
			more = more || f.done < f.n
		}
	}
	return nil
}
