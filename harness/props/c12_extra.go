//go:build verif && (vh_all || vh_c12)

package props

// C12, continued: (a) "fails loudly" probes for shapes outside the modelled universe,
// (b) the registry discipline (empty key), (c) the black-box path: a graph run is
// interrupted, its checkpoint (channels, pending inputs, state) goes through
// serialization.Marshal into a store, a second run resumes from the stored bytes.

import (
	"context"
	"fmt"
	"reflect"
	"sync"
	"time"

	"github.com/cloudwego/eino/compose"
	"github.com/cloudwego/eino/internal/serialization"
	"github.com/cloudwego/eino/verifharness/vh"
)

type c12Arr struct {
	A [2]int
	B int
}
type c12EmptyKey struct{ A int }

func init() {
	c12Register[c12Arr]("c12_arr")
}

type c12LoudProbe struct {
	name string
	mk   func() any
}

// values the serialiser cannot represent faithfully: the property allows an error, never a
// different value (and never a panic)
var c12LoudProbes = []c12LoudProbe{
	{"array", func() any { return [2]int{1, 2} }},
	{"array-field", func() any { return c12Arr{A: [2]int{1, 2}, B: 3} }},
	{"ptr-to-any", func() any { var a any = 5; return &a }},
	{"ptr-to-nil-any", func() any { var a any; return &a }},
	{"any-key", func() any { return map[any]int{1: 1} }},
	{"invalid-utf8", func() any { return "a\xffb" }},
	{"invalid-utf8-key", func() any { return map[string]int{"k\xff": 1} }},
	{"nan", func() any { z := 0.0; return z / z }},
	{"unregistered", func() any { return c12Unreg{A: 1} }},
	{"chan", func() any { return make(chan int) }},
	{"func-field-any", func() any { return c12Any{X: func() {}} }},
}

func c12RunLoudProbes(ctx *vh.Ctx) {
	for _, p := range c12LoudProbes {
		x := p.mk()
		ctx.Progress.Mark(map[string]any{"mode": "loud", "probe": p.name})
		impl, _ := c12RoundTrip(x, true)
		cls := c12PropClass(&impl, false)
		if cls == "" {
			cls = "ok"
		}
		ctx.Res.Dist("loud:" + p.name + "=" + impl.Enc + "/" + impl.Dec + "/" + cls)
		ctx.Res.Count("loud/"+p.name, true)
		if cls != "ok" {
			ctx.Res.Disagree(vh.Disagreement{Signature: "C12:loud:" + p.name + ":" + cls,
				What: fmt.Sprintf("a %T the serialiser cannot represent did not fail loudly: %s (%s%s%s)", x, cls, impl.EncErr, impl.DecErr, impl.Why),
				Case: map[string]any{"mode": "loud", "probe": p.name}, Impl: impl})
		}
	}
	// registry discipline: a type registered under the empty key makes the decoder take the
	// wrong branch (the value comes back as an empty slice).
	ctx.Progress.Mark(map[string]any{"mode": "loud", "probe": "empty-registry-key"})
	err := serialization.GenericRegister[c12EmptyKey]("")
	ctx.Res.Count("loud/empty-registry-key", true)
	if err != nil {
		ctx.Res.Dist("loud:empty-registry-key=rejected")
		return
	}
	impl, _ := c12RoundTrip(c12EmptyKey{A: 3}, true)
	cls := c12PropClass(&impl, true)
	ctx.Res.Dist("loud:empty-registry-key=accepted/" + cls)
	if cls != "" {
		ctx.Res.Disagree(vh.Disagreement{Signature: "C12:loud:empty-registry-key:" + cls,
			What:  "GenericRegister accepted the empty key; a value of that registered type then round-trips to a different value: " + impl.Why,
			Case:  map[string]any{"mode": "loud", "probe": "empty-registry-key"}, Impl: impl})
	}
}

// ---- black box: interrupt, store, resume ----

type c12MemStore struct{ m map[string][]byte }

func (s *c12MemStore) Get(ctx context.Context, id string) ([]byte, bool, error) {
	v, ok := s.m[id]
	return v, ok, nil
}
func (s *c12MemStore) Set(ctx context.Context, id string, cp []byte) error {
	s.m[id] = cp
	return nil
}

// c12BBRun: state *S generated once; node "1" emits `pending` (a *S) which is the pending
// input of node "2" when the run is interrupted before "2"; the resumed run must see the
// state and the pending input that were written.
func c12BBRun[S any](state *S, pending *S) (class string, gotState, gotInput *S) {
	store := &c12MemStore{m: map[string][]byte{}}
	calls := 0
	g := compose.NewGraph[string, string](compose.WithGenLocalState(func(ctx context.Context) *S {
		calls++
		if calls == 1 {
			return state
		}
		return new(S)
	}))
	g.AddLambdaNode("1", compose.InvokableLambda(func(ctx context.Context, in string) (*S, error) { return pending, nil }))
	g.AddLambdaNode("2", compose.InvokableLambda(func(ctx context.Context, in *S) (string, error) {
		gotInput = in
		return "done", nil
	}), compose.WithStatePreHandler(func(ctx context.Context, in *S, st *S) (*S, error) {
		gotState = st
		return in, nil
	}))
	g.AddEdge(compose.START, "1")
	g.AddEdge("1", "2")
	g.AddEdge("2", compose.END)
	ctx := context.Background()
	r, err := g.Compile(ctx, compose.WithCheckPointStore(store), compose.WithInterruptBeforeNodes([]string{"2"}))
	if err != nil {
		return "compile-error:" + err.Error(), nil, nil
	}
	var out string
	var e1, e2 error
	if cls := c12Guard(func() { _, e1 = r.Invoke(ctx, "start", compose.WithCheckPointID("cp")) }); cls != "" {
		return "first-run-" + cls, nil, nil
	}
	if e1 == nil {
		return "no-interrupt", nil, nil
	}
	if _, ok := compose.ExtractInterruptInfo(e1); !ok {
		return "checkpoint-write-error", nil, nil
	}
	if len(store.m["cp"]) == 0 {
		return "nothing-stored", nil, nil
	}
	if cls := c12Guard(func() { out, e2 = r.Invoke(ctx, "start", compose.WithCheckPointID("cp")) }); cls != "" {
		return "resume-" + cls, nil, nil
	}
	if e2 != nil {
		return "resume-error", nil, nil
	}
	if out != "done" {
		return "wrong-output", gotState, gotInput
	}
	return "ok", gotState, gotInput
}

type c12BBCase struct {
	Mode    string `json:"mode"` // blackbox
	StateTy int    `json:"stateTy"`
	Seed    uint64 `json:"seed"`
	NilPtr  int    `json:"nilPtr"`
	Budget  int    `json:"budget"`
	// generator knobs of c12Gen (0 = as before)
	Share    int `json:"share,omitempty"`
	UnregAny int `json:"unregAny,omitempty"`
	// Alias: the pending input IS the state (one pointer in checkpoint.State and checkpoint.Inputs)
	Alias bool `json:"alias,omitempty"`
	// Fan >= 2: node "1" has Fan successors, all interrupted: the one pointer it emitted is the
	// pending input of each of them. AllPred: trigger mode AllPredecessor instead of AnyPredecessor.
	Fan     int  `json:"fan,omitempty"`
	AllPred bool `json:"allPred,omitempty"`
}

var c12BBTypes = []string{"c12Nest", "c12Any", "c12Node", "c12PC", "c12Mp", "c12P3", "c12Hist", "c12MKs", "c12MKp", "c12UStr", "c12Leaf", "C12Task", "C12Deep", "C12PTask"}

// c12BBGen: state and pending input. loud = the values hold an unregistered type: the only
// acceptable outcomes are a refused checkpoint or a faithful restore.
func c12BBGen[S any](c *c12BBCase) (state, pending *S, loud, ok bool) {
	g := &c12Gen{r: vh.NewRand(c.Seed), nilPtr: c.NilPtr, nilCont: 0, budget: c.Budget, share: c.Share, unregAny: c.UnregAny}
	a := g.gen(c12T[S](), 0)
	g.budget = c.Budget
	b := g.gen(c12T[S](), 0) // same generator: with Share > 0 the pending input may point into the state
	var st c12Stats
	c12NewCtx().val(a, &st, 0, 0)
	c12NewCtx().val(b, &st, 0, 0)
	if st.unenc > 0 || st.badUTF8 || st.nilPtrToContainer > 0 || st.nestedContainer > 0 {
		return nil, nil, false, false
	}
	loud = !c12InUniverse(&st)
	// inside the universe: only values the white-box round trip handles (anything else is reported there)
	if !loud && (c12CheckValue(a) != "" || c12CheckValue(b) != "") {
		return nil, nil, false, false
	}
	pa, pb := reflect.New(a.Type()), reflect.New(b.Type())
	pa.Elem().Set(a)
	pb.Elem().Set(b)
	state, pending = pa.Interface().(*S), pb.Interface().(*S)
	if c.Alias {
		pending = state
	}
	return state, pending, loud, true
}

// c12BBFan: START -> "1" -> {"s0", "s1", …} -> END, interrupted before every successor.
func c12BBFan[S any](state, pending *S, width int, allPred bool) (class string, gotState *S, gotInputs []*S) {
	store := &c12MemStore{m: map[string][]byte{}}
	calls := 0
	var mu sync.Mutex
	gotInputs = make([]*S, width)
	g := compose.NewGraph[string, map[string]any](compose.WithGenLocalState(func(ctx context.Context) *S {
		calls++
		if calls == 1 {
			return state
		}
		return new(S)
	}))
	g.AddLambdaNode("1", compose.InvokableLambda(func(ctx context.Context, in string) (*S, error) { return pending, nil }))
	g.AddEdge(compose.START, "1")
	var names []string
	for i := 0; i < width; i++ {
		i, name := i, fmt.Sprintf("s%d", i)
		names = append(names, name)
		opts := []compose.GraphAddNodeOpt{compose.WithOutputKey(name)}
		if i == 0 {
			opts = append(opts, compose.WithStatePreHandler(func(ctx context.Context, in *S, st *S) (*S, error) {
				mu.Lock()
				gotState = st
				mu.Unlock()
				return in, nil
			}))
		}
		g.AddLambdaNode(name, compose.InvokableLambda(func(ctx context.Context, in *S) (string, error) {
			mu.Lock()
			gotInputs[i] = in
			mu.Unlock()
			return name, nil
		}), opts...)
		g.AddEdge("1", name)
		g.AddEdge(name, compose.END)
	}
	mode := compose.AnyPredecessor
	if allPred {
		mode = compose.AllPredecessor
	}
	ctx := context.Background()
	r, err := g.Compile(ctx, compose.WithNodeTriggerMode(mode), compose.WithCheckPointStore(store), compose.WithInterruptBeforeNodes(names))
	if err != nil {
		return "compile-error:" + err.Error(), nil, nil
	}
	var out map[string]any
	var e1, e2 error
	if cls := c12Guard(func() { _, e1 = r.Invoke(ctx, "start", compose.WithCheckPointID("cp")) }); cls != "" {
		return "first-run-" + cls, nil, nil
	}
	if e1 == nil {
		return "no-interrupt", nil, nil
	}
	if _, ok := compose.ExtractInterruptInfo(e1); !ok {
		return "checkpoint-write-error", nil, nil
	}
	if len(store.m["cp"]) == 0 {
		return "nothing-stored", nil, nil
	}
	if cls := c12Guard(func() { out, e2 = r.Invoke(ctx, "start", compose.WithCheckPointID("cp")) }); cls != "" {
		return "resume-" + cls, nil, nil
	}
	if e2 != nil {
		return "resume-error", nil, nil
	}
	for _, n := range names {
		if out[n] != n {
			return "wrong-output", gotState, gotInputs
		}
	}
	return "ok", gotState, gotInputs
}

func c12BBOne[S any](ctx *vh.Ctx, c *c12BBCase) {
	state, pending, loud, ok := c12BBGen[S](c)
	if !ok {
		ctx.Res.Dist("blackbox:skipped(not round-trippable white-box)")
		return
	}
	ctx.Progress.Mark(c)
	var class string
	var gs *S
	var gis []*S
	shape := "chain"
	if c.Fan >= 2 {
		shape = fmt.Sprintf("fan%d", c.Fan)
		class, gs, gis = c12BBFan(state, pending, c.Fan, c.AllPred)
	} else {
		var gi *S
		class, gs, gi = c12BBRun(state, pending)
		gis = []*S{gi}
	}
	if c.Alias {
		shape += "+alias"
	}
	if loud {
		shape += "+unregistered"
	}
	ctx.Res.Dist("blackbox:" + class)
	ctx.Res.Dist("blackbox-shape:" + shape + "=" + class)
	ctx.Res.Count(fmt.Sprintf("blackbox/%d/%d", c.StateTy, c.Seed), true)
	bad := func(sig, what string) {
		ctx.Res.Disagree(vh.Disagreement{Signature: "C12:blackbox:" + sig, What: what, Case: c})
	}
	if loud && class == "checkpoint-write-error" {
		return // refused loudly: the first run failed with an ordinary error, nothing was resumed
	}
	if class != "ok" {
		bad(class, "interrupt + resume through the checkpoint store ("+shape+"): "+class)
		return
	}
	if gs == nil || gs == state {
		bad("state-not-restored", "the resumed run did not get its state from the checkpoint")
		return
	}
	if eq, why := c12DeepEq(reflect.ValueOf(state), reflect.ValueOf(gs)); !eq {
		bad("state-differs", "state after resume differs from the state written: "+why)
	}
	for i, gi := range gis {
		if gi == nil {
			bad("input-not-restored", fmt.Sprintf("successor %d of %d did not run with the pending input (%s)", i, len(gis), shape))
			return
		}
		if eq, why := c12DeepEq(reflect.ValueOf(pending), reflect.ValueOf(gi)); !eq {
			bad("input-differs", "pending input after resume differs from the one written: "+why)
		}
	}
}

func c12BlackBox(ctx *vh.Ctx, c *c12BBCase) {
	switch c.StateTy % len(c12BBTypes) {
	case 0:
		c12BBOne[c12Nest](ctx, c)
	case 1:
		c12BBOne[c12Any](ctx, c)
	case 2:
		c12BBOne[c12Node](ctx, c)
	case 3:
		c12BBOne[c12PC](ctx, c)
	case 4:
		c12BBOne[c12Mp](ctx, c)
	case 5:
		c12BBOne[c12P3](ctx, c)
	case 6:
		c12BBOne[c12Hist](ctx, c)
	case 7:
		c12BBOne[c12MKs](ctx, c)
	case 8:
		c12BBOne[c12MKp](ctx, c)
	case 9:
		c12BBOne[c12UStr](ctx, c)
	case 10:
		c12BBOne[c12Leaf](ctx, c)
	case 11:
		c12BBOne[C12Task](ctx, c)
	case 12:
		c12BBOne[C12Deep](ctx, c)
	case 13:
		c12BBOne[C12PTask](ctx, c)
	}
}

var _ = time.Second
