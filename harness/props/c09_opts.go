//go:build verif && (vh_all || vh_c09)

package props

// C09 — two families about CALL OPTIONS of concurrent runs of one compiled object.
//
// optshare  ("runs do not share … options"): a graph (pregel / dag / chain / workflow, with or
//   without a nested graph) whose lambda nodes answer with the call options they were given.
//   ≥4 concurrent callers (all four paradigms) pass ONE shared `compose.Option` value – built
//   once from a slice that may have SPARE CAPACITY (`make([]any,0,n+k)` + appends, handed over
//   as `compose.WithLambdaOption(common...)`), designated or not – plus option groups of their
//   own.  A gate node at the head of every graph level is a barrier: no run executes an
//   option-reading node before every run of the wave went through the option extraction of
//   that level.  Observable: every node of every run sees exactly the concatenation, in call
//   order, of the groups of ITS call that reach the node (model: EinoV.C09.Opt.visible).
//
// toollist  a graph with a ToolsNode; every run carries its own
//   `compose.WithToolsNodeOption(compose.WithToolList(...))` (lists with the same tool names
//   and different behaviour; the same list instance shared by the runs of a wave and alternated
//   between waves; distinct lists per run; runs without the option).  The first `Info` call of a
//   run blocks until every run of the wave is inside the conversion of its list or has finished.
//   Observable: the tool calls of a run are executed by the tools of ITS list
//   (model: EinoV.C09.Tools).
//
// Both run in the -race child process like the other C09 families, but with
// GORACE=halt_on_error=0: the child finishes, so a wrong result AND a race report are both seen.

import (
	"context"
	"encoding/json"
	"errors"
	"fmt"
	"strings"
	"sync"
	"time"

	"github.com/cloudwego/eino/components/tool"
	"github.com/cloudwego/eino/compose"
	"github.com/cloudwego/eino/schema"
	"github.com/cloudwego/eino/verifharness/vh"
)

// ---- case language ----

type c09ONode struct {
	Key  string `json:"key"`
	Sub  bool   `json:"sub,omitempty"`  // the node lives in the nested graph (node "sub" of the outer one)
	Kind string `json:"kind,omitempty"` // i|s|c|t : which of the four lambda flavours reads the options
}

// one option group = one compose.Option made by WithLambdaOption
type c09OGroup struct {
	Shared int      `json:"shared,omitempty"` // k>0: the k-th shared Option VALUE of the case (one value, used by every caller)
	Target []string `json:"target,omitempty"` // nil: not designated; else the node path it is designated to (["sub"] = the whole nested graph)
	Opts   []int    `json:"opts,omitempty"`   // option ids
	Spare  int      `json:"spare,omitempty"`  // spare capacity of the slice handed to WithLambdaOption (cap = len + spare)
}

type c09OptShare struct {
	Mode   string      `json:"mode"` // pregel|dag|chain|workflow
	Nodes  []c09ONode  `json:"nodes"`
	Shared []c09OGroup `json:"shared"`
}

type c09TLTool struct {
	Name string `json:"name"`
	Mark string `json:"mark"`
	Kind string `json:"kind,omitempty"` // i invokable | s streamable | is both
}

type c09TCall struct {
	Name string `json:"name"`
	Arg  string `json:"arg"`
}

type c09ToolList struct {
	Mode   string        `json:"mode"`
	Nested bool          `json:"nested,omitempty"` // the ToolsNode lives in a nested graph
	Desig  bool          `json:"desig,omitempty"`  // the option is designated to the ToolsNode by path
	Lists  [][]c09TLTool `json:"lists"`
	Dflt   []c09TLTool   `json:"dflt"`
	Shape  string        `json:"shape"` // alternate|distinct|mixed (how lists are dealt to the runs; informational)
}

func c09IsOptKind(kind string) bool {
	return kind == "optshare" || kind == "toollist" || kind == "cbshare" || kind == "inflight" || kind == "branchmix"
}

// ---- generators ----

// k = how many cases of the family were generated before (the graph modes are dealt round-robin)
func c09GenOptShare(r *vh.Rand, k int) c09Case {
	c := c09Case{Kind: "optshare", Seed: r.U64() % 1000000}
	o := &c09OptShare{Mode: []string{"pregel", "chain", "workflow", "dag"}[k%4]}
	kinds := []string{"i", "i", "s", "c", "t"}
	nk := 0
	add := func(sub bool) {
		o.Nodes = append(o.Nodes, c09ONode{Key: fmt.Sprintf("w%d", nk), Sub: sub, Kind: kinds[r.Intn(len(kinds))]})
		nk++
	}
	nested := r.Chance(65)
	nb := r.Range(1, 3)
	if nested {
		nb = r.Range(0, 1)
	}
	for i := 0; i < nb; i++ {
		add(false)
	}
	if nested {
		for i := r.Range(1, 2); i > 0; i-- {
			add(true)
		}
		if r.Chance(40) {
			add(false)
		}
	}
	paths := [][]string{}
	for _, n := range o.Nodes {
		if n.Sub {
			paths = append(paths, []string{"sub", n.Key})
		} else {
			paths = append(paths, []string{n.Key})
		}
	}
	target := func(pNone int) []string {
		switch x := r.Intn(100); {
		case x < pNone:
			return nil
		case nested && x < pNone+12:
			return []string{"sub"}
		}
		return paths[r.Intn(len(paths))]
	}
	ns := 1
	if r.Chance(30) {
		ns = 2
	}
	for k := 0; k < ns; k++ {
		g := c09OGroup{Target: target(55)}
		for j := r.Range(1, 4); j > 0; j-- {
			g.Opts = append(g.Opts, 100*(k+1)+len(g.Opts))
		}
		if r.Chance(75) {
			g.Spare = r.Range(1, 5)
		}
		o.Shared = append(o.Shared, g)
	}
	c.Opt = o
	ng := []int{4, 4, 6, 8, 12}[r.Intn(5)]
	c.Reps = r.Range(1, 3)
	poff := r.Intn(4)
	for i := 0; i < ng; i++ {
		call := c09Call{In: fmt.Sprintf("c%d", i), Paradigm: c09Paradigms[(i+poff)%4], Chunks: r.Range(1, 2)}
		own := func(n int) c09OGroup {
			// an own group reaches what the first shared group reaches most of the time (that is
			// where a second group is appended behind the shared one)
			g := c09OGroup{Target: o.Shared[0].Target}
			if r.Chance(35) {
				g.Target = target(50)
			}
			for j := r.Range(1, 2); j > 0; j-- {
				g.Opts = append(g.Opts, 1000*(i+1)+10*n+len(g.Opts))
			}
			if r.Chance(25) {
				g.Spare = r.Range(1, 3)
			}
			return g
		}
		switch x := r.Intn(100); {
		case x < 55:
			call.Groups = []c09OGroup{{Shared: 1}, own(0)}
		case x < 70:
			call.Groups = []c09OGroup{{Shared: 1}, own(0), own(1)}
		case x < 80:
			call.Groups = []c09OGroup{own(0), {Shared: 1}}
		case x < 90:
			call.Groups = []c09OGroup{{Shared: 1}}
		default:
			call.Groups = []c09OGroup{own(0), {Shared: 1}, own(1)}
		}
		if ns == 2 {
			at := r.Intn(len(call.Groups) + 1)
			gs := append([]c09OGroup{}, call.Groups[:at]...)
			gs = append(gs, c09OGroup{Shared: 2})
			call.Groups = append(gs, call.Groups[at:]...)
		}
		c.Calls = append(c.Calls, call)
	}
	// interleaving for the model: one extraction thread per (call, node); every thread gets
	// one step per group and one to read, shuffled
	nt := len(c.Calls) * len(o.Nodes)
	for t := 0; t < nt; t++ {
		for k := len(c.Calls[t/len(o.Nodes)].Groups) + 1 + r.Intn(2); k > 0; k-- {
			c.Sched = append(c.Sched, t)
		}
	}
	c.Sched = c09Shuffle(r, c.Sched)
	return c
}

func c09Shuffle(r *vh.Rand, s []int) []int {
	p := r.Perm(len(s))
	out := make([]int, len(s))
	for i, j := range p {
		out[i] = s[j]
	}
	return out
}

func c09GenToolList(r *vh.Rand, k int) c09Case {
	c := c09Case{Kind: "toollist", Seed: r.U64() % 1000000}
	t := &c09ToolList{Mode: []string{"pregel", "chain", "workflow", "dag"}[k%4], Nested: r.Chance(30), Desig: r.Chance(50)}
	names := []string{"ta", "tb", "tc", "td"}
	tk := []string{"i", "i", "s", "is"}
	nl := r.Range(2, 4)
	for l := 0; l < nl; l++ {
		// "ta" is in every list: same name, different behaviour per list
		list := []c09TLTool{{Name: "ta", Mark: fmt.Sprintf("L%d", l), Kind: tk[r.Intn(4)]}}
		for _, n := range names[1:] {
			if r.Chance(45) {
				list = append(list, c09TLTool{Name: n, Mark: fmt.Sprintf("L%d", l), Kind: tk[r.Intn(4)]})
			}
		}
		if r.Chance(50) { // the order of a list is part of its identity
			list[0], list[len(list)-1] = list[len(list)-1], list[0]
		}
		t.Lists = append(t.Lists, list)
	}
	for _, n := range names {
		t.Dflt = append(t.Dflt, c09TLTool{Name: n, Mark: "D", Kind: tk[r.Intn(4)]})
	}
	t.Shape = []string{"alternate", "distinct", "alternate", "mixed", "alternate", "distinct"}[(k/4)%6]
	c.TL = t
	ng := []int{2, 3, 4, 4, 6, 8}[r.Intn(6)]
	c.Reps = r.Range(2, 5)
	a, b := r.Intn(nl), r.Intn(nl)
	if a == b {
		b = (a + 1) % nl
	}
	for i := 0; i < ng; i++ {
		p := []string{"invoke", "stream"}[(i+int(c.Seed))%2]
		if r.Chance(20) {
			p = []string{"collect", "transform"}[r.Intn(2)]
		}
		call := c09Call{In: fmt.Sprintf("c%d", i), Paradigm: p}
		for w := 0; w < c.Reps; w++ {
			switch t.Shape {
			case "alternate": // every run of a wave carries the SAME list instance; the list changes from wave to wave
				call.ListSeq = append(call.ListSeq, []int{a, b}[w%2])
			case "distinct":
				call.ListSeq = append(call.ListSeq, (i+w)%nl)
			default:
				call.ListSeq = append(call.ListSeq, r.Range(-1, nl-1))
			}
		}
		call.TCalls = []c09TCall{{Name: "ta", Arg: fmt.Sprintf("c%d", i)}}
		if r.Chance(40) {
			// a second tool call; its name may be missing from some of the lists (then that run fails, alone as well)
			n := names[r.Range(0, 3)]
			if r.Chance(85) {
				n = "ta"
				for _, cand := range names[1:] {
					ok := true
					for _, li := range call.ListSeq {
						if li >= 0 && !c09HasTool(t.Lists[li], cand) {
							ok = false
						}
					}
					if ok {
						n = cand
						break
					}
				}
			}
			call.TCalls = append(call.TCalls, c09TCall{Name: n, Arg: fmt.Sprintf("d%d", i)})
		}
		c.Calls = append(c.Calls, call)
	}
	nr := ng * c.Reps
	for k := 0; k < nr; k++ {
		for s := 3 + r.Intn(2); s > 0; s-- {
			c.Sched = append(c.Sched, k)
		}
	}
	c.Sched = c09Shuffle(r, c.Sched)
	return c
}

func c09HasTool(l []c09TLTool, name string) bool {
	for _, t := range l {
		if t.Name == name {
			return true
		}
	}
	return false
}

// ---- the model's view ----

func c09NodePath(n c09ONode) []string {
	if n.Sub {
		return []string{"sub", n.Key}
	}
	return []string{n.Key}
}

func c09OptOracleCase(c *c09Case) any {
	type og struct {
		Shared int      `json:"shared"`
		Desig  bool     `json:"desig"`
		Target []string `json:"target"`
		Opts   []int    `json:"opts"`
		Spare  int      `json:"spare"`
	}
	conv := func(g c09OGroup) og {
		x := og{Shared: g.Shared, Desig: g.Target != nil, Target: g.Target, Opts: g.Opts, Spare: g.Spare}
		if x.Target == nil {
			x.Target = []string{}
		}
		if x.Opts == nil {
			x.Opts = []int{}
		}
		return x
	}
	type oc struct {
		In     string `json:"in"`
		Groups []og   `json:"groups"`
	}
	nodes := [][]string{}
	for _, n := range c.Opt.Nodes {
		nodes = append(nodes, c09NodePath(n))
	}
	shared := []og{}
	for _, g := range c.Opt.Shared {
		shared = append(shared, conv(g))
	}
	calls := []oc{}
	for _, k := range c.Calls {
		x := oc{In: k.In, Groups: []og{}}
		for _, g := range k.Groups {
			x.Groups = append(x.Groups, conv(g))
		}
		calls = append(calls, x)
	}
	sched := c.Sched
	if sched == nil {
		sched = []int{}
	}
	return map[string]any{"family": "optshare", "nodes": nodes, "shared": shared, "calls": calls, "sched": sched}
}

func c09TLOracleCase(c *c09Case) any {
	type ot struct {
		Name string `json:"name"`
		Mark string `json:"mark"`
	}
	conv := func(l []c09TLTool) []ot {
		out := []ot{}
		for _, t := range l {
			out = append(out, ot{t.Name, t.Mark})
		}
		return out
	}
	type orun struct {
		HasList bool       `json:"hasList"`
		List    int        `json:"list"`
		Calls   []c09TCall `json:"calls"`
	}
	lists := [][]ot{}
	for _, l := range c.TL.Lists {
		lists = append(lists, conv(l))
	}
	runs := []orun{}
	for _, k := range c.Calls {
		for w := 0; w < c09Reps(c); w++ {
			li := c09ListOf(k, w)
			x := orun{HasList: li >= 0, Calls: k.TCalls}
			if li >= 0 {
				x.List = li
			}
			runs = append(runs, x)
		}
	}
	sched := c.Sched
	if sched == nil {
		sched = []int{}
	}
	return map[string]any{"family": "toollist", "lists": lists, "dflt": conv(c.TL.Dflt), "runs": runs, "sched": sched}
}

func c09Reps(c *c09Case) int {
	if c.Reps < 1 {
		return 1
	}
	return c.Reps
}

func c09ListOf(k c09Call, wave int) int {
	if len(k.ListSeq) == 0 {
		return -1
	}
	return k.ListSeq[wave%len(k.ListSeq)]
}

// ---- waves: barriers that never wait for a run that has already finished ----

type c09Wave struct {
	mu      sync.Mutex
	pending []int
	open    []chan struct{}
}

func c09NewWave(n, gates int) *c09Wave {
	w := &c09Wave{pending: make([]int, gates), open: make([]chan struct{}, gates)}
	for g := range w.open {
		w.pending[g] = n
		w.open[g] = make(chan struct{})
	}
	return w
}

// the run's membership of a wave, carried in the context of the call
type c09Tok struct {
	w        *c09Wave
	mu       sync.Mutex
	arrived  []bool
	timedOut bool
}

type c09TokKey struct{}

func (t *c09Tok) mark(g int) bool {
	t.mu.Lock()
	first := !t.arrived[g]
	t.arrived[g] = true
	t.mu.Unlock()
	if first {
		t.w.mu.Lock()
		t.w.pending[g]--
		if t.w.pending[g] == 0 {
			close(t.w.open[g])
		}
		t.w.mu.Unlock()
	}
	return first
}

// arrive: the first time the run reaches gate g it waits until every run of the wave has
// reached the gate or has finished its call
func (t *c09Tok) arrive(g int) {
	if t == nil || g >= len(t.arrived) {
		return
	}
	if !t.mark(g) {
		return
	}
	select {
	case <-t.w.open[g]:
	case <-time.After(15 * time.Second):
		t.mu.Lock()
		t.timedOut = true
		t.mu.Unlock()
	}
}

func (t *c09Tok) finish() {
	for g := range t.arrived {
		t.mark(g)
	}
}

func c09TokOf(ctx context.Context) *c09Tok {
	t, _ := ctx.Value(c09TokKey{}).(*c09Tok)
	return t
}

type c09Waves struct {
	mu    sync.Mutex
	n, g  int
	waves map[int]*c09Wave
}

func (ws *c09Waves) ctxFor(phase string, rep int) (context.Context, *c09Tok) {
	if phase != "conc" {
		return context.Background(), nil
	}
	ws.mu.Lock()
	w := ws.waves[rep]
	if w == nil {
		w = c09NewWave(ws.n, ws.g)
		ws.waves[rep] = w
	}
	ws.mu.Unlock()
	tok := &c09Tok{w: w, arrived: make([]bool, ws.g)}
	return context.WithValue(context.Background(), c09TokKey{}, tok), tok
}

// ---- optshare: the compiled object ----

type c09SOpt struct{ ID int }

func c09OptTags(opts []c09SOpt) string {
	p := make([]string, len(opts))
	for i, o := range opts {
		p[i] = fmt.Sprintf("o%d", o.ID)
	}
	return strings.Join(p, ",")
}

func c09OptLambda(n c09ONode) *compose.Lambda {
	body := func(in string, opts []c09SOpt) string { return in + "|" + n.Key + "=" + c09OptTags(opts) }
	switch n.Kind {
	case "s":
		return compose.StreamableLambdaWithOption(func(ctx context.Context, in string, opts ...c09SOpt) (*schema.StreamReader[string], error) {
			return schema.StreamReaderFromArray(c09Split(body(in, opts))), nil
		})
	case "c":
		return compose.CollectableLambdaWithOption(func(ctx context.Context, in *schema.StreamReader[string], opts ...c09SOpt) (string, error) {
			v, err := c09ReadAll(in)
			if err != nil {
				return "", err
			}
			return body(v, opts), nil
		})
	case "t":
		return compose.TransformableLambdaWithOption(func(ctx context.Context, in *schema.StreamReader[string], opts ...c09SOpt) (*schema.StreamReader[string], error) {
			v, err := c09ReadAll(in)
			if err != nil {
				return nil, err
			}
			return schema.StreamReaderFromArray(c09Split(body(v, opts))), nil
		})
	}
	return compose.InvokableLambdaWithOption(func(ctx context.Context, in string, opts ...c09SOpt) (string, error) {
		return body(in, opts), nil
	})
}

func c09GateLambda(g int) *compose.Lambda {
	return compose.InvokableLambda(func(ctx context.Context, in string) (string, error) {
		c09TokOf(ctx).arrive(g)
		return in, nil
	})
}

type c09Step struct {
	key string
	l   *compose.Lambda
	g   compose.AnyGraph
}

// c09Linear builds START -> steps… -> END in the given mode
func c09Linear(mode string, steps []c09Step) (compose.AnyGraph, func(ctx context.Context) (compose.Runnable[string, string], error)) {
	switch mode {
	case "chain":
		ch := compose.NewChain[string, string]()
		for _, s := range steps {
			if s.g != nil {
				ch.AppendGraph(s.g, compose.WithNodeKey(s.key))
			} else {
				ch.AppendLambda(s.l, compose.WithNodeKey(s.key))
			}
		}
		return ch, func(ctx context.Context) (compose.Runnable[string, string], error) { return ch.Compile(ctx) }
	case "workflow":
		wf := compose.NewWorkflow[string, string]()
		prev := compose.START
		for _, s := range steps {
			if s.g != nil {
				wf.AddGraphNode(s.key, s.g).AddInput(prev)
			} else {
				wf.AddLambdaNode(s.key, s.l).AddInput(prev)
			}
			prev = s.key
		}
		wf.End().AddInput(prev)
		return wf, func(ctx context.Context) (compose.Runnable[string, string], error) { return wf.Compile(ctx) }
	}
	g := compose.NewGraph[string, string]()
	var berr error
	note := func(err error) {
		if err != nil && berr == nil {
			berr = err
		}
	}
	prev := compose.START
	for _, s := range steps {
		if s.g != nil {
			note(g.AddGraphNode(s.key, s.g))
		} else {
			note(g.AddLambdaNode(s.key, s.l))
		}
		note(g.AddEdge(prev, s.key))
		prev = s.key
	}
	note(g.AddEdge(prev, compose.END))
	return g, func(ctx context.Context) (compose.Runnable[string, string], error) {
		if berr != nil {
			return nil, berr
		}
		var copts []compose.GraphCompileOption
		if mode == "dag" {
			copts = append(copts, compose.WithNodeTriggerMode(compose.AllPredecessor))
		}
		return g.Compile(ctx, copts...)
	}
}

func c09BuildOptShare(c *c09Case) (compose.Runnable[string, string], error) {
	o := c.Opt
	if o == nil || len(o.Nodes) == 0 {
		return nil, errors.New("optshare: no nodes")
	}
	var outer, inner []c09Step
	outer = append(outer, c09Step{key: "g0", l: c09GateLambda(0)})
	subPlaced := false
	for _, n := range o.Nodes {
		if n.Sub {
			if !subPlaced {
				inner = append(inner, c09Step{key: "g1", l: c09GateLambda(1)})
				outer = append(outer, c09Step{key: "sub"}) // graph filled in below
				subPlaced = true
			}
			inner = append(inner, c09Step{key: n.Key, l: c09OptLambda(n)})
			continue
		}
		outer = append(outer, c09Step{key: n.Key, l: c09OptLambda(n)})
	}
	if subPlaced {
		im := "pregel"
		if o.Mode == "chain" {
			im = "chain"
		}
		ig, _ := c09Linear(im, inner)
		for i := range outer {
			if outer[i].key == "sub" {
				outer[i].g = ig
			}
		}
	}
	_, compile := c09Linear(o.Mode, outer)
	return compile(context.Background())
}

// c09MakeGroup builds the compose.Option of one group.  The slice handed to WithLambdaOption
// has capacity len+spare: this is the caller's memory the Option keeps referring to.
func c09MakeGroup(g c09OGroup) compose.Option {
	sl := make([]any, 0, len(g.Opts)+g.Spare)
	for _, id := range g.Opts {
		sl = append(sl, c09SOpt{ID: id})
	}
	opt := compose.WithLambdaOption(sl...)
	if g.Target != nil {
		opt = opt.DesignateNodeWithPath(compose.NewNodePath(g.Target...))
	}
	return opt
}

func c09RunParadigm(ctx context.Context, r compose.Runnable[string, string], call c09Call, o []compose.Option) (string, error) {
	switch call.Paradigm {
	case "stream":
		sr, err := r.Stream(ctx, call.In, o...)
		if err != nil {
			return "", err
		}
		return c09ReadAll(sr)
	case "collect":
		return r.Collect(ctx, c09StrStream(call.In, call.Chunks), o...)
	case "transform":
		sr, err := r.Transform(ctx, c09StrStream(call.In, call.Chunks), o...)
		if err != nil {
			return "", err
		}
		return c09ReadAll(sr)
	}
	return r.Invoke(ctx, call.In, o...)
}

func c09OptShareRunner(c *c09Case, r compose.Runnable[string, string]) c09Runner {
	shared := make([]compose.Option, len(c.Opt.Shared))
	for i, g := range c.Opt.Shared {
		shared[i] = c09MakeGroup(g) // ONE value for all callers and all waves
	}
	ws := &c09Waves{n: len(c.Calls), g: 2, waves: map[int]*c09Wave{}}
	return func(ci, rep int, phase string) (obs c09Obs) {
		call := c.Calls[ci]
		ctx, tok := ws.ctxFor(phase, rep)
		defer func() {
			if p := recover(); p != nil {
				obs = c09Obs{Err: "panic", Msg: fmt.Sprint(p)}
			}
			if tok != nil {
				tok.finish()
				if tok.timedOut && obs.Err == "" {
					obs.Err = "gate-timeout"
				}
			}
		}()
		var opts []compose.Option
		for _, g := range call.Groups {
			if g.Shared > 0 && g.Shared <= len(shared) {
				opts = append(opts, shared[g.Shared-1])
			} else {
				opts = append(opts, c09MakeGroup(g))
			}
		}
		out, err := c09RunParadigm(ctx, r, call, opts)
		if err != nil {
			return c09Obs{Err: c09ErrClass(err), Msg: err.Error()}
		}
		return c09Obs{Out: out}
	}
}

// ---- toollist: the compiled object ----

type c09LTool struct {
	name, mark string
}

func (t *c09LTool) Info(ctx context.Context) (*schema.ToolInfo, error) {
	c09TokOf(ctx).arrive(0) // first Info call of the run: it is inside the conversion of its list
	return &schema.ToolInfo{Name: t.name, Desc: "tool " + t.name,
		ParamsOneOf: schema.NewParamsOneOfByParams(map[string]*schema.ParameterInfo{"reason": {Type: schema.String, Desc: "r"}})}, nil
}

func (t *c09LTool) answer(args string) string { return t.mark + ":" + t.name + "(" + args + ")" }

type c09LToolI struct{ c09LTool }

func (t *c09LToolI) InvokableRun(ctx context.Context, args string, opts ...tool.Option) (string, error) {
	return t.answer(args), nil
}

type c09LToolS struct{ c09LTool }

func (t *c09LToolS) StreamableRun(ctx context.Context, args string, opts ...tool.Option) (*schema.StreamReader[string], error) {
	return schema.StreamReaderFromArray(c09Split(t.answer(args))), nil
}

type c09LToolIS struct{ c09LTool }

func (t *c09LToolIS) InvokableRun(ctx context.Context, args string, opts ...tool.Option) (string, error) {
	return t.answer(args), nil
}

func (t *c09LToolIS) StreamableRun(ctx context.Context, args string, opts ...tool.Option) (*schema.StreamReader[string], error) {
	return schema.StreamReaderFromArray(c09Split(t.answer(args))), nil
}

func c09MkTools(l []c09TLTool) []tool.BaseTool {
	out := make([]tool.BaseTool, 0, len(l))
	for _, t := range l {
		b := c09LTool{name: t.Name, mark: t.Mark}
		switch t.Kind {
		case "s":
			out = append(out, &c09LToolS{b})
		case "is":
			out = append(out, &c09LToolIS{b})
		default:
			out = append(out, &c09LToolI{b})
		}
	}
	return out
}

func c09RenderMsgs() *compose.Lambda {
	return compose.InvokableLambda(func(ctx context.Context, ms []*schema.Message) (string, error) {
		p := make([]string, 0, len(ms))
		for _, m := range ms {
			if m == nil {
				p = append(p, "<nil>")
				continue
			}
			p = append(p, m.ToolCallID+"="+m.Content)
		}
		return strings.Join(p, ";"), nil
	})
}

func c09BuildToolList(c *c09Case) (compose.Runnable[*schema.Message, string], error) {
	ctx := context.Background()
	t := c.TL
	if t == nil {
		return nil, errors.New("toollist: no description")
	}
	tn, err := compose.NewToolNode(ctx, &compose.ToolsNodeConfig{Tools: c09MkTools(t.Dflt)})
	if err != nil {
		return nil, err
	}
	var copts []compose.GraphCompileOption
	if t.Mode == "dag" {
		copts = append(copts, compose.WithNodeTriggerMode(compose.AllPredecessor))
	}
	var sub *compose.Graph[*schema.Message, []*schema.Message]
	if t.Nested {
		sub = compose.NewGraph[*schema.Message, []*schema.Message]()
		if err := sub.AddToolsNode("tools", tn); err != nil {
			return nil, err
		}
		if err := sub.AddEdge(compose.START, "tools"); err != nil {
			return nil, err
		}
		if err := sub.AddEdge("tools", compose.END); err != nil {
			return nil, err
		}
	}
	first := "tools"
	if t.Nested {
		first = "sub"
	}
	switch t.Mode {
	case "chain":
		ch := compose.NewChain[*schema.Message, string]()
		if t.Nested {
			ch.AppendGraph(sub, compose.WithNodeKey(first))
		} else {
			ch.AppendToolsNode(tn, compose.WithNodeKey(first))
		}
		ch.AppendLambda(c09RenderMsgs(), compose.WithNodeKey("render"))
		return ch.Compile(ctx)
	case "workflow":
		wf := compose.NewWorkflow[*schema.Message, string]()
		if t.Nested {
			wf.AddGraphNode(first, sub).AddInput(compose.START)
		} else {
			wf.AddToolsNode(first, tn).AddInput(compose.START)
		}
		wf.AddLambdaNode("render", c09RenderMsgs()).AddInput(first)
		wf.End().AddInput("render")
		return wf.Compile(ctx)
	}
	g := compose.NewGraph[*schema.Message, string]()
	if t.Nested {
		err = g.AddGraphNode(first, sub)
	} else {
		err = g.AddToolsNode(first, tn)
	}
	if err != nil {
		return nil, err
	}
	if err := g.AddLambdaNode("render", c09RenderMsgs()); err != nil {
		return nil, err
	}
	for _, e := range [][2]string{{compose.START, first}, {first, "render"}, {"render", compose.END}} {
		if err := g.AddEdge(e[0], e[1]); err != nil {
			return nil, err
		}
	}
	return g.Compile(ctx, copts...)
}

func c09ToolListRunner(c *c09Case, r compose.Runnable[*schema.Message, string]) c09Runner {
	lists := make([][]tool.BaseTool, len(c.TL.Lists))
	for i, l := range c.TL.Lists {
		lists[i] = c09MkTools(l) // ONE instance per list: runs that carry list i carry this very slice
	}
	path := compose.NewNodePath("tools")
	if c.TL.Nested {
		path = compose.NewNodePath("sub", "tools")
	}
	ws := &c09Waves{n: len(c.Calls), g: 1, waves: map[int]*c09Wave{}}
	return func(ci, rep int, phase string) (obs c09Obs) {
		call := c.Calls[ci]
		ctx, tok := ws.ctxFor(phase, rep)
		defer func() {
			if p := recover(); p != nil {
				obs = c09Obs{Err: "panic", Msg: fmt.Sprint(p)}
			}
			if tok != nil {
				tok.finish()
				if tok.timedOut && obs.Err == "" {
					obs.Err = "gate-timeout"
				}
			}
		}()
		var opts []compose.Option
		if li := c09ListOf(call, rep); li >= 0 && li < len(lists) {
			o := compose.WithToolsNodeOption(compose.WithToolList(lists[li]...))
			if c.TL.Desig {
				o = o.DesignateNodeWithPath(path)
			}
			opts = append(opts, o)
		}
		var tcs []schema.ToolCall
		for k, tc := range call.TCalls {
			tcs = append(tcs, schema.ToolCall{ID: fmt.Sprintf("k%d", k), Type: "function", Function: schema.FunctionCall{Name: tc.Name, Arguments: tc.Arg}})
		}
		msg := schema.AssistantMessage("", tcs)
		var out string
		var err error
		switch call.Paradigm {
		case "stream":
			var sr *schema.StreamReader[string]
			if sr, err = r.Stream(ctx, msg, opts...); err == nil {
				out, err = c09ReadAll(sr)
			}
		case "collect":
			out, err = r.Collect(ctx, schema.StreamReaderFromArray([]*schema.Message{msg}), opts...)
		case "transform":
			var sr *schema.StreamReader[string]
			if sr, err = r.Transform(ctx, schema.StreamReaderFromArray([]*schema.Message{msg}), opts...); err == nil {
				out, err = c09ReadAll(sr)
			}
		default:
			out, err = r.Invoke(ctx, msg, opts...)
		}
		if err != nil {
			return c09Obs{Err: c09ErrClass(err), Msg: err.Error()}
		}
		return c09Obs{Out: out}
	}
}

// ---- parent side: run, compare, account ----

type c09XAns struct {
	Alone       []string `json:"alone"`       // per run; "!error" = the run fails
	Interleaved []string `json:"interleaved"` // the slice-level / node-level machine under `sched`
	Complete    bool     `json:"complete"`
}

func c09ObsStr(o c09Obs) string {
	if o.Err != "" {
		return "!" + o.Err
	}
	return o.Out
}

// which option ids belong to other calls only
func c09ForeignOpt(c *c09Case, call int, out string) bool {
	own := map[string]bool{}
	other := map[string]bool{}
	for i, k := range c.Calls {
		for _, g := range k.Groups {
			for _, id := range g.Opts {
				if i == call {
					own[fmt.Sprintf("o%d", id)] = true
				} else {
					other[fmt.Sprintf("o%d", id)] = true
				}
			}
		}
	}
	for _, f := range strings.FieldsFunc(out, func(r rune) bool { return r == ',' || r == '|' || r == '=' }) {
		if other[f] && !own[f] {
			return true
		}
	}
	return false
}

func c09EvaluateX(ctx *vh.Ctx, c *c09Case) error {
	ctx.Progress.Mark(c)
	reps := c09Reps(c)
	// ---- model ----
	var oc any
	if c.Kind == "branchmix" {
		if c.BM == nil {
			return fmt.Errorf("branchmix case without description")
		}
		oc = c09BMOracleCase(c)
	} else if c.Kind == "inflight" {
		if c.FL == nil {
			return fmt.Errorf("inflight case without description")
		}
		oc = c09FlightOracleCase(c)
	} else if c.Kind == "cbshare" {
		if c.CBS == nil {
			return fmt.Errorf("cbshare case without description")
		}
		oc = c09CbOracleCase(c)
	} else if c.Kind == "optshare" {
		if c.Opt == nil {
			return fmt.Errorf("optshare case without description")
		}
		oc = c09OptOracleCase(c)
	} else {
		if c.TL == nil {
			return fmt.Errorf("toollist case without description")
		}
		oc = c09TLOracleCase(c)
	}
	raw, err := ctx.Oracle.Ask("C09", oc)
	if err != nil {
		return err
	}
	var ans c09XAns
	if err := json.Unmarshal(raw, &ans); err != nil {
		return err
	}
	want := len(c.Calls)
	if c.Kind == "toollist" {
		want *= reps
	}
	if len(ans.Alone) != want || len(ans.Interleaved) != want {
		return fmt.Errorf("oracle answer has wrong arity (%d/%d, want %d)", len(ans.Alone), len(ans.Interleaved), want)
	}
	expected := func(i, r int) string {
		if c.Kind == "toollist" {
			return ans.Alone[i*reps+r]
		}
		if c.Kind == "cbshare" {
			return c09CbExpected(c, i, ans.Alone[i])
		}
		if c.Kind == "branchmix" {
			return c09BMExpected(c, i, ans.Alone[i])
		}
		return ans.Alone[i]
	}

	// ---- accounting ----
	pars := map[string]bool{}
	for _, k := range c.Calls {
		pars[k.Paradigm] = true
		ctx.Res.Dist("paradigm:" + k.Paradigm)
	}
	ctx.Res.Dist("kind:" + c.Kind)
	if c.Kind != "inflight" {
		ctx.Res.Dist(fmt.Sprintf("goroutines:%d", len(c.Calls)))
	}
	shape := ""
	if c.Kind == "branchmix" {
		shape = c09BMAccount(ctx, c)
	} else if c.Kind == "inflight" {
		shape = c09FlightAccount(ctx, c)
	} else if c.Kind == "cbshare" {
		shape = c09CbAccount(ctx, c)
	} else if c.Kind == "optshare" {
		o := c.Opt
		nested := false
		for _, n := range o.Nodes {
			if n.Sub {
				nested = true
				ctx.Res.Dist("optshare:node:nested:" + n.Kind)
			} else {
				ctx.Res.Dist("optshare:node:top:" + n.Kind)
			}
		}
		ctx.Res.Dist("optshare:mode:" + o.Mode)
		hazard := false // some call passes a shared group with spare capacity FIRST and a later group reaching a common node
		for _, g := range o.Shared {
			switch {
			case g.Target == nil:
				ctx.Res.Dist("optshare:shared:undesignated")
			case len(g.Target) == 1 && g.Target[0] == "sub":
				ctx.Res.Dist("optshare:shared:to-subgraph")
			case len(g.Target) == 2:
				ctx.Res.Dist("optshare:shared:to-nested-node")
			default:
				ctx.Res.Dist("optshare:shared:to-top-node")
			}
			if g.Spare > 0 {
				ctx.Res.Dist("optshare:shared:spare-capacity")
			} else {
				ctx.Res.Dist("optshare:shared:exact-capacity")
			}
		}
		for _, k := range c.Calls {
			ctx.Res.Dist(fmt.Sprintf("optshare:groups-per-call:%d", len(k.Groups)))
			for _, n := range o.Nodes {
				p := c09NodePath(n)
				var reach []c09OGroup
				for _, g := range k.Groups {
					gg := g
					if g.Shared > 0 && g.Shared <= len(o.Shared) {
						gg = o.Shared[g.Shared-1]
						gg.Shared = g.Shared
					}
					if gg.Target == nil || c09IsPrefix(gg.Target, p) {
						reach = append(reach, gg)
					}
				}
				if len(reach) >= 2 && reach[0].Shared > 0 && reach[0].Spare > 0 {
					hazard = true
				}
			}
		}
		if hazard {
			ctx.Res.Dist("optshare:shared-first-with-spare-then-own")
		}
		shape = fmt.Sprintf("%s/n%d/nested=%v/s%d/haz=%v", o.Mode, len(o.Nodes), nested, len(o.Shared), hazard)
	} else {
		t := c.TL
		ctx.Res.Dist("toollist:mode:" + t.Mode)
		ctx.Res.Dist("toollist:shape:" + t.Shape)
		ctx.Res.Dist(fmt.Sprintf("toollist:waves:%d", reps))
		if t.Nested {
			ctx.Res.Dist("toollist:nested")
		}
		if t.Desig {
			ctx.Res.Dist("toollist:designated")
		} else {
			ctx.Res.Dist("toollist:undesignated")
		}
		for i := range c.Calls {
			for r := 0; r < reps; r++ {
				if c09ListOf(c.Calls[i], r) < 0 {
					ctx.Res.Dist("toollist:run:default-tools")
				} else {
					ctx.Res.Dist("toollist:run:own-list")
				}
				if expected(i, r) == "!error" {
					ctx.Res.Dist("toollist:run:unknown-tool")
				}
			}
		}
		shape = fmt.Sprintf("%s/%s/nested=%v/desig=%v/l%d", t.Mode, t.Shape, t.Nested, t.Desig, len(t.Lists))
	}
	key := fmt.Sprintf("%s/%s/g%d/r%d/%d", c.Kind, shape, len(c.Calls), reps, len(pars))
	nontrivial := false
	defer func() { ctx.Res.Count(key, nontrivial) }()
	ctx.Res.Sample(map[string]any{"kind": c.Kind, "goroutines": len(c.Calls), "reps": reps, "opt": c.Opt, "tl": c.TL, "cbs": c.CBS, "fl": c.FL, "calls": c.Calls[:1]})

	if !ans.Complete || !vh.CanonEq(ans.Alone, ans.Interleaved) {
		ctx.Res.Disagree(vh.Disagreement{Signature: "C09:model:interleaved-ne-alone:" + c.Kind,
			What: "the model's interleaved result differs from its alone result (contradicts the non-interference theorem)", Case: c, Model: ans})
		return nil
	}

	// ---- implementation ----
	res := c09RunChildEnv(c, 60*time.Second, "halt_on_error=0 exitcode=66 atexit_sleep_ms=50")
	raced := strings.Contains(res.Stderr, "WARNING: DATA RACE")
	reportRace := func() {
		fs, wr := c09RaceFuncsAny(res.Stderr)
		ctx.Res.Dist("outcome:race")
		ctx.Res.Disagree(vh.Disagreement{
			Signature: "C09:race:write-in:" + strings.Join(wr, "|"),
			What:      "data race reported by the Go race detector while " + fmt.Sprint(len(c.Calls)) + " goroutines used one compiled " + c.Kind + " object (racing functions: " + strings.Join(fs, " / ") + ")",
			Case:      c,
			Model:     map[string]any{"expected": "no data race; every concurrent call returns what it returns alone"},
			Impl:      map[string]any{"exit_code": res.ExitCode, "race_report": res.Stderr},
		})
	}
	if res.TimedOut {
		ctx.Res.Dist("outcome:hang")
		ctx.Res.Disagree(vh.Disagreement{Signature: "C09:hang:" + c.Kind, What: "the concurrent invocation did not finish within 60 s", Case: c,
			Impl: map[string]any{"stderr": res.Stderr}})
		return nil
	}
	if res.Out == nil || (res.ExitCode != 0 && !(raced && res.ExitCode == 66)) {
		if raced {
			reportRace()
			return nil
		}
		ctx.Res.Dist("outcome:crash")
		ctx.Res.Disagree(vh.Disagreement{Signature: "C09:crash:" + c.Kind, What: fmt.Sprintf("the child process running the compiled object died (exit %d)", res.ExitCode), Case: c,
			Impl: map[string]any{"stderr": res.Stderr, "err": res.Err}})
		return nil
	}
	if res.Out.BuildErr != "" {
		ctx.Res.Dist("outcome:build-error")
		ctx.Res.Note("case did not build: " + res.Out.BuildErr)
		ctx.Res.Disagree(vh.Disagreement{Signature: "C09:harness:build-error:" + c.Kind, What: "generated object failed to build: " + res.Out.BuildErr, Case: c})
		return nil
	}
	if len(res.Out.AloneR) != len(c.Calls) || len(res.Out.Conc) != len(c.Calls) {
		ctx.Res.Disagree(vh.Disagreement{Signature: "C09:crash:" + c.Kind, What: "the child's answer is incomplete", Case: c, Impl: res.Out})
		return nil
	}
	// (1) sequential reference == model
	for i := range c.Calls {
		for r, o := range res.Out.AloneR[i] {
			if c09ObsStr(o) != expected(i, r) {
				ctx.Res.Dist("outcome:alone-mismatch")
				ctx.Res.Disagree(vh.Disagreement{
					Signature: fmt.Sprintf("C09:alone-vs-model:%s:%s", c.Kind, c.Calls[i].Paradigm),
					What:      "a call run ALONE returns something else than the model (correspondence of the single-run semantics, not concurrency)",
					Case:      c, Model: map[string]any{"call": i, "wave": r, "expected": expected(i, r)}, Impl: o})
				return nil
			}
		}
	}
	// (2) concurrent == sequential reference (== model)
	bad := 0
	var first *vh.Disagreement
	for i := range c.Calls {
		for r, o := range res.Out.Conc[i] {
			if c09ObsStr(o) == expected(i, r) {
				continue
			}
			bad++
			if first != nil {
				continue
			}
			sig, what := "", ""
			switch {
			case o.Err == "gate-timeout":
				sig = "C09:hang:" + c.Kind + ":gate"
				what = "a run waited 15 s at a barrier of the harness for runs that neither arrived nor finished"
			case c.Kind == "branchmix" && o.Err == "" && c09BMForeignTarget(c, i, o.Out):
				sig = "C09:interference:branchmix:delivered-to-another-runs-branch-target"
				what = "the run delivered the output of the branching node to a branch target that its own conditions did not select (another concurrent run selected it)"
			case c.Kind == "branchmix":
				sig = "C09:interference:branchmix:output"
				what = "the successors the run delivered to are not the direct ones plus the targets its own branch conditions selected"
			case c.Kind == "inflight" && o.Err == "others-held-up":
				sig = "C09:liveness:inflight:hold-at=" + c.FL.Hold + ":runs-waited-for-parked-run"
				what = "while one run was parked inside its own user code (" + c.FL.Hold + ") the other runs of the compiled object, started after it had parked, did not return within 12 s: the runs wait for each other"
			case c.Kind == "inflight" && o.Err == "not-in-flight-together":
				sig = "C09:liveness:inflight:runs-not-in-flight-together"
				what = "a tool call of the run waited 12 s for the tool calls of the other concurrent runs to get in flight: something the runs of the process share bounds how many of them make progress at once"
			case c.Kind == "inflight" && o.Err == "never-returned":
				sig = "C09:liveness:inflight:run-never-returned"
				what = "the run had not returned after 25 s although no run depends on another one and the same run alone returns at once (runs blocked on each other)"
			case c.Kind == "inflight":
				sig = "C09:interference:inflight:output"
				what = "the run returned other tool results than alone"
			case c.Kind == "cbshare" && c09CbForeignHandler(c, i, o.Out+o.Msg):
				sig = "C09:interference:cbshare:handler-of-another-run-got-events"
				what = "callbacks of the run were delivered to a handler that only ANOTHER concurrent run passed with WithCallbacks / in its context"
			case c.Kind == "cbshare":
				sig = "C09:interference:cbshare:handlers-differ"
				what = "the callbacks of some unit of the run were not delivered to exactly the handler list in force for this call (own context + own WithCallbacks options)"
			case c.Kind == "optshare" && o.Err == "" && c09ForeignOpt(c, i, o.Out):
				sig = "C09:interference:optshare:lambda-saw-foreign-option"
				what = "a lambda node of the run was executed with a call option that only ANOTHER concurrent run passed"
			case c.Kind == "optshare":
				sig = "C09:interference:optshare:options-differ"
				what = "a lambda node of the run did not see exactly the option groups of its own call"
			case o.Err != "" || expected(i, r) == "!error":
				sig = "C09:interference:toollist:error-differs"
				what = "the run fails / succeeds differently from the same run alone (tool lookup in a foreign tool list)"
			default:
				sig = "C09:interference:toollist:foreign-tool-list"
				what = "the tool calls of the run were executed by tools that are not those of the WithToolList option of this run"
			}
			first = &vh.Disagreement{Signature: sig,
				What: fmt.Sprintf("call %d (wave %d) run concurrently with %d others returns something else than the same call run alone: %s", i, r, len(c.Calls)-1, what),
				Case: c, Model: map[string]any{"call": i, "wave": r, "expected": expected(i, r)},
				Impl: map[string]any{"got": o, "alone": res.Out.AloneR[i][r]}}
		}
	}
	if first != nil {
		ctx.Res.Dist("outcome:interference")
		m := first.Impl.(map[string]any)
		m["wrong_runs"] = bad
		if raced {
			m["race_report"] = res.Stderr
		}
		ctx.Res.Disagree(*first)
	}
	if raced {
		reportRace()
	}
	if first == nil && !raced {
		ctx.Res.Dist("outcome:agree")
		nontrivial = len(c.Calls) >= 2
	}
	return nil
}

// the child keeps running after a report (halt_on_error=0): take the first report whose
// write-side stack could be restored; if none, name the functions of the first report
func c09RaceFuncsAny(stderr string) (all []string, writers []string) {
	rest := stderr
	for {
		i := strings.Index(rest, "WARNING: DATA RACE")
		if i < 0 {
			break
		}
		fs, ws := c09RaceFuncs(rest[i:])
		if all == nil {
			all = fs
		}
		if len(ws) > 0 {
			return fs, ws
		}
		rest = rest[i+len("WARNING: DATA RACE"):]
	}
	return all, all
}

func c09IsPrefix(p, q []string) bool {
	if len(p) > len(q) {
		return false
	}
	for i := range p {
		if p[i] != q[i] {
			return false
		}
	}
	return true
}
