//go:build verif && (vh_all || vh_c14)

package props

import (
	"bytes"
	"encoding/json"
	"fmt"
	"reflect"
	"sort"
	"strconv"
	"strings"

	"github.com/cloudwego/eino/schema"
)

// ---------------------------------------------------------------------------------------
// C14 case language (shared with lean/EinoV/Oracle/C14.lean)
//
//   case   = {"kind":"msgs"|"cmsgs"|"maps"|"strs"|"marr"|"anys","chunks":[chunk…],"et":elemType?}
//            ("et": element type of the map chunks of kind "maps"; absent = "any")
//   value  = null | {"t":goType,"v":payload} | {"m":[[key,value],…],"e":elemType,"nil":bool?}   (input form)
//   value' = null | {"t":goType,"v":payload} | {"m":{key:value',…},"e":elemType}                 (output form)
//            "e" = Go name of the map's element type: "any", "string", "int", "float64", "c14S",
//            "[]string", "map[string]string", …; "nil":true = a nil map of that type (the model
//            and the output form identify it with the empty map)
//   msg    = null | {"role","name","tcid","content","multi":[n…],"tcs":[tc…],"meta":meta,"extra":value}
//   tc     = {"idx":null|int,"id","type","name","args","ex":n}
//   meta   = null | {"finish","usage":null|[p,c,t],"lp":null|[n…]}
// ---------------------------------------------------------------------------------------

type c14KV struct {
	K string
	V *c14Val
}

// c14Val: nil pointer = Go nil; IsMap = a map[string]E (E "" = any); otherwise scalar of Go type T.
type c14Val struct {
	T     string
	V     string
	IsMap bool
	E     string // element type of the map ("" = "any")
	Nil   bool   // a nil map (only honoured when M is empty)
	M     []c14KV
}

func (v *c14Val) et() string {
	if v.E == "" {
		return "any"
	}
	return v.E
}

func (v *c14Val) MarshalJSON() ([]byte, error) {
	if v == nil {
		return []byte("null"), nil
	}
	if v.IsMap {
		var b bytes.Buffer
		b.WriteString(`{"m":[`)
		for i, kv := range v.M {
			if i > 0 {
				b.WriteByte(',')
			}
			k, _ := json.Marshal(kv.K)
			x, err := kv.V.MarshalJSON()
			if err != nil {
				return nil, err
			}
			b.WriteByte('[')
			b.Write(k)
			b.WriteByte(',')
			b.Write(x)
			b.WriteByte(']')
		}
		b.WriteString(`],"e":`)
		e, _ := json.Marshal(v.et())
		b.Write(e)
		if v.Nil && len(v.M) == 0 {
			b.WriteString(`,"nil":true`)
		}
		b.WriteString("}")
		return b.Bytes(), nil
	}
	return json.Marshal(map[string]string{"t": v.T, "v": v.V})
}

func c14ParseVal(raw json.RawMessage) (*c14Val, error) {
	if len(raw) == 0 || string(bytes.TrimSpace(raw)) == "null" {
		return nil, nil
	}
	var probe map[string]json.RawMessage
	if err := json.Unmarshal(raw, &probe); err != nil {
		return nil, err
	}
	if m, ok := probe["m"]; ok {
		var pairs [][2]json.RawMessage
		if err := json.Unmarshal(m, &pairs); err != nil {
			return nil, err
		}
		out := &c14Val{IsMap: true}
		if e, ok := probe["e"]; ok {
			json.Unmarshal(e, &out.E)
		}
		if out.E == "any" {
			out.E = ""
		}
		if n, ok := probe["nil"]; ok {
			json.Unmarshal(n, &out.Nil)
		}
		for _, p := range pairs {
			var k string
			if err := json.Unmarshal(p[0], &k); err != nil {
				return nil, err
			}
			v, err := c14ParseVal(p[1])
			if err != nil {
				return nil, err
			}
			out.M = append(out.M, c14KV{k, v})
		}
		return out, nil
	}
	out := &c14Val{}
	json.Unmarshal(probe["t"], &out.T)
	json.Unmarshal(probe["v"], &out.V)
	return out, nil
}

func (v *c14Val) UnmarshalJSON(b []byte) error {
	p, err := c14ParseVal(b)
	if err != nil {
		return err
	}
	if p != nil {
		*v = *p
	}
	return nil
}

type c14TC struct {
	Idx  *int   `json:"idx"`
	ID   string `json:"id"`
	Type string `json:"type"`
	Name string `json:"name"`
	Args string `json:"args"`
	Ex   int    `json:"ex"`
}

type c14Meta struct {
	Finish string  `json:"finish"`
	Usage  *[3]int `json:"usage"`
	LP     *[]int  `json:"lp"`
}

type c14Msg struct {
	Role    string   `json:"role"`
	Name    string   `json:"name"`
	TCID    string   `json:"tcid"`
	Content string   `json:"content"`
	Multi   []int    `json:"multi"`
	TCs     []c14TC  `json:"tcs"`
	Meta    *c14Meta `json:"meta"`
	Extra   *c14Val  `json:"extra"` // a map value or nil
}

type c14Case struct {
	Kind   string            `json:"kind"`
	Et     string            `json:"et,omitempty"` // kind "maps": element type of the chunks ("" = any)
	Chunks []json.RawMessage `json:"chunks"`
}

func (c *c14Case) et() string {
	if c.Et == "" {
		return "any"
	}
	return c.Et
}

func c14Raw(v any) json.RawMessage {
	b, err := json.Marshal(v)
	if err != nil {
		panic(err)
	}
	return b
}

// ---- Go values for the extras ----

type c14S struct{ V string } // not registered, struct: zero ⇔ V == ""
type c14L []string           // not registered, slice: zero ⇔ nil

var c14AnyType = reflect.TypeOf((*any)(nil)).Elem()

// c14GoType: the Go type named by an element-type name of the case language.
func c14GoType(name string) reflect.Type {
	if strings.HasPrefix(name, "map[string]") {
		return reflect.MapOf(reflect.TypeOf(""), c14GoType(strings.TrimPrefix(name, "map[string]")))
	}
	switch name {
	case "any", "":
		return c14AnyType
	case "string":
		return reflect.TypeOf("")
	case "int":
		return reflect.TypeOf(int(0))
	case "int64":
		return reflect.TypeOf(int64(0))
	case "float64":
		return reflect.TypeOf(float64(0))
	case "bool":
		return reflect.TypeOf(false)
	case "c14S":
		return reflect.TypeOf(c14S{})
	case "*c14S":
		return reflect.TypeOf((*c14S)(nil))
	case "c14L":
		return reflect.TypeOf(c14L(nil))
	case "[]string":
		return reflect.TypeOf([]string(nil))
	}
	panic("c14: unknown type " + name)
}

// c14TypeName: inverse of c14GoType ("!…" for a type outside the case language).
func c14TypeName(t reflect.Type) string {
	if t.Kind() == reflect.Map && t.Key().Kind() == reflect.String && t.Name() == "" {
		return "map[string]" + c14TypeName(t.Elem())
	}
	for _, n := range []string{"any", "string", "int", "int64", "float64", "bool", "c14S", "*c14S", "c14L", "[]string"} {
		if c14GoType(n) == t {
			return n
		}
	}
	return "!" + t.String()
}

func c14ScalarToGo(v *c14Val) any {
	switch v.T {
	case "string":
		return v.V
	case "int":
		n, _ := strconv.Atoi(v.V)
		return n
	case "int64":
		n, _ := strconv.ParseInt(v.V, 10, 64)
		return n
	case "float64":
		n, _ := strconv.Atoi(v.V)
		return float64(n)
	case "bool":
		return v.V == "true"
	case "c14S":
		return c14S{V: v.V}
	case "*c14S":
		if v.V == "" {
			return (*c14S)(nil)
		}
		return &c14S{V: v.V}
	case "c14L":
		if v.V == "" {
			return c14L(nil)
		}
		return c14L{v.V}
	case "[]string": // "" = nil, "-" = empty non-nil, otherwise one element
		switch v.V {
		case "":
			return []string(nil)
		case "-":
			return []string{}
		}
		return []string{v.V}
	}
	panic("c14: unknown type " + v.T)
}

// c14ToGoRV builds the Go value of a non-nil c14Val (maps get their real map type).
func c14ToGoRV(v *c14Val) reflect.Value {
	if !v.IsMap {
		return reflect.ValueOf(c14ScalarToGo(v))
	}
	et := c14GoType(v.et())
	mt := reflect.MapOf(reflect.TypeOf(""), et)
	if v.Nil && len(v.M) == 0 {
		return reflect.Zero(mt)
	}
	m := reflect.MakeMapWithSize(mt, len(v.M))
	for _, kv := range v.M {
		if kv.V == nil {
			m.SetMapIndex(reflect.ValueOf(kv.K), reflect.Zero(et)) // nil interface (zero value in an ill-typed case)
			continue
		}
		m.SetMapIndex(reflect.ValueOf(kv.K), c14ToGoRV(kv.V))
	}
	return m
}

func c14ToGo(v *c14Val) any {
	if v == nil {
		return nil
	}
	return c14ToGoRV(v).Interface()
}

// c14Out renders a Go value produced by the implementation in the oracle's output form.
func c14Out(x any) any {
	switch t := x.(type) {
	case nil:
		return nil
	case string:
		return map[string]any{"t": "string", "v": t}
	case int:
		return map[string]any{"t": "int", "v": strconv.Itoa(t)}
	case int64:
		return map[string]any{"t": "int64", "v": strconv.FormatInt(t, 10)}
	case float64:
		return map[string]any{"t": "float64", "v": strconv.Itoa(int(t))}
	case bool:
		return map[string]any{"t": "bool", "v": strconv.FormatBool(t)}
	case c14S:
		return map[string]any{"t": "c14S", "v": t.V}
	case *c14S:
		if t == nil {
			return map[string]any{"t": "*c14S", "v": ""}
		}
		return map[string]any{"t": "*c14S", "v": t.V}
	case c14L:
		if t == nil {
			return map[string]any{"t": "c14L", "v": ""}
		}
		if len(t) != 1 {
			return map[string]any{"t": "c14L", "v": fmt.Sprint("!len=", len(t))}
		}
		return map[string]any{"t": "c14L", "v": t[0]}
	case []string:
		switch {
		case t == nil:
			return map[string]any{"t": "[]string", "v": ""}
		case len(t) == 0:
			return map[string]any{"t": "[]string", "v": "-"}
		case len(t) == 1:
			return map[string]any{"t": "[]string", "v": t[0]}
		}
		return map[string]any{"t": "[]string", "v": fmt.Sprint("!len=", len(t))}
	}
	rv := reflect.ValueOf(x)
	if rv.Kind() == reflect.Map && rv.Type().Key().Kind() == reflect.String {
		m := map[string]any{}
		it := rv.MapRange()
		for it.Next() {
			m[it.Key().String()] = c14Out(it.Value().Interface())
		}
		return map[string]any{"m": m, "e": c14TypeName(rv.Type().Elem())}
	}
	return map[string]any{"t": fmt.Sprintf("!%T", x), "v": fmt.Sprint(x)}
}

func c14ExtraOut(m map[string]any) any {
	if m == nil {
		m = map[string]any{}
	}
	return c14Out(m)
}

// ---- messages ----

func c14ToMessage(m *c14Msg) *schema.Message {
	if m == nil {
		return nil
	}
	out := &schema.Message{Role: schema.RoleType(m.Role), Name: m.Name, ToolCallID: m.TCID, Content: m.Content}
	for _, p := range m.Multi {
		out.MultiContent = append(out.MultiContent, schema.ChatMessagePart{Type: schema.ChatMessagePartTypeText, Text: strconv.Itoa(p)})
	}
	for _, tc := range m.TCs {
		t := schema.ToolCall{ID: tc.ID, Type: tc.Type, Function: schema.FunctionCall{Name: tc.Name, Arguments: tc.Args}}
		if tc.Idx != nil {
			i := *tc.Idx
			t.Index = &i
		}
		if tc.Ex > 0 {
			t.Extra = map[string]any{"t": tc.Ex}
		}
		out.ToolCalls = append(out.ToolCalls, t)
	}
	if m.Meta != nil {
		rm := &schema.ResponseMeta{FinishReason: m.Meta.Finish}
		if m.Meta.Usage != nil {
			u := *m.Meta.Usage
			rm.Usage = &schema.TokenUsage{PromptTokens: u[0], CompletionTokens: u[1], TotalTokens: u[2]}
		}
		if m.Meta.LP != nil {
			lp := &schema.LogProbs{}
			for _, t := range *m.Meta.LP {
				lp.Content = append(lp.Content, schema.LogProb{Token: strconv.Itoa(t), LogProb: -0.5})
			}
			rm.LogProbs = lp
		}
		out.ResponseMeta = rm
	}
	if e := m.Extra; e != nil {
		out.Extra = c14ToGo(e).(map[string]any)
	}
	return out
}

func c14MsgOut(m *schema.Message) any {
	if m == nil {
		return nil
	}
	multi := []int{}
	for _, p := range m.MultiContent {
		n, err := strconv.Atoi(p.Text)
		if err != nil {
			n = -1
		}
		multi = append(multi, n)
	}
	tcs := []any{}
	for _, t := range m.ToolCalls {
		var idx any
		if t.Index != nil {
			idx = *t.Index
		}
		ex := 0
		if t.Extra != nil {
			if n, ok := t.Extra["t"].(int); ok {
				ex = n
			} else {
				ex = -1
			}
		}
		tcs = append(tcs, map[string]any{"idx": idx, "id": t.ID, "type": t.Type, "name": t.Function.Name, "args": t.Function.Arguments, "ex": ex})
	}
	var meta any
	if m.ResponseMeta != nil {
		var usage, lp any
		if u := m.ResponseMeta.Usage; u != nil {
			usage = []int{u.PromptTokens, u.CompletionTokens, u.TotalTokens}
		}
		if l := m.ResponseMeta.LogProbs; l != nil {
			toks := []int{}
			for _, t := range l.Content {
				n, err := strconv.Atoi(t.Token)
				if err != nil {
					n = -1
				}
				toks = append(toks, n)
			}
			lp = toks
		}
		meta = map[string]any{"finish": m.ResponseMeta.FinishReason, "usage": usage, "lp": lp}
	}
	return map[string]any{"role": string(m.Role), "name": m.Name, "tcid": m.ToolCallID, "content": m.Content,
		"multi": multi, "tcs": tcs, "meta": meta, "extra": c14ExtraOut(m.Extra)}
}

// ---- structural queries used for signatures / distribution ----

func c14HasNil(v *c14Val, top bool) bool {
	if v == nil {
		return !top
	}
	for _, kv := range v.M {
		if c14HasNil(kv.V, false) {
			return true
		}
	}
	return false
}

func c14Depth(v *c14Val) int {
	if v == nil || !v.IsMap {
		return 0
	}
	d := 0
	for _, kv := range v.M {
		if x := c14Depth(kv.V); x > d {
			d = x
		}
	}
	return d + 1
}

func c14SortKVs(v *c14Val) {
	if v == nil || !v.IsMap {
		return
	}
	sort.SliceStable(v.M, func(i, j int) bool { return v.M[i].K < v.M[j].K })
	for _, kv := range v.M {
		c14SortKVs(kv.V)
	}
}

// c14HasTyped: the value holds a map whose element type is not any, at any depth.
func c14HasTyped(v *c14Val) bool {
	if v == nil || !v.IsMap {
		return false
	}
	if v.et() != "any" {
		return true
	}
	for _, kv := range v.M {
		if c14HasTyped(kv.V) {
			return true
		}
	}
	return false
}
