//go:build verif && (vh_all || vh_c12)

package props

// C12 registry family: child-process hook.  The file name sorts after the other c12_*.go files
// on purpose: init functions of one package run in the order the files are presented to the
// compiler (lexical), so the harness' own registrations (c12.go, c12_extra.go, c12_more.go) are in
// place when the child starts executing the case.

import "os"

func init() {
	if os.Getenv("VERIF_C12_CHILD") == "1" {
		c12RegChildMain()
		os.Exit(0)
	}
}
