//go:build verif && (vh_all || vh_c19)

package props

// C19, Workflow family: a streaming producer whose successors are reached in every way a
// Workflow offers — data+control (AddInput), data-only (WithNoDirectDependency), control-only
// (AddDependency) and branch ends (workflow branches carry no data) — with value / prefix-reading
// stream conditions, single and multi-way. Every copy derived from the producer's stream must
// end up closed: after the run completes and the caller has read all / a prefix / nothing of the
// output and closed it, the producer must have been released and no goroutine may be left.
// The preconditions of the property hold by construction (the run completes, every node output
// is consumed by END, nothing is pending besides END), so this family is a direct property
// predicate on the real runtime; the copy bookkeeping it exercises is the one the ledger
// theorems (Props/C19.lean) are about.
//
// Second dimension: where a control-only successor (a `dep` node, a branch end) takes its OWN data
// from — START (AddInput), nothing at all, static values only, START without control, the
// producer without control. It decides whether the target has an entry in the runner's
// dataPredecessors at all, which data senders the channel waits for, and whether a deselected end
// is skipped. The copy-routing model (Model/C19Route.lean, oracle case kind "workflow") names the
// fate of every copy of the producer's stream (drained / closed after a prefix / closed by the
// framework); the theorems say none is dropped for any case of the family. Compared: the producer
// must be released (model: mustRelease) and, when some reader drains the stream (model:
// mustFinish), it must have got to send every chunk without being told "closed".

import (
	"context"
	"encoding/json"
	"fmt"
	"io"
	"os"
	"runtime"
	"sort"
	"strings"
	"sync/atomic"
	"time"

	"github.com/cloudwego/eino/compose"
	"github.com/cloudwego/eino/schema"

	"github.com/cloudwego/eino/verifharness/gcase"
	"github.com/cloudwego/eino/verifharness/vh"
)

type c19wSucc struct {
	Key  string `json:"key"`
	Kind string `json:"kind"` // input | dataonly | dep | branchend
	// own data input of a dep / branchend successor: "" or start (AddInput(START)) | none (no input
	// at all) | static (SetStaticValue only) | indirect (START, WithNoDirectDependency) |
	// pdata (the producer, WithNoDirectDependency; a dep with pdata is AddInput("p"))
	Data string `json:"data,omitempty"`
}

// what the copy-routing model says about the case
type c19wVerdict struct {
	Fates       []string `json:"fates"`
	Copies      int      `json:"copies"`
	Ledger      int      `json:"ledgerCreated"`
	Dropped     int      `json:"dropped"`
	MustRelease bool     `json:"mustRelease"`
	MustFinish  bool     `json:"mustFinish"`
	NoDataPreds []string `json:"noDataPreds"`
	CbCopiesOut int      `json:"cbCopiesOut"` // callback-copy ledger of one node, output timing
	CbHandedOut int      `json:"cbHandedOut"`
	CbCopiesIn  int      `json:"cbCopiesIn"`
	CbHandedIn  int      `json:"cbHandedIn"`
	CbLeaked    int      `json:"cbLeaked"`
}

func c19wOwnData(n *compose.WorkflowNode, data string) {
	switch data {
	case "", "start":
		n.AddInput(compose.START)
	case "none":
	case "static":
		n.SetStaticValue(compose.FieldPath{"s"}, "s;")
	case "indirect":
		n.AddInputWithOptions(compose.START, nil, compose.WithNoDirectDependency())
	case "pdata":
		n.AddInputWithOptions("p", nil, compose.WithNoDirectDependency())
	}
}

type c19wCase struct {
	Kind     string     `json:"kind"`    // "workflow"
	Chunks   int        `json:"chunks"`  // chunks the producer emits (>= 1)
	Succ     []c19wSucc `json:"succ"`    // successors of the producer
	Cond     string     `json:"cond"`    // none | value | prefix | multi-value | multi-prefix
	Select   []string   `json:"select"`  // branch ends selected by the condition
	EndData  bool       `json:"endData"` // END takes the producer's output as a data-only input
	Paradigm string     `json:"paradigm"`
	InChunks []int      `json:"inChunks"`
	Consume  int        `json:"consume"`
	Handlers []string   `json:"handlers,omitempty"`
}

func c19wBuild(c *c19wCase, tr *c19Tracker) (*compose.Workflow[gcase.M, gcase.M], error) {
	wf := compose.NewWorkflow[gcase.M, gcase.M]()
	prod := compose.StreamableLambda(func(ctx context.Context, in gcase.M) (*schema.StreamReader[gcase.M], error) {
		var chunks []gcase.M
		for i := 0; i < c.Chunks; i++ {
			chunks = append(chunks, gcase.M{"p": fmt.Sprintf("c%d;", i)})
		}
		return tr.produce("p", chunks), nil
	})
	wf.AddLambdaNode("p", prod).AddInput(compose.START)
	var ends []string
	for _, s := range c.Succ {
		key := s.Key
		lam := compose.InvokableLambda(func(ctx context.Context, in gcase.M) (gcase.M, error) {
			return gcase.M{key: "v;"}, nil
		})
		n := wf.AddLambdaNode(key, lam)
		switch s.Kind {
		case "input":
			n.AddInput("p")
		case "dataonly":
			// data from p without control; control comes from START
			n.AddInputWithOptions("p", nil, compose.WithNoDirectDependency()).AddDependency(compose.START)
		case "dep":
			if s.Data == "pdata" {
				n.AddInput("p")
			} else {
				c19wOwnData(n.AddDependency("p"), s.Data)
			}
		case "branchend":
			c19wOwnData(n, s.Data)
			ends = append(ends, key)
		default:
			return nil, fmt.Errorf("successor kind %q", s.Kind)
		}
		wf.End().AddInput(key, compose.MapFields(key, key))
	}
	if c.EndData {
		if len(c.Succ) == 0 {
			// END needs a control predecessor
			wf.End().AddInput("p", compose.MapFields("p", "p"))
		} else {
			wf.End().AddInputWithOptions("p", []*compose.FieldMapping{compose.MapFields("p", "p")}, compose.WithNoDirectDependency())
		}
	}
	if c.Cond != "none" && len(ends) > 0 {
		endSet := map[string]bool{}
		for _, e := range ends {
			endSet[e] = true
		}
		sel := map[string]bool{}
		for _, e := range c.Select {
			sel[e] = true
		}
		one := ""
		if len(c.Select) > 0 {
			one = c.Select[0]
		}
		var br *compose.GraphBranch
		switch c.Cond {
		case "value":
			br = compose.NewGraphBranch(func(ctx context.Context, in gcase.M) (string, error) { return one, nil }, endSet)
		case "prefix":
			br = compose.NewStreamGraphBranch(func(ctx context.Context, in *schema.StreamReader[gcase.M]) (string, error) {
				defer in.Close()
				in.Recv()
				return one, nil
			}, endSet)
		case "multi-value":
			br = compose.NewGraphMultiBranch(func(ctx context.Context, in gcase.M) (map[string]bool, error) { return sel, nil }, endSet)
		default:
			br = compose.NewStreamGraphMultiBranch(func(ctx context.Context, in *schema.StreamReader[gcase.M]) (map[string]bool, error) {
				defer in.Close()
				in.Recv()
				return sel, nil
			}, endSet)
		}
		wf.AddBranch("p", br)
	}
	return wf, nil
}

func c19wOne(ctx *vh.Ctx, c *c19wCase) error {
	ctx.Progress.Mark(c)
	raw, err := ctx.Oracle.Ask("C19", c)
	if err != nil {
		return err
	}
	var model c19wVerdict
	if err := json.Unmarshal(raw, &model); err != nil {
		return fmt.Errorf("C19 workflow oracle answer %s: %w", raw, err)
	}
	tr := &c19Tracker{blocked: map[string]int{}}
	wf, err := c19wBuild(c, tr)
	if err != nil {
		ctx.Res.Count("malformed", false)
		return nil
	}
	bg := context.Background()
	var r compose.Runnable[gcase.M, gcase.M]
	var cerr error
	if panicked, pv := vh.Safely(func() { r, cerr = wf.Compile(bg) }); panicked {
		ctx.Res.Disagree(vh.Disagreement{Signature: "C19:wf:compile-panic", What: fmt.Sprint("Compile panicked: ", pv), Case: c})
		return nil
	}
	if cerr != nil {
		ctx.Res.Dist("wf:class=compile-error")
		if os.Getenv("C19W_DEBUG") != "" {
			fmt.Fprintln(os.Stderr, "COMPILE-ERR", cerr, vh.Canon(c))
		}
		ctx.Res.Count("malformed", false)
		return nil
	}
	base := runtime.NumGoroutine()
	x := gcase.M{"in": "x"}
	var runErr error
	got := 0
	finished := false
	if panicked, pv := vh.Safely(func() {
		finished = vh.WithTimeout(20*time.Second, func() {
			var sr *schema.StreamReader[gcase.M]
			var ropts []compose.Option
			if len(c.Handlers) > 0 {
				hopts, hdone := c19RunOpts(c.Handlers)
				defer hdone()
				ropts = append(ropts, hopts...)
			}
			if c.Paradigm == "transform" {
				sr, runErr = r.Transform(bg, schema.StreamReaderFromArray(gcase.ChunkMap(c.InChunks, x)), ropts...)
			} else {
				sr, runErr = r.Stream(bg, x, ropts...)
			}
			if runErr != nil {
				return
			}
			for c.Consume < 0 || got < c.Consume {
				_, e := sr.Recv()
				if e != nil {
					if e != io.EOF {
						// an error item instead of the end: the run did not complete
						runErr = e
					}
					break
				}
				got++
			}
			sr.Close()
		})
	}); panicked {
		ctx.Res.Disagree(vh.Disagreement{Signature: "C19:wf:panic-escaped", What: fmt.Sprint("streaming workflow run panicked: ", pv), Case: c})
		return nil
	}
	kinds := map[string]bool{}
	for _, s := range c.Succ {
		k := s.Kind
		if (s.Kind == "dep" || s.Kind == "branchend") && s.Data != "" && s.Data != "start" {
			k += "/" + s.Data
		}
		kinds[k] = true
		ctx.Res.Dist("wf:succ=" + k)
	}
	if len(model.NoDataPreds) > 0 {
		ctx.Res.Dist("wf:copy-to-target-without-data-preds")
	}
	if model.MustFinish {
		ctx.Res.Dist("wf:some-reader-drains")
	}
	ctx.Res.Dist("wf:cond=" + c.Cond)
	for _, h := range c.Handlers {
		ctx.Res.Dist("wf:handler=" + h)
	}
	if c19ListedTwice(c.Handlers) {
		ctx.Res.Dist("wf:handler-listed-twice")
	}
	ctx.Res.Dist(fmt.Sprintf("wf:consume=%d", c.Consume))
	ctx.Res.Dist(fmt.Sprintf("wf:chunks=%d", c.Chunks))
	if !finished {
		ctx.Res.Disagree(vh.Disagreement{Signature: "C19:wf:hang", What: "streaming workflow run (or reading its output) hangs", Case: c})
		return nil
	}
	if runErr != nil {
		// the property's precondition (the run completes) does not hold
		ctx.Res.Dist("wf:out-of-scope(run-error)")
		if os.Getenv("C19W_DEBUG") != "" {
			fmt.Fprintln(os.Stderr, "RUN-ERR", runErr, vh.Canon(c))
		}
		ctx.Res.Count("oos", false)
		return nil
	}
	ctx.Res.Count("wf:"+vh.Canon(c), len(c.Succ) >= 1 && (c.Cond != "none" || len(kinds) >= 2))
	ctx.Res.Sample(c)
	if model.Copies != model.Ledger {
		// the two models of resolveCompletedTasks (copy-routing model, ledger) must agree on the count
		ctx.Res.Disagree(vh.Disagreement{Signature: "C19:wf:model-copy-count", What: "the copy-routing model and the ledger disagree on the number of readers", Case: c, Model: model})
		return nil
	}
	sigShape := func() string {
		var ks []string
		for k := range kinds {
			ks = append(ks, k)
		}
		sort.Strings(ks)
		return strings.Join(ks, "+") + ":" + c.Cond + c19CbSfx(c.Handlers)
	}
	if !tr.settled(4 * time.Second) {
		if !model.MustRelease {
			// (not reachable with the fact values the theorems are proved for)
			ctx.Res.Dist("wf:blocked-as-the-model-says")
			return nil
		}
		sent, _ := tr.sentOf("p")
		ctx.Res.Disagree(vh.Disagreement{Signature: "C19:wf:producer-blocked:" + sigShape(),
			What: fmt.Sprintf("after the workflow run completed and its output was %s, the producer is still blocked on a send (a copy of its stream was dropped without being closed); the model has every one of the %d copies drained or closed",
				map[bool]string{true: "read to the end", false: "closed early"}[c.Consume < 0], model.Copies),
			Case: c, Model: model, Impl: map[string]any{"started": atomic.LoadInt32(&tr.started), "exited": atomic.LoadInt32(&tr.exited), "sent": sent}})
		return nil
	}
	if model.MustFinish && atomic.LoadInt32(&tr.started) > 0 {
		// some reader reads the producer's stream to the end: the source must not be closed under it
		if sent, cut := tr.sentOf("p"); cut || sent < c.Chunks {
			ctx.Res.Disagree(vh.Disagreement{Signature: "C19:wf:producer-cut-off:" + sigShape(),
				What: fmt.Sprintf("a consumer reads the producer's stream to the end, but the producer was told to stop after %d of %d chunks (its source was closed while a copy was still being read)", sent, c.Chunks),
				Case: c, Model: model, Impl: map[string]any{"sent": sent, "cut": cut}})
			return nil
		}
	}
	deadline := time.Now().Add(3 * time.Second)
	for runtime.NumGoroutine() > base && time.Now().Before(deadline) {
		time.Sleep(2 * time.Millisecond)
	}
	if n := runtime.NumGoroutine(); n > base {
		buf := make([]byte, 1<<16)
		buf = buf[:runtime.Stack(buf, true)]
		ctx.Res.Disagree(vh.Disagreement{Signature: "C19:wf:goroutines-left:" + sigShape(), What: fmt.Sprintf("%d goroutine(s) more than before the run are still alive", n-base), Case: c,
			Impl: map[string]any{"stacks": c19Trim(string(buf))}})
	}
	return nil
}

func c19wGen(r *vh.Rand) *c19wCase {
	c := &c19wCase{Kind: "workflow", Chunks: 1 + r.Intn(4), EndData: r.Chance(60)}
	nSucc := r.Intn(4)
	kinds := []string{"input", "dataonly", "dep", "branchend", "branchend"}
	var ends []string
	for i := 0; i < nSucc; i++ {
		k := kinds[r.Intn(len(kinds))]
		key := fmt.Sprintf("n%d", i)
		c.Succ = append(c.Succ, c19wSucc{Key: key, Kind: k, Data: c19wGenData(r, k)})
		if k == "branchend" {
			ends = append(ends, key)
		}
	}
	if !c.EndData && nSucc == 0 {
		c.EndData = true
	}
	if len(ends) == 1 {
		// a branch needs at least two ends
		key := fmt.Sprintf("n%d", nSucc)
		c.Succ = append(c.Succ, c19wSucc{Key: key, Kind: "branchend", Data: c19wGenData(r, "branchend")})
		ends = append(ends, key)
	}
	c.Cond = "none"
	if len(ends) > 0 {
		c.Cond = []string{"value", "prefix", "multi-value", "multi-prefix", "prefix", "multi-prefix"}[r.Intn(6)]
		if strings.HasPrefix(c.Cond, "multi") {
			for _, e := range ends {
				if r.Chance(50) {
					c.Select = append(c.Select, e)
				}
			}
		} else {
			c.Select = []string{ends[r.Intn(len(ends))]}
		}
	}
	c.Paradigm = []string{"stream", "transform"}[r.Intn(2)]
	if c.Paradigm == "transform" {
		c.InChunks = []int{0}
	}
	c.Consume = []int{-1, 0, 1}[r.Intn(3)]
	c.Handlers = c19GenHandlers(r)
	return c
}

// own data input of a control-only successor (see c19wSucc.Data)
func c19wGenData(r *vh.Rand, kind string) string {
	switch kind {
	case "branchend":
		return []string{"", "", "", "", "none", "none", "static", "indirect", "pdata", "pdata"}[r.Intn(10)]
	case "dep":
		return []string{"", "", "", "", "", "none", "none", "static", "indirect", "indirect"}[r.Intn(10)]
	}
	return ""
}

// fixed corpus: the negation witness of Props/C19.lean (skipped_target_witness) and its
// neighbours — the only successors of the producer are the ends of a prefix-reading branch, the
// selected one has no data predecessor; nobody else reads the producer's stream.
func c19wCorpus() []*c19wCase {
	var out []*c19wCase
	for _, d := range []string{"none", "static"} {
		for _, cond := range []string{"prefix", "multi-prefix"} {
			out = append(out, &c19wCase{Kind: "workflow", Chunks: 3,
				Succ: []c19wSucc{{Key: "n0", Kind: "branchend", Data: d}, {Key: "n1", Kind: "branchend"}},
				Cond: cond, Select: []string{"n0"}, Paradigm: "stream", Consume: -1})
		}
	}
	return out
}

func c19wReplay(ctx *vh.Ctx, raw json.RawMessage) (bool, error) {
	var probe struct {
		Kind string `json:"kind"`
	}
	if json.Unmarshal(raw, &probe) != nil || probe.Kind != "workflow" {
		return false, nil
	}
	var c c19wCase
	if err := json.Unmarshal(raw, &c); err != nil {
		return true, err
	}
	return true, c19wOne(ctx, &c)
}

func c19wRun(ctx *vh.Ctx) error {
	for _, c := range c19wCorpus() {
		if err := c19wOne(ctx, c); err != nil {
			return err
		}
	}
	n := ctx.N(1000, 6000)
	for i := 0; i < n && ctx.TimeLeft(); i++ {
		if err := c19wOne(ctx, c19wGen(ctx.Rng)); err != nil {
			return err
		}
	}
	return nil
}
