//go:build verif && (vh_all || vh_c11)

package props

// C11 resume family, parent side: generators, accounting and comparison with the oracle.
//
//   kind "resume" (chain): a sequential nest of graph levels.  The oracle query "chain" runs
//     the flattened operation sequence on one state cell per level and, at every observed
//     interrupt, lets the model (`resumePath` / `visible` with the resume facts) decide which
//     cell each active level works on after the resume.
//   kind "eager": restored and later-created tasks of a resumed Workflow; the oracle query
//     "locks" says which mutex every task uses (`resumeLockOf`) and runs the many-mutex
//     micro-step machine.

import (
	"encoding/json"
	"fmt"
	"strings"

	"github.com/cloudwego/eino/verifharness/vh"
)

// ---------- generators ----------

func c11GenChainBody(r *vh.Rand, key string, ctrs int, withState bool) []c11Op {
	ops := []c11Op{{O: "tag", T: "b" + key}}
	if !withState {
		return ops
	}
	n := r.Range(0, 2)
	for i := 0; i < n; i++ {
		if r.Chance(55) {
			ops = append(ops, c11Op{O: "inc", W: "proc", C: r.Intn(ctrs), D: r.Range(1, 5), Rep: r.Range(1, 4)})
		} else {
			ops = append(ops, c11Op{O: "stamp", W: "proc", Tag: "s" + key + ":"})
		}
	}
	return ops
}

// c11GenChainLevel: one graph level, a linear chain of 2-3 lambda nodes and 0-2 nested graphs.
func c11GenChainLevel(r *vh.Rand, prefix string, depth int, parentVisible bool, ctrs int) c11Graph {
	g := c11Graph{Mode: []string{"pregel", "dag", "workflow"}[r.Intn(3)]}
	g.Stateful = r.Chance(map[int]int{0: 65, 1: 80, 2: 70}[depth])
	if parentVisible && !g.Stateful && r.Chance(70) {
		// a stateless level that inherits the enclosing state and is interrupted inside runs into the
		// known finding C11:resume:stateless-nested-state-copy; keep those cases few
		g.Stateful = true
	}
	visible := g.Stateful || parentVisible
	nl := r.Range(2, 3)
	subs := 0
	if depth < 2 && r.Chance(map[int]int{0: 88, 1: 35}[depth]) {
		subs = 1
		if depth == 0 && r.Chance(15) {
			subs = 2
		}
	}
	// positions of the nested graphs among the nl+subs nodes
	isSub := make([]bool, nl+subs)
	for _, p := range r.Perm(nl + subs)[:subs] {
		isSub[p] = true
	}
	for i := 0; i < nl+subs; i++ {
		key := fmt.Sprintf("%sn%d", prefix, i)
		n := c11Node{Key: key, Preds: []int{}}
		if i > 0 {
			n.Preds = []int{i - 1}
		}
		if isSub[i] {
			sub := c11GenChainLevel(r, key+"_", depth+1, visible, ctrs)
			n.Sub = &sub
		} else {
			n.Body = c11GenChainBody(r, key, ctrs, visible)
		}
		if g.Stateful {
			n.Pre = c11HandlerKind(r, 55)
			n.Post = c11HandlerKind(r, 55)
		}
		g.Nodes = append(g.Nodes, n)
	}
	return g
}

func c11GenChain(r *vh.Rand, quick bool) *c11Case {
	c := &c11Case{Kind: "resume", Ctrs: r.Range(1, 3), Paradigm: "invoke", Runs: 1}
	if r.Chance(35) {
		c.Paradigm = "stream"
	}
	for {
		c.G = c11GenChainLevel(r, "", 0, false, c.Ctrs)
		l := c11LayoutOf(&c.G)
		anyState := false
		for _, g := range l.Graphs {
			anyState = anyState || g.Stateful
		}
		if anyState {
			break
		}
	}
	l := c11LayoutOf(&c.G)
	// interrupt points: 1-3, nested levels preferred
	type cand struct {
		gi, ni int
		kind   string
	}
	var nested, top []cand
	for gi, g := range l.Graphs {
		for ni := range g.Nodes {
			kinds := []string{"before", "after"}
			if g.Nodes[ni].Sub == nil {
				kinds = append(kinds, "rerun")
			}
			for _, k := range kinds {
				if k == "after" && ni == len(g.Nodes)-1 {
					continue // an interrupt after the last node of a graph never fires (the run returns)
				}
				if gi == 0 {
					top = append(top, cand{gi, ni, k})
				} else {
					nested = append(nested, cand{gi, ni, k})
				}
			}
		}
	}
	n := 1
	if r.Chance(45) {
		n = r.Range(2, 3)
	}
	for i := 0; i < n; i++ {
		pool := top
		if len(nested) > 0 && r.Chance(70) {
			pool = nested
		}
		cd := pool[r.Intn(len(pool))]
		g := l.Graphs[cd.gi]
		switch cd.kind {
		case "before":
			if !c11Has(g.Before, g.Nodes[cd.ni].Key) {
				g.Before = append(g.Before, g.Nodes[cd.ni].Key)
			}
		case "after":
			if !c11Has(g.After, g.Nodes[cd.ni].Key) {
				g.After = append(g.After, g.Nodes[cd.ni].Key)
			}
		case "rerun":
			g.Nodes[cd.ni].Rerun = true
		}
	}
	if r.Chance(40) {
		c11AddLoop(r, l)
	}
	for i := 0; i < 8; i++ {
		d := 0
		if r.Chance(45) {
			d = r.Range(1, 999)
		}
		c.Mods = append(c.Mods, d)
	}
	return c
}

// c11HasInterrupt: an interrupt point lies in graph level gi or below.
func c11HasInterrupt(l *c11Layout, gi int) bool {
	g := l.Graphs[gi]
	if len(g.Before)+len(g.After) > 0 {
		return true
	}
	for ni := range g.Nodes {
		if g.Nodes[ni].Rerun {
			return true
		}
	}
	for sgi := range l.Graphs {
		if l.GPar[sgi] == gi && c11HasInterrupt(l, sgi) {
			return true
		}
	}
	return false
}

// c11AddLoop: one Pregel cycle in one graph level (top-level or nested): after node LoopFrom a
// branch leads back to node LoopTo 1-3 more times.  Preferred (75%): a cycle through a graph node
// whose nested graph contains an interrupt point — the node is resumed in the middle of one
// execution and executed again, as a fresh task, inside the resumed run; else a cycle through any
// node of a level that has an interrupt point somewhere (a plain node with pre/post handlers, a
// rerun node, a node behind an interrupt-before/after point).
func c11AddLoop(r *vh.Rand, l *c11Layout) {
	type cand struct{ gi, ni int }
	var through, any []cand
	for gi, g := range l.Graphs {
		for ni := range g.Nodes {
			n := &g.Nodes[ni]
			if n.Sub != nil {
				for sgi := range l.Graphs {
					if l.GOwner[sgi] == l.GNodes[gi][ni] && c11HasInterrupt(l, sgi) {
						through = append(through, cand{gi, ni})
					}
				}
			}
			if c11HasInterrupt(l, gi) {
				any = append(any, cand{gi, ni})
			}
		}
	}
	pool := any
	if len(through) > 0 && r.Chance(75) {
		pool = through
	}
	if len(pool) == 0 {
		return
	}
	// both placements: the level with the cycle is the top-level graph (resumed from the store) or
	// a nested one (resumed from the checkpoint its parent hands down)
	var nestedPool []cand
	for _, cd := range pool {
		if cd.gi > 0 {
			nestedPool = append(nestedPool, cd)
		}
	}
	if len(nestedPool) > 0 && r.Chance(45) {
		pool = nestedPool
	}
	cd := pool[r.Intn(len(pool))]
	g := l.Graphs[cd.gi]
	g.Mode = "pregel" // only Pregel graphs may contain a cycle
	g.LoopTo = r.Range(0, cd.ni)
	g.LoopFrom = r.Range(cd.ni, len(g.Nodes)-1)
	g.LoopN = r.Range(1, 3)
	// every interrupt point inside the cycle fires once per iteration: keep the number of resumes small
	points := 0
	var count func(gi int)
	count = func(gi int) {
		sg := l.Graphs[gi]
		points += len(sg.Before) + len(sg.After)
		for sgi := range l.Graphs {
			if l.GPar[sgi] == gi {
				count(sgi)
			}
		}
	}
	count(cd.gi)
	for g.LoopN > 1 && points*(g.LoopN+1) > 10 {
		g.LoopN--
	}
}

func c11Has(l []string, s string) bool {
	for _, x := range l {
		if x == s {
			return true
		}
	}
	return false
}

func c11GenEager(r *vh.Rand, quick bool) *c11Case {
	c := &c11Case{Kind: "eager", Ctrs: r.Range(1, 2), Paradigm: "invoke", Runs: 1}
	c.Micro = r.U64()%1000000 + 1
	if r.Chance(30) {
		c.Paradigm = "stream"
	}
	c.IntKind = []string{"before", "after", "rerun"}[r.Intn(3)]
	c.Wrapped = r.Chance(30)
	g := c11Graph{Mode: "workflow", Stateful: true}
	incs := func(key string, lo, hi int) []c11Op {
		ops := []c11Op{{O: "tag", T: "b" + key}}
		for i, n := 0, r.Range(1, 2); i < n; i++ {
			ops = append(ops, c11Op{O: "inc", W: "proc", C: r.Intn(c.Ctrs), D: r.Range(1, 5), Rep: r.Range(lo, hi)})
		}
		if r.Chance(40) {
			ops = append(ops, c11Op{O: "stamp", W: "proc", Tag: "s" + key + ":"})
		}
		return ops
	}
	base := []int{}
	if c.IntKind == "after" {
		g.Nodes = append(g.Nodes, c11Node{Key: "head", Preds: []int{}, Body: incs("head", 1, 5), Post: c11HandlerKind(r, 50)})
		g.After = []string{"head"}
		base = []int{0}
	}
	k := r.Range(2, 4)
	hIdx := r.Intn(k)
	wIdx := (hIdx + 1 + r.Intn(k-1)) % k
	xs := make([]int, k)
	for i := 0; i < k; i++ {
		n := c11Node{Key: fmt.Sprintf("x%d", i), Preds: append([]int{}, base...), Body: incs(fmt.Sprintf("x%d", i), 1, 6)}
		if c.IntKind != "rerun" {
			n.Pre = c11HandlerKind(r, 50)
		} else {
			n.Rerun = true
		}
		switch i {
		case hIdx:
			n.Role = "holder"
			n.Post = c11HandlerKind(r, 50)
		case wIdx:
			n.Role = "witness"
		default:
			n.Role = "side"
			n.Post = c11HandlerKind(r, 50)
		}
		xs[i] = len(g.Nodes)
		g.Nodes = append(g.Nodes, n)
		if c.IntKind == "before" && (i == wIdx || r.Bool()) {
			g.Before = append(g.Before, n.Key)
		}
	}
	for i := 0; i < k; i++ {
		if i != wIdx && !r.Chance(50) {
			continue
		}
		key := fmt.Sprintf("z%d", i)
		n := c11Node{Key: key, Preds: []int{xs[i]}, Body: incs(key, 5, 40), Pre: c11HandlerKind(r, 60), Post: c11HandlerKind(r, 50)}
		if i == wIdx {
			n.Role = "late"
		}
		g.Nodes = append(g.Nodes, n)
	}
	c.G = g
	for i := 0; i < 4; i++ {
		d := 0
		if r.Chance(45) {
			d = r.Range(1, 999)
		}
		c.Mods = append(c.Mods, d)
	}
	return c
}

// c11WitnessStatelessNested: the smallest case of the finding
// C11:resume:stateless-nested-state-copy (run first in every run): a stateful graph
// a -> sub -> b whose nested graph `sub` (m0 -> m1) declares no state and increments the
// enclosing graph's counter; interrupt before m1, resume without modifier.  m1's increment
// must be in the state b stamps.
func c11WitnessStatelessNested() *c11Case {
	inc := func(key string) []c11Op {
		return []c11Op{{O: "tag", T: "b" + key}, {O: "inc", W: "proc", C: 0, D: 1, Rep: 1}}
	}
	sub := c11Graph{Mode: "pregel", Stateful: false, Before: []string{"m1"}, Nodes: []c11Node{
		{Key: "m0", Preds: []int{}, Body: inc("m0")},
		{Key: "m1", Preds: []int{0}, Body: inc("m1")},
	}}
	return &c11Case{Kind: "resume", Ctrs: 1, Paradigm: "invoke", Runs: 1, Mods: []int{0, 0, 0},
		G: c11Graph{Mode: "pregel", Stateful: true, Nodes: []c11Node{
			{Key: "a", Preds: []int{}, Body: inc("a")},
			{Key: "sub", Preds: []int{0}, Sub: &sub},
			{Key: "b", Preds: []int{1}, Body: append(inc("b"), c11Op{O: "stamp", W: "proc", Tag: "sb:"})},
		}}}
}

// ---------- accounting ----------

func c11ResumeShape(c *c11Case) string {
	l := c11LayoutOf(&c.G)
	var sb strings.Builder
	for gi, g := range l.Graphs {
		sb.WriteString(g.Mode[:1])
		if g.Stateful {
			sb.WriteString("S")
		}
		sb.WriteString(fmt.Sprintf("%d", len(g.Nodes)))
		if len(g.Before) > 0 {
			sb.WriteString("b")
		}
		if len(g.After) > 0 {
			sb.WriteString("a")
		}
		for ni := range g.Nodes {
			if g.Nodes[ni].Rerun {
				sb.WriteString("r")
				break
			}
		}
		if g.LoopN > 0 {
			sb.WriteString(fmt.Sprintf("L%d-%dx%d", g.LoopTo, g.LoopFrom, g.LoopN))
		}
		if gi < len(l.Graphs)-1 {
			sb.WriteString(".")
		}
	}
	mods := ""
	for _, d := range c.Mods[:3] {
		if d > 0 {
			mods += "m"
		} else {
			mods += "-"
		}
	}
	return fmt.Sprintf("%s/%s/%s/%s%v", c.Kind, sb.String(), c.Paradigm, mods, c.Wrapped)
}

func c11ResumeAccount(ctx *vh.Ctx, c *c11Case) {
	l := c11LayoutOf(&c.G)
	ctx.Res.Dist("family=" + c.Kind)
	ctx.Res.Dist(c.Kind + ":paradigm=" + c.Paradigm)
	if c.Kind == "eager" {
		ctx.Res.Dist("eager:int=" + c.IntKind)
		if c.Wrapped {
			ctx.Res.Dist("eager:wrapped")
		}
		ctx.Res.Count(c11ResumeShape(c)+"/"+c.IntKind, true)
		ctx.Res.Sample(c)
		return
	}
	ctx.Res.Dist(fmt.Sprintf("resume:levels=%d", len(l.Graphs)))
	for gi, g := range l.Graphs {
		if g.LoopN > 0 {
			where := "top"
			if gi > 0 {
				where = "nested"
			}
			through := "plain"
			for ni := g.LoopTo; ni <= g.LoopFrom && ni < len(g.Nodes); ni++ {
				if g.Nodes[ni].Sub != nil {
					through = "graph-node"
				}
			}
			ctx.Res.Dist("resume:loop=" + where + "/" + through)
			ctx.Res.Dist(fmt.Sprintf("resume:loop-iterations=%d", g.LoopN+1))
		}
	}
	nestedInt := false
	for gi, g := range l.Graphs {
		has := len(g.Before)+len(g.After) > 0
		for ni := range g.Nodes {
			has = has || g.Nodes[ni].Rerun
		}
		if has && gi > 0 {
			nestedInt = true
		}
	}
	ctx.Res.Count(c11ResumeShape(c), nestedInt || len(l.Graphs) == 1)
	ctx.Res.Sample(c)
}

// ---------- chain: flattening ----------

type c11ProgEnt struct {
	L  int   `json:"l"`
	G  int   `json:"g"`
	R  int   `json:"r,omitempty"` // run instance of level L (a level inside a cycle runs once per iteration)
	Op c11Op `json:"op"`
}

type c11Flattened struct {
	prog     []c11ProgEnt
	start    map[int][]int // gid -> per execution of the node: position of its first operation
	end      map[int][]int // gid -> per execution: position after its last operation
	inst     map[int][]int // gid -> per execution: the run instance of the node's level
	rerunCut map[int]int   // gid -> position of the InterruptAndRerun of a rerun node (its first execution)
	preN     map[int]int
	bodyN    map[int]int
	postN    map[int]int
	runs     map[int]int // graph level -> number of run instances
}

// c11LoopOrder: the node indices of a level in execution order (a cycle unrolled).
func c11LoopOrder(g *c11Graph) []int {
	var order []int
	loop := g.LoopN > 0 && g.LoopFrom < len(g.Nodes) && g.LoopTo <= g.LoopFrom
	for ni := range g.Nodes {
		order = append(order, ni)
		if loop && ni == g.LoopFrom {
			for k := 0; k < g.LoopN; k++ {
				for x := g.LoopTo; x <= g.LoopFrom; x++ {
					order = append(order, x)
				}
			}
		}
	}
	return order
}

// c11FlattenChain: the operations of the whole nest in execution order, cycles unrolled.
// withRerun: a rerun node's pre-handler runs, the body interrupts at once (the first time the node
// is executed); after the resume the node is re-executed from its pre-handler on the zero input
// (graph_run.go handleInterruptWithSubGraphAndRerunNodes: rerun tasks get inputZeroValue, no
// SkipPreHandler).  A graph node that is resumed because its nested graph interrupted does NOT run
// its pre-handler again (it is in the program once, before the nested operations); every further
// execution of the node is in the program with its pre-handler — whether it runs is the model's
// decision (`skipsPre`, see the cut's "subs").
func c11FlattenChain(l *c11Layout, withRerun bool) *c11Flattened {
	fl := &c11Flattened{start: map[int][]int{}, rerunCut: map[int]int{}, end: map[int][]int{}, inst: map[int][]int{},
		preN: map[int]int{}, bodyN: map[int]int{}, postN: map[int]int{}, runs: map[int]int{}}
	var walk func(gi int)
	walk = func(gi int) {
		inst := fl.runs[gi]
		fl.runs[gi]++
		if gi > 0 {
			// the nested graph starts a run: a graph that declares state generates a fresh one now
			fl.prog = append(fl.prog, c11ProgEnt{L: gi, G: l.GOwner[gi], R: inst, Op: c11Op{O: "enter"}})
		}
		for _, ni := range c11LoopOrder(l.Graphs[gi]) {
			gid := l.GNodes[gi][ni]
			n := l.Nodes[gid].Node
			fl.start[gid] = append(fl.start[gid], len(fl.prog))
			fl.inst[gid] = append(fl.inst[gid], inst)
			pre := func() {
				if n.Pre != "" {
					fl.prog = append(fl.prog, c11ProgEnt{L: gi, G: gid, R: inst, Op: c11Op{O: "stamp", W: "pre", Tag: fmt.Sprintf("p%d:", gid)}})
					fl.preN[gid]++
				}
			}
			pre()
			if _, done := fl.rerunCut[gid]; withRerun && n.Rerun && !done {
				fl.rerunCut[gid] = len(fl.prog)
				fl.prog = append(fl.prog, c11ProgEnt{L: gi, G: gid, R: inst, Op: c11Op{O: "const", V: ""}})
				pre()
			}
			if n.Sub != nil {
				for sgi := range l.Graphs {
					if l.GOwner[sgi] == gid {
						walk(sgi)
					}
				}
			} else {
				fl.bodyN[gid]++
				for _, o := range n.Body {
					fl.prog = append(fl.prog, c11ProgEnt{L: gi, G: gid, R: inst, Op: o})
				}
			}
			if n.Post != "" {
				fl.prog = append(fl.prog, c11ProgEnt{L: gi, G: gid, R: inst, Op: c11Op{O: "stamp", W: "post", Tag: fmt.Sprintf("q%d:", gid)}})
				fl.postN[gid]++
			}
			fl.end[gid] = append(fl.end[gid], len(fl.prog))
		}
	}
	walk(0)
	return fl
}

// execAt: the execution of node gid that contains program position p, -1 if none.  Two consecutive
// executions share a boundary position: an interrupt AFTER a node belongs to the earlier one
// (first), an interrupt before a node / a rerun to the later one.
func (fl *c11Flattened) execAt(gid, p int, first bool) int {
	k := -1
	for i, st := range fl.start[gid] {
		if st <= p && p <= fl.end[gid][i] {
			if first && k >= 0 {
				continue
			}
			k = i
		}
	}
	return k
}

type c11ChainModel struct {
	Out   string  `json:"out"`
	Err   *string `json:"err"`
	Cells []struct {
		Ctr   []int `json:"ctr"`
		Seq   int   `json:"seq"`
		Order []int `json:"order"`
	} `json:"cells"`
	Vis     []*int  `json:"vis"`
	Touched [][]int `json:"touched"`
	AtCut   [][]struct {
		L     int   `json:"l"`
		Ctr   []int `json:"ctr"`
		Seq   int   `json:"seq"`
		Order []int `json:"order"`
	} `json:"atCut"`
}

func c11LevelsJSON(l *c11Layout) []map[string]any {
	depth := make([]int, len(l.Graphs))
	var out []map[string]any
	for gi, g := range l.Graphs {
		var par any
		if l.GPar[gi] >= 0 {
			par = l.GPar[gi]
			depth[gi] = depth[l.GPar[gi]] + 1
		}
		out = append(out, map[string]any{"s": g.Stateful, "par": par, "depth": depth[gi]})
	}
	return out
}

func c11AskChain(ctx *vh.Ctx, c *c11Case, l *c11Layout, fl *c11Flattened, cuts []map[string]any) (*c11ChainModel, error) {
	if cuts == nil {
		cuts = []map[string]any{}
	}
	raw, err := ctx.Oracle.Ask("C11", map[string]any{"k": "chain", "ctrs": c.Ctrs, "in": "x",
		"levels": c11LevelsJSON(l), "prog": fl.prog, "cuts": cuts})
	if err != nil {
		return nil, err
	}
	var m c11ChainModel
	if err := json.Unmarshal(raw, &m); err != nil {
		return nil, err
	}
	return &m, nil
}

// c11LevelIDs: the state object each graph level's own lambda nodes saw (-1 none, -2 they disagree).
func c11LevelIDs(l *c11Layout, run *c11RunObs) []int {
	ids := make([]int, len(l.Graphs))
	for gi := range l.Graphs {
		ids[gi] = -3
		for _, gid := range l.GNodes[gi] {
			f := l.Nodes[gid]
			if f.Node.Sub != nil {
				continue
			}
			no := run.Nodes[f.Path]
			if no == nil || no.Probe == nil {
				continue
			}
			switch {
			case ids[gi] == -3:
				ids[gi] = *no.Probe
			case ids[gi] != *no.Probe:
				ids[gi] = -2
			}
		}
	}
	return ids
}

func c11Relabel(xs []int) []int {
	m := map[int]int{}
	out := make([]int, len(xs))
	for i, x := range xs {
		if x < 0 {
			out[i] = x
			continue
		}
		if _, ok := m[x]; !ok {
			m[x] = len(m)
		}
		out[i] = m[x]
	}
	return out
}

// c11FinalOf: the snapshot of state object id with the longest log; forked = another snapshot
// of the same object is not a prefix of it (two copies of one state lived on separately).
func c11FinalOf(run *c11RunObs, id int) (fin *c11StateObs, forked bool) {
	for i := range run.States {
		s := &run.States[i]
		if s.ID == id && (fin == nil || len(s.Order) >= len(fin.Order)) { // ties: the object seen later
			fin = s
		}
	}
	if fin == nil {
		return nil, false
	}
	for i := range run.States {
		s := &run.States[i]
		if s.ID != id || s == fin {
			continue
		}
		if len(s.Order) > len(fin.Order) || !vh.CanonEq(s.Order, fin.Order[:len(s.Order)]) {
			forked = true
		}
	}
	return fin, forked
}

func c11ErrClass(run *c11RunObs) string {
	switch {
	case run.Class != "error":
		return run.Class
	case strings.Contains(run.ErrText, "have not set state"):
		return "no-state"
	case strings.Contains(run.ErrText, "unexpected state type"):
		return "state-type"
	}
	return "error"
}

func c11ResumeCompare(ctx *vh.Ctx, c *c11Case, o *c11CaseObs) error {
	l := c11LayoutOf(&c.G)
	suffix := ""
	inheritingActive := false // an interrupt happened inside a stateless level that works on an enclosing level's state
	dis := func(what, text string, model, impl any) {
		sig := "C11:resume:" + what + suffix
		switch what {
		case "state-identity", "state-at-interrupt", "state-forked", "state-after-resume", "run-output", "output-vs-reference":
			if inheritingActive {
				sig = "C11:resume:stateless-nested-state-copy"
				text = "a nested graph WITHOUT own state that works on the enclosing graph's state was interrupted and resumed: it came back with a private copy of that state, so what its nodes write after the resume never reaches the enclosing graph's state (observed as: " + what + " — " + text + ")"
			}
		}
		ctx.Res.Disagree(vh.Disagreement{Signature: sig, What: text, Case: c, Model: model, Impl: impl})
	}
	if o.BuildErr != "" {
		dis("build-error", "the graphs could not be built/compiled: "+o.BuildErr, nil, o)
		return nil
	}
	if len(o.Runs) != 1 || o.Ref == nil {
		dis("child-crash", "no observation of the run or of its reference", nil, o)
		return nil
	}
	run, ref := &o.Runs[0], o.Ref
	// ---- the reference (no interrupt) against the model without cuts ----
	flRef := c11FlattenChain(l, false)
	mRef, err := c11AskChain(ctx, c, l, flRef, nil)
	if err != nil {
		return err
	}
	if ref.Class != "ok" {
		dis("reference-run-"+c11ErrClass(ref), "the uninterrupted reference run did not complete: "+ref.ErrText, nil, ref)
		return nil
	}
	if mRef.Err != nil || ref.Out != mRef.Out {
		dis("reference-output", fmt.Sprintf("the uninterrupted reference run returned %q, the model %q", ref.Out, mRef.Out), mRef.Out, ref.Out)
		return nil
	}
	// ---- where was the run interrupted ----
	keyGid := func(gi int, key string) int {
		for ni := range l.Graphs[gi].Nodes {
			if l.Graphs[gi].Nodes[ni].Key == key {
				return l.GNodes[gi][ni]
			}
		}
		return -1
	}
	fl := c11FlattenChain(l, true)
	var cuts []map[string]any
	deepest, anyMod, anyNoMod, anyRerun := 0, false, false, false
	located := true
	seenInt := map[string]int{} // (kind, node) -> interrupts seen so far = index of the node's execution
	nth := func(kind string, g int, pos []int) int {
		k := seenInt[fmt.Sprint(kind, g)]
		seenInt[fmt.Sprint(kind, g)] = k + 1
		if k < len(pos) {
			return pos[k]
		}
		return -1
	}
	for _, io := range run.Ints {
		if len(io.Levels) == 0 || io.Forked {
			located = false
			break
		}
		var active []int
		for _, lv := range io.Levels {
			if lv.Graph < 0 {
				located = false
			}
			active = append(active, lv.Graph)
		}
		if !located {
			break
		}
		last := io.Levels[len(io.Levels)-1]
		p := -1
		switch {
		case len(last.Rerun) > 0:
			if g := keyGid(last.Graph, last.Rerun[0]); g >= 0 {
				if v, ok := fl.rerunCut[g]; ok {
					p = v
				}
			}
			anyRerun = true
		case len(last.Before) > 0:
			if g := keyGid(last.Graph, last.Before[0]); g >= 0 {
				p = nth("b", g, fl.start[g])
			}
			// an interrupt after a node and before its successor are one interrupt: count both
			for _, k := range last.After {
				if g := keyGid(last.Graph, k); g >= 0 {
					nth("a", g, fl.end[g])
				}
			}
		case len(last.After) > 0:
			if g := keyGid(last.Graph, last.After[0]); g >= 0 {
				p = nth("a", g, fl.end[g])
			}
		}
		if p < 0 {
			located = false
			break
		}
		if len(active)-1 > deepest {
			deepest = len(active) - 1
		}
		var mod any
		if io.Mod > 0 {
			mod = io.Mod
			anyMod = true
		} else {
			anyNoMod = true
		}
		// the graph nodes that are restored as interrupted nested graphs (SkipPreHandler entries of
		// the checkpoints): the owners of the active nested levels
		subs := []map[string]any{}
		inst := []int{0}
		isAfter := len(last.Rerun) == 0 && len(last.Before) == 0
		for _, gi := range active[1:] {
			og := l.GOwner[gi]
			if og < 0 {
				located = false
				break
			}
			k := fl.execAt(og, p, isAfter)
			if k < 0 {
				located = false
				break
			}
			inst = append(inst, k) // a nested level is run once per execution of the node that embeds it
			var pre any
			if l.Nodes[og].Node.Pre != "" {
				pre = c11Op{O: "stamp", W: "pre", Tag: fmt.Sprintf("p%d:", og)}
			}
			subs = append(subs, map[string]any{"g": og, "l": l.Nodes[og].Graph, "r": fl.inst[og][k], "pre": pre})
		}
		if !located {
			break
		}
		cuts = append(cuts, map[string]any{"p": p, "active": active, "inst": inst, "mod": mod, "subs": subs})
	}
	lvl := "top"
	if deepest > 0 {
		lvl = "nested"
	}
	modS := "n"
	if anyMod && anyNoMod {
		modS = "mixed"
	} else if anyMod {
		modS = "y"
	}
	suffix = ":lvl=" + lvl + ":mod=" + modS
	hasLoop := false
	for _, g := range l.Graphs {
		hasLoop = hasLoop || g.LoopN > 0
	}
	if hasLoop {
		suffix += ":loop"
	}
	ctx.Res.Dist(fmt.Sprintf("resume:interrupts=%d", len(run.Ints)))
	if len(run.Ints) > 0 {
		ctx.Res.Dist("resume:interrupted-level=" + lvl)
		ctx.Res.Dist("resume:modifier=" + modS)
		for _, io := range run.Ints {
			last := io.Levels[len(io.Levels)-1]
			switch {
			case len(last.Rerun) > 0:
				ctx.Res.Dist("resume:int=rerun")
			case len(last.Before) > 0:
				ctx.Res.Dist("resume:int=before")
			case len(last.After) > 0:
				ctx.Res.Dist("resume:int=after")
			}
		}
	}
	if !located {
		ctx.Res.Dist("resume:interrupt-not-located")
		dis("interrupt-shape", "an interrupt of the sequential nest does not name a single chain of nested graphs ending in before/after/rerun nodes", nil, run.Ints)
		return nil
	}
	if run.Class != "ok" {
		dis("run-"+c11ErrClass(run), fmt.Sprintf("the interrupted run did not complete after %d resume(s) although its uninterrupted reference does: %s %s", len(run.Ints), run.Class, run.ErrText), nil, run)
		return nil
	}
	m, err := c11AskChain(ctx, c, l, fl, cuts)
	if err != nil {
		return err
	}
	if m.Err != nil {
		return fmt.Errorf("C11 chain model failed on a generated case: %s", *m.Err)
	}
	// ---- which state object does each level work on ----
	ids := c11LevelIDs(l, run)
	mvis := make([]int, len(l.Graphs))
	for gi := range l.Graphs {
		mvis[gi] = -1
		if gi < len(m.Vis) && m.Vis[gi] != nil {
			mvis[gi] = *m.Vis[gi]
		}
	}
	for _, io := range run.Ints {
		for _, lv := range io.Levels {
			if lv.Graph >= 0 && !l.Graphs[lv.Graph].Stateful && mvis[lv.Graph] >= 0 {
				inheritingActive = true
			}
		}
	}
	if inheritingActive {
		ctx.Res.Dist("resume:interrupt-inside-inheriting-level")
	}
	if !vh.CanonEq(c11Relabel(mvis), c11Relabel(ids)) {
		dis("state-identity", "after the resume(s) the graph levels do not work on the state objects the model says (canonical ids per level, pre-order; -1 = no state, -2 = nodes of one level saw different objects): a nested graph lost its own state or works on another level's", c11Relabel(mvis), c11Relabel(ids))
		return nil
	}
	for gi := range l.Graphs {
		for _, gid := range l.GNodes[gi] {
			f := l.Nodes[gid]
			no := run.Nodes[f.Path]
			if no == nil {
				continue
			}
			if fl.runs[gi] > 1 {
				// a level inside a cycle is run once per iteration, each time with a freshly
				// generated state: its nodes legitimately saw several objects (the last one is `ids`)
				continue
			}
			for _, sid := range no.StateIDs {
				if sid != ids[gi] {
					dis("state-identity", fmt.Sprintf("node %s: a state operation got state object %d, its level's object is %d", f.Path, sid, ids[gi]), ids[gi], no)
					return nil
				}
			}
		}
	}
	// ---- the state of every active level at every interrupt ----
	for i, io := range run.Ints {
		want := map[int]any{}
		for _, a := range m.AtCut[i] {
			want[a.L] = map[string]any{"ctr": a.Ctr, "seq": a.Seq, "order": a.Order}
		}
		for _, lv := range io.Levels {
			w, has := want[lv.Graph]
			if !has {
				// a level without own state reports what its context carries (the enclosing state): not compared
				continue
			}
			if lv.State == nil {
				dis("state-at-interrupt", fmt.Sprintf("interrupt %d: level %d reports no state in its InterruptInfo", i, lv.Graph), w, nil)
				return nil
			}
			got := map[string]any{"ctr": lv.State.Ctr, "seq": lv.State.Seq, "order": lv.State.Order}
			if !vh.CanonEq(w, got) {
				dis("state-at-interrupt", fmt.Sprintf("interrupt %d: the state of level %d at the interrupt differs from the model (what was written before the interrupt)", i, lv.Graph), w, got)
				return nil
			}
		}
	}
	// ---- final state of every level ----
	for gi, g := range l.Graphs {
		if !g.Stateful {
			continue
		}
		fin, forked := c11FinalOf(run, ids[gi])
		want := map[string]any{"ctr": m.Cells[gi].Ctr, "seq": m.Cells[gi].Seq, "order": m.Cells[gi].Order}
		if fin == nil {
			dis("state-after-resume", fmt.Sprintf("level %d: no state object observed", gi), want, nil)
			return nil
		}
		got := map[string]any{"ctr": fin.Ctr, "seq": fin.Seq, "order": fin.Order}
		if forked {
			dis("state-forked", fmt.Sprintf("level %d: two copies of its state object lived on separately after a resume (their logs diverge)", gi), want, run.States)
			return nil
		}
		if !vh.CanonEq(want, got) {
			dis("state-after-resume", fmt.Sprintf("level %d: the final state is not the checkpointed state (+ modifier) followed by the operations of the resumed run", gi), want, got)
			return nil
		}
	}
	if run.Out != m.Out {
		dis("run-output", fmt.Sprintf("the resumed run returned %q, the model %q", run.Out, m.Out), m.Out, run.Out)
		return nil
	}
	if !anyRerun && run.Out != ref.Out {
		dis("output-vs-reference", fmt.Sprintf("the resumed run returned %q, the uninterrupted run %q", run.Out, ref.Out), ref.Out, run.Out)
		return nil
	}
	// ---- every stage ran as often as the model says ----
	for gid, f := range l.Nodes {
		no := run.Nodes[f.Path]
		if no == nil {
			continue
		}
		wantBody, wantPost := fl.bodyN[gid], fl.postN[gid]
		if no.PreN != fl.preN[gid] || no.BodyN != wantBody || no.PostN != wantPost {
			dis("handler-count", fmt.Sprintf("node %s: pre-handler %d, body %d, post-handler %d runs; model %d, %d, %d (one pre- and one post-handler run per execution of the node; only the execution restored from a checkpoint of an interrupted nested graph skips the pre-handler)", f.Path, no.PreN, no.BodyN, no.PostN, fl.preN[gid], wantBody, wantPost), nil, no)
			return nil
		}
	}
	if len(run.Ints) == 0 {
		ctx.Res.Dist("resume:interrupt=not-hit")
	}
	return nil
}

// ---------- eager ----------

func c11EagerCompare(ctx *vh.Ctx, c *c11Case, o *c11CaseObs) error {
	l := c11LayoutOf(&c.G)
	where := "top"
	if c.Wrapped {
		where = "nested"
	}
	suffix := ":int=" + c.IntKind + ":lvl=" + where
	dis := func(what, text string, model, impl any) {
		ctx.Res.Disagree(vh.Disagreement{Signature: "C11:eager:" + what + suffix, What: text, Case: c, Model: model, Impl: impl})
	}
	if o.BuildErr != "" {
		dis("build-error", "the Workflow could not be built/compiled: "+o.BuildErr, nil, o)
		return nil
	}
	if len(o.Runs) != 1 {
		dis("child-crash", "no observation of the run", nil, o)
		return nil
	}
	run := &o.Runs[0]
	ctx.Res.Dist("eager:barrier=" + run.Barrier)
	ctx.Res.Dist(fmt.Sprintf("eager:interrupts=%d", run.Interrupts))
	if run.Class != "ok" {
		dis("run-"+c11ErrClass(run), fmt.Sprintf("the interrupted Workflow did not complete after %d resume(s): %s %s", run.Interrupts, run.Class, run.ErrText), nil, run)
		return nil
	}
	if run.Barrier == "timeout" {
		dis("barrier-timeout", "the restored tasks of the resumed eager Workflow did not run in parallel / a successor was not started while another restored task was running (a barrier of the forced schedule timed out)", nil, run)
		return nil
	}
	// ---- the model: which mutex, and the counters under an interleaving ----
	restored := 0
	var tasks []map[string]any
	want := map[int]int{} // gid -> operations in the state log
	mods := 0
	for _, io := range run.Ints {
		mods += io.Mod
	}
	for gid, f := range l.Nodes {
		n := f.Node
		if n.Key == "head" || n.Key[0] == 'x' {
			restored++ // (the layout lists head, the restored tasks x*, then the later-created z*)
		}
		var ops []c11Op
		add := func(op c11Op) {
			ops = append(ops, op)
			if op.O == "inc" {
				want[gid] += op.Rep
			} else if op.O == "stamp" {
				want[gid]++
			}
		}
		if n.Pre != "" {
			add(c11Op{O: "stamp", W: "pre", Tag: fmt.Sprintf("p%d:", gid)})
		}
		if n.Role == "holder" && run.Barrier != "not-played" {
			add(c11Op{O: "inc", W: "proc", C: 0, D: c11HoldIters, Rep: 1})
		}
		for _, op := range n.Body {
			add(op)
		}
		if n.Post != "" {
			add(c11Op{O: "stamp", W: "post", Tag: fmt.Sprintf("q%d:", gid)})
		}
		tasks = append(tasks, map[string]any{"in": "x", "ops": ops})
	}
	init := make([]int, c.Ctrs)
	init[0] = mods // the modifier (ctr[0] += D at the top level) commutes with every increment
	raw, err := ctx.Oracle.Ask("C11", map[string]any{"k": "locks", "top": !c.Wrapped, "restored": restored,
		"init": map[string]any{"ctr": init, "seq": 0}, "tasks": tasks, "micro": c.Micro})
	if err != nil {
		return err
	}
	var m struct {
		Locks []int `json:"locks"`
		Done  bool  `json:"done"`
		Ctr   []int `json:"ctr"`
		Seq   int   `json:"seq"`
	}
	if err := json.Unmarshal(raw, &m); err != nil {
		return err
	}
	oneLock := true
	for _, k := range m.Locks {
		oneLock = oneLock && k == m.Locks[0]
	}
	if !m.Done {
		return fmt.Errorf("C11 locks model did not finish")
	}
	if (run.Overlaps == 0) != oneLock {
		dis("mutual-exclusion", fmt.Sprintf("%d state operation(s) of the resumed Workflow started while another pre-handler / post-handler / ProcessState callback was inside its user code on the same state (a task restored from the checkpoint and a task created after the resume); the model has one mutex per run", run.Overlaps), m.Locks, map[string]any{"overlaps": run.Overlaps, "barrier": run.Barrier})
		return nil
	}
	if len(run.GenIDs) != 1 {
		dis("generator-calls", fmt.Sprintf("the state generator ran %d times in one interrupted and resumed run", len(run.GenIDs)), 1, run.GenIDs)
		return nil
	}
	fin, forked := c11FinalOf(run, run.GenIDs[0])
	if fin == nil || forked {
		dis("state-forked", "two copies of the state object lived on separately after the resume", nil, run.States)
		return nil
	}
	for gid, f := range l.Nodes {
		if no := run.Nodes[f.Path]; no != nil {
			for _, sid := range no.StateIDs {
				if sid != run.GenIDs[0] {
					dis("state-identity", fmt.Sprintf("node %s worked on state object %d, the run's object is %d", f.Path, sid, run.GenIDs[0]), run.GenIDs[0], no)
					return nil
				}
			}
		}
		got := 0
		for _, g := range fin.Order {
			if g == gid {
				got++
			}
		}
		wantN := want[gid] // (the hold of the holder is one log entry)
		if got != wantN {
			dis("operation-lost", fmt.Sprintf("node %s has %d operation(s) in the state log, %d were executed", f.Path, got, wantN), wantN, got)
			return nil
		}
	}
	if !vh.CanonEq(map[string]any{"ctr": m.Ctr, "seq": m.Seq}, map[string]any{"ctr": fin.Ctr, "seq": fin.Seq}) {
		dis("lost-update", "the counters of the resumed Workflow differ from the sum of all increments (+ modifier): an update was lost", map[string]any{"ctr": m.Ctr, "seq": m.Seq}, map[string]any{"ctr": fin.Ctr, "seq": fin.Seq})
		return nil
	}
	if run.Interrupts == 0 {
		ctx.Res.Dist("eager:interrupt=not-hit")
	}
	return nil
}
