//go:build verif && (vh_all || vh_c06)

package props

// registers the eager-workflow family (c05_eager.go: same generated cases and runs, judged by
// c06eJudge) with the C06 check
func init() {
	c06Extra = append(c06Extra, runEagerFamily)
	c06ReplayExtra["eager"] = c05eReplay
}
