//go:build verif && (vh_all || vh_c18)

package props

// C18, family "shared": several runs of the ReAct agent started from ONE message slice of the
// caller and overlapping in time (lean/EinoV/Model/C18Shared.lean, theorem react_runs_isolated).
//
// The caller's slice has `spare` cells of capacity behind its length (a slice assembled with
// append, or a prefix history[:k] of a longer one); the cells hold sentinel messages. Every run
// is given the same slice header. The runs are interleaved deterministically: each run parks at
// the END of every model call and at the END of every tools round (inside the scripted model /
// the scripted tools, after they have recorded and computed their answer); a controller hands
// out the turns of the schedule, one node execution each — release the run, wait until it has
// parked again or finished — so that exactly one run moves at any time. After the schedule the
// runs are driven round-robin until all have finished. Only channels order the steps; the 20 s
// timeout classifies a hang.
//
// Compared with the model: every run's model inputs, node executions and result — which the
// theorem says are those of the run alone, whatever the schedule — and the caller's backing
// array (all len+spare cells, by pointer; the messages of the slice by content).

import (
	"context"
	"encoding/json"
	"errors"
	"fmt"
	"io"
	"strings"
	"sync"
	"time"

	"github.com/cloudwego/eino/components/model"
	"github.com/cloudwego/eino/components/tool"
	"github.com/cloudwego/eino/compose"
	"github.com/cloudwego/eino/flow/agent"
	"github.com/cloudwego/eino/schema"
	"github.com/cloudwego/eino/verifharness/vh"
)

type c18SAnswer struct {
	Runs         []*c18Run `json:"runs"`
	CallerIntact bool      `json:"callerIntact"`
	Limit        *int      `json:"limit"`
}

// ---- the controller ----

type c18SEvent struct {
	run  int
	done bool
	gate string
}

type c18SCtl struct {
	events chan c18SEvent
	abort  chan struct{}
}

// c18SHandle is one run: its own scripted model (position, recorder) and its gates.
type c18SHandle struct {
	idx   int
	ctl   *c18SCtl
	rec   *c18Recorder
	mdl   *c18Model
	mu    sync.Mutex
	gates map[string]chan struct{}
}

type c18SKey struct{}

func c18SOf(ctx context.Context) *c18SHandle {
	h, _ := ctx.Value(c18SKey{}).(*c18SHandle)
	return h
}

// park: the run has finished the node execution `id`; wait for the next turn. Several tool
// calls of one round park at the same gate; the first arrival tells the controller.
func (h *c18SHandle) park(id string) {
	h.mu.Lock()
	ch, ok := h.gates[id]
	if !ok {
		ch = make(chan struct{})
		h.gates[id] = ch
	}
	h.mu.Unlock()
	if !ok {
		select {
		case h.ctl.events <- c18SEvent{run: h.idx, gate: id}:
		case <-h.ctl.abort:
			return
		}
	}
	select {
	case <-ch:
	case <-h.ctl.abort:
	}
}

func (h *c18SHandle) release(id string) {
	h.mu.Lock()
	if ch, ok := h.gates[id]; ok {
		select {
		case <-ch:
		default:
			close(ch)
		}
	}
	h.mu.Unlock()
}

func (h *c18SHandle) calls() int {
	h.mdl.mu.Lock()
	defer h.mdl.mu.Unlock()
	return h.mdl.pos
}

// ---- model and tools that belong to whichever run calls them ----

var c18SNoRun = errors.New("c18: call outside any scheduled run")

type c18SModel struct{}

func (c18SModel) Generate(ctx context.Context, input []*schema.Message, opts ...model.Option) (*schema.Message, error) {
	h := c18SOf(ctx)
	if h == nil {
		return nil, c18SNoRun
	}
	msg, err := h.mdl.Generate(ctx, input, opts...)
	h.park(fmt.Sprintf("model-%d", h.calls()))
	return msg, err
}

func (c18SModel) Stream(ctx context.Context, input []*schema.Message, opts ...model.Option) (*schema.StreamReader[*schema.Message], error) {
	h := c18SOf(ctx)
	if h == nil {
		return nil, c18SNoRun
	}
	// the snapshot of the input is taken now; the reader is handed out after the turn comes back
	r, err := h.mdl.next(input)
	h.park(fmt.Sprintf("model-%d", h.calls()))
	if err != nil {
		return nil, err
	}
	chunks := h.mdl.chunkMsgs(r)
	if !h.mdl.c.Pipe {
		return schema.StreamReaderFromArray(chunks), nil
	}
	sr, sw := schema.Pipe[*schema.Message](0)
	go func() {
		defer sw.Close()
		for _, ch := range chunks {
			if closed := sw.Send(ch, nil); closed {
				return
			}
		}
	}()
	return sr, nil
}

func (c18SModel) BindTools(tools []*schema.ToolInfo) error { return nil }

type c18STCModel struct{ c18SModel }

func (m c18STCModel) WithTools(tools []*schema.ToolInfo) (model.ToolCallingChatModel, error) {
	return m, nil
}

type c18STool struct{ t c18Tool }

func (t c18STool) Info(ctx context.Context) (*schema.ToolInfo, error) {
	return &schema.ToolInfo{Name: t.t.Name, Desc: "scripted tool " + t.t.Name}, nil
}

func (t c18STool) run(ctx context.Context, args string) (string, error) {
	h := c18SOf(ctx)
	if h == nil {
		return "", c18SNoRun
	}
	out, err := (&c18ToolImpl{t: t.t, rec: h.rec}).run(ctx, args)
	h.park(fmt.Sprintf("tools-%d", h.calls()))
	return out, err
}

type c18SInvokable struct{ c18STool }

func (t c18SInvokable) InvokableRun(ctx context.Context, args string, opts ...tool.Option) (string, error) {
	return t.run(ctx, args)
}

type c18SStreamable struct{ c18STool }

func (t c18SStreamable) StreamableRun(ctx context.Context, args string, opts ...tool.Option) (*schema.StreamReader[string], error) {
	s, err := t.run(ctx, args)
	if err != nil {
		return nil, err
	}
	return c18ToolStream(ctx, s, t.t.Lazy), nil
}

func c18SParts(c *c18Case) *c18Parts {
	p := &c18Parts{model: c18SModel{}, tcModel: c18STCModel{}}
	// the unknown-tools handler belongs to the calling run like a tool does, and parks like one
	p.runOf = func(ctx context.Context) (*c18Recorder, func()) {
		h := c18SOf(ctx)
		if h == nil {
			return nil, nil
		}
		return h.rec, func() { h.park(fmt.Sprintf("tools-%d", h.calls())) }
	}
	for _, t := range c.Tools {
		if t.Streamable {
			p.tools = append(p.tools, c18SStreamable{c18STool{t}})
		} else {
			p.tools = append(p.tools, c18SInvokable{c18STool{t}})
		}
	}
	return p
}

// ---- one experiment ----

type c18SOutcome struct {
	runs    []c18Run
	classes []string
	// the caller's backing array afterwards
	callerIntact bool
	callerNote   string
}

const c18SpareTag = "spare-"

// c18SharedRun executes the experiment on the real agent(s).
func c18SharedRun(c *c18Case) (*c18SOutcome, error) {
	n := len(c.Runs)
	builts := make([]*c18Built, n)
	for i := range builts {
		if i > 0 && c.Agents != "each" {
			builts[i] = builts[0]
			continue
		}
		b, err := c18BuildWith(c, c18SParts(c))
		if err != nil {
			return nil, err
		}
		builts[i] = b
	}
	// the caller's slice: len(orig) messages, `spare` sentinel cells behind them
	ln := len(c.Orig)
	backing := make([]*schema.Message, ln+c.Spare)
	for i, m := range c.Orig {
		backing[i] = c18ToMsg(m)
	}
	for i := 0; i < c.Spare; i++ {
		backing[ln+i] = schema.UserMessage(fmt.Sprintf("%s%d", c18SpareTag, i))
	}
	before := append([]*schema.Message{}, backing...)
	beforeContent := make([]c18Msg, ln)
	for i := 0; i < ln; i++ {
		beforeContent[i] = c18FromMsg(backing[i])
	}
	in := backing[:ln] // cap(in) == ln + spare (== 0 cells and a nil-like slice when both are 0)

	ctl := &c18SCtl{events: make(chan c18SEvent, 4*n+4), abort: make(chan struct{})}
	hs := make([]*c18SHandle, n)
	out := &c18SOutcome{runs: make([]c18Run, n), classes: make([]string, n)}
	type result struct {
		res      *schema.Message
		err      error
		panicked bool
		pv       any
	}
	results := make([]result, n)
	for i := range hs {
		rc := *c
		rc.Kind, rc.Script, rc.Runs, rc.Sched = "run", c.Runs[i].Script, nil, nil
		rec := &c18Recorder{}
		hs[i] = &c18SHandle{idx: i, ctl: ctl, rec: rec, mdl: &c18Model{c: &rc, rec: rec}, gates: map[string]chan struct{}{}}
	}
	start := func(i int) {
		h, b := hs[i], builts[i]
		stream := c.Runs[i].Mode == "stream"
		go func() {
			var r result
			r.panicked, r.pv = vh.Safely(func() {
				ctx := context.WithValue(context.Background(), c18SKey{}, h)
				copt := compose.WithCallbacks(c18NodeHandler(h.rec))
				opt := agent.WithComposeOptions(copt)
				if !stream {
					if b.parent != nil {
						r.res, r.err = b.parent.Invoke(ctx, in, copt)
					} else {
						r.res, r.err = b.agent.Generate(ctx, in, opt)
					}
					return
				}
				var sr *schema.StreamReader[*schema.Message]
				if b.parent != nil {
					sr, r.err = b.parent.Stream(ctx, in, copt)
				} else {
					sr, r.err = b.agent.Stream(ctx, in, opt)
				}
				if r.err != nil {
					return
				}
				defer sr.Close()
				var chunks []*schema.Message
				for {
					m, e := sr.Recv()
					if e == io.EOF {
						break
					}
					if e != nil {
						r.err = e
						return
					}
					chunks = append(chunks, m)
				}
				if len(chunks) == 0 {
					r.err = errors.New("c18: result stream is empty")
					return
				}
				r.res, r.err = schema.ConcatMessages(chunks)
			})
			results[i] = r
			select {
			case ctl.events <- c18SEvent{run: i, done: true}:
			case <-ctl.abort:
			}
		}()
	}
	started, done := make([]bool, n), make([]bool, n)
	parked := make([]string, n)
	hung := false
	turn := func(i int) {
		if i < 0 || i >= n || done[i] || hung {
			return
		}
		if !started[i] {
			started[i] = true
			start(i)
		} else {
			hs[i].release(parked[i])
		}
		select {
		case ev := <-ctl.events:
			// every other run is parked: the event is run i's (a stray one is a harness error)
			if ev.done {
				done[ev.run] = true
			} else {
				parked[ev.run] = ev.gate
			}
		case <-time.After(20 * time.Second):
			hung = true
		}
	}
	for _, i := range c.Sched {
		turn(i)
	}
	for round := 0; round < 400 && !hung; round++ {
		all := true
		for i := 0; i < n; i++ {
			if !done[i] {
				all = false
				turn(i)
			}
		}
		if all {
			break
		}
	}
	for i := 0; i < n; i++ {
		if !done[i] {
			hung = true
		}
	}
	if hung {
		close(ctl.abort) // let everything run out
		time.Sleep(50 * time.Millisecond)
	}
	for i, h := range hs {
		var run c18Run
		h.rec.mu.Lock()
		run.Seen = append([][]c18Msg{}, h.rec.seen...)
		run.Evs = []c18Ev{}
		for _, e := range h.rec.log {
			e.Started = c18SortCalls(e.Started)
			run.Evs = append(run.Evs, e)
		}
		h.rec.mu.Unlock()
		r := results[i]
		class := "returned"
		switch {
		case !done[i]:
			class = "hang"
			run.Result = c18Result{Err: "hang"}
		case r.panicked:
			class = "panic"
			run.Result = c18Result{Err: fmt.Sprintf("panic: %v", r.pv)}
		case r.err != nil:
			run.Result = c18Result{Err: c18ErrClass(r.err)}
		default:
			m := c18FromMsg(r.res)
			run.Result = c18Result{Ok: &m}
		}
		c18NormRun(&run)
		out.runs[i], out.classes[i] = run, class
	}
	// the caller's memory
	out.callerIntact = true
	var notes []string
	full := in[:cap(in)]
	if len(full) != len(before) {
		out.callerIntact = false
		notes = append(notes, fmt.Sprintf("capacity changed from %d to %d", len(before), len(full)))
	}
	for i := range full {
		if i < len(before) && full[i] != before[i] {
			out.callerIntact = false
			what := "message"
			if i >= ln {
				what = "spare cell"
			}
			now := "<nil>"
			if full[i] != nil {
				m := c18FromMsg(full[i])
				now = m.Role + ":" + m.Content
				if m.CallID != "" {
					now += "[result of " + m.CallID + "]"
				}
				for _, cl := range m.Calls {
					now += "[call " + cl.ID + "]"
				}
			}
			notes = append(notes, fmt.Sprintf("%s %d of the caller's backing array now holds %s", what, i, now))
		}
	}
	for i := 0; i < ln && i < len(full); i++ {
		if full[i] == before[i] && !vh.CanonEq(beforeContent[i], c18NormMsg(c18FromMsg(full[i]))) {
			out.callerIntact = false
			notes = append(notes, fmt.Sprintf("message %d of the caller's slice was modified", i))
		}
	}
	out.callerNote = strings.Join(notes, "; ")
	return out, nil
}

func c18NormMsg(m c18Msg) c18Msg {
	if m.Calls == nil {
		m.Calls = []c18Call{}
	}
	return m
}

// ---- shapes, signature ----

func c18SharedShape(c *c18Case) string {
	spare, runs := "0", "1"
	if c.Spare > 0 {
		spare = "some"
	}
	if len(c.Runs) > 1 {
		runs = "many"
	}
	return fmt.Sprintf("spare=%s:runs=%s:%s", spare, runs, c18Shape(c))
}

// c18Overlaps: in the executed order of turns (schedule, then round-robin) some run moves
// between two turns of another run that is still going.
func c18Overlaps(c *c18Case) bool {
	last := -1
	seen := map[int]bool{}
	for _, i := range c.Sched {
		if i != last && seen[i] {
			return true
		}
		seen[i] = true
		last = i
	}
	return len(c.Runs) > 1 // the round-robin drain interleaves whatever is left
}

func c18SharedKey(c *c18Case) string {
	var parts []string
	for _, r := range c.Runs {
		var shapes []string
		for i := range r.Script {
			shapes = append(shapes, c18ReplyShape(&r.Script[i]))
		}
		parts = append(parts, r.Mode+":"+strings.Join(shapes, ","))
	}
	return fmt.Sprintf("shared|%s|%v|spare=%d|%s|%s", strings.Join(parts, ";"), c.Sched, c.Spare, c.Agents, c18Key(c))
}

func c18CheckShared(ctx *vh.Ctx, c *c18Case, raw json.RawMessage) error {
	var mdl c18SAnswer
	if err := json.Unmarshal(raw, &mdl); err != nil {
		return fmt.Errorf("oracle answer: %v: %s", err, string(raw))
	}
	if len(mdl.Runs) != len(c.Runs) {
		return fmt.Errorf("oracle answered %d runs for %d", len(mdl.Runs), len(c.Runs))
	}
	for i, r := range mdl.Runs {
		if r == nil {
			return fmt.Errorf("oracle: run %d did not finish in the model", i)
		}
		c18NormRun(r)
	}
	ctx.Progress.Mark(c)
	out, err := c18SharedRun(c)
	if err != nil {
		ctx.Res.Disagree(vh.Disagreement{Signature: "C18:newagent-error", What: "react.NewAgent failed: " + err.Error(), Case: c})
		return nil
	}
	shape := c18SharedShape(c)
	ctx.Res.Dist("family=shared-input")
	ctx.Res.Dist(fmt.Sprintf("shared:runs=%d", len(c.Runs)))
	ctx.Res.Dist(fmt.Sprintf("shared:spare=%d", c.Spare))
	ctx.Res.Dist(fmt.Sprintf("shared:overlapping=%v", c18Overlaps(c)))
	ctx.Res.Dist("shared:agents=" + map[bool]string{true: "each", false: "one"}[c.Agents == "each"])
	ctx.Res.Dist("host=" + c18Host(c))
	nontrivial := false
	for i := range out.runs {
		ctx.Res.Dist("shared:mode=" + c.Runs[i].Mode)
		if len(out.runs[i].Evs) >= 3 {
			nontrivial = true
		}
	}
	ctx.Res.Count(c18SharedKey(c), nontrivial)
	ctx.Res.Sample(c)

	impls := map[string]any{}
	for i := range out.runs {
		impls[fmt.Sprintf("run%d", i)] = out.runs[i]
	}
	for i := range out.runs {
		mode := c.Runs[i].Mode
		if out.classes[i] != "returned" {
			ctx.Res.Disagree(vh.Disagreement{Signature: fmt.Sprintf("C18:shared-input:%s:%s:%s", mode, out.classes[i], shape),
				What: fmt.Sprintf("run %d (%s, host %s) of %d runs started from one slice did not return: %s", i, mode, c18Host(c), len(c.Runs), out.runs[i].Result.Err),
				Case: c, Model: mdl.Runs[i], Impl: impls})
			continue
		}
		rc := *c
		rc.Script = c.Runs[i].Script
		if mode == "stream" && c18Malformed(&rc) {
			continue
		}
		if d := c18DiffRun(mdl.Runs[i], &out.runs[i]); d != "" {
			ctx.Res.Disagree(vh.Disagreement{Signature: fmt.Sprintf("C18:shared-input:%s:%s:run-differs-from-the-run-alone:%s", mode, d, shape),
				What: fmt.Sprintf("run %d (%s, host %s) of %d run(s) started from one message slice with %d spare cell(s), schedule %v then round-robin: its %s differ from what the run shows alone (the model; theorem react_runs_isolated)", i, mode, c18Host(c), len(c.Runs), c.Spare, c.Sched, d),
				Case: c, Model: mdl.Runs[i], Impl: impls})
		}
	}
	if mdl.CallerIntact && !out.callerIntact {
		ctx.Res.Disagree(vh.Disagreement{Signature: "C18:shared-input:caller-backing-array-modified:" + shape,
			What: "the agent wrote into the memory of the caller's message slice: " + out.callerNote,
			Case: c, Model: map[string]any{"callerIntact": true}, Impl: map[string]any{"callerIntact": false, "detail": out.callerNote, "runs": impls}})
	}
	return nil
}

// ---- generators ----

// c18TagScript makes the messages of run i recognisable: call ids and contents carry the run.
func c18TagScript(script []c18Reply, run int) []c18Reply {
	out := make([]c18Reply, len(script))
	for k, r := range script {
		nr := c18Reply{Chunks: make([]c18Chunk, len(r.Chunks))}
		for j, ch := range r.Chunks {
			nc := c18Chunk{Content: ch.Content, Extras: ch.Extras, Calls: make([]c18Call, len(ch.Calls))}
			if nc.Content != "" {
				nc.Content = fmt.Sprintf("%s<r%d>", nc.Content, run)
			}
			for x, cl := range ch.Calls {
				if cl.ID != "" {
					cl.ID = fmt.Sprintf("r%d.%s", run, cl.ID)
				}
				nc.Calls[x] = cl
			}
			nr.Chunks[j] = nc
		}
		out[k] = nr
	}
	return out
}

// c18GenShared turns a random single-run case into a shared-slice experiment: 1-3 runs with
// scripts of their own over the same agent configuration, 0-4 spare cells, a random schedule.
func c18GenShared(r *vh.Rand, base *c18Case) *c18Case {
	c := *base
	c.Kind, c.Script = "shared", nil
	if c.MaxStep < 0 && r.Chance(80) {
		c.MaxStep = r.Range(1, 12)
	}
	var names []string
	for _, t := range c.Tools {
		names = append(names, t.Name)
	}
	n := []int{1, 2, 2, 2, 2, 3}[r.Intn(6)]
	for i := 0; i < n; i++ {
		var script []c18Reply
		if i == 0 {
			script = base.Script
		} else {
			k := r.Range(1, 5)
			for j := 0; j < k; j++ {
				ncalls := r.Range(1, 2)
				if j == k-1 && r.Chance(80) {
					ncalls = 0
				}
				script = append(script, c18GenReply(r, j, ncalls, names, false, c18Ghost(&c)))
			}
		}
		mode := "generate"
		if r.Bool() {
			mode = "stream"
		}
		c.Runs = append(c.Runs, c18SRun{Mode: mode, Script: c18TagScript(script, i)})
	}
	c.Spare = []int{0, 1, 1, 2, 3, 4, 8}[r.Intn(7)]
	for k := r.Intn(10); k > 0; k-- {
		c.Sched = append(c.Sched, r.Intn(n))
	}
	if c.Sched == nil {
		c.Sched = []int{}
	}
	c.Agents = "one"
	if r.Chance(25) {
		c.Agents = "each"
	}
	return &c
}

// c18SharedCorpus: two (three) runs that each call a tool once or twice and then answer, started
// from one slice: entry points {Generate, Stream}² x spare cells {0, 1, 3} x schedule {one after
// the other, A parked after its first model call while B runs, A parked in its tools round while B
// runs, strictly alternating, B first} x modifier {none, system} x {plain, return-directly
// topology}, MaxStep 0 / 7 / 20 in turn (the capacity the state generator gives the history);
// single runs on a slice with spare cells in every host; three runs round-robin.
func c18SharedCorpus() []*c18Case {
	var out []*c18Case
	base := func() *c18Case {
		return &c18Case{Kind: "shared", Orig: []c18Msg{{Role: "system", Content: "be brief", Calls: []c18Call{}}, {Role: "user", Content: "q", Calls: []c18Call{}}},
			Tools: []c18Tool{{Name: "t1", Kind: "echo"}, {Name: "t2", Kind: "const", Value: "v"}}, RD: []string{}, Modifier: "none", Checker: "default", Agents: "one", Sched: []int{}}
	}
	script := func(run, rounds int) []c18Reply {
		var s []c18Reply
		for k := 0; k < rounds; k++ {
			s = append(s, c18Reply{Chunks: []c18Chunk{{Content: fmt.Sprintf("checking %d", k), Calls: []c18Call{{ID: fmt.Sprintf("c%d", k), Name: "t1", Args: fmt.Sprintf("{\"k\":%d}", k)}}}}})
		}
		s = append(s, c18Reply{Chunks: []c18Chunk{{Content: "fin", Calls: []c18Call{}}, {Content: "al", Calls: []c18Call{}}}})
		return c18TagScript(s, run)
	}
	scheds := [][]int{
		{0, 0, 0, 0, 0, 0}, // A to the end, then B
		{0, 1, 1, 1, 1},    // A parked after its first model call, B runs
		{0, 0, 1, 1, 1, 1}, // A parked after its tools round, B runs
		{0, 1, 0, 1, 0, 1}, // alternating
		{1, 1, 0, 0, 1, 0}, // B first
	}
	for _, modes := range [][2]string{{"generate", "generate"}, {"generate", "stream"}, {"stream", "generate"}, {"stream", "stream"}} {
		for _, spare := range []int{0, 1, 3} {
			for _, sched := range scheds {
				for _, modifier := range []string{"none", "system"} {
					for _, rd := range []bool{false, true} {
						c := base()
						c.Spare, c.Sched, c.Modifier = spare, sched, modifier
						if rd {
							c.RD = []string{"t2"} // never called: the topology with direct_return
						}
						c.Runs = []c18SRun{{Mode: modes[0], Script: script(0, 2)}, {Mode: modes[1], Script: script(1, 1)}}
						// the history's own array has MaxStep+1 cells: too small for the first append,
						// exactly enough, more than enough
						c.MaxStep = []int{0, 7, 20}[len(out)%3]
						out = append(out, c)
					}
				}
			}
		}
	}
	for _, host := range []string{"", "chain", "graph"} {
		for _, mode := range []string{"generate", "stream"} {
			for _, spare := range []int{1, 4} {
				c := base()
				c.Host, c.Spare = host, spare
				c.Runs = []c18SRun{{Mode: mode, Script: script(0, 2)}}
				out = append(out, c)
				c2 := base()
				c2.Host, c2.Spare, c2.Agents = host, spare, "each"
				c2.Sched = []int{0, 1, 2, 0, 1, 2}
				c2.Runs = []c18SRun{{Mode: mode, Script: script(0, 1)}, {Mode: "generate", Script: script(1, 2)}, {Mode: "stream", Script: script(2, 1)}}
				out = append(out, c2)
			}
		}
	}
	// an empty slice with capacity (make([]*schema.Message, 0, n)), and a return-directly run among the runs
	for _, spare := range []int{1, 3} {
		c := base()
		c.Orig, c.Spare, c.Sched = []c18Msg{}, spare, []int{0, 1, 0, 1}
		c.Runs = []c18SRun{{Mode: "generate", Script: script(0, 1)}, {Mode: "stream", Script: script(1, 1)}}
		out = append(out, c)
		d := base()
		d.Spare, d.Sched, d.RD = spare, []int{0, 1, 1, 0}, []string{"t2"}
		d.Runs = []c18SRun{{Mode: "generate", Script: script(0, 2)},
			{Mode: "stream", Script: c18TagScript([]c18Reply{{Chunks: []c18Chunk{{Content: "", Calls: []c18Call{{ID: "d0", Name: "t2", Args: "{}"}}}}}}, 1)}}
		out = append(out, d)
	}
	return out
}
