//go:build verif && (vh_all || vh_c10)

package props

// C10 — callback handlers fire exactly once per execution unit, paired, for the right unit.
//
// Three case kinds, all answered by the Lean oracle (EinoV/Oracle/C10.lean):
//
//	compose – a real compose graph (parallel nodes meeting at a barrier, nested graph,
//	          ToolsNode with parallel tool calls), handlers supplied globally / in the caller's
//	          context / in several per-call options / designated to nodes and node paths;
//	          recording handlers; observables = per unit (RunInfo) the sequence of
//	          (handler id, timing), plus the flow's output compared with a handler-free run.
//	api     – the unit machine of the model run literally on internal/callbacks
//	          (InitCallbacks / AppendHandlers / ReuseHandlers / On) with caller slices of
//	          arbitrary spare capacity and an arbitrary interleaving of the units' steps.
//	copies  – schema.StreamReader.Copy against the model's copied-stream machine.

import (
	"context"
	"encoding/json"
	"errors"
	"fmt"
	"io"
	"sort"
	"strings"
	"sync"
	"time"

	"github.com/cloudwego/eino/callbacks"
	"github.com/cloudwego/eino/components/tool"
	"github.com/cloudwego/eino/compose"
	icb "github.com/cloudwego/eino/internal/callbacks"
	"github.com/cloudwego/eino/schema"
	"github.com/cloudwego/eino/verifharness/vh"
)

func init() { vh.Register("C10", runC10) }

// Extension point: further case families live in c10_*.go and append themselves here from an
// init().  Kind is the "kind" tag of the family's cases (replay dispatch); Fixed are cases run
// first on every seed; Gen draws one case; Parse reads a replayed case; One runs one case
// against the oracle and the implementation and reports like the built-in kinds.
type c10Family struct {
	Kind  string
	Rule  string
	Fixed func() []any
	Gen   func(r *vh.Rand) any
	Parse func(raw []byte) (any, error)
	One   func(ctx *vh.Ctx, c any) error
}

var c10Extra []c10Family

// ---------------------------------------------------------------- case language

type c10Hd struct {
	ID   int  `json:"id"`
	Mask *int `json:"mask,omitempty"` // TimingChecker: bit t set = Needed(t); nil = no checker
	SM   int  `json:"sm,omitempty"`   // what the handler does with a stream payload: 0 read fully, 1 read one chunk then close, 2 close at once (0, 1 on a goroutine of its own), 3 read fully inside the callback, before returning
}

type c10Opt struct {
	Hs    []c10Hd    `json:"hs"`
	Paths [][]string `json:"paths,omitempty"`
}

type c10UKind struct {
	G           string `json:"g,omitempty"`      // graph: ok | lateErr | earlyErr
	Stream      bool   `json:"stream,omitempty"` // graph run as transform
	W           string `json:"w,omitempty"`      // wrapped component: ok | okStream | err
	StartStream bool   `json:"startStream,omitempty"`
	Self        []int  `json:"self,omitempty"` // component firing its own callbacks: the timings it fires
}

type c10Unit struct {
	Path []string `json:"path"`
	Tool bool     `json:"tool,omitempty"`
	Info string   `json:"info"`
	K    c10UKind `json:"k"`
}

type c10UserInit struct {
	Hs    []c10Hd `json:"hs"`
	Spare int     `json:"spare"`
}

type c10Node struct {
	Key   string    `json:"key"`
	LK    string    `json:"lk"` // i|s|c|t (lambda native paradigm) | self | graph | tools
	Fail  bool      `json:"fail,omitempty"`
	Inner []c10Node `json:"inner,omitempty"` // graph: inner parallel nodes; tools: the tools (LK "tool")
	Early string    `json:"early,omitempty"` // graph: option designated to an unknown inner node
}

type c10Compose struct {
	Kind     string       `json:"kind"`
	Globals  []c10Hd      `json:"globals"`
	UserInit *c10UserInit `json:"userInit,omitempty"`
	Opts     []c10Opt     `json:"opts"`
	Units    []c10Unit    `json:"units"`
	// implementation side
	Family   string    `json:"family"`   // par | tools
	Mode     string    `json:"mode"`     // pregel | dag
	Paradigm string    `json:"paradigm"` // invoke | stream | transform (par only: Transform over a channel-backed input stream)
	Nodes    []c10Node `json:"nodes"`
	Early    string    `json:"early,omitempty"` // "" | unknown | dagsteps
}

type c10Decl struct {
	Parent *int    `json:"parent,omitempty"`
	Kind   string  `json:"kind"` // init | append | reuse
	Slice  []int   `json:"slice,omitempty"`
	Desig  []c10Hd `json:"desig"`
	Info   string  `json:"info"`
	Prog   []int   `json:"prog"`
}

type c10Api struct {
	Kind    string          `json:"kind"`
	Arrays  [][]c10Hd       `json:"arrays"`
	Globals []c10Hd         `json:"globals"`
	Units   []c10Decl       `json:"units"`
	Evs     [][]interface{} `json:"evs"`
}

type c10Copies struct {
	Kind  string          `json:"kind"`
	Items []int           `json:"items"`
	N     int             `json:"n"`
	Ops   [][]interface{} `json:"ops"`
}

// ---------------------------------------------------------------- recording handlers

type c10Event struct {
	H       int
	T       int
	Info    string
	Payload string
}

type c10Rec struct {
	mu      sync.Mutex
	evs     []c10Event
	wg      sync.WaitGroup
	streams map[string][]string // "info#timing" -> what each fully reading handler received (chunks concatenated)
}

func (r *c10Rec) addStream(info string, t int, payload string) {
	r.mu.Lock()
	if r.streams == nil {
		r.streams = map[string][]string{}
	}
	k := fmt.Sprintf("%s#%d", info, t)
	r.streams[k] = append(r.streams[k], payload)
	r.mu.Unlock()
}

func (r *c10Rec) add(e c10Event) {
	r.mu.Lock()
	r.evs = append(r.evs, e)
	r.mu.Unlock()
}

func c10Info(ri *callbacks.RunInfo) string {
	if ri == nil {
		return "<nil>"
	}
	return ri.Name + "|" + ri.Type + "|" + string(ri.Component)
}

type c10Handler struct {
	hd  c10Hd
	rec *c10Rec
}

func (h *c10Handler) OnStart(ctx context.Context, info *callbacks.RunInfo, input callbacks.CallbackInput) context.Context {
	h.rec.add(c10Event{H: h.hd.ID, T: 0, Info: c10Info(info), Payload: fmt.Sprint(input)})
	return ctx
}
func (h *c10Handler) OnEnd(ctx context.Context, info *callbacks.RunInfo, output callbacks.CallbackOutput) context.Context {
	h.rec.add(c10Event{H: h.hd.ID, T: 1, Info: c10Info(info), Payload: fmt.Sprint(output)})
	return ctx
}
func (h *c10Handler) OnError(ctx context.Context, info *callbacks.RunInfo, err error) context.Context {
	h.rec.add(c10Event{H: h.hd.ID, T: 2, Info: c10Info(info)})
	return ctx
}
func c10Stream[T any](h *c10Handler, t int, info *callbacks.RunInfo, sr *schema.StreamReader[T]) {
	h.rec.add(c10Event{H: h.hd.ID, T: t, Info: c10Info(info)})
	switch h.hd.SM {
	case 3:
		// synchronously, before the callback returns: the copy must be complete on its own
		var sb strings.Builder
		for {
			v, err := sr.Recv()
			if err != nil {
				if err == io.EOF {
					h.rec.addStream(c10Info(info), t, sb.String())
				} else {
					h.rec.addStream(c10Info(info), t, "!err:"+err.Error())
				}
				break
			}
			sb.WriteString(fmt.Sprint(v))
		}
		sr.Close()
	case 2:
		sr.Close()
	case 1:
		h.rec.wg.Add(1)
		go func() {
			defer h.rec.wg.Done()
			sr.Recv()
			sr.Close()
		}()
	default:
		h.rec.wg.Add(1)
		go func() {
			defer h.rec.wg.Done()
			defer sr.Close()
			var sb strings.Builder
			for {
				v, err := sr.Recv()
				if err != nil {
					if err == io.EOF {
						h.rec.addStream(c10Info(info), t, sb.String())
					} else {
						h.rec.addStream(c10Info(info), t, "!err:"+err.Error())
					}
					return
				}
				sb.WriteString(fmt.Sprint(v))
			}
		}()
	}
}
func (h *c10Handler) OnStartWithStreamInput(ctx context.Context, info *callbacks.RunInfo, input *schema.StreamReader[callbacks.CallbackInput]) context.Context {
	c10Stream(h, 3, info, input)
	return ctx
}
func (h *c10Handler) OnEndWithStreamOutput(ctx context.Context, info *callbacks.RunInfo, output *schema.StreamReader[callbacks.CallbackOutput]) context.Context {
	c10Stream(h, 4, info, output)
	return ctx
}

// with a TimingChecker
type c10CheckedHandler struct{ c10Handler }

func (h *c10CheckedHandler) Needed(ctx context.Context, info *callbacks.RunInfo, timing callbacks.CallbackTiming) bool {
	return (*h.hd.Mask>>uint(timing))&1 == 1
}

func c10Mk(hd c10Hd, rec *c10Rec) callbacks.Handler {
	if hd.Mask != nil {
		return &c10CheckedHandler{c10Handler{hd: hd, rec: rec}}
	}
	return &c10Handler{hd: hd, rec: rec}
}

func c10MkAll(hs []c10Hd, rec *c10Rec) []callbacks.Handler {
	out := make([]callbacks.Handler, 0, len(hs))
	for _, h := range hs {
		out = append(out, c10Mk(h, rec))
	}
	return out
}

// ---------------------------------------------------------------- barrier

type c10Barrier struct {
	n    int
	mu   sync.Mutex
	cnt  int
	ch   chan struct{}
	late bool
}

func c10NewBarrier(n int) *c10Barrier { return &c10Barrier{n: n, ch: make(chan struct{})} }

// wait blocks until n parties arrived (or 15 s passed: then the run is classified, not hung)
func (b *c10Barrier) wait() {
	if b == nil || b.n <= 1 {
		return
	}
	b.mu.Lock()
	b.cnt++
	if b.cnt == b.n {
		close(b.ch)
	}
	b.mu.Unlock()
	select {
	case <-b.ch:
	case <-time.After(15 * time.Second):
		b.mu.Lock()
		b.late = true
		b.mu.Unlock()
	}
}

// ---------------------------------------------------------------- building the graphs

var errC10Node = errors.New("c10 node failure")

func c10Chunks(s string) []string {
	if len(s) < 2 {
		return []string{s}
	}
	return []string{s[:len(s)/2], s[len(s)/2:]}
}

func c10ReadAll(sr *schema.StreamReader[string]) (string, error) {
	defer sr.Close()
	var sb strings.Builder
	for {
		v, err := sr.Recv()
		if err == io.EOF {
			return sb.String(), nil
		}
		if err != nil {
			return "", err
		}
		sb.WriteString(v)
	}
}

func c10NodeName(path []string) string { return "n:" + strings.Join(path, "/") }

func c10Lambda(n c10Node, b *c10Barrier) *compose.Lambda {
	return c10LambdaTyped(n, b, "L"+n.LK)
}

// the lambda of node n (native paradigm n.LK) declared WithLambdaType(lambdaType)
func c10LambdaTyped(n c10Node, b *c10Barrier, lambdaType string) *compose.Lambda {
	body := func(in string) (string, error) {
		b.wait()
		if n.Fail {
			return "", errC10Node
		}
		return in + ">" + n.Key, nil
	}
	typ := compose.WithLambdaType(lambdaType)
	switch n.LK {
	case "s":
		return compose.StreamableLambda(func(ctx context.Context, in string) (*schema.StreamReader[string], error) {
			out, err := body(in)
			if err != nil {
				return nil, err
			}
			return schema.StreamReaderFromArray(c10Chunks(out)), nil
		}, typ)
	case "c":
		return compose.CollectableLambda(func(ctx context.Context, in *schema.StreamReader[string]) (string, error) {
			s, err := c10ReadAll(in)
			if err != nil {
				return "", err
			}
			return body(s)
		}, typ)
	case "t":
		return compose.TransformableLambda(func(ctx context.Context, in *schema.StreamReader[string]) (*schema.StreamReader[string], error) {
			s, err := c10ReadAll(in)
			if err != nil {
				return nil, err
			}
			out, err := body(s)
			if err != nil {
				return nil, err
			}
			return schema.StreamReaderFromArray(c10Chunks(out)), nil
		}, typ)
	case "self":
		// a component that fires its own callbacks: the framework must not add any
		return compose.InvokableLambda(func(ctx context.Context, in string) (string, error) {
			ctx = callbacks.OnStart(ctx, in)
			out, err := body(in)
			if err != nil {
				callbacks.OnError(ctx, err)
				return "", err
			}
			callbacks.OnEnd(ctx, out)
			return out, nil
		}, typ, compose.WithLambdaCallbackEnable(true))
	}
	return compose.InvokableLambda(func(ctx context.Context, in string) (string, error) { return body(in) }, typ)
}

func c10Join() *compose.Lambda {
	return compose.InvokableLambda(func(ctx context.Context, in map[string]any) (string, error) {
		keys := make([]string, 0, len(in))
		for k := range in {
			keys = append(keys, k)
		}
		sort.Strings(keys)
		var sb strings.Builder
		for _, k := range keys {
			sb.WriteString(fmt.Sprintf("[%s=%v]", k, in[k]))
		}
		return sb.String(), nil
	}, compose.WithLambdaType("Li"))
}

// START -> nodes (parallel) -> join -> END
func c10ParGraph(prefix []string, nodes []c10Node, mode string, b *c10Barrier) (*compose.Graph[string, string], error) {
	g := compose.NewGraph[string, string]()
	jpath := append(append([]string{}, prefix...), "join")
	if err := g.AddLambdaNode("join", c10Join(), compose.WithNodeName(c10NodeName(jpath))); err != nil {
		return nil, err
	}
	for _, n := range nodes {
		path := append(append([]string{}, prefix...), n.Key)
		opts := []compose.GraphAddNodeOpt{compose.WithNodeName(c10NodeName(path)), compose.WithOutputKey(n.Key)}
		var err error
		if n.LK == "graph" {
			sub, e := c10ParGraph(path, n.Inner, mode, b)
			if e != nil {
				return nil, e
			}
			if mode == "dag" {
				opts = append(opts, compose.WithGraphCompileOptions(compose.WithNodeTriggerMode(compose.AllPredecessor)))
			}
			err = g.AddGraphNode(n.Key, sub, opts...)
		} else {
			err = g.AddLambdaNode(n.Key, c10Lambda(n, b), opts...)
		}
		if err != nil {
			return nil, err
		}
		if err = g.AddEdge(compose.START, n.Key); err != nil {
			return nil, err
		}
		if err = g.AddEdge(n.Key, "join"); err != nil {
			return nil, err
		}
	}
	if err := g.AddEdge("join", compose.END); err != nil {
		return nil, err
	}
	return g, nil
}

// ---- tools family

type c10Tool struct {
	name string
	fail bool
	b    *c10Barrier
}

func (t *c10Tool) Info(ctx context.Context) (*schema.ToolInfo, error) {
	return &schema.ToolInfo{Name: t.name, Desc: "c10 tool"}, nil
}
func (t *c10Tool) GetType() string { return "T" + t.name }
func (t *c10Tool) InvokableRun(ctx context.Context, args string, opts ...tool.Option) (string, error) {
	t.b.wait()
	if t.fail {
		return "", errC10Node
	}
	return t.name + "(" + args + ")", nil
}

// START -> T (ToolsNode) [+ parallel lambdas on the message's content] -> END (map output)
func c10ToolsGraph(nodes []c10Node, b *c10Barrier) (*compose.Graph[*schema.Message, map[string]any], error) {
	g := compose.NewGraph[*schema.Message, map[string]any]()
	for _, n := range nodes {
		opts := []compose.GraphAddNodeOpt{compose.WithNodeName(c10NodeName([]string{n.Key})), compose.WithOutputKey(n.Key)}
		var err error
		if n.LK == "tools" {
			var ts []tool.BaseTool
			for _, tl := range n.Inner {
				ts = append(ts, &c10Tool{name: tl.Key, fail: tl.Fail, b: b})
			}
			tn, e := compose.NewToolNode(context.Background(), &compose.ToolsNodeConfig{Tools: ts})
			if e != nil {
				return nil, e
			}
			err = g.AddToolsNode(n.Key, tn, opts...)
		} else {
			nn := n
			err = g.AddLambdaNode(n.Key, compose.InvokableLambda(func(ctx context.Context, in *schema.Message) (string, error) {
				b.wait()
				if nn.Fail {
					return "", errC10Node
				}
				return in.Content + ">" + nn.Key, nil
			}, compose.WithLambdaType("Li")), opts...)
		}
		if err != nil {
			return nil, err
		}
		if err = g.AddEdge(compose.START, n.Key); err != nil {
			return nil, err
		}
		if err = g.AddEdge(n.Key, compose.END); err != nil {
			return nil, err
		}
	}
	return g, nil
}

// ---------------------------------------------------------------- expected units (harness knowledge of the shapes)

func c10LambdaKind(n c10Node) c10UKind {
	if n.LK == "self" {
		if n.Fail {
			return c10UKind{Self: []int{0, 2}}
		}
		return c10UKind{Self: []int{0, 1}}
	}
	k := c10UKind{StartStream: n.LK == "c" || n.LK == "t"}
	switch {
	case n.Fail:
		k.W = "err"
	case n.LK == "s" || n.LK == "t":
		k.W = "okStream"
	default:
		k.W = "ok"
	}
	return k
}

func c10AnyFail(nodes []c10Node) bool {
	for _, n := range nodes {
		if n.Fail || n.Early != "" || ((n.LK == "graph" || n.LK == "tools") && c10AnyFail(n.Inner)) {
			return true
		}
	}
	return false
}

// units of START -> nodes -> join -> END below `prefix`; returns the units and the number of
// barrier parties among them
func c10ParUnits(prefix []string, nodes []c10Node, stream bool) (us []c10Unit, parties int) {
	for _, n := range nodes {
		path := append(append([]string{}, prefix...), n.Key)
		if n.LK == "graph" {
			k := c10UKind{Stream: stream}
			switch {
			case n.Early != "":
				k.G = "earlyErr"
			case c10AnyFail(n.Inner):
				k.G = "lateErr"
			default:
				k.G = "ok"
			}
			us = append(us, c10Unit{Path: path, Info: c10NodeName(path) + "||Graph", K: k})
			if n.Early == "" {
				iu, ip := c10ParUnits(path, n.Inner, stream)
				us = append(us, iu...)
				parties += ip
			}
			continue
		}
		us = append(us, c10Unit{Path: path, Info: c10NodeName(path) + "|L" + n.LK + "|Lambda", K: c10LambdaKind(n)})
		parties++
	}
	if !c10AnyFail(nodes) {
		jp := append(append([]string{}, prefix...), "join")
		us = append(us, c10Unit{Path: jp, Info: c10NodeName(jp) + "|Li|Lambda", K: c10UKind{W: "ok"}})
	}
	return
}

func c10ComputeUnits(c *c10Compose) (us []c10Unit, parties int) {
	stream := c.Paradigm != "invoke"
	root := c10Unit{Path: []string{}, Info: "G||Graph", K: c10UKind{Stream: stream}}
	if c.Early != "" {
		root.K.G = "earlyErr"
		return []c10Unit{root}, 0
	}
	if c10AnyFail(c.Nodes) {
		root.K.G = "lateErr"
	} else {
		root.K.G = "ok"
	}
	us = append(us, root)
	if c.Family == "tools" {
		for _, n := range c.Nodes {
			path := []string{n.Key}
			if n.LK == "tools" {
				k := c10UKind{W: "ok"}
				if stream {
					k.W = "okStream"
				}
				if c10AnyFail(n.Inner) {
					k.W = "err"
				}
				us = append(us, c10Unit{Path: path, Info: c10NodeName(path) + "||ToolsNode", K: k})
				for _, tl := range n.Inner {
					tk := c10UKind{W: "ok"}
					if tl.Fail {
						tk.W = "err"
					}
					us = append(us, c10Unit{Path: append(append([]string{}, path...), tl.Key), Tool: true,
						Info: tl.Key + "|T" + tl.Key + "|Tool", K: tk})
					parties++
				}
			} else {
				us = append(us, c10Unit{Path: path, Info: c10NodeName(path) + "|Li|Lambda", K: c10LambdaKind(n)})
				parties++
			}
		}
		return
	}
	pu, pp := c10ParUnits(nil, c.Nodes, stream)
	return append(us, pu...), pp
}

// ---------------------------------------------------------------- running a compose case

type c10Obs struct {
	Units   map[string][][2]int `json:"units"` // RunInfo -> sequence of (handler id, timing)
	Class   string              `json:"class"` // ok | error | panic:… | hang | build:…
	Out     string              `json:"out"`
	RefOut  string              `json:"refOut"`
	Barrier bool                `json:"barrierTimedOut,omitempty"`
	// "info#timing" -> distinct payloads the handlers of that unit saw at that timing
	Payloads map[string][]string `json:"payloads,omitempty"`
}

func c10CallOpts(c *c10Compose, rec *c10Rec) []compose.Option {
	var opts []compose.Option
	for _, o := range c.Opts {
		op := compose.WithCallbacks(c10MkAll(o.Hs, rec)...)
		if len(o.Paths) > 0 {
			var ps []*compose.NodePath
			for _, p := range o.Paths {
				ps = append(ps, compose.NewNodePath(p...))
			}
			op = op.DesignateNodeWithPath(ps...)
		}
		opts = append(opts, op)
	}
	return opts
}

// extra options that make the run fail before onGraphStart
func c10EarlyOpts(c *c10Compose) []compose.Option {
	var opts []compose.Option
	switch c.Early {
	case "unknown":
		opts = append(opts, compose.WithCallbacks().DesignateNode("no-such-node"))
	case "dagsteps":
		opts = append(opts, compose.WithRuntimeMaxSteps(7))
	}
	var walk func(prefix []string, ns []c10Node)
	walk = func(prefix []string, ns []c10Node) {
		for _, n := range ns {
			p := append(append([]string{}, prefix...), n.Key)
			if n.LK == "graph" {
				if n.Early != "" {
					opts = append(opts, compose.WithCallbacks().DesignateNodeWithPath(compose.NewNodePath(append(p, "no-such-node")...)))
				}
				walk(p, n.Inner)
			}
		}
	}
	walk(nil, c.Nodes)
	return opts
}

// one execution of the case's graph; withHandlers=false is the reference run for the flow output
func c10Exec(c *c10Compose, withHandlers bool) (out string, class string, rec *c10Rec, barrierLate bool) {
	rec = &c10Rec{}
	_, parties := c10ComputeUnits(c)
	b := c10NewBarrier(parties)
	ctx := context.Background()
	var copts []compose.GraphCompileOption
	copts = append(copts, compose.WithGraphName("G"))
	if c.Mode == "dag" {
		copts = append(copts, compose.WithNodeTriggerMode(compose.AllPredecessor))
	}
	var opts []compose.Option
	saved := icb.GlobalHandlers
	defer func() { icb.GlobalHandlers = saved }()
	if withHandlers {
		callbacks.InitCallbackHandlers(nil)
		if len(c.Globals) > 0 {
			callbacks.AppendGlobalHandlers(c10MkAll(c.Globals, rec)...)
		}
		if c.UserInit != nil {
			backing := make([]callbacks.Handler, len(c.UserInit.Hs)+c.UserInit.Spare)
			copy(backing, c10MkAll(c.UserInit.Hs, rec))
			for i := len(c.UserInit.Hs); i < len(backing); i++ {
				backing[i] = c10Mk(c10Hd{ID: 0}, rec)
			}
			ctx = callbacks.InitCallbacks(ctx, &callbacks.RunInfo{Name: "caller"}, backing[:len(c.UserInit.Hs)]...)
		}
		opts = append(opts, c10CallOpts(c, rec)...)
	} else {
		callbacks.InitCallbackHandlers(nil)
	}
	opts = append(opts, c10EarlyOpts(c)...)

	var runErr error
	finished := false
	panicked, pv := vh.Safely(func() {
		finished = vh.WithTimeout(40*time.Second, func() {
			if c.Family == "tools" {
				g, err := c10ToolsGraph(c.Nodes, b)
				if err != nil {
					class = "build:" + err.Error()
					return
				}
				r, err := g.Compile(ctx, copts...)
				if err != nil {
					class = "build:" + err.Error()
					return
				}
				msg := &schema.Message{Role: schema.Assistant, Content: "x"}
				for _, n := range c.Nodes {
					if n.LK == "tools" {
						for i, tl := range n.Inner {
							msg.ToolCalls = append(msg.ToolCalls, schema.ToolCall{ID: fmt.Sprintf("call%d", i),
								Function: schema.FunctionCall{Name: tl.Key, Arguments: fmt.Sprintf("a%d", i)}})
						}
					}
				}
				// per output key the rendered pieces; pieces are sorted (tool results of a streaming
				// ToolsNode arrive in completion order)
				parts := map[string][]string{}
				if c.Paradigm == "stream" {
					var sr *schema.StreamReader[map[string]any]
					sr, runErr = r.Stream(ctx, msg, opts...)
					if runErr == nil {
						for {
							m, e := sr.Recv()
							if e == io.EOF {
								break
							}
							if e != nil {
								runErr = e
								break
							}
							for k, v := range m {
								parts[k] = append(parts[k], c10Render(v)...)
							}
						}
						sr.Close()
					}
				} else {
					var res map[string]any
					res, runErr = r.Invoke(ctx, msg, opts...)
					for k, v := range res {
						parts[k] = append(parts[k], c10Render(v)...)
					}
				}
				if runErr == nil {
					keys := make([]string, 0, len(parts))
					for k := range parts {
						keys = append(keys, k)
					}
					sort.Strings(keys)
					for _, k := range keys {
						sort.Strings(parts[k])
						out += "[" + k + "=" + strings.Join(parts[k], ",") + "]"
					}
				}
				return
			}
			g, err := c10ParGraph(nil, c.Nodes, c.Mode, b)
			if err != nil {
				class = "build:" + err.Error()
				return
			}
			r, err := g.Compile(ctx, copts...)
			if err != nil {
				class = "build:" + err.Error()
				return
			}
			switch c.Paradigm {
			case "stream":
				var sr *schema.StreamReader[string]
				sr, runErr = r.Stream(ctx, "x", opts...)
				if runErr == nil {
					out, runErr = c10ReadAll(sr)
				}
			case "transform":
				// a channel-backed input stream: its copies pull from one shared parent, so a copy
				// that is not independent takes chunks away from the others
				in, sw := schema.Pipe[string](2)
				sw.Send("x", nil)
				sw.Send("", nil)
				sw.Close()
				var sr *schema.StreamReader[string]
				sr, runErr = r.Transform(ctx, in, opts...)
				if runErr == nil {
					out, runErr = c10ReadAll(sr)
				}
			default:
				out, runErr = r.Invoke(ctx, "x", opts...)
			}
		})
	})
	switch {
	case panicked:
		class = fmt.Sprint("panic:", pv)
	case !finished:
		class = "hang"
	case class != "":
	case runErr != nil:
		class = "error"
	default:
		class = "ok"
	}
	// handlers read their stream copies on their own goroutines
	vh.WithTimeout(20*time.Second, func() { rec.wg.Wait() })
	b.mu.Lock()
	barrierLate = b.late
	b.mu.Unlock()
	return
}

func c10Render(v any) []string {
	switch x := v.(type) {
	case []*schema.Message:
		var parts []string
		for _, m := range x {
			if m != nil {
				parts = append(parts, m.ToolCallID+":"+m.Content)
			}
		}
		return parts
	case string:
		return []string{x}
	case nil:
		return nil
	}
	return []string{fmt.Sprint(v)}
}

func c10RunCompose(c *c10Compose) *c10Obs {
	o := &c10Obs{Units: map[string][][2]int{}}
	refOut, refClass, _, _ := c10Exec(c, false)
	out, class, rec, late := c10Exec(c, true)
	o.Class, o.Out, o.RefOut, o.Barrier = class, out, refOut, late
	if refClass != class && !strings.HasPrefix(class, "panic") && class != "hang" {
		o.RefOut = "class:" + refClass + ":" + refOut
	}
	rec.mu.Lock()
	o.Payloads = map[string][]string{}
	addP := func(k, p string) {
		for _, q := range o.Payloads[k] {
			if q == p {
				return
			}
		}
		o.Payloads[k] = append(o.Payloads[k], p)
	}
	for _, e := range rec.evs {
		o.Units[e.Info] = append(o.Units[e.Info], [2]int{e.H, e.T})
		if e.T == 0 || e.T == 1 {
			addP(fmt.Sprintf("%s#%d", e.Info, e.T), e.Payload)
		}
	}
	for k, ps := range rec.streams {
		for _, p := range ps {
			addP(k, p)
		}
	}
	for k := range o.Payloads {
		sort.Strings(o.Payloads[k])
	}
	rec.mu.Unlock()
	return o
}

type c10ModelUnit struct {
	Info     string   `json:"info"`
	Ev       [][2]int `json:"ev"`
	Handlers []int    `json:"handlers"`
}
type c10ModelCompose struct {
	Units  []c10ModelUnit `json:"units"`
	CbsLen int            `json:"cbsLen"`
	CbsCap int            `json:"cbsCap"`
}

func c10Multiset(evs [][2]int) map[[2]int]int {
	m := map[[2]int]int{}
	for _, e := range evs {
		m[e]++
	}
	return m
}

// classification of one unit's difference: the failing observable, most specific first
func c10DiffClass(model c10ModelUnit, globals []c10Hd, impl [][2]int) string {
	if vh.CanonEq(model.Ev, impl) || (len(model.Ev) == 0 && len(impl) == 0) {
		return ""
	}
	allowed := map[int]bool{}
	for _, h := range model.Handlers {
		allowed[h] = true
	}
	for _, g := range globals {
		allowed[g.ID] = true
	}
	for _, e := range impl {
		if !allowed[e[0]] {
			return "foreign-handler"
		}
	}
	mm, im := c10Multiset(model.Ev), c10Multiset(impl)
	for k, v := range mm {
		if im[k] < v {
			if im[k] == 0 {
				return "missing-callback"
			}
			return "count"
		}
	}
	for k, v := range im {
		if mm[k] < v {
			return "duplicate-callback"
		}
	}
	return "order"
}

func c10ShapeTag(c *c10Compose) string {
	return fmt.Sprintf("%s/%s/%s", c.Family, c.Mode, c.Paradigm)
}

func c10ComposeKey(c *c10Compose) string {
	var ks []string
	var walk func(ns []c10Node)
	walk = func(ns []c10Node) {
		for _, n := range ns {
			f := ""
			if n.Fail {
				f = "!"
			}
			ks = append(ks, n.LK+f+n.Early)
			walk(n.Inner)
		}
	}
	walk(c.Nodes)
	nd := 0
	sizes := []string{}
	for _, o := range c.Opts {
		if len(o.Paths) > 0 {
			nd++
		} else {
			sizes = append(sizes, fmt.Sprint(len(o.Hs)))
		}
	}
	ui := "-"
	if c.UserInit != nil {
		ui = fmt.Sprintf("%d+%d", len(c.UserInit.Hs), c.UserInit.Spare)
	}
	return fmt.Sprintf("%s|%s|g%d|u%s|o%s|d%d|%s", c10ShapeTag(c), strings.Join(ks, ","), len(c.Globals), ui, strings.Join(sizes, "."), nd, c.Early)
}

func c10OneCompose(ctx *vh.Ctx, c *c10Compose) error {
	ctx.Progress.Mark(c)
	raw, err := ctx.Oracle.Ask("C10", c)
	if err != nil {
		return err
	}
	var model c10ModelCompose
	if err := json.Unmarshal(raw, &model); err != nil {
		return err
	}
	impl := c10RunCompose(c)

	nDesig, nUndes := 0, 0
	for _, o := range c.Opts {
		if len(o.Paths) > 0 {
			nDesig++
		} else {
			nUndes++
		}
	}
	_, parties := c10ComputeUnits(c)
	ctx.Res.Dist("kind=compose")
	ctx.Res.Dist("family=" + c10ShapeTag(c))
	ctx.Res.Dist(fmt.Sprintf("parties=%d", parties))
	ctx.Res.Dist(fmt.Sprintf("cbs=len%d/cap%d", model.CbsLen, model.CbsCap))
	ctx.Res.Dist(fmt.Sprintf("opts.undesignated=%d", nUndes))
	ctx.Res.Dist(fmt.Sprintf("opts.designated=%d", nDesig))
	ctx.Res.Dist(fmt.Sprintf("globals=%d", len(c.Globals)))
	ctx.Res.Dist(fmt.Sprintf("userInit=%v", c.UserInit != nil))
	ctx.Res.Dist("class=" + strings.SplitN(impl.Class, ":", 2)[0])
	ctx.Res.Dist("early=" + c.Early)
	ctx.Res.Count(c10ComposeKey(c), parties >= 2 && nDesig+nUndes+len(c.Globals) > 0)
	ctx.Res.Sample(c)

	sig := func(what string) string { return "C10:compose:" + what + ":" + c.Family }
	dis := func(what, msg string) {
		ctx.Res.Disagree(vh.Disagreement{Signature: sig(what), What: msg, Case: c, Model: model, Impl: impl})
	}
	if strings.HasPrefix(impl.Class, "panic") || impl.Class == "hang" || strings.HasPrefix(impl.Class, "build") {
		dis("run-"+strings.SplitN(impl.Class, ":", 2)[0], "the run did not complete normally: "+impl.Class)
		return nil
	}
	if impl.Barrier {
		dis("barrier", "the parallel units did not all reach their bodies (harness shape assumption broken)")
		return nil
	}
	wantErr := c.Early != "" || c10AnyFail(c.Nodes)
	if (impl.Class == "error") != wantErr {
		dis("outcome", fmt.Sprintf("run outcome %s, expected error=%v", impl.Class, wantErr))
	}
	if impl.Out != impl.RefOut {
		dis("flow-output", fmt.Sprintf("flow output with handlers %q differs from the handler-free run %q", impl.Out, impl.RefOut))
	}
	seen := map[string]bool{}
	for _, mu := range model.Units {
		seen[mu.Info] = true
		if cl := c10DiffClass(mu, c.Globals, impl.Units[mu.Info]); cl != "" {
			dis(cl, fmt.Sprintf("unit %q: callbacks (handler,timing) %v on the implementation, %v in the model", mu.Info, impl.Units[mu.Info], mu.Ev))
		}
	}
	for info, evs := range impl.Units {
		if !seen[info] && len(evs) > 0 {
			dis("unknown-unit", fmt.Sprintf("callbacks delivered with run info %q, which no unit of the run has: %v", info, evs))
		}
	}
	// payloads: all handlers of one unit see the same payload at one timing, and for the leaf
	// units whose input / output the harness knows, it is what the unit consumed / produced
	for k, ps := range impl.Payloads {
		if len(ps) > 1 {
			dis("payload-differs", fmt.Sprintf("handlers of %s saw different payloads: %q", k, ps))
		}
	}
	for _, u := range c.Units {
		if len(u.Path) == 0 {
			continue
		}
		key := u.Path[len(u.Path)-1]
		var in, out string
		switch {
		case u.Tool:
			idx := strings.TrimPrefix(key, "t")
			in = "a" + map[string]string{"1": "0", "2": "1"}[idx]
			out = key + "(" + in + ")"
		case strings.HasSuffix(u.Info, "|Lambda") && key != "join" && c.Family == "par":
			in, out = "x", "x>"+key
		default:
			continue
		}
		for t, want := range map[int]string{0: in, 3: in, 1: out, 4: out} {
			if ps, ok := impl.Payloads[fmt.Sprintf("%s#%d", u.Info, t)]; ok && (len(ps) != 1 || ps[0] != want) {
				dis("payload", fmt.Sprintf("unit %q timing %d: handlers saw payload %q, the unit consumed/produced %q", u.Info, t, ps, want))
			}
		}
	}
	// direct predicate, independent of the oracle: per unit, every unfiltered handler that got a
	// start got exactly one start and exactly one of end / stream end / error
	masked := map[int]bool{}
	for _, lst := range [][]c10Hd{c.Globals} {
		for _, h := range lst {
			if h.Mask != nil {
				masked[h.ID] = true
			}
		}
	}
	for _, o := range c.Opts {
		for _, h := range o.Hs {
			if h.Mask != nil {
				masked[h.ID] = true
			}
		}
	}
	if c.UserInit != nil {
		for _, h := range c.UserInit.Hs {
			if h.Mask != nil {
				masked[h.ID] = true
			}
		}
	}
	// multiplicity a handler was passed with (the same id may be passed several times)
	for info, evs := range impl.Units {
		starts, ends := map[int]int{}, map[int]int{}
		for _, e := range evs {
			if e[1] == 0 || e[1] == 3 {
				starts[e[0]]++
			} else {
				ends[e[0]]++
			}
		}
		for h, n := range starts {
			if !masked[h] && ends[h] != n {
				dis("unpaired", fmt.Sprintf("unit %q: handler %d got %d start and %d end/error callbacks", info, h, n, ends[h]))
			}
		}
		for h, n := range ends {
			if !masked[h] && starts[h] != n {
				dis("unpaired", fmt.Sprintf("unit %q: handler %d got %d start and %d end/error callbacks", info, h, starts[h], n))
			}
		}
	}
	return nil
}

// ---------------------------------------------------------------- api cases: the unit machine on internal/callbacks

type c10ApiObs struct {
	Log    [][]interface{} `json:"log"`
	Arrays [][]int         `json:"arrays"`
	Class  string          `json:"class"`
}

func c10EvInts(e []interface{}) (string, int) {
	k, _ := e[0].(string)
	switch v := e[1].(type) {
	case float64:
		return k, int(v)
	case int:
		return k, v
	case json.Number:
		n, _ := v.Int64()
		return k, int(n)
	}
	return k, -1
}

func c10RunApi(c *c10Api) *c10ApiObs {
	o := &c10ApiObs{Class: "ok"}
	type logEv struct {
		unit int
		c10Event
	}
	rec := &c10Rec{}
	saved := icb.GlobalHandlers
	defer func() { icb.GlobalHandlers = saved }()
	panicked, pv := vh.Safely(func() {
		callbacks.InitCallbackHandlers(c10MkAll(c.Globals, rec))
		arrays := make([][]callbacks.Handler, len(c.Arrays))
		for i, a := range c.Arrays {
			arrays[i] = c10MkAll(a, rec)
		}
		ctxs := make([]context.Context, len(c.Units))
		pcs := make([]int, len(c.Units))
		var unitOf []int // unit of each recorded event, in order
		for _, e := range c.Evs {
			k, i := c10EvInts(e)
			if i < 0 || i >= len(c.Units) {
				continue
			}
			d := c.Units[i]
			switch k {
			case "mk":
				if ctxs[i] != nil {
					continue
				}
				info := &callbacks.RunInfo{Name: d.Info}
				parent := context.Background()
				if d.Parent != nil {
					if *d.Parent >= i || ctxs[*d.Parent] == nil {
						continue
					}
					parent = ctxs[*d.Parent]
				}
				switch d.Kind {
				case "init":
					s := d.Slice
					if s[0] >= len(arrays) {
						continue
					}
					a := arrays[s[0]]
					// on top of the parent unit's context if there is one (work detached from it), else a fresh one
					ctxs[i] = icb.InitCallbacks(parent, info, a[s[1]:s[1]+s[2]:s[1]+s[3]]...)
				case "append":
					ctxs[i] = icb.AppendHandlers(parent, info, c10MkAll(d.Desig, rec)...)
				case "reuse":
					if d.Parent == nil {
						continue
					}
					ctxs[i] = icb.ReuseHandlers(parent, info)
				}
			case "step":
				if ctxs[i] == nil || pcs[i] >= len(d.Prog) {
					continue
				}
				t := d.Prog[pcs[i]]
				pcs[i]++
				rec.mu.Lock()
				before := len(rec.evs)
				rec.mu.Unlock()
				switch t {
				case 0:
					callbacks.OnStart(ctxs[i], "in")
				case 1:
					callbacks.OnEnd(ctxs[i], "out")
				case 2:
					callbacks.OnError(ctxs[i], errC10Node)
				case 3:
					_, sr := callbacks.OnStartWithStreamInput(ctxs[i], schema.StreamReaderFromArray([]string{"a", "b"}))
					sr.Close()
				case 4:
					_, sr := callbacks.OnEndWithStreamOutput(ctxs[i], schema.StreamReaderFromArray([]string{"a", "b"}))
					sr.Close()
				}
				rec.mu.Lock()
				for n := before; n < len(rec.evs); n++ {
					unitOf = append(unitOf, i)
				}
				rec.mu.Unlock()
			}
		}
		rec.mu.Lock()
		for n, e := range rec.evs {
			name := strings.SplitN(e.Info, "|", 2)[0]
			o.Log = append(o.Log, []interface{}{unitOf[n], name, e.H, e.T})
		}
		rec.mu.Unlock()
		for _, a := range arrays {
			ids := []int{}
			for _, h := range a {
				switch x := h.(type) {
				case *c10Handler:
					ids = append(ids, x.hd.ID)
				case *c10CheckedHandler:
					ids = append(ids, x.hd.ID)
				default:
					ids = append(ids, -1)
				}
			}
			o.Arrays = append(o.Arrays, ids)
		}
	})
	if panicked {
		o.Class = fmt.Sprint("panic:", pv)
	}
	vh.WithTimeout(20*time.Second, func() { rec.wg.Wait() })
	if o.Log == nil {
		o.Log = [][]interface{}{}
	}
	if o.Arrays == nil {
		o.Arrays = [][]int{}
	}
	return o
}

func c10OneApi(ctx *vh.Ctx, c *c10Api) error {
	ctx.Progress.Mark(c)
	raw, err := ctx.Oracle.Ask("C10", c)
	if err != nil {
		return err
	}
	var model struct {
		Log    [][]interface{} `json:"log"`
		Arrays [][]int         `json:"arrays"`
	}
	if err := json.Unmarshal(raw, &model); err != nil {
		return err
	}
	impl := c10RunApi(c)
	spare := 0
	kinds := map[string]int{}
	for _, d := range c.Units {
		kinds[d.Kind]++
		if d.Kind == "init" && d.Slice[3] > d.Slice[2] {
			spare++
		}
	}
	ctx.Res.Dist("kind=api")
	ctx.Res.Dist(fmt.Sprintf("api.units=%d", len(c.Units)))
	ctx.Res.Dist(fmt.Sprintf("api.initWithSpare=%d", spare))
	ctx.Res.Dist(fmt.Sprintf("api.globals=%d", len(c.Globals)))
	ctx.Res.Dist(fmt.Sprintf("api.events=%d", len(model.Log)/4*4))
	b, _ := json.Marshal(c)
	ctx.Res.Count("api|"+string(b), len(c.Units) >= 3 && len(model.Log) > 0)
	ctx.Res.Sample(c)
	if impl.Class != "ok" {
		ctx.Res.Disagree(vh.Disagreement{Signature: "C10:api:panic", What: "internal/callbacks panicked: " + impl.Class, Case: c, Model: model, Impl: impl})
		return nil
	}
	if !vh.CanonEq(model.Log, impl.Log) {
		ctx.Res.Disagree(vh.Disagreement{Signature: "C10:api:callback-log", What: "sequence of delivered callbacks (unit, run info, handler, timing) differs from the model", Case: c, Model: model, Impl: impl})
	}
	if !vh.CanonEq(model.Arrays, impl.Arrays) {
		ctx.Res.Disagree(vh.Disagreement{Signature: "C10:api:caller-array-modified", What: "a handler slice owned by the caller was written to by the callback machinery", Case: c, Model: model, Impl: impl})
	}
	return nil
}

// ---------------------------------------------------------------- copies cases

func c10OneCopies(ctx *vh.Ctx, c *c10Copies) error {
	ctx.Progress.Mark(c)
	raw, err := ctx.Oracle.Ask("C10", c)
	if err != nil {
		return err
	}
	var model struct {
		Outs []interface{} `json:"outs"`
		Flow []int         `json:"flow"`
	}
	if err := json.Unmarshal(raw, &model); err != nil {
		return err
	}
	type obs struct {
		Outs  []interface{} `json:"outs"`
		Flow  []int         `json:"flow"`
		Class string        `json:"class"`
	}
	im := obs{Outs: []interface{}{}, Flow: []int{}, Class: "ok"}
	panicked, pv := vh.Safely(func() {
		ok := vh.WithTimeout(20*time.Second, func() {
			srs := schema.StreamReaderFromArray(c.Items).Copy(c.N)
			for _, op := range c.Ops {
				k, r := c10EvInts(op)
				if r < 0 || r >= len(srs) {
					continue
				}
				if k == "close" {
					srs[r].Close()
					im.Outs = append(im.Outs, "closed")
					continue
				}
				v, err := srs[r].Recv()
				if err != nil {
					im.Outs = append(im.Outs, nil)
				} else {
					im.Outs = append(im.Outs, v)
				}
			}
			flow := srs[c.N-1]
			for {
				v, err := flow.Recv()
				if err != nil {
					break
				}
				im.Flow = append(im.Flow, v)
			}
			flow.Close()
		})
		if !ok {
			im.Class = "hang"
		}
	})
	if panicked {
		im.Class = fmt.Sprint("panic:", pv)
	}
	ctx.Res.Dist("kind=copies")
	b, _ := json.Marshal(c)
	ctx.Res.Count("copies|"+string(b), len(c.Ops) > 0 && c.N >= 2)
	if model.Flow == nil {
		model.Flow = []int{}
	}
	if im.Class != "ok" || !vh.CanonEq(model.Outs, im.Outs) || !vh.CanonEq(model.Flow, im.Flow) {
		ctx.Res.Disagree(vh.Disagreement{Signature: "C10:copies:payload", What: "a stream copy delivered something else than the model's copy (the flow's copy must deliver every item whatever the handlers' copies do)", Case: c, Model: model, Impl: im})
	}
	return nil
}

// ---------------------------------------------------------------- generators

type c10IDs struct{ next int }

func (g *c10IDs) hd(r *vh.Rand) c10Hd {
	g.next++
	h := c10Hd{ID: g.next, SM: r.Intn(3)}
	if r.Chance(20) {
		m := r.Intn(32)
		h.Mask = &m
	}
	return h
}
func (g *c10IDs) hds(r *vh.Rand, n int) []c10Hd {
	out := make([]c10Hd, 0, n)
	for i := 0; i < n; i++ {
		out = append(out, g.hd(r))
	}
	return out
}

func c10GenCompose(r *vh.Rand) *c10Compose {
	c := &c10Compose{Kind: "compose", Family: "par", Mode: "pregel", Paradigm: "invoke", Opts: []c10Opt{}, Globals: []c10Hd{}}
	ids := &c10IDs{}
	if r.Chance(25) {
		c.Family = "tools"
	}
	if r.Chance(40) {
		c.Mode = "dag"
	}
	if r.Chance(40) {
		c.Paradigm = "stream"
	}
	// nodes
	var paths [][]string
	if c.Family == "tools" {
		tn := c10Node{Key: "T", LK: "tools"}
		for i := 0; i < 2; i++ {
			tn.Inner = append(tn.Inner, c10Node{Key: fmt.Sprintf("t%d", i+1), LK: "tool", Fail: r.Chance(8)})
		}
		c.Nodes = append(c.Nodes, tn)
		paths = append(paths, []string{"T"})
		for i, k := 0, r.Intn(3); i < k; i++ {
			key := string(rune('A' + i))
			c.Nodes = append(c.Nodes, c10Node{Key: key, LK: "i", Fail: r.Chance(8)})
			paths = append(paths, []string{key})
		}
	} else {
		k := r.Range(2, 4)
		lks := []string{"i", "i", "i", "s", "c", "t", "self"}
		hasGraph := false
		for i := 0; i < k; i++ {
			key := string(rune('A' + i))
			if !hasGraph && r.Chance(22) {
				hasGraph = true
				sub := c10Node{Key: key, LK: "graph"}
				for j, m := 0, r.Range(1, 2); j < m; j++ {
					ik := string(rune('X' + j))
					sub.Inner = append(sub.Inner, c10Node{Key: ik, LK: lks[r.Intn(len(lks))], Fail: r.Chance(6)})
					paths = append(paths, []string{key, ik})
				}
				if r.Chance(8) {
					sub.Early = "unknown"
				}
				c.Nodes = append(c.Nodes, sub)
				paths = append(paths, []string{key})
				continue
			}
			c.Nodes = append(c.Nodes, c10Node{Key: key, LK: lks[r.Intn(len(lks))], Fail: r.Chance(7)})
			paths = append(paths, []string{key})
		}
		if r.Chance(30) {
			paths = append(paths, []string{"join"})
		}
	}
	if r.Chance(5) {
		c.Early = "unknown"
	} else if c.Mode == "dag" && r.Chance(5) {
		c.Early = "dagsteps"
	}
	// handlers: global, caller context, undesignated options (0-5, sizes crossing capacities 1,2,4,8), designated
	if r.Chance(35) {
		c.Globals = ids.hds(r, r.Range(1, 2))
	}
	if r.Chance(25) {
		c.UserInit = &c10UserInit{Hs: ids.hds(r, r.Range(0, 3)), Spare: r.Intn(3)}
	}
	nU := r.Intn(6)
	if r.Chance(35) {
		nU = 3 // three single-handler options: len 3, cap 4
	}
	for i := 0; i < nU; i++ {
		n := 1
		if r.Chance(30) {
			n = r.Range(1, 3)
		}
		c.Opts = append(c.Opts, c10Opt{Hs: ids.hds(r, n)})
	}
	// designated options: most nodes get one, sometimes an option names two nodes
	for _, p := range paths {
		if r.Chance(70) {
			o := c10Opt{Hs: ids.hds(r, r.Range(1, 2)), Paths: [][]string{p}}
			if r.Chance(12) {
				q := paths[r.Intn(len(paths))]
				if strings.Join(q, "/") != strings.Join(p, "/") {
					o.Paths = append(o.Paths, q)
				}
			}
			c.Opts = append(c.Opts, o)
		}
	}
	// shuffle option order (order of options is part of the input)
	perm := r.Perm(len(c.Opts))
	sh := make([]c10Opt, len(c.Opts))
	for i, j := range perm {
		sh[i] = c.Opts[j]
	}
	c.Opts = sh
	// Transform over a channel-backed input stream, with handlers that read their copy of a
	// stream payload to the end inside the callback
	if c.Family == "par" && c.Paradigm == "stream" && r.Chance(45) {
		c.Paradigm = "transform"
		syncRead := func(hs []c10Hd) {
			for i := range hs {
				if r.Chance(40) {
					hs[i].SM = 3
				}
			}
		}
		syncRead(c.Globals)
		if c.UserInit != nil {
			syncRead(c.UserInit.Hs)
		}
		for i := range c.Opts {
			syncRead(c.Opts[i].Hs)
		}
	}
	c.Units, _ = c10ComputeUnits(c)
	return c
}

// the witness of DESIGN.md §5 / Props.cross_node_with_inplace_append on the real code
func c10Witness(mode, paradigm string) *c10Compose {
	c := &c10Compose{Kind: "compose", Family: "par", Mode: mode, Paradigm: paradigm, Globals: []c10Hd{},
		Opts: []c10Opt{{Hs: []c10Hd{{ID: 1}}}, {Hs: []c10Hd{{ID: 2}}}, {Hs: []c10Hd{{ID: 3}}},
			{Hs: []c10Hd{{ID: 4}}, Paths: [][]string{{"A"}}}, {Hs: []c10Hd{{ID: 5}}, Paths: [][]string{{"B"}}}},
		Nodes: []c10Node{{Key: "A", LK: "i"}, {Key: "B", LK: "i"}}}
	c.Units, _ = c10ComputeUnits(c)
	return c
}

func c10GenApi(r *vh.Rand) *c10Api {
	c := &c10Api{Kind: "api", Globals: []c10Hd{}}
	ids := &c10IDs{}
	for i, n := 0, r.Range(1, 2); i < n; i++ {
		c.Arrays = append(c.Arrays, ids.hds(r, r.Range(1, 6)))
	}
	if r.Chance(50) {
		c.Globals = ids.hds(r, r.Range(1, 2))
	}
	nu := r.Range(2, 7)
	for i := 0; i < nu; i++ {
		d := c10Decl{Info: fmt.Sprintf("u%d", i), Desig: []c10Hd{}, Prog: []int{}}
		switch {
		case i == 0 || r.Chance(20):
			a := r.Intn(len(c.Arrays))
			n := len(c.Arrays[a])
			off := r.Intn(n)
			ln := r.Intn(n - off + 1)
			if i > 0 && r.Chance(50) {
				// InitCallbacks on the context of an earlier unit: whatever that context carries is
				// overwritten; often with no handler at all
				p := r.Intn(i)
				d.Parent = &p
				if r.Chance(35) {
					ln = 0
				}
			}
			cp := ln + r.Intn(n-off-ln+1)
			d.Kind, d.Slice = "init", []int{a, off, ln, cp}
		case r.Chance(25):
			p := r.Intn(i)
			d.Kind, d.Parent = "reuse", &p
		default:
			d.Kind = "append"
			if r.Chance(90) {
				p := r.Intn(i)
				d.Parent = &p
			}
			d.Desig = ids.hds(r, r.Intn(3))
		}
		st, en := 0, []int{1, 2, 4}[r.Intn(3)]
		if r.Chance(30) {
			st = 3
		}
		d.Prog = []int{st, en}
		if r.Chance(10) {
			d.Prog = []int{st}
		}
		c.Units = append(c.Units, d)
	}
	// a random interleaving of enabled events
	created := make([]bool, nu)
	pcs := make([]int, nu)
	for guard := 0; guard < 200; guard++ {
		var en [][]interface{}
		for i, d := range c.Units {
			if !created[i] {
				if d.Parent == nil || created[*d.Parent] {
					en = append(en, []interface{}{"mk", i})
				}
			} else if pcs[i] < len(d.Prog) {
				en = append(en, []interface{}{"step", i})
			}
		}
		if len(en) == 0 {
			break
		}
		e := en[r.Intn(len(en))]
		i := e[1].(int)
		if e[0] == "mk" {
			created[i] = true
		} else {
			pcs[i]++
		}
		c.Evs = append(c.Evs, e)
	}
	return c
}

func c10GenCopies(r *vh.Rand) *c10Copies {
	c := &c10Copies{Kind: "copies", N: r.Range(2, 5)}
	for i, n := 0, r.Intn(6); i < n; i++ {
		c.Items = append(c.Items, 10+i)
	}
	if c.Items == nil {
		c.Items = []int{}
	}
	closed := make([]bool, c.N)
	for i, n := 0, r.Intn(14); i < n; i++ {
		rd := r.Intn(c.N - 1) // never the flow's copy (the last one)
		if closed[rd] {
			continue
		}
		if r.Chance(15) {
			closed[rd] = true
			c.Ops = append(c.Ops, []interface{}{"close", rd})
		} else {
			c.Ops = append(c.Ops, []interface{}{"recv", rd})
		}
	}
	if c.Ops == nil {
		c.Ops = [][]interface{}{}
	}
	return c
}

// ---------------------------------------------------------------- entry point

func runC10(ctx *vh.Ctx) error {
	ctx.Res.Rule = "compose: random graphs START→2-4 parallel units (lambdas i/s/c/t, self-firing lambda, nested graph with 1-2 inner nodes, ToolsNode with 2 parallel tool calls) meeting at a barrier, handlers global / caller context / 0-5 undesignated options / designated to nodes and node paths, invoke|stream|transform (a channel-backed input stream, handlers reading their stream copies to the end inside the callback), pregel|dag, failing nodes and early option errors; api: random unit trees over internal/callbacks with caller slices of arbitrary offset/len/cap and a random interleaving; copies: StreamReader.Copy vs the model. non-trivial = compose with ≥2 barrier parties and ≥1 handler source, api with ≥3 units and ≥1 delivered callback, copies with ≥1 op; distinct by shape+handler-supply signature (compose) / full case (api, copies)"
	if ctx.Replay != nil {
		var probe struct {
			Kind string `json:"kind"`
		}
		if err := json.Unmarshal(ctx.Replay, &probe); err != nil {
			return err
		}
		for _, f := range c10Extra {
			if f.Kind == probe.Kind {
				c, err := f.Parse(ctx.Replay)
				if err != nil {
					return err
				}
				return f.One(ctx, c)
			}
		}
		switch probe.Kind {
		case "api":
			var c c10Api
			if err := json.Unmarshal(ctx.Replay, &c); err != nil {
				return err
			}
			return c10OneApi(ctx, &c)
		case "copies":
			var c c10Copies
			if err := json.Unmarshal(ctx.Replay, &c); err != nil {
				return err
			}
			return c10OneCopies(ctx, &c)
		}
		var c c10Compose
		if err := json.Unmarshal(ctx.Replay, &c); err != nil {
			return err
		}
		return c10OneCompose(ctx, &c)
	}
	// the hand-confirmed witness first, in every mode / paradigm
	for _, m := range []string{"pregel", "dag"} {
		for _, p := range []string{"invoke", "stream"} {
			if err := c10OneCompose(ctx, c10Witness(m, p)); err != nil {
				return err
			}
		}
	}
	// Transform over a channel-backed stream with handlers (graph level, and designated to a nested
	// graph) that read their copy of every stream payload to the end inside the callback
	for _, m := range []string{"pregel", "dag"} {
		w := &c10Compose{Kind: "compose", Family: "par", Mode: m, Paradigm: "transform", Globals: []c10Hd{},
			Opts: []c10Opt{{Hs: []c10Hd{{ID: 1, SM: 3}}}, {Hs: []c10Hd{{ID: 2, SM: 3}}, Paths: [][]string{{"A"}}},
				{Hs: []c10Hd{{ID: 3, SM: 3}}, Paths: [][]string{{"A", "X"}}}},
			Nodes: []c10Node{{Key: "A", LK: "graph", Inner: []c10Node{{Key: "X", LK: "t"}}}, {Key: "B", LK: "c"}}}
		w.Units, _ = c10ComputeUnits(w)
		if err := c10OneCompose(ctx, w); err != nil {
			return err
		}
	}
	for _, f := range c10Extra {
		ctx.Res.Rule += "; " + f.Rule
		if f.Fixed == nil {
			continue
		}
		for _, c := range f.Fixed() {
			if err := f.One(ctx, c); err != nil {
				return err
			}
		}
	}
	// kinds interleaved (4 api : 1 copies : 5 compose : 2 extension families) so that a time
	// budget cuts all of them evenly
	n := ctx.N(6000, 144000)
	for i := 0; i < n && ctx.TimeLeft(); i++ {
		var err error
		switch k := i % 12; {
		case k < 4:
			err = c10OneApi(ctx, c10GenApi(ctx.Rng))
		case k == 4:
			err = c10OneCopies(ctx, c10GenCopies(ctx.Rng))
		case k >= 10 && len(c10Extra) > 0:
			f := c10Extra[(2*(i/12)+k-10)%len(c10Extra)]
			err = f.One(ctx, f.Gen(ctx.Rng))
		default:
			err = c10OneCompose(ctx, c10GenCompose(ctx.Rng))
		}
		if err != nil {
			return err
		}
	}
	return nil
}
