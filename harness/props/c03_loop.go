//go:build verif && (vh_all || vh_c03)

package props

// C03, families "intr" and "prefail" — what the run loop collects before it stops for an
// interrupt point, and what `submit` has started when a pre-processor fails.
//
// intr     Acyclic graphs (eager Workflow; Pregel / AllPredecessor batch graphs as controls)
//          compiled with WithInterruptBeforeNodes / WithInterruptAfterNodes and a checkpoint
//          store, >= 3 parallel siblings, run and resumed until completion under an ENFORCED
//          completion order: every body blocks on its own gate; a releaser follows the script
//          of the Lean engine (Model/C03Loop.lean `iAll`): before a gate is opened every node
//          the model has in flight must be inside its body; in eager mode the next gate is
//          opened only after the run loop has collected the previous completion (its state
//          post-handler ran), so the interrupt node is received while the others are still
//          running.  Per Invoke, against the model: outcome and interrupt info; the executions
//          started / collected in this Invoke; at the return nothing started is uncollected or
//          still running (body counters, state post-handlers) and, from the hook events, the
//          trace is a run of the protocol model that ends with num = 0 and received =
//          submitted as multisets.  After the last resume: the result of the order-free
//          reference, every node executed and collected exactly once.
//          (Lean: interrupt_path_collects_all, interrupted_invoke_collects_all; negations
//          interrupt_path_abandons_with_wait, interrupted_invoke_abandons_with_wait.)
//
// prefail  A step of 2-4 nodes (optionally behind a first node) whose state pre-handlers
//          share a counter: the k-th call fails.  The run must return that error and `submit`
//          must not have started any execution of the step: no body entered, no goroutine
//          created by taskManager.submit alive (goroutine dump, compared with the dump taken
//          before the run; transient executor goroutines of collected tasks are given time to
//          exit), no `finish` event, num = 0 in the replayed trace.  (Lean:
//          submit_fail_starts_nothing; negation submit_fail_leaks_when_interleaved.)

import (
	"context"
	"encoding/json"
	"errors"
	"fmt"
	"runtime"
	"sort"
	"strings"
	"sync"
	"sync/atomic"
	"time"

	"github.com/cloudwego/eino/compose"
	"github.com/cloudwego/eino/verifharness/vh"
)

func init() {
	c03Extra = append(c03Extra,
		c03Family{Kind: "intr", Run: c03iFamily, Replay: c03iReplay},
		c03Family{Kind: "prefail", Run: c03pFamily, Replay: c03pReplay})
}

const c03iHangGuard = 15 * time.Second

// ======================================================================================
// family intr
// ======================================================================================

type c03iCase struct {
	Kind     string    `json:"kind"` // "intr"
	Nodes    []c03Node `json:"nodes"`
	EndPreds []string  `json:"endPreds"`
	Input    string    `json:"input"`
	Mode     string    `json:"mode"`  // pregel | dag | workflow
	Eager    bool      `json:"eager"` // = mode is workflow (read by the oracle)
	Before   []string  `json:"before"`
	After    []string  `json:"after"`
	Priority []string  `json:"priority"`
	Note     string    `json:"note,omitempty"`
}

type c03iStep struct {
	Release  string   `json:"release"`
	Inflight []string `json:"inflight"`
}

type c03iRefInvoke struct {
	Out         string     `json:"out"` // ok | interrupt | stuck
	Before      []string   `json:"before"`
	After       []string   `json:"after"`
	Pending     []string   `json:"pending"`
	Steps       []c03iStep `json:"steps"`
	Started     []string   `json:"started"`
	Collected   []string   `json:"collected"`
	Uncollected []string   `json:"uncollected"`
	Drained     []string   `json:"drained"`
}

type c03iRef struct {
	Invokes []c03iRefInvoke `json:"invokes"`
	Result  [][]string      `json:"result"`
}

type c03iRunObs struct {
	Class        string   `json:"class"` // ok | interrupt | error | hang | panic-escaped
	Detail       string   `json:"detail,omitempty"`
	Before       []string `json:"before"`
	After        []string `json:"after"`
	OtherInfo    string   `json:"otherInfo,omitempty"` // rerun nodes / sub graphs in the interrupt info (none expected)
	Started      []string `json:"started"`             // bodies entered during this Invoke
	Collected    []string `json:"collected"`           // state post-handlers run during this Invoke
	Uncollected  []string `json:"uncollected"`         // entered (in any Invoke so far) and not collected when this Invoke returned
	Running      []string `json:"running"`             // inside their body when this Invoke returned
	Stage        string   `json:"stage,omitempty"`     // where the release script stood when the Invoke returned / the guard fired
	ScriptDone   bool     `json:"scriptDone"`
	TraceNum     int      `json:"traceNum"`               // num at the return, from the replayed hook events (-1: no trace)
	TraceLost    []string `json:"traceLost,omitempty"`    // submitted and never received, from the hook events
	TraceProblem string   `json:"traceProblem,omitempty"` // the trace is not a run of the protocol model
	Trace        any      `json:"trace,omitempty"`
	events       []compose.VerifC03Event
}

type c03iObs struct {
	Class     string         `json:"class"` // ok | hang | error | panic-escaped | build-error | no-progress | stopped
	Detail    string         `json:"detail,omitempty"`
	Runs      []*c03iRunObs  `json:"runs"`
	Result    [][]string     `json:"result"`
	Execs     map[string]int `json:"execs"`
	Collected map[string]int `json:"collected"`
}

// per Invoke
type c03iPer struct {
	gate, started, left, collected map[string]chan struct{}
	once                           map[string]*[4]sync.Once
	returned                       chan struct{} // Invoke has returned (or the guard fired) and the snapshot is taken
	relDone                        chan struct{}
	// guarded by c03iRun.mu
	entered  map[string]int
	leftN    map[string]int
	postN    map[string]int
	stage    string
	finished bool // the script reached its end
}

type c03iRun struct {
	c      *c03iCase
	mu     sync.Mutex
	cond   *sync.Cond
	active int
	execs  map[string]int
	posts  map[string]int
	per    atomic.Pointer[c03iPer]
}

func (r *c03iRun) newPer() *c03iPer {
	p := &c03iPer{gate: map[string]chan struct{}{}, started: map[string]chan struct{}{}, left: map[string]chan struct{}{},
		collected: map[string]chan struct{}{}, once: map[string]*[4]sync.Once{}, returned: make(chan struct{}), relDone: make(chan struct{}),
		entered: map[string]int{}, leftN: map[string]int{}, postN: map[string]int{}}
	for _, n := range r.c.Nodes {
		p.gate[n.Key], p.started[n.Key], p.left[n.Key], p.collected[n.Key] = make(chan struct{}), make(chan struct{}), make(chan struct{}), make(chan struct{})
		p.once[n.Key] = &[4]sync.Once{}
	}
	return p
}

func (p *c03iPer) open(key string) {
	if o, ok := p.once[key]; ok {
		o[0].Do(func() { close(p.gate[key]) })
	}
}

func (p *c03iPer) wait(ch <-chan struct{}) bool {
	select {
	case <-ch:
		return true
	case <-p.returned:
		return false
	}
}

func (r *c03iRun) body(key string, in map[string]any) (map[string]any, error) {
	p := r.per.Load()
	r.mu.Lock()
	r.active++
	r.execs[key]++
	p.entered[key]++
	r.mu.Unlock()
	if o, ok := p.once[key]; ok {
		o[1].Do(func() { close(p.started[key]) })
	}
	defer func() {
		r.mu.Lock()
		p.leftN[key]++
		r.active--
		r.cond.Broadcast()
		r.mu.Unlock()
		if o, ok := p.once[key]; ok {
			o[2].Do(func() { close(p.left[key]) })
		}
	}()
	if g, ok := p.gate[key]; ok {
		<-g
	}
	return map[string]any{key: c03Render(key, in)}, nil
}

// state post-handler: on the run-loop goroutine, inside waitOne, when the completion is received
func (r *c03iRun) post(key string) {
	p := r.per.Load()
	r.mu.Lock()
	r.posts[key]++
	p.postN[key]++
	r.mu.Unlock()
	if o, ok := p.once[key]; ok {
		o[3].Do(func() { close(p.collected[key]) })
	}
}

func c03iBuild(c *c03iCase, r *c03iRun, store compose.CheckPointStore) (c03rInvoker, error) {
	if c03rReg != nil {
		return nil, fmt.Errorf("harness: state type not registered: %v", c03rReg)
	}
	ctx := context.Background()
	gen := compose.WithGenLocalState(func(ctx context.Context) *c03rState { return &c03rState{} })
	post := func(key string) compose.GraphAddNodeOpt {
		return compose.WithStatePostHandler(func(ctx context.Context, out c03rM, st *c03rState) (c03rM, error) {
			r.post(key)
			return out, nil
		})
	}
	lambda := func(key string) *compose.Lambda {
		return compose.InvokableLambda(func(ctx context.Context, in c03rM) (c03rM, error) { return r.body(key, in) })
	}
	opts := []compose.GraphCompileOption{compose.WithCheckPointStore(store)}
	if len(c.Before) > 0 {
		opts = append(opts, compose.WithInterruptBeforeNodes(append([]string{}, c.Before...)))
	}
	if len(c.After) > 0 {
		opts = append(opts, compose.WithInterruptAfterNodes(append([]string{}, c.After...)))
	}
	var run compose.Runnable[c03rM, c03rM]
	if c.Mode == "workflow" {
		wf := compose.NewWorkflow[c03rM, c03rM](gen)
		for _, n := range c.Nodes {
			wn := wf.AddLambdaNode(n.Key, lambda(n.Key), post(n.Key))
			for _, p := range n.Preds {
				wn.AddInput(p, compose.MapFields(p, p))
			}
		}
		for _, p := range c.EndPreds {
			wf.End().AddInput(p, compose.MapFields(p, p))
		}
		var err error
		if run, err = wf.Compile(ctx, opts...); err != nil {
			return nil, err
		}
	} else {
		g := compose.NewGraph[c03rM, c03rM](gen)
		for _, n := range c.Nodes {
			if err := g.AddLambdaNode(n.Key, lambda(n.Key), post(n.Key)); err != nil {
				return nil, err
			}
		}
		for _, n := range c.Nodes {
			for _, p := range n.Preds {
				if err := g.AddEdge(p, n.Key); err != nil {
					return nil, err
				}
			}
		}
		for _, p := range c.EndPreds {
			if err := g.AddEdge(p, compose.END); err != nil {
				return nil, err
			}
		}
		if c.Mode == "dag" {
			opts = append(opts, compose.WithNodeTriggerMode(compose.AllPredecessor))
		}
		var err error
		if run, err = g.Compile(ctx, opts...); err != nil {
			return nil, err
		}
	}
	return func(ctx context.Context) (map[string]any, error) {
		return run.Invoke(ctx, c03rM{compose.START: c.Input}, compose.WithCheckPointID("c03i"))
	}, nil
}

func (r *c03iRun) setStage(p *c03iPer, s string) {
	r.mu.Lock()
	p.stage = s
	r.mu.Unlock()
}

// c03WaitPushed: the executor of `key` has appended the finished task to the hand-off of the
// outer task manager (its `finish` hook event exists).  Without the call-site hooks only the
// body's return is known.
func c03WaitPushed(key string, stop <-chan struct{}) bool {
	if !compose.VerifC03TraceEnabled() {
		return true
	}
	for i := 0; ; i++ {
		for _, e := range compose.VerifC03Events() {
			if e.TM == 1 && e.K == "finish" && e.Node == key {
				return true
			}
		}
		select {
		case <-stop:
			return false
		default:
		}
		if i < 200 {
			runtime.Gosched()
		} else {
			time.Sleep(50 * time.Microsecond) // polling an event of the implementation, not a synchronisation by delay
		}
	}
}

// the release script of one Invoke, as computed by the Lean engine
func (r *c03iRun) releaser(p *c03iPer, steps []c03iStep) {
	defer close(p.relDone)
	for _, st := range steps {
		for _, k := range st.Inflight {
			r.setStage(p, "waiting for "+k+" to be started")
			if !p.wait(p.started[k]) {
				return
			}
		}
		r.setStage(p, "released "+st.Release+", waiting for its body to return")
		p.open(st.Release)
		if !p.wait(p.left[st.Release]) {
			return
		}
		r.setStage(p, "waiting for the executor of "+st.Release+" to push the finished task")
		if !c03WaitPushed(st.Release, p.returned) {
			return
		}
		if r.c.Mode == "workflow" {
			// eager: the next completion only after the run loop has received this one
			r.setStage(p, "waiting for the run loop to collect "+st.Release)
			if !p.wait(p.collected[st.Release]) {
				return
			}
		}
	}
	r.mu.Lock()
	p.stage, p.finished = "script finished", true
	r.mu.Unlock()
}

// the state of the world at the moment an Invoke returns (or the guard fires)
func c03iSnapshot(r *c03iRun, p *c03iPer, ro *c03iRunObs) {
	r.mu.Lock()
	ro.Started, ro.Collected = c03iKeys(p.entered), c03iKeys(p.postN)
	for k, n := range r.execs {
		if r.posts[k] < n {
			ro.Uncollected = append(ro.Uncollected, k)
		}
	}
	for k, n := range p.entered {
		if p.leftN[k] < n {
			ro.Running = append(ro.Running, k)
		}
	}
	ro.Stage, ro.ScriptDone = p.stage, p.finished
	r.mu.Unlock()
	sort.Strings(ro.Uncollected)
	sort.Strings(ro.Running)
	ro.events = compose.VerifC03Events()
}

func c03iKeys(m map[string]int) []string {
	out := []string{}
	for k, v := range m {
		for i := 0; i < v; i++ {
			out = append(out, k)
		}
	}
	sort.Strings(out)
	return out
}

func c03iImpl(c *c03iCase, ref *c03iRef) *c03iObs {
	o := &c03iObs{Runs: []*c03iRunObs{}, Result: [][]string{}, Execs: map[string]int{}, Collected: map[string]int{}}
	r := &c03iRun{c: c, execs: map[string]int{}, posts: map[string]int{}}
	r.cond = sync.NewCond(&r.mu)
	store := &c03rStore{m: map[string][]byte{}}
	var inv c03rInvoker
	var berr error
	if p, pv := vh.Safely(func() { inv, berr = c03iBuild(c, r, store) }); p {
		o.Class, o.Detail = "build-error", fmt.Sprint("panic: ", pv)
		return o
	}
	if berr != nil {
		o.Class, o.Detail = "build-error", berr.Error()
		return o
	}
	maxRuns := len(ref.Invokes) + 2
	for idx := 0; ; idx++ {
		if idx >= maxRuns {
			o.Class, o.Detail = "no-progress", fmt.Sprintf("still interrupted after %d Invokes (the model needs %d)", idx, len(ref.Invokes))
			break
		}
		p := r.newPer()
		r.per.Store(p)
		compose.VerifC03Reset(uint64(idx), false)
		var steps []c03iStep
		if idx < len(ref.Invokes) {
			steps = ref.Invokes[idx].Steps
			go r.releaser(p, steps)
		} else { // beyond the model's sequence: no script
			for _, n := range c.Nodes {
				p.open(n.Key)
			}
			close(p.relDone)
		}
		ro := &c03iRunObs{Before: []string{}, After: []string{}, Started: []string{}, Collected: []string{}, Uncollected: []string{}, Running: []string{}, TraceNum: -1}
		var snapOnce sync.Once
		snapshot := func() {
			snapOnce.Do(func() { c03iSnapshot(r, p, ro) })
		}
		var res map[string]any
		var rerr error
		finished := false
		panicked, pv := vh.Safely(func() {
			finished = vh.WithTimeout(c03iHangGuard, func() {
				res, rerr = inv(context.Background())
				snapshot() // the state of the world at the moment Invoke returns
			})
		})
		if !finished || panicked {
			snapshot()
		}
		close(p.returned)
		<-p.relDone
		for _, n := range c.Nodes { // whatever is still inside a body may leave
			p.open(n.Key)
		}
		c03iQuiesce(r)
		o.Runs = append(o.Runs, ro)
		stop := true
		switch {
		case panicked:
			ro.Class, ro.Detail = "panic-escaped", fmt.Sprint(pv)
		case !finished:
			ro.Class = "hang"
		case rerr == nil:
			ro.Class = "ok"
			o.Result = c03Pairs(res)
		default:
			if info, ok := compose.ExtractInterruptInfo(rerr); ok && info != nil {
				ro.Class = "interrupt"
				ro.Before = c03Sorted(append([]string{}, info.BeforeNodes...))
				ro.After = c03Sorted(append([]string{}, info.AfterNodes...))
				if len(info.RerunNodes)+len(info.SubGraphs) > 0 {
					ro.OtherInfo = fmt.Sprintf("rerun=%v subgraphs=%d", info.RerunNodes, len(info.SubGraphs))
				}
				stop = false
			} else {
				ro.Class, ro.Detail = "error", rerr.Error()
			}
		}
		// an Invoke that deviates from the model ends the case: what follows would only echo it
		if !stop && (idx >= len(ref.Invokes) || !c03iConforms(ro, &ref.Invokes[idx])) {
			o.Class = "stopped"
			break
		}
		if stop {
			o.Class, o.Detail = ro.Class, ro.Detail
			break
		}
	}
	r.mu.Lock()
	for k, v := range r.execs {
		o.Execs[k] = v
	}
	for k, v := range r.posts {
		o.Collected[k] = v
	}
	r.mu.Unlock()
	return o
}

// cheap black-box conformance of one interrupted Invoke with the model (decides only whether
// the case goes on; everything is compared and reported by c03iOne)
func c03iConforms(ro *c03iRunObs, m *c03iRefInvoke) bool {
	return ro.Class == m.Out && len(ro.Uncollected) == 0 && len(ro.Running) == 0 &&
		vh.CanonEq(ro.Started, c03Sorted(append([]string{}, m.Started...))) &&
		vh.CanonEq(ro.Collected, c03Sorted(append([]string{}, m.Collected...)))
}

func c03iQuiesce(r *c03iRun) {
	done := make(chan struct{})
	go func() {
		r.mu.Lock()
		for r.active > 0 {
			r.cond.Wait()
		}
		r.mu.Unlock()
		close(done)
	}()
	select {
	case <-done:
	case <-time.After(10 * time.Second):
	}
}

// c03TraceFinal replays the hook events of one task manager on the protocol model and
// returns num at the end, the node keys of the executions submitted and never received, and
// why the trace is not a run of the model ("" = it is).
func c03TraceFinal(ctx *vh.Ctx, evs []compose.VerifC03Event, needAll bool) (num int, lost []string, problem string, raw json.RawMessage, err error) {
	nodeOf := map[int]string{}
	for _, e := range evs {
		if e.K == "submit" {
			if e.T >= 0 {
				nodeOf[e.T] = e.Node
			}
			for i, id := range e.Rest {
				nodeOf[id] = e.Nodes[i]
			}
		}
	}
	raw, err = ctx.Oracle.Ask("C03", map[string]any{"kind": "tmtrace", "needAll": needAll, "events": evs})
	if err != nil {
		return 0, nil, "", nil, err
	}
	var ans struct {
		OK    bool   `json:"ok"`
		At    int    `json:"at"`
		Why   string `json:"why"`
		Final struct {
			Num int   `json:"num"`
			Got []int `json:"got"`
		} `json:"final"`
		Submitted []int `json:"submitted"`
	}
	if err := json.Unmarshal(raw, &ans); err != nil {
		return 0, nil, "", raw, fmt.Errorf("oracle trace answer: %v: %s", err, raw)
	}
	if !ans.OK {
		kind := "?"
		if ans.At < len(evs) {
			kind = evs[ans.At].K
		}
		return 0, nil, fmt.Sprintf("event %d (%s): %s", ans.At, kind, ans.Why), raw, nil
	}
	got := map[int]int{}
	for _, id := range ans.Final.Got {
		got[id]++
	}
	lost = []string{}
	for _, id := range ans.Submitted {
		if got[id] == 0 {
			lost = append(lost, nodeOf[id])
		} else {
			got[id]--
		}
	}
	for id, n := range got { // received more often than submitted
		for i := 0; i < n; i++ {
			lost = append(lost, "+"+nodeOf[id])
		}
	}
	sort.Strings(lost)
	return ans.Final.Num, lost, "", raw, nil
}

var c03iHangs int

func c03iTrigger(c *c03iCase) string {
	switch {
	case len(c.Before) > 0 && len(c.After) > 0:
		return "before+after"
	case len(c.Before) > 0:
		return "before"
	case len(c.After) > 0:
		return "after"
	}
	return "none"
}

func c03iOne(ctx *vh.Ctx, c *c03iCase) error {
	ctx.Progress.Mark(c)
	c.Eager = c.Mode == "workflow"
	raw, err := ctx.Oracle.Ask("C03", c)
	if err != nil {
		return err
	}
	var ref c03iRef
	if err := json.Unmarshal(raw, &ref); err != nil {
		return fmt.Errorf("oracle answer: %v: %s", err, raw)
	}
	obs := c03iImpl(c, &ref)

	// what the model says about the case: the most executions outstanding when an interrupt point is hit
	maxOut, interrupts := 0, 0
	for _, m := range ref.Invokes {
		if m.Out == "interrupt" {
			interrupts++
			if len(m.Drained) > maxOut {
				maxOut = len(m.Drained)
			}
			ctx.Res.Dist(fmt.Sprintf("intr:%s:outstanding-at-interrupt-point:%d", c.Mode, len(m.Drained)))
		}
	}
	nontrivial := interrupts > 0 && (c.Mode != "workflow" || maxOut >= 2)
	ctx.Res.Count(fmt.Sprintf("intr|%s|%v|%v|%v|%v|%v", c.Mode, c.Nodes, c.EndPreds, c.Before, c.After, c.Priority), nontrivial)
	ctx.Res.Dist("family:intr")
	ctx.Res.Dist("intr:mode:" + c.Mode)
	ctx.Res.Dist("intr:points:" + c03iTrigger(c))
	ctx.Res.Dist(fmt.Sprintf("intr:nodes:%d", len(c.Nodes)))
	ctx.Res.Dist(fmt.Sprintf("intr:invokes:%d", len(ref.Invokes)))
	ctx.Res.Dist("intr:class:" + obs.Class)
	if c.Mode == "workflow" && maxOut >= 2 {
		ctx.Res.Dist("intr:eager:interrupt-node-collected-with>=2-outstanding")
	}
	ctx.Res.Sample(c)
	ms := c.Mode + ":" + c03iTrigger(c)
	dis := func(sig, what string) {
		ctx.Res.Disagree(vh.Disagreement{Signature: sig, What: what, Case: c, Model: ref, Impl: obs})
	}
	if obs.Class == "build-error" {
		dis("C03:intr:build-error:"+c.Mode, "the generated graph does not compile: "+obs.Detail)
		return nil
	}
	hooks := compose.VerifC03TraceEnabled()
	if hooks {
		c03TraceSeen = true
	} else {
		ctx.Res.Dist("intr:trace:skipped-no-hooks")
	}
	for i, ro := range obs.Runs {
		var m *c03iRefInvoke
		if i < len(ref.Invokes) {
			m = &ref.Invokes[i]
		}
		switch ro.Class {
		case "hang":
			c03iHangs++
			ro.Trace = ro.events
			if ro.ScriptDone {
				dis("C03:intr:hang:"+ms, fmt.Sprintf("Invoke #%d did not return within %v although every body of the script had returned and been pushed to the hand-off", i+1, c03iHangGuard))
			} else {
				dis("C03:intr:hang:"+ms+":script-waiting", fmt.Sprintf("Invoke #%d did not return within %v; the completion script was still %s", i+1, c03iHangGuard, ro.Stage))
			}
			return nil
		case "panic-escaped":
			dis("C03:intr:panic-escaped:"+ms, fmt.Sprintf("Invoke #%d: a panic escaped: %s", i+1, ro.Detail))
			return nil
		case "error":
			dis("C03:intr:unexpected-error:"+ms, fmt.Sprintf("Invoke #%d failed with an error that is not an interrupt: %s", i+1, ro.Detail))
			return nil
		}
		// every started execution collected exactly once when the Invoke returns
		if hooks {
			byTM := map[int][]compose.VerifC03Event{}
			for _, e := range ro.events {
				byTM[e.TM] = append(byTM[e.TM], e)
			}
			if len(byTM) > 1 {
				dis("C03:intr:trace-shape:"+c.Mode, fmt.Sprintf("Invoke #%d: events of %d task managers, one expected", i+1, len(byTM)))
			}
			if evs := byTM[1]; len(evs) > 0 {
				num, lost, problem, traw, err := c03TraceFinal(ctx, evs, c.Mode != "workflow")
				if err != nil {
					return err
				}
				ctx.Res.Dist("intr:trace:replayed")
				ro.TraceNum, ro.TraceLost, ro.TraceProblem = num, lost, problem
				if problem != "" {
					ro.Trace = evs
					dis("C03:intr:trace-nonconformance:"+c.Mode, fmt.Sprintf("Invoke #%d: the real taskManager trace is not a run of the protocol model: %s (%s)", i+1, problem, traw))
				}
			} else {
				ro.TraceNum = 0
			}
		}
		if len(ro.Uncollected) > 0 || ro.TraceNum > 0 || len(ro.TraceLost) > 0 {
			ro.Trace = ro.events
			dis("C03:intr:uncollected-at-return:"+ms,
				fmt.Sprintf("Invoke #%d returned (%s before=%v after=%v) while started executions had not been collected: hook events: num=%d at the return, submitted and never received %v; bodies entered whose state post-handler never ran %v; still inside their body at the return %v",
					i+1, ro.Class, ro.Before, ro.After, ro.TraceNum, ro.TraceLost, ro.Uncollected, ro.Running))
			return nil
		}
		if len(ro.Running) > 0 {
			dis("C03:intr:running-after-return:"+ms, fmt.Sprintf("Invoke #%d returned while %v were still inside their body", i+1, ro.Running))
			return nil
		}
		if m == nil {
			dis("C03:intr:more-invokes-than-model:"+ms, fmt.Sprintf("Invoke #%d is beyond the model's sequence of %d Invokes", i+1, len(ref.Invokes)))
			return nil
		}
		if ro.Class != m.Out {
			dis("C03:intr:outcome-differs:"+ms, fmt.Sprintf("Invoke #%d ended with %s, the model with %s (before=%v after=%v)", i+1, ro.Class, m.Out, m.Before, m.After))
			return nil
		}
		if ro.Class == "interrupt" {
			if !vh.CanonEq(ro.Before, c03Sorted(append([]string{}, m.Before...))) || !vh.CanonEq(ro.After, c03Sorted(append([]string{}, m.After...))) || ro.OtherInfo != "" {
				dis("C03:intr:info-differs:"+ms, fmt.Sprintf("Invoke #%d: interrupt info before=%v after=%v %s, the model: before=%v after=%v", i+1, ro.Before, ro.After, ro.OtherInfo, m.Before, m.After))
			}
		}
		if !vh.CanonEq(ro.Started, c03Sorted(append([]string{}, m.Started...))) {
			dis("C03:intr:started-differs:"+ms, fmt.Sprintf("Invoke #%d started %v, the model %v", i+1, ro.Started, m.Started))
			return nil
		}
		if !vh.CanonEq(ro.Collected, c03Sorted(append([]string{}, m.Collected...))) {
			dis("C03:intr:collected-differs:"+ms, fmt.Sprintf("Invoke #%d collected %v, the model %v", i+1, ro.Collected, m.Collected))
			return nil
		}
	}
	switch obs.Class {
	case "no-progress":
		dis("C03:intr:no-progress:"+ms, obs.Detail)
		return nil
	case "stopped":
		return nil // reported above
	}
	if len(obs.Runs) != len(ref.Invokes) {
		dis("C03:intr:invoke-count-differs:"+ms, fmt.Sprintf("%d Invokes, the model needs %d", len(obs.Runs), len(ref.Invokes)))
		return nil
	}
	if !vh.CanonEq(obs.Result, ref.Result) {
		dis("C03:intr:result-differs-after-resume:"+ms, "the result after the last resume differs from the model's (= the uninterrupted order-free reference)")
	}
	for _, n := range c.Nodes {
		if obs.Execs[n.Key] != 1 {
			dis("C03:intr:executions-differ:"+ms, fmt.Sprintf("%s was executed %d times over all Invokes", n.Key, obs.Execs[n.Key]))
		}
		if obs.Collected[n.Key] != 1 {
			dis("C03:intr:collection-differs:"+ms, fmt.Sprintf("the state post-handler of %s ran %d times", n.Key, obs.Collected[n.Key]))
		}
	}
	return nil
}

// ---- generator ----

// layered graph: optional first node p0, a wide layer of 3-5 siblings, an optional second
// layer, a final join j (the only predecessor of END, so that END cannot become ready while an
// interrupt path drains)
func c03iGen(r *vh.Rand, mode string) *c03iCase {
	c := &c03iCase{Kind: "intr", Input: "x", Mode: mode}
	root := compose.START
	if r.Chance(30) {
		c.Nodes = append(c.Nodes, c03Node{Key: "p0", Preds: []string{compose.START}})
		root = "p0"
	}
	k := r.Range(3, 5)
	var l1, l2 []string
	for i := 0; i < k; i++ {
		key := fmt.Sprintf("a%d", i+1)
		l1 = append(l1, key)
		c.Nodes = append(c.Nodes, c03Node{Key: key, Preds: []string{root}})
	}
	hasSucc := map[string]bool{}
	if r.Chance(55) {
		for i, n := 0, r.Range(1, 3); i < n; i++ {
			key := fmt.Sprintf("b%d", i+1)
			var ps []string
			for _, p := range l1 {
				if r.Chance(40) {
					ps = append(ps, p)
				}
			}
			if len(ps) == 0 {
				ps = append(ps, l1[r.Intn(len(l1))])
			}
			for _, p := range ps {
				hasSucc[p] = true
			}
			l2 = append(l2, key)
			c.Nodes = append(c.Nodes, c03Node{Key: key, Preds: c03Sorted(ps)})
		}
		if mode == "pregel" { // strictly layered: every first-layer node feeds the second layer
			for _, p := range l1 {
				if !hasSucc[p] {
					i := len(c.Nodes) - 1 - r.Intn(len(l2))
					c.Nodes[i].Preds = c03Sorted(c03Uniq(append(c.Nodes[i].Preds, p)))
					hasSucc[p] = true
				}
			}
		}
	}
	var sinks []string
	for _, p := range append(append([]string{}, l1...), l2...) {
		if !hasSucc[p] {
			sinks = append(sinks, p)
		}
	}
	c.Nodes = append(c.Nodes, c03Node{Key: "j", Preds: c03Sorted(sinks)})
	c.EndPreds = []string{"j"}
	// interrupt points
	x := r.Intn(100)
	pickAfter := func() {
		n := 1
		if r.Chance(25) {
			n = 2
		}
		for _, i := range r.Perm(len(l1)) {
			if n > 0 {
				c.After = append(c.After, l1[i])
				n--
			}
		}
		if len(l2) > 0 && r.Chance(25) {
			c.After = append(c.After, l2[r.Intn(len(l2))])
		}
		if root == "p0" && r.Chance(15) {
			c.After = append(c.After, "p0")
		}
	}
	pickBefore := func() {
		switch {
		case len(l2) > 0 && r.Chance(70):
			c.Before = append(c.Before, l2[r.Intn(len(l2))])
		case r.Chance(60):
			c.Before = append(c.Before, "j")
		default:
			c.Before = append(c.Before, l1[r.Intn(len(l1))]) // hit when the layer becomes ready: nothing of it is started
		}
	}
	switch {
	case x < 50:
		pickAfter()
	case x < 75:
		pickBefore()
	default:
		pickAfter()
		pickBefore()
	}
	c.After, c.Before = c03Sorted(c03Uniq(c.After)), c03Sorted(c03Uniq(c.Before))
	if c.After == nil {
		c.After = []string{}
	}
	if c.Before == nil {
		c.Before = []string{}
	}
	for _, i := range r.Perm(len(c.Nodes)) {
		c.Priority = append(c.Priority, c.Nodes[i].Key)
	}
	return c
}

func c03iDirected() []*c03iCase {
	st := []string{compose.START}
	var out []*c03iCase
	three := func() []c03Node {
		return []c03Node{{"r", st}, {"x", st}, {"y", st}, {"j", []string{"r", "x", "y"}}}
	}
	four := func() []c03Node {
		return []c03Node{{"r", st}, {"x", st}, {"y", st}, {"z", st}, {"j", []string{"r", "x", "y", "z"}}}
	}
	// p -> q (interrupt before q) next to the siblings x, y; j joins q, x, y
	beforeShape := func() []c03Node {
		return []c03Node{{"p", st}, {"x", st}, {"y", st}, {"q", []string{"p"}}, {"j", []string{"q", "x", "y"}}}
	}
	for _, mode := range []string{"workflow", "dag", "pregel"} {
		for _, pr := range [][]string{{"r", "x", "y", "j"}, {"x", "r", "y", "j"}, {"x", "y", "r", "j"}} {
			out = append(out, &c03iCase{Kind: "intr", Input: "x", Mode: mode, Nodes: three(), EndPreds: []string{"j"}, Before: []string{}, After: []string{"r"}, Priority: pr,
				Note: fmt.Sprintf("interrupt after r; completion order %v", pr)})
		}
		out = append(out,
			&c03iCase{Kind: "intr", Input: "x", Mode: mode, Nodes: four(), EndPreds: []string{"j"}, Before: []string{}, After: []string{"r"}, Priority: []string{"r", "z", "y", "x", "j"},
				Note: "four siblings, interrupt after r, r first"},
			&c03iCase{Kind: "intr", Input: "x", Mode: mode, Nodes: four(), EndPreds: []string{"j"}, Before: []string{"j"}, After: []string{"r", "y"}, Priority: []string{"x", "r", "z", "y", "j"},
				Note: "two interrupt-after nodes, the second one collected by the interrupt path; interrupt before the join"})
		if mode != "pregel" {
			out = append(out,
				&c03iCase{Kind: "intr", Input: "x", Mode: mode, Nodes: beforeShape(), EndPreds: []string{"j"}, Before: []string{"q"}, After: []string{}, Priority: []string{"p", "x", "y", "q", "j"},
					Note: "interrupt before q: its predecessor p is collected while x and y are outstanding"},
				&c03iCase{Kind: "intr", Input: "x", Mode: mode, Nodes: beforeShape(), EndPreds: []string{"j"}, Before: []string{"q"}, After: []string{}, Priority: []string{"x", "y", "p", "q", "j"},
					Note: "control: p collected last"})
		}
		out = append(out, &c03iCase{Kind: "intr", Input: "x", Mode: mode, Nodes: three(), EndPreds: []string{"j"}, Before: []string{"x"}, After: []string{}, Priority: []string{"r", "x", "y", "j"},
			Note: "interrupt before a node computed from START: nothing is started in the first Invoke"})
	}
	return out
}

func c03iReplay(ctx *vh.Ctx, raw json.RawMessage) error {
	var c c03iCase
	if err := json.Unmarshal(raw, &c); err != nil {
		return err
	}
	return c03iOne(ctx, &c)
}

func c03iFamily(ctx *vh.Ctx) error {
	ctx.Res.Rule += " | family intr (kind=intr): distinct = (mode, graph, interrupt-before/after sets, priority); non-trivial = an interrupt point is hit and, in eager mode, at least two other executions are outstanding at that moment"
	deadline := ctx.Start.Add(ctx.Budget * 65 / 100)
	live := func() bool { return ctx.TimeLeft() && time.Now().Before(deadline) && c03iHangs < 2 }
	for _, c := range c03iDirected() {
		if !live() {
			break
		}
		if err := c03iOne(ctx, c); err != nil {
			return err
		}
	}
	n := ctx.N(150, 1200)
	modes := []string{"workflow", "workflow", "dag", "workflow", "pregel"}
	for i := 0; i < n && live(); i++ {
		if err := c03iOne(ctx, c03iGen(ctx.Rng, modes[i%len(modes)])); err != nil {
			return err
		}
	}
	if c03iHangs > 0 {
		ctx.Res.Note(fmt.Sprintf("family intr: %d hanging Invoke(s); the family stops after 2 (each costs the guard time of %v)", c03iHangs, c03iHangGuard))
	}
	return nil
}

// ======================================================================================
// family prefail
// ======================================================================================

type c03pCase struct {
	Kind    string `json:"kind"` // "prefail"
	Mode    string `json:"mode"` // pregel | dag | workflow
	NeedAll bool   `json:"needAll"`
	Prefix  bool   `json:"prefix"`            // a first node p0 in front of the step
	N       int    `json:"n"`                 // nodes of the step
	Fail    int    `json:"fail"`              // the Fail-th call of the step's state pre-handler fails (0: none)
	Sibling bool   `json:"sibling,omitempty"` // workflow with a first node: a slow node next to p0 is still running when the step is submitted
	Note    string `json:"note,omitempty"`
}

type c03pRef struct {
	Err     bool   `json:"err"`
	Started []int  `json:"started"`
	Num     int    `json:"num"`
	Coll    string `json:"coll"`
}

type c03pObs struct {
	Class         string         `json:"class"` // prehandler-error | ok | error | hang | panic-escaped | build-error
	Detail        string         `json:"detail,omitempty"`
	PreCalls      int            `json:"preCalls"`
	StepEntered   []string       `json:"stepEntered"`           // bodies of step nodes entered (after the goroutines have settled)
	StepFinished  []string       `json:"stepFinished"`          // `finish` hook events of step nodes (after every gate has been opened)
	LeakedBlocked int            `json:"leakedBlocked"`         // goroutines created by taskManager.submit, alive after the return, inside a node body
	LeakedOther   int            `json:"leakedOther"`           // ... alive and not inside a node body after the settle time
	SiblingLeft   bool           `json:"siblingLeft,omitempty"` // the slow sibling of an earlier step was still running, uncollected, when the run returned the error
	TraceNum      int            `json:"traceNum"`
	TraceLost     []string       `json:"traceLost,omitempty"`
	TraceProblem  string         `json:"traceProblem,omitempty"`
	Collected     map[string]int `json:"collected"`
	Result        [][]string     `json:"result,omitempty"`
	Trace         any            `json:"trace,omitempty"`
}

var c03pSiblingNoted bool

var errC03pPre = errors.New("verif-c03: the state pre-handler of this step fails")

type c03pRun struct {
	c        *c03pCase
	mu       sync.Mutex
	cond     *sync.Cond
	active   int
	preCalls int
	entered  map[string]int
	posts    map[string]int
	gate     chan struct{}
	gateOnce sync.Once
}

func (r *c03pRun) open() { r.gateOnce.Do(func() { close(r.gate) }) }

// c03pBody is the body of every node of the family (the goroutine accounting looks for this
// function name in the stacks)
func (r *c03pRun) c03pBody(key string, step bool, in map[string]any) (map[string]any, error) {
	r.mu.Lock()
	r.active++
	r.entered[key]++
	r.mu.Unlock()
	defer func() {
		r.mu.Lock()
		r.active--
		r.cond.Broadcast()
		r.mu.Unlock()
	}()
	if step && r.c.Fail > 0 {
		<-r.gate // a step that fails to be submitted must not run at all: stay visible until the accounting is done
	}
	return map[string]any{key: c03Render(key, in)}, nil
}

// c03pSibling is the body of the slow node "s" (a name of its own for the goroutine accounting)
func (r *c03pRun) c03pSibling(in map[string]any) (map[string]any, error) {
	r.mu.Lock()
	r.active++
	r.entered["s"]++
	r.mu.Unlock()
	defer func() {
		r.mu.Lock()
		r.active--
		r.cond.Broadcast()
		r.mu.Unlock()
	}()
	if r.c.Fail > 0 {
		<-r.gate
	}
	return map[string]any{"s": c03Render("s", in)}, nil
}

func (c *c03pCase) graph() (nodes []c03Node, step []string) {
	root := compose.START
	if c.Prefix {
		nodes = append(nodes, c03Node{Key: "p0", Preds: []string{compose.START}})
		root = "p0"
	}
	if c.Sibling {
		nodes = append(nodes, c03Node{Key: "s", Preds: []string{compose.START}})
	}
	for i := 0; i < c.N; i++ {
		k := fmt.Sprintf("a%d", i+1)
		step = append(step, k)
		nodes = append(nodes, c03Node{Key: k, Preds: []string{root}})
	}
	jp := append([]string{}, step...)
	if c.Sibling {
		jp = append(jp, "s")
	}
	nodes = append(nodes, c03Node{Key: "j", Preds: jp})
	return nodes, step
}

func c03pBuild(c *c03pCase, r *c03pRun) (c03rInvoker, error) {
	ctx := context.Background()
	gen := compose.WithGenLocalState(func(ctx context.Context) *c03rState { return &c03rState{} })
	nodes, step := c.graph()
	isStep := map[string]bool{}
	for _, k := range step {
		isStep[k] = true
	}
	optsOf := func(key string) []compose.GraphAddNodeOpt {
		o := []compose.GraphAddNodeOpt{compose.WithStatePostHandler(func(ctx context.Context, out c03rM, st *c03rState) (c03rM, error) {
			r.mu.Lock()
			r.posts[key]++
			r.mu.Unlock()
			return out, nil
		})}
		if isStep[key] {
			o = append(o, compose.WithStatePreHandler(func(ctx context.Context, in c03rM, st *c03rState) (c03rM, error) {
				r.mu.Lock()
				r.preCalls++
				n := r.preCalls
				r.mu.Unlock()
				if n == c.Fail {
					return nil, errC03pPre
				}
				return in, nil
			}))
		}
		return o
	}
	lambda := func(key string) *compose.Lambda {
		if key == "s" {
			return compose.InvokableLambda(func(ctx context.Context, in c03rM) (c03rM, error) { return r.c03pSibling(in) })
		}
		return compose.InvokableLambda(func(ctx context.Context, in c03rM) (c03rM, error) { return r.c03pBody(key, isStep[key], in) })
	}
	var run compose.Runnable[c03rM, c03rM]
	var err error
	if c.Mode == "workflow" {
		wf := compose.NewWorkflow[c03rM, c03rM](gen)
		for _, n := range nodes {
			wn := wf.AddLambdaNode(n.Key, lambda(n.Key), optsOf(n.Key)...)
			for _, p := range n.Preds {
				wn.AddInput(p, compose.MapFields(p, p))
			}
		}
		wf.End().AddInput("j", compose.MapFields("j", "j"))
		run, err = wf.Compile(ctx)
	} else {
		g := compose.NewGraph[c03rM, c03rM](gen)
		for _, n := range nodes {
			if err := g.AddLambdaNode(n.Key, lambda(n.Key), optsOf(n.Key)...); err != nil {
				return nil, err
			}
		}
		for _, n := range nodes {
			for _, p := range n.Preds {
				if err := g.AddEdge(p, n.Key); err != nil {
					return nil, err
				}
			}
		}
		if err := g.AddEdge("j", compose.END); err != nil {
			return nil, err
		}
		var opts []compose.GraphCompileOption
		if c.Mode == "dag" {
			opts = append(opts, compose.WithNodeTriggerMode(compose.AllPredecessor))
		}
		run, err = g.Compile(ctx, opts...)
	}
	if err != nil {
		return nil, err
	}
	return func(ctx context.Context) (map[string]any, error) { return run.Invoke(ctx, c03rM{compose.START: "x"}) }, nil
}

// the live goroutines created by (*taskManager).submit: header ("goroutine N") -> is it
// inside a node body of this family?  (A goroutine is listed from the `go` statement on,
// whether or not it has been scheduled yet.)  1 = inside c03pBody, 2 = inside c03pSibling, 0 = elsewhere.
func c03pSubmitGoroutines() map[string]int {
	buf := make([]byte, 1<<18)
	for {
		n := runtime.Stack(buf, true)
		if n < len(buf) {
			buf = buf[:n]
			break
		}
		buf = make([]byte, 2*len(buf))
	}
	out := map[string]int{}
	for _, g := range strings.Split(string(buf), "\n\n") {
		if strings.Contains(g, "created by github.com/cloudwego/eino/compose.(*taskManager).submit") {
			if i := strings.Index(g, " ["); i > 0 {
				switch {
				case strings.Contains(g, "c03pBody"):
					out[g[:i]] = 1
				case strings.Contains(g, "c03pSibling"):
					out[g[:i]] = 2
				default:
					out[g[:i]] = 0
				}
			}
		}
	}
	return out
}

func c03pImpl(c *c03pCase) (*c03pObs, []compose.VerifC03Event) {
	o := &c03pObs{StepEntered: []string{}, StepFinished: []string{}, Collected: map[string]int{}, TraceNum: -1}
	r := &c03pRun{c: c, entered: map[string]int{}, posts: map[string]int{}, gate: make(chan struct{})}
	r.cond = sync.NewCond(&r.mu)
	var inv c03rInvoker
	var berr error
	if p, pv := vh.Safely(func() { inv, berr = c03pBuild(c, r) }); p {
		o.Class, o.Detail = "build-error", fmt.Sprint("panic: ", pv)
		return o, nil
	}
	if berr != nil {
		o.Class, o.Detail = "build-error", berr.Error()
		return o, nil
	}
	_, step := c.graph()
	compose.VerifC03Reset(0, false)
	before := c03pSubmitGoroutines()
	var res map[string]any
	var rerr error
	finished := false
	var atReturn []compose.VerifC03Event
	panicked, pv := vh.Safely(func() {
		finished = vh.WithTimeout(c03iHangGuard, func() {
			res, rerr = inv(context.Background())
			atReturn = compose.VerifC03Events()
		})
	})
	if finished && !panicked {
		// goroutine accounting: executor goroutines of collected tasks are on their way out
		// (they have unlocked the mutex and return); a goroutine started for a task that was
		// never collected enters its body and stays there (the gate is closed)
		settle := time.Now().Add(10 * time.Second)
		for i := 0; ; i++ {
			o.LeakedBlocked, o.LeakedOther, o.SiblingLeft = 0, 0, false
			for id, where := range c03pSubmitGoroutines() {
				if _, old := before[id]; old {
					continue
				}
				switch where {
				case 1:
					o.LeakedBlocked++
				case 2:
					o.SiblingLeft = true
				default:
					o.LeakedOther++
				}
			}
			if o.LeakedOther == 0 || time.Now().After(settle) {
				break
			}
			if i < 100 {
				runtime.Gosched()
			} else {
				time.Sleep(500 * time.Microsecond) // polling the goroutine table of the runtime, not a synchronisation by delay
			}
		}
		r.mu.Lock()
		o.PreCalls = r.preCalls
		for _, k := range step {
			for i := 0; i < r.entered[k]; i++ {
				o.StepEntered = append(o.StepEntered, k)
			}
		}
		r.mu.Unlock()
	}
	r.open()
	done := make(chan struct{})
	go func() {
		r.mu.Lock()
		for r.active > 0 {
			r.cond.Wait()
		}
		r.mu.Unlock()
		close(done)
	}()
	select {
	case <-done:
	case <-time.After(10 * time.Second):
	}
	if finished && !panicked && o.LeakedBlocked > 0 {
		// the abandoned executions push their completion to a hand-off nobody reads
		r.mu.Lock()
		var ran []string
		for _, k := range step {
			if r.entered[k] > 0 {
				ran = append(ran, k)
			}
		}
		r.mu.Unlock()
		for _, k := range ran {
			c03WaitPushedOrGone(k)
		}
	}
	isStep := map[string]bool{}
	for _, k := range step {
		isStep[k] = true
	}
	if c.Fail > 0 {
		for _, e := range compose.VerifC03Events() {
			if e.K == "finish" && isStep[e.Node] {
				o.StepFinished = append(o.StepFinished, e.Node)
			}
		}
		sort.Strings(o.StepFinished)
	}
	r.mu.Lock()
	for k, v := range r.posts {
		o.Collected[k] = v
	}
	r.mu.Unlock()
	switch {
	case panicked:
		o.Class, o.Detail = "panic-escaped", fmt.Sprint(pv)
	case !finished:
		o.Class = "hang"
	case rerr == nil:
		o.Class, o.Result = "ok", c03Pairs(res)
	case errors.Is(rerr, errC03pPre) || strings.Contains(rerr.Error(), errC03pPre.Error()):
		o.Class = "prehandler-error"
	default:
		o.Class, o.Detail = "error", rerr.Error()
	}
	return o, atReturn
}

// bounded wait for the `finish` event of an abandoned execution (its body has returned)
func c03WaitPushedOrGone(key string) {
	stop := make(chan struct{})
	t := time.AfterFunc(2*time.Second, func() { close(stop) })
	defer t.Stop()
	c03WaitPushed(key, stop)
}

func c03pOne(ctx *vh.Ctx, c *c03pCase) error {
	ctx.Progress.Mark(c)
	c.NeedAll = c.Mode != "workflow"
	ctx.Res.Count(fmt.Sprintf("prefail|%s|%v|%v|%d|%d", c.Mode, c.Prefix, c.Sibling, c.N, c.Fail), c.Fail >= 2)
	ctx.Res.Dist("family:prefail")
	ctx.Res.Dist("prefail:mode:" + c.Mode)
	ctx.Res.Dist(fmt.Sprintf("prefail:step-nodes:%d", c.N))
	ctx.Res.Dist(fmt.Sprintf("prefail:failing-call:%d", c.Fail))
	ctx.Res.Dist(fmt.Sprintf("prefail:prefix:%v", c.Prefix))
	if c.Sibling {
		ctx.Res.Dist("prefail:eager:earlier-sibling-in-flight")
	}
	ctx.Res.Sample(c)
	nodes, step := c.graph()
	var model any
	wantErr := false
	if c.Fail > 0 {
		raw, err := ctx.Oracle.Ask("C03", c)
		if err != nil {
			return err
		}
		var ref c03pRef
		if err := json.Unmarshal(raw, &ref); err != nil {
			return fmt.Errorf("oracle answer: %v: %s", err, raw)
		}
		if !ref.Err || len(ref.Started) != 0 || ref.Num != 0 {
			return fmt.Errorf("harness: the model (Expected facts) starts %v / num=%d / err=%v on a failing submit", ref.Started, ref.Num, ref.Err)
		}
		model, wantErr = ref, true
	}
	obs, events := c03pImpl(c)
	ctx.Res.Dist("prefail:class:" + obs.Class)
	dis := func(sig, what string) {
		ctx.Res.Disagree(vh.Disagreement{Signature: sig, What: what, Case: c, Model: model, Impl: obs})
	}
	switch obs.Class {
	case "build-error":
		dis("C03:prefail:build-error:"+c.Mode, "the generated graph does not compile: "+obs.Detail)
		return nil
	case "hang":
		dis("C03:prefail:hang:"+c.Mode, fmt.Sprintf("Invoke did not return within %v", c03iHangGuard))
		return nil
	case "panic-escaped":
		dis("C03:prefail:panic-escaped:"+c.Mode, "a panic escaped Invoke: "+obs.Detail)
		return nil
	case "error":
		dis("C03:prefail:unexpected-error:"+c.Mode, "Invoke failed with another error than the pre-handler's: "+obs.Detail)
		return nil
	}
	if wantErr != (obs.Class == "prehandler-error") {
		dis("C03:prefail:outcome-differs:"+c.Mode, fmt.Sprintf("Invoke ended with %s; the %d-th pre-handler call of the step fails, the model returns err=%v", obs.Class, c.Fail, wantErr))
		return nil
	}
	// the protocol trace up to the return
	if compose.VerifC03TraceEnabled() {
		c03TraceSeen = true
		var evs []compose.VerifC03Event
		for _, e := range events {
			if e.TM == 1 {
				evs = append(evs, e)
			}
		}
		obs.TraceNum = 0
		if len(evs) > 0 {
			num, lost, problem, traw, err := c03TraceFinal(ctx, evs, c.NeedAll)
			if err != nil {
				return err
			}
			ctx.Res.Dist("prefail:trace:replayed")
			obs.TraceNum, obs.TraceLost, obs.TraceProblem = num, lost, problem
			if problem != "" {
				obs.Trace = evs
				dis("C03:prefail:trace-nonconformance:"+c.Mode, fmt.Sprintf("the real taskManager trace is not a run of the protocol model: %s (%s)", problem, traw))
			}
		}
	} else {
		ctx.Res.Dist("prefail:trace:skipped-no-hooks")
	}
	if !wantErr {
		// control: nothing fails, the run completes
		want := [][]string{{"j", c03pExpected(nodes)}}
		if !vh.CanonEq(obs.Result, want) {
			dis("C03:prefail:result-differs:"+c.Mode, fmt.Sprintf("control without failing pre-handler: result %v, expected %v", obs.Result, want))
		}
		if obs.TraceNum > 0 || len(obs.TraceLost) > 0 || obs.LeakedBlocked+obs.LeakedOther > 0 {
			dis("C03:prefail:uncollected-at-return:"+c.Mode, fmt.Sprintf("control without failing pre-handler: num=%d, never received %v, %d goroutine(s) of submit alive", obs.TraceNum, obs.TraceLost, obs.LeakedBlocked+obs.LeakedOther))
		}
		return nil
	}
	if obs.SiblingLeft {
		// outside this family's clause (the executions of the FAILED step): an eager run that returns
		// an error does not collect what earlier steps left in flight
		ctx.Res.Dist("prefail:eager:earlier-sibling-abandoned-on-error-return")
		if !c03pSiblingNoted {
			c03pSiblingNoted = true
			ctx.Res.Note("observation (eager Workflow, not part of the prefail clause): when submit fails while a node of an EARLIER step is still running, the run returns the error at once; that execution is never collected (same class as the known finding: eager runs return without their stragglers)")
		}
	}
	if obs.PreCalls != c.Fail {
		dis("C03:prefail:prehandler-calls-differ:"+c.Mode, fmt.Sprintf("%d pre-handler calls of the step, the %d-th one fails and must be the last", obs.PreCalls, c.Fail))
	}
	// (the `submit` hook event is no evidence of a start: it is logged at the inline decision,
	// wherever the pre-processors run; what counts are goroutines, entered bodies, `finish` events)
	if len(obs.StepEntered) > 0 || len(obs.StepFinished) > 0 || obs.LeakedBlocked+obs.LeakedOther > 0 {
		obs.Trace = events
		dis("C03:prefail:step-started:"+c.Mode,
			fmt.Sprintf("submit returned the error of the %d-th pre-handler of a step of %d nodes and the run returned it, but executions of that step had been started and are never collected: %d goroutine(s) created by taskManager.submit alive after the return (%d inside a node body), bodies entered %v, finish events on a hand-off nobody reads %v (the model starts none: submit_fail_starts_nothing)",
				c.Fail, c.N, obs.LeakedBlocked+obs.LeakedOther, obs.LeakedBlocked, obs.StepEntered, obs.StepFinished))
	} else if c.Prefix && !c.Sibling && (obs.TraceNum > 0 || len(obs.TraceLost) > 0) && len(traceHasStepSubmit(events, step)) == 0 {
		dis("C03:prefail:uncollected-before-step:"+c.Mode, fmt.Sprintf("the executions before the failing step were not all collected: num=%d, never received %v", obs.TraceNum, obs.TraceLost))
	}
	for _, k := range step {
		if obs.Collected[k] != 0 {
			dis("C03:prefail:step-collected:"+c.Mode, fmt.Sprintf("the state post-handler of %s ran although the step was never submitted", k))
		}
	}
	return nil
}

// the submit events that name a node of the step
func traceHasStepSubmit(evs []compose.VerifC03Event, step []string) []int {
	var out []int
	for i, e := range evs {
		if e.K != "submit" {
			continue
		}
		for _, k := range append([]string{e.Node}, e.Nodes...) {
			if c03Has(step, k) {
				out = append(out, i)
				break
			}
		}
	}
	return out
}

func c03pExpected(nodes []c03Node) string {
	val := map[string]string{compose.START: "x"}
	for _, n := range nodes {
		var parts []string
		for _, p := range c03Sorted(append([]string{}, n.Preds...)) {
			parts = append(parts, p+"="+val[p])
		}
		val[n.Key] = n.Key + "(" + strings.Join(parts, ",") + ")"
	}
	return val["j"]
}

func c03pReplay(ctx *vh.Ctx, raw json.RawMessage) error {
	var c c03pCase
	if err := json.Unmarshal(raw, &c); err != nil {
		return err
	}
	return c03pOne(ctx, &c)
}

func c03pFamily(ctx *vh.Ctx) error {
	ctx.Res.Rule += " | family prefail (kind=prefail): distinct = (mode, first node, step size, failing call); non-trivial = the failing pre-handler call is not the first of the step"
	deadline := ctx.Start.Add(ctx.Budget * 75 / 100)
	reps := ctx.N(2, 8) // which task is processed k-th is decided by Go map order: repeat
	for rep := 0; rep < reps; rep++ {
		for _, mode := range []string{"pregel", "dag", "workflow"} {
			for _, prefix := range []bool{false, true} {
				for n := 2; n <= 4; n++ {
					for fail := 0; fail <= n; fail++ {
						if rep > 0 && fail < 2 {
							continue
						}
						if !ctx.TimeLeft() || time.Now().After(deadline) {
							return nil
						}
						if err := c03pOne(ctx, &c03pCase{Kind: "prefail", Mode: mode, Prefix: prefix, N: n, Fail: fail}); err != nil {
							return err
						}
						if mode == "workflow" && prefix && (fail == 0 || fail >= 2) {
							if err := c03pOne(ctx, &c03pCase{Kind: "prefail", Mode: mode, Prefix: true, Sibling: true, N: n, Fail: fail}); err != nil {
								return err
							}
						}
					}
				}
			}
		}
	}
	return nil
}
