//go:build verif && (vh_all || vh_c04)

package props

// C04, family "fmap": map[string]any chunks through a Workflow edge with FIELD MAPPINGS.
//
// A source (a lambda node natively implementing a random subset of the four paradigms, or START,
// whose stream the caller of Collect / Transform splits) hands over a map[string]any in chunks that
// do not all carry every mapped key ({"a":…} then {"b":…}), split string values, carry unmapped keys,
// an untyped nil or a value of another type. The sink (a lambda node, or END) takes fields of one
// or two sources into a map[string]string / struct / map[string][]string (source field type `any`,
// concrete target type: a run-time checker is installed) or a map[string]any (no checker).
// The same compiled Workflow is called through Invoke (on the concatenated input), Stream, Collect
// and Transform; the sink's input (concatenated key by key) must be the same in all four and the
// one the model (Model/C04FMap.lean) computes — a refused value is a failure in every paradigm.

import (
	"context"
	"encoding/json"
	"fmt"
	"io"
	"sort"
	"strings"

	"github.com/cloudwego/eino/compose"
	"github.com/cloudwego/eino/schema"
	"github.com/cloudwego/eino/verifharness/vh"
)

type c04FmMap struct {
	Src string `json:"src"`
	Dst string `json:"dst"`
}

type c04FmSource struct {
	Key    string        `json:"key"`    // "start" | "p0" | "p1"
	Native string        `json:"native"` // native paradigms of a producer node
	Chunks [][][2]string `json:"chunks"` // per chunk: [key, "good:<text>" | "nil" | "wrong"] sorted by key
	Maps   []c04FmMap    `json:"maps"`
}

type c04FmCase struct {
	Kind     string        `json:"kind"`     // "fmap"
	Target   string        `json:"target"`   // mapstr | struct | mapslice | mapany
	Sink     string        `json:"sink"`     // node | end
	Consumer string        `json:"consumer"` // native paradigms of the sink node
	Sources  []c04FmSource `json:"sources"`
}

// the struct target; its chunks are concatenated field by field (registered below, as a user of a
// struct-typed streaming node input has to)
type c04FmStruct struct{ A, B, C, D string }

func init() {
	compose.RegisterStreamChunkConcatFunc(func(items []c04FmStruct) (c04FmStruct, error) {
		var r c04FmStruct
		for _, it := range items {
			r.A += it.A
			r.B += it.B
			r.C += it.C
			r.D += it.D
		}
		return r, nil
	})
}

// ---------- values ----------

func c04FmVal(spec, target string) any {
	switch {
	case spec == "nil":
		return nil
	case spec == "wrong":
		return 7
	}
	s := strings.TrimPrefix(spec, "good:")
	if target == "mapslice" {
		return []string{s}
	}
	return s
}

func c04FmSpec(v any) string {
	switch x := v.(type) {
	case nil:
		return "nil"
	case string:
		return "good:" + x
	case []string:
		if x == nil {
			return "nil"
		}
		return "good:" + strings.Join(x, "|")
	}
	return "wrong"
}

func c04FmChunkMaps(s *c04FmSource, target string) []map[string]any {
	var out []map[string]any
	for _, c := range s.Chunks {
		m := map[string]any{}
		for _, kv := range c {
			m[kv[0]] = c04FmVal(kv[1], target)
		}
		out = append(out, m)
	}
	return out
}

// c04FmConcatAny concatenates map[string]any chunks key by key as a producer-side reference: nil
// values carry nothing, a single value is itself, strings are joined; anything else does not concatenate.
func c04FmConcatAny(cs []map[string]any) (map[string]any, error) {
	if len(cs) == 1 {
		return cs[0], nil
	}
	vals := map[string][]any{}
	seen := map[string]bool{}
	for _, c := range cs {
		for k, v := range c {
			seen[k] = true
			if v != nil {
				vals[k] = append(vals[k], v)
			}
		}
	}
	out := map[string]any{}
	for k := range seen {
		vs := vals[k]
		switch {
		case len(vs) == 0:
			out[k] = nil
		case len(vs) == 1:
			out[k] = vs[0]
		default:
			var sb strings.Builder
			for _, v := range vs {
				s, ok := v.(string)
				if !ok {
					return nil, fmt.Errorf("harness: key %s does not concatenate", k)
				}
				sb.WriteString(s)
			}
			out[k] = sb.String()
		}
	}
	return out, nil
}

func c04FmCopy(m map[string]any) map[string]any {
	out := make(map[string]any, len(m))
	for k, v := range m {
		out[k] = v
	}
	return out
}

// ---------- target types ----------

// c04FmTarget: how the harness reads a sink input of type T: as {dst: spec} (absent keys left out),
// after concatenating chunks key by key.
type c04FmTarget[T any] struct {
	canon  func(T) map[string]string
	concat func([]T) (T, error)
}

func c04FmJoinSpecs(per []map[string]string) (map[string]string, error) {
	out := map[string]string{}
	for _, m := range per {
		for k, s := range m {
			old, had := out[k]
			switch {
			case !had || old == "nil":
				out[k] = s
			case s == "nil":
			case strings.HasPrefix(old, "good:") && strings.HasPrefix(s, "good:"):
				out[k] = old + strings.TrimPrefix(s, "good:")
			default:
				return nil, fmt.Errorf("harness: target %s does not concatenate (%s, %s)", k, old, s)
			}
		}
	}
	return out, nil
}

func c04FmTargetOf[T any](canon func(T) map[string]string, back func(map[string]string) T) c04FmTarget[T] {
	return c04FmTarget[T]{canon: canon, concat: func(cs []T) (T, error) {
		var per []map[string]string
		for _, c := range cs {
			per = append(per, canon(c))
		}
		m, err := c04FmJoinSpecs(per)
		if err != nil {
			var z T
			return z, err
		}
		return back(m), nil
	}}
}

var c04FmMapStr = c04FmTargetOf(func(m map[string]string) map[string]string {
	out := map[string]string{}
	for k, v := range m {
		out[k] = "good:" + v
	}
	return out
}, func(m map[string]string) map[string]string {
	out := map[string]string{}
	for k, v := range m {
		out[k] = strings.TrimPrefix(v, "good:")
	}
	return out
})

var c04FmMapAny = c04FmTargetOf(func(m map[string]any) map[string]string {
	out := map[string]string{}
	for k, v := range m {
		out[k] = c04FmSpec(v)
	}
	return out
}, func(m map[string]string) map[string]any {
	out := map[string]any{}
	for k, v := range m {
		out[k] = c04FmVal(v, "mapany")
	}
	return out
})

var c04FmMapSlice = c04FmTargetOf(func(m map[string][]string) map[string]string {
	out := map[string]string{}
	for k, v := range m {
		out[k] = c04FmSpec(v)
	}
	return out
}, func(m map[string]string) map[string][]string {
	out := map[string][]string{}
	for k, v := range m {
		if v == "nil" {
			out[k] = nil
		} else {
			out[k] = strings.Split(strings.TrimPrefix(v, "good:"), "|")
		}
	}
	return out
})

var c04FmStructT = c04FmTargetOf(func(s c04FmStruct) map[string]string {
	return map[string]string{"A": "good:" + s.A, "B": "good:" + s.B, "C": "good:" + s.C, "D": "good:" + s.D}
}, func(m map[string]string) c04FmStruct {
	f := func(k string) string { return strings.TrimPrefix(m[k], "good:") }
	return c04FmStruct{A: f("A"), B: f("B"), C: f("C"), D: f("D")}
})

func c04FmRender(m map[string]string) string {
	ks := make([]string, 0, len(m))
	for k := range m {
		ks = append(ks, k)
	}
	sort.Strings(ks)
	var sb strings.Builder
	for _, k := range ks {
		sb.WriteString(k + "=" + m[k] + ";")
	}
	return sb.String()
}

func c04FmParse(s string) map[string]string {
	out := map[string]string{}
	for _, kv := range strings.Split(s, ";") {
		if i := strings.Index(kv, "="); i > 0 {
			out[kv[:i]] = kv[i+1:]
		}
	}
	return out
}

// ---------- lambdas with exactly the chosen native forms ----------

type c04FmOpt struct{}

type c04FmM = map[string]any

func c04FmReadAll[I any](in *schema.StreamReader[I]) ([]I, error) {
	defer in.Close()
	var cs []I
	for {
		c, err := in.Recv()
		if err == io.EOF {
			return cs, nil
		}
		if err != nil {
			return nil, err
		}
		cs = append(cs, c)
	}
}

// c04FmLambda: whole computes the output from the input chunks (one chunk in the non-streaming forms),
// split cuts an output into the chunks of the natively streaming forms.
func c04FmLambda[I, O any](native string, whole func([]I) (O, error), split func(O) []O) *compose.Lambda {
	if native == "" {
		native = "i"
	}
	var fi compose.Invoke[I, O, c04FmOpt]
	var fs compose.Stream[I, O, c04FmOpt]
	var fc compose.Collect[I, O, c04FmOpt]
	var ft compose.Transform[I, O, c04FmOpt]
	if strings.Contains(native, "i") {
		fi = func(ctx context.Context, in I, _ ...c04FmOpt) (O, error) { return whole([]I{in}) }
	}
	if strings.Contains(native, "s") {
		fs = func(ctx context.Context, in I, _ ...c04FmOpt) (*schema.StreamReader[O], error) {
			o, err := whole([]I{in})
			if err != nil {
				return nil, err
			}
			return schema.StreamReaderFromArray(split(o)), nil
		}
	}
	if strings.Contains(native, "c") {
		fc = func(ctx context.Context, in *schema.StreamReader[I], _ ...c04FmOpt) (O, error) {
			cs, err := c04FmReadAll(in)
			if err != nil {
				var z O
				return z, err
			}
			return whole(cs)
		}
	}
	if strings.Contains(native, "t") {
		ft = func(ctx context.Context, in *schema.StreamReader[I], _ ...c04FmOpt) (*schema.StreamReader[O], error) {
			cs, err := c04FmReadAll(in)
			if err != nil {
				return nil, err
			}
			o, err := whole(cs)
			if err != nil {
				return nil, err
			}
			return schema.StreamReaderFromArray(split(o)), nil
		}
	}
	l, err := compose.AnyLambda(fi, fs, fc, ft)
	if err != nil {
		panic(err)
	}
	return l
}

// ---------- build and run ----------

type c04FmOut struct {
	Class string            `json:"class"` // ok | err | panic-escaped | hang
	Val   map[string]string `json:"val,omitempty"`
	Info  string            `json:"info,omitempty"`
}

func c04FmStartSource(c *c04FmCase) *c04FmSource {
	for i := range c.Sources {
		if c.Sources[i].Key == "start" {
			return &c.Sources[i]
		}
	}
	return nil
}

func c04FmMappings(s *c04FmSource) []*compose.FieldMapping {
	var out []*compose.FieldMapping
	for _, m := range s.Maps {
		out = append(out, compose.MapFields(m.Src, m.Dst))
	}
	return out
}

// c04FmRunT builds the Workflow for sink input type T and calls it through the four paradigms.
func c04FmRunT[T any](c *c04FmCase, tk c04FmTarget[T]) (map[string]c04FmOut, error) {
	// input of the workflow
	inChunks := []c04FmM{{"in": "x"}}
	if s := c04FmStartSource(c); s != nil {
		inChunks = c04FmChunkMaps(s, c.Target)
	}
	inWhole, err := c04FmConcatAny(inChunks)
	if err != nil {
		return nil, err
	}
	addSources := func(addNode func(key string, l *compose.Lambda), sinkInput func(from string, ms []*compose.FieldMapping)) error {
		for i := range c.Sources {
			s := &c.Sources[i]
			if s.Key != "start" {
				chunks := c04FmChunkMaps(s, c.Target)
				whole, err := c04FmConcatAny(chunks)
				if err != nil {
					return err
				}
				l := c04FmLambda[c04FmM, c04FmM](s.Native, func([]c04FmM) (c04FmM, error) { return c04FmCopy(whole), nil },
					func(c04FmM) []c04FmM {
						out := make([]c04FmM, len(chunks))
						for i, ch := range chunks {
							out[i] = c04FmCopy(ch)
						}
						return out
					})
				addNode(s.Key, l)
			}
			from := s.Key
			if from == "start" {
				from = compose.START
			}
			sinkInput(from, c04FmMappings(s))
		}
		return nil
	}
	out := map[string]c04FmOut{}
	record := func(p string, status string, pv any, val map[string]string, rerr error) {
		switch {
		case status == "hang":
			out[p] = c04FmOut{Class: "hang"}
		case status == "panic":
			out[p] = c04FmOut{Class: "panic-escaped", Info: fmt.Sprint(pv)}
		case rerr != nil:
			info := rerr.Error()
			if len(info) > 300 {
				info = info[:300]
			}
			out[p] = c04FmOut{Class: "err", Info: info}
		default:
			out[p] = c04FmOut{Class: "ok", Val: val}
		}
	}
	ctx := context.Background()
	if c.Sink == "end" {
		wf := compose.NewWorkflow[c04FmM, T]()
		var end *compose.WorkflowNode
		err := addSources(func(key string, l *compose.Lambda) { wf.AddLambdaNode(key, l).AddInput(compose.START) },
			func(from string, ms []*compose.FieldMapping) {
				if end == nil {
					end = wf.End()
				}
				end.AddInput(from, ms...)
			})
		if err != nil {
			return nil, err
		}
		r, err := wf.Compile(ctx)
		if err != nil {
			return nil, fmt.Errorf("compile: %w", err)
		}
		for _, p := range []string{"invoke", "stream", "collect", "transform"} {
			var val map[string]string
			var rerr error
			status, pv := c04KeyGuard(func() {
				var v T
				var sr *schema.StreamReader[T]
				switch p {
				case "invoke":
					v, rerr = r.Invoke(ctx, c04FmCopy(inWhole))
				case "collect":
					v, rerr = r.Collect(ctx, schema.StreamReaderFromArray(c04FmCopies(inChunks)))
				case "stream":
					sr, rerr = r.Stream(ctx, c04FmCopy(inWhole))
				default:
					sr, rerr = r.Transform(ctx, schema.StreamReaderFromArray(c04FmCopies(inChunks)))
				}
				if rerr == nil && sr != nil {
					var cs []T
					if cs, rerr = c04FmReadAll(sr); rerr == nil {
						if len(cs) == 0 {
							rerr = fmt.Errorf("harness: empty output stream")
						} else {
							v, rerr = tk.concat(cs)
						}
					}
				}
				if rerr == nil {
					val = tk.canon(v)
				}
			})
			record(p, status, pv, val, rerr)
		}
		return out, nil
	}
	wf := compose.NewWorkflow[c04FmM, string]()
	sink := wf.AddLambdaNode("c", c04FmLambda[T, string](c.Consumer, func(cs []T) (string, error) {
		v := cs[0]
		if len(cs) != 1 {
			var err error
			if len(cs) == 0 {
				return "", fmt.Errorf("harness: empty input stream")
			}
			if v, err = tk.concat(cs); err != nil {
				return "", err
			}
		}
		return c04FmRender(tk.canon(v)), nil
	}, func(s string) []string { return []string{s[:len(s)/2], s[len(s)/2:]} }))
	if err := addSources(func(key string, l *compose.Lambda) { wf.AddLambdaNode(key, l).AddInput(compose.START) },
		func(from string, ms []*compose.FieldMapping) { sink.AddInput(from, ms...) }); err != nil {
		return nil, err
	}
	wf.End().AddInput("c")
	r, err := wf.Compile(ctx)
	if err != nil {
		return nil, fmt.Errorf("compile: %w", err)
	}
	for _, p := range []string{"invoke", "stream", "collect", "transform"} {
		var val map[string]string
		var rerr error
		status, pv := c04KeyGuard(func() {
			var v string
			var sr *schema.StreamReader[string]
			switch p {
			case "invoke":
				v, rerr = r.Invoke(ctx, c04FmCopy(inWhole))
			case "collect":
				v, rerr = r.Collect(ctx, schema.StreamReaderFromArray(c04FmCopies(inChunks)))
			case "stream":
				sr, rerr = r.Stream(ctx, c04FmCopy(inWhole))
			default:
				sr, rerr = r.Transform(ctx, schema.StreamReaderFromArray(c04FmCopies(inChunks)))
			}
			if rerr == nil && sr != nil {
				var cs []string
				if cs, rerr = c04FmReadAll(sr); rerr == nil {
					v = strings.Join(cs, "")
				}
			}
			if rerr == nil {
				val = c04FmParse(v)
			}
		})
		record(p, status, pv, val, rerr)
	}
	return out, nil
}

func c04FmCopies(cs []map[string]any) []map[string]any {
	out := make([]map[string]any, len(cs))
	for i, c := range cs {
		out[i] = c04FmCopy(c)
	}
	return out
}

func c04FmRun(c *c04FmCase) (out map[string]c04FmOut, err error) {
	if panicked, pv := vh.Safely(func() {
		switch c.Target {
		case "mapstr":
			out, err = c04FmRunT(c, c04FmMapStr)
		case "struct":
			out, err = c04FmRunT(c, c04FmStructT)
		case "mapslice":
			out, err = c04FmRunT(c, c04FmMapSlice)
		case "mapany":
			out, err = c04FmRunT(c, c04FmMapAny)
		default:
			err = fmt.Errorf("unknown target %q", c.Target)
		}
	}); panicked {
		return nil, fmt.Errorf("build panicked: %v", pv)
	}
	return
}

// ---------- comparison ----------

// c04FmShape: what about the chunking matters — some chunk lacks a mapped key its source carries
// elsewhere (keys-split), a mapped string arrives in pieces, nil / wrong values under mapped keys,
// a mapped key no chunk carries.
func c04FmShape(c *c04FmCase) (shape string, neverCarried bool) {
	split, pieces, hasNil, hasWrong, nilBeside := false, false, false, false, false
	for _, s := range c.Sources {
		for _, m := range s.Maps {
			n, nils, goods := 0, 0, 0
			for _, ch := range s.Chunks {
				found := false
				for _, kv := range ch {
					if kv[0] == m.Src {
						found = true
						hasNil = hasNil || kv[1] == "nil"
						hasWrong = hasWrong || kv[1] == "wrong"
						if kv[1] == "nil" {
							nils++
						} else if strings.HasPrefix(kv[1], "good:") {
							goods++
						}
					}
				}
				if found {
					n++
				}
			}
			nilBeside = nilBeside || (nils > 0 && goods > 0)
			switch {
			case n == 0:
				neverCarried = true
			case n < len(s.Chunks):
				split = true
			}
			if n > 1 {
				pieces = true
			}
		}
	}
	var parts []string
	if split {
		parts = append(parts, "keys-split")
	} else {
		parts = append(parts, "keys-together")
	}
	if pieces {
		parts = append(parts, "pieces")
	}
	if hasNil {
		parts = append(parts, "nil")
	}
	if hasWrong {
		parts = append(parts, "wrong")
	}
	if nilBeside {
		parts = append(parts, "nil-beside-value")
	}
	if neverCarried {
		parts = append(parts, "never-carried")
	}
	return strings.Join(parts, "+"), neverCarried
}

type c04FmModelRes struct {
	Ok  map[string]string `json:"ok"`
	Err *string           `json:"err"`
}

func c04FmSameVal(model, impl map[string]string, target string) bool {
	norm := func(m map[string]string) map[string]string {
		out := map[string]string{}
		for k, v := range m {
			if v == "absent" {
				continue
			}
			out[k] = v
		}
		return out
	}
	a, b := norm(model), norm(impl)
	if target == "struct" {
		// a struct has every field: an absent target is the empty string; fields nobody maps are ""
		for _, k := range []string{"A", "B", "C", "D"} {
			if _, ok := a[k]; !ok {
				a[k] = "good:"
			}
		}
	}
	return vh.Canon(a) == vh.Canon(b)
}

func c04FmOne(ctx *vh.Ctx, c *c04FmCase) error {
	ctx.Progress.Mark(c)
	impl, err := c04FmRun(c)
	if err != nil {
		ctx.Res.Dist("fmap:malformed:" + strings.SplitN(err.Error(), ":", 2)[0])
		ctx.Res.Count("fmap:malformed", false)
		return nil
	}
	raw, err := ctx.Oracle.Ask("C04", c)
	if err != nil {
		return err
	}
	var model map[string]c04FmModelRes
	if err := json.Unmarshal(raw, &model); err != nil {
		return err
	}
	shape, never := c04FmShape(c)
	streaming := false
	for _, s := range c.Sources {
		if s.Key == "start" || strings.ContainsAny(s.Native, "st") {
			streaming = streaming || len(s.Chunks) > 1
		}
	}
	ctx.Res.Count("fmap:"+vh.Canon(c), streaming)
	ctx.Res.Dist("fmap:shape=" + shape)
	ctx.Res.Dist("fmap:target=" + c.Target + ":sink=" + c.Sink)
	ctx.Res.Dist(fmt.Sprintf("fmap:sources=%d", len(c.Sources)))
	if ctx.Rng.Chance(2) {
		ctx.Res.Sample(c)
	}
	// the signature names what matters for a disagreement: the target type, whether some chunk
	// lacks a mapped key, whether some mapped key is carried by no chunk at all
	sigShape := strings.SplitN(shape, "+", 2)[0]
	if never {
		sigShape += "+never-carried"
	}
	tag := ":" + c.Target + ":" + sigShape
	for _, p := range []string{"invoke", "stream", "collect", "transform"} {
		o := impl[p]
		ctx.Res.Dist("fmap:" + p + "=" + o.Class)
		if o.Class == "panic-escaped" || o.Class == "hang" {
			ctx.Res.Disagree(vh.Disagreement{Signature: "C04:fmap:" + p + ":" + o.Class + tag,
				What: fmt.Sprintf("%s of a workflow with field-mapped map chunks: %s (%s)", p, o.Class, o.Info), Case: c, Model: model, Impl: impl})
			continue
		}
		// (b) against the model
		m := model[p]
		mc := "err"
		if m.Err == nil {
			mc = "ok"
		}
		switch {
		case mc != o.Class:
			ctx.Res.Disagree(vh.Disagreement{Signature: "C04:fmap:" + p + ":model=" + mc + ",impl=" + o.Class + tag,
				What: fmt.Sprintf("%s: the model says %s (%v), the implementation %s (%v %s)", p, mc, m.Ok, o.Class, o.Val, o.Info), Case: c, Model: model, Impl: impl})
		case mc == "ok" && !c04FmSameVal(m.Ok, o.Val, c.Target):
			ctx.Res.Disagree(vh.Disagreement{Signature: "C04:fmap:" + p + ":value-differs" + tag,
				What: fmt.Sprintf("%s: sink input %v, the model says %v", p, o.Val, m.Ok), Case: c, Model: model, Impl: impl})
		}
	}
	// (a) the property on the implementation: Invoke against the three stream paradigms
	inv := impl["invoke"]
	for _, p := range []string{"stream", "collect", "transform"} {
		o := impl[p]
		if (inv.Class != "ok" && inv.Class != "err") || (o.Class != "ok" && o.Class != "err") {
			continue
		}
		if never && inv.Class == "err" && o.Class == "ok" {
			// a mapped key that no chunk carries: value mode reports the missing key, a stream cannot
			// know before its end that the key never comes (the model says exactly this; compared above)
			ctx.Res.Dist("fmap:never-carried-key:" + p)
			continue
		}
		if strings.Contains(shape, "nil-beside-value") && (c.Target == "mapstr" || c.Target == "struct") &&
			inv.Class == "ok" && o.Class == "err" && model["invoke"].Err == nil && model[p].Err != nil {
			// a chunk carries an explicit nil under a key whose value other chunks carry, and the target
			// field is checked and cannot be nil: whole-value concatenation skips the nil, the per-chunk
			// checker refuses it. The model describes the code as it is (compared above); the paradigms
			// disagree - one signature for this mechanism, whatever the stream paradigm and target
			ctx.Res.Dist("fmap:nil-beside-value:" + p)
			ctx.Res.Disagree(vh.Disagreement{Signature: "C04:fmap:paradigms:invoke=ok,streamed=err:nil-beside-value-under-checked-key",
				What: fmt.Sprintf("Invoke succeeds (%v), %s fails (%s): a chunk carries nil under a key whose value other chunks carry", inv.Val, p, o.Info),
				Case: c, Model: model, Impl: impl})
			continue
		}
		if inv.Class != o.Class || (inv.Class == "ok" && vh.Canon(inv.Val) != vh.Canon(o.Val)) {
			ctx.Res.Disagree(vh.Disagreement{Signature: "C04:fmap:paradigms:invoke=" + inv.Class + "," + p + "=" + o.Class + tag,
				What: fmt.Sprintf("Invoke and %s disagree on field-mapped map chunks: %v %s vs %v %s", p, inv.Val, inv.Info, o.Val, o.Info),
				Case: c, Model: model, Impl: impl})
		}
	}
	return nil
}

// ---------- generator ----------

func c04FmNative(r *vh.Rand, streamingPct int) string {
	n := ""
	for _, p := range []string{"i", "s", "c", "t"} {
		if r.Chance(35) {
			n += p
		}
	}
	if n == "" {
		n = []string{"i", "s", "c", "t"}[r.Intn(4)]
	}
	if !strings.ContainsAny(n, "st") && r.Chance(streamingPct) {
		n += []string{"s", "t"}[r.Intn(2)]
	}
	return n
}

func c04FmGen(r *vh.Rand) *c04FmCase {
	c := &c04FmCase{Kind: "fmap"}
	c.Target = []string{"mapstr", "mapstr", "struct", "mapany", "mapslice"}[r.Intn(5)]
	c.Sink = "node"
	if r.Chance(30) {
		c.Sink = "end"
	} else {
		c.Consumer = c04FmNative(r, 0)
	}
	var srcKeys []string
	switch k := r.Intn(100); {
	case k < 45:
		srcKeys = []string{"p0"}
	case k < 65:
		srcKeys = []string{"start"}
	case k < 85:
		srcKeys = []string{"p0", "p1"}
	default:
		srcKeys = []string{"start", "p0"}
	}
	dsts := []string{"A", "B", "C", "D"}
	perm := r.Perm(4)
	nd := 0
	for si, sk := range srcKeys {
		s := c04FmSource{Key: sk}
		if sk != "start" {
			s.Native = c04FmNative(r, 75)
		}
		nch := r.Range(1, 4)
		chunks := make([]map[string]string, nch)
		for i := range chunks {
			chunks[i] = map[string]string{}
		}
		keys := []string{"a", "b", "c"}[:r.Range(1, 3)]
		if len(srcKeys) == 2 && len(keys) > 2 {
			keys = keys[:2]
		}
		for ki, k := range keys {
			key := fmt.Sprintf("%s%d", k, si)
			if nd >= len(dsts) {
				break
			}
			s.Maps = append(s.Maps, c04FmMap{Src: key, Dst: dsts[perm[nd]]})
			nd++
			switch q := r.Intn(100); {
			case q < 8:
				chunks[r.Intn(nch)][key] = "nil"
			case q < 16:
				chunks[r.Intn(nch)][key] = "wrong"
			case q < 19:
				// a mapped key no chunk carries (malformed: only value mode can report it)
			default:
				text := fmt.Sprintf("v%d%c", r.Intn(9), 'a'+rune(ki))
				np := 1
				if c.Target != "mapslice" && r.Chance(40) {
					np = r.Range(2, 3)
				}
				if np > nch {
					np = nch
				}
				// np pieces in increasing chunk positions
				pos := r.Perm(nch)[:np]
				sort.Ints(pos)
				for j, p := range pos {
					lo, hi := j*len(text)/np, (j+1)*len(text)/np
					chunks[p][key] = "good:" + text[lo:hi]
				}
				// an explicit nil under the key in a chunk before / between / after the ones that carry
				// the value: concatenation skips it ("nothing to concat"), so the whole value is unchanged
				if np < nch && r.Chance(12) {
					for _, p := range r.Perm(nch) {
						if _, has := chunks[p][key]; !has {
							chunks[p][key] = "nil"
							break
						}
					}
				}
			}
		}
		if r.Chance(35) { // an unmapped key
			chunks[r.Intn(nch)]["z"] = []string{"good:zz", "nil", "wrong"}[r.Intn(3)]
		}
		for _, ch := range chunks {
			var kvs [][2]string
			for k, v := range ch {
				kvs = append(kvs, [2]string{k, v})
			}
			sort.Slice(kvs, func(i, j int) bool { return kvs[i][0] < kvs[j][0] })
			if kvs == nil {
				kvs = [][2]string{}
			}
			s.Chunks = append(s.Chunks, kvs)
		}
		c.Sources = append(c.Sources, s)
	}
	return c
}

// c04FmFixed: small members of the family, run first on every seed.
func c04FmFixed() []*c04FmCase {
	ch := func(kvs ...string) [][2]string {
		out := [][2]string{}
		for i := 0; i+1 < len(kvs); i += 2 {
			out = append(out, [2]string{kvs[i], kvs[i+1]})
		}
		return out
	}
	ab := []c04FmMap{{Src: "a", Dst: "A"}, {Src: "b", Dst: "B"}}
	var out []*c04FmCase
	for _, target := range []string{"mapstr", "struct", "mapany", "mapslice"} {
		for _, sink := range []string{"node", "end"} {
			// every chunk carries all mapped keys / one chunk
			out = append(out, &c04FmCase{Kind: "fmap", Target: target, Sink: sink, Consumer: "i", Sources: []c04FmSource{
				{Key: "p0", Native: "s", Chunks: [][][2]string{ch("a", "good:x", "b", "good:y")}, Maps: ab}}})
			// a value refused by the checker (where there is one), in a chunk of its own
			out = append(out, &c04FmCase{Kind: "fmap", Target: target, Sink: sink, Consumer: "c", Sources: []c04FmSource{
				{Key: "p0", Native: "t", Chunks: [][][2]string{ch("a", "good:x"), ch("b", "wrong"), ch("z", "nil")}, Maps: ab}}})
			out = append(out, &c04FmCase{Kind: "fmap", Target: target, Sink: sink, Consumer: "t", Sources: []c04FmSource{
				{Key: "start", Chunks: [][][2]string{ch("a", "nil"), ch("b", "good:y")}, Maps: ab}}})
		}
	}
	// an explicit nil under a key before / after the chunk that carries its value
	for _, target := range []string{"mapstr", "struct", "mapany", "mapslice"} {
		out = append(out, &c04FmCase{Kind: "fmap", Target: target, Sink: "node", Consumer: "i", Sources: []c04FmSource{
			{Key: "p0", Native: "s", Chunks: [][][2]string{ch("a", "nil"), ch("a", "good:x", "b", "good:y")}, Maps: ab}}})
		out = append(out, &c04FmCase{Kind: "fmap", Target: target, Sink: "end", Sources: []c04FmSource{
			{Key: "start", Chunks: [][][2]string{ch("a", "good:x"), ch("a", "nil", "b", "good:y")}, Maps: ab}}})
	}
	// string pieces spread over chunks that also carry other keys
	out = append(out, &c04FmCase{Kind: "fmap", Target: "mapstr", Sink: "node", Consumer: "i", Sources: []c04FmSource{
		{Key: "p0", Native: "s", Chunks: [][][2]string{ch("a", "good:x1", "b", "good:y"), ch("a", "good:x2"), ch()}, Maps: ab}}})
	out = append(out, &c04FmCase{Kind: "fmap", Target: "mapany", Sink: "end", Sources: []c04FmSource{
		{Key: "p0", Native: "is", Chunks: [][][2]string{ch("a", "nil"), ch("b", "wrong", "z", "good:q")}, Maps: ab},
		{Key: "p1", Native: "c", Chunks: [][][2]string{ch("c", "good:w")}, Maps: []c04FmMap{{Src: "c", Dst: "C"}}}}})
	return out
}

func c04FmFamily(ctx *vh.Ctx) error {
	for _, c := range c04FmFixed() {
		if err := c04FmOne(ctx, c); err != nil {
			return err
		}
	}
	n := ctx.N(1200, 10000)
	for i := 0; i < n && ctx.TimeLeft(); i++ {
		if err := c04FmOne(ctx, c04FmGen(ctx.Rng)); err != nil {
			return err
		}
	}
	return nil
}
