//go:build verif && (vh_all || vh_c16)

package props

import (
	"github.com/cloudwego/eino/schema"
	"github.com/cloudwego/eino/verifharness/vh"
)

// ---------------------------------------------------------------------------------------
// nodes added with WithInputKey / WithOutputKey: the values that flow along the chain
//
// A node with input key k takes a map[string]any and hands m[k] to its runnable, a node with
// output key k wraps what its runnable returns into map[string]any{k: out}.  Options are not
// concerned (Model/C16Keys.lean: what a node receives does not depend on keys or paradigm);
// the harness only has to make the values fit: every lambda is told what its successor needs.
// ---------------------------------------------------------------------------------------

const c16OutMap = 3 // map[string]any{key: inner}

// c16Spec describes a value: "v", []*schema.Message, a query string, or a one-entry map.
type c16Spec struct {
	Kind  int
	Key   string
	Inner *c16Spec
}

var c16SpecAny = c16Spec{Kind: c16OutAny}

func c16Value(s c16Spec) any {
	switch s.Kind {
	case c16OutMsgs:
		return []*schema.Message{schema.UserMessage("q")}
	case c16OutStr:
		return "q"
	case c16OutMap:
		return map[string]any{s.Key: c16Value(*s.Inner)}
	}
	return "v"
}

// c16Flow walks the chain backwards: given what must come out of the last node (`after`), it
// returns what every node's own runnable has to return (outs[i], before the output-key wrapper)
// and what must flow into the first node.  ok = false: the keys do not fit (an output key whose
// consumer does not take that map, a typed component that should yield something else).
func c16Flow(nodes []c16Node, after c16Spec) (outs []c16Spec, need c16Spec, ok bool) {
	outs = make([]c16Spec, len(nodes))
	need = after
	for i := len(nodes) - 1; i >= 0; i-- {
		n := &nodes[i]
		out := need
		if n.OutKey != "" {
			switch {
			case need.Kind == c16OutAny:
				out = c16SpecAny
			case need.Kind == c16OutMap && need.Key == n.OutKey:
				out = *need.Inner
			default:
				return nil, need, false
			}
		}
		outs[i] = out
		var in c16Spec
		switch n.K {
		case "pass":
			if n.InKey != "" || n.OutKey != "" {
				return nil, need, false // passthrough nodes carry no keys in this harness
			}
			in = out
		case "graph":
			var sub bool
			_, in, sub = c16Flow(n.Ch, out)
			if !sub {
				return nil, need, false
			}
		default:
			switch n.Impl {
			case "model":
				if out.Kind != c16OutAny {
					return nil, need, false
				}
				in = c16Spec{Kind: c16OutMsgs}
			case "retriever":
				if out.Kind != c16OutAny {
					return nil, need, false
				}
				in = c16Spec{Kind: c16OutStr}
			default:
				in = c16SpecAny // a lambda takes anything and returns what outs[i] says
			}
		}
		if n.InKey != "" {
			inner := in
			in = c16Spec{Kind: c16OutMap, Key: n.InKey, Inner: &inner}
		}
		need = in
	}
	return outs, need, true
}

// c16FlowOK: the values can be made to fit for the whole tree.
func c16FlowOK(nodes []c16Node) bool {
	_, _, ok := c16Flow(nodes, c16SpecAny)
	return ok
}

// c16Input: the value the outermost graph has to be called with.
func c16Input(nodes []c16Node) any {
	_, need, ok := c16Flow(nodes, c16SpecAny)
	if !ok {
		return "in"
	}
	if need.Kind == c16OutAny {
		return "in"
	}
	return c16Value(need)
}

var c16MapKeys = []string{"k", "q", "r"}

// c16AddKeys decorates a generated tree: components (lambdas, chat model / retriever) and graph
// nodes get an input key and / or an output key.  An output key is kept only where the consumer
// takes that map (next keyed node reads the same key, or takes anything), which c16Flow decides.
func c16AddKeys(r *vh.Rand, top []c16Node, pIn, pOut int) {
	var walk func(ns []c16Node)
	walk = func(ns []c16Node) {
		for i := range ns {
			n := &ns[i]
			if n.K == "graph" {
				walk(n.Ch)
			}
			if n.K == "pass" {
				continue
			}
			if r.Chance(pIn) {
				n.InKey = c16MapKeys[r.Intn(len(c16MapKeys))]
				if !c16FlowOK(top) {
					n.InKey = ""
				}
			}
		}
		// output keys after the input keys of the level are known: prefer the key the consumer reads
		for i := range ns {
			n := &ns[i]
			if n.K == "pass" || !r.Chance(pOut) {
				continue
			}
			cands := append([]string{}, c16MapKeys...)
			if j := i + 1; j < len(ns) && ns[j].InKey != "" {
				cands = []string{ns[j].InKey}
			} else if j+1 < len(ns) && ns[j].K == "pass" && ns[j+1].InKey != "" {
				cands = []string{ns[j+1].InKey}
			}
			n.OutKey = cands[r.Intn(len(cands))]
			if !c16FlowOK(top) {
				n.OutKey = ""
			}
		}
	}
	walk(top)
}

// c16HasKeys: some node of the tree carries a key.
func c16HasKeys(ns []c16Node) (in, out bool) {
	for i := range ns {
		if ns[i].InKey != "" {
			in = true
		}
		if ns[i].OutKey != "" {
			out = true
		}
		if ns[i].K == "graph" {
			a, b := c16HasKeys(ns[i].Ch)
			in, out = in || a, out || b
		}
	}
	return
}

func c16Paradigm(r *vh.Rand) string {
	switch w := r.Intn(100); {
	case w < 40:
		return "invoke"
	case w < 64:
		return "stream"
	case w < 82:
		return "collect"
	}
	return "transform"
}
