//go:build verif && (vh_all || vh_c03)

package props

// C03, family "cancel": runs whose CONTEXT BECOMES DONE (cancel function called / deadline
// reported) at a chosen position of the submit / executor / wait protocol.  The clauses
// "every node execution that was started is collected exactly once, the run does not hang"
// are checked by the other families under a context that never ends; here the context ends
//
//	before   before Invoke is called
//	pre n    inside the state pre-handler of node n: on the run-loop goroutine, inside
//	         taskManager.submit, after the loop-top check of the iteration that submits n and
//	         before anything of that submit is started
//	body n   inside the body of n, at the moment the completion script releases n (every
//	         execution in flight is inside its body; eager: the run loop has passed the top of
//	         the iteration that will receive n)
//	post n   inside the state post-handler of n: on the run-loop goroutine, inside waitOne,
//	         after the receive
//	never    control
//
// and it ends either through the cancel function of context.WithCancel (Err = Canceled) or as
// a context of our own whose Done channel the harness closes with Err = DeadlineExceeded.
// Every position is forced with channels (the handlers / bodies themselves end the context);
// no timing is involved.
//
// One case = a layered acyclic graph of c03Gen in which every sink feeds END, in mode
// pregel | dag | workflow (eager), a completion priority, the position and the context kind.
// Every body blocks on its own gate; the releaser follows the release script of the Lean
// engine (cRun, Model/C03Cancel.lean, oracle kind "cancel"): one line per completion — before a
// gate is opened every execution the model has in flight must be inside its body; eager: and
// the run loop must have entered the iteration of that line (step events of
// compose.VerifRecorder); after it the releaser waits for the body's return, the `finish` hook
// event and, eager, the state post-handler of the released node.
// Observables against the model: the run returns (hang guard c03cHangGuard); outcome (the
// model's value / the context's error from the check at the top of the next iteration);
// iterations of the run loop entered; bodies entered; post-handlers run at the return; bodies
// still running at the return (batch: none; eager: exactly what the model leaves in flight);
// the trace of the task manager replayed on the protocol model (batch: num = 0 and
// received = submitted at the return; eager: what was not received is what the model leaves
// in flight).

import (
	"context"
	"encoding/json"
	"errors"
	"fmt"
	"runtime"
	"sort"
	"sync"
	"time"

	"github.com/cloudwego/eino/compose"
	"github.com/cloudwego/eino/verifharness/vh"
)

func init() {
	c03Extra = append(c03Extra, c03Family{Kind: "cancel", Run: c03cFamily, Replay: c03cReplay})
}

const c03cHangGuard = 10 * time.Second

type c03cAt struct {
	Phase string `json:"phase"` // never | before | pre | body | post
	Node  string `json:"node,omitempty"`
}

type c03cCase struct {
	Kind     string    `json:"kind"` // cancel
	Nodes    []c03Node `json:"nodes"`
	EndPreds []string  `json:"endPreds"`
	Input    string    `json:"input"`
	Mode     string    `json:"mode"`  // pregel | dag | workflow
	Eager    bool      `json:"eager"` // = mode is workflow (read by the oracle)
	Priority []string  `json:"priority"`
	Cancel   c03cAt    `json:"cancel"`
	CtxKind  string    `json:"ctxKind"` // cancel | deadline
	Note     string    `json:"note,omitempty"`
}

type c03cRef struct {
	Out         string     `json:"out"` // ok | cancelled | stuck
	Steps       []c03iStep `json:"steps"`
	Iters       int        `json:"iters"`
	Started     []string   `json:"started"`
	Collected   []string   `json:"collected"`
	Uncollected []string   `json:"uncollected"`
	Result      [][]string `json:"result"`
}

type c03cObs struct {
	Class        string     `json:"class"` // ok | cancelled | error | hang | panic-escaped | build-error
	Detail       string     `json:"detail,omitempty"`
	Result       [][]string `json:"result"`
	Iters        int        `json:"iters"`        // iterations of the run loop entered (step events), -1: unknown
	Entered      []string   `json:"entered"`      // bodies entered when Invoke returned
	PostHandled  []string   `json:"postHandled"`  // state post-handlers run when Invoke returned
	Running      []string   `json:"running"`      // bodies entered and not left when Invoke returned
	PreHandled   []string   `json:"preHandled"`   // state pre-handlers run when Invoke returned
	CtxEnded     bool       `json:"ctxEnded"`     // the position was reached: the context has been ended
	Stage        string     `json:"stage"`        // where the release script stood
	ScriptDone   bool       `json:"scriptDone"`   //
	TraceNum     int        `json:"traceNum"`     // num at the return (replayed hook events), -1: no trace
	TraceLost    []string   `json:"traceLost"`    // submitted and not received at the return
	TraceSubmits []string   `json:"traceSubmits"` // node keys handed to submit
	TraceProblem string     `json:"traceProblem,omitempty"`
	Trace        any        `json:"trace,omitempty"`
	events       []compose.VerifC03Event
}

// a context of our own that becomes done with DeadlineExceeded when the harness says so
type c03cDeadlineCtx struct {
	context.Context
	done chan struct{}
	once sync.Once
	mu   sync.Mutex
	err  error
}

func (d *c03cDeadlineCtx) Done() <-chan struct{} { return d.done }
func (d *c03cDeadlineCtx) Err() error {
	d.mu.Lock()
	defer d.mu.Unlock()
	return d.err
}
func (d *c03cDeadlineCtx) expire() {
	d.once.Do(func() {
		d.mu.Lock()
		d.err = context.DeadlineExceeded
		d.mu.Unlock()
		close(d.done)
	})
}

type c03cRun struct {
	c       *c03cCase
	mu      sync.Mutex
	cond    *sync.Cond
	active  int
	entered map[string]int
	left    map[string]int
	post    map[string]int
	pre     map[string]int
	startCh map[string]chan struct{}
	leftCh  map[string]chan struct{}
	postCh  map[string]chan struct{}
	gate    map[string]chan struct{}
	once    map[string]*[4]sync.Once
	runDone chan struct{}
	stage   string
	script  bool
	ended   bool
	end     func() // ends the context
	rec     *compose.VerifRecorder
}

func c03cNewRun(c *c03cCase) *c03cRun {
	r := &c03cRun{c: c, entered: map[string]int{}, left: map[string]int{}, post: map[string]int{}, pre: map[string]int{},
		startCh: map[string]chan struct{}{}, leftCh: map[string]chan struct{}{}, postCh: map[string]chan struct{}{},
		gate: map[string]chan struct{}{}, once: map[string]*[4]sync.Once{}, runDone: make(chan struct{}), rec: &compose.VerifRecorder{}}
	r.cond = sync.NewCond(&r.mu)
	for _, n := range c.Nodes {
		r.startCh[n.Key], r.leftCh[n.Key], r.postCh[n.Key], r.gate[n.Key] = make(chan struct{}), make(chan struct{}), make(chan struct{}), make(chan struct{})
		r.once[n.Key] = &[4]sync.Once{}
	}
	return r
}

func (r *c03cRun) open(k string) { r.once[k][0].Do(func() { close(r.gate[k]) }) }

func (r *c03cRun) endCtx(phase, key string) {
	if r.c.Cancel.Phase == phase && r.c.Cancel.Node == key {
		r.mu.Lock()
		r.ended = true
		r.mu.Unlock()
		r.end()
	}
}

func (r *c03cRun) body(key string, in map[string]any) string {
	r.mu.Lock()
	r.active++
	r.entered[key]++
	r.mu.Unlock()
	r.once[key][1].Do(func() { close(r.startCh[key]) })
	<-r.gate[key]
	r.endCtx("body", key)
	out := c03Render(key, in)
	r.mu.Lock()
	r.active--
	r.left[key]++
	r.cond.Broadcast()
	r.mu.Unlock()
	r.once[key][2].Do(func() { close(r.leftCh[key]) })
	return out
}

// state pre-handler: on the run-loop goroutine, inside submit, before anything is started
func (r *c03cRun) preHandler(key string) {
	r.mu.Lock()
	r.pre[key]++
	r.mu.Unlock()
	r.endCtx("pre", key)
}

// state post-handler: on the run-loop goroutine, inside waitOne, after the receive
func (r *c03cRun) postHandler(key string) {
	r.mu.Lock()
	r.post[key]++
	r.mu.Unlock()
	r.endCtx("post", key)
	r.once[key][3].Do(func() { close(r.postCh[key]) })
}

func c03cBuild(c *c03cCase, r *c03cRun) (c03Invoker, error) {
	ctx := context.Background()
	gen := compose.WithGenLocalState(func(ctx context.Context) *c03State { return &c03State{} })
	if c.Mode == "workflow" {
		wf := compose.NewWorkflow[string, map[string]any](gen)
		for _, n := range c.Nodes {
			key := n.Key
			wn := wf.AddLambdaNode(key, compose.InvokableLambda(func(ctx context.Context, in map[string]any) (string, error) {
				return r.body(key, in), nil
			}), compose.WithStatePreHandler(func(ctx context.Context, in map[string]any, st *c03State) (map[string]any, error) {
				r.preHandler(key)
				return in, nil
			}), compose.WithStatePostHandler(func(ctx context.Context, out string, st *c03State) (string, error) {
				r.postHandler(key)
				return out, nil
			}))
			for _, p := range n.Preds {
				wn.AddInput(p, compose.ToField(p))
			}
		}
		for _, p := range c.EndPreds {
			wf.End().AddInput(p, compose.ToField(p))
		}
		run, err := wf.Compile(ctx)
		if err != nil {
			return nil, err
		}
		return func(ctx context.Context) (map[string]any, error) { return run.Invoke(ctx, c.Input) }, nil
	}
	g := compose.NewGraph[map[string]any, map[string]any](gen)
	for _, n := range c.Nodes {
		key := n.Key
		err := g.AddLambdaNode(key, compose.InvokableLambda(func(ctx context.Context, in map[string]any) (map[string]any, error) {
			return map[string]any{key: r.body(key, in)}, nil
		}), compose.WithStatePreHandler(func(ctx context.Context, in map[string]any, st *c03State) (map[string]any, error) {
			r.preHandler(key)
			return in, nil
		}), compose.WithStatePostHandler(func(ctx context.Context, out map[string]any, st *c03State) (map[string]any, error) {
			r.postHandler(key)
			return out, nil
		}))
		if err != nil {
			return nil, err
		}
	}
	for _, n := range c.Nodes {
		for _, p := range n.Preds {
			if err := g.AddEdge(p, n.Key); err != nil {
				return nil, err
			}
		}
	}
	for _, p := range c.EndPreds {
		if err := g.AddEdge(p, compose.END); err != nil {
			return nil, err
		}
	}
	var opts []compose.GraphCompileOption
	if c.Mode == "dag" {
		opts = append(opts, compose.WithNodeTriggerMode(compose.AllPredecessor))
	}
	run, err := g.Compile(ctx, opts...)
	if err != nil {
		return nil, err
	}
	return func(ctx context.Context) (map[string]any, error) {
		return run.Invoke(ctx, map[string]any{compose.START: c.Input})
	}, nil
}

func (r *c03cRun) setStage(s string) {
	r.mu.Lock()
	r.stage = s
	r.mu.Unlock()
}

func (r *c03cRun) wait(ch <-chan struct{}) bool {
	select {
	case <-ch:
		return true
	case <-r.runDone:
		return false
	}
}

// iterations of the run loop entered so far (their loop-top check has been passed)
func (r *c03cRun) iters() int {
	n := 0
	for _, e := range r.rec.Snapshot() {
		if e.Step >= 0 && len(e.Path) == 0 {
			n++
		}
	}
	return n
}

func (r *c03cRun) waitIter(n int) bool {
	for i := 0; ; i++ {
		if r.iters() >= n {
			return true
		}
		select {
		case <-r.runDone:
			return false
		default:
		}
		if i < 200 {
			runtime.Gosched()
		} else {
			time.Sleep(50 * time.Microsecond) // polling an event of the implementation, not a synchronisation by delay
		}
	}
}

// the release script of the Lean engine
func (r *c03cRun) releaser(steps []c03iStep, done chan struct{}) {
	defer close(done)
	eager := r.c.Mode == "workflow"
	for j, st := range steps {
		for _, k := range st.Inflight {
			r.setStage(fmt.Sprintf("line %d: waiting for %s to enter its body", j, k))
			if !r.wait(r.startCh[k]) {
				return
			}
		}
		if eager {
			r.setStage(fmt.Sprintf("line %d: waiting for the run loop to enter iteration %d", j, j))
			if !r.waitIter(j + 1) {
				return
			}
		}
		r.setStage(fmt.Sprintf("line %d: released %s, waiting for its body to return", j, st.Release))
		r.open(st.Release)
		if !r.wait(r.leftCh[st.Release]) {
			return
		}
		r.setStage(fmt.Sprintf("line %d: waiting for the executor of %s to push the finished task", j, st.Release))
		if !c03WaitPushed(st.Release, r.runDone) {
			return
		}
		if eager {
			r.setStage(fmt.Sprintf("line %d: waiting for the run loop to collect %s", j, st.Release))
			if !r.wait(r.postCh[st.Release]) {
				return
			}
		}
	}
	r.mu.Lock()
	r.stage, r.script = "script finished", true
	r.mu.Unlock()
}

func c03cImpl(c *c03cCase, ref *c03cRef) *c03cObs {
	o := &c03cObs{Result: [][]string{}, Iters: -1, Entered: []string{}, PostHandled: []string{}, Running: []string{}, PreHandled: []string{},
		TraceNum: -1, TraceLost: []string{}, TraceSubmits: []string{}}
	r := c03cNewRun(c)
	var inv c03Invoker
	var berr error
	if p, pv := vh.Safely(func() { inv, berr = c03cBuild(c, r) }); p {
		o.Class, o.Detail = "build-error", fmt.Sprint("panic: ", pv)
		return o
	}
	if berr != nil {
		o.Class, o.Detail = "build-error", berr.Error()
		return o
	}
	base := compose.VerifWithRecorder(context.Background(), r.rec)
	var runCtx context.Context
	var ctxErr error
	var release func()
	if c.CtxKind == "deadline" {
		d := &c03cDeadlineCtx{Context: base, done: make(chan struct{})}
		runCtx, r.end, ctxErr, release = d, d.expire, context.DeadlineExceeded, func() {}
	} else {
		cctx, cancel := context.WithCancel(base)
		runCtx, r.end, ctxErr, release = cctx, cancel, context.Canceled, cancel
	}
	defer release()
	if c.Cancel.Phase == "before" {
		r.ended = true
		r.end()
	}
	compose.VerifC03Reset(0, false)
	relDone := make(chan struct{})
	go r.releaser(ref.Steps, relDone)
	var res map[string]any
	var rerr error
	var snapOnce sync.Once
	snapshot := func() {
		snapOnce.Do(func() {
			r.mu.Lock()
			o.Entered, o.PostHandled, o.PreHandled = c03iKeys(r.entered), c03iKeys(r.post), c03iKeys(r.pre)
			for k, n := range r.entered {
				if r.left[k] < n {
					o.Running = append(o.Running, k)
				}
			}
			o.Stage, o.ScriptDone, o.CtxEnded = r.stage, r.script, r.ended
			r.mu.Unlock()
			sort.Strings(o.Running)
			o.Iters = r.iters()
			o.events = compose.VerifC03Events()
		})
	}
	finished := false
	panicked, pv := vh.Safely(func() {
		finished = vh.WithTimeout(c03cHangGuard, func() {
			res, rerr = inv(runCtx)
			snapshot() // the state of the world at the moment Invoke returns
		})
	})
	if !finished || panicked {
		snapshot()
	}
	close(r.runDone)
	<-relDone
	for _, n := range c.Nodes { // whatever is still inside a body may leave
		r.open(n.Key)
	}
	quiet := make(chan struct{})
	go func() {
		r.mu.Lock()
		for r.active > 0 {
			r.cond.Wait()
		}
		r.mu.Unlock()
		close(quiet)
	}()
	select {
	case <-quiet:
	case <-time.After(10 * time.Second):
	}
	// stragglers push their finished tasks: wait for the executors so that their events do not
	// leak into the next case (cleanup only)
	for _, k := range o.Running {
		stop := make(chan struct{})
		go func() { time.Sleep(2 * time.Second); close(stop) }()
		c03WaitPushed(k, stop)
	}
	switch {
	case panicked:
		o.Class, o.Detail = "panic-escaped", fmt.Sprint(pv)
	case !finished:
		o.Class = "hang"
	case rerr == nil:
		o.Class = "ok"
		o.Result = c03Pairs(res)
	case errors.Is(rerr, ctxErr):
		o.Class, o.Detail = "cancelled", rerr.Error()
	default:
		o.Class, o.Detail = "error", rerr.Error()
	}
	return o
}

var c03cHangs int
var c03cAbandonNoted bool

func c03cOne(ctx *vh.Ctx, c *c03cCase) error {
	ctx.Progress.Mark(c)
	c.Eager = c.Mode == "workflow"
	if c.CtxKind == "" {
		c.CtxKind = "cancel"
	}
	raw, err := ctx.Oracle.Ask("C03", c)
	if err != nil {
		return err
	}
	var ref c03cRef
	if err := json.Unmarshal(raw, &ref); err != nil {
		return fmt.Errorf("oracle cancel answer: %v: %s", err, raw)
	}
	if !c.Eager && len(ref.Uncollected) != 0 {
		return fmt.Errorf("oracle cancel answer: the model's batch run leaves %v uncollected (theorem cancelled_batch_run_collects_all)", ref.Uncollected)
	}
	if ref.Out == "stuck" {
		return fmt.Errorf("oracle cancel answer: the generated graph gets stuck in the model: %s", raw)
	}
	obs := c03cImpl(c, &ref)
	mp := c.Mode + ":" + c.Cancel.Phase
	dis := func(sig, what string) {
		ctx.Res.Disagree(vh.Disagreement{Signature: sig, What: what, Case: c, Model: ref, Impl: obs})
	}
	// what was in flight when the context ended matters: at least two executions outstanding
	inflight := 0
	for _, st := range ref.Steps {
		if len(st.Inflight) > inflight {
			inflight = len(st.Inflight)
		}
	}
	ctx.Res.Count(fmt.Sprintf("cancel|%s|%v|%v|%v|%v|%s", c.Mode, c.Nodes, c.EndPreds, c.Priority, c.Cancel, c.CtxKind),
		c.Cancel.Phase != "never" && obs.CtxEnded && inflight >= 2)
	ctx.Res.Dist("family:cancel")
	ctx.Res.Dist("cancel:mode:" + c.Mode)
	ctx.Res.Dist("cancel:phase:" + c.Cancel.Phase)
	ctx.Res.Dist("cancel:ctx:" + c.CtxKind)
	ctx.Res.Dist("cancel:model-out:" + ref.Out)
	ctx.Res.Dist("cancel:class:" + obs.Class)
	ctx.Res.Dist(fmt.Sprintf("cancel:iterations:%d", ref.Iters))
	ctx.Res.Sample(c)

	// trace of the task manager at the return
	if compose.VerifC03TraceEnabled() && obs.events != nil {
		var evs []compose.VerifC03Event
		for _, e := range obs.events {
			if e.TM == 1 {
				evs = append(evs, e)
				if e.K == "submit" {
					if e.T >= 0 {
						obs.TraceSubmits = append(obs.TraceSubmits, e.Node)
					}
					obs.TraceSubmits = append(obs.TraceSubmits, e.Nodes...)
				}
			}
		}
		sort.Strings(obs.TraceSubmits)
		if len(evs) > 0 {
			num, lost, problem, _, err := c03TraceFinal(ctx, evs, !c.Eager)
			if err != nil {
				return err
			}
			obs.TraceNum, obs.TraceLost, obs.TraceProblem = num, lost, problem
			if problem != "" {
				obs.Trace = evs
			}
		} else {
			obs.TraceNum = 0
		}
		ctx.Res.Dist("cancel:trace:replayed")
	} else {
		ctx.Res.Dist("cancel:trace:skipped-no-hooks")
	}

	switch obs.Class {
	case "build-error":
		dis("C03:cancel:build-error:"+c.Mode, "the generated graph does not compile: "+obs.Detail)
		return nil
	case "hang":
		c03cHangs++
		var never []string
		for _, k := range obs.TraceSubmits {
			if !c03Has(obs.Entered, k) {
				never = append(never, k)
			}
		}
		dis("C03:cancel:hang:"+mp, fmt.Sprintf("Invoke did not return within %v although its context had been ended (%v) and no node body is blocked by the harness beyond the script; "+
			"the completion script stood at: %s; handed to submit: %v, bodies entered: %v, never entered: %v; task manager: num=%d, not received: %v "+
			"(a counted execution was never handed back to the run loop)", c03cHangGuard, obs.CtxEnded, obs.Stage, obs.TraceSubmits, obs.Entered, never, obs.TraceNum, obs.TraceLost))
		return nil
	case "panic-escaped":
		dis("C03:cancel:panic-escaped:"+mp, "a panic escaped Invoke: "+obs.Detail)
		return nil
	case "error":
		dis("C03:cancel:unexpected-error:"+mp, "Invoke failed with an error that is not the context's: "+obs.Detail)
		return nil
	}
	// the position must have been reached whenever the model says the run got that far
	if c.Cancel.Phase != "never" && !obs.CtxEnded && ref.Out == "cancelled" {
		dis("C03:cancel:position-not-reached:"+mp, "the run returned without reaching the position at which the context was to end, the model's run reaches it")
	}
	// outcome
	wantClass := map[string]string{"ok": "ok", "cancelled": "cancelled"}[ref.Out]
	if obs.Class != wantClass {
		dis("C03:cancel:outcome-differs:"+mp, fmt.Sprintf("Invoke ended with %s (%s), the model's run with %s: a done context is noticed by the check at the top of the next iteration only, "+
			"the iteration in which it became done is completed and a value computed by it is returned", obs.Class, obs.Detail, ref.Out))
	} else if obs.Class == "ok" && !vh.CanonEq(obs.Result, ref.Result) {
		dis("C03:cancel:result-differs:"+mp, "the run result differs from the model's")
	}
	if obs.Iters >= 0 && obs.Iters != ref.Iters {
		dis("C03:cancel:iterations-differ:"+mp, fmt.Sprintf("the run loop entered %d iteration(s), the model's %d", obs.Iters, ref.Iters))
	}
	// executions started, collected, still running
	if !vh.CanonEq(obs.Entered, c03Sorted(append([]string{}, ref.Started...))) {
		dis("C03:cancel:executions-differ:"+mp, fmt.Sprintf("bodies entered %v, the model's run starts %v", obs.Entered, c03Sorted(append([]string{}, ref.Started...))))
	}
	if !vh.CanonEq(obs.PostHandled, c03Sorted(append([]string{}, ref.Collected...))) {
		dis("C03:cancel:collected-differs:"+mp, fmt.Sprintf("Invoke returned (%s) with the state post-handlers of %v run, the model's run has received %v", obs.Class, obs.PostHandled, c03Sorted(append([]string{}, ref.Collected...))))
	}
	wantRunning := c03Sorted(append([]string{}, ref.Uncollected...))
	if !vh.CanonEq(obs.Running, wantRunning) {
		dis("C03:cancel:running-after-return:"+mp, fmt.Sprintf("Invoke returned (%s) while node(s) %v were inside their bodies, the model leaves %v in flight", obs.Class, obs.Running, wantRunning))
	}
	if c.Eager && len(ref.Uncollected) > 0 && ref.Out == "cancelled" {
		ctx.Res.Dist("cancel:eager:in-flight-abandoned-on-cancel-return")
		if !c03cAbandonNoted {
			c03cAbandonNoted = true
			ctx.Res.Note("family cancel: an eager run that returns the context's error at the top of an iteration abandons the executions still in flight (they are never received); recorded as a note — the class of the known finding about eager runs that return early (model: cancelled_run_witness)")
		}
	}
	// trace
	if obs.TraceNum >= 0 {
		if obs.TraceProblem != "" {
			dis("C03:cancel:trace-nonconformance:"+c.Mode, "the real taskManager trace is not a run of the protocol model: "+obs.TraceProblem)
		} else if obs.TraceNum != len(ref.Uncollected) || !vh.CanonEq(append([]string{}, obs.TraceLost...), wantRunning) {
			obs.Trace = obs.events
			dis("C03:cancel:trace-uncollected:"+mp, fmt.Sprintf("task manager when Invoke returned: num=%d, submitted and not received %v; the model leaves %v in flight (every counted execution is collected exactly once; eager: except what the returning run leaves in flight)", obs.TraceNum, obs.TraceLost, wantRunning))
		}
	}
	return nil
}

// ---- generator ----

func c03cGen(r *vh.Rand, mode string) *c03cCase {
	g := c03Gen(r, mode)
	c := &c03cCase{Kind: "cancel", Nodes: g.Nodes, Input: g.Input, Mode: mode}
	// every sink feeds END
	hasSucc := map[string]bool{}
	for _, n := range c.Nodes {
		for _, p := range n.Preds {
			hasSucc[p] = true
		}
	}
	for _, n := range c.Nodes {
		if !hasSucc[n.Key] {
			c.EndPreds = append(c.EndPreds, n.Key)
		}
	}
	sort.Strings(c.EndPreds)
	for _, i := range r.Perm(len(c.Nodes)) {
		c.Priority = append(c.Priority, c.Nodes[i].Key)
	}
	node := c.Nodes[r.Intn(len(c.Nodes))].Key
	switch p := r.Intn(100); {
	case p < 40:
		c.Cancel = c03cAt{"pre", node}
	case p < 65:
		c.Cancel = c03cAt{"body", node}
	case p < 90:
		c.Cancel = c03cAt{"post", node}
	case p < 95:
		c.Cancel = c03cAt{Phase: "before"}
	default:
		c.Cancel = c03cAt{Phase: "never"}
	}
	c.CtxKind = "cancel"
	if r.Chance(30) {
		c.CtxKind = "deadline"
	}
	return c
}

func c03cDirected() []*c03cCase {
	st := []string{compose.START}
	two := []c03Node{{"a", st}, {"b", st}}
	var out []*c03cCase
	mk := func(mode string, nodes []c03Node, end, prio []string, at c03cAt, kind, note string) {
		out = append(out, &c03cCase{Kind: "cancel", Mode: mode, Input: "x", Nodes: nodes, EndPreds: end, Priority: prio, Cancel: at, CtxKind: kind, Note: note})
	}
	// the context ends while the tasks of a step are being prepared
	mk("pregel", two, []string{"a", "b"}, []string{"a", "b"}, c03cAt{"pre", "a"}, "cancel", "two parallel nodes, the context ends inside the state pre-handler of one of them")
	mk("workflow", two, []string{"a", "b"}, []string{"b", "a"}, c03cAt{"pre", "b"}, "cancel", "eager: the same")
	mk("dag", []c03Node{{"a", st}}, []string{"a"}, []string{"a"}, c03cAt{"pre", "a"}, "deadline", "a single task, run on the run-loop goroutine")
	mk("dag", two, []string{"a", "b"}, []string{"b", "a"}, c03cAt{"pre", "b"}, "deadline", "all-predecessor graph, deadline")
	mk("workflow", []c03Node{{"a", st}}, []string{"a"}, []string{"a"}, c03cAt{"pre", "a"}, "cancel", "eager: a single task")
	three := []c03Node{{"a1", st}, {"a2", st}, {"b1", []string{"a1", "a2"}}}
	for _, mode := range []string{"pregel", "workflow"} {
		mk(mode, three, []string{"b1"}, []string{"a2", "a1", "b1"}, c03cAt{"pre", "b1"}, "cancel", "the context ends while the second step is prepared: its value is still returned")
		mk(mode, three, []string{"b1"}, []string{"a2", "a1", "b1"}, c03cAt{"pre", "a2"}, "cancel", "the context ends while the first step is prepared: the first step is completed, then the error")
		mk(mode, three, []string{"b1"}, []string{"a1", "a2", "b1"}, c03cAt{"body", "a1"}, "cancel", "the context ends while the bodies run")
		mk(mode, three, []string{"b1"}, []string{"a1", "a2", "b1"}, c03cAt{"post", "a2"}, "deadline", "the context ends inside a state post-handler")
		mk(mode, three, []string{"b1"}, []string{"a1", "a2", "b1"}, c03cAt{Phase: "before"}, "cancel", "the context is done before the run")
		mk(mode, three, []string{"b1"}, []string{"a1", "a2", "b1"}, c03cAt{Phase: "never"}, "cancel", "control")
	}
	return out
}

func c03cReplay(ctx *vh.Ctx, raw json.RawMessage) error {
	var c c03cCase
	if err := json.Unmarshal(raw, &c); err != nil {
		return err
	}
	return c03cOne(ctx, &c)
}

func c03cFamily(ctx *vh.Ctx) error {
	ctx.Res.Rule += " | family cancel (kind=cancel): distinct = (mode, graph, completion priority, position at which the context ends, context kind); non-trivial = the position is reached and at least two executions are in flight at some point of the run"
	deadline := time.Now().Add(ctx.Budget * 8 / 100)
	live := func() bool { return ctx.TimeLeft() && time.Now().Before(deadline) && c03cHangs < 2 }
	for _, c := range c03cDirected() {
		if c03cHangs >= 2 || !ctx.TimeLeft() {
			break
		}
		if err := c03cOne(ctx, c); err != nil {
			return err
		}
	}
	n := ctx.N(150, 1200)
	modes := []string{"pregel", "workflow", "dag", "workflow"}
	for i := 0; i < n && live(); i++ {
		if err := c03cOne(ctx, c03cGen(ctx.Rng, modes[i%len(modes)])); err != nil {
			return err
		}
	}
	if c03cHangs > 0 {
		ctx.Res.Note(fmt.Sprintf("family cancel: %d hanging Invoke(s); the family stops after 2 (each costs the guard time of %v)", c03cHangs, c03cHangGuard))
	}
	return nil
}
