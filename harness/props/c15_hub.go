//go:build verif && (vh_all || vh_c15)

package props

import (
	"context"
	"encoding/json"
	"fmt"
	"io"
	"reflect"
	"sort"
	"strings"
	"time"

	"github.com/cloudwego/eino/compose"
	"github.com/cloudwego/eino/verifharness/vh"
)

// ---------------------------------------------------------------------------------------
// family "hub": several field-mapped edges leaving ONE predecessor whose type is inferred.
//
//	START --(whole value)--> [hub0 -->] hub --maps1--> c1 --(whole value => "c1")--> END
//	                                        --maps2--> c2 --(whole value => "c2")--> END  …
//
// The hub is a pass-through node (directly behind START, or behind a second pass-through) or, as a
// control, a typed identity lambda; each consumer is a pass-through node (its type is the hub's) or
// a typed identity lambda, with 1-2 field mappings (or the whole value) from the hub; END collects
// every consumer under its own key of a map[string]any.  END's inputs are declared last (a
// pass-through node is typed by the first typed neighbour that touches it, mappings or not: declared
// before the hub, END would type the consumers map[string]any); the other nodes in every order:
// compose replays the recorded inputs in node-declaration order, so whether the edges hub->ci are
// checked and installed one by one (hub typed first) or all in one pass of updateToValidateMap
// (consumers declared before the hub has a type) depends only on that order.  The property does
// not: every consumer receives exactly what ITS mappings denote on the hub's value, identically in
// Invoke and Stream and for every declaration order.
//
// Model: one oracle query per consumer (an ordinary mapping case: target type = source type = the
// hub's type, one declaration); the expected END value is the map of the consumers' inputs.
// ---------------------------------------------------------------------------------------

func init() {
	c15Extra = append(c15Extra, c15Family{name: "hub", run: c15hRun, replay: c15hReplay})
}

type c15hCons struct {
	Name string   `json:"name"`
	Kind string   `json:"kind"` // pass | lambda
	Maps []c15Map `json:"maps"` // none = the whole value
}

type c15hCase struct {
	Family    string     `json:"family"` // "hub"
	TyName    string     `json:"tyName"`
	Ty        c15J       `json:"ty"`
	Val       c15J       `json:"val"`
	Hub       string     `json:"hub"` // pass | pass-chain | lambda
	Consumers []c15hCons `json:"consumers"`
	Order     []string   `json:"order"` // declaration order of hub0 (pass-chain only), hub, the consumers, end
	Emb       [][]string `json:"emb,omitempty"`
}

type c15hRunRes struct {
	Class string          `json:"class"`
	Val   map[string]c15J `json:"val,omitempty"` // consumer name -> what END received under that key
	Info  string          `json:"info,omitempty"`
}

type c15hImpl struct {
	Compile     string       `json:"compile"`
	CompileErr  string       `json:"compileErr,omitempty"`
	Invoke      []c15hRunRes `json:"invoke,omitempty"` // distinct outcomes of the repeated runs
	Stream      *c15hRunRes  `json:"stream,omitempty"`
	SrcMutated  bool         `json:"srcMutated,omitempty"`
	BuildFailed string       `json:"buildFailed,omitempty"`
}

type c15hModel struct {
	Compile string      `json:"compile"`
	Invoke  *c15hRunRes `json:"invoke,omitempty"`
	Stream  *c15hRunRes `json:"stream,omitempty"`
	PerCons []*c15Model `json:"perConsumer,omitempty"`
}

var c15hRunners = map[string]func(c *c15hCase, v reflect.Value) *c15hImpl{}

func c15hReg[T any](name string) {
	c15hRunners[name] = func(c *c15hCase, v reflect.Value) *c15hImpl { return c15hRunT[T](c, v) }
}

func init() {
	c15hReg[C15Top]("Top")
	c15hReg[C15Mid]("Mid")
	c15hReg[C15Leaf]("Leaf")
	c15hReg[*C15Mid]("PMid")
	c15hReg[C15EmbV]("EmbV")
	c15hReg[map[string]any]("MapAny")
	c15hReg[map[string]string]("MapStr")
	c15hReg[C15Wrap]("Wrap")
}

func c15hKey(m map[string]c15J) string {
	keys := make([]string, 0, len(m))
	for k := range m {
		keys = append(keys, k)
	}
	sort.Strings(keys)
	var sb strings.Builder
	for _, k := range keys {
		sb.WriteString(k + "=" + vhCanonC15(m[k]) + ";")
	}
	return sb.String()
}

func c15hRunT[T any](c *c15hCase, v reflect.Value) *c15hImpl {
	impl := &c15hImpl{}
	var z *T
	rt := reflect.TypeOf(z).Elem()
	ctx := context.Background()
	input := v.Interface().(T)
	ident := func() *compose.Lambda {
		return compose.InvokableLambda(func(ctx context.Context, in T) (T, error) { return in, nil })
	}
	var r compose.Runnable[T, map[string]any]
	var cerr error
	if panicked, pv := vh.Safely(func() {
		wf := compose.NewWorkflow[T, map[string]any]()
		for _, name := range c.Order {
			switch name {
			case "end":
				for _, cs := range c.Consumers {
					wf.End().AddInput(cs.Name, compose.ToField(cs.Name))
				}
			case "hub0":
				wf.AddPassthroughNode("hub0").AddInput(compose.START)
			case "hub":
				pred := compose.START
				if c.Hub == "pass-chain" {
					pred = "hub0"
				}
				if c.Hub == "lambda" {
					wf.AddLambdaNode("hub", ident()).AddInput(pred)
				} else {
					wf.AddPassthroughNode("hub").AddInput(pred)
				}
			default:
				for _, cs := range c.Consumers {
					if cs.Name != name {
						continue
					}
					var ms []*compose.FieldMapping
					for _, m := range cs.Maps {
						ms = append(ms, c15Mapping(m))
					}
					if cs.Kind == "lambda" {
						wf.AddLambdaNode(cs.Name, ident()).AddInput("hub", ms...)
					} else {
						wf.AddPassthroughNode(cs.Name).AddInput("hub", ms...)
					}
				}
			}
		}
		r, cerr = wf.Compile(ctx)
	}); panicked {
		impl.Compile = "panic"
		impl.CompileErr = c15PanicClass(pv)
		return impl
	}
	if cerr != nil {
		impl.Compile = "reject"
		impl.CompileErr = cerr.Error()
		if len(impl.CompileErr) > 240 {
			impl.CompileErr = impl.CompileErr[:240]
		}
		return impl
	}
	impl.Compile = "accept"
	enc := func(out map[string]any) map[string]c15J {
		res := map[string]c15J{}
		for k, x := range out {
			if x != nil && reflect.TypeOf(x) != rt {
				res[k] = c15J{"k": "wrong-type", "t": reflect.TypeOf(x).String()}
				continue
			}
			res[k] = c15EncAny(x, rt)
		}
		return res
	}
	seen := map[string]bool{}
	for i := 0; i < 3; i++ {
		var run c15hRunRes
		finished := false
		panicked, pv := vh.Safely(func() {
			finished = vh.WithTimeout(20*time.Second, func() {
				out, err := r.Invoke(ctx, input)
				if err != nil {
					run = c15hRunRes{Class: "err"}
					c15Debug("hub invoke error: %.400v", err)
					return
				}
				run = c15hRunRes{Class: "ok", Val: enc(out)}
			})
		})
		if panicked {
			run = c15hRunRes{Class: "panic", Info: c15PanicClass(pv)}
		} else if !finished {
			run = c15hRunRes{Class: "hang"}
		}
		k := run.Class + c15hKey(run.Val)
		if !seen[k] {
			seen[k] = true
			impl.Invoke = append(impl.Invoke, run)
		}
		if run.Class == "hang" {
			break
		}
	}
	{
		var run c15hRunRes
		finished := false
		panicked, pv := vh.Safely(func() {
			finished = vh.WithTimeout(20*time.Second, func() {
				sr, err := r.Stream(ctx, input)
				if err != nil {
					run = c15hRunRes{Class: "err"}
					c15Debug("hub stream error: %.400v", err)
					return
				}
				defer sr.Close()
				merged := map[string]c15J{}
				for {
					chunk, err := sr.Recv()
					if err == io.EOF {
						break
					}
					if err != nil {
						run = c15hRunRes{Class: "err"}
						c15Debug("hub stream recv error: %.400v", err)
						return
					}
					for k, x := range enc(chunk) {
						if _, dup := merged[k]; dup {
							// a key delivered in two chunks: reported as a value difference
							k = k + "#2"
						}
						merged[k] = x
					}
				}
				run = c15hRunRes{Class: "ok", Val: merged}
			})
		})
		if panicked {
			run = c15hRunRes{Class: "panic", Info: c15PanicClass(pv)}
		} else if !finished {
			run = c15hRunRes{Class: "hang"}
		}
		impl.Stream = &run
	}
	if vhCanonC15(c15Enc(v)) != vhCanonC15(c.Val) {
		impl.SrcMutated = true
	}
	return impl
}

func c15hRunImpl(c *c15hCase) *c15hImpl {
	st, ok := c15Types[c.TyName]
	run, ok2 := c15hRunners[c.TyName]
	if !ok || !ok2 {
		return &c15hImpl{BuildFailed: "unknown hub type " + c.TyName}
	}
	v, err := c15Dec(c.Val, st.rt)
	if err != nil {
		return &c15hImpl{BuildFailed: err.Error()}
	}
	return run(c, v)
}

// c15hAsk: the model's answer, one mapping-family query per consumer
func c15hAsk(ctx *vh.Ctx, c *c15hCase) (*c15hModel, error) {
	m := &c15hModel{Compile: "accept"}
	inv := &c15hRunRes{Class: "ok", Val: map[string]c15J{}}
	str := &c15hRunRes{Class: "ok", Val: map[string]c15J{}}
	for _, cs := range c.Consumers {
		if len(cs.Maps) == 0 {
			m.PerCons = append(m.PerCons, nil)
			inv.Val[cs.Name] = c.Val
			str.Val[cs.Name] = c.Val
			continue
		}
		mc := &c15Case{TargetName: c.TyName, Target: c.Ty, Stream: "hub", Emb: c.Emb,
			Decls: []c15Decl{{Pred: "hub", TyName: c.TyName, Ty: c.Ty, Val: c.Val, Maps: cs.Maps}}}
		cm, err := c15Ask(ctx, mc)
		if err != nil {
			return nil, err
		}
		m.PerCons = append(m.PerCons, cm)
		if cm.Compile != "accept" {
			m.Compile = "reject"
			continue
		}
		if cm.Invoke == nil || cm.Invoke.Class != "ok" {
			if cm.Invoke != nil && cm.Invoke.Class == "panic" {
				inv.Class = "panic"
			} else if inv.Class == "ok" {
				inv.Class = "err"
			}
		} else {
			inv.Val[cs.Name] = cm.Invoke.Val
		}
		if cm.Stream == nil || cm.Stream.Class != "ok" || len(cm.StreamChunks) != 1 {
			if cm.Stream != nil && cm.Stream.Class == "panic" {
				str.Class = "panic"
			} else if str.Class == "ok" {
				str.Class = "err"
			}
		} else {
			str.Val[cs.Name] = cm.StreamChunks[0].Val
		}
	}
	if m.Compile == "accept" {
		if inv.Class != "ok" {
			inv.Val = nil
		}
		if str.Class != "ok" {
			str.Val = nil
		}
		m.Invoke, m.Stream = inv, str
	}
	return m, nil
}

// c15hShape: the part of the case that makes a disagreement specific: the kind of hub, whether
// some field-mapped consumer is declared before the hub has its type ("late": its edge waits in
// toValidateMap), one or several field-mapped consumers
func c15hShape(c *c15hCase) string {
	pos := map[string]int{}
	for i, n := range c.Order {
		pos[n] = i
	}
	typedAt := pos["hub"]
	if c.Hub == "pass-chain" && pos["hub0"] > typedAt {
		typedAt = pos["hub0"]
	}
	late, mapped := 0, 0
	for _, cs := range c.Consumers {
		if len(cs.Maps) == 0 {
			continue
		}
		mapped++
		if pos[cs.Name] < typedAt {
			late++
		}
	}
	typed := "early"
	if late == 1 {
		typed = "late:1"
	} else if late > 1 {
		typed = "late:2+"
	}
	n := "1"
	if mapped != 1 {
		n = "2+"
		if mapped == 0 {
			n = "0"
		}
	}
	return fmt.Sprintf(":hub=%s:typed=%s:mapped-consumers=%s", c.Hub, typed, n)
}

func c15hResEq(a, b *c15hRunRes) bool { return a.Class == b.Class && c15hKey(a.Val) == c15hKey(b.Val) }

func c15hCompare(c *c15hCase, model *c15hModel, impl *c15hImpl) []c15Finding {
	if impl.BuildFailed != "" {
		return []c15Finding{{"C15:hub:harness:build", impl.BuildFailed}}
	}
	sh := c15hShape(c)
	var fs []c15Finding
	if impl.Compile == "accept" && model.Compile == "reject" && c15hAliasOnPassthrough(c, model) {
		// one signature whatever the shape: the conflict check of a pass-through node compares the
		// target paths as written (its input type is not known yet when its AddInput is replayed)
		return []c15Finding{{"C15:hub:compile:impl=accept:model=reject:overlap:promoted-alias:pass-through-node",
			"overlapping targets spelled through a promoted field (ID next to C15Base / C15Base.ID) on a pass-through node that takes field mappings: canonicalTargetPath has no input type to resolve the selectors against when the node's AddInput is replayed (a pass-through node is typed by the edge added right after the conflict check), the paths are compared as written and Compile accepts; the result then depends on map iteration order"}}
	}
	if impl.Compile != model.Compile {
		return []c15Finding{{fmt.Sprintf("C15:hub:compile:impl=%s:model=%s%s", impl.Compile, model.Compile, sh),
			fmt.Sprintf("Workflow.Compile of the hub workflow: implementation %s (%s), model %s", impl.Compile, impl.CompileErr, model.Compile)}}
	}
	if impl.Compile != "accept" {
		return nil
	}
	if len(impl.Invoke) > 1 {
		fs = append(fs, c15Finding{"C15:hub:invoke:nondeterministic" + sh, fmt.Sprintf("%d different Invoke outcomes in 3 runs of one compiled workflow", len(impl.Invoke))})
	}
	if len(impl.Invoke) > 0 && model.Invoke != nil {
		r := impl.Invoke[0]
		if r.Class != model.Invoke.Class {
			info := ""
			if r.Info != "" {
				info = ":" + r.Info
			}
			fs = append(fs, c15Finding{fmt.Sprintf("C15:hub:invoke:impl=%s%s:model=%s%s", r.Class, info, model.Invoke.Class, sh),
				fmt.Sprintf("Invoke outcome class: implementation %s %s, model %s", r.Class, r.Info, model.Invoke.Class)})
		} else if r.Class == "ok" && !c15hResEq(&r, model.Invoke) {
			fs = append(fs, c15Finding{"C15:hub:invoke:value" + sh, "Invoke: some consumer of the hub did not receive what its own mappings denote on the hub's value (" + c15hDiff(model.Invoke.Val, r.Val) + ")"})
		}
	}
	if impl.Stream != nil && model.Stream != nil {
		if impl.Stream.Class != model.Stream.Class {
			info := ""
			if impl.Stream.Info != "" {
				info = ":" + impl.Stream.Info
			}
			fs = append(fs, c15Finding{fmt.Sprintf("C15:hub:stream:impl=%s%s:model=%s%s", impl.Stream.Class, info, model.Stream.Class, sh),
				fmt.Sprintf("Stream outcome class: implementation %s %s, model %s", impl.Stream.Class, impl.Stream.Info, model.Stream.Class)})
		} else if impl.Stream.Class == "ok" && !c15hResEq(impl.Stream, model.Stream) {
			fs = append(fs, c15Finding{"C15:hub:stream:value" + sh, "Stream: some consumer of the hub did not receive what its own mappings denote on the hub's value (" + c15hDiff(model.Stream.Val, impl.Stream.Val) + ")"})
		}
	}
	// the two paradigms of one compiled workflow, where the model says they deliver the same
	if len(impl.Invoke) > 0 && impl.Stream != nil && model.Invoke != nil && model.Stream != nil &&
		c15hResEq(model.Invoke, model.Stream) && impl.Invoke[0].Class == "ok" && impl.Stream.Class == "ok" && !c15hResEq(&impl.Invoke[0], impl.Stream) {
		fs = append(fs, c15Finding{"C15:hub:paradigms-differ:invoke-vs-stream" + sh, "Invoke and Stream of the same compiled workflow hand the consumers different inputs (" + c15hDiff(impl.Invoke[0].Val, impl.Stream.Val) + ")"})
	}
	if impl.SrcMutated {
		fs = append(fs, c15Finding{"C15:hub:source-mutated", "the workflow input was modified by the run"})
	}
	return fs
}

// c15hAliasOnPassthrough: every consumer the model rejects is a pass-through node whose target
// paths are textually unrelated while the slots they denote overlap (a promoted selector next to
// the explicit path, a prefix or an extension of it)
func c15hAliasOnPassthrough(c *c15hCase, model *c15hModel) bool {
	found := false
	for i, cs := range c.Consumers {
		if i >= len(model.PerCons) || model.PerCons[i] == nil || model.PerCons[i].Compile == "accept" {
			continue
		}
		mc := &c15Case{Decls: []c15Decl{{Maps: cs.Maps}}}
		if cs.Kind != "pass" || model.PerCons[i].OverlapFree || c15OverlapShape(mc) != "none" {
			return false
		}
		found = true
	}
	return found
}

func c15hDiff(want, got map[string]c15J) string {
	var ks []string
	for k := range want {
		if vhCanonC15(want[k]) != vhCanonC15(got[k]) {
			ks = append(ks, k)
		}
	}
	for k := range got {
		if _, ok := want[k]; !ok {
			ks = append(ks, k)
		}
	}
	sort.Strings(ks)
	return "differing keys: " + strings.Join(ks, ",")
}

func c15hEval(ctx *vh.Ctx, c *c15hCase) (*c15hModel, *c15hImpl, []c15Finding, error) {
	model, err := c15hAsk(ctx, c)
	if err != nil {
		return nil, nil, nil, err
	}
	impl := c15hRunImpl(c)
	return model, impl, c15hCompare(c, model, impl), nil
}

// c15hShrink drops consumers and mappings while a finding with the same signature persists.
func c15hShrink(ctx *vh.Ctx, c *c15hCase, sig string) *c15hCase {
	cur := c
	for changed := true; changed; {
		changed = false
		var cands []*c15hCase
		for i, cs := range cur.Consumers {
			if len(cur.Consumers) > 1 {
				n := *cur
				n.Consumers = append(append([]c15hCons{}, cur.Consumers[:i]...), cur.Consumers[i+1:]...)
				n.Order = nil
				for _, o := range cur.Order {
					if o != cs.Name {
						n.Order = append(n.Order, o)
					}
				}
				cands = append(cands, &n)
			}
			for j := range cs.Maps {
				if len(cs.Maps) > 1 {
					n := *cur
					n.Consumers = append([]c15hCons{}, cur.Consumers...)
					nc := cs
					nc.Maps = append(append([]c15Map{}, cs.Maps[:j]...), cs.Maps[j+1:]...)
					n.Consumers[i] = nc
					cands = append(cands, &n)
				}
			}
		}
		for _, n := range cands {
			ctx.Progress.Mark(n)
			_, _, fs, err := c15hEval(ctx, n)
			if err != nil {
				continue
			}
			for _, f := range fs {
				if f.sig == sig {
					cur, changed = n, true
				}
			}
			if changed {
				break
			}
		}
	}
	return cur
}

func c15hOne(ctx *vh.Ctx, c *c15hCase) error {
	ctx.Progress.Mark(c)
	model, impl, fs, err := c15hEval(ctx, c)
	if err != nil {
		return err
	}
	nm := 0
	for _, cs := range c.Consumers {
		nm += len(cs.Maps)
		ctx.Res.Dist("hub:consumer=" + cs.Kind)
		if len(cs.Maps) == 0 {
			ctx.Res.Dist("hub:consumer-takes-whole-value")
		}
	}
	ctx.Res.Dist("hub:type=" + c.TyName)
	ctx.Res.Dist(fmt.Sprintf("hub:consumers=%d", len(c.Consumers)))
	ctx.Res.Dist("hub:shape" + c15hShape(c))
	ctx.Res.Dist("hub:compile=" + impl.Compile)
	if model.Invoke != nil {
		ctx.Res.Dist("hub:model-invoke=" + model.Invoke.Class)
	}
	ctx.Res.Count("hub|"+c.TyName+"|"+c.Hub+"|"+strings.Join(c.Order, ",")+"|"+vhCanonC15(c.Consumers), len(c.Consumers) >= 2 && nm >= 2)
	ctx.Res.Sample(c)
	for _, f := range fs {
		if c15Reported[f.sig] >= 3 {
			ctx.Res.Dist("disagreement-suppressed")
			continue
		}
		c15Reported[f.sig]++
		sc := c
		if ctx.Replay == nil && c15Reported[f.sig] == 1 {
			sc = c15hShrink(ctx, c, f.sig)
		}
		sm, si, _, err := c15hEval(ctx, sc)
		if err != nil {
			return err
		}
		ctx.Res.Disagree(vh.Disagreement{Signature: f.sig, What: f.what, Case: sc, Model: sm, Impl: si})
	}
	return nil
}

func c15hReplay(ctx *vh.Ctx, raw json.RawMessage) (bool, error) {
	var probe struct {
		Family string `json:"family"`
	}
	if json.Unmarshal(raw, &probe) != nil || probe.Family != "hub" {
		return false, nil
	}
	var c c15hCase
	if err := json.Unmarshal(raw, &c); err != nil {
		return true, err
	}
	return true, c15hOne(ctx, &c)
}

var (
	c15hTypeNames   = []string{"Top", "Mid", "Leaf", "PMid", "EmbV", "MapAny", "MapStr", "Wrap"}
	c15hTypeWeights = []int{30, 14, 14, 6, 8, 12, 6, 8}
)

func c15hGenCase(r *vh.Rand) *c15hCase {
	tn := c15Pick(r, c15hTypeNames, c15hTypeWeights)
	st := c15Types[tn]
	v := c15GenVal(r, st.rt, 3)
	// a nil root has nothing to map
	for try := 0; try < 8 && (v.Kind() == reflect.Ptr || v.Kind() == reflect.Map) && v.IsNil(); try++ {
		v = c15GenVal(r, st.rt, 3)
	}
	c := &c15hCase{Family: "hub", TyName: tn, Ty: st.desc, Val: c15Enc(v), Emb: c15EmbTable}
	c.Hub = c15Pick(r, []string{"pass", "pass-chain", "lambda"}, []int{60, 25, 15})
	var sps, tps []c15PathInfo
	c15SourcePaths(v, 3, nil, false, &sps)
	c15TargetPaths(st.rt, 3, nil, false, &tps)
	nCons := []int{1, 2, 2, 2, 3, 3, 4}[r.Intn(7)]
	for i := 0; i < nCons; i++ {
		cs := c15hCons{Name: fmt.Sprintf("c%d", i+1), Kind: "pass"}
		if r.Chance(25) {
			cs.Kind = "lambda"
		}
		if !r.Chance(8) && len(sps) > 0 && len(tps) > 0 {
			var chosen [][]string
			for k, n := 0, r.Range(1, 2); k < n; k++ {
				var to c15PathInfo
				ok := false
				for try := 0; try < 10 && !ok; try++ {
					to = tps[r.Intn(len(tps))]
					ok = true
					for _, q := range chosen {
						if c15IsPrefix(q, to.path) || c15IsPrefix(to.path, q) {
							ok = false
						}
					}
				}
				if !ok {
					continue
				}
				var cands []c15PathInfo
				for _, s := range sps {
					if c15Compatible(s.ty, to.ty) && (s.ty == to.ty || r.Chance(30)) {
						cands = append(cands, s)
					}
				}
				if len(cands) == 0 {
					if !r.Chance(10) {
						continue
					}
					cands = sps
				}
				from := cands[r.Intn(len(cands))]
				chosen = append(chosen, to.path)
				cs.Maps = append(cs.Maps, c15Map{From: append([]string{}, from.path...), To: append([]string{}, to.path...)})
			}
		}
		if cs.Maps == nil {
			cs.Maps = []c15Map{}
		}
		c.Consumers = append(c.Consumers, cs)
	}
	var feed, consumers []string
	feed = []string{"hub"}
	if c.Hub == "pass-chain" {
		feed = []string{"hub0", "hub"}
		if r.Chance(50) {
			feed = []string{"hub", "hub0"}
		}
	}
	for _, cs := range c.Consumers {
		consumers = append(consumers, cs.Name)
	}
	var nodes []string
	switch r.Intn(5) {
	case 0:
		// the hub (and what feeds it) first: every edge is checked as soon as it is replayed
		nodes = append(append(append(nodes, feed...), consumers...), "end")
	case 1, 2:
		// the consumers first, the hub afterwards: the edges wait for the hub's type
		nodes = append(append(append(nodes, consumers...), feed...), "end")
	default:
		all := append(append([]string{}, feed...), consumers...)
		for _, j := range r.Perm(len(all)) {
			nodes = append(nodes, all[j])
		}
		nodes = append(nodes, "end")
	}
	c.Order = nodes
	return c
}

// fixed cases: three consumers of one record behind a late-typed hub (each its own field), the
// same with the hub declared first, two consumers with the hub behind a second pass-through
func c15hFixed() []*c15hCase {
	st := c15Types["Leaf"]
	v := reflect.ValueOf(C15Leaf{S: "a", N: 7})
	tt := c15Types["Top"]
	tv := reflect.ValueOf(C15Top{S: "s", N: 3, L: C15Leaf{S: "l", N: 1}, PL: &C15Leaf{S: "pl", N: 9}, Mid: C15Mid{S: "mid"}})
	m := func(from, to string) c15Map { return c15Map{From: strings.Split(from, "."), To: strings.Split(to, ".")} }
	cons := func(kinds string, maps ...[]c15Map) []c15hCons {
		var out []c15hCons
		for i, ms := range maps {
			k := "pass"
			if i < len(kinds) && kinds[i] == 'l' {
				k = "lambda"
			}
			out = append(out, c15hCons{Name: fmt.Sprintf("c%d", i+1), Kind: k, Maps: ms})
		}
		return out
	}
	leaf := func(hub string, order []string, cs []c15hCons) *c15hCase {
		return &c15hCase{Family: "hub", TyName: "Leaf", Ty: st.desc, Val: c15Enc(v), Hub: hub, Consumers: cs, Order: order, Emb: c15EmbTable}
	}
	top := func(hub string, order []string, cs []c15hCons) *c15hCase {
		return &c15hCase{Family: "hub", TyName: "Top", Ty: tt.desc, Val: c15Enc(tv), Hub: hub, Consumers: cs, Order: order, Emb: c15EmbTable}
	}
	two := cons("pp", []c15Map{m("S", "S")}, []c15Map{m("N", "N")})
	three := cons("ppp", []c15Map{m("S", "Mid.S")}, []c15Map{m("L", "Mid.L"), m("N", "N")}, []c15Map{m("PL.S", "L.S")})
	return []*c15hCase{
		leaf("pass", []string{"c1", "c2", "hub", "end"}, two),
		leaf("pass", []string{"hub", "c1", "c2", "end"}, two),
		leaf("pass", []string{"c2", "c1", "hub", "end"}, two),
		leaf("pass-chain", []string{"c1", "c2", "hub", "hub0", "end"}, two),
		leaf("lambda", []string{"c1", "c2", "hub", "end"}, two),
		top("pass", []string{"c1", "c2", "c3", "hub", "end"}, three),
		top("pass", []string{"hub", "c1", "c2", "c3", "end"}, three),
		top("pass", []string{"c3", "hub", "c1", "c2", "end"}, three),
		top("pass", []string{"c1", "c2", "c3", "hub", "end"}, cons("plp", three[0].Maps, three[1].Maps, three[2].Maps)),
		top("pass-chain", []string{"c1", "hub0", "c2", "c3", "hub", "end"}, three),
	}
}

func c15hRun(ctx *vh.Ctx) error {
	ctx.Res.Rule += " || family hub: START -> [pass-through ->] hub (pass-through, or a typed identity lambda as control) -> 1-4 consumers (pass-through nodes, typed by the hub, or typed identity lambdas) each with 1-2 field mappings from the hub (or the whole value) -> END collecting every consumer under its own key; hub value of type Top / Mid / *Mid / Leaf / EmbV / map[string]any / map[string]string / Deep; the nodes declared hub-first, consumers-first (the edges hub->consumer are then resolved together once the hub is typed) and in random order; per case: Compile class, 3 Invoke runs, Stream (chunks merged by key), each compared with the per-consumer model value and with each other"
	for _, c := range c15hFixed() {
		if err := c15hOne(ctx, c); err != nil {
			return err
		}
	}
	n := ctx.N(500, 15000)
	rng := ctx.Rng.Fork()
	deadline := time.Now().Add(ctx.Budget * 8 / 100)
	for i := 0; i < n && time.Now().Before(deadline) && ctx.TimeLeft(); i++ {
		if err := c15hOne(ctx, c15hGenCase(rng)); err != nil {
			return err
		}
	}
	return nil
}
