//go:build verif && (vh_all || vh_c03)

package props

// C03, family "brjoin": Workflows (eager execution) with BRANCHES under forced completion
// orders.  The graphs of the other C03 families have no branches; here join nodes mix ends of
// branches (selected and not selected) with plain dependencies, and the two kinds of
// predecessors run concurrently, so that a "skip" report and a "ready" report reach the same
// join node in completion order.
//
// One case = a workflow in the case language of the C02 workflow family (gcase.Workflow: nodes,
// dependencies in | dep | data, single / multi branches with a selection table) + a list of
// completion priorities (every priority comes with its reverse, so any two concurrently
// running nodes finish in both orders).  The reference is the shared engine model
// (Model/Engine.lean + Model/C02Workflow.lean: compileW, runEager with a priority Pick,
// Oracle/C03Branch.lean), the model the theorems workflow_result_completion_order_independent /
// compiled_workflow_result_completion_order_independent of Props/C03.lean are about.
//
// Every run of the implementation is driven in lock step with the model's run under the same
// priority: the i-th completion is released only when the run loop has reached its i-th
// iteration (step events of compose.VerifRecorder) and has submitted exactly the tasks the
// model submits there, and all of them are inside their bodies; the next one only after the
// state post-handler of the released node ran (= the run loop has collected it).  A deviation
// ends the script (all gates are opened) and is reported with the step at which it occurred.
// Compared: per run the result with the model's run; over the runs of one workflow: all
// successful runs return the same value (the clause "the result does not depend on the order
// in which concurrently running nodes finish").

import (
	"context"
	"encoding/json"
	"fmt"
	"runtime"
	"sort"
	"strings"
	"sync"
	"time"

	"github.com/cloudwego/eino/compose"
	"github.com/cloudwego/eino/verifharness/gcase"
	"github.com/cloudwego/eino/verifharness/vh"
)

func init() {
	c03Extra = append(c03Extra, c03Family{Kind: "brjoin", Run: c03jFamily, Replay: c03jReplay})
}

type c03jCase struct {
	Kind   string          `json:"kind"` // brjoin
	Mode   string          `json:"mode"` // workflow (eager; field w) | dag (all-predecessor Graph in batch mode; field g)
	W      *gcase.Workflow `json:"w,omitempty"`
	G      *gcase.Graph    `json:"g,omitempty"`
	Input  string          `json:"input"`
	Orders [][]string      `json:"orders"`
	Shape  string          `json:"shape,omitempty"` // join | random
	Note   string          `json:"note,omitempty"`
}

type c03jModelRun struct {
	Result    gcase.ResultJ `json:"result"`
	Batches   [][]string    `json:"batches"`
	Order     []string      `json:"order"`
	Abandoned []string      `json:"abandoned"`
}

type c03jModel struct {
	Runs []c03jModelRun `json:"runs"`
	Same bool           `json:"same"`
	// mode dag: the model's run and the failures other completion orders may report
	Result *gcase.ResultJ  `json:"result,omitempty"`
	Alts   []gcase.ResultJ `json:"alts,omitempty"`
	WF   bool           `json:"wf"`
	WF2  bool           `json:"wf2"`
	WF3  bool           `json:"wf3"`
	GWF  bool           `json:"gwf"`
}

type c03jRunObs struct {
	Priority  []string      `json:"priority"`
	Class     string        `json:"class"` // ran | hang | panic-escaped | build-error | compile-error
	Detail    string        `json:"detail,omitempty"`
	Result    gcase.ResultJ `json:"result"`
	Entered   []string      `json:"entered"`             // bodies entered, in order of entry
	Completed []string      `json:"completed"`           // nodes collected by the run loop (post-handlers), in order
	Steps     [][]string    `json:"steps"`               // tasks submitted by each iteration of the run loop
	Deviation string        `json:"deviation,omitempty"` // where the run left the model's run
	Script    string        `json:"script"`              // followed | deviated | returned-early
}

type c03jObs struct {
	Runs []*c03jRunObs `json:"runs"`
}

type c03jState struct{}

// one run of the implementation
type c03jRun struct {
	mu        sync.Mutex
	cond      *sync.Cond
	active    int
	entered   []string
	completed []string
	started   map[string]chan struct{}
	startOnce map[string]*sync.Once
	collected map[string]chan struct{}
	collOnce  map[string]*sync.Once
	gate      map[string]chan struct{}
	gateOnce  map[string]*sync.Once
	left      map[string]chan struct{}
	leftOnce  map[string]*sync.Once
	free      chan struct{} // closed: every gate is open
	freeOnce  sync.Once
	runDone   chan struct{}
	closed    bool
}

func c03jNewRun(keys []string) *c03jRun {
	r := &c03jRun{started: map[string]chan struct{}{}, startOnce: map[string]*sync.Once{}, collected: map[string]chan struct{}{},
		collOnce: map[string]*sync.Once{}, gate: map[string]chan struct{}{}, gateOnce: map[string]*sync.Once{},
		left: map[string]chan struct{}{}, leftOnce: map[string]*sync.Once{},
		free: make(chan struct{}), runDone: make(chan struct{})}
	r.cond = sync.NewCond(&r.mu)
	for _, k := range keys {
		r.started[k] = make(chan struct{})
		r.startOnce[k] = &sync.Once{}
		r.collected[k] = make(chan struct{})
		r.collOnce[k] = &sync.Once{}
		r.gate[k] = make(chan struct{})
		r.gateOnce[k] = &sync.Once{}
		r.left[k] = make(chan struct{})
		r.leftOnce[k] = &sync.Once{}
	}
	return r
}

func (r *c03jRun) open(k string) {
	if o, ok := r.gateOnce[k]; ok {
		o.Do(func() { close(r.gate[k]) })
	}
}

func (r *c03jRun) freeAll() { r.freeOnce.Do(func() { close(r.free) }) }

func (r *c03jRun) enter(key string) {
	r.mu.Lock()
	r.active++
	if !r.closed {
		r.entered = append(r.entered, key)
	}
	r.mu.Unlock()
	r.startOnce[key].Do(func() { close(r.started[key]) })
	select {
	case <-r.gate[key]:
	case <-r.free:
	}
}

func (r *c03jRun) leave(key string) {
	r.mu.Lock()
	r.active--
	r.cond.Broadcast()
	r.mu.Unlock()
	if o, ok := r.leftOnce[key]; ok {
		o.Do(func() { close(r.left[key]) })
	}
}

func (r *c03jRun) collect(key string) {
	r.mu.Lock()
	if !r.closed {
		r.completed = append(r.completed, key)
	}
	r.mu.Unlock()
	r.collOnce[key].Do(func() { close(r.collected[key]) })
}

func c03jOutKey(from string) string {
	if from == "start" {
		return "in"
	}
	return from
}

// c03jBuild: the compose.Workflow of the case (the declarations of gcase.BuildWorkflow) with
// this family's gates in the node bodies and a state post-handler per node as the observer of
// "collected by the run loop".
func c03jBuild(w *gcase.Workflow, r *c03jRun) (*compose.Workflow[gcase.M, gcase.M], error) {
	wf := compose.NewWorkflow[gcase.M, gcase.M](compose.WithGenLocalState(func(ctx context.Context) *c03jState { return &c03jState{} }))
	dataPreds := map[string]int{}
	for _, d := range w.Deps {
		if d.Kind == "in" || d.Kind == "data" {
			dataPreds[d.To]++
		}
	}
	nodeOf := map[string]*gcase.WNode{}
	handles := map[string]*compose.WorkflowNode{}
	for i := range w.Nodes {
		n := w.Nodes[i]
		nodeOf[n.Key] = &w.Nodes[i]
		f := func(ctx context.Context, in gcase.M) (gcase.M, error) {
			r.enter(n.Key)
			defer r.leave(n.Key)
			if n.Body.Op == "fail" {
				return nil, &gcase.UserErr{ID: n.Body.ID}
			}
			return gcase.TagBody(n.Key, in), nil
		}
		h := wf.AddLambdaNode(n.Key, compose.InvokableLambda(f), compose.WithStatePostHandler(func(ctx context.Context, out gcase.M, s *c03jState) (gcase.M, error) {
			r.collect(n.Key)
			return out, nil
		}))
		if n.Static != "" {
			h.SetStaticValue(compose.FieldPath{"s_" + n.Key}, n.Static)
		}
		handles[n.Key] = h
	}
	handles["end"] = wf.End()
	for _, d := range w.Deps {
		h, ok := handles[d.To]
		if !ok {
			return nil, fmt.Errorf("dependency to unknown node %s", d.To)
		}
		from := d.From
		if from == "start" {
			from = compose.START
		}
		whole := false
		if d.To == "end" {
			whole = w.EndWhole && dataPreds["end"] == 1
		} else if n := nodeOf[d.To]; n != nil {
			whole = n.Whole && dataPreds[d.To] == 1 && n.Static == ""
		}
		var maps []*compose.FieldMapping
		if !whole {
			maps = []*compose.FieldMapping{compose.MapFields(c03jOutKey(d.From), c03jOutKey(d.From))}
		}
		switch d.Kind {
		case "in":
			h.AddInput(from, maps...)
		case "dep":
			h.AddDependency(from)
		case "data":
			h.AddInputWithOptions(from, maps, compose.WithNoDirectDependency())
		default:
			return nil, fmt.Errorf("bad dependency kind %s", d.Kind)
		}
	}
	for i := range w.Branches {
		b := w.Branches[i]
		ends := map[string]bool{}
		for _, e := range b.Ends {
			if e == "end" {
				e = compose.END
			}
			ends[e] = true
		}
		from := b.From
		if from == "start" {
			from = compose.START
		}
		var br *compose.GraphBranch
		if b.Multi {
			br = compose.NewGraphMultiBranch(func(ctx context.Context, in gcase.M) (map[string]bool, error) {
				if b.Fail != nil {
					return nil, &gcase.BranchErr{ID: *b.Fail}
				}
				out := map[string]bool{}
				for _, t := range gcase.Pick(b.Table, in) {
					out[t] = true
				}
				return out, nil
			}, ends)
		} else {
			br = compose.NewGraphBranch(func(ctx context.Context, in gcase.M) (string, error) {
				if b.Fail != nil {
					return "", &gcase.BranchErr{ID: *b.Fail}
				}
				row := gcase.Pick(b.Table, in)
				if len(row) != 1 {
					return "", fmt.Errorf("harness: single branch row must have one target")
				}
				return row[0], nil
			}, ends)
		}
		wf.AddBranch(from, br)
	}
	return wf, nil
}

// the step events of the top-level run loop: node keys submitted by each iteration, sorted
func c03jSteps(rec *compose.VerifRecorder) [][]string {
	out := [][]string{}
	for _, ev := range rec.Snapshot() {
		if ev.Step < 0 || len(ev.Path) > 0 {
			continue
		}
		ks := append([]string{}, ev.Keys...)
		sort.Strings(ks)
		out = append(out, ks)
	}
	return out
}

// poll waits until cond holds; false when the run returned first
func (r *c03jRun) poll(cond func() bool) bool {
	for i := 0; ; i++ {
		if cond() {
			return true
		}
		select {
		case <-r.runDone:
			return cond()
		default:
		}
		if i < 200 {
			runtime.Gosched()
		} else {
			time.Sleep(50 * time.Microsecond) // polling an event of the implementation, not a synchronisation by delay
		}
	}
}

func (r *c03jRun) wait(ch <-chan struct{}) bool {
	select {
	case <-ch:
		return true
	case <-r.runDone:
		select {
		case <-ch:
			return true
		default:
			return false
		}
	}
}

// releaser drives the run in lock step with the model's run m.
func (r *c03jRun) releaser(m *c03jModelRun, rec *compose.VerifRecorder, ro *c03jRunObs, done chan struct{}) {
	defer close(done)
	set := func(script, dev string) {
		r.mu.Lock()
		ro.Script, ro.Deviation = script, dev
		r.mu.Unlock()
	}
	for i, k := range m.Order {
		// the run loop is in its i-th iteration and submits what the model submits there
		if !r.poll(func() bool { return len(c03jSteps(rec)) > i }) {
			set("returned-early", fmt.Sprintf("the run returned before iteration %d of the run loop (the model's run collects %v)", i, m.Order))
			return
		}
		got := c03jSteps(rec)[i]
		want := []string{}
		if i < len(m.Batches) {
			want = append(want, m.Batches[i]...)
		}
		sort.Strings(want)
		if !vh.CanonEq(got, want) {
			set("deviated", fmt.Sprintf("iteration %d of the run loop (after the completions %v) submitted %v, the model submits %v", i, m.Order[:i], got, want))
			r.freeAll()
			return
		}
		for _, s := range got {
			if ch, ok := r.started[s]; ok && !r.wait(ch) {
				set("returned-early", fmt.Sprintf("the run returned before submitted node %s entered its body", s))
				return
			}
		}
		r.open(k)
		if i == len(m.Order)-1 {
			break // the completion that ends the run (result or error)
		}
		if !r.wait(r.collected[k]) {
			set("returned-early", fmt.Sprintf("the run returned before completion #%d (%s) was collected; the model's run goes on with %v", i, k, m.Order[i+1:]))
			return
		}
	}
	set("followed", "")
}

func c03jRunOnce(c *c03jCase, prio []string, m *c03jModelRun) *c03jRunObs {
	ro := &c03jRunObs{Priority: prio, Entered: []string{}, Completed: []string{}, Steps: [][]string{}}
	r := c03jNewRun(c03jKeys(c.W))
	var wf *compose.Workflow[gcase.M, gcase.M]
	var err error
	if p, pv := vh.Safely(func() { wf, err = c03jBuild(c.W, r) }); p {
		ro.Class, ro.Detail = "build-error", fmt.Sprint("panic: ", pv)
		return ro
	}
	if err != nil {
		ro.Class, ro.Detail = "build-error", err.Error()
		return ro
	}
	ctx := context.Background()
	var run compose.Runnable[gcase.M, gcase.M]
	if p, pv := vh.Safely(func() { run, err = wf.Compile(ctx) }); p {
		ro.Class, ro.Detail = "compile-error", fmt.Sprint("panic: ", pv)
		return ro
	}
	if err != nil {
		ro.Class, ro.Detail = "compile-error", err.Error()
		return ro
	}
	rec := &compose.VerifRecorder{}
	rctx := compose.VerifWithRecorder(ctx, rec)
	compose.VerifC03Reset(0, false)
	relDone := make(chan struct{})
	go r.releaser(m, rec, ro, relDone)
	var res gcase.M
	var runErr error
	finished := false
	panicked, pv := vh.Safely(func() {
		finished = vh.WithTimeout(20*time.Second, func() {
			res, runErr = run.Invoke(rctx, gcase.M{"in": c.Input})
			r.mu.Lock()
			r.closed = true // what has been observed up to the return of the run
			r.mu.Unlock()
		})
	})
	r.mu.Lock()
	r.closed = true
	ro.Entered = append(ro.Entered, r.entered...)
	ro.Completed = append(ro.Completed, r.completed...)
	r.mu.Unlock()
	close(r.runDone)
	<-relDone
	r.freeAll() // stragglers leave their bodies
	quiet := make(chan struct{})
	go func() {
		r.mu.Lock()
		for r.active > 0 {
			r.cond.Wait()
		}
		r.mu.Unlock()
		close(quiet)
	}()
	select {
	case <-quiet:
	case <-time.After(10 * time.Second):
	}
	ro.Steps = c03jSteps(rec)
	switch {
	case panicked:
		ro.Class, ro.Detail = "panic-escaped", fmt.Sprint(pv)
	case !finished:
		ro.Class = "hang"
	default:
		ro.Class = "ran"
		if runErr != nil {
			ro.Result = gcase.Classify(runErr)
		} else {
			s := gcase.Render(res)
			ro.Result = gcase.ResultJ{Ok: &s}
		}
	}
	return ro
}

func c03jNorm(r gcase.ResultJ) gcase.ResultJ {
	if r.Path == nil {
		r.Path = []string{}
	}
	return r
}

var c03jHangs int

func c03jOne(ctx *vh.Ctx, c *c03jCase) error {
	if c.Mode == "" {
		c.Mode = "workflow"
	}
	if c.Mode == "dag" {
		return c03jOneDag(ctx, c)
	}
	ctx.Progress.Mark(c)
	raw, err := ctx.Oracle.Ask("C03", c)
	if err != nil {
		return err
	}
	var model c03jModel
	if err := json.Unmarshal(raw, &model); err != nil {
		return fmt.Errorf("oracle brjoin answer: %v: %s", err, raw)
	}
	if len(model.Runs) != len(c.Orders) {
		return fmt.Errorf("oracle brjoin answer: %d runs for %d orders", len(model.Runs), len(c.Orders))
	}
	obs := &c03jObs{}
	dis := func(sig, what string) {
		ctx.Res.Disagree(vh.Disagreement{Signature: sig, What: what, Case: c, Model: model, Impl: obs})
	}
	// shape of the case: joins with mixed predecessors, completion orders that differ
	nontrivial := c03jMixedJoin(c.W) && len(c.W.Branches) > 0
	distinctOrders := map[string]bool{}
	for _, m := range model.Runs {
		distinctOrders[strings.Join(m.Order, ",")] = true
	}
	wj, _ := json.Marshal(c.W)
	ctx.Res.Count(fmt.Sprintf("brjoin|%s|%s|%v", wj, c.Input, c.Orders), nontrivial && len(distinctOrders) >= 2)
	ctx.Res.Dist("family:brjoin")
	ctx.Res.Dist("brjoin:shape:" + c.Shape)
	ctx.Res.Dist(fmt.Sprintf("brjoin:nodes:%d", len(c.W.Nodes)))
	ctx.Res.Dist(fmt.Sprintf("brjoin:branches:%d", len(c.W.Branches)))
	ctx.Res.Dist(fmt.Sprintf("brjoin:distinct-completion-orders:%d", len(distinctOrders)))
	if nontrivial {
		ctx.Res.Dist("brjoin:join-with-branch-end-and-plain-dependency")
	}
	if !model.WF || !model.WF2 || !model.WF3 {
		ctx.Res.Dist("brjoin:model:outside-theorem-hypotheses")
	}
	if !model.Same {
		// the model itself is schedule dependent on this case: outside the theorems' hypotheses
		// (never the case for what the generator produces; reported, since it would make the
		// comparison below meaningless)
		dis("C03:brjoin:model-order-dependent", "the engine model returns different values under two completion orders (the case must be outside WorkflowDefWF)")
		return nil
	}
	ctx.Res.Sample(c)
	okValues := map[string][]string{}
	for i, prio := range c.Orders {
		if c03jHangs >= 2 {
			break
		}
		m := &model.Runs[i]
		m.Result = c03jNorm(m.Result)
		ro := c03jRunOnce(c, prio, m)
		obs.Runs = append(obs.Runs, ro)
		ctx.Res.Dist("brjoin:class:" + ro.Class)
		switch ro.Class {
		case "build-error", "compile-error":
			dis("C03:brjoin:build-error", "the generated workflow does not build / compile: "+ro.Detail)
			return nil
		case "hang":
			c03jHangs++
			dis("C03:brjoin:hang", fmt.Sprintf("Invoke did not return within 20 s under the completion priority %v", prio))
			continue
		case "panic-escaped":
			dis("C03:brjoin:panic-escaped", "a panic escaped Invoke: "+ro.Detail)
			continue
		}
		ro.Result = c03jNorm(ro.Result)
		ctx.Res.Dist("brjoin:script:" + ro.Script)
		if ro.Result.Ok != nil {
			okValues[*ro.Result.Ok] = append(okValues[*ro.Result.Ok], strings.Join(prio, ","))
			ctx.Res.Dist("brjoin:result:ok")
		} else {
			ctx.Res.Dist("brjoin:result:error")
		}
		if !vh.CanonEq(ro.Result, m.Result) {
			what := "the result of the workflow run differs from the model's run under the same completion order"
			if ro.Deviation != "" {
				what += " (" + ro.Deviation + ")"
			}
			dis("C03:brjoin:result-differs:workflow", what)
			continue
		}
		if ro.Script != "followed" {
			dis("C03:brjoin:executions-differ:workflow", "same result, but the run left the model's run under the same completion order: "+ro.Deviation)
		}
	}
	if len(okValues) > 1 {
		var parts []string
		for v, ps := range okValues {
			parts = append(parts, fmt.Sprintf("%s under priorities %v", v, ps))
		}
		sort.Strings(parts)
		dis("C03:brjoin:result-depends-on-completion-order:workflow",
			"two successful runs of the same workflow on the same input return different values, depending on the order in which concurrently running nodes finish: "+strings.Join(parts, " | "))
	}
	return nil
}

// ---- mode dag: an all-predecessor Graph with branches, batch execution ----

// the node keys of a graph case whose bodies are gated (pass-through nodes have no body)
func c03jGraphKeys(g *gcase.Graph) []string {
	ks := []string{}
	for _, n := range g.Nodes {
		if n.Body.Op == "tag" || n.Body.Op == "fail" {
			ks = append(ks, n.Key)
		}
	}
	return ks
}

// releaserDag follows the supersteps of the implementation: the gated nodes of every step are
// released in priority order, each after the previous one has returned and its executor has
// pushed the finished task (so the order of the `finish` events, which is the order in which
// waitAll hands the step back, is the priority order).
func (r *c03jRun) releaserDag(prio []string, rec *compose.VerifRecorder, done chan struct{}) {
	defer close(done)
	for i := 0; ; i++ {
		if !r.poll(func() bool { return len(c03jSteps(rec)) > i }) {
			return
		}
		var step []string
		for _, k := range c03jSteps(rec)[i] {
			if _, ok := r.gate[k]; ok {
				step = append(step, k)
			}
		}
		for _, k := range step {
			if !r.wait(r.started[k]) {
				return
			}
		}
		for _, k := range c03fPrio(prio, step) {
			r.open(k)
			if !r.wait(r.left[k]) {
				return
			}
			if !c03WaitPushed(k, r.runDone) {
				return
			}
		}
	}
}

func c03jRunDag(c *c03jCase, prio []string) *c03jRunObs {
	ro := &c03jRunObs{Priority: prio, Entered: []string{}, Completed: []string{}, Steps: [][]string{}, Script: "followed"}
	r := c03jNewRun(c03jGraphKeys(c.G))
	bo := &gcase.BuildOpts{Wrap: func(path string, f func(ctx context.Context, in gcase.M) (gcase.M, error)) func(ctx context.Context, in gcase.M) (gcase.M, error) {
		return func(ctx context.Context, in gcase.M) (gcase.M, error) {
			if _, ok := r.gate[path]; ok {
				r.enter(path)
				defer r.leave(path)
			}
			return f(ctx, in)
		}
	}}
	var cg *compose.Graph[gcase.M, gcase.M]
	var err error
	if p, pv := vh.Safely(func() { cg, err = gcase.Build(c.G, "", bo) }); p {
		ro.Class, ro.Detail = "build-error", fmt.Sprint("panic: ", pv)
		return ro
	}
	if err != nil {
		ro.Class, ro.Detail = "build-error", err.Error()
		return ro
	}
	ctx := context.Background()
	var run compose.Runnable[gcase.M, gcase.M]
	if p, pv := vh.Safely(func() { run, err = cg.Compile(ctx, gcase.CompileOpts(c.G)...) }); p {
		ro.Class, ro.Detail = "compile-error", fmt.Sprint("panic: ", pv)
		return ro
	}
	if err != nil {
		ro.Class, ro.Detail = "compile-error", err.Error()
		return ro
	}
	grec := gcase.NewRecorder()
	rctx := grec.Ctx(ctx)
	compose.VerifC03Reset(0, false)
	relDone := make(chan struct{})
	go r.releaserDag(prio, grec.Steps, relDone)
	var res gcase.M
	var runErr error
	finished := false
	panicked, pv := vh.Safely(func() {
		finished = vh.WithTimeout(20*time.Second, func() {
			res, runErr = run.Invoke(rctx, gcase.M{"in": c.Input})
			r.mu.Lock()
			r.closed = true
			r.mu.Unlock()
		})
	})
	r.mu.Lock()
	r.closed = true
	ro.Entered = append(ro.Entered, r.entered...)
	r.mu.Unlock()
	close(r.runDone)
	<-relDone
	r.freeAll()
	quiet := make(chan struct{})
	go func() {
		r.mu.Lock()
		for r.active > 0 {
			r.cond.Wait()
		}
		r.mu.Unlock()
		close(quiet)
	}()
	select {
	case <-quiet:
	case <-time.After(10 * time.Second):
	}
	ro.Steps = c03jSteps(grec.Steps)
	switch {
	case panicked:
		ro.Class, ro.Detail = "panic-escaped", fmt.Sprint(pv)
	case !finished:
		ro.Class = "hang"
	default:
		ro.Class = "ran"
		if runErr != nil {
			ro.Result = gcase.Classify(runErr)
		} else {
			s := gcase.Render(res)
			ro.Result = gcase.ResultJ{Ok: &s}
		}
	}
	return ro
}

// a node that is an end of a branch and also has an edge from another node
func c03jMixedJoinGraph(g *gcase.Graph) bool {
	for _, b := range g.Branches {
		for _, e := range b.Ends {
			for _, ed := range g.Edges {
				if ed[1] == e && ed[0] != b.From {
					return true
				}
			}
			for _, b2 := range g.Branches {
				if b2.From != b.From {
					for _, e2 := range b2.Ends {
						if e2 == e {
							return true
						}
					}
				}
			}
		}
	}
	return false
}

func c03jOneDag(ctx *vh.Ctx, c *c03jCase) error {
	ctx.Progress.Mark(c)
	raw, err := ctx.Oracle.Ask("C03", c)
	if err != nil {
		return err
	}
	var model c03jModel
	if err := json.Unmarshal(raw, &model); err != nil || model.Result == nil {
		return fmt.Errorf("oracle brjoin (dag) answer: %v: %s", err, raw)
	}
	want := c03jNorm(*model.Result)
	obs := &c03jObs{}
	dis := func(sig, what string) {
		ctx.Res.Disagree(vh.Disagreement{Signature: sig, What: what, Case: c, Model: model, Impl: obs})
	}
	nontrivial := c03jMixedJoinGraph(c.G)
	gj, _ := json.Marshal(c.G)
	ctx.Res.Count(fmt.Sprintf("brjoin|dag|%s|%s|%v", gj, c.Input, c.Orders), nontrivial && len(c.Orders) >= 2)
	ctx.Res.Dist("family:brjoin")
	ctx.Res.Dist("brjoin:dag:shape:" + c.Shape)
	ctx.Res.Dist(fmt.Sprintf("brjoin:dag:branches:%d", len(c.G.Branches)))
	if nontrivial {
		ctx.Res.Dist("brjoin:dag:join-with-branch-end-and-edge")
	}
	ctx.Res.Sample(c)
	okValues := map[string][]string{}
	for _, prio := range c.Orders {
		if c03jHangs >= 2 {
			break
		}
		ro := c03jRunDag(c, prio)
		obs.Runs = append(obs.Runs, ro)
		ctx.Res.Dist("brjoin:dag:class:" + ro.Class)
		switch ro.Class {
		case "build-error", "compile-error":
			// what the random graph generator produces is "mostly valid": a case that does not
			// compile exercises nothing
			ctx.Res.Dist("brjoin:dag:does-not-compile")
			return nil
		case "hang":
			c03jHangs++
			dis("C03:brjoin:hang:dag", fmt.Sprintf("Invoke did not return within 20 s under the completion priority %v", prio))
			continue
		case "panic-escaped":
			dis("C03:brjoin:panic-escaped:dag", "a panic escaped Invoke: "+ro.Detail)
			continue
		}
		ro.Result = c03jNorm(ro.Result)
		if ro.Result.Ok != nil {
			okValues[*ro.Result.Ok] = append(okValues[*ro.Result.Ok], strings.Join(prio, ","))
			ctx.Res.Dist("brjoin:dag:result:ok")
		} else {
			ctx.Res.Dist("brjoin:dag:result:error")
		}
		match := vh.CanonEq(ro.Result, want)
		for _, a := range model.Alts {
			if vh.CanonEq(ro.Result, c03jNorm(a)) {
				match = true
			}
		}
		if !match {
			dis("C03:brjoin:result-differs:dag", fmt.Sprintf("the result of the batch run under the completion priority %v differs from the model's run (supersteps of the implementation: %v)", prio, ro.Steps))
		}
	}
	if len(okValues) > 1 {
		var parts []string
		for v, ps := range okValues {
			parts = append(parts, fmt.Sprintf("%s under priorities %v", v, ps))
		}
		sort.Strings(parts)
		dis("C03:brjoin:result-depends-on-completion-order:dag",
			"two successful runs of the same graph on the same input return different values, depending on the order in which the nodes of a step finish: "+strings.Join(parts, " | "))
	}
	return nil
}

// c03jGenJoinGraph: the join shapes of c03jGenJoin as an all-predecessor Graph: A branches
// (the branch carries A's output), B reaches the joins by plain edges; A and B may sit at
// different depths, so that B's completion and A's skip reach a join in different supersteps.
func c03jGenJoinGraph(r *vh.Rand) *gcase.Graph {
	g := &gcase.Graph{Mode: "dag"}
	add := func(k string) { g.Nodes = append(g.Nodes, gcase.Node{Key: k, Body: gcase.Body{Op: "tag"}}) }
	edge := func(a, b string) { g.Edges = append(g.Edges, [2]string{a, b}) }
	front := func(k string, pct int) {
		add(k)
		if r.Chance(pct) {
			add(k + "0")
			edge("start", k+"0")
			edge(k+"0", k)
			if r.Chance(30) {
				add(k + "00")
				g.Edges[len(g.Edges)-2] = [2]string{"start", k + "00"}
				edge(k+"00", k+"0")
			}
		} else {
			edge("start", k)
		}
	}
	front("A", 45)
	front("B", 25)
	hasC := r.Chance(30)
	if hasC {
		front("C", 30)
	}
	ends := []string{"X", "Y"}
	add("X")
	add("Y")
	if r.Chance(25) {
		ends = append(ends, "Y2")
		add("Y2")
	}
	multi := r.Chance(40)
	table := [][]string{}
	for i := r.Range(1, 3); i > 0; i-- {
		if multi {
			row := []string{}
			for _, e := range ends {
				p := 45
				if e == "X" {
					p = 70
				}
				if r.Chance(p) {
					row = append(row, e)
				}
			}
			table = append(table, row)
		} else if r.Chance(60) {
			table = append(table, []string{"X"})
		} else {
			table = append(table, []string{ends[r.Intn(len(ends))]})
		}
	}
	g.Branches = append(g.Branches, gcase.Branch{From: "A", Ends: ends, Multi: multi, Table: table})
	sinks := append([]string{}, ends...)
	cUsed := false
	for _, y := range ends[1:] {
		src := "B"
		if hasC && r.Chance(40) {
			src, cUsed = "C", true
		}
		edge(src, y)
		if hasC && src == "B" && r.Chance(30) {
			edge("C", y)
			cUsed = true
		}
	}
	if hasC && !cUsed {
		edge("C", "end")
	}
	if r.Chance(60) {
		add("P")
		edge("B", "P")
		sinks = append(sinks, "P")
	}
	if r.Chance(40) {
		add("Z")
		y := ends[1+r.Intn(len(ends)-1)]
		edge(y, "Z")
		if r.Chance(50) {
			edge("X", "Z")
		}
		for i, s := range sinks {
			if s == y {
				sinks[i] = "Z"
			}
		}
	}
	for _, s := range sinks {
		edge(s, "end")
	}
	return g
}

// c03jMixedJoin: some node is an end of a branch and has, besides, a control predecessor of
// another node (a plain dependency or the branch of another node)
func c03jMixedJoin(w *gcase.Workflow) bool {
	for _, b := range w.Branches {
		for _, e := range b.Ends {
			for _, d := range w.Deps {
				if d.To == e && d.Kind != "data" && d.From != b.From {
					return true
				}
			}
			for _, b2 := range w.Branches {
				if b2.From != b.From {
					for _, e2 := range b2.Ends {
						if e2 == e {
							return true
						}
					}
				}
			}
		}
	}
	return false
}

// ---- generator ----

// c03jGenJoin: two (or three) nodes that run concurrently — A branches, B is a plain
// predecessor — and join nodes behind them that are ends of A's branch AND depend on B
// (or on a third node C, plainly or through C's own branch).  A and B may sit at different
// depths (a pre-node in front of either).  Guarantees: every node has a control predecessor,
// every node has a control successor (a path to END exists statically), no node is both an
// end of a branch of p and a control dependent of the same p.
func c03jGenJoin(r *vh.Rand) *gcase.Workflow {
	w := &gcase.Workflow{}
	add := func(k string) { w.Nodes = append(w.Nodes, gcase.WNode{Key: k, Body: gcase.Body{Op: "tag"}}) }
	dep := func(from, to, kind string) { w.Deps = append(w.Deps, gcase.WDep{From: from, To: to, Kind: kind}) }
	ctrl := func() string {
		if r.Chance(30) {
			return "dep"
		}
		return "in"
	}
	front := func(k string) {
		if r.Chance(25) {
			add(k + "0")
			dep("start", k+"0", "in")
			dep(k+"0", k, ctrl())
		} else {
			dep("start", k, "in")
		}
	}
	add("A")
	front("A")
	add("B")
	front("B")
	hasC := r.Chance(35)
	if hasC {
		add("C")
		front("C")
	}
	// the ends of A's branch: X (reached through the branch only) and the joins Y (and Y2)
	ends := []string{"X", "Y"}
	add("X")
	add("Y")
	if r.Chance(25) {
		ends = append(ends, "Y2")
		add("Y2")
	}
	multi := r.Chance(40)
	table := [][]string{}
	rows := r.Range(1, 3)
	for i := 0; i < rows; i++ {
		if multi {
			row := []string{}
			for _, e := range ends {
				p := 45
				if e == "X" {
					p = 70
				}
				if r.Chance(p) {
					row = append(row, e)
				}
			}
			table = append(table, row)
		} else if r.Chance(60) {
			table = append(table, []string{"X"})
		} else {
			table = append(table, []string{ends[r.Intn(len(ends))]})
		}
	}
	w.Branches = append(w.Branches, gcase.Branch{From: "A", Ends: ends, Multi: multi, Table: table})
	if r.Chance(55) {
		dep("A", "X", "data") // X sees A's output (a workflow branch carries no data)
	}
	// the other predecessors of the joins
	cBranchEnds := []string{}
	for _, y := range ends[1:] {
		src := "B"
		if hasC && r.Chance(40) {
			src = "C"
		}
		if src == "C" && r.Chance(50) {
			cBranchEnds = append(cBranchEnds, y) // through C's own branch
		} else {
			dep(src, y, ctrl())
		}
		if hasC && src == "B" && r.Chance(30) {
			dep("C", y, ctrl()) // three control predecessors
		}
		if r.Chance(25) {
			dep("A", y, "data")
		}
	}
	sinks := append([]string{}, ends...)
	if len(cBranchEnds) > 0 {
		add("W")
		ce := append(append([]string{}, cBranchEnds...), "W")
		ct := [][]string{}
		for i := r.Range(1, 2); i > 0; i-- {
			ct = append(ct, []string{ce[r.Intn(len(ce))]})
		}
		w.Branches = append(w.Branches, gcase.Branch{From: "C", Ends: ce, Table: ct})
		sinks = append(sinks, "W")
	} else if hasC {
		// C needs a control successor of its own
		hasOut := false
		for _, d := range w.Deps {
			if d.From == "C" && d.Kind != "data" {
				hasOut = true
			}
		}
		if !hasOut {
			add("Q")
			dep("C", "Q", "in")
			sinks = append(sinks, "Q")
		}
	}
	// a probe behind B: started as soon as B has been collected
	if r.Chance(60) {
		add("P")
		dep("B", "P", "in")
		sinks = append(sinks, "P")
	}
	bOut := false
	for _, d := range w.Deps {
		if d.From == "B" && d.Kind != "data" {
			bOut = true
		}
	}
	if !bOut {
		dep("B", "end", ctrl())
	}
	// a node behind a join: the skip of the join is propagated
	if r.Chance(40) {
		add("Z")
		y := ends[1+r.Intn(len(ends)-1)]
		dep(y, "Z", "in")
		if r.Chance(50) {
			dep("X", "Z", ctrl())
		}
		for i, s := range sinks {
			if s == y {
				sinks[i] = "Z"
			}
		}
		if r.Chance(50) {
			dep(y, "end", "in")
		}
	}
	for _, s := range sinks {
		dep(s, "end", "in")
	}
	return w
}

func c03jKeys(w *gcase.Workflow) []string {
	ks := []string{}
	for _, n := range w.Nodes {
		ks = append(ks, n.Key)
	}
	return ks
}

// pairs of a random priority and its reverse: any two nodes that run concurrently finish in
// both orders
func c03jOrders(r *vh.Rand, keys []string, pairs int) [][]string {
	out := [][]string{}
	for p := 0; p < pairs; p++ {
		perm := r.Perm(len(keys))
		a := make([]string, len(keys))
		b := make([]string, len(keys))
		for i, pi := range perm {
			a[i] = keys[pi]
			b[len(keys)-1-i] = keys[pi]
		}
		out = append(out, a, b)
	}
	return out
}

// the shape of seeded regression C03-21 and its relatives, always run first
func c03jDirected() []*c03jCase {
	tag := gcase.Body{Op: "tag"}
	mk := func(note string, nodes []string, deps []gcase.WDep, brs []gcase.Branch, orders [][]string) *c03jCase {
		w := &gcase.Workflow{Deps: deps, Branches: brs}
		for _, k := range nodes {
			w.Nodes = append(w.Nodes, gcase.WNode{Key: k, Body: tag})
		}
		return &c03jCase{Kind: "brjoin", Mode: "workflow", W: w, Input: "x", Orders: orders, Shape: "directed", Note: note}
	}
	d := func(f, t, k string) gcase.WDep { return gcase.WDep{From: f, To: t, Kind: k} }
	return []*c03jCase{
		mk("join Y: unselected end of A's branch + plain dependency on B; A and B run concurrently",
			[]string{"A", "B", "X", "Y", "P"},
			[]gcase.WDep{d("start", "A", "in"), d("start", "B", "in"), d("B", "Y", "in"), d("B", "P", "in"), d("X", "end", "in"), d("Y", "end", "in"), d("P", "end", "in")},
			[]gcase.Branch{{From: "A", Ends: []string{"X", "Y"}, Table: [][]string{{"X"}}}},
			[][]string{{"A", "B", "X", "P", "Y"}, {"B", "A", "P", "X", "Y"}, {"B", "P", "A", "Y", "X"}, {"A", "X", "B", "Y", "P"}}),
		mk("the same with the selected end: Y selected by A's branch and triggered by B",
			[]string{"A", "B", "X", "Y", "P"},
			[]gcase.WDep{d("start", "A", "in"), d("start", "B", "in"), d("B", "Y", "in"), d("B", "P", "in"), d("X", "end", "in"), d("Y", "end", "in"), d("P", "end", "in")},
			[]gcase.Branch{{From: "A", Ends: []string{"X", "Y"}, Multi: true, Table: [][]string{{"X", "Y"}}}},
			[][]string{{"A", "B", "X", "P", "Y"}, {"B", "A", "P", "X", "Y"}}),
		mk("join behind two branches: A does not select Y, C does; a node Z behind Y",
			[]string{"A", "C", "X", "Y", "W", "Z"},
			[]gcase.WDep{d("start", "A", "in"), d("start", "C", "in"), d("Y", "Z", "in"), d("X", "end", "in"), d("Z", "end", "in"), d("W", "end", "in"), d("C", "end", "dep")},
			[]gcase.Branch{{From: "A", Ends: []string{"X", "Y"}, Table: [][]string{{"X"}}}, {From: "C", Ends: []string{"Y", "W"}, Table: [][]string{{"Y"}}}},
			[][]string{{"A", "C", "X", "Y", "W", "Z"}, {"C", "A", "Y", "X", "Z", "W"}}),
		mk("A one step behind B (pre-node A0)",
			[]string{"A0", "A", "B", "X", "Y"},
			[]gcase.WDep{d("start", "A0", "in"), d("A0", "A", "in"), d("start", "B", "in"), d("B", "Y", "dep"), d("A", "Y", "data"), d("X", "end", "in"), d("Y", "end", "in"), d("B", "end", "in")},
			[]gcase.Branch{{From: "A", Ends: []string{"X", "Y"}, Table: [][]string{{"X"}}}},
			[][]string{{"A0", "A", "B", "X", "Y"}, {"B", "A0", "A", "Y", "X"}}),
	}
}

func c03jReplay(ctx *vh.Ctx, raw json.RawMessage) error {
	var c c03jCase
	if err := json.Unmarshal(raw, &c); err != nil {
		return err
	}
	return c03jOne(ctx, &c)
}

func c03jFamily(ctx *vh.Ctx) error {
	ctx.Res.Rule += " | family brjoin (kind=brjoin): distinct = (workflow, completion priorities); non-trivial = a join node that is an end of a branch and has a control predecessor of another node, run under at least two different completion orders"
	deadline := time.Now().Add(ctx.Budget * 14 / 100)
	live := func() bool { return ctx.TimeLeft() && time.Now().Before(deadline) && c03jHangs < 2 }
	for _, c := range c03jDirected() {
		if !live() {
			break
		}
		if err := c03jOne(ctx, c); err != nil {
			return err
		}
	}
	n := ctx.N(150, 1500)
	for i := 0; i < n && live(); i++ {
		c := &c03jCase{Kind: "brjoin", Mode: "workflow", Input: "x"}
		if i%3 != 2 {
			c.W, c.Shape = c03jGenJoin(ctx.Rng), "join"
		} else {
			c.W, c.Shape = gcase.GenWorkflow(ctx.Rng, gcase.WGenOpts{MaxNodes: 7, FailPct: 0, BranchPct: 45}), "random"
		}
		c.Input = fmt.Sprintf("x%d", ctx.Rng.Intn(4))
		c.Orders = c03jOrders(ctx.Rng, c03jKeys(c.W), ctx.N(2, 3))
		if err := c03jOne(ctx, c); err != nil {
			return err
		}
		if i%3 == 0 {
			// the same family as an all-predecessor Graph in batch mode
			d := &c03jCase{Kind: "brjoin", Mode: "dag", Input: fmt.Sprintf("x%d", ctx.Rng.Intn(4))}
			if i%2 == 0 {
				d.G, d.Shape = c03jGenJoinGraph(ctx.Rng), "join"
			} else {
				d.G, d.Shape = gcase.Gen(ctx.Rng, gcase.GenOpts{Mode: "dag", MaxNodes: 7, NoNested: true, FailPct: 0, BranchPct: 40}), "random"
			}
			d.Orders = c03jOrders(ctx.Rng, c03jGraphKeys(d.G), 1)
			if err := c03jOne(ctx, d); err != nil {
				return err
			}
		}
	}
	return nil
}
