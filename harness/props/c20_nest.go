//go:build verif && (vh_all || vh_c20)

package props

// C20, `decl` stream, calls after the Compiles: Add* / Append* / Add…Node calls on the graphs of
// a declared tree – the outermost one and the graphs it contains as nodes, at any depth – once
// the outermost has been compiled, then further Compiles of the outermost.  The Lean side
// (Model/C20Nest.lean) says: when a Compile of the outermost succeeded every graph of the tree
// is frozen (`nested_graphs_frozen`): every Add* on a Graph answers ErrGraphCompiled; the
// Workflow / Chain calls return nothing, a late Workflow node with inputs makes every later
// Compile of that Workflow (and so of the graphs around it) answer ErrGraphCompiled; the first
// runnable keeps answering what it answered.  Chains can be declared as graphs of the tree here
// (api "chain").

import (
	"fmt"
	"strings"

	"github.com/cloudwego/eino/compose"
	"github.com/cloudwego/eino/verifharness/vh"
)

type c20DModOp struct {
	c20Op
	Ins []c20WfIn `json:"ins,omitempty"` // wfnode: inputs declared on the new node
}

// c20DMod: one later call on the graph reached through the graph nodes Path (empty = outermost).
// Op.Op: node | edge | branch (Graph API), wfnode (Workflow.AddLambdaNode / AddPassthroughNode
// followed by AddInput / AddDependency / AddInputWithOptions), append (Chain.AppendLambda / AppendPassthrough)
type c20DMod struct {
	Path []string  `json:"path"`
	Op   c20DModOp `json:"op"`
}

type c20DReg map[string]any

func (r c20DReg) put(path []string, g any) {
	if r != nil {
		r[strings.Join(path, "/")] = g
	}
}

type c20ChainBX interface {
	c20ChainB
	anyGraph() compose.AnyGraph
}

func (w *c20ChainW[I, O]) anyGraph() compose.AnyGraph { return w.c }

// c20DPure: no Workflow anywhere in the tree (such trees are also run: a Workflow with data-only
// or missing inputs may fail or race at run time for reasons that are not C20's)
func c20DPure(d *c20Decl) bool {
	if d == nil {
		return true
	}
	if d.API == "workflow" {
		return false
	}
	for _, n := range d.Nodes {
		if !c20DPure(n.Sub) {
			return false
		}
	}
	for _, o := range d.Ops {
		if !c20DPure(o.Sub) {
			return false
		}
	}
	return true
}

func c20DWhere(path []string) string {
	if len(path) == 0 {
		return "outermost"
	}
	return fmt.Sprintf("nested-%d", len(path))
}

// c20DLater: the mods, then the recompiles; the first runnable is run before and after.
func c20DLater(c *c20DCase, reg c20DReg, compile c20CompileFn, first c20RunFn, obs *c20DObs) {
	run := first != nil && c20DPure(c.Decl)
	in := c20Val(c20FirstInhabitant(c.Decl.InT))
	if run {
		cls, d := c20RunOnce(first, in)
		obs.R1 = append(obs.R1, cls)
		if d != "" {
			obs.Notes = append(obs.Notes, "r1 first run: "+d)
		}
	}
	cls := map[string]*c20Classifier{}
	for i := range c.Mods {
		m := &c.Mods[i]
		pk := strings.Join(m.Path, "/")
		tgt, ok := reg[pk]
		if !ok {
			obs.Mods = append(obs.Mods, "nopath")
			continue
		}
		if cls[pk] == nil {
			cls[pk] = &c20Classifier{}
		}
		op := &m.Op
		var err error
		silent := false
		p, pv := vh.Safely(func() {
			switch op.Op {
			case "wfnode":
				wf := tgt.(c20WfBX)
				var wn *compose.WorkflowNode
				if op.PT {
					wn = wf.addPassthrough(op.Key)
				} else {
					wn = wf.addLambda(op.Key, c20Lambdas[op.In+">"+op.Out](op.Dyn))
				}
				c20WfAddIns(wn, op.Ins)
				silent = true
			case "append":
				ch := tgt.(c20ChainBX)
				if op.PT {
					ch.appendPassthrough()
				} else {
					ch.appendLambda(c20Lambdas[op.In+">"+op.Out](op.Dyn))
				}
				silent = true
			case "node":
				g := tgt.(c20Builder)
				if op.PT {
					err = g.AddPassthroughNode(op.Key)
				} else {
					err = g.AddLambdaNode(op.Key, c20Lambdas[op.In+">"+op.Out](op.Dyn))
				}
			case "edge":
				err = tgt.(c20Builder).AddEdge(op.S, op.E)
			case "branch":
				ends := map[string]bool{}
				for _, e := range op.Ends {
					ends[e] = true
				}
				err = tgt.(c20Builder).AddBranch(op.S, c20Branches[op.T](op.Pick, ends))
			}
		})
		switch {
		case p:
			obs.Mods = append(obs.Mods, "panic")
			obs.Notes = append(obs.Notes, fmt.Sprintf("mod %d panicked: %v", i, pv))
		case silent:
			obs.Mods = append(obs.Mods, "silent")
		default:
			obs.Mods = append(obs.Mods, cls[pk].class(err, false))
			cls[pk].remember(err)
			if err != nil {
				obs.Notes = append(obs.Notes, fmt.Sprintf("mod %d: %v", i, err))
			}
		}
	}
	for i := range c.Recompiles {
		cl, _ := c20DCompileClass(compile, &c.Recompiles[i], fmt.Sprintf("recompile %d", i), obs)
		obs.ReOut = append(obs.ReOut, cl)
	}
	if run {
		cls, d := c20RunOnce(first, in)
		obs.R1 = append(obs.R1, cls)
		if d != "" {
			obs.Notes = append(obs.Notes, "r1 last run: "+d)
		}
	}
}

func c20DCompareLater(c *c20DCase, m *c20DModel, obs *c20DObs, shape string) *c20Diff {
	if m.LaterSkip || (len(c.Mods) == 0 && len(c.Recompiles) == 0) {
		return nil
	}
	if len(m.Mods) != len(obs.Mods) || len(m.ReOut) != len(obs.ReOut) || len(m.ReOut) != len(m.ReKinds) {
		return &c20Diff{"C20:harness:length", fmt.Sprintf("later calls: the model answers %d mods / %d recompiles, the implementation side %d / %d",
			len(m.Mods), len(m.ReOut), len(obs.Mods), len(obs.ReOut))}
	}
	for i := range m.Mods {
		exp, got := m.Mods[i], obs.Mods[i]
		where, opk := c20DWhere(c.Mods[i].Path), c.Mods[i].Op.Op
		if exp == "nopath" || got == "nopath" {
			return &c20Diff{"C20:harness:mod-path", fmt.Sprintf("mod %d: no graph at path %v (model %s, implementation side %s)", i, c.Mods[i].Path, exp, got)}
		}
		if got == "panic" {
			return &c20Diff{"C20:panic:decl-mod:" + where, fmt.Sprintf("later call %d (%s on the %s graph %v) panicked; the model says %s", i, opk, where, c.Mods[i].Path, exp)}
		}
		if exp != got {
			return &c20Diff{fmt.Sprintf("C20:decl-mod:%s:%s:model=%s,impl=%s", where, opk, exp, got),
				fmt.Sprintf("later call %d (%s on the %s graph %v, after a successful Compile of the outermost graph): the model says %s, the implementation returned %s",
					i, opk, where, c.Mods[i].Path, exp, got)}
		}
	}
	for i := range m.ReOut {
		exp := m.ReOut[i]
		if exp != "ok" && exp != "panic" {
			exp = "error/" + strings.Join(c20SortedCopy(m.ReKinds[i]), "|")
		}
		got := obs.ReOut[i]
		if got == "panic" && exp != "panic" {
			return &c20Diff{"C20:panic:decl-recompile:" + shape, fmt.Sprintf("Compile %d after the later calls panicked; the model says %s", i, exp)}
		}
		if c20DCoarse(got) != c20DCoarse(exp) {
			return &c20Diff{fmt.Sprintf("C20:decl-recompile:%s:model=%s,impl=%s", shape, exp, got),
				fmt.Sprintf("Compile %d of the declared %s after the later calls: the model says %s, the implementation answered %s", i, shape, exp, got)}
		}
		if strings.HasPrefix(got, "error/") {
			k, ok := strings.TrimPrefix(got, "error/"), false
			for _, a := range m.ReKinds[i] {
				ok = ok || a == k
			}
			if !ok {
				return &c20Diff{fmt.Sprintf("C20:decl-recompile-error-class:%s:model=%s,impl=%s", shape, exp, got),
					fmt.Sprintf("Compile %d of the declared %s after the later calls fails with %s, the model says %s", i, shape, got, exp)}
			}
		}
	}
	if len(obs.R1) == 2 && obs.R1[0] != obs.R1[1] {
		return &c20Diff{"C20:first-runnable-changed:decl",
			fmt.Sprintf("the first compiled runnable answered %q right after the Compiles and %q after the later calls", obs.R1[0], obs.R1[1])}
	}
	return nil
}

// c20DLaterStable: a fresh re-execution must show the same later results
func c20DLaterStable(first, o *c20DObs, k int) *c20Diff {
	if strings.Join(first.Mods, ",") != strings.Join(o.Mods, ",") {
		return &c20Diff{"C20:nondeterministic:decl-mod", fmt.Sprintf("attempt %d: the later calls answered %v, on the first attempt %v", k+1, o.Mods, first.Mods)}
	}
	if len(first.ReOut) != len(o.ReOut) {
		return &c20Diff{"C20:nondeterministic:decl-recompile", fmt.Sprintf("attempt %d: recompiles %v, on the first attempt %v", k+1, o.ReOut, first.ReOut)}
	}
	for i := range o.ReOut {
		if c20DCoarse(o.ReOut[i]) != c20DCoarse(first.ReOut[i]) {
			return &c20Diff{"C20:nondeterministic:decl-recompile", fmt.Sprintf("attempt %d: recompiles %v, on the first attempt %v", k+1, o.ReOut, first.ReOut)}
		}
	}
	if strings.Join(first.R1, ",") != strings.Join(o.R1, ",") {
		return &c20Diff{"C20:nondeterministic:run", fmt.Sprintf("attempt %d: first runnable answered %v, on the first attempt %v", k+1, o.R1, first.R1)}
	}
	return nil
}

func c20DLaterDist(ctx *vh.Ctx, c *c20DCase, m *c20DModel) {
	if len(c.Mods) == 0 && len(c.Recompiles) == 0 {
		return
	}
	if m.LaterSkip {
		ctx.Res.Dist("decl.later=not-predicted(no Compile succeeded)")
		return
	}
	ctx.Res.Dist("decl.later=predicted")
	for i := range c.Mods {
		api := "?"
		if d := c20DAt(c.Decl, c.Mods[i].Path); d != nil {
			api = d.API
		}
		ans := "?"
		if i < len(m.Mods) {
			ans = m.Mods[i]
		}
		ctx.Res.Dist(fmt.Sprintf("decl.mod=%s/%s/%s:%s", c20DWhere(c.Mods[i].Path), api, c.Mods[i].Op.Op, ans))
	}
	for i := range m.ReOut {
		s := m.ReOut[i]
		if s != "ok" && i < len(m.ReKinds) {
			s = "error/" + strings.Join(m.ReKinds[i], "|")
		}
		ctx.Res.Dist("decl.recompile=" + s)
	}
}

// ---- walking a declared tree ----

func c20DKid(d *c20Decl, key string) *c20Decl {
	for i := range d.Nodes {
		if d.Nodes[i].Key == key && d.Nodes[i].Sub != nil {
			return d.Nodes[i].Sub
		}
	}
	for i := range d.Ops {
		if d.Ops[i].Key == key && d.Ops[i].Sub != nil {
			return d.Ops[i].Sub
		}
	}
	return nil
}

func c20DAt(d *c20Decl, path []string) *c20Decl {
	for _, k := range path {
		if d = c20DKid(d, k); d == nil {
			return nil
		}
	}
	return d
}

type c20DSite struct {
	path []string
	d    *c20Decl
}

// c20DSites: every graph of the tree with its path, outermost first
func c20DSites(d *c20Decl, path []string, out *[]c20DSite) {
	*out = append(*out, c20DSite{append([]string{}, path...), d})
	seen := map[string]bool{}
	visit := func(key string, sub *c20Decl) {
		if sub != nil && !seen[key] {
			seen[key] = true
			c20DSites(sub, append(append([]string{}, path...), key), out)
		}
	}
	for i := range d.Nodes {
		visit(d.Nodes[i].Key, d.Nodes[i].Sub)
	}
	for i := range d.Ops {
		visit(d.Ops[i].Key, d.Ops[i].Sub)
	}
}

func c20DKeys(d *c20Decl) []string {
	var keys []string
	for _, n := range d.Nodes {
		keys = append(keys, n.Key)
	}
	for _, o := range d.Ops {
		if o.Op == "node" || o.Op == "sub" {
			keys = append(keys, o.Key)
		}
	}
	if d.API == "chain" {
		keys = keys[:0]
		for i := range d.Nodes {
			keys = append(keys, fmt.Sprintf("node_%d", i))
		}
	}
	return keys
}

func c20DOutTy(d *c20Decl, key string) string {
	for _, n := range d.Nodes {
		if n.Key == key {
			if n.Sub != nil {
				return n.Sub.OutT
			}
			if n.Out != "" {
				return n.Out
			}
		}
	}
	for _, o := range d.Ops {
		if o.Key == key && (o.Op == "node" || o.Op == "sub") {
			if o.Sub != nil {
				return o.Sub.OutT
			}
			if o.Out != "" {
				return o.Out
			}
		}
	}
	return "c0"
}

// ---- generators ----

// c20DGenMod: one later call on the graph at site s
func c20DGenMod(r *vh.Rand, s c20DSite, k int) c20DMod {
	m := c20DMod{Path: s.path}
	keys := c20DKeys(s.d)
	pickKey := func() string {
		if len(keys) == 0 {
			return "start"
		}
		return c20Pick(r, keys)
	}
	late := fmt.Sprintf("late%d", k)
	switch s.d.API {
	case "workflow":
		op := c20DModOp{c20Op: c20Op{Op: "wfnode", Key: late, In: "c0", Out: "c0", Dyn: "c0"}}
		if r.Chance(12) {
			op.c20Op = c20Op{Op: "wfnode", Key: late, PT: true}
		}
		if r.Chance(60) {
			from := pickKey()
			if r.Chance(25) {
				from = "start"
			}
			op.Ins = []c20WfIn{{From: from, Kind: c20Pick(r, []string{"input", "input", "dep", "indirect"})}}
		}
		m.Op = op
	case "chain":
		in := "c1"
		if r.Bool() {
			in = s.d.OutT
		}
		m.Op = c20DModOp{c20Op: c20Op{Op: "append", In: in, Out: "c0", Dyn: "c0"}}
		if r.Chance(15) {
			m.Op = c20DModOp{c20Op: c20Op{Op: "append", PT: true}}
		}
	default:
		switch r.Intn(5) {
		case 0:
			m.Op = c20DModOp{c20Op: c20Op{Op: "node", Key: late, In: "c0", Out: "c0", Dyn: "c0"}}
		case 1:
			m.Op = c20DModOp{c20Op: c20Op{Op: "node", Key: late, PT: true}}
		case 2:
			// a node key that exists already: frozen comes before "already present"
			m.Op = c20DModOp{c20Op: c20Op{Op: "node", Key: pickKey(), In: "c0", Out: "c0", Dyn: "c0"}}
		case 3:
			switch r.Intn(3) {
			case 0:
				m.Op = c20DModOp{c20Op: c20Op{Op: "edge", S: pickKey(), E: "end"}}
			case 1:
				m.Op = c20DModOp{c20Op: c20Op{Op: "edge", S: "start", E: pickKey()}}
			default:
				m.Op = c20DModOp{c20Op: c20Op{Op: "edge", S: pickKey(), E: pickKey()}}
			}
		default:
			src := pickKey()
			m.Op = c20DModOp{c20Op: c20Op{Op: "branch", S: src, T: c20DOutTy(s.d, src), Ends: c20SortedCopy([]string{"end", pickKey()}), Pick: "end"}}
			if len(m.Op.Ends) == 2 && m.Op.Ends[0] == m.Op.Ends[1] {
				m.Op.Ends = m.Op.Ends[:1]
			}
		}
	}
	return m
}

// c20DGenLater adds later calls to a case: 1-3 mods (mostly on a nested graph when there is one)
// and 1-2 Compiles.
func c20DGenLater(r *vh.Rand, c *c20DCase) {
	var sites []c20DSite
	c20DSites(c.Decl, nil, &sites)
	nm := r.Range(1, 3)
	for k := 0; k < nm; k++ {
		s := sites[0]
		if len(sites) > 1 && r.Chance(80) {
			s = sites[r.Range(1, len(sites)-1)]
		}
		c.Mods = append(c.Mods, c20DGenMod(r, s, k))
	}
	for k := r.Range(1, 2); k > 0; k-- {
		o := c20Op{Op: "compile"}
		if r.Chance(12) {
			o.MaxSteps = r.Range(1, 12)
		}
		c.Recompiles = append(c.Recompiles, o)
	}
}

// c20DNGen: a well-formed tree (every edge type-exact, entry and exit edges present), so that the
// Compile of the outermost graph mostly succeeds and the later calls meet frozen graphs.
func c20DNGen(r *vh.Rand, api string, depth int, inT, outT string, mustNest bool) *c20Decl {
	d := &c20Decl{API: api, InT: inT, OutT: outT}
	tys := []string{"c0", "c0", "c0", "c1", "c2"}
	n := r.Range(1, 3)
	forced := -1
	if mustNest && api != "chain" {
		forced = r.Intn(n)
	}
	subP := map[int]int{0: 45, 1: 30, 2: 0}[depth]
	kidAPI := func() string {
		switch x := r.Intn(100); {
		case x < 45:
			return "graph"
		case x < 80:
			return "workflow"
		}
		return "chain"
	}
	cur, prev := inT, "start"
	for i := 0; i < n; i++ {
		out := c20Pick(r, tys)
		if i == n-1 {
			out = outT
		}
		isSub := depth < 2 && api != "chain" && (i == forced || r.Chance(subP))
		var sub *c20Decl
		var so *c20Op
		if isSub {
			ka := kidAPI()
			sub = c20DNGen(r, ka, depth+1, cur, out, false)
			if ka != "workflow" && r.Chance(15) {
				so = &c20Op{Op: "compile", MaxSteps: r.Range(5, 20)}
			}
		}
		switch api {
		case "workflow":
			key := []string{"a", "b", "c"}[i]
			nd := c20DNode{Key: key, Ins: []c20WfIn{{From: prev, Kind: "input"}}}
			if sub != nil {
				nd.Sub, nd.SubOpts = sub, so
			} else {
				nd.In, nd.Out, nd.Dyn = cur, out, out
			}
			if i > 1 && r.Chance(20) {
				nd.Ins = append(nd.Ins, c20WfIn{From: "a", Kind: "dep"})
			}
			d.Nodes = append(d.Nodes, nd)
			prev = key
		case "chain":
			key := fmt.Sprintf("node_%d", i)
			nd := c20DNode{Key: key, In: cur, Out: out, Dyn: out}
			if out == cur && r.Chance(12) {
				nd = c20DNode{Key: key, PT: true}
			}
			d.Nodes = append(d.Nodes, nd)
			prev = key
		default:
			key := []string{"p", "q", "s"}[i]
			if sub != nil {
				d.Ops = append(d.Ops, c20DOp{c20Op: c20Op{Op: "sub", Key: key}, Sub: sub, SubOpts: so})
			} else {
				d.Ops = append(d.Ops, c20DOp{c20Op: c20Op{Op: "node", Key: key, In: cur, Out: out, Dyn: out}})
			}
			d.Ops = append(d.Ops, c20DOp{c20Op: c20Op{Op: "edge", S: prev, E: key}})
			prev = key
		}
		cur = out
	}
	switch api {
	case "workflow":
		d.EndIn = []c20WfIn{{From: prev, Kind: "input"}}
	case "graph":
		d.Ops = append(d.Ops, c20DOp{c20Op: c20Op{Op: "edge", S: prev, E: "end"}})
	}
	return d
}

// c20DGenNested: a well-formed tree with at least one graph used as a node, compiled, then later calls
func c20DGenNested(r *vh.Rand) *c20DCase {
	c := &c20DCase{Stream: "decl", Impl: c20Impl(), Shape: "nested"}
	api := "graph"
	if r.Chance(40) {
		api = "workflow"
	}
	tys := []string{"c0", "c0", "c1", "c2"}
	c.Decl = c20DNGen(r, api, 0, c20Pick(r, tys), c20Pick(r, tys), true)
	c.Compiles = []c20Op{{Op: "compile"}}
	switch x := r.Intn(100); {
	case x < 15:
		c.Compiles = append(c.Compiles, c20Op{Op: "compile"})
	case x < 25: // a step limit: fine for a Graph in its default mode, refused by a Workflow (then a plain Compile)
		c.Compiles = []c20Op{{Op: "compile", MaxSteps: r.Range(5, 20)}, {Op: "compile"}}
	}
	c20DGenLater(r, c)
	if r.Chance(50) { // one more call, on the deepest graph
		var sites []c20DSite
		c20DSites(c.Decl, nil, &sites)
		deep := sites[0]
		for _, s := range sites {
			if len(s.path) > len(deep.path) {
				deep = s
			}
		}
		c.Mods = append(c.Mods, c20DGenMod(r, deep, 9))
	}
	return c
}

// c20DNestFixed: hand-written trees run first on every seed
func c20DNestFixed() []*c20DCase {
	lamOp := func(key string) c20DOp {
		return c20DOp{c20Op: c20Op{Op: "node", Key: key, In: "c0", Out: "c0", Dyn: "c0"}}
	}
	edge := func(s, e string) c20DOp { return c20DOp{c20Op: c20Op{Op: "edge", S: s, E: e}} }
	graphOf := func(key string, sub *c20Decl) *c20Decl {
		d := &c20Decl{API: "graph", InT: "c0", OutT: "c0"}
		if sub != nil {
			d.Ops = append(d.Ops, c20DOp{c20Op: c20Op{Op: "sub", Key: key}, Sub: sub})
		} else {
			d.Ops = append(d.Ops, lamOp(key))
		}
		d.Ops = append(d.Ops, edge("start", key), edge(key, "end"))
		return d
	}
	wfOf := func(key string, sub *c20Decl) *c20Decl {
		nd := c20DNode{Key: key, Ins: []c20WfIn{{From: "start", Kind: "input"}}}
		if sub != nil {
			nd.Sub = sub
		} else {
			nd.In, nd.Out, nd.Dyn = "c0", "c0", "c0"
		}
		return &c20Decl{API: "workflow", InT: "c0", OutT: "c0", Nodes: []c20DNode{nd}, EndIn: []c20WfIn{{From: key, Kind: "input"}}}
	}
	chain := func() *c20Decl {
		return &c20Decl{API: "chain", InT: "c0", OutT: "c0", Nodes: []c20DNode{
			{Key: "node_0", In: "c0", Out: "c0", Dyn: "c0"}, {Key: "node_1", In: "c0", Out: "c0", Dyn: "c0"}}}
	}
	gmods := func(path []string, key string) []c20DMod {
		p := append([]string{}, path...)
		return []c20DMod{
			{Path: p, Op: c20DModOp{c20Op: c20Op{Op: "node", Key: "late", In: "c0", Out: "c0", Dyn: "c0"}}},
			{Path: p, Op: c20DModOp{c20Op: c20Op{Op: "node", Key: "late_p", PT: true}}},
			{Path: p, Op: c20DModOp{c20Op: c20Op{Op: "edge", S: "start", E: key}}},
			{Path: p, Op: c20DModOp{c20Op: c20Op{Op: "branch", S: "start", T: "c0", Ends: []string{"end", key}, Pick: "end"}}},
		}
	}
	wfnode := func(path []string, from string) c20DMod {
		m := c20DMod{Path: append([]string{}, path...), Op: c20DModOp{c20Op: c20Op{Op: "wfnode", Key: "late", In: "c0", Out: "c0", Dyn: "c0"}}}
		if from != "" {
			m.Op.Ins = []c20WfIn{{From: from, Kind: "input"}}
		}
		return m
	}
	one, two := []c20Op{{Op: "compile"}}, []c20Op{{Op: "compile"}, {Op: "compile"}}
	mk := func(shape string, d *c20Decl, mods []c20DMod) *c20DCase {
		return &c20DCase{Stream: "decl", Impl: c20Impl(), Decl: d, Compiles: one, Shape: "fixed:" + shape, Mods: mods, Recompiles: two}
	}
	g3 := graphOf("outer_n", graphOf("mid_n", graphOf("a", nil)))
	var m3 []c20DMod
	m3 = append(m3, gmods([]string{"outer_n"}, "mid_n")...)
	m3 = append(m3, gmods([]string{"outer_n", "mid_n"}, "a")...)
	m3 = append(m3, gmods(nil, "outer_n")...)
	return []*c20DCase{
		mk("nested-frozen-graph-in-graph-in-graph", g3, m3),
		mk("nested-frozen-workflow-in-graph", graphOf("w", wfOf("a", nil)), []c20DMod{wfnode([]string{"w"}, "")}),
		mk("nested-frozen-workflow-in-graph-late-input", graphOf("w", wfOf("a", nil)), []c20DMod{wfnode([]string{"w"}, "a")}),
		mk("nested-frozen-graph-in-workflow", wfOf("w", graphOf("a", nil)), gmods([]string{"w"}, "a")),
		mk("nested-frozen-workflow-in-workflow-late-input", wfOf("w", wfOf("a", nil)), []c20DMod{wfnode([]string{"w"}, "start")}),
		mk("nested-frozen-chain-in-graph", graphOf("ch", chain()), []c20DMod{
			{Path: []string{"ch"}, Op: c20DModOp{c20Op: c20Op{Op: "append", In: "c1", Out: "c0", Dyn: "c0"}}},
			{Path: []string{"ch"}, Op: c20DModOp{c20Op: c20Op{Op: "append", In: "c0", Out: "c0", Dyn: "c0"}}}}),
		mk("nested-frozen-chain-in-workflow", wfOf("ch", chain()), []c20DMod{
			{Path: []string{"ch"}, Op: c20DModOp{c20Op: c20Op{Op: "append", In: "c1", Out: "c0", Dyn: "c0"}}}}),
		mk("frozen-workflow-late-input", wfOf("a", nil), []c20DMod{wfnode(nil, "a")}),
		mk("frozen-chain-late-append", chain(), []c20DMod{{Path: []string{}, Op: c20DModOp{c20Op: c20Op{Op: "append", In: "c1", Out: "c0", Dyn: "c0"}}}}),
	}
}
