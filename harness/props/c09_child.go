//go:build verif && (vh_all || vh_c09)

package props

// C09 child process: builds ONE compiled object from a case, runs every call alone
// (sequentially), then runs all calls concurrently (goroutines released together by a
// barrier), and prints the observations as JSON on stdout.  The process is the -race build
// of the harness re-executed with VERIF_C09_CHILD=1 and GORACE="halt_on_error=1 exitcode=66":
// the first data race ends it with exit code 66 and the report on stderr.

import (
	"context"
	"encoding/json"
	"errors"
	"fmt"
	"io"
	"os"
	"sort"
	"strconv"
	"strings"
	"sync"
	"time"

	"github.com/cloudwego/eino/callbacks"
	"github.com/cloudwego/eino/components/model"
	"github.com/cloudwego/eino/components/tool"
	"github.com/cloudwego/eino/compose"
	"github.com/cloudwego/eino/flow/agent"
	"github.com/cloudwego/eino/flow/agent/multiagent/host"
	"github.com/cloudwego/eino/flow/agent/react"
	"github.com/cloudwego/eino/schema"
)

func init() {
	if os.Getenv("VERIF_C09_CHILD") == "1" {
		c09ChildMain()
		os.Exit(0)
	}
}

// ---- case language (shared with the parent, c09.go) ----

type c09Node struct {
	Tag    string `json:"tag"`
	Inc    bool   `json:"inc,omitempty"`
	UseOpt bool   `json:"useOpt,omitempty"`
	Kind   string `json:"kind,omitempty"` // "" / "i" invokable, "t" transformable, "s" streamable
	Via    string `json:"via,omitempty"`  // how Inc is done: "" ProcessState in the body, "pre" state pre-handler, "post" state post-handler
}

type c09Layer struct {
	Branch bool      `json:"branch,omitempty"`
	Nodes  []c09Node `json:"nodes"`
}

type c09Call struct {
	In       string `json:"in"`
	Opt      string `json:"opt,omitempty"`
	Paradigm string `json:"paradigm"` // invoke|stream|collect|transform  (agents: generate|stream)
	Chunks   int    `json:"chunks,omitempty"`
	CB       bool   `json:"cb,omitempty"` // per-call callback handler
	// optshare: the option groups of this call, in call order
	Groups []c09OGroup `json:"groups,omitempty"`
	// toollist: index of the tool list carried in wave w (ListSeq[w % len]; -1 = no option), and the tool calls of the input message
	ListSeq []int      `json:"listSeq,omitempty"`
	TCalls  []c09TCall `json:"tcalls,omitempty"`
	// errpath: which compiled object of the case the call goes to (the directive is part of In: "<token>~<dir>")
	Obj int `json:"obj,omitempty"`
}

type c09Case struct {
	Kind      string        `json:"kind"`          // pregel|dag|workflow|chain|nested|checkpoint|react|host|wfstraggler|optshare|toollist|cbshare|inflight|errpath
	Opt       *c09OptShare  `json:"opt,omitempty"` // optshare (c09_opts.go)
	TL        *c09ToolList  `json:"tl,omitempty"`  // toollist (c09_opts.go)
	Err       *c09ErrPath   `json:"err,omitempty"` // errpath (c09_errs.go)
	CBS       *c09CBShare   `json:"cbs,omitempty"` // cbshare (c09_cbs.go)
	FL        *c09Flight    `json:"fl,omitempty"`  // inflight (c09_flight.go)
	BM        *c09BranchMix `json:"bm,omitempty"`  // branchmix (c09_branch.go)
	Layers    []c09Layer    `json:"layers,omitempty"`
	NestFrom  int           `json:"nestFrom,omitempty"` // nested: layers[NestFrom:NestTo] form the inner graph
	NestTo    int           `json:"nestTo,omitempty"`
	IntLayer  int           `json:"intLayer,omitempty"` // checkpoint: interrupt before the first node of this layer
	Calls     []c09Call     `json:"calls"`
	Reps      int           `json:"reps"`
	SharedOpt bool          `json:"sharedOpt,omitempty"` // one option slice value shared by all callers
	ParentCB  bool          `json:"parentCB,omitempty"`  // callers derive their ctx from one parent ctx that carries a handler
	ParentCap int           `json:"parentCap,omitempty"` // parentCB: number of handlers in the parent ctx, passed as a slice built with append (so it may have spare capacity)
	Par       int           `json:"par,omitempty"`       // wfstraggler: number of parallel nodes (2|3)
	Sched     []int         `json:"sched,omitempty"`     // interleaving given to the model
	Seed      uint64        `json:"seed"`
}

// one observed call
type c09Obs struct {
	Out string   `json:"out"`
	Err string   `json:"err,omitempty"` // "" | "interrupt" | "error" | "panic"
	CB  []string `json:"cb,omitempty"`  // sorted callback log of this call's own handler
	Msg string   `json:"msg,omitempty"` // error text (not compared)
}

type c09ChildOut struct {
	BuildErr string     `json:"buildErr,omitempty"`
	Alone    []c09Obs   `json:"alone"`
	Conc     [][]c09Obs `json:"conc"`             // [call][rep]
	AloneR   [][]c09Obs `json:"aloneR,omitempty"` // optshare / toollist: the sequential reference of every (call, wave)
}

// ---- state, options ----

type c09State struct {
	N int
}

type c09Opt struct{ S string }

// registered by a package-level initialiser: it must run before the init() above hands
// control to c09ChildMain
var c09RegErr = compose.RegisterSerializableType[c09State]("verif_c09_state")

func c09OptOf(opts []c09Opt) string {
	s := ""
	for _, o := range opts {
		s += o.S
	}
	return s
}

func c09IncState(ctx context.Context) error {
	return compose.ProcessState[*c09State](ctx, func(_ context.Context, s *c09State) error {
		s.N++
		return nil
	})
}

func c09Split(s string) []string {
	if len(s) < 2 {
		return []string{s}
	}
	return []string{s[:len(s)/2], s[len(s)/2:]}
}

func c09ReadAll(sr *schema.StreamReader[string]) (string, error) {
	defer sr.Close()
	var sb strings.Builder
	for {
		c, err := sr.Recv()
		if err == io.EOF {
			return sb.String(), nil
		}
		if err != nil {
			return sb.String(), err
		}
		sb.WriteString(c)
	}
}

// node body: out = in + tag + opt ; optionally increments the graph state
func c09Lambda(n c09Node) *compose.Lambda {
	body := func(ctx context.Context, in string, opts ...c09Opt) (string, error) {
		if n.Inc && n.Via == "" {
			if err := c09IncState(ctx); err != nil {
				return "", err
			}
		}
		out := in + n.Tag
		if n.UseOpt {
			out += c09OptOf(opts)
		}
		return out, nil
	}
	switch n.Kind {
	case "t":
		return compose.TransformableLambdaWithOption(func(ctx context.Context, in *schema.StreamReader[string], opts ...c09Opt) (*schema.StreamReader[string], error) {
			v, err := c09ReadAll(in)
			if err != nil {
				return nil, err
			}
			out, err := body(ctx, v, opts...)
			if err != nil {
				return nil, err
			}
			return schema.StreamReaderFromArray(c09Split(out)), nil
		})
	case "s":
		return compose.StreamableLambdaWithOption(func(ctx context.Context, in string, opts ...c09Opt) (*schema.StreamReader[string], error) {
			out, err := body(ctx, in, opts...)
			if err != nil {
				return nil, err
			}
			return schema.StreamReaderFromArray(c09Split(out)), nil
		})
	}
	return compose.InvokableLambdaWithOption(body)
}

func c09NodeOpts(n c09Node, extra ...compose.GraphAddNodeOpt) []compose.GraphAddNodeOpt {
	opts := append([]compose.GraphAddNodeOpt{}, extra...)
	if n.Inc && n.Via == "pre" {
		opts = append(opts, compose.WithStatePreHandler(func(ctx context.Context, in string, s *c09State) (string, error) {
			s.N++
			return in, nil
		}))
	}
	if n.Inc && n.Via == "post" {
		opts = append(opts, compose.WithStatePostHandler(func(ctx context.Context, out string, s *c09State) (string, error) {
			s.N++
			return out, nil
		}))
	}
	return opts
}

// fan-in: canonical rendering of the map of per-node results
func c09Join() *compose.Lambda {
	return compose.InvokableLambda(func(ctx context.Context, m map[string]any) (string, error) {
		keys := make([]string, 0, len(m))
		for k := range m {
			keys = append(keys, k)
		}
		sort.Strings(keys)
		parts := make([]string, 0, len(keys))
		for _, k := range keys {
			parts = append(parts, k+"="+fmt.Sprint(m[k]))
		}
		return "{" + strings.Join(parts, ",") + "}", nil
	})
}

func c09Ident() *compose.Lambda {
	return compose.InvokableLambda(func(ctx context.Context, in string) (string, error) { return in, nil })
}

// END node of every layered object: value#state
func c09Fin() *compose.Lambda {
	return compose.InvokableLambda(func(ctx context.Context, in string) (string, error) {
		n := -1
		err := compose.ProcessState[*c09State](ctx, func(_ context.Context, s *c09State) error {
			n = s.N
			return nil
		})
		if err != nil {
			return "", err
		}
		return in + "#" + strconv.Itoa(n), nil
	})
}

func c09Key(layer int, tag string) string { return fmt.Sprintf("L%d_%s", layer, tag) }

func c09GenState() compose.NewGraphOption {
	return compose.WithGenLocalState(func(ctx context.Context) *c09State { return &c09State{} })
}

func c09BranchCond(keys []string) func(ctx context.Context, in string) (string, error) {
	return func(ctx context.Context, in string) (string, error) { return keys[len(in)%len(keys)], nil }
}

// addLayers adds the layers to a Graph (pregel or dag) starting after node `prev`; returns
// the key of the last node.
func c09AddLayers(g *compose.Graph[string, string], layers []c09Layer, base int, prev string) (string, error) {
	for li, l := range layers {
		k := base + li
		switch {
		case len(l.Nodes) == 0:
			continue
		case len(l.Nodes) == 1:
			key := c09Key(k, l.Nodes[0].Tag)
			if err := g.AddLambdaNode(key, c09Lambda(l.Nodes[0]), c09NodeOpts(l.Nodes[0])...); err != nil {
				return "", err
			}
			if err := g.AddEdge(prev, key); err != nil {
				return "", err
			}
			prev = key
		case l.Branch:
			keys := make([]string, len(l.Nodes))
			ends := map[string]bool{}
			merge := fmt.Sprintf("M%d", k)
			if err := g.AddLambdaNode(merge, c09Ident()); err != nil {
				return "", err
			}
			for i, n := range l.Nodes {
				keys[i] = c09Key(k, n.Tag)
				ends[keys[i]] = true
				if err := g.AddLambdaNode(keys[i], c09Lambda(n), c09NodeOpts(n)...); err != nil {
					return "", err
				}
				if err := g.AddEdge(keys[i], merge); err != nil {
					return "", err
				}
			}
			if err := g.AddBranch(prev, compose.NewGraphBranch(c09BranchCond(keys), ends)); err != nil {
				return "", err
			}
			prev = merge
		default:
			join := fmt.Sprintf("J%d", k)
			if err := g.AddLambdaNode(join, c09Join()); err != nil {
				return "", err
			}
			for _, n := range l.Nodes {
				key := c09Key(k, n.Tag)
				if err := g.AddLambdaNode(key, c09Lambda(n), c09NodeOpts(n, compose.WithOutputKey(n.Tag))...); err != nil {
					return "", err
				}
				if err := g.AddEdge(prev, key); err != nil {
					return "", err
				}
				if err := g.AddEdge(key, join); err != nil {
					return "", err
				}
			}
			prev = join
		}
	}
	return prev, nil
}

type c09MemStore struct {
	mu sync.Mutex
	m  map[string][]byte
}

func (s *c09MemStore) Get(ctx context.Context, id string) ([]byte, bool, error) {
	s.mu.Lock()
	defer s.mu.Unlock()
	b, ok := s.m[id]
	return b, ok, nil
}

func (s *c09MemStore) Set(ctx context.Context, id string, b []byte) error {
	s.mu.Lock()
	defer s.mu.Unlock()
	s.m[id] = append([]byte{}, b...)
	return nil
}

func c09BuildGraph(c *c09Case) (compose.Runnable[string, string], error) {
	ctx := context.Background()
	var copts []compose.GraphCompileOption
	if c.Kind == "dag" {
		copts = append(copts, compose.WithNodeTriggerMode(compose.AllPredecessor))
	}
	switch c.Kind {
	case "pregel", "dag", "checkpoint":
		g := compose.NewGraph[string, string](c09GenState())
		if err := g.AddLambdaNode("in", c09Ident()); err != nil {
			return nil, err
		}
		if err := g.AddEdge(compose.START, "in"); err != nil {
			return nil, err
		}
		last, err := c09AddLayers(g, c.Layers, 0, "in")
		if err != nil {
			return nil, err
		}
		if err := g.AddLambdaNode("fin", c09Fin()); err != nil {
			return nil, err
		}
		if err := g.AddEdge(last, "fin"); err != nil {
			return nil, err
		}
		if err := g.AddEdge("fin", compose.END); err != nil {
			return nil, err
		}
		if c.Kind == "checkpoint" {
			copts = append(copts, compose.WithCheckPointStore(&c09MemStore{m: map[string][]byte{}}))
			if c.IntLayer >= 0 && c.IntLayer < len(c.Layers) && len(c.Layers[c.IntLayer].Nodes) > 0 {
				copts = append(copts, compose.WithInterruptBeforeNodes([]string{c09Key(c.IntLayer, c.Layers[c.IntLayer].Nodes[0].Tag)}))
			}
		}
		return g.Compile(ctx, copts...)
	case "nested":
		inner := compose.NewGraph[string, string]()
		if err := inner.AddLambdaNode("in", c09Ident()); err != nil {
			return nil, err
		}
		if err := inner.AddEdge(compose.START, "in"); err != nil {
			return nil, err
		}
		ilast, err := c09AddLayers(inner, c.Layers[c.NestFrom:c.NestTo], c.NestFrom, "in")
		if err != nil {
			return nil, err
		}
		if err := inner.AddEdge(ilast, compose.END); err != nil {
			return nil, err
		}
		g := compose.NewGraph[string, string](c09GenState())
		if err := g.AddLambdaNode("in", c09Ident()); err != nil {
			return nil, err
		}
		if err := g.AddEdge(compose.START, "in"); err != nil {
			return nil, err
		}
		last, err := c09AddLayers(g, c.Layers[:c.NestFrom], 0, "in")
		if err != nil {
			return nil, err
		}
		if err := g.AddGraphNode("sub", inner); err != nil {
			return nil, err
		}
		if err := g.AddEdge(last, "sub"); err != nil {
			return nil, err
		}
		last, err = c09AddLayers(g, c.Layers[c.NestTo:], c.NestTo, "sub")
		if err != nil {
			return nil, err
		}
		if err := g.AddLambdaNode("fin", c09Fin()); err != nil {
			return nil, err
		}
		if err := g.AddEdge(last, "fin"); err != nil {
			return nil, err
		}
		if err := g.AddEdge("fin", compose.END); err != nil {
			return nil, err
		}
		return g.Compile(ctx, copts...)
	case "workflow":
		wf := compose.NewWorkflow[string, string](c09GenState())
		wf.AddLambdaNode("in", c09Ident()).AddInput(compose.START)
		prev := "in"
		for k, l := range c.Layers {
			if len(l.Nodes) == 1 {
				key := c09Key(k, l.Nodes[0].Tag)
				wf.AddLambdaNode(key, c09Lambda(l.Nodes[0]), c09NodeOpts(l.Nodes[0])...).AddInput(prev)
				prev = key
				continue
			}
			join := wf.AddLambdaNode(fmt.Sprintf("J%d", k), c09Join())
			for _, n := range l.Nodes {
				key := c09Key(k, n.Tag)
				wf.AddLambdaNode(key, c09Lambda(n), c09NodeOpts(n)...).AddInput(prev)
				join.AddInput(key, compose.ToField(n.Tag))
			}
			prev = fmt.Sprintf("J%d", k)
		}
		wf.AddLambdaNode("fin", c09Fin()).AddInput(prev)
		wf.End().AddInput("fin")
		return wf.Compile(ctx)
	case "chain":
		ch := compose.NewChain[string, string](c09GenState())
		ch.AppendLambda(c09Ident(), compose.WithNodeKey("in"))
		for k, l := range c.Layers {
			switch {
			case len(l.Nodes) == 1:
				n := l.Nodes[0]
				ch.AppendLambda(c09Lambda(n), c09NodeOpts(n, compose.WithNodeKey(c09Key(k, n.Tag)))...)
			case l.Branch:
				keys := make([]string, len(l.Nodes))
				for i, n := range l.Nodes {
					keys[i] = c09Key(k, n.Tag)
				}
				cb := compose.NewChainBranch(c09BranchCond(keys))
				for i, n := range l.Nodes {
					cb.AddLambda(keys[i], c09Lambda(n), c09NodeOpts(n)...)
				}
				ch.AppendBranch(cb)
				ch.AppendLambda(c09Ident(), compose.WithNodeKey(fmt.Sprintf("M%d", k))) // converge before whatever follows
			default:
				p := compose.NewParallel()
				for _, n := range l.Nodes {
					p.AddLambda(n.Tag, c09Lambda(n), c09NodeOpts(n, compose.WithNodeKey(c09Key(k, n.Tag)))...)
				}
				ch.AppendParallel(p)
				ch.AppendLambda(c09Join(), compose.WithNodeKey(fmt.Sprintf("J%d", k)))
			}
		}
		ch.AppendLambda(c09Fin(), compose.WithNodeKey("fin"))
		return ch.Compile(ctx)
	}
	return nil, fmt.Errorf("unknown kind %s", c.Kind)
}

// ---- per-call callback handler: records only what it sees; flags foreign traffic ----

type c09Log struct {
	mu    sync.Mutex
	token string
	ev    []string
}

func (l *c09Log) add(s string) { l.mu.Lock(); l.ev = append(l.ev, s); l.mu.Unlock() }

func (l *c09Log) check(kind string, info *callbacks.RunInfo, v any) {
	name := ""
	if info != nil {
		name = info.Name + "/" + string(info.Component)
	}
	l.add(kind + ":" + name)
	if s, ok := v.(string); ok && l.token != "" && !strings.Contains(s, l.token) {
		l.add("FOREIGN:" + kind + ":" + name)
	}
}

func (l *c09Log) sorted() []string {
	l.mu.Lock()
	defer l.mu.Unlock()
	out := append([]string{}, l.ev...)
	sort.Strings(out)
	return out
}

func c09Handler(l *c09Log) callbacks.Handler {
	return callbacks.NewHandlerBuilder().
		OnStartFn(func(ctx context.Context, info *callbacks.RunInfo, in callbacks.CallbackInput) context.Context {
			l.check("start", info, in)
			return ctx
		}).
		OnEndFn(func(ctx context.Context, info *callbacks.RunInfo, out callbacks.CallbackOutput) context.Context {
			l.check("end", info, out)
			return ctx
		}).
		OnErrorFn(func(ctx context.Context, info *callbacks.RunInfo, err error) context.Context {
			l.check("error", info, nil)
			return ctx
		}).
		OnStartWithStreamInputFn(func(ctx context.Context, info *callbacks.RunInfo, in *schema.StreamReader[callbacks.CallbackInput]) context.Context {
			in.Close()
			l.check("start", info, nil)
			return ctx
		}).
		OnEndWithStreamOutputFn(func(ctx context.Context, info *callbacks.RunInfo, out *schema.StreamReader[callbacks.CallbackOutput]) context.Context {
			out.Close()
			l.check("end", info, nil)
			return ctx
		}).Build()
}

// ---- running one call ----

func c09ErrClass(err error) string {
	if err == nil {
		return ""
	}
	if _, ok := compose.ExtractInterruptInfo(err); ok {
		return "interrupt"
	}
	return "error"
}

type c09Runner func(callIdx, rep int, phase string) c09Obs

func c09Token(in string) string {
	if i := strings.Index(in, ":"); i > 0 {
		return in[:i]
	}
	return in
}

func c09StrStream(s string, chunks int) *schema.StreamReader[string] {
	if chunks < 1 {
		chunks = 1
	}
	var parts []string
	step := (len(s) + chunks - 1) / chunks
	if step < 1 {
		step = 1
	}
	for i := 0; i < len(s); i += step {
		j := i + step
		if j > len(s) {
			j = len(s)
		}
		parts = append(parts, s[i:j])
	}
	if len(parts) == 0 {
		parts = []string{""}
	}
	return schema.StreamReaderFromArray(parts)
}

func c09GraphRunner(c *c09Case, r compose.Runnable[string, string]) c09Runner {
	// option designated to every node that reads it
	var optKeys []*compose.NodePath
	for k, l := range c.Layers {
		for _, n := range l.Nodes {
			if !n.UseOpt {
				continue
			}
			if c.Kind == "nested" && k >= c.NestFrom && k < c.NestTo {
				optKeys = append(optKeys, compose.NewNodePath("sub", c09Key(k, n.Tag)))
			} else {
				optKeys = append(optKeys, compose.NewNodePath(c09Key(k, n.Tag)))
			}
		}
	}
	mkOpt := func(s string) []compose.Option {
		if len(optKeys) == 0 || s == "" {
			return nil
		}
		return []compose.Option{compose.WithLambdaOption(c09Opt{S: s}).DesignateNodeWithPath(optKeys...)}
	}
	var shared []compose.Option
	if c.SharedOpt && len(c.Calls) > 0 {
		shared = mkOpt(c.Calls[0].Opt)
	}
	parent := context.Background()
	if c.ParentCB {
		var hs []callbacks.Handler
		for i := 0; i < c.ParentCap || i < 1; i++ {
			hs = append(hs, c09Handler(&c09Log{})) // 3 appends leave len 3, cap 4
		}
		parent = callbacks.InitCallbacks(parent, &callbacks.RunInfo{Name: "parent"}, hs...)
	}
	return func(ci, rep int, phase string) (obs c09Obs) {
		call := c.Calls[ci]
		ctx := parent
		var opts []compose.Option
		if c.SharedOpt {
			opts = append(opts, shared...) // copies the option VALUES into a fresh slice; the values (and what they point to) stay shared
		} else {
			opts = append(opts, mkOpt(call.Opt)...)
		}
		var log *c09Log
		if call.CB {
			log = &c09Log{token: c09Token(call.In)}
			opts = append(opts, compose.WithCallbacks(c09Handler(log)))
		}
		run := func(extra ...compose.Option) (string, error) {
			o := append(append([]compose.Option{}, opts...), extra...)
			switch call.Paradigm {
			case "stream":
				sr, err := r.Stream(ctx, call.In, o...)
				if err != nil {
					return "", err
				}
				return c09ReadAll(sr)
			case "collect":
				return r.Collect(ctx, c09StrStream(call.In, call.Chunks), o...)
			case "transform":
				sr, err := r.Transform(ctx, c09StrStream(call.In, call.Chunks), o...)
				if err != nil {
					return "", err
				}
				return c09ReadAll(sr)
			}
			return r.Invoke(ctx, call.In, o...)
		}
		defer func() {
			if p := recover(); p != nil {
				obs = c09Obs{Err: "panic", Msg: fmt.Sprint(p)}
			}
			if log != nil {
				obs.CB = log.sorted()
			}
		}()
		if c.Kind == "checkpoint" {
			id := fmt.Sprintf("cp-%s-%d-%d", phase, ci, rep)
			out, err := run(compose.WithCheckPointID(id))
			if c09ErrClass(err) == "interrupt" {
				out, err = run(compose.WithCheckPointID(id)) // resume
				if err == nil {
					out = "resumed:" + out
				}
			}
			if err != nil {
				return c09Obs{Err: c09ErrClass(err), Msg: err.Error()}
			}
			return c09Obs{Out: out}
		}
		out, err := run()
		if err != nil {
			return c09Obs{Err: c09ErrClass(err), Msg: err.Error()}
		}
		return c09Obs{Out: out}
	}
}

// ---- agents: scripted, stateless (hence concurrency-safe) chat models and tools ----

type c09Model struct {
	name string
	echo bool // specialist: always answers directly
}

func c09LastUser(in []*schema.Message) string {
	for i := len(in) - 1; i >= 0; i-- {
		if in[i].Role == schema.User {
			return in[i].Content
		}
	}
	return ""
}

// user content:  "<token>:<route>"  route = ret | norm | none | <specialist name>
func (m *c09Model) answer(in []*schema.Message) *schema.Message {
	if len(in) == 0 {
		return schema.AssistantMessage("empty", nil)
	}
	last := in[len(in)-1]
	if last.Role == schema.Tool {
		return schema.AssistantMessage("final("+last.Content+")", nil)
	}
	u := c09LastUser(in)
	route := u
	if i := strings.LastIndex(u, ":"); i >= 0 {
		route = u[i+1:]
	}
	if m.echo || route == "none" || route == "" {
		return schema.AssistantMessage(m.name+"-direct("+u+")", nil)
	}
	args, _ := json.Marshal(map[string]string{"reason": u})
	return schema.AssistantMessage("", []schema.ToolCall{{ID: "call-" + u, Type: "function", Function: schema.FunctionCall{Name: route, Arguments: string(args)}}})
}

func (m *c09Model) Generate(ctx context.Context, in []*schema.Message, opts ...model.Option) (*schema.Message, error) {
	return m.answer(in), nil
}

func (m *c09Model) Stream(ctx context.Context, in []*schema.Message, opts ...model.Option) (*schema.StreamReader[*schema.Message], error) {
	a := m.answer(in)
	if len(a.ToolCalls) > 0 || len(a.Content) < 2 {
		return schema.StreamReaderFromArray([]*schema.Message{a}), nil
	}
	h := len(a.Content) / 2
	return schema.StreamReaderFromArray([]*schema.Message{
		schema.AssistantMessage(a.Content[:h], nil), schema.AssistantMessage(a.Content[h:], nil)}), nil
}

func (m *c09Model) WithTools(tools []*schema.ToolInfo) (model.ToolCallingChatModel, error) {
	return m, nil
}

type c09Tool struct{ name string }

func (t *c09Tool) Info(ctx context.Context) (*schema.ToolInfo, error) {
	return &schema.ToolInfo{Name: t.name, Desc: "tool " + t.name,
		ParamsOneOf: schema.NewParamsOneOfByParams(map[string]*schema.ParameterInfo{"reason": {Type: schema.String, Desc: "r"}})}, nil
}

func (t *c09Tool) InvokableRun(ctx context.Context, args string, opts ...tool.Option) (string, error) {
	var m map[string]string
	_ = json.Unmarshal([]byte(args), &m)
	return t.name + "(" + m["reason"] + ")", nil
}

func c09MsgStream(sr *schema.StreamReader[*schema.Message]) (*schema.Message, error) {
	defer sr.Close()
	var ms []*schema.Message
	for {
		m, err := sr.Recv()
		if err == io.EOF {
			break
		}
		if err != nil {
			return nil, err
		}
		ms = append(ms, m)
	}
	if len(ms) == 0 {
		return nil, errors.New("empty stream")
	}
	return schema.ConcatMessages(ms)
}

type c09Agent interface {
	Generate(ctx context.Context, input []*schema.Message, opts ...agent.AgentOption) (*schema.Message, error)
	Stream(ctx context.Context, input []*schema.Message, opts ...agent.AgentOption) (*schema.StreamReader[*schema.Message], error)
}

func c09AgentRunner(c *c09Case, a c09Agent) c09Runner {
	return func(ci, rep int, phase string) (obs c09Obs) {
		call := c.Calls[ci]
		defer func() {
			if p := recover(); p != nil {
				obs = c09Obs{Err: "panic", Msg: fmt.Sprint(p)}
			}
		}()
		in := []*schema.Message{schema.UserMessage(call.In)}
		var opts []agent.AgentOption
		var log *c09Log
		if call.CB {
			log = &c09Log{}
			opts = append(opts, agent.WithComposeOptions(compose.WithCallbacks(c09Handler(log))))
		}
		var msg *schema.Message
		var err error
		if call.Paradigm == "stream" {
			var sr *schema.StreamReader[*schema.Message]
			sr, err = a.Stream(context.Background(), in, opts...)
			if err == nil {
				msg, err = c09MsgStream(sr)
			}
		} else {
			msg, err = a.Generate(context.Background(), in, opts...)
		}
		if err != nil {
			return c09Obs{Err: c09ErrClass(err), Msg: err.Error()}
		}
		obs = c09Obs{Out: string(msg.Role) + "|" + msg.Content + "|" + msg.ToolCallID}
		if log != nil {
			obs.CB = log.sorted()
		}
		return obs
	}
}

// ---- wfstraggler: an eager Workflow whose failing runs leave a sibling node in flight ----
//
//	START -> {check, work[, aux]} -> END (map of the outputs)
//	check: fails at once for "bad-<id>", answers at once otherwise
//	work : for "bad-<id>" blocks on the gate of <id> (released by the caller only AFTER the
//	       failing run has returned), for "good-<id>" releases that gate, waits until the
//	       straggler's body has returned, lingers a moment, then answers
//
// Every caller runs the pair bad-<id>, good-<id> on the SAME compiled object, so each good run
// overlaps with the completion of a straggler of a finished run (its own partner's and, with
// several callers, other callers').  On correct code no timing can change a result: the
// short sleeps only widen the window in which a recycled per-run object would be hit.

type c09Gate struct {
	release, done chan struct{}
	once          sync.Once
}

var c09Gates sync.Map // id -> *c09Gate

func c09WaitCh(ch chan struct{}) bool {
	select {
	case <-ch:
		return true
	case <-time.After(10 * time.Second):
		return false
	}
}

func c09StragglerID(in string) string {
	if i := strings.Index(in, "-"); i >= 0 {
		return in[i+1:]
	}
	return in
}

func c09BuildStraggler(c *c09Case) (compose.Runnable[string, map[string]any], error) {
	wf := compose.NewWorkflow[string, map[string]any]()
	wf.AddLambdaNode("check", compose.InvokableLambda(func(_ context.Context, in string) (string, error) {
		if strings.HasPrefix(in, "bad") {
			return "", errors.New("rejected " + in)
		}
		return "check(" + in + ")", nil
	})).AddInput(compose.START)
	wf.AddLambdaNode("work", compose.InvokableLambda(func(_ context.Context, in string) (string, error) {
		g, _ := c09Gates.Load(c09StragglerID(in))
		gate, _ := g.(*c09Gate)
		out := "work(" + in + ")"
		if gate == nil {
			return out, nil
		}
		if strings.HasPrefix(in, "bad") {
			defer close(gate.done)
			if !c09WaitCh(gate.release) {
				return out + "TIMEOUT", nil
			}
			return out, nil
		}
		gate.once.Do(func() { close(gate.release) })
		if !c09WaitCh(gate.done) {
			return out + "TIMEOUT", nil
		}
		time.Sleep(3 * time.Millisecond) // exposure window only (see above)
		return out, nil
	})).AddInput(compose.START)
	end := wf.End().AddInput("check", compose.ToField("check")).AddInput("work", compose.ToField("work"))
	if c.Par >= 3 {
		wf.AddLambdaNode("aux", compose.InvokableLambda(func(_ context.Context, in string) (string, error) {
			return "aux(" + in + ")", nil
		})).AddInput(compose.START)
		end.AddInput("aux", compose.ToField("aux"))
	}
	return wf.Compile(context.Background())
}

func c09RenderMap(m map[string]any) string {
	keys := make([]string, 0, len(m))
	for k := range m {
		keys = append(keys, k)
	}
	sort.Strings(keys)
	parts := make([]string, 0, len(keys))
	for _, k := range keys {
		parts = append(parts, k+"="+fmt.Sprint(m[k]))
	}
	return "{" + strings.Join(parts, ",") + "}"
}

func c09StragglerRunner(c *c09Case, r compose.Runnable[string, map[string]any]) c09Runner {
	ctx := context.Background()
	good := func(call c09Call, id string) string {
		in := "good-" + id
		var m map[string]any
		var err error
		if call.Paradigm == "stream" {
			var sr *schema.StreamReader[map[string]any]
			sr, err = r.Stream(ctx, in)
			if err == nil {
				m = map[string]any{}
				for {
					ch, e := sr.Recv()
					if e == io.EOF {
						break
					}
					if e != nil {
						err = e
						break
					}
					for k, v := range ch {
						prev, _ := m[k].(string)
						m[k] = prev + fmt.Sprint(v)
					}
				}
				sr.Close()
			}
		} else {
			m, err = r.Invoke(ctx, in)
		}
		if err != nil {
			return "error:" + c09ErrClass(err)
		}
		return c09RenderMap(m)
	}
	bad := func(id string) string {
		out, err := r.Invoke(ctx, "bad-"+id)
		switch {
		case err == nil:
			return "noerr:" + c09RenderMap(out)
		case strings.Contains(err.Error(), "rejected bad-"+id):
			return "own"
		}
		return "other"
	}
	return func(ci, rep int, phase string) (obs c09Obs) {
		call := c.Calls[ci]
		defer func() {
			if p := recover(); p != nil {
				obs = c09Obs{Err: "panic", Msg: fmt.Sprint(p)}
			}
		}()
		id := fmt.Sprintf("%s%dr%d%s", call.In, ci, rep, phase[:1])
		gate := &c09Gate{release: make(chan struct{}), done: make(chan struct{})}
		var b, g string
		if phase == "alone" {
			// truly alone: the good run first (nothing of an earlier run in flight), then the
			// failing run, whose straggler is released, awaited and given time to retire
			g = good(call, id)
			c09Gates.Store(id, gate)
			b = bad(id)
			gate.once.Do(func() { close(gate.release) })
			c09WaitCh(gate.done)
			time.Sleep(20 * time.Millisecond)
		} else {
			c09Gates.Store(id, gate)
			b = bad(id) // returns with `work` still blocked on the gate
			g = good(call, id)
			gate.once.Do(func() { close(gate.release) }) // in case the good run never reached `work`
		}
		c09Gates.Delete(id)
		out := "bad:" + b + ";good:" + g
		return c09Obs{Out: strings.ReplaceAll(out, id, "ID")}
	}
}

func c09BuildRunner(c *c09Case) (c09Runner, error) {
	ctx := context.Background()
	switch c.Kind {
	case "optshare":
		r, err := c09BuildOptShare(c)
		if err != nil {
			return nil, err
		}
		return c09OptShareRunner(c, r), nil
	case "branchmix":
		r, err := c09BuildBranchMix(c)
		if err != nil {
			return nil, err
		}
		return c09BranchMixRunner(c, r), nil
	case "inflight":
		if c.FL != nil && c.FL.Hold != "" {
			r, err := c09BuildHold(c)
			if err != nil {
				return nil, err
			}
			return c09HoldRunner(c, r), nil
		}
		rs, err := c09BuildFlight(c)
		if err != nil {
			return nil, err
		}
		return c09FlightRunner(c, rs), nil
	case "cbshare":
		r, err := c09BuildCbShare(c)
		if err != nil {
			return nil, err
		}
		return c09CbShareRunner(c, r), nil
	case "toollist":
		r, err := c09BuildToolList(c)
		if err != nil {
			return nil, err
		}
		return c09ToolListRunner(c, r), nil
	case "errpath":
		rs, err := c09BuildErrPath(c)
		if err != nil {
			return nil, err
		}
		return c09ErrPathRunner(c, rs), nil
	case "wfstraggler":
		r, err := c09BuildStraggler(c)
		if err != nil {
			return nil, err
		}
		return c09StragglerRunner(c, r), nil
	case "react":
		a, err := react.NewAgent(ctx, &react.AgentConfig{
			ToolCallingModel:   &c09Model{name: "react"},
			ToolsConfig:        compose.ToolsNodeConfig{Tools: []tool.BaseTool{&c09Tool{name: "ret"}, &c09Tool{name: "norm"}}},
			MaxStep:            12,
			ToolReturnDirectly: map[string]struct{}{"ret": {}},
		})
		if err != nil {
			return nil, err
		}
		return c09AgentRunner(c, a), nil
	case "host":
		spec2 := func(ctx context.Context, in []*schema.Message, opts ...agent.AgentOption) (*schema.Message, error) {
			return schema.AssistantMessage("spec2("+c09LastUser(in)+")", nil), nil
		}
		ma, err := host.NewMultiAgent(ctx, &host.MultiAgentConfig{
			Host: host.Host{ToolCallingModel: &c09Model{name: "host"}},
			Specialists: []*host.Specialist{
				{AgentMeta: host.AgentMeta{Name: "spec1", IntendedUse: "one"}, ChatModel: &c09Model{name: "spec1", echo: true}, SystemPrompt: "be one"},
				{AgentMeta: host.AgentMeta{Name: "spec2", IntendedUse: "two"}, Invokable: spec2},
			},
		})
		if err != nil {
			return nil, err
		}
		return c09AgentRunner(c, ma), nil
	}
	r, err := c09BuildGraph(c)
	if err != nil {
		return nil, err
	}
	return c09GraphRunner(c, r), nil
}

func c09ChildMain() {
	raw, err := io.ReadAll(os.Stdin)
	if err != nil {
		fmt.Fprintln(os.Stderr, "c09 child: read:", err)
		os.Exit(3)
	}
	var c c09Case
	if err := json.Unmarshal(raw, &c); err != nil {
		fmt.Fprintln(os.Stderr, "c09 child: case:", err)
		os.Exit(3)
	}
	out := c09ChildOut{}
	emit := func() {
		b, _ := json.Marshal(out)
		os.Stdout.Write(b)
		os.Stdout.Write([]byte("\n"))
	}
	run, err := c09BuildRunner(&c)
	if err != nil {
		out.BuildErr = err.Error()
		emit()
		return
	}
	reps := c.Reps
	if reps < 1 {
		reps = 1
	}
	// phase 1: every call alone, sequentially
	for i := range c.Calls {
		if c09IsOptKind(c.Kind) { // what a call carries may differ from wave to wave: one reference per (call, wave)
			var rs []c09Obs
			for r := 0; r < reps; r++ {
				rs = append(rs, run(i, r, "alone"))
			}
			out.AloneR = append(out.AloneR, rs)
			out.Alone = append(out.Alone, rs[0])
			continue
		}
		out.Alone = append(out.Alone, run(i, 0, "alone"))
	}
	// phase 2: all calls at once, released together
	out.Conc = make([][]c09Obs, len(c.Calls))
	var ready, done sync.WaitGroup
	start := make(chan struct{})
	for i := range c.Calls {
		out.Conc[i] = make([]c09Obs, reps)
		ready.Add(1)
		done.Add(1)
		go func(i int) {
			defer done.Done()
			ready.Done()
			<-start
			for r := 0; r < reps; r++ {
				out.Conc[i][r] = run(i, r, "conc")
			}
		}(i)
	}
	ready.Wait()
	close(start)
	done.Wait()
	emit()
}
