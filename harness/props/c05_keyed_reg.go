//go:build verif && (vh_all || vh_c05)

package props

// registers the keyed family (c05_keyed.go) with the C05 check
func init() { c05Extra = append(c05Extra, runC05Keyed) }
