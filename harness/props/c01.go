//go:build verif && (vh_all || vh_c01)

package props

import (
	"encoding/json"
	"fmt"

	"github.com/cloudwego/eino/verifharness/gcase"
	"github.com/cloudwego/eino/verifharness/vh"
)

func init() { vh.Register("C01", runC01) }

// c01Extra: additional case families of this property (other files of the c01 group append
// to it in their init); each gets the same Ctx and reports into the same result.
var c01Extra []vh.PropFunc

// c01ReplayExtra: replay dispatch for the extra families, by the "kind" field of the case.
var c01ReplayExtra = map[string]func(ctx *vh.Ctx, raw json.RawMessage) error{}

type c01Case struct {
	G     *gcase.Graph `json:"g"`
	Input string       `json:"input"`
}

func c01One(ctx *vh.Ctx, c *c01Case) error {
	ctx.Progress.Mark(c)
	impl, class := gcase.Run(c.G, c.Input, nil)
	nodes, edges, branches, nested, cyclic, fanin := gcase.Shape(c.G)
	ctx.Res.Dist(fmt.Sprintf("nodes=%d", nodes))
	ctx.Res.Dist(fmt.Sprintf("branches=%d", branches))
	if cyclic {
		ctx.Res.Dist("cyclic")
	}
	if fanin {
		ctx.Res.Dist("fanin")
	}
	if nested > 0 {
		ctx.Res.Dist("nested")
	}
	_ = edges
	if impl == nil {
		cl := class
		if len(cl) > 14 {
			cl = cl[:14]
		}
		ctx.Res.Dist("class=" + cl)
		if class == "hang" || len(class) >= 5 && class[:5] == "panic" {
			ctx.Res.Disagree(vh.Disagreement{Signature: "C01:" + cl, What: "run " + class, Case: c})
		}
		// build/compile errors: the case is malformed for this property (C20 covers rejection)
		ctx.Res.Count("malformed", false)
		return nil
	}
	raw, err := ctx.Oracle.Ask("C01", c)
	if err != nil {
		return err
	}
	var model gcase.OutcomeJ
	if err := json.Unmarshal(raw, &model); err != nil {
		return err
	}
	gcase.NormalizeModel(c.G, &model)
	steps := len(impl.Trace)
	ctx.Res.Dist(fmt.Sprintf("steps=%d", min(steps, 9)))
	if impl.Result.Err != nil {
		ctx.Res.Dist("result=" + impl.Result.Err.C)
	} else {
		ctx.Res.Dist("result=ok")
	}
	key := vh.Canon(c)
	ctx.Res.Count(key, steps >= 2 && (cyclic || fanin || branches > 0 || nested > 0))
	ctx.Res.Sample(c)
	resEq := gcase.ResultMatches(&model, impl)
	model.Alts = nil
	if !resEq {
		ctx.Res.Disagree(vh.Disagreement{Signature: "C01:result", What: "run result differs from the model", Case: c, Model: model, Impl: impl})
		return nil
	}
	if !vh.CanonEq(impl.Trace, model.Trace) {
		ctx.Res.Disagree(vh.Disagreement{Signature: "C01:trace", What: "superstep trace (which nodes run in which step, on which merged input) differs from the model", Case: c, Model: model, Impl: impl})
	}
	return nil
}

func runC01(ctx *vh.Ctx) error {
	ctx.Res.Rule = "random any-predecessor (Pregel) graphs: 1-8 nodes, edges incl. cycles/self loops, 0-2 single/multi branches scripted by a table on hash(output), fan-in by map merge, pass-through and failing nodes, nested graphs (depth<=2, either mode), explicit/default step limits; non-trivial = >=2 supersteps and (cycle | fan-in | branch | nested); distinct by canonical case"
	if ctx.Replay != nil {
		var probe struct {
			Kind string `json:"kind"`
		}
		if json.Unmarshal(ctx.Replay, &probe) == nil && probe.Kind != "" {
			if f, ok := c01ReplayExtra[probe.Kind]; ok {
				return f(ctx, ctx.Replay)
			}
		}
		var c c01Case
		if err := json.Unmarshal(ctx.Replay, &c); err != nil {
			return err
		}
		return c01One(ctx, &c)
	}
	n := ctx.N(2500, 60000)
	for i := 0; i < n && ctx.TimeLeft(); i++ {
		o := gcase.GenOpts{Mode: "pregel", MaxNodes: 7, Depth: 2, Cycles: true, FailPct: 4, BranchPct: 25, NegLimitPct: 4, CompileCBPct: 25}
		if ctx.Thorough() {
			o.MaxNodes = 12
		}
		c := &c01Case{G: gcase.Gen(ctx.Rng, o), Input: fmt.Sprintf("x%d", ctx.Rng.Intn(5))}
		before := len(ctx.Res.Disagreements)
		if err := c01One(ctx, c); err != nil {
			return err
		}
		if len(ctx.Res.Disagreements) > before {
			ctx.ShrinkNew(before, 300, func(cs any) []any {
				cc, ok := cs.(*c01Case)
				if !ok {
					return nil
				}
				var out []any
				for _, g := range gcase.ShrinkCandidates(cc.G) {
					out = append(out, &c01Case{G: g, Input: cc.Input})
				}
				return out
			}, func(sh *vh.Ctx, cand any) { _ = c01One(sh, cand.(*c01Case)) })
		}
	}
	for _, f := range c01Extra {
		if err := f(ctx); err != nil {
			return err
		}
	}
	return nil
}
