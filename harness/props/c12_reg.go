//go:build verif && (vh_all || vh_c12)

package props

// C12, family "registry": the type registry as an OPERATION SEQUENCE.
//
// The registry of internal/serialization is process-global and filled by calls
// GenericRegister[T](key) (compose.RegisterSerializableType forwards to it).  A case is the life
// of one process: a sequence of steps
//
//	reg  GenericRegister[ptr^Ptr Slot](Key)   (Via "compose": through compose.RegisterSerializableType)
//	rt   a round trip of a value of the slot's type at a position (top level, behind pointers,
//	     as element / map value / map key, in `any` positions), in the registry as it is now
//	bb   a graph run with state *Slot interrupted, stored, resumed (the black-box path)
//
// over a pool of compile-time types ("slots": defined basic types and struct types in
// shape-compatible groups, so that a key that comes to name another type decodes silently; plus
// builtin and harness-registered types) and a small pool of keys (so that the same key meets
// different types, the same type different keys, the same pair again, the empty key, keys eino
// itself uses).  Every case runs in a CHILD process (this binary re-executed with
// VERIF_C12_CHILD=1, hook in c12_zchild.go): its registry holds eino's and the harness' init
// registrations and nothing else, so cases are independent and a replay is exact.
//
// Compared: (1) the property on the implementation alone — a type for which some call returned
// nil must round-trip to an equal value of the identical dynamic type at every later step; a type
// no call accepted must be refused by Marshal (or come back faithfully); (2) model
// (Model/C12Reg.lean `regStep` + the round-trip model in the registry as it is at that step) vs
// implementation: accepted / refused per call (a call that repeats a pair in force may answer
// either way), then encode class, intermediate tree, decode class, decoded value and type per
// round trip; (3) the oracle's own invariant `Ctx.ok` after every call
// (theorem registry_wellformed_after_any_calls).

import (
	"bytes"
	"encoding/json"
	"fmt"
	"io"
	"os"
	"os/exec"
	"reflect"
	"sort"
	"strings"
	"sync"
	"time"

	"github.com/cloudwego/eino/compose"
	"github.com/cloudwego/eino/internal/serialization"
	"github.com/cloudwego/eino/schema"
	"github.com/cloudwego/eino/verifharness/vh"
)

// ---- slots: types no init function registers ----

type c12RF1 float64
type c12RF2 float64
type c12RF3 float32
type c12RS1 string
type c12RS2 string
type c12RI1 int
type c12RI2 int64
type c12RB1 bool
type c12RB2 bool

type c12RA struct{ Note string }
type c12RB struct {
	Note    string
	Retries int
}
type c12RC struct {
	Note    string
	Retries int
	P       *int
	L       []string
	M       map[string]int
}
type c12RD struct{ Other int } // shares no field with the others
type c12RE struct {
	Note string
	Next *c12RE
}
type c12RG struct {
	Note  *string
	Extra **float64
}

type c12RegBBRes struct {
	Class            string
	StateEq, InputEq bool
	Why              string
}

type c12RegSlot struct {
	name   string
	t      reflect.Type
	kind   string // n named basic | s struct | b builtin (registered by eino) | h registered by the harness' init
	group  int    // shape-compatible slots share a group
	preKey string // kind b / h: the key an init function registered the type under
	reg    func(ptr int, via, key string) error
	bb     func(seed uint64) c12RegBBRes
}

func c12MkSlot[T any](kind string, group int) c12RegSlot {
	t := c12T[T]()
	return c12RegSlot{name: t.String(), t: t, kind: kind, group: group,
		reg: func(ptr int, via, key string) error {
			if via == "compose" {
				switch ptr {
				case 1:
					return compose.RegisterSerializableType[*T](key)
				case 2:
					return compose.RegisterSerializableType[**T](key)
				}
				return compose.RegisterSerializableType[T](key)
			}
			switch ptr {
			case 1:
				return serialization.GenericRegister[*T](key)
			case 2:
				return serialization.GenericRegister[**T](key)
			}
			return serialization.GenericRegister[T](key)
		},
		bb: func(seed uint64) c12RegBBRes {
			g := &c12Gen{r: vh.NewRand(seed), nilPtr: 20, budget: 14}
			a, b := g.gen(t, 0), g.gen(t, 0)
			pa, pb := reflect.New(t), reflect.New(t)
			pa.Elem().Set(a)
			pb.Elem().Set(b)
			state, pending := pa.Interface().(*T), pb.Interface().(*T)
			class, gs, gi := c12BBRun(state, pending)
			res := c12RegBBRes{Class: class}
			if class == "ok" {
				if gs != nil && gs != state {
					res.StateEq, res.Why = c12DeepEq(reflect.ValueOf(state), reflect.ValueOf(gs))
				}
				if gi != nil {
					var why string
					res.InputEq, why = c12DeepEq(reflect.ValueOf(pending), reflect.ValueOf(gi))
					if !res.InputEq {
						res.Why += " " + why
					}
				}
			}
			return res
		}}
}

// the pool; indices are part of the case language (append only)
var c12RegSlots = []c12RegSlot{
	c12MkSlot[c12RF1]("n", 0), c12MkSlot[c12RF2]("n", 0), c12MkSlot[c12RF3]("n", 0),
	c12MkSlot[c12RS1]("n", 1), c12MkSlot[c12RS2]("n", 1),
	c12MkSlot[c12RI1]("n", 2), c12MkSlot[c12RI2]("n", 2),
	c12MkSlot[c12RB1]("n", 3), c12MkSlot[c12RB2]("n", 3),
	c12MkSlot[c12RA]("s", 4), c12MkSlot[c12RB]("s", 4), c12MkSlot[c12RC]("s", 4), c12MkSlot[c12RE]("s", 4),
	c12MkSlot[c12RD]("s", 5), c12MkSlot[c12RG]("s", 5),
	c12MkSlot[int]("b", 2), c12MkSlot[string]("b", 1), c12MkSlot[c12MyInt]("h", 2),
	c12MkSlot[c12Leaf]("h", 6), c12MkSlot[c12MyStr]("h", 1),
}

func init() {
	pre := map[reflect.Type]string{c12T[int](): "_eino_int", c12T[string](): "_eino_string", c12T[c12MyInt](): "c12_myint",
		c12T[c12Leaf](): "c12_leaf", c12T[c12MyStr](): "c12_mystr"}
	for i := range c12RegSlots {
		c12RegSlots[i].preKey = pre[c12RegSlots[i].t]
	}
}

var c12RegPositions = []string{"top", "ptr", "pp", "slice", "ptrslice", "map", "key", "anyslice", "anymap", "anyfield"}

// keys eino's or the harness' init functions hold (with the type that has to be mentioned to the
// model so that its initial registry knows the key)
var c12RegTakenKeys = []struct {
	key string
	t   reflect.Type
}{
	{"_eino_string", c12T[string]()}, {"_eino_int", c12T[int]()}, {"_eino_message", c12T[schema.Message]()},
	{"c12_leaf", c12T[c12Leaf]()}, {"c12_mystr", c12T[c12MyStr]()},
}

// ---- case language ----

type c12RegStep struct {
	Op   string `json:"op"` // reg | rt | wr | rd | bb
	Slot int    `json:"slot"`
	H    int    `json:"h,omitempty"`  // wr: handle the bytes are kept under; rd: handle to read
	Ty   string `json:"ty,omitempty"` // informational: the slot's Go type
	Ptr  int    `json:"ptr,omitempty"`
	Key  string `json:"key"`
	Via  string `json:"via,omitempty"`
	Pos  string `json:"pos,omitempty"`
	Seed uint64 `json:"seed,omitempty"`
}

type c12RegCase struct {
	Mode  string       `json:"mode"` // registry
	Steps []c12RegStep `json:"steps"`
}

type c12RegObs struct {
	OK    bool         `json:"ok,omitempty"`  // reg: the call returned nil
	Err   string       `json:"err,omitempty"` // reg: error text
	Panic string       `json:"panic,omitempty"`
	RT    *c12Impl     `json:"rt,omitempty"`
	BB    *c12RegBBRes `json:"bb,omitempty"`
}

type c12RegChildOut struct {
	Obs           []c12RegObs `json:"obs"`
	HarnessRegErr string      `json:"harnessRegErr,omitempty"`
	Done          bool        `json:"done"`
}

func c12RegPtrTo(t reflect.Type, n int) reflect.Type {
	for ; n > 0; n-- {
		t = reflect.PtrTo(t)
	}
	return t
}

// c12RegValue: the value a `rt` step round-trips (same in parent and child: a function of
// slot, position and seed).
func c12RegValue(slot *c12RegSlot, pos string, seed uint64) reflect.Value {
	g := &c12Gen{r: vh.NewRand(seed), nilPtr: 20, budget: 14}
	t := slot.t
	v := g.gen(t, 0)
	addr := func(x reflect.Value) reflect.Value {
		p := reflect.New(x.Type())
		p.Elem().Set(x)
		return p
	}
	anyT := reflect.TypeOf((*any)(nil)).Elem()
	switch pos {
	case "ptr":
		return addr(v)
	case "pp":
		return addr(addr(v))
	case "slice":
		s := reflect.MakeSlice(reflect.SliceOf(t), 0, 2)
		return reflect.Append(s, v, g.gen(t, 0))
	case "ptrslice":
		s := reflect.MakeSlice(reflect.SliceOf(reflect.PtrTo(t)), 0, 3)
		return reflect.Append(s, addr(v), reflect.Zero(reflect.PtrTo(t)), addr(g.gen(t, 0)))
	case "map":
		m := reflect.MakeMap(reflect.MapOf(reflect.TypeOf(""), t))
		m.SetMapIndex(reflect.ValueOf("a"), v)
		m.SetMapIndex(reflect.ValueOf("b"), g.gen(t, 0))
		return m
	case "key":
		if t.Kind() != reflect.Struct && t.Kind() != reflect.Float32 && t.Kind() != reflect.Float64 {
			m := reflect.MakeMap(reflect.MapOf(t, reflect.TypeOf(0)))
			m.SetMapIndex(v, reflect.ValueOf(1))
			m.SetMapIndex(g.gen(t, 0), reflect.ValueOf(2))
			return m
		}
		return addr(v)
	case "anyslice":
		s := reflect.MakeSlice(reflect.SliceOf(anyT), 0, 3)
		return reflect.Append(s, v, reflect.Zero(anyT), addr(v))
	case "anymap":
		m := reflect.MakeMap(reflect.MapOf(reflect.TypeOf(""), anyT))
		m.SetMapIndex(reflect.ValueOf("x"), v)
		m.SetMapIndex(reflect.ValueOf("p"), addr(addr(v)))
		return m
	case "anyfield":
		return reflect.ValueOf(c12Any{X: v.Interface(), L: []any{addr(v).Interface()}, M: map[string]any{"s": v.Interface()}})
	}
	return v
}

// ---- child ----

func c12RegChildMain() {
	in, _ := io.ReadAll(os.Stdin)
	var c c12RegCase
	out := c12RegChildOut{}
	if err := json.Unmarshal(in, &c); err != nil {
		out.HarnessRegErr = "bad case: " + err.Error()
	}
	if c12RegErr != nil {
		out.HarnessRegErr = c12RegErr.Error()
	}
	type kept struct {
		data []byte
		orig any
		enc  c12Impl
	}
	store := map[int]*kept{}
	for _, st := range c.Steps {
		var o c12RegObs
		if st.Slot < 0 || st.Slot >= len(c12RegSlots) {
			o.Panic = "bad slot"
			out.Obs = append(out.Obs, o)
			continue
		}
		slot := &c12RegSlots[st.Slot]
		switch st.Op {
		case "reg":
			var err error
			if cls, txt := c12PanicText(func() { err = slot.reg(st.Ptr, st.Via, st.Key) }); cls != "" {
				o.Panic = cls + ": " + txt
			} else if err != nil {
				o.Err = err.Error()
			} else {
				o.OK = true
			}
		case "rt":
			v := c12RegValue(slot, st.Pos, st.Seed)
			impl, _ := c12RoundTrip(v.Interface(), true)
			o.RT = &impl
		case "wr":
			v := c12RegValue(slot, st.Pos, st.Seed)
			impl, data := c12RoundTrip(v.Interface(), true)
			store[st.H] = &kept{data: data, orig: v.Interface(), enc: impl}
			o.RT = &impl
		case "rd":
			impl := c12Impl{Enc: "-", Dec: "-"}
			if k := store[st.H]; k != nil {
				impl = c12Impl{Enc: k.enc.Enc, EncErr: k.enc.EncErr, Dec: "-"}
				if k.enc.Enc == "ok" {
					c12Decode(k.data, k.orig, &impl)
				}
			}
			o.RT = &impl
		case "bb":
			var r c12RegBBRes
			if cls, txt := c12PanicText(func() { r = slot.bb(st.Seed) }); cls != "" {
				r = c12RegBBRes{Class: "harness-" + cls, Why: txt}
			}
			o.BB = &r
		}
		out.Obs = append(out.Obs, o)
	}
	out.Done = true
	b, _ := json.Marshal(out)
	os.Stdout.Write(append(b, '\n'))
}

func c12RegRunChild(c *c12RegCase) (*c12RegChildOut, string) {
	exe, err := os.Executable()
	if err != nil {
		return nil, "no executable: " + err.Error()
	}
	in, _ := json.Marshal(c)
	cmd := exec.Command(exe)
	cmd.Env = append(os.Environ(), "VERIF_C12_CHILD=1")
	cmd.Stdin = bytes.NewReader(in)
	var so, se bytes.Buffer
	cmd.Stdout, cmd.Stderr = &so, &se
	if err := cmd.Start(); err != nil {
		return nil, "cannot start the child: " + err.Error()
	}
	done := make(chan error, 1)
	go func() { done <- cmd.Wait() }()
	select {
	case err = <-done:
	case <-time.After(120 * time.Second):
		cmd.Process.Kill()
		<-done
		return nil, "hang (child killed after 120 s)"
	}
	tail := se.String()
	if len(tail) > 3000 {
		tail = tail[len(tail)-3000:]
	}
	if err != nil {
		return nil, "child died: " + err.Error() + "\n" + tail
	}
	lines := bytes.Split(bytes.TrimSpace(so.Bytes()), []byte("\n"))
	var out c12RegChildOut
	if jerr := json.Unmarshal(lines[len(lines)-1], &out); jerr != nil || !out.Done {
		return nil, "child output unreadable\n" + tail
	}
	return &out, ""
}

// ---- parent: oracle case ----

type c12RegModelStep struct {
	Out      string `json:"out"`
	SamePair bool   `json:"samePair"`
	c12Model
}

// c12RegOracleCase renders the steps for the model; idx[i] = index of step i among the steps
// sent (bb steps are not modelled: -1).
func c12RegOracleCase(c *c12RegCase) (map[string]any, []int, []reflect.Value) {
	cx := c12NewCtx()
	var steps []any
	idx := make([]int, len(c.Steps))
	vals := make([]reflect.Value, len(c.Steps))
	for i, st := range c.Steps {
		slot := &c12RegSlots[st.Slot]
		idx[i] = -1
		switch st.Op {
		case "reg":
			for _, tk := range c12RegTakenKeys {
				if tk.key == st.Key {
					cx.ty(tk.t) // the initial registry of the model must know this key
				}
			}
			idx[i] = len(steps)
			steps = append(steps, map[string]any{"op": "reg", "key": st.Key, "ty": cx.ty(c12RegPtrTo(slot.t, st.Ptr))})
		case "rt", "wr":
			v := c12RegValue(slot, st.Pos, st.Seed)
			vals[i] = v
			var stt c12Stats
			idx[i] = len(steps)
			steps = append(steps, map[string]any{"op": st.Op, "h": st.H, "v": cx.val(v, &stt, 0, 0)})
		case "rd":
			idx[i] = len(steps)
			steps = append(steps, map[string]any{"op": "rd", "h": st.H})
		}
	}
	m := map[string]any{"mode": "registry", "steps": c12OrEmpty(steps)}
	cx.fill(m)
	return m, idx, vals
}

// ---- parent: evaluation of one case ----

type c12RegVerdict struct {
	ds    []vh.Disagreement
	dists []string
	key   string
	nontr bool
}

func c12RegKindPair(a, b *c12RegSlot) string { return a.kind + "," + b.kind }

// c12RegEval compares child observations and model answers of one case.
func c12RegEval(c *c12RegCase, child *c12RegChildOut, childErr string, raw json.RawMessage) (*c12RegVerdict, error) {
	vd := &c12RegVerdict{}
	bad := func(sig, what string, model, impl any) {
		vd.ds = append(vd.ds, vh.Disagreement{Signature: sig, What: what, Case: c, Model: model, Impl: impl})
	}
	if child == nil {
		cls := "crash"
		if strings.HasPrefix(childErr, "hang") {
			cls = "hang"
		}
		bad("C12:registry:process-"+cls, "the process that ran the registration sequence did not finish: "+childErr, nil, childErr)
		vd.key = "registry/crash"
		return vd, nil
	}
	if child.HarnessRegErr != "" {
		return nil, fmt.Errorf("registry child: %s", child.HarnessRegErr)
	}
	if len(child.Obs) != len(c.Steps) {
		return nil, fmt.Errorf("registry child answered %d of %d steps", len(child.Obs), len(c.Steps))
	}
	var mo struct {
		CtxOK0 bool              `json:"ctxok0"`
		Steps  []json.RawMessage `json:"steps"`
	}
	if err := json.Unmarshal(raw, &mo); err != nil {
		return nil, fmt.Errorf("oracle answer: %v (%s)", err, string(raw))
	}
	_, idx, vals := c12RegOracleCase(c)
	if !mo.CtxOK0 {
		bad("C12:ctx-not-ok", "the initial registry sent to the model is not well-formed", json.RawMessage(raw), nil)
	}
	// history as the implementation reported it
	accepted := map[int][]string{} // slot -> keys some call for it was accepted under
	holders := map[string][]int{}  // key -> slots accepted under it, in order
	isPre := func(slot int) bool { return c12RegSlots[slot].preKey != "" }
	// keys held since process start: the slots registered by an init function, and the other
	// keys of c12RegTakenKeys (holder -1: a type that is no slot)
	for i, s := range c12RegSlots {
		if s.preKey != "" {
			accepted[i] = []string{s.preKey}
			holders[s.preKey] = []int{i}
		}
	}
	for _, tk := range c12RegTakenKeys {
		if len(holders[tk.key]) == 0 {
			holders[tk.key] = []int{-1}
		}
	}
	clash := func(slot int) string {
		me := &c12RegSlots[slot]
		ks := accepted[slot]
		if len(ks) == 0 {
			return "never-accepted(" + me.kind + ")"
		}
		for _, k := range ks {
			for _, other := range holders[k] {
				if other == -1 {
					return "key-shared(" + me.kind + ",b)"
				}
				if other != slot {
					return "key-shared(" + c12RegKindPair(me, &c12RegSlots[other]) + ")"
				}
			}
		}
		if len(ks) > 1 {
			return "rekeyed(" + me.kind + ")"
		}
		if isPre(slot) {
			return "preregistered(" + me.kind + ")"
		}
		return "plain(" + me.kind + ")"
	}
	diverged := false
	nReg, nClashKey, nClashTy, nSame, nRT := 0, 0, 0, 0, 0
	for i, st := range c.Steps {
		o := child.Obs[i]
		slot := &c12RegSlots[st.Slot]
		var ms c12RegModelStep
		if idx[i] >= 0 {
			if idx[i] >= len(mo.Steps) {
				return nil, fmt.Errorf("oracle answered %d steps, step %d wanted", len(mo.Steps), idx[i])
			}
			if err := json.Unmarshal(mo.Steps[idx[i]], &ms); err != nil {
				return nil, err
			}
		}
		switch st.Op {
		case "reg":
			nReg++
			implOut := "refused"
			if o.OK {
				implOut = "accepted"
			}
			if o.Panic != "" {
				implOut = "panic"
				bad("C12:registry:register-panic:"+ms.Out, "GenericRegister panicked: "+o.Panic, ms, o)
			}
			same := ""
			if ms.SamePair {
				same = "(pair in force)"
				nSame++
			}
			switch ms.Out {
			case "keyTaken":
				nClashKey++
			case "typeTaken":
				nClashTy++
			}
			vd.dists = append(vd.dists, "registry:call:model="+ms.Out+same+"/impl="+implOut)
			if !ms.CtxOK {
				bad("C12:oracle-inconsistent:registry-ctx", "the model's registry is not well-formed after a call (contradicts theorem registry_wellformed_after_any_calls)", ms, nil)
			}
			if !diverged && o.Panic == "" {
				switch {
				case ms.Out == "accepted" && !o.OK:
					diverged = true
					bad("C12:registry:model-impl:call-outcome:accepted-but-refused:"+slot.kind,
						fmt.Sprintf("GenericRegister[%s](%q) on a free key and a free type was refused: %s", c12RegPtrTo(slot.t, st.Ptr), st.Key, o.Err), ms, o)
				case ms.Out != "accepted" && o.OK && !ms.SamePair:
					diverged = true
					bad("C12:registry:model-impl:call-outcome:"+ms.Out+"-but-accepted:"+slot.kind,
						fmt.Sprintf("GenericRegister[%s](%q) returned nil although the model's guard %s fires (a clash must be an error of the call)", c12RegPtrTo(slot.t, st.Ptr), st.Key, ms.Out), ms, o)
				}
			}
			if o.OK {
				accepted[st.Slot] = append(accepted[st.Slot], st.Key)
				holders[st.Key] = append(holders[st.Key], st.Slot)
			}
		case "rd":
			if o.RT == nil {
				return nil, fmt.Errorf("registry child: no read at step %d", i)
			}
			impl := o.RT
			shape := clash(st.Slot)
			vd.dists = append(vd.dists, "registry:stored:"+shape+"="+impl.Enc+"/"+impl.Dec)
			if impl.Enc != "ok" {
				break // nothing was written
			}
			nRT++
			if cls := c12PropClass(impl, true); cls != "" {
				bad("C12:registry:stored:"+cls+":"+shape,
					fmt.Sprintf("bytes Marshal produced for a value of %s earlier in this sequence are read back wrongly after the later calls: %s (%s%s)", slot.t, cls, impl.DecErr, impl.Why), ms, impl)
			}
			if !diverged && ms.Dec != "unmodelled" && ms.Enc == "ok" {
				diff := ""
				switch {
				case ms.Dec != impl.Dec:
					diff = "dec-class"
				case ms.Dec == "ok" && (ms.Ty != impl.Ty || !vh.CanonEq(json.RawMessage(ms.V), impl.V)):
					diff = "value"
				}
				if diff != "" {
					bad("C12:registry:model-impl:stored-"+diff+":"+shape,
						"the model and the implementation differ on "+diff+" when bytes written earlier are read in the registry this sequence built", ms, impl)
				}
				if ms.Dec == "ok" && !(ms.Sim && ms.SameType) {
					bad("C12:oracle-inconsistent:stored", "the model reads bytes it wrote earlier back as another value (contradicts theorem written_earlier_reads_back)", ms, nil)
				}
			}
		case "rt", "wr":
			nRT++
			if o.RT == nil {
				return nil, fmt.Errorf("registry child: no round trip at step %d", i)
			}
			impl := o.RT
			inU := len(accepted[st.Slot]) > 0
			shape := clash(st.Slot)
			vd.dists = append(vd.dists, "registry:rt:"+shape+"@"+st.Pos+"="+impl.Enc+"/"+impl.Dec)
			if cls := c12PropClass(impl, inU); cls != "" {
				what := fmt.Sprintf("after the calls of this sequence a %s (%s) does not round-trip: %s (%s%s%s)", vals[i].Type(), shape, cls, impl.EncErr, impl.DecErr, impl.Why)
				if !inU {
					what = fmt.Sprintf("no call registered %s, yet a %s was written and read back wrongly: %s (%s%s)", slot.t, vals[i].Type(), cls, impl.DecErr, impl.Why)
				}
				bad("C12:registry:roundtrip:"+cls+":"+shape, what, ms, impl)
			}
			if !diverged && ms.Enc != "unmodelled" && ms.Dec != "unmodelled" {
				diff := ""
				switch {
				case ms.Enc != impl.Enc:
					diff = "enc-class"
				case ms.Enc == "ok" && !vh.CanonEq(json.RawMessage(ms.IS), impl.IS):
					diff = "is-tree"
				case ms.Enc == "ok" && ms.Dec != impl.Dec:
					diff = "dec-class"
				case ms.Enc == "ok" && ms.Dec == "ok" && (ms.Ty != impl.Ty || !vh.CanonEq(json.RawMessage(ms.V), impl.V)):
					diff = "value"
				}
				if diff != "" {
					bad("C12:registry:model-impl:"+diff+":"+shape+"@"+st.Pos,
						"the model and the implementation differ on "+diff+" for a "+vals[i].Type().String()+" in the registry this sequence built", ms, impl)
				}
				if ms.c12Model.CtxOK && ms.Supported && !(ms.Enc == "ok" && ms.Dec == "ok" && ms.Sim && ms.SameType) {
					bad("C12:oracle-inconsistent", "model says Supported but its own round trip is not ≈ (contradicts theorem roundtrip_survives_registrations)", ms, nil)
				}
			}
		case "bb":
			if o.BB == nil {
				return nil, fmt.Errorf("registry child: no black-box result at step %d", i)
			}
			inU := len(accepted[st.Slot]) > 0
			shape := clash(st.Slot)
			r := o.BB
			vd.dists = append(vd.dists, "registry:blackbox:"+shape+"="+r.Class)
			switch {
			case strings.HasPrefix(r.Class, "harness-"):
				return nil, fmt.Errorf("registry child: black box: %s %s", r.Class, r.Why)
			case !inU && r.Class == "checkpoint-write-error":
			case r.Class != "ok":
				bad("C12:registry:blackbox:"+r.Class+":"+shape, fmt.Sprintf("graph with state *%s interrupted and resumed through a checkpoint store: %s", slot.t, r.Class), nil, r)
			case !r.StateEq:
				bad("C12:registry:blackbox:state-differs:"+shape, "state after resume differs from the state written: "+r.Why, nil, r)
			case !r.InputEq:
				bad("C12:registry:blackbox:input-differs:"+shape, "pending input after resume differs from the one written: "+r.Why, nil, r)
			}
		}
	}
	vd.dists = append(vd.dists, fmt.Sprintf("registry:calls=%s", c12Bucket(nReg)), fmt.Sprintf("registry:key-clashes=%s", c12Bucket(nClashKey)),
		fmt.Sprintf("registry:type-clashes=%s", c12Bucket(nClashTy)), fmt.Sprintf("registry:pairs-repeated=%s", c12Bucket(nSame)))
	var shape []string
	for _, st := range c.Steps {
		shape = append(shape, fmt.Sprintf("%s%d%s%d%s%d", st.Op[:2], st.Slot, st.Key, st.Ptr, st.Pos, st.H))
	}
	vd.key = "registry/" + strings.Join(shape, ",")
	vd.nontr = nReg >= 2 && nRT >= 1 && nClashKey+nClashTy+nSame >= 1
	return vd, nil
}

// ---- generator ----

func c12RegGen(r *vh.Rand) *c12RegCase {
	// slots of this process: mostly one shape-compatible group, sometimes anything
	var pool []int
	if r.Chance(75) {
		g := []int{0, 1, 2, 3, 4, 4, 4, 5}[r.Intn(8)]
		for i, s := range c12RegSlots {
			if s.group == g {
				pool = append(pool, i)
			}
		}
		if r.Chance(30) {
			pool = append(pool, r.Intn(len(c12RegSlots)))
		}
	} else {
		for i := range c12RegSlots {
			pool = append(pool, i)
		}
	}
	perm := r.Perm(len(pool))
	n := 2 + r.Intn(3)
	if n > len(pool) {
		n = len(pool)
	}
	var slots []int
	for _, p := range perm[:n] {
		slots = append(slots, pool[p])
	}
	keys := []string{"k0", "k1", "k2"}[:1+r.Intn(3)]
	key := func() string {
		switch x := r.Intn(100); {
		case x < 6:
			return ""
		case x < 16:
			return c12RegTakenKeys[r.Intn(len(c12RegTakenKeys))].key
		}
		return keys[r.Intn(len(keys))]
	}
	c := &c12RegCase{Mode: "registry"}
	add := func(st c12RegStep) {
		st.Ty = c12RegSlots[st.Slot].name
		c.Steps = append(c.Steps, st)
	}
	rt := func(slot int) {
		add(c12RegStep{Op: "rt", Slot: slot, Pos: c12RegPositions[r.Intn(len(c12RegPositions))], Seed: r.U64()})
	}
	var written []c12RegStep
	steps := 2 + r.Intn(8)
	for i := 0; i < steps; i++ {
		slot := slots[r.Intn(len(slots))]
		if r.Chance(12) {
			// Marshal now, keep the bytes; they are read at the end of the sequence
			w := c12RegStep{Op: "wr", Slot: slot, H: len(written) + 1, Pos: c12RegPositions[r.Intn(len(c12RegPositions))], Seed: r.U64()}
			written = append(written, w)
			add(w)
			continue
		}
		if r.Chance(65) {
			st := c12RegStep{Op: "reg", Slot: slot, Key: key(), Ptr: []int{0, 0, 0, 1, 2}[r.Intn(5)]}
			if r.Chance(30) {
				st.Via = "compose"
			}
			add(st)
		} else {
			rt(slot)
		}
	}
	for _, s := range slots {
		rt(s)
	}
	for _, w := range written {
		add(c12RegStep{Op: "rd", Slot: w.Slot, H: w.H})
	}
	if r.Chance(20) {
		add(c12RegStep{Op: "bb", Slot: slots[r.Intn(len(slots))], Seed: r.U64()})
	}
	return c
}

// ---- driver ----

func c12RegRunCases(ctx *vh.Ctx, cases []*c12RegCase) ([]*c12RegVerdict, error) {
	outs := make([]*c12RegChildOut, len(cases))
	errs := make([]string, len(cases))
	var wg sync.WaitGroup
	sem := make(chan struct{}, 4)
	for i := range cases {
		wg.Add(1)
		sem <- struct{}{}
		go func(i int) {
			defer wg.Done()
			outs[i], errs[i] = c12RegRunChild(cases[i])
			<-sem
		}(i)
	}
	wg.Wait()
	var ocs []any
	for _, c := range cases {
		oc, _, _ := c12RegOracleCase(c)
		ocs = append(ocs, oc)
	}
	raws, err := ctx.Oracle.AskBatch("C12", ocs)
	if err != nil {
		return nil, err
	}
	vds := make([]*c12RegVerdict, len(cases))
	for i, c := range cases {
		vd, err := c12RegEval(c, outs[i], errs[i], raws[i])
		if err != nil {
			return nil, err
		}
		vds[i] = vd
	}
	return vds, nil
}

// c12RegShrink drops steps as long as the signature stays.
func c12RegShrink(ctx *vh.Ctx, c *c12RegCase, sig string) *c12RegCase {
	cur := c
	for i := len(cur.Steps) - 1; i >= 0 && len(cur.Steps) > 1; i-- {
		if i >= len(cur.Steps) {
			continue
		}
		cand := &c12RegCase{Mode: cur.Mode}
		cand.Steps = append(append([]c12RegStep{}, cur.Steps[:i]...), cur.Steps[i+1:]...)
		vds, err := c12RegRunCases(ctx, []*c12RegCase{cand})
		if err != nil {
			return cur
		}
		for _, d := range vds[0].ds {
			if d.Signature == sig {
				cur = cand
				break
			}
		}
	}
	return cur
}

func c12RegRecord(ctx *vh.Ctx, c *c12RegCase, vd *c12RegVerdict, seen map[string]int) {
	for _, d := range vd.dists {
		ctx.Res.Dist(d)
	}
	ctx.Res.Count(vd.key, vd.nontr)
	ctx.Res.Sample(map[string]any{"registry": c})
	for _, d := range vd.ds {
		seen[d.Signature]++
		if seen[d.Signature] == 1 && ctx.Replay == nil && len(c.Steps) > 2 {
			small := c12RegShrink(ctx, c, d.Signature)
			if vds, err := c12RegRunCases(ctx, []*c12RegCase{small}); err == nil {
				for _, sd := range vds[0].ds {
					if sd.Signature == d.Signature {
						d = sd
						break
					}
				}
			}
		}
		ctx.Res.Disagree(d)
	}
}

func c12RunRegistry(ctx *vh.Ctx, n int) error {
	seen := map[string]int{}
	const chunk = 48
	t0, ran := time.Now(), 0
	defer func() {
		ctx.Res.Note(fmt.Sprintf("registry family: %d call sequences (one child process each) in %.1f s", ran, time.Since(t0).Seconds()))
	}()
	for done := 0; done < n && ctx.TimeLeft(); done += chunk {
		var cases []*c12RegCase
		for i := 0; i < chunk && done+i < n; i++ {
			cases = append(cases, c12RegGen(ctx.Rng))
		}
		ctx.Progress.Mark(map[string]any{"mode": "registry", "chunk": cases})
		vds, err := c12RegRunCases(ctx, cases)
		if err != nil {
			return err
		}
		for i, c := range cases {
			c12RegRecord(ctx, c, vds[i], seen)
		}
		ran += len(cases)
	}
	return nil
}

func c12RegReplay(ctx *vh.Ctx) error {
	var c c12RegCase
	if err := json.Unmarshal(ctx.Replay, &c); err != nil {
		return err
	}
	for _, st := range c.Steps {
		if st.Slot < 0 || st.Slot >= len(c12RegSlots) {
			return fmt.Errorf("bad slot %d", st.Slot)
		}
	}
	ctx.Progress.Mark(c)
	vds, err := c12RegRunCases(ctx, []*c12RegCase{&c})
	if err != nil {
		return err
	}
	c12RegRecord(ctx, &c, vds[0], map[string]int{})
	return nil
}

var _ = sort.Strings
