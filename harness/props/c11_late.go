//go:build verif && (vh_all || vh_c11)

package props

// C11 late family, parent side: a closure keeps the context.Context a state handler (or a
// ProcessState callback) was given and calls ProcessState with it after that user function has
// returned, while a sibling node is inside a state operation of its own.  Generator, accounting,
// comparison with the `late` answer of the oracle (Model/C11Late.lean: runK under lateGuard).

import (
	"encoding/json"
	"fmt"

	"github.com/cloudwego/eino/verifharness/vh"
)

// c11Late: the closure of a late case.
type c11Late struct {
	Origin string  `json:"origin"` // whose context the closure keeps: pre | post | spre | spost (handler of the source node) | proc (a ProcessState callback of its body)
	Defer  string  `json:"defer"`  // conv: per-chunk converter of the stream the stream handler returns | go: goroutine started inside the user function
	Chunks int     `json:"chunks"` // conv: chunks of the returned stream = closure calls
	Ops    []c11Op `json:"ops"`    // what one closure call does, each through ProcessState(kept ctx, …)
	Holder string  `json:"holder"` // the sibling's state operation that is inside when the closure calls: proc (body) | post (post-handler, run-loop goroutine)
}

func c11GenLate(r *vh.Rand, quick bool) *c11Case {
	c := &c11Case{Kind: "late", Ctrs: r.Range(1, 2), Paradigm: "invoke", Runs: 1}
	c.Micro = r.U64()%1000000 + 1
	if r.Chance(50) {
		c.Paradigm = "stream"
	}
	c.Wrapped = r.Chance(25)
	origin := []string{"spost", "spost", "spre", "spre", "post", "pre", "proc"}[r.Intn(7)]
	lt := &c11Late{Origin: origin, Defer: "go", Holder: "proc", Chunks: 1}
	if (origin == "spost" || origin == "spre") && r.Chance(70) {
		lt.Defer = "conv"
		lt.Chunks = r.Range(1, 3)
	}
	for i, n := 0, r.Range(1, 2); i < n; i++ {
		lt.Ops = append(lt.Ops, c11Op{O: "inc", W: "proc", C: r.Intn(c.Ctrs), D: r.Range(1, 5), Rep: r.Range(1, 3)})
	}
	incs := func(key string, lo, hi int) []c11Op {
		ops := []c11Op{{O: "tag", T: "b" + key}}
		for i, n := 0, r.Range(1, 2); i < n; i++ {
			ops = append(ops, c11Op{O: "inc", W: "proc", C: r.Intn(c.Ctrs), D: r.Range(1, 5), Rep: r.Range(lo, hi)})
		}
		if r.Chance(40) {
			ops = append(ops, c11Op{O: "stamp", W: "proc", Tag: "s" + key + ":"})
		}
		return ops
	}
	g := c11Graph{Mode: "workflow", Stateful: true}
	base := []int{}
	// a converter on the stream of a stream PRE-handler is pulled by the engine inside `submit` when
	// the run is an Invoke: the source must then not be submitted together with the holder
	if (origin == "spre" && lt.Defer == "conv") || r.Chance(40) {
		g.Nodes = append(g.Nodes, c11Node{Key: "head", Preds: []int{}, Role: "head", Body: incs("head", 1, 3),
			Pre: c11HandlerKind(r, 30), Post: c11HandlerKind(r, 30)})
		base = []int{0}
	}
	a := c11Node{Key: "a", Preds: append([]int{}, base...), Role: "source", Body: incs("a", 1, 4),
		Pre: c11HandlerKind(r, 40), Post: c11HandlerKind(r, 40)}
	switch origin {
	case "pre":
		a.Pre = "plain"
	case "spre":
		a.Pre = "stream"
	case "post":
		a.Post = "plain"
	case "spost":
		a.Post = "stream"
	}
	ai := len(g.Nodes)
	g.Nodes = append(g.Nodes, a)
	// the consumer never reads its input inside a stream pre-handler: pulling a stream whose
	// converter calls ProcessState while holding the state lock is a self-deadlock of the user's
	cn := c11Node{Key: "c", Preds: []int{ai}, Role: "consumer", Body: incs("c", 1, 4), Post: c11HandlerKind(r, 40)}
	if r.Chance(35) {
		cn.Pre = "plain"
	}
	g.Nodes = append(g.Nodes, cn)
	// the holder's post-handler (run-loop goroutine) can be the operation that is inside only when
	// the closure does not itself run on the run-loop goroutine
	offLoop := lt.Defer == "go" || (c.Paradigm == "stream" && (origin == "spre" || cn.Pre == ""))
	if offLoop && r.Chance(35) {
		lt.Holder = "post"
	}
	b := c11Node{Key: "b", Preds: []int{}, Role: "holder", Body: incs("b", 1, 4), Pre: c11HandlerKind(r, 30), Post: c11HandlerKind(r, 40)}
	if lt.Holder == "post" {
		b.Post = []string{"plain", "stream"}[r.Intn(2)]
	}
	g.Nodes = append(g.Nodes, b)
	for i, n := 0, r.Intn(3); i < n; i++ {
		key := fmt.Sprintf("s%d", i)
		g.Nodes = append(g.Nodes, c11Node{Key: key, Preds: []int{}, Role: "side", Body: incs(key, 1, 6),
			Pre: c11HandlerKind(r, 30), Post: c11HandlerKind(r, 40)})
	}
	c.G = g
	c.Late = lt
	return c
}

func c11LateAccount(ctx *vh.Ctx, c *c11Case) {
	lt := c.Late
	ctx.Res.Dist("family=late")
	if lt == nil {
		return
	}
	ctx.Res.Dist("late:paradigm=" + c.Paradigm)
	ctx.Res.Dist("late:origin=" + lt.Origin)
	ctx.Res.Dist("late:defer=" + lt.Defer)
	ctx.Res.Dist("late:holder=" + lt.Holder)
	if c.Wrapped {
		ctx.Res.Dist("late:wrapped")
	}
	handlers := ""
	for i := range c.G.Nodes {
		n := &c.G.Nodes[i]
		handlers += fmt.Sprintf("%s%.1s%.1s.", n.Key[:1], n.Pre+"-", n.Post+"-")
	}
	ctx.Res.Count(fmt.Sprintf("late/%s/%s/%s/%s/%v/k%d/%s", lt.Origin, lt.Defer, lt.Holder, c.Paradigm, c.Wrapped, lt.Chunks, handlers), true)
	ctx.Res.Sample(c)
}

func c11LateCompare(ctx *vh.Ctx, c *c11Case, o *c11CaseObs) error {
	lt := c.Late
	if lt == nil {
		return fmt.Errorf("C11 late case without a late spec")
	}
	l := c11LayoutOf(&c.G)
	suffix := ":origin=" + lt.Origin + ":defer=" + lt.Defer
	dis := func(what, text string, model, impl any) {
		ctx.Res.Disagree(vh.Disagreement{Signature: "C11:late:" + what + suffix, What: text, Case: c, Model: model, Impl: impl})
	}
	if o.BuildErr != "" {
		dis("build-error", "the Workflow could not be built/compiled: "+o.BuildErr, nil, o)
		return nil
	}
	if len(o.Runs) != 1 {
		dis("child-crash", "no observation of the run", nil, o)
		return nil
	}
	run := &o.Runs[0]
	ctx.Res.Dist("late:barrier=" + run.Barrier)
	if run.Barrier == "timeout" {
		dis("barrier-timeout", "the closure that keeps the handler's context was never run, or the sibling never got into its state operation (a barrier of the forced schedule timed out; run: "+run.Class+" "+run.ErrText+")", nil, run)
		return nil
	}
	if run.Class != "ok" {
		dis("run-"+c11ErrClass(run), "the Workflow did not complete: "+run.Class+" "+run.ErrText, nil, run)
		return nil
	}
	for _, f := range l.Nodes {
		if no := run.Nodes[f.Path]; no != nil && no.Err != "" {
			dis("closure-error", "ProcessState called by the closure with the kept context failed: "+no.Err, nil, no)
			return nil
		}
	}
	if run.Barrier != "held" && run.Barrier != "entered-while-held" {
		dis("schedule-not-played", "the sibling's state operation never ran ("+run.Barrier+")", nil, run)
		return nil
	}
	// ---- the model: every node pipeline is a thread, the closure is one more ----
	var tasks []map[string]any
	want := map[int]int{} // id in the state log -> operations
	srcGid, holderGid, originIdx := -1, -1, -1
	for gid, f := range l.Nodes {
		n := f.Node
		var ops []c11Op
		idx := 0
		add := func(op c11Op) {
			ops = append(ops, op)
			if op.O == "inc" {
				want[gid] += op.Rep
				idx += op.Rep
			} else {
				if op.O == "stamp" {
					want[gid]++
				}
				idx++
			}
		}
		hw := func(kind, plain, stream string) string {
			if kind == "stream" {
				return stream
			}
			return plain
		}
		source, holder := n.Role == "source", n.Role == "holder"
		if source {
			srcGid = gid
		}
		if holder {
			holderGid = gid
		}
		if n.Pre != "" {
			if source && (lt.Origin == "pre" || lt.Origin == "spre") {
				originIdx = idx
			}
			add(c11Op{O: "stamp", W: hw(n.Pre, "pre", "spre"), Tag: fmt.Sprintf("p%d:", gid)})
		}
		if holder && lt.Holder == "proc" {
			add(c11Op{O: "inc", W: "proc", C: 0, D: c11LateHoldIters, Rep: 1})
		}
		for _, op := range n.Body {
			if source && lt.Origin == "proc" && op.O == "inc" && originIdx < 0 {
				originIdx = idx
			}
			add(op)
		}
		if n.Post != "" {
			if source && (lt.Origin == "post" || lt.Origin == "spost") {
				originIdx = idx
			}
			add(c11Op{O: "stamp", W: hw(n.Post, "post", "spost"), Tag: fmt.Sprintf("q%d:", gid)})
			if holder && lt.Holder == "post" {
				add(c11Op{O: "inc", W: hw(n.Post, "post", "spost"), C: 0, D: c11LateHoldIters, Rep: 1})
			}
		}
		tasks = append(tasks, map[string]any{"in": "x", "ops": ops})
	}
	if srcGid < 0 || holderGid < 0 || originIdx < 0 {
		return fmt.Errorf("C11 late case without source / holder / origin operation")
	}
	calls := 1
	if lt.Defer == "conv" {
		calls = lt.Chunks
	}
	lateTid, lateGid := len(tasks), c11LateGidBase+srcGid
	var lateOps []c11Op
	nLate := 0
	for k := 0; k < calls; k++ {
		for _, op := range lt.Ops {
			lateOps = append(lateOps, op)
			nLate += op.Rep
		}
	}
	want[lateGid] = nLate
	tasks = append(tasks, map[string]any{"in": "", "ops": lateOps})
	raw, err := ctx.Oracle.Ask("C11", map[string]any{"k": "late",
		"init": map[string]any{"ctr": make([]int, c.Ctrs), "seq": 0}, "tasks": tasks,
		"srcs":   []map[string]any{{"t": lateTid, "lo": 0, "hi": nLate, "ft": srcGid, "fk": originIdx}},
		"holder": holderGid, "late": lateTid, "micro": c.Micro})
	if err != nil {
		return err
	}
	var m struct {
		Exclusive bool  `json:"exclusive"`
		Tried     bool  `json:"tried"`
		Done      bool  `json:"done"`
		Agree     bool  `json:"agree"`
		Ctr       []int `json:"ctr"`
		Seq       int   `json:"seq"`
	}
	if err := json.Unmarshal(raw, &m); err != nil {
		return err
	}
	if !m.Done || !m.Agree || !m.Tried {
		return fmt.Errorf("C11 late model: done=%v agree=%v tried=%v (the forced schedule of the model did not play)", m.Done, m.Agree, m.Tried)
	}
	if (run.Overlaps == 0) != m.Exclusive {
		dis("mutual-exclusion", fmt.Sprintf("%d state operation(s) started while another pre-handler / post-handler / ProcessState callback was inside its user code on the same state: a ProcessState call made by a closure with the context the %s of node a was given (%s) ran while sibling b was inside its %s; in the model every ProcessState call takes the lock, whatever context it is called with", run.Overlaps, c11LateOriginText(lt.Origin), c11LateDeferText(lt.Defer), c11LateHolderText(lt.Holder)),
			map[string]any{"exclusive": m.Exclusive}, map[string]any{"overlaps": run.Overlaps, "barrier": run.Barrier})
		return nil
	}
	if len(run.GenIDs) != 1 {
		dis("generator-calls", fmt.Sprintf("the state generator ran %d times in one run", len(run.GenIDs)), 1, run.GenIDs)
		return nil
	}
	fin, forked := c11FinalOf(run, run.GenIDs[0])
	if fin == nil || forked {
		dis("state-forked", "the run worked on more than one copy of the state object", nil, run.States)
		return nil
	}
	for gid, f := range l.Nodes {
		if no := run.Nodes[f.Path]; no != nil {
			for _, sid := range no.StateIDs {
				if sid != run.GenIDs[0] {
					dis("state-identity", fmt.Sprintf("node %s worked on state object %d, the run's object is %d", f.Path, sid, run.GenIDs[0]), run.GenIDs[0], no)
					return nil
				}
			}
		}
		got := 0
		for _, g := range fin.Order {
			if g == gid {
				got++
			}
		}
		if got != want[gid] {
			dis("operation-lost", fmt.Sprintf("node %s has %d operation(s) in the state log, %d were executed", f.Path, got, want[gid]), want[gid], got)
			return nil
		}
	}
	gotLate := 0
	for _, g := range fin.Order {
		if g == lateGid {
			gotLate++
		}
	}
	if gotLate != nLate || run.LateCalls != calls {
		dis("operation-lost", fmt.Sprintf("the closure ran %d time(s) and has %d operation(s) in the state log; %d call(s) with %d operation(s) were due", run.LateCalls, gotLate, calls, nLate),
			map[string]any{"calls": calls, "ops": nLate}, map[string]any{"calls": run.LateCalls, "ops": gotLate})
		return nil
	}
	if !vh.CanonEq(map[string]any{"ctr": m.Ctr, "seq": m.Seq}, map[string]any{"ctr": fin.Ctr, "seq": fin.Seq}) {
		dis("lost-update", "the counters differ from the sum of all increments of the nodes, the handlers and the closure: an update was lost", map[string]any{"ctr": m.Ctr, "seq": m.Seq}, map[string]any{"ctr": fin.Ctr, "seq": fin.Seq})
		return nil
	}
	return nil
}

func c11LateOriginText(o string) string {
	switch o {
	case "pre":
		return "StatePreHandler"
	case "post":
		return "StatePostHandler"
	case "spre":
		return "StreamStatePreHandler"
	case "spost":
		return "StreamStatePostHandler"
	}
	return "ProcessState callback"
}

func c11LateDeferText(d string) string {
	if d == "conv" {
		return "per-chunk converter of the stream the handler returned"
	}
	return "goroutine started inside it"
}

func c11LateHolderText(h string) string {
	if h == "post" {
		return "post-handler"
	}
	return "ProcessState callback"
}
