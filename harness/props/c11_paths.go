//go:build verif && (vh_all || vh_c11)

package props

// C11 paths family, parent side: nests of graph levels up to depth 5 in which several SIBLING
// stateful graphs interrupt at the same time, resumed with a StateModifier that dispatches on
// the node path it is called with.
//
//   kind "paths": every inner level is  [head] -> {sub-graph siblings, in parallel} -> join,
//     every leaf level a chain of lambda nodes with interrupt points (before / after /
//     InterruptAndRerun).  The oracle query "paths" flattens the nest depth-first (every level
//     with operations has a state cell of its own, so sibling graphs commute), checkpoints and
//     restores every active level at each observed interrupt (`resumeNest`) and says which
//     paths the modifier is called with (`modCalls` of `nestLevels`).

import (
	"encoding/json"
	"fmt"
	"sort"
	"strings"

	"github.com/cloudwego/eino/verifharness/vh"
)

// ---------- generator ----------

type c11PathsGen struct {
	r      *vh.Rand
	ctrs   int
	depth  int // path length of the deepest graphs
	sibAt  int // path length of the level at which the siblings fan out
	budget int // graph levels still allowed
	modes  []string
}

func (pg *c11PathsGen) body(key string, withState bool) []c11Op {
	ops := []c11Op{{O: "tag", T: "b" + key}}
	if !withState {
		return ops
	}
	for i, n := 0, pg.r.Range(0, 2); i < n; i++ {
		if pg.r.Chance(55) {
			ops = append(ops, c11Op{O: "inc", W: "proc", C: pg.r.Intn(pg.ctrs), D: pg.r.Range(1, 5), Rep: pg.r.Range(1, 4)})
		} else {
			ops = append(ops, c11Op{O: "stamp", W: "proc", Tag: "s" + key + ":"})
		}
	}
	return ops
}

// leaf: a chain of 2-3 lambda nodes with 0-2 interrupt points.
func (pg *c11PathsGen) leaf(d int) c11Graph {
	r := pg.r
	g := c11Graph{Mode: []string{"pregel", "dag", "workflow"}[r.Intn(3)], Stateful: r.Chance(88)}
	nl := r.Range(2, 3)
	for i := 0; i < nl; i++ {
		n := c11Node{Key: fmt.Sprintf("n%d", i), Preds: []int{}}
		if i > 0 {
			n.Preds = []int{i - 1}
		}
		n.Body = pg.body(fmt.Sprintf("%d.%s", d, n.Key), g.Stateful)
		if g.Stateful {
			n.Pre = c11HandlerKind(r, 45)
			n.Post = c11HandlerKind(r, 45)
		}
		g.Nodes = append(g.Nodes, n)
	}
	ints := 0
	switch {
	case r.Chance(10):
	case r.Chance(75):
		ints = 1
	default:
		ints = 2
	}
	for k := 0; k < ints; k++ {
		ni := r.Intn(nl)
		switch r.Intn(3) {
		case 0:
			if !c11Has(g.Before, g.Nodes[ni].Key) {
				g.Before = append(g.Before, g.Nodes[ni].Key)
			}
		case 1:
			if ni == nl-1 {
				ni = r.Intn(nl - 1) // an interrupt after the last node of a graph never fires
			}
			if !c11Has(g.After, g.Nodes[ni].Key) {
				g.After = append(g.After, g.Nodes[ni].Key)
			}
		default:
			g.Nodes[ni].Rerun = true
		}
	}
	return g
}

// level: the graph whose nodes have path length d (so the graph itself has path length d-1).
// mustReach: this branch goes down to the full depth.
func (pg *c11PathsGen) level(d int, mustReach bool) c11Graph {
	r := pg.r
	if d > pg.depth || (!mustReach && r.Chance(55)) || pg.budget <= 0 {
		return pg.leaf(d)
	}
	g := c11Graph{Mode: pg.modes[r.Intn(len(pg.modes))], Stateful: r.Chance(55)}
	w := 1
	switch {
	case d == pg.sibAt:
		w = 2
		if r.Chance(30) {
			w = 3
		}
	case r.Chance(12):
		w = 2
	}
	if w > pg.budget {
		w = pg.budget
	}
	if w < 1 {
		w = 1
	}
	pg.budget -= w
	src := []int{}
	if r.Chance(65) {
		h := c11Node{Key: "h", Preds: []int{}, Body: pg.body(fmt.Sprintf("%d.h", d), g.Stateful)}
		if g.Stateful {
			h.Pre = c11HandlerKind(r, 45)
			h.Post = c11HandlerKind(r, 45)
		}
		g.Nodes = append(g.Nodes, h)
		src = []int{0}
	}
	var subs []int
	for i := 0; i < w; i++ {
		sub := pg.level(d+1, mustReach && i == 0)
		// key names of different lengths; sibling order in the graph is not the sorted key order
		key := []string{"s", "kb", "a7"}[i] + fmt.Sprint(d)
		g.Nodes = append(g.Nodes, c11Node{Key: key, Preds: append([]int{}, src...), Sub: &sub})
		subs = append(subs, len(g.Nodes)-1)
	}
	j := c11Node{Key: "j", Join: true, Preds: subs, Body: pg.body(fmt.Sprintf("%d.j", d), g.Stateful)}
	if g.Stateful {
		j.Post = c11HandlerKind(r, 45)
	}
	g.Nodes = append(g.Nodes, j)
	return g
}

func c11GenPaths(r *vh.Rand, quick bool) *c11Case {
	c := &c11Case{Kind: "paths", Ctrs: r.Range(1, 2), Paradigm: "invoke", Runs: 1}
	if r.Chance(35) {
		c.Paradigm = "stream"
	}
	pg := &c11PathsGen{r: r, ctrs: c.Ctrs, modes: []string{"pregel", "dag"}}
	if c.Paradigm == "invoke" {
		// (a stream-mode interrupt of a Workflow with field mappings fails in the checkpoint
		// conversion: C05's subject, avoided here as in the graph family)
		pg.modes = append(pg.modes, "workflow")
	}
	switch k := r.Intn(100); {
	case k < 12:
		pg.depth = 2
	case k < 30:
		pg.depth = 3
	case k < 75:
		pg.depth = 4
	default:
		pg.depth = 5
	}
	// the siblings fan out at the deepest level or the one above it, sometimes higher up
	switch k := r.Intn(100); {
	case k < 55:
		pg.sibAt = pg.depth
	case k < 85 && pg.depth > 1:
		pg.sibAt = pg.depth - 1
	default:
		pg.sibAt = r.Range(1, pg.depth)
	}
	for {
		pg.budget = 9
		c.G = pg.level(1, true)
		// at least one level with state and one interrupt point
		l := c11LayoutOf(&c.G)
		anyState, anyInt := false, false
		for _, g := range l.Graphs {
			anyState = anyState || g.Stateful
			anyInt = anyInt || len(g.Before)+len(g.After) > 0
			for ni := range g.Nodes {
				anyInt = anyInt || g.Nodes[ni].Rerun
			}
		}
		if anyState && anyInt {
			break
		}
	}
	for i := 0; i < 8; i++ {
		d := 0
		if r.Chance(75) {
			d = r.Range(1, 99)
		}
		c.Mods = append(c.Mods, d)
	}
	return c
}

// c11WitnessSiblingPaths: the smallest case of the finding C11:paths:modifier-path (run first in
// every run): top -> s1 -> s2 -> s3 -> {s4, kb4}: two sibling stateful graphs with node path
// length 4 (n0 -> n1, interrupt before n1), resumed with a modifier that adds a different
// amount per path.
func c11WitnessSiblingPaths() *c11Case {
	leaf := func() *c11Graph {
		return &c11Graph{Mode: "pregel", Stateful: true, Before: []string{"n1"}, Nodes: []c11Node{
			{Key: "n0", Preds: []int{}, Body: []c11Op{{O: "tag", T: "bn0"}, {O: "inc", W: "proc", C: 0, D: 1, Rep: 1}}},
			{Key: "n1", Preds: []int{0}, Body: []c11Op{{O: "tag", T: "bn1"}, {O: "inc", W: "proc", C: 0, D: 1, Rep: 1}}},
		}}
	}
	wrap := func(key string, stateful bool, subs ...*c11Graph) *c11Graph {
		g := &c11Graph{Mode: "pregel", Stateful: stateful}
		var idx []int
		for i, s := range subs {
			k := key
			if i > 0 {
				k = "kb" + key[1:]
			}
			g.Nodes = append(g.Nodes, c11Node{Key: k, Preds: []int{}, Sub: s})
			idx = append(idx, i)
		}
		g.Nodes = append(g.Nodes, c11Node{Key: "j", Join: true, Preds: idx, Body: []c11Op{{O: "tag", T: "bj"}}})
		return g
	}
	top := wrap("s1", false, wrap("s2", false, wrap("s3", false, wrap("s4", false, leaf(), leaf()))))
	return &c11Case{Kind: "paths", Ctrs: 1, Paradigm: "invoke", Runs: 1, Mods: []int{7, 0, 0}, G: *top}
}

// ---------- accounting ----------

// c11LevelPath: the node path of graph level gi, keys joined by "/" ("" = the top-level graph).
func c11LevelPath(l *c11Layout, gi int) string {
	if l.GOwner[gi] < 0 {
		return ""
	}
	return l.Nodes[l.GOwner[gi]].Path
}

func c11PathsDepth(l *c11Layout) (depth []int, maxDepth int) {
	depth = make([]int, len(l.Graphs))
	for gi := range l.Graphs {
		if l.GPar[gi] >= 0 {
			depth[gi] = depth[l.GPar[gi]] + 1
		}
		if depth[gi] > maxDepth {
			maxDepth = depth[gi]
		}
	}
	return
}

func c11PathsAccount(ctx *vh.Ctx, c *c11Case) {
	l := c11LayoutOf(&c.G)
	ctx.Res.Dist("family=paths")
	ctx.Res.Dist("paths:paradigm=" + c.Paradigm)
	depth, maxDepth := c11PathsDepth(l)
	ctx.Res.Dist(fmt.Sprintf("paths:depth=%d", maxDepth))
	ctx.Res.Dist(fmt.Sprintf("paths:levels=%d", len(l.Graphs)))
	// stateful interrupting siblings: per parent level, children that are stateful leaves with an interrupt
	maxSib, sibDepth := 0, 0
	for gi := range l.Graphs {
		n := 0
		for ci := range l.Graphs {
			if l.GPar[ci] != gi {
				continue
			}
			g := l.Graphs[ci]
			has := len(g.Before)+len(g.After) > 0
			for ni := range g.Nodes {
				has = has || g.Nodes[ni].Rerun
			}
			if g.Stateful && has {
				n++
			}
		}
		if n > maxSib {
			maxSib, sibDepth = n, depth[gi]+1
		}
	}
	ctx.Res.Dist(fmt.Sprintf("paths:interrupting-stateful-siblings=%d", maxSib))
	if maxSib >= 2 {
		ctx.Res.Dist(fmt.Sprintf("paths:sibling-path-length=%d", sibDepth))
	}
	ctx.Res.Count(c11ResumeShape(c), maxSib >= 2)
	ctx.Res.Sample(c)
}

// ---------- flattening ----------

// c11FlattenPaths: the operations of the nest depth-first, with fork / sib / endsib / join
// control entries around every group of sibling graphs.  (Sibling sub-graph nodes carry no
// handlers in this family; the levels that have operations have a state cell of their own.)
func c11FlattenPaths(l *c11Layout, withRerun bool) (*c11Flattened, []any) {
	fl := &c11Flattened{start: map[int][]int{}, rerunCut: map[int]int{}, end: map[int][]int{}, preN: map[int]int{}}
	var prog []any
	emit := func(gi, gid int, op c11Op) {
		prog = append(prog, c11ProgEnt{L: gi, G: gid, Op: op})
	}
	var walk func(gi int)
	walk = func(gi int) {
		g := l.Graphs[gi]
		inFork := false
		for ni := range g.Nodes {
			gid := l.GNodes[gi][ni]
			n := l.Nodes[gid].Node
			if n.Sub != nil {
				if !inFork {
					prog = append(prog, map[string]any{"f": "fork"})
					inFork = true
				}
				fl.start[gid] = []int{len(prog)}
				prog = append(prog, map[string]any{"f": "sib"})
				for sgi := range l.Graphs {
					if l.GOwner[sgi] == gid {
						walk(sgi)
					}
				}
				prog = append(prog, map[string]any{"f": "endsib", "key": n.Key})
				fl.end[gid] = []int{len(prog)}
				continue
			}
			if inFork {
				prog = append(prog, map[string]any{"f": "join"})
				inFork = false
			}
			fl.start[gid] = []int{len(prog)}
			pre := func() {
				if n.Pre != "" {
					emit(gi, gid, c11Op{O: "stamp", W: "pre", Tag: fmt.Sprintf("p%d:", gid)})
					fl.preN[gid]++
				}
			}
			pre()
			if withRerun && n.Rerun {
				fl.rerunCut[gid] = len(prog)
				emit(gi, gid, c11Op{O: "const", V: ""})
				pre()
			}
			for _, o := range n.Body {
				emit(gi, gid, o)
			}
			if n.Post != "" {
				emit(gi, gid, c11Op{O: "stamp", W: "post", Tag: fmt.Sprintf("q%d:", gid)})
			}
			fl.end[gid] = []int{len(prog)}
		}
	}
	walk(0)
	return fl, prog
}

type c11PathsModel struct {
	Out   string  `json:"out"`
	Err   *string `json:"err"`
	Cells []struct {
		Ctr   []int `json:"ctr"`
		Seq   int   `json:"seq"`
		Order []int `json:"order"`
	} `json:"cells"`
	Vis    []*int     `json:"vis"`
	Paths  [][]string `json:"paths"`
	Rounds []struct {
		Calls []struct {
			L    *int     `json:"l"`
			Path []string `json:"path"`
		} `json:"calls"`
		At []struct {
			L     int   `json:"l"`
			Ctr   []int `json:"ctr"`
			Seq   int   `json:"seq"`
			Order []int `json:"order"`
		} `json:"at"`
	} `json:"rounds"`
}

func c11AskPaths(ctx *vh.Ctx, c *c11Case, l *c11Layout, prog []any, rounds []map[string]any) (*c11PathsModel, error) {
	if rounds == nil {
		rounds = []map[string]any{}
	}
	var levels []map[string]any
	for gi, g := range l.Graphs {
		var par any
		key := ""
		if l.GPar[gi] >= 0 {
			par = l.GPar[gi]
			key = l.Nodes[l.GOwner[gi]].Node.Key
		}
		levels = append(levels, map[string]any{"s": g.Stateful, "par": par, "key": key})
	}
	raw, err := ctx.Oracle.Ask("C11", map[string]any{"k": "paths", "ctrs": c.Ctrs, "in": "x",
		"levels": levels, "prog": prog, "rounds": rounds})
	if err != nil {
		return nil, err
	}
	var m c11PathsModel
	if err := json.Unmarshal(raw, &m); err != nil {
		return nil, err
	}
	return &m, nil
}

// ---------- comparison ----------

func c11PathsCompare(ctx *vh.Ctx, c *c11Case, o *c11CaseObs) error {
	l := c11LayoutOf(&c.G)
	depth, _ := c11PathsDepth(l)
	suffix := ""
	deep := false // a graph with node path length >= 4 was active at an interrupt
	dis := func(what, text string, model, impl any) {
		sig := "C11:paths:" + what + suffix
		if what == "modifier-path" {
			// one stable signature per class: node paths of length >= 4 (where a path slice can have
			// spare capacity) and shorter ones
			sig = "C11:paths:modifier-path:pathlen<4"
			if deep {
				sig = "C11:paths:modifier-path:pathlen>=4"
			}
		}
		ctx.Res.Disagree(vh.Disagreement{Signature: sig, What: text, Case: c, Model: model, Impl: impl})
	}
	if o.BuildErr != "" {
		dis("build-error", "the graphs could not be built/compiled: "+o.BuildErr, nil, o)
		return nil
	}
	if len(o.Runs) != 1 || o.Ref == nil {
		dis("child-crash", "no observation of the run or of its reference", nil, o)
		return nil
	}
	run, ref := &o.Runs[0], o.Ref
	// ---- the reference (no interrupt) against the model without rounds ----
	_, progRef := c11FlattenPaths(l, false)
	mRef, err := c11AskPaths(ctx, c, l, progRef, nil)
	if err != nil {
		return err
	}
	if ref.Class != "ok" {
		dis("reference-run-"+c11ErrClass(ref), "the uninterrupted reference run did not complete: "+ref.ErrText, nil, ref)
		return nil
	}
	if mRef.Err != nil || ref.Out != mRef.Out {
		dis("reference-output", fmt.Sprintf("the uninterrupted reference run returned %q, the model %q", ref.Out, mRef.Out), mRef.Out, ref.Out)
		return nil
	}
	// ---- the interrupts: which graphs interrupted themselves, and where ----
	keyGid := func(gi int, key string) int {
		for ni := range l.Graphs[gi].Nodes {
			if l.Graphs[gi].Nodes[ni].Key == key {
				return l.GNodes[gi][ni]
			}
		}
		return -1
	}
	fl, prog := c11FlattenPaths(l, true)
	var rounds []map[string]any
	located := true
	maxCutDepth, maxSibs, anyMod, anyNoMod, anyRerun := 0, 0, false, false, false
	for _, io := range run.Ints {
		var cuts []map[string]any
		perParent := map[int]int{}
		for _, lv := range io.Levels {
			if lv.Graph < 0 {
				located = false
				break
			}
			own := len(lv.Before) + len(lv.After) + len(lv.Rerun)
			if own == 0 {
				if !lv.HasSubs {
					located = false // a level that neither interrupted itself nor contains one that did
				}
				continue
			}
			if lv.HasSubs {
				located = false // (this family puts interrupt points into leaf graphs only)
				break
			}
			p := -1
			switch {
			case len(lv.Rerun) > 0:
				if g := keyGid(lv.Graph, lv.Rerun[0]); g >= 0 {
					if v, ok := fl.rerunCut[g]; ok {
						p = v
					}
				}
				anyRerun = true
			case len(lv.Before) > 0:
				if g := keyGid(lv.Graph, lv.Before[0]); g >= 0 && len(fl.start[g]) > 0 {
					p = fl.start[g][0]
				}
			case len(lv.After) > 0:
				if g := keyGid(lv.Graph, lv.After[0]); g >= 0 && len(fl.end[g]) > 0 {
					p = fl.end[g][0]
				}
			}
			if p < 0 {
				located = false
				break
			}
			cuts = append(cuts, map[string]any{"p": p, "l": lv.Graph})
			if depth[lv.Graph] > maxCutDepth {
				maxCutDepth = depth[lv.Graph]
			}
			if l.Graphs[lv.Graph].Stateful {
				perParent[l.GPar[lv.Graph]]++
			}
		}
		if !located || len(cuts) == 0 {
			located = false
			break
		}
		for _, n := range perParent {
			if n > maxSibs {
				maxSibs = n
			}
		}
		var mod any
		if io.Mod > 0 {
			ds := make([]int, len(l.Graphs))
			for gi := range l.Graphs {
				ds[gi] = io.Mod * (gi + 1)
			}
			mod = ds
			anyMod = true
		} else {
			anyNoMod = true
		}
		rounds = append(rounds, map[string]any{"cuts": cuts, "mod": mod})
	}
	modS := "n"
	if anyMod && anyNoMod {
		modS = "mixed"
	} else if anyMod {
		modS = "y"
	}
	sibS := "1"
	if maxSibs >= 2 {
		sibS = "2+"
	}
	suffix = fmt.Sprintf(":pathlen=%d:siblings=%s:mod=%s", maxCutDepth, sibS, modS)
	deep = maxCutDepth >= 4
	ctx.Res.Dist(fmt.Sprintf("paths:interrupts=%d", len(run.Ints)))
	if len(run.Ints) > 0 {
		ctx.Res.Dist(fmt.Sprintf("paths:interrupted-path-length=%d", maxCutDepth))
		ctx.Res.Dist("paths:interrupted-stateful-siblings=" + sibS)
		ctx.Res.Dist("paths:modifier=" + modS)
	}
	if !located {
		dis("interrupt-shape", "an interrupt of the nest does not name a tree of nested graphs whose leaves interrupted before/after/rerun nodes", nil, run.Ints)
		return nil
	}
	if run.Class != "ok" {
		dis("run-"+c11ErrClass(run), fmt.Sprintf("the interrupted run did not complete after %d resume(s) although its uninterrupted reference does: %s %s", len(run.Ints), run.Class, run.ErrText), nil, run)
		return nil
	}
	m, err := c11AskPaths(ctx, c, l, prog, rounds)
	if err != nil {
		return err
	}
	if m.Err != nil {
		return fmt.Errorf("C11 paths model failed on a generated case: %s", *m.Err)
	}
	// the harness' own idea of the level paths is the model's
	for gi := range l.Graphs {
		if gi >= len(m.Paths) || strings.Join(m.Paths[gi], "/") != c11LevelPath(l, gi) {
			return fmt.Errorf("C11 paths: level %d has path %q in the harness, %v in the model", gi, c11LevelPath(l, gi), m.Paths)
		}
	}
	// ---- which state object does each level work on ----
	ids := c11LevelIDs(l, run)
	mvis := make([]int, len(l.Graphs))
	for gi := range l.Graphs {
		mvis[gi] = -1
		if gi < len(m.Vis) && m.Vis[gi] != nil {
			mvis[gi] = *m.Vis[gi]
		}
	}
	if !vh.CanonEq(c11Relabel(mvis), c11Relabel(ids)) {
		dis("state-identity", "after the resume(s) the graph levels do not work on the state objects the model says (canonical ids per level, pre-order; -1 = no state, -2 = nodes of one level saw different objects)", c11Relabel(mvis), c11Relabel(ids))
		return nil
	}
	levelOfID := map[int]int{}
	for gi, g := range l.Graphs {
		if g.Stateful && ids[gi] >= 0 {
			levelOfID[ids[gi]] = gi
		}
	}
	// ---- the modifier calls of every resume: once per restored level with state, with its path ----
	for i, io := range run.Ints {
		var want, got []string
		for _, cl := range m.Rounds[i].Calls {
			lv := -1
			if cl.L != nil {
				lv = *cl.L
			}
			want = append(want, fmt.Sprintf("path=%s state-of-level=%d", strings.Join(cl.Path, "/"), lv))
		}
		if io.Mod == 0 {
			want = nil
		}
		for _, cl := range io.Calls {
			lv, ok := levelOfID[cl.ID]
			if !ok {
				lv = -1
			}
			got = append(got, fmt.Sprintf("path=%s state-of-level=%d", cl.Path, lv))
		}
		sort.Strings(want)
		sort.Strings(got)
		if !vh.CanonEq(want, got) {
			dis("modifier-path", fmt.Sprintf("resume %d: the caller's StateModifier was not called exactly once per restored graph level that has a state, with that level's own node path and state (level paths: %s)", i, c11PathsList(l)), want, got)
			return nil
		}
	}
	// ---- the state of every active level at every interrupt ----
	for i, io := range run.Ints {
		want := map[int]any{}
		for _, a := range m.Rounds[i].At {
			want[a.L] = map[string]any{"ctr": a.Ctr, "seq": a.Seq, "order": a.Order}
		}
		for _, lv := range io.Levels {
			w, has := want[lv.Graph]
			if !has {
				if lv.State != nil && !l.Graphs[lv.Graph].Stateful {
					dis("state-at-interrupt", fmt.Sprintf("interrupt %d: level %d declares no state but reports one in its InterruptInfo", i, lv.Graph), nil, lv.State)
					return nil
				}
				continue
			}
			if lv.State == nil {
				dis("state-at-interrupt", fmt.Sprintf("interrupt %d: level %d reports no state in its InterruptInfo", i, lv.Graph), w, nil)
				return nil
			}
			got := map[string]any{"ctr": lv.State.Ctr, "seq": lv.State.Seq, "order": lv.State.Order}
			if !vh.CanonEq(w, got) {
				dis("state-at-interrupt", fmt.Sprintf("interrupt %d: the state of level %d at the interrupt differs from the model (what was written before the interrupt, + the modifications of earlier resumes)", i, lv.Graph), w, got)
				return nil
			}
		}
	}
	// ---- final state of every level ----
	for gi, g := range l.Graphs {
		if !g.Stateful {
			continue
		}
		fin, forked := c11FinalOf(run, ids[gi])
		want := map[string]any{"ctr": m.Cells[gi].Ctr, "seq": m.Cells[gi].Seq, "order": m.Cells[gi].Order}
		if fin == nil {
			dis("state-after-resume", fmt.Sprintf("level %d: no state object observed", gi), want, nil)
			return nil
		}
		got := map[string]any{"ctr": fin.Ctr, "seq": fin.Seq, "order": fin.Order}
		if forked {
			dis("state-forked", fmt.Sprintf("level %d: two copies of its state object lived on separately after a resume (their logs diverge)", gi), want, run.States)
			return nil
		}
		if !vh.CanonEq(want, got) {
			dis("state-after-resume", fmt.Sprintf("level %d (path %q): the final state is not the checkpointed state, modified by the caller's modifier for that path, followed by the operations of the resumed run", gi, c11LevelPath(l, gi)), want, got)
			return nil
		}
	}
	if run.Out != m.Out {
		dis("run-output", fmt.Sprintf("the resumed run returned %q, the model %q", run.Out, m.Out), m.Out, run.Out)
		return nil
	}
	if !anyRerun && run.Out != ref.Out {
		dis("output-vs-reference", fmt.Sprintf("the resumed run returned %q, the uninterrupted run %q", run.Out, ref.Out), ref.Out, run.Out)
		return nil
	}
	// ---- every stage ran as often as the model says ----
	for gid, f := range l.Nodes {
		no := run.Nodes[f.Path]
		if no == nil {
			continue
		}
		wantBody := 1
		if f.Node.Sub != nil {
			wantBody = 0
		}
		wantPost := 0
		if f.Node.Post != "" {
			wantPost = 1
		}
		if no.PreN != fl.preN[gid] || no.BodyN != wantBody || no.PostN != wantPost {
			dis("handler-count", fmt.Sprintf("node %s: pre-handler %d, body %d, post-handler %d runs; model %d, %d, %d", f.Path, no.PreN, no.BodyN, no.PostN, fl.preN[gid], wantBody, wantPost), nil, no)
			return nil
		}
	}
	if len(run.Ints) == 0 {
		ctx.Res.Dist("paths:interrupt=not-hit")
	}
	return nil
}

func c11PathsList(l *c11Layout) string {
	var sb strings.Builder
	for gi := range l.Graphs {
		sb.WriteString(fmt.Sprintf("%d=%q ", gi, c11LevelPath(l, gi)))
	}
	return strings.TrimSpace(sb.String())
}
