//go:build verif && (vh_all || vh_c20)

package props

// C20, stream "static": what a compiled Workflow reads from its builder at run time – static
// values.  A Workflow[map[string]any, map[string]any] of lambdas that return their input is
// declared through the public API, the *WorkflowNode handles are kept, and a call sequence is
// played on it: SetStaticValue (before and after Compile, overwriting a path, adding one, on a
// path an input maps), late AddInput, Compile (several), and runs (Invoke and Stream) of every
// runnable made so far.  The Lean side (Model/C20Static.lean) says what every Compile answers and
// what every run returns: a runnable keeps answering what it answered right after its Compile
// (`static_values_frozen`), whatever is done to the builder afterwards.

import (
	"context"
	"encoding/json"
	"fmt"
	"io"
	"os"
	"sort"
	"strings"
	"time"

	"github.com/cloudwego/eino/compose"
	"github.com/cloudwego/eino/verifharness/vh"
)

type c20SMap struct {
	F string `json:"f,omitempty"` // MapFields(F, T); empty: ToField(T)
	T string `json:"t"`
}

type c20SIn struct {
	From string    `json:"from"` // "start" or the key of a node declared earlier
	Maps []c20SMap `json:"maps"` // empty: the predecessor's whole output
}

type c20SNode struct {
	Key  string   `json:"key"` // the last node is "end"
	Ins  []c20SIn `json:"ins,omitempty"`
	Deps []string `json:"deps,omitempty"` // AddDependency
}

type c20SOp struct {
	Op   string  `json:"op"` // set | input | compile | run
	Node string  `json:"node,omitempty"`
	Path string  `json:"path,omitempty"`
	Val  string  `json:"val,omitempty"`
	In   *c20SIn `json:"in,omitempty"`
	R    int     `json:"r"`
}

type c20SKV struct {
	K string `json:"k"`
	V string `json:"v"`
}

type c20SFactsOvr struct {
	Copies  bool `json:"copies"`
	Guarded bool `json:"guarded"`
}

type c20SCase struct {
	Stream string        `json:"stream"` // "static"
	Shape  string        `json:"shape,omitempty"`
	Nodes  []c20SNode    `json:"nodes"`
	Input  []c20SKV      `json:"input"`
	Ops    []c20SOp      `json:"ops"`
	SFacts *c20SFactsOvr `json:"sfacts,omitempty"`
}

// c20SObs: one entry per call. set / input: "ok"; compile: "compiled" | "error"; run:
// "invoke=<json>|stream=<json>" with <json> the canonical output, "run-error", "panic", "hang";
// "none" when there is no such runnable.
type c20SObs struct {
	Out []string `json:"out"`
	Err []string `json:"err,omitempty"` // error texts (informational)
}

func c20SEcho(_ context.Context, in map[string]any) (map[string]any, error) {
	out := make(map[string]any, len(in))
	for k, v := range in {
		out[k] = v
	}
	return out, nil
}

func c20SFrom(s string) string {
	switch s {
	case "start":
		return compose.START
	case "end":
		return compose.END
	}
	return s
}

func c20SMappings(ms []c20SMap) []*compose.FieldMapping {
	var out []*compose.FieldMapping
	for _, m := range ms {
		if m.F == "" {
			out = append(out, compose.ToField(m.T))
		} else {
			out = append(out, compose.MapFields(m.F, m.T))
		}
	}
	return out
}

type c20SRun = compose.Runnable[map[string]any, map[string]any]

func c20SInvoke(r c20SRun, in map[string]any) string {
	res := "hang"
	p, _ := vh.Safely(func() {
		vh.WithTimeout(10*time.Second, func() {
			out, err := r.Invoke(context.Background(), in)
			if err != nil {
				res = "run-error"
				return
			}
			res = vh.Canon(out)
		})
	})
	if p {
		return "panic"
	}
	return res
}

func c20SStream(r c20SRun, in map[string]any) string {
	res := "hang"
	p, _ := vh.Safely(func() {
		vh.WithTimeout(10*time.Second, func() {
			sr, err := r.Stream(context.Background(), in)
			if err != nil {
				res = "run-error"
				return
			}
			defer sr.Close()
			out := map[string]any{}
			for {
				chunk, err := sr.Recv()
				if err == io.EOF {
					break
				}
				if err != nil {
					res = "run-error"
					return
				}
				for k, v := range chunk {
					out[k] = v
				}
			}
			res = vh.Canon(out)
		})
	})
	if p {
		return "panic"
	}
	return res
}

// c20SExec plays the case on a fresh Workflow.
func c20SExec(c *c20SCase) c20SObs {
	var obs c20SObs
	wf := compose.NewWorkflow[map[string]any, map[string]any]()
	handles := map[string]*compose.WorkflowNode{}
	for _, n := range c.Nodes {
		var h *compose.WorkflowNode
		if n.Key == "end" {
			h = wf.End()
		} else {
			h = wf.AddLambdaNode(n.Key, compose.InvokableLambda(c20SEcho))
		}
		for _, in := range n.Ins {
			h.AddInput(c20SFrom(in.From), c20SMappings(in.Maps)...)
		}
		for _, d := range n.Deps {
			h.AddDependency(c20SFrom(d))
		}
		handles[n.Key] = h
	}
	input := func() map[string]any {
		m := map[string]any{}
		for _, kv := range c.Input {
			m[kv.K] = kv.V
		}
		return m
	}
	var runs []c20SRun
	for _, op := range c.Ops {
		switch op.Op {
		case "set":
			h := handles[op.Node]
			p, _ := vh.Safely(func() { h.SetStaticValue(compose.FieldPath{op.Path}, op.Val) })
			if p {
				obs.Out = append(obs.Out, "panic")
			} else {
				obs.Out = append(obs.Out, "ok")
			}
		case "input":
			h := handles[op.Node]
			p, _ := vh.Safely(func() { h.AddInput(c20SFrom(op.In.From), c20SMappings(op.In.Maps)...) })
			if p {
				obs.Out = append(obs.Out, "panic")
			} else {
				obs.Out = append(obs.Out, "ok")
			}
		case "compile":
			var r c20SRun
			var err error
			res := "hang"
			p, _ := vh.Safely(func() {
				vh.WithTimeout(10*time.Second, func() {
					r, err = wf.Compile(context.Background())
					res = "done"
				})
			})
			switch {
			case p:
				obs.Out = append(obs.Out, "panic")
			case res == "hang":
				obs.Out = append(obs.Out, "hang")
			case err != nil:
				obs.Out = append(obs.Out, "error")
				obs.Err = append(obs.Err, err.Error())
			default:
				obs.Out = append(obs.Out, "compiled")
				runs = append(runs, r)
			}
		case "run":
			if op.R < 0 || op.R >= len(runs) {
				obs.Out = append(obs.Out, "none")
				continue
			}
			obs.Out = append(obs.Out, "invoke="+c20SInvoke(runs[op.R], input())+"|stream="+c20SStream(runs[op.R], input()))
		default:
			obs.Out = append(obs.Out, "?")
		}
	}
	return obs
}

type c20SModel struct {
	Out []json.RawMessage `json:"out"`
}

// c20SModelStr: the model's answer for one call, in the vocabulary of c20SObs (a run: the canonical
// output, the same for Invoke and Stream)
func c20SModelStr(raw json.RawMessage) string {
	var s string
	if json.Unmarshal(raw, &s) == nil {
		return s
	}
	var o struct {
		Out map[string]any `json:"out"`
	}
	if json.Unmarshal(raw, &o) == nil && o.Out != nil {
		return vh.Canon(o.Out)
	}
	return "?" + string(raw)
}

func c20SSplitRun(s string) (inv, str string, ok bool) {
	if !strings.HasPrefix(s, "invoke=") {
		return "", "", false
	}
	i := strings.Index(s, "|stream=")
	if i < 0 {
		return "", "", false
	}
	return s[len("invoke="):i], s[i+len("|stream="):], true
}

func c20SFactsEnv() *c20SFactsOvr {
	// VERIF_C20_SFACTS=<copies>,<guarded>: run the model with these fact values (validation of the
	// model's other branches against a patched tree by hand; never set by ./check)
	p := strings.Split(strings.TrimSpace(os.Getenv("VERIF_C20_SFACTS")), ",")
	if len(p) != 2 {
		return nil
	}
	return &c20SFactsOvr{Copies: p[0] == "true", Guarded: p[1] == "true"}
}

func c20SAsk(ctx *vh.Ctx, c *c20SCase) ([]string, error) {
	if c.SFacts == nil {
		if k := c20SFactsEnv(); k != nil {
			cc := *c
			cc.SFacts = k
			c = &cc
		}
	}
	raw, err := ctx.Oracle.Ask("C20", c)
	if err != nil {
		return nil, err
	}
	var m c20SModel
	if err := json.Unmarshal(raw, &m); err != nil {
		return nil, err
	}
	out := make([]string, len(m.Out))
	for i, r := range m.Out {
		out[i] = c20SModelStr(r)
	}
	return out, nil
}

// c20SCompare: model vs implementation, call by call.
func c20SCompare(c *c20SCase, model []string, obs *c20SObs) *c20Diff {
	if len(model) != len(obs.Out) || len(model) != len(c.Ops) {
		return &c20Diff{"C20:harness:static:length", fmt.Sprintf("%d calls, %d model answers, %d observations", len(c.Ops), len(model), len(obs.Out))}
	}
	// firstSeen[r][mode]: the first answer the implementation gave for runnable r, and the model's then
	type seen struct{ impl, model string }
	first := map[string]seen{}
	for i, op := range c.Ops {
		o := obs.Out[i]
		if o == "panic" || strings.Contains(o, "=panic") {
			return &c20Diff{"C20:panic:static:" + op.Op, fmt.Sprintf("call %d (%s) panicked; the model says %s", i, op.Op, model[i])}
		}
		if o == "hang" || strings.Contains(o, "=hang") {
			return &c20Diff{"C20:hang:static:" + op.Op, fmt.Sprintf("call %d (%s) did not return within 10s", i, op.Op)}
		}
		if op.Op != "run" || o == "none" || model[i] == "none" {
			if o != model[i] {
				return &c20Diff{fmt.Sprintf("C20:static:%s:model=%s,impl=%s", op.Op, model[i], o),
					fmt.Sprintf("call %d (%s): the model says %s, the implementation %s", i, op.Op, model[i], o)}
			}
			continue
		}
		inv, str, ok := c20SSplitRun(o)
		if !ok {
			return &c20Diff{"C20:harness:static:run-format", o}
		}
		for _, mr := range [][2]string{{"invoke", inv}, {"stream", str}} {
			k := fmt.Sprintf("%d/%s", op.R, mr[0])
			f, had := first[k]
			if !had {
				first[k] = seen{mr[1], model[i]}
			}
			if mr[1] == model[i] {
				continue
			}
			if had && f.impl == f.model && f.model == model[i] {
				return &c20Diff{"C20:runnable-changed:static:" + mr[0],
					fmt.Sprintf("call %d: runnable %d answered %s (%s) right after its Compile and %s after the later calls on the builder; the model says it still answers %s",
						i, op.R, f.impl, mr[0], mr[1], model[i])}
			}
			return &c20Diff{"C20:static:run-result:" + mr[0],
				fmt.Sprintf("call %d: runnable %d (%s) answered %s, the model says %s", i, op.R, mr[0], mr[1], model[i])}
		}
	}
	return nil
}

// c20SModified: the property read off the implementation alone – two runnables compiled from one
// Workflow answer differently at the end of the sequence: the Workflow was modified after its
// first successful Compile.
const c20SModifiedSig = "C20:workflow-modified-after-compile:static-value"

func c20SModified(c *c20SCase, obs *c20SObs) *c20Diff {
	last := map[int]string{}
	for i, op := range c.Ops {
		if op.Op == "run" && i < len(obs.Out) && obs.Out[i] != "none" {
			last[op.R] = obs.Out[i]
		}
	}
	base, ok := last[0]
	if !ok {
		return nil
	}
	var rs []int
	for r := range last {
		rs = append(rs, r)
	}
	sort.Ints(rs)
	for _, r := range rs {
		if r > 0 && last[r] != base {
			return &c20Diff{c20SModifiedSig,
				fmt.Sprintf("runnable 0 answers %s, runnable %d – compiled later from the same Workflow – answers %s: a SetStaticValue made after the first Compile was compiled in", base, r, last[r])}
		}
	}
	return nil
}

func c20SCheck(ctx *vh.Ctx, c *c20SCase, repeats int) (*c20Diff, []string, *c20SObs, error) {
	model, err := c20SAsk(ctx, c)
	if err != nil {
		return nil, nil, nil, err
	}
	obs := c20SExec(c)
	if d := c20SCompare(c, model, &obs); d != nil {
		return d, model, &obs, nil
	}
	for k := 1; k < repeats; k++ {
		o := c20SExec(c)
		for i := range o.Out {
			if i >= len(obs.Out) || o.Out[i] != obs.Out[i] {
				return &c20Diff{"C20:nondeterministic:static:" + c.Ops[i].Op,
					fmt.Sprintf("attempt %d of the same sequence: call %d answered %s, on the first attempt %s", k+1, i, o.Out[i], obs.Out[i])}, model, &obs, nil
			}
		}
	}
	if d := c20SModified(c, &obs); d != nil {
		return d, model, &obs, nil
	}
	return nil, model, &obs, nil
}

// c20SShrink drops set / input / run calls while the signature stays.
func c20SShrink(ctx *vh.Ctx, c *c20SCase, sig string, repeats int) *c20SCase {
	cur := c
	for pass := 0; pass < 3; pass++ {
		changed := false
		for i := len(cur.Ops) - 1; i >= 0; i-- {
			if cur.Ops[i].Op == "compile" || len(cur.Ops) <= 1 {
				continue
			}
			t := *cur
			t.Ops = append(append([]c20SOp{}, cur.Ops[:i]...), cur.Ops[i+1:]...)
			d, _, _, err := c20SCheck(ctx, &t, repeats)
			if err == nil && d != nil && d.sig == sig {
				cur = &t
				changed = true
			}
		}
		if !changed {
			break
		}
	}
	return cur
}

func c20SOne(ctx *vh.Ctx, c *c20SCase, repeats int) error {
	ctx.Progress.Mark(c)
	d, model, obs, err := c20SCheck(ctx, c, repeats)
	if err != nil {
		return err
	}
	// accounting
	compiles, okCompiles, lateSets, lateRuns := 0, 0, 0, 0
	for i, op := range c.Ops {
		switch op.Op {
		case "compile":
			compiles++
			if obs.Out[i] == "compiled" {
				okCompiles++
			}
		case "set":
			if okCompiles > 0 {
				lateSets++
			}
		case "run":
			if okCompiles > 0 && lateSets > 0 && obs.Out[i] != "none" {
				lateRuns++
			}
		}
	}
	b, _ := json.Marshal(c)
	ctx.Res.Count("static|"+string(b), okCompiles > 0 && lateRuns > 0)
	ctx.Res.Dist("stream=static")
	ctx.Res.Dist(fmt.Sprintf("static:runnables=%d", okCompiles))
	ctx.Res.Dist(fmt.Sprintf("static:compiles=%d", compiles))
	if lateSets > 3 {
		lateSets = 3
	}
	ctx.Res.Dist(fmt.Sprintf("static:sets-after-compile=%d", lateSets))
	if lateRuns > 0 {
		ctx.Res.Dist("static:run-after-late-set")
	}
	for i, op := range c.Ops {
		if op.Op == "run" && model[i] == "run-error" {
			ctx.Res.Dist("static:run-error")
			break
		}
	}
	if okCompiles == 0 && len(obs.Err) > 0 {
		switch e := obs.Err[0]; {
		case strings.Contains(e, "entire output"):
			ctx.Res.Dist("static:refused=whole-input-mapping")
		case strings.Contains(e, "terminal field paths conflict"):
			ctx.Res.Dist("static:refused=path-conflict")
		default:
			ctx.Res.Dist("static:refused=other")
			ctx.Res.Note("static: first Compile refused with: " + e)
		}
	}
	ctx.Res.Sample(c)
	if d != nil {
		sc := c
		if ctx.Replay == nil && d.sig != c20SModifiedSig {
			sc = c20SShrink(ctx, c, d.sig, repeats)
		}
		d2, m2, obs2, err := c20SCheck(ctx, sc, repeats)
		if err != nil || d2 == nil || d2.sig != d.sig {
			sc, d2, m2, obs2 = c, d, model, obs
		}
		ctx.Res.Disagree(vh.Disagreement{Signature: d2.sig, What: d2.what, Case: sc, Model: m2, Impl: obs2})
	}
	return nil
}

// ---- generator ----

var c20SInput = []c20SKV{{"f0", "x0"}, {"f1", "x1"}, {"f2", "x2"}}

// c20SFinish appends one run per runnable the sequence can have made.
func c20SFinish(c *c20SCase) *c20SCase {
	n := 0
	for _, op := range c.Ops {
		if op.Op == "compile" {
			n++
		}
	}
	for r := 0; r < n; r++ {
		c.Ops = append(c.Ops, c20SOp{Op: "run", R: r})
	}
	return c
}

func c20SGen(r *vh.Rand) *c20SCase {
	c := &c20SCase{Stream: "static", Input: c20SInput}
	names := []string{"a", "b", "c"}
	n := r.Range(1, 3)
	// fields a node's output is known to carry: its mapped targets (and, once set, its static paths)
	fields := map[string][]string{"start": {"f0", "f1", "f2"}}
	statics := map[string][]string{}
	read := map[string]bool{}
	whole := map[string]bool{}
	tgt := 0
	mkIn := func(key, from string) c20SIn {
		in := c20SIn{From: from}
		if whole[from] || len(fields[from]) == 0 {
			// the predecessor passes a whole map on: take it as one field
			in.Maps = []c20SMap{{T: fmt.Sprintf("w%d", tgt)}}
			tgt++
			return in
		}
		for k := r.Range(1, 2); k > 0; k-- {
			if r.Chance(25) {
				in.Maps = append(in.Maps, c20SMap{T: fmt.Sprintf("w%d", tgt)})
			} else {
				in.Maps = append(in.Maps, c20SMap{F: c20Pick(r, fields[from]), T: fmt.Sprintf("g%d", tgt)})
			}
			tgt++
		}
		if r.Chance(3) && len(in.Maps) == 2 { // two mappings onto one field: refused by every Compile
			in.Maps[1].T = in.Maps[0].T
		}
		return in
	}
	for i := 0; i < n; i++ {
		key := names[i]
		nd := c20SNode{Key: key}
		srcs := append([]string{"start"}, names[:i]...)
		switch {
		case r.Chance(12): // no data input at all: the node's input is its static values
			nd.Deps = []string{c20Pick(r, srcs)}
		case r.Chance(6): // the whole output of one predecessor
			from := c20Pick(r, srcs)
			nd.Ins = []c20SIn{{From: from}}
			read[from] = true
			whole[key] = true
		default:
			p := r.Perm(len(srcs))
			k := 1
			if len(srcs) > 1 && r.Chance(35) {
				k = 2
			}
			for _, j := range p[:k] {
				nd.Ins = append(nd.Ins, mkIn(key, srcs[j]))
				read[srcs[j]] = true
			}
			if len(srcs) > k && r.Chance(15) {
				nd.Deps = append(nd.Deps, srcs[p[k]])
			}
		}
		for _, in := range nd.Ins {
			for _, m := range in.Maps {
				fields[key] = append(fields[key], m.T)
			}
		}
		c.Nodes = append(c.Nodes, nd)
	}
	// END reads every node nobody reads, and some of the others
	end := c20SNode{Key: "end"}
	for i := 0; i < n; i++ {
		if !read[names[i]] || r.Chance(40) {
			end.Ins = append(end.Ins, c20SIn{From: names[i], Maps: []c20SMap{{T: names[i]}}})
		}
	}
	if r.Chance(15) {
		end.Ins = append(end.Ins, c20SIn{From: "start", Maps: []c20SMap{{F: c20Pick(r, fields["start"]), T: "in"}}})
	}
	if len(end.Ins) == 1 && r.Chance(10) {
		end.Ins[0].Maps = nil // END takes the whole output of that node
	}
	for _, in := range end.Ins {
		for _, m := range in.Maps {
			fields["end"] = append(fields["end"], m.T)
		}
	}
	c.Nodes = append(c.Nodes, end)
	keys := append(append([]string{}, names[:n]...), "end")
	val := 0
	wholeIn := map[string]bool{}
	for _, nd := range c.Nodes {
		for _, in := range nd.Ins {
			if len(in.Maps) == 0 {
				wholeIn[nd.Key] = true
			}
		}
	}
	set := func(late bool) c20SOp {
		conflict := 4
		if late {
			conflict = 12
		}
		k := c20Pick(r, keys)
		if wholeIn[k] && r.Chance(85) { // a static value next to a whole-input mapping is refused: keep it rare
			k = keys[0]
		}
		var p string
		switch x := r.Intn(100); {
		case x < 35 && len(statics[k]) > 0: // overwrite
			p = c20Pick(r, statics[k])
		case x >= 35 && x < 35+conflict && len(fields[k]) > 0: // a path an input maps
			p = c20Pick(r, fields[k])
		default:
			p = fmt.Sprintf("s%d", r.Intn(4))
		}
		known := false
		for _, q := range statics[k] {
			known = known || q == p
		}
		if !known {
			statics[k] = append(statics[k], p)
		}
		val++
		return c20SOp{Op: "set", Node: k, Path: p, Val: fmt.Sprintf("v%d", val)}
	}
	compiles := 0
	compile := func() {
		c.Ops = append(c.Ops, c20SOp{Op: "compile"})
		compiles++
	}
	// before the first Compile
	k0 := r.Range(0, 3)
	if r.Chance(20) {
		k0 = 0
	}
	for ; k0 > 0; k0-- {
		c.Ops = append(c.Ops, set(false))
	}
	compile()
	c.Ops = append(c.Ops, c20SOp{Op: "run", R: 0})
	// after it
	for k := r.Range(1, 5); k > 0; k-- {
		switch x := r.Intn(100); {
		case x < 60:
			c.Ops = append(c.Ops, set(true))
		case x < 78:
			c.Ops = append(c.Ops, c20SOp{Op: "run", R: r.Intn(compiles)})
		case x < 94:
			compile()
		default: // a late AddInput through the retained handle
			i := r.Intn(len(keys))
			srcs := append([]string{"start"}, keys[:i]...)
			taken := map[string]bool{}
			for _, in := range c.Nodes[i].Ins {
				taken[in.From] = true
			}
			for _, d := range c.Nodes[i].Deps {
				taken[d] = true
			}
			for _, op := range c.Ops {
				if op.Op == "input" && op.Node == keys[i] {
					taken[op.In.From] = true
				}
			}
			from := c20Pick(r, srcs)
			if taken[from] {
				c.Ops = append(c.Ops, set(true))
				continue
			}
			in := c20SIn{From: from, Maps: []c20SMap{{T: fmt.Sprintf("late%d", tgt)}}}
			tgt++
			c.Ops = append(c.Ops, c20SOp{Op: "input", Node: keys[i], In: &in})
		}
	}
	if r.Chance(45) {
		compile()
	}
	return c20SFinish(c)
}

// c20SFixed: hand-written shapes, run first on every seed.
func c20SFixed() []*c20SCase {
	in := func(from string, maps ...c20SMap) c20SIn { return c20SIn{From: from, Maps: maps} }
	f := func(f, t string) c20SMap { return c20SMap{F: f, T: t} }
	to := func(t string) c20SMap { return c20SMap{T: t} }
	set := func(n, p, v string) c20SOp { return c20SOp{Op: "set", Node: n, Path: p, Val: v} }
	comp := c20SOp{Op: "compile"}
	run := func(r int) c20SOp { return c20SOp{Op: "run", R: r} }
	one := []c20SNode{{Key: "a", Ins: []c20SIn{in("start", f("f0", "g0"))}}, {Key: "end", Ins: []c20SIn{in("a", to("a"))}}}
	two := []c20SNode{{Key: "a", Ins: []c20SIn{in("start", f("f0", "g0"))}},
		{Key: "b", Ins: []c20SIn{in("a", f("s0", "h0"), f("g0", "h1"))}},
		{Key: "end", Ins: []c20SIn{in("b", to("b"))}}}
	mk := func(shape string, nodes []c20SNode, ops ...c20SOp) *c20SCase {
		return c20SFinish(&c20SCase{Stream: "static", Shape: shape, Nodes: nodes, Input: c20SInput, Ops: ops})
	}
	return []*c20SCase{
		// a path overwritten and a path added through the retained handle after Compile
		mk("late-overwrite-and-add", one, set("a", "s0", "v1"), comp, run(0), set("a", "s0", "v2"), set("a", "s1", "v3"), run(0), comp, run(0)),
		// the same on END's own static values
		mk("late-set-on-end", one, set("end", "e0", "v1"), comp, run(0), set("end", "e0", "v2"), set("end", "e1", "v3"), run(0)),
		// a node without data input: its input is its static values
		mk("late-set-on-static-only-node", []c20SNode{{Key: "a", Deps: []string{"start"}}, {Key: "end", Ins: []c20SIn{in("a", to("a"))}}},
			set("a", "s0", "v1"), comp, run(0), set("a", "s0", "v2"), run(0)),
		// a successor maps a static value of its predecessor
		mk("downstream-reads-static-field", two, set("a", "s0", "v1"), comp, run(0), set("a", "s0", "v2"), run(0)),
		// a late value on a path that an input maps
		mk("late-set-on-mapped-path", one, set("a", "s0", "v1"), comp, run(0), set("a", "g0", "v2"), run(0), comp),
		// a node that had no static value gets one after Compile; Compile again
		mk("late-set-then-recompile", one, comp, run(0), set("a", "s0", "v1"), run(0), comp, run(0), comp),
		// static value on a mapped path / next to a whole-input mapping: refused by every Compile
		mk("conflict-with-mapped-path", one, set("a", "g0", "v1"), comp, comp),
		mk("conflict-with-whole-input", []c20SNode{{Key: "a", Ins: []c20SIn{in("start")}}, {Key: "end", Ins: []c20SIn{in("a", to("a"))}}},
			set("a", "s0", "v1"), comp, comp),
		// a late AddInput: every later Compile is refused, the runnable stays
		mk("late-input", one, set("a", "s0", "v1"), comp, run(0),
			c20SOp{Op: "input", Node: "end", In: &c20SIn{From: "start", Maps: []c20SMap{f("f1", "late")}}}, comp, set("a", "s0", "v2"), run(0), comp),
		// no static values at all: Compile twice, both runnables answer the same
		mk("recompile-without-static", one, comp, run(0), comp),
	}
}
