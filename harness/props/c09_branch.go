//go:build verif && (vh_all || vh_c09)

package props

// C09 — family "branchmix": concurrent runs through a BRANCHING node of one compiled graph.
//
// Graph[string, map[string]any] (pregel / dag):  START -> n ; n has K ∈ 0..7 direct data edges to
// d0..d(K-1) (the compiled runner's writeTo slice for n is built by append: K = 3, 5, 6, 7 leave
// spare capacity) and 2-3 branches, branch b choosing between t<b>x and t<b>y; every successor
// answers under its own output key, END merges.  2-6 concurrent callers (four paradigms) whose
// inputs "c<i>:<xy…>" script DIFFERENT outcomes per branch; the conditions are barriers (condition b
// of a run returns only when every run of the wave has reached its condition b, i.e. has finished
// branch b-1), so the successor lists of the runs are built interleaved branch by branch.
// Observable: the keys (and values) of the result = the successors the run delivered to; they must be
// the direct ones and exactly the targets ITS conditions selected (model: Opt machine on node keys).

import (
	"context"
	"errors"
	"fmt"
	"io"
	"sort"
	"strings"

	"github.com/cloudwego/eino/compose"
	"github.com/cloudwego/eino/schema"
	"github.com/cloudwego/eino/verifharness/vh"
)

type c09BranchMix struct {
	Mode string `json:"mode"` // pregel|dag
	K    int    `json:"k"`    // direct data edges of n
	NB   int    `json:"nb"`   // branches of n
}

func c09GenBranchMix(r *vh.Rand, k int) c09Case {
	c := c09Case{Kind: "branchmix", Seed: r.U64() % 1000000}
	b := &c09BranchMix{Mode: []string{"pregel", "dag"}[k%2], NB: r.Range(2, 3)}
	if r.Chance(60) {
		b.K = []int{3, 5, 6, 7}[(k/2+r.Intn(2))%4] // writeTo with spare capacity
	} else {
		b.K = r.Range(0, 7)
	}
	c.BM = b
	ng := []int{2, 3, 4, 6}[r.Intn(4)]
	c.Reps = r.Range(1, 2)
	poff := r.Intn(4)
	for i := 0; i < ng; i++ {
		sel := ""
		for j := 0; j < b.NB; j++ {
			sel += string("xy"[r.Intn(2)])
		}
		if i == 1 { // the first two callers differ in every branch
			sel = ""
			for j := 0; j < b.NB; j++ {
				sel += string("xy"[1-strings.IndexByte("xy", c.Calls[0].In[len(c.Calls[0].In)-b.NB+j])])
			}
		}
		c.Calls = append(c.Calls, c09Call{In: fmt.Sprintf("c%d:%s", i, sel), Paradigm: c09Paradigms[(i+poff)%4], Chunks: r.Range(1, 2)})
	}
	for t := range c.Calls {
		for n := b.NB + 2 + r.Intn(2); n > 0; n-- {
			c.Sched = append(c.Sched, t)
		}
	}
	c.Sched = c09Shuffle(r, c.Sched)
	return c
}

func c09BMSel(in string) string {
	if i := strings.LastIndex(in, ":"); i >= 0 {
		return in[i+1:]
	}
	return ""
}

func c09BMOracleCase(c *c09Case) any {
	b := c.BM
	direct := []int{}
	for j := 0; j < b.K; j++ {
		direct = append(direct, j+1)
	}
	// capacity of a slice built by K appends from nil (16-byte elements): 1,2,4,4,8,8,8,8
	capOf := []int{0, 1, 2, 4, 4, 8, 8, 8}[b.K]
	type oc struct {
		Sel []int `json:"sel"`
	}
	calls := []oc{}
	for _, k := range c.Calls {
		x := oc{Sel: []int{}}
		for j, ch := range c09BMSel(k.In) {
			id := 100 + 10*j
			if ch == 'y' {
				id++
			}
			x.Sel = append(x.Sel, id)
		}
		calls = append(calls, x)
	}
	sched := c.Sched
	if sched == nil {
		sched = []int{}
	}
	return map[string]any{"family": "branchmix", "direct": direct, "spare": capOf - b.K, "calls": calls, "sched": sched}
}

// the model's successor ids -> the result the run must return
func c09BMExpected(c *c09Case, i int, ids string) string {
	var names []string
	for _, f := range strings.Split(ids, ",") {
		var id int
		if _, err := fmt.Sscanf(f, "%d", &id); err != nil {
			continue
		}
		if id < 100 {
			names = append(names, fmt.Sprintf("d%d", id-1))
		} else {
			names = append(names, fmt.Sprintf("t%d%c", (id-100)/10, "xy"[(id-100)%10]))
		}
	}
	sort.Strings(names)
	parts := make([]string, len(names))
	for j, n := range names {
		parts[j] = n + "=" + c.Calls[i].In
	}
	return "{" + strings.Join(parts, ",") + "}"
}

// a branch target in the result that the call's own conditions did not select
func c09BMForeignTarget(c *c09Case, i int, out string) bool {
	sel := c09BMSel(c.Calls[i].In)
	for j := 0; j < len(sel); j++ {
		other := "x"
		if sel[j] == 'x' {
			other = "y"
		}
		if strings.Contains(out, fmt.Sprintf("t%d%s=", j, other)) {
			return true
		}
	}
	return false
}

func c09BuildBranchMix(c *c09Case) (compose.Runnable[string, map[string]any], error) {
	b := c.BM
	if b == nil {
		return nil, errors.New("branchmix: no description")
	}
	g := compose.NewGraph[string, map[string]any]()
	var berr error
	note := func(err error) {
		if err != nil && berr == nil {
			berr = err
		}
	}
	leaf := func(key string) {
		note(g.AddLambdaNode(key, c09Ident(), compose.WithOutputKey(key)))
		note(g.AddEdge(key, compose.END))
	}
	note(g.AddLambdaNode("n", c09Ident()))
	note(g.AddEdge(compose.START, "n"))
	for j := 0; j < b.K; j++ {
		key := fmt.Sprintf("d%d", j)
		leaf(key)
		note(g.AddEdge("n", key))
	}
	for j := 0; j < b.NB; j++ {
		j := j
		x, y := fmt.Sprintf("t%dx", j), fmt.Sprintf("t%dy", j)
		leaf(x)
		leaf(y)
		cond := func(ctx context.Context, in string) (string, error) {
			c09TokOf(ctx).arrive(j) // every run of the wave has finished branch j-1 of n
			sel := c09BMSel(in)
			if j < len(sel) && sel[j] == 'y' {
				return y, nil
			}
			return x, nil
		}
		note(g.AddBranch("n", compose.NewGraphBranch(cond, map[string]bool{x: true, y: true})))
	}
	if berr != nil {
		return nil, berr
	}
	var copts []compose.GraphCompileOption
	if b.Mode == "dag" {
		copts = append(copts, compose.WithNodeTriggerMode(compose.AllPredecessor))
	}
	return g.Compile(context.Background(), copts...)
}

func c09BMReadMap(sr *schema.StreamReader[map[string]any]) (map[string]any, error) {
	defer sr.Close()
	m := map[string]any{}
	for {
		ch, err := sr.Recv()
		if err == io.EOF {
			return m, nil
		}
		if err != nil {
			return m, err
		}
		for k, v := range ch {
			prev, _ := m[k].(string)
			m[k] = prev + fmt.Sprint(v)
		}
	}
}

func c09BranchMixRunner(c *c09Case, r compose.Runnable[string, map[string]any]) c09Runner {
	ws := &c09Waves{n: len(c.Calls), g: c.BM.NB, waves: map[int]*c09Wave{}}
	return func(ci, rep int, phase string) (obs c09Obs) {
		call := c.Calls[ci]
		ctx, tok := ws.ctxFor(phase, rep)
		defer func() {
			if p := recover(); p != nil {
				obs = c09Obs{Err: "panic", Msg: fmt.Sprint(p)}
			}
			if tok != nil {
				tok.finish()
				if tok.timedOut && obs.Err == "" {
					obs.Err = "gate-timeout"
				}
			}
		}()
		var m map[string]any
		var err error
		switch call.Paradigm {
		case "stream":
			var sr *schema.StreamReader[map[string]any]
			if sr, err = r.Stream(ctx, call.In); err == nil {
				m, err = c09BMReadMap(sr)
			}
		case "collect":
			m, err = r.Collect(ctx, c09StrStream(call.In, call.Chunks))
		case "transform":
			var sr *schema.StreamReader[map[string]any]
			if sr, err = r.Transform(ctx, c09StrStream(call.In, call.Chunks)); err == nil {
				m, err = c09BMReadMap(sr)
			}
		default:
			m, err = r.Invoke(ctx, call.In)
		}
		if err != nil {
			return c09Obs{Err: c09ErrClass(err), Msg: err.Error()}
		}
		return c09Obs{Out: c09RenderMap(m)}
	}
}

func c09BMAccount(ctx *vh.Ctx, c *c09Case) string {
	b := c.BM
	ctx.Res.Dist("branchmix:mode:" + b.Mode)
	ctx.Res.Dist(fmt.Sprintf("branchmix:direct-edges:%d", b.K))
	ctx.Res.Dist(fmt.Sprintf("branchmix:branches:%d", b.NB))
	spare := []int{0, 1, 2, 4, 4, 8, 8, 8}[b.K] - b.K
	if spare > 0 {
		ctx.Res.Dist("branchmix:writeTo:spare-capacity")
	} else {
		ctx.Res.Dist("branchmix:writeTo:exact-capacity")
	}
	return fmt.Sprintf("%s/k%d/b%d", b.Mode, b.K, b.NB)
}
