//go:build verif && (vh_all || vh_c12)

package props

import (
	"bytes"
	"encoding/json"
	"fmt"
	"reflect"
	"sort"
	"strings"
	"time"

	"github.com/cloudwego/eino/internal/serialization"
	"github.com/cloudwego/eino/verifharness/vh"
)

func init() { vh.Register("C12", runC12) }

// ---- case ----

// c12Recipe regenerates the Go value deterministically (replay): menu type, per-case seed,
// generator knobs, and the path a shrink step descended along.
type c12Recipe struct {
	TypeIdx int      `json:"typeIdx"`
	TypeStr string   `json:"typeStr"`
	Seed    uint64   `json:"seed"`
	NilPtr  int      `json:"nilPtr"`
	NilCont int      `json:"nilCont"`
	Budget  int      `json:"budget"`
	Special bool     `json:"special"`
	Share   int      `json:"share,omitempty"`    // percent of pointer positions reusing an earlier pointer
	UnregAny int     `json:"unregAny,omitempty"` // percent of any positions holding an unregistered defined basic type
	Path    []string `json:"path,omitempty"`
	Witness string   `json:"witness,omitempty"` // fixed corpus value instead of a generated one
	Mutate  string   `json:"mutate,omitempty"`  // malformed stream: mutation applied to the encoder output
}

type c12Case struct {
	Mode    string    `json:"mode"` // rt | dec
	Recipe  c12Recipe `json:"recipe"`
	Reg     []any     `json:"reg"`
	Kinds   []any     `json:"kinds"`
	Structs []any     `json:"structs"`
	V       any       `json:"v,omitempty"`
	IS      any       `json:"is,omitempty"`
}

type c12Model struct {
	CtxOK     bool            `json:"ctxok"`
	WT        bool            `json:"wt"`
	Supported bool            `json:"supported"`
	Enc       string          `json:"enc"`
	IS        json.RawMessage `json:"is,omitempty"`
	Dec       string          `json:"dec"`
	V         json.RawMessage `json:"v,omitempty"`
	Ty        string          `json:"ty,omitempty"`
	Sim       bool            `json:"sim"`
	Regd      bool            `json:"regd"`
	Coherent  bool            `json:"coherent"`
	Shared    int             `json:"shared"`
	SameType  bool            `json:"sameType"`
}

type c12Impl struct {
	Enc      string `json:"enc"` // ok | error | panic | hang
	EncErr   string `json:"encErr,omitempty"`
	IS       any    `json:"is,omitempty"`
	Dec      string `json:"dec"` // ok | error | panic | hang | -
	DecErr   string `json:"decErr,omitempty"`
	V        any    `json:"v,omitempty"`
	Ty       string `json:"ty,omitempty"`
	Equal    bool   `json:"equal"`
	SameType bool   `json:"sameType"`
	Why      string `json:"why,omitempty"`
}

// mirror of serialization.internalStruct (as written by sonic.Marshal)
type c12IS struct {
	PointerNum           uint32            `json:",omitempty"`
	NilElemPointerNum    uint32            `json:",omitempty"`
	Type                 string            `json:",omitempty"`
	JSONValue            json.RawMessage   `json:",omitempty"`
	StructType           string            `json:",omitempty"`
	MapKeyPointerNum     uint32            `json:",omitempty"`
	MapKeyType           string            `json:",omitempty"`
	MapValuePointerNum   uint32            `json:",omitempty"`
	MapValueType         string            `json:",omitempty"`
	MapValues            map[string]*c12IS `json:",omitempty"`
	SliceValuePointerNum uint32            `json:",omitempty"`
	SliceValueType       string            `json:",omitempty"`
	SliceValues          []*c12IS          `json:",omitempty"`
}

func c12ParseIS(b []byte) (*c12IS, error) {
	d := json.NewDecoder(bytes.NewReader(b))
	d.DisallowUnknownFields()
	var is *c12IS
	if err := d.Decode(&is); err != nil {
		return nil, err
	}
	return is, nil
}

// tree rendering shared with the model's renderIS (JSONValue as text, omitempty)
func c12ISTree(is *c12IS) any {
	if is == nil {
		return nil
	}
	m := map[string]any{}
	n := func(k string, v uint32) {
		if v != 0 {
			m[k] = v
		}
	}
	s := func(k, v string) {
		if v != "" {
			m[k] = v
		}
	}
	n("PointerNum", is.PointerNum)
	n("NilElemPointerNum", is.NilElemPointerNum)
	s("Type", is.Type)
	s("JSONValue", c12CanonNum(string(is.JSONValue)))
	s("StructType", is.StructType)
	n("MapKeyPointerNum", is.MapKeyPointerNum)
	s("MapKeyType", is.MapKeyType)
	n("MapValuePointerNum", is.MapValuePointerNum)
	s("MapValueType", is.MapValueType)
	if len(is.MapValues) > 0 {
		mv := map[string]any{}
		for k, v := range is.MapValues {
			if is.StructType == "" {
				k = c12CanonNum(k) // map key payload (-0 and 0 are the same Go map key)
			}
			mv[k] = c12ISTree(v)
		}
		m["MapValues"] = mv
	}
	n("SliceValuePointerNum", is.SliceValuePointerNum)
	s("SliceValueType", is.SliceValueType)
	if len(is.SliceValues) > 0 {
		var l []any
		for _, v := range is.SliceValues {
			l = append(l, c12ISTree(v))
		}
		m["SliceValues"] = l
	}
	return m
}

// ---- running the implementation ----

func c12Guard(f func()) string {
	finished := false
	panicked, _ := vh.Safely(func() { finished = vh.WithTimeout(20*time.Second, f) })
	if panicked {
		return "panic"
	}
	if !finished {
		return "hang"
	}
	return ""
}

func c12PanicText(f func()) (cls, text string) {
	finished := false
	panicked, pv := vh.Safely(func() { finished = vh.WithTimeout(20*time.Second, f) })
	if panicked {
		return "panic", fmt.Sprint(pv)
	}
	if !finished {
		return "hang", ""
	}
	return "", ""
}

// c12RoundTrip runs Marshal then Unmarshal of the real package on x.
func c12RoundTrip(x any, wantTree bool) (impl c12Impl, data []byte) {
	var err error
	if cls, txt := c12PanicText(func() { data, err = serialization.Marshal(x) }); cls != "" {
		impl.Enc, impl.EncErr, impl.Dec = cls, txt, "-"
		return
	}
	if err != nil {
		impl.Enc, impl.EncErr, impl.Dec = "error", err.Error(), "-"
		return
	}
	impl.Enc = "ok"
	if wantTree {
		if is, perr := c12ParseIS(data); perr != nil {
			impl.IS = "unparsable: " + perr.Error()
		} else {
			impl.IS = c12ISTree(is)
		}
	}
	c12Decode(data, x, &impl)
	return
}

func c12Decode(data []byte, orig any, impl *c12Impl) {
	var out any
	var err error
	if cls, txt := c12PanicText(func() { out, err = serialization.Unmarshal(data) }); cls != "" {
		impl.Dec, impl.DecErr = cls, txt
		return
	}
	if err != nil {
		impl.Dec, impl.DecErr = "error", err.Error()
		return
	}
	impl.Dec = "ok"
	if out == nil {
		impl.V, impl.Ty = []any{"inil"}, "interface {}"
		return
	}
	ov := reflect.ValueOf(out)
	impl.V, impl.Ty = c12Render(ov), ov.Type().String()
	if orig != nil {
		impl.SameType = reflect.TypeOf(orig) == ov.Type()
		if impl.SameType {
			impl.Equal, impl.Why = c12DeepEq(reflect.ValueOf(orig), ov)
			if impl.Equal {
				impl.Why = ""
			}
		} else {
			impl.Why = fmt.Sprintf("dynamic type %s, written %s", ov.Type(), reflect.TypeOf(orig))
		}
	}
}

// c12PropClass: the direct property verdict for one value.
// "" = property holds; otherwise the failing observable.
func c12PropClass(impl *c12Impl, inUniverse bool) string {
	switch {
	case impl.Enc == "panic" || impl.Enc == "hang":
		return "marshal-" + impl.Enc
	case impl.Dec == "panic" || impl.Dec == "hang":
		return "unmarshal-" + impl.Dec
	case impl.Enc == "error":
		if inUniverse {
			return "marshal-error"
		}
		return ""
	case impl.Dec == "error":
		// the bytes were written without complaint and cannot be read back
		return "unmarshal-error"
	case !impl.SameType:
		return "type-differs"
	case !impl.Equal:
		return "value-differs"
	}
	return ""
}

// ---- shapes, shrinking, signatures ----

func c12KindWord(t reflect.Type) string {
	switch {
	case t.Kind() == reflect.Slice:
		return "slice"
	case t.Kind() == reflect.Map:
		return "map"
	case t.Kind() == reflect.Interface:
		return "any"
	case t.Kind() == reflect.Struct:
		return "s"
	case t.PkgPath() != "":
		return "n"
	}
	return "b"
}

func c12ShapeTy(t reflect.Type) string {
	switch t.Kind() {
	case reflect.Ptr:
		return "*" + c12ShapeTy(t.Elem())
	case reflect.Slice:
		return "[]" + c12ShapeTy(t.Elem())
	case reflect.Map:
		return "map[" + c12ShapeTy(t.Key()) + "]" + c12ShapeTy(t.Elem())
	}
	return c12KindWord(t)
}

func c12ShapeVal(v reflect.Value) string {
	t := v.Type()
	switch t.Kind() {
	case reflect.Interface:
		if v.IsNil() {
			return "anynil"
		}
		return "any(" + c12ShapeVal(v.Elem()) + ")"
	case reflect.Ptr:
		if v.IsNil() {
			base, stars := t.Elem(), "*"
			for base.Kind() == reflect.Ptr {
				base, stars = base.Elem(), stars+"*"
			}
			if base.Kind() == reflect.Slice || base.Kind() == reflect.Map {
				return "nilptr-to-" + c12KindWord(base)
			}
			return "nil(" + stars + c12KindWord(base) + ")"
		}
		return "*" + c12ShapeVal(v.Elem())
	}
	return c12ShapeTy(t)
}

type c12Child struct {
	step string
	v    reflect.Value
}

func c12Children(v reflect.Value) []c12Child {
	var out []c12Child
	switch v.Kind() {
	case reflect.Interface, reflect.Ptr:
		if !v.IsNil() {
			out = append(out, c12Child{"elem", v.Elem()})
		}
	case reflect.Slice:
		for i := 0; i < v.Len(); i++ {
			out = append(out, c12Child{fmt.Sprintf("idx:%d", i), v.Index(i)})
		}
	case reflect.Map:
		ks := v.MapKeys()
		sort.Slice(ks, func(i, j int) bool { return c12KeyPayload(ks[i]) < c12KeyPayload(ks[j]) })
		for _, k := range ks {
			out = append(out, c12Child{"key:" + c12KeyPayload(k), v.MapIndex(k)})
		}
	case reflect.Struct:
		for i := 0; i < v.NumField(); i++ {
			if v.Type().Field(i).PkgPath == "" {
				out = append(out, c12Child{"field:" + v.Type().Field(i).Name, v.Field(i)})
			}
		}
	}
	return out
}

func c12Follow(v reflect.Value, path []string) (reflect.Value, bool) {
	for _, st := range path {
		found := false
		for _, c := range c12Children(v) {
			if c.step == st {
				v, found = c.v, true
				break
			}
		}
		if !found {
			return v, false
		}
	}
	return v, true
}

func c12InUniverse(st *c12Stats) bool {
	return st.unenc == 0 && st.unregTypes == 0 && !st.badUTF8
}

// c12CheckValue: property class of a value taken as a top-level value.
func c12CheckValue(v reflect.Value) string {
	for v.Kind() == reflect.Interface {
		if v.IsNil() {
			return ""
		}
		v = v.Elem()
	}
	if !v.CanInterface() {
		return ""
	}
	var st c12Stats
	c12NewCtx().val(v, &st, 0, 0)
	impl, _ := c12RoundTrip(v.Interface(), false)
	return c12PropClass(&impl, c12InUniverse(&st))
}

// c12Shrink descends into children that fail the same way on their own.
func c12Shrink(v reflect.Value, cls string) (reflect.Value, []string) {
	var path []string
	for steps := 0; steps < 64; steps++ {
		moved := false
		for _, c := range c12Children(v) {
			if c12CheckValue(c.v) == cls {
				v, path, moved = c.v, append(path, c.step), true
				break
			}
		}
		if !moved {
			break
		}
	}
	for v.Kind() == reflect.Interface && !v.IsNil() {
		v = v.Elem()
	}
	return v, path
}

// c12Shape: shape of a shrunk failing value; for a struct the fields whose zeroing makes the
// failure disappear are named.
func c12Shape(v reflect.Value, cls string) string {
	if v.Kind() != reflect.Struct {
		return c12ShapeVal(v)
	}
	var culprits []string
	for i := 0; i < v.NumField(); i++ {
		if v.Type().Field(i).PkgPath != "" {
			continue
		}
		cp := reflect.New(v.Type()).Elem()
		cp.Set(v)
		cp.Field(i).Set(reflect.Zero(v.Type().Field(i).Type))
		if c12CheckValue(cp) != cls {
			sh := c12ShapeVal(v.Field(i))
			if v.Type().Field(i).Anonymous {
				sh = "embedded:" + sh
			}
			culprits = append(culprits, sh)
		}
	}
	sort.Strings(culprits)
	if len(culprits) > 3 {
		culprits = culprits[:3]
	}
	return "s{" + strings.Join(culprits, ",") + "}"
}

// ---- building a case from a recipe ----

// fixed corpus: the negation witnesses of Props/C12.lean and the shapes of DESIGN §5
func c12WitnessValue(name string) (any, bool) {
	one := 1
	pone := &one
	var nilp *int
	var nilpp **int
	switch name {
	case "ptr-to-map": // *map[string]int
		m := map[string]int{"a": 1}
		return &m, true
	case "ptr-to-slice-field": // struct field *[]int
		s := []int{1, 2}
		return c12PC{PS: &s}, true
	case "inner-nil": // **int whose inner pointer is nil
		return &nilp, true
	case "outer-nil-deep": // (***int)(nil) : the static depth below the nil pointer
		var p ***int
		return p, true
	case "nil-above-nil": // ***int : non-nil -> nil **int
		return &nilpp, true
	case "ptr3": // ***int fully allocated
		pp := &pone
		return &pp, true
	case "nilptr-to-slice": // (*[]int)(nil)
		var p *[]int
		return p, true
	case "nilptr-to-map":
		var p *map[string]int
		return p, true
	case "nested-container":
		return map[string][]int{"a": {1}}, true
	case "ptr-any-field": // struct holding pointer-to-container inside any
		m := map[string]int{"k": 2}
		return c12Any{X: &m, L: []any{&[]int{3}}}, true
	case "empty-struct-ptr":
		return &c12Empty{}, true
	case "shared-slice": // one pointer at two positions of a slice
		return []*int{pone, pone}, true
	case "shared-state": // a state whose Last is an element of History, also held in any positions
		a, b := &c12Leaf{S: "user"}, &c12Leaf{S: "assistant"}
		pp := &b
		return c12Hist{History: []*c12Leaf{a, b}, Last: b, Extra: map[string]any{"last": b}, Boxed: b, PP1: pp, PP2: &b,
			Ints: []*int{pone}, I1: pone, I2: pone, ByName: map[string]*c12Leaf{"a": a, "b": a}, Any: []any{pone, "x", pone}}, true
	case "shared-fanout": // what a checkpoint holds when one node output is the pending input of two successors
		d := &c12Leaf{S: "doc"}
		return map[string]any{"a": d, "b": d}, true
	case "struct-keys": // every key text omits a different set of fields
		return map[c12Key]string{{Tenant: "a"}: "tenant-a", {Shard: 1}: "shard-1", {}: "zero", {Tenant: "b", On: true, U: 7}: "b"}, true
	case "struct-keys-nested":
		return c12MKs{K2: map[c12Key2]*int{{A: 1, In: c12KeyIn{X: 3}}: pone, {In: c12KeyIn{Y: "y"}, B: true}: nil, {S: "s"}: pone},
			KK: map[c12KeyIn]c12Key{{X: 1}: {Tenant: "t"}, {Y: "y"}: {Shard: 2}}}, true
	case "ptr-keys":
		two := 2
		return map[*int]string{pone: "one", &two: "two", nil: "nil"}, true
	case "ptr-struct-keys":
		return map[*c12Key]int{{Tenant: "a"}: 1, {Shard: 1}: 2}, true
	case "unreg-named": // an unregistered defined basic type: must be refused
		return c12UStr("weather"), true
	case "unreg-named-any": // … in the positions a checkpoint holds values in
		return c12Any{X: c12UInt(3), L: []any{1, c12UF(0.5)}, M: map[string]any{"node": c12UStr("weather")}, P: &c12Any{Y: c12UBool(true)}}, true
	case "unreg-named-ptr":
		u := c12UStr("t")
		pu := &u
		return &pu, true
	case "any-key": // map with any-typed keys: outside the model (dynamic type of the key changes)
		return map[any]int{1: 1}, true
	case "ptr-to-any":
		var a any = 5
		return &a, true
	}
	return c12EmbedWitness(name) // c12_nembed.go
}

var c12Witnesses = []string{"ptr-to-map", "ptr-to-slice-field", "inner-nil", "outer-nil-deep", "nil-above-nil", "ptr3",
	"nilptr-to-slice", "nilptr-to-map", "nested-container", "ptr-any-field", "empty-struct-ptr",
	"shared-slice", "shared-state", "shared-fanout", "struct-keys", "struct-keys-nested", "ptr-keys", "ptr-struct-keys",
	"unreg-named", "unreg-named-any", "unreg-named-ptr"}

func c12ValueOf(rc *c12Recipe) (reflect.Value, error) {
	var v reflect.Value
	if rc.Witness != "" {
		x, ok := c12WitnessValue(rc.Witness)
		if !ok {
			return v, fmt.Errorf("unknown witness %q", rc.Witness)
		}
		v = reflect.ValueOf(x)
	} else {
		if rc.TypeIdx < 0 || rc.TypeIdx >= len(c12Menu) {
			return v, fmt.Errorf("bad type index %d", rc.TypeIdx)
		}
		g := &c12Gen{r: vh.NewRand(rc.Seed), nilPtr: rc.NilPtr, nilCont: rc.NilCont, budget: rc.Budget, special: rc.Special,
			share: rc.Share, unregAny: rc.UnregAny}
		v = g.gen(c12Menu[rc.TypeIdx], 0)
	}
	if len(rc.Path) > 0 {
		w, ok := c12Follow(v, rc.Path)
		if !ok {
			return v, fmt.Errorf("path %v does not exist in the regenerated value", rc.Path)
		}
		v = w
	}
	for v.Kind() == reflect.Interface && !v.IsNil() {
		v = v.Elem()
	}
	return v, nil
}

func c12MakeCase(rc c12Recipe, v reflect.Value) (*c12Case, *c12Stats) {
	cx := c12NewCtx()
	st := &c12Stats{}
	tree := cx.val(v, st, 0, 0)
	rc.TypeStr = v.Type().String()
	c := &c12Case{Mode: "rt", Recipe: rc, V: tree}
	m := map[string]any{}
	cx.fill(m)
	c.Reg, c.Kinds, c.Structs = m["reg"].([]any), m["kinds"].([]any), m["structs"].([]any)
	return c, st
}

// ---- comparing one case ----

func c12Bucket(n int) string {
	switch {
	case n == 0:
		return "0"
	case n <= 2:
		return "1-2"
	case n <= 8:
		return "3-8"
	case n <= 32:
		return "9-32"
	}
	return "33+"
}

func c12Compare(ctx *vh.Ctx, c *c12Case, v reflect.Value, st *c12Stats, impl *c12Impl, raw json.RawMessage) error {
	var model c12Model
	if err := json.Unmarshal(raw, &model); err != nil {
		return fmt.Errorf("oracle answer: %v (%s)", err, string(raw))
	}
	inU := c12InUniverse(st)
	res := ctx.Res
	res.Dist("type=" + c12ShapeTy(v.Type()))
	res.Dist("nodes=" + c12Bucket(st.nodes))
	res.Dist(fmt.Sprintf("maxPtrDepth=%d", st.maxPtr))
	res.Dist("nilPtrs=" + c12Bucket(st.nilPtrs))
	res.Dist("nilInChain=" + c12Bucket(st.nilInChain))
	res.Dist("ptrToContainer=" + c12Bucket(st.ptrToContainer))
	res.Dist("anyVals=" + c12Bucket(st.ifaceVals))
	res.Dist("mapEntries=" + c12Bucket(st.mapEntries))
	res.Dist("sliceElems=" + c12Bucket(st.sliceElems))
	res.Dist(fmt.Sprintf("inUniverse=%v", inU))
	res.Dist(fmt.Sprintf("supported(model)=%v", model.Supported))
	res.Dist("impl=" + impl.Enc + "/" + impl.Dec)
	if st.bigInt > 0 {
		res.Dist("has:int>2^53")
	}
	if st.negZero > 0 {
		res.Dist("has:-0")
	}
	if st.escapes > 0 {
		res.Dist("has:string-escapes")
	}
	if st.unenc > 0 {
		res.Dist("has:NaN/Inf/complex")
	}
	if st.unregTypes > 0 {
		res.Dist("has:unregistered-type")
	}
	if st.nestedContainer > 0 {
		res.Dist("has:nested-container")
	}
	if st.nilPtrToContainer > 0 {
		res.Dist("has:nilptr-to-container")
	}
	if st.sharedOcc > 0 {
		res.Dist("has:shared-pointer")
		res.Dist("sharedOccurrences=" + c12Bucket(st.sharedOcc))
		if model.Shared == 0 || !model.Coherent {
			res.Disagree(vh.Disagreement{Signature: "C12:oracle-inconsistent:sharing", What: "the value has a pointer at two positions but the labelled tree sent to the model is not a coherent sharing", Case: c, Model: model})
		}
	}
	if st.structKeys > 0 {
		res.Dist("has:struct-key-entries=" + c12Bucket(st.structKeys))
	}
	if st.ptrKeys > 0 {
		res.Dist("has:pointer-key-entries=" + c12Bucket(st.ptrKeys))
	}
	if st.unregNamed > 0 {
		res.Dist("has:unregistered-named-basic")
		if model.Regd {
			res.Disagree(vh.Disagreement{Signature: "C12:oracle-inconsistent:regd", What: "the value holds a leaf of an unregistered defined type but the model calls every type registered", Case: c, Model: model})
		}
	}
	key := fmt.Sprintf("%s/%d/%d/%d/%d/%d/%d/%s/%s", v.Type(), st.nodes, st.maxPtr, st.nilPtrs, st.nilInChain, st.ifaceVals, st.ptrToContainer, impl.Enc, impl.Dec)
	res.Count(key, st.nodes >= 3 && impl.Enc == "ok")
	res.Sample(map[string]any{"type": v.Type().String(), "recipe": c.Recipe, "nodes": st.nodes, "impl": impl.Enc + "/" + impl.Dec})

	small := func() (reflect.Value, c12Recipe) { return v, c.Recipe }

	// (1) the property itself, on the implementation
	if cls := c12PropClass(impl, inU); cls != "" {
		sv, path := c12Shrink(v, cls)
		rc := c.Recipe
		rc.Path = append(append([]string{}, rc.Path...), path...)
		sc, _ := c12MakeCase(rc, sv)
		simpl, _ := c12RoundTrip(sv.Interface(), true)
		shape := c12Shape(sv, cls)
		var sst c12Stats
		c12NewCtx().val(sv, &sst, 0, 0)
		if cls == "marshal-error" && sst.nestedContainer > 0 && sst.nilPtrToContainer == 0 {
			shape = "nested-container" // a container whose element type is an unregistered container type
		}
		res.Disagree(vh.Disagreement{Signature: "C12:roundtrip:" + cls + ":" + shape,
			What: fmt.Sprintf("Marshal/Unmarshal of a %s: %s (%s%s%s)", sv.Type(), cls, simpl.EncErr, simpl.DecErr, simpl.Why),
			Case: sc, Impl: simpl})
		_ = small
	}

	// (2) model vs implementation
	if model.Enc == "unmodelled" || model.Dec == "unmodelled" {
		res.Dist("model=unmodelled")
		return nil
	}
	diff := ""
	switch {
	case model.Enc != impl.Enc:
		diff = "enc-class"
	case model.Enc == "ok" && !vh.CanonEq(json.RawMessage(model.IS), impl.IS):
		diff = "is-tree"
	case model.Enc == "ok" && model.Dec != impl.Dec:
		diff = "dec-class"
	case model.Enc == "ok" && model.Dec == "ok" && (model.Ty != impl.Ty || !vh.CanonEq(json.RawMessage(model.V), impl.V)):
		diff = "value"
	}
	if diff != "" {
		res.Disagree(vh.Disagreement{Signature: "C12:model-impl:" + diff + ":" + c12ShapeVal(v),
			What: "the model and the implementation differ on " + diff + " for a " + v.Type().String(),
			Case: c, Model: model, Impl: impl})
	}
	// (3) internal consistency of the oracle with the theorems it runs
	if model.CtxOK && model.Supported && !(model.Enc == "ok" && model.Dec == "ok" && model.Sim && model.SameType) {
		res.Disagree(vh.Disagreement{Signature: "C12:oracle-inconsistent", What: "model says Supported but its own round trip is not ≈ (contradicts theorem roundtrip)", Case: c, Model: model})
	}
	if !model.CtxOK {
		res.Disagree(vh.Disagreement{Signature: "C12:ctx-not-ok", What: "the registry context sent to the model is not well-formed", Case: c, Model: model})
	}
	return nil
}

// ---- malformed stream: mutate real encoder output, decode on both sides ----

var c12Mutations = []string{"unknown-type", "unknown-struct", "extra-field", "top-null", "bump-top-pointernum", "drop-discriminator", "truncate"}

func c12Mutate(is *c12IS, kind string, r *vh.Rand) bool {
	switch kind {
	case "unknown-type":
		// first basic node found
		var walk func(n *c12IS) bool
		walk = func(n *c12IS) bool {
			if n == nil {
				return false
			}
			if n.Type != "" {
				n.Type = "c12_no_such_type"
				return true
			}
			for _, k := range c12SortedISKeys(n.MapValues) {
				if walk(n.MapValues[k]) {
					return true
				}
			}
			for _, ch := range n.SliceValues {
				if walk(ch) {
					return true
				}
			}
			return false
		}
		return walk(is)
	case "unknown-struct":
		if is.StructType == "" {
			return false
		}
		is.StructType = "c12_no_such_struct"
		return true
	case "extra-field":
		if is.StructType == "" {
			return false
		}
		if is.MapValues == nil {
			is.MapValues = map[string]*c12IS{}
		}
		is.MapValues["NoSuchField"] = &c12IS{Type: "_eino_int", JSONValue: json.RawMessage("1")}
		return true
	case "bump-top-pointernum":
		if is.Type != "" && string(is.JSONValue) == "null" {
			return false
		}
		is.PointerNum += uint32(1 + r.Intn(2))
		return true
	case "drop-discriminator":
		is.Type, is.StructType, is.MapKeyType, is.SliceValueType = "", "", "", ""
		return true
	}
	return false
}

func c12SortedISKeys(m map[string]*c12IS) []string {
	ks := make([]string, 0, len(m))
	for k := range m {
		ks = append(ks, k)
	}
	sort.Strings(ks)
	return ks
}

func c12Malformed(ctx *vh.Ctx, rc c12Recipe) error {
	v, err := c12ValueOf(&rc)
	if err != nil {
		return err
	}
	c, _ := c12MakeCase(rc, v)
	c.Mode, c.V = "dec", nil
	ctx.Progress.Mark(c)
	data, merr := serialization.Marshal(v.Interface())
	if merr != nil {
		return nil
	}
	var mutated []byte
	switch rc.Mutate {
	case "top-null":
		mutated = []byte("null")
		c.IS = json.RawMessage("null")
	case "truncate":
		mutated = data[:len(data)/2]
	default:
		is, perr := c12ParseIS(data)
		if perr != nil || is == nil {
			return nil
		}
		if !c12Mutate(is, rc.Mutate, vh.NewRand(rc.Seed)) {
			return nil
		}
		mutated, _ = json.Marshal(is)
		c.IS = c12ISTree(is)
	}
	var impl c12Impl
	impl.Enc = "ok"
	c12Decode(mutated, nil, &impl)
	ctx.Res.Dist("malformed:" + rc.Mutate + "=" + impl.Dec)
	ctx.Res.Count("malformed/"+rc.Mutate+"/"+v.Type().String()+"/"+impl.Dec, true)
	if impl.Dec == "panic" || impl.Dec == "hang" {
		// reading corrupted bytes is not the round-trip property; still: compare with the model below
		ctx.Res.Dist("malformed:panic")
	}
	if rc.Mutate == "truncate" {
		if impl.Dec != "error" {
			ctx.Res.Disagree(vh.Disagreement{Signature: "C12:malformed:truncate:" + impl.Dec, What: "truncated checkpoint bytes were not rejected with an error", Case: c, Impl: impl})
		}
		return nil
	}
	raw, err := ctx.Oracle.Ask("C12", c)
	if err != nil {
		return err
	}
	var model c12Model
	if err := json.Unmarshal(raw, &model); err != nil {
		return err
	}
	if model.Dec == "unmodelled" {
		ctx.Res.Dist("malformed:unmodelled")
		return nil
	}
	if model.Dec != impl.Dec || (model.Dec == "ok" && (model.Ty != impl.Ty || !vh.CanonEq(json.RawMessage(model.V), impl.V))) {
		ctx.Res.Disagree(vh.Disagreement{Signature: "C12:model-impl:malformed-" + rc.Mutate + ":" + c12ShapeVal(v),
			What: "decoding a mutated tree (" + rc.Mutate + "): model " + model.Dec + " " + model.Ty + ", implementation " + impl.Dec + " " + impl.Ty,
			Case: c, Model: model, Impl: impl})
	}
	return nil
}

// ---- driver ----

func c12RunBatch(ctx *vh.Ctx, recipes []c12Recipe) error {
	type item struct {
		c    *c12Case
		v    reflect.Value
		st   *c12Stats
		impl c12Impl
	}
	var items []*item
	var cases []any
	for _, rc := range recipes {
		v, err := c12ValueOf(&rc)
		if err != nil {
			return err
		}
		if !v.IsValid() || (v.Kind() == reflect.Interface && v.IsNil()) {
			continue
		}
		c, st := c12MakeCase(rc, v)
		ctx.Progress.Mark(c.Recipe)
		it := &item{c: c, v: v, st: st}
		it.impl, _ = c12RoundTrip(v.Interface(), true)
		items = append(items, it)
		cases = append(cases, c)
	}
	raws, err := ctx.Oracle.AskBatch("C12", cases)
	if err != nil {
		return err
	}
	for i, it := range items {
		if err := c12Compare(ctx, it.c, it.v, it.st, &it.impl, raws[i]); err != nil {
			return err
		}
	}
	return nil
}

func runC12(ctx *vh.Ctx) error {
	ctx.Res.Rule = "type-directed random values over a menu of registered Go types (structs with pointer depth 0-3, slices, maps with every registered key kind incl. struct keys whose entries differ in which fields are zero and pointer keys, any-typed fields/elements, named basics, recursive structs, eino's schema.Message) incl. nil at every pointer level, edge numbers/strings, shared (acyclic) pointers and unregistered defined basic types at every position; non-trivial = at least 3 value nodes and Marshal succeeded; distinct by (Go type, node count, pointer depth, nil pointers, nil-in-chain, any-held values, pointers to containers, outcome classes); registry family: sequences of GenericRegister / RegisterSerializableType calls and round trips over a pool of unregistered types and a small pool of keys, one child process per sequence; non-trivial = at least 2 calls, 1 round trip and 1 clash or repeated pair; distinct by the step list"
	if c12RegErr != nil {
		return fmt.Errorf("menu registration failed: %v", c12RegErr)
	}
	if ctx.Replay != nil {
		var probe struct {
			Mode string `json:"mode"`
		}
		_ = json.Unmarshal(ctx.Replay, &probe)
		switch probe.Mode {
		case "loud":
			c12RunLoudProbes(ctx)
			return nil
		case "registry":
			return c12RegReplay(ctx)
		case "blackbox":
			var bc c12BBCase
			if err := json.Unmarshal(ctx.Replay, &bc); err != nil {
				return err
			}
			c12BlackBox(ctx, &bc)
			return nil
		}
		var c c12Case
		if err := json.Unmarshal(ctx.Replay, &c); err != nil {
			return err
		}
		if c.Mode == "dec" || c.Recipe.Mutate != "" {
			return c12Malformed(ctx, c.Recipe)
		}
		return c12RunBatch(ctx, []c12Recipe{c.Recipe})
	}
	// fixed corpus first
	var corpus []c12Recipe
	for _, w := range append(append([]string{}, c12Witnesses...), c12EmbedWitnesses...) {
		corpus = append(corpus, c12Recipe{Witness: w})
	}
	if err := c12RunBatch(ctx, corpus); err != nil {
		return err
	}
	c12RunLoudProbes(ctx)
	// the registry as an operation sequence, one child process per case (c12_reg.go)
	if err := c12RunRegistry(ctx, ctx.N(240, 1200)); err != nil {
		return err
	}
	// black box: interrupt + resume through a checkpoint store
	bb := ctx.N(200, 3000)
	for i := 0; i < bb && ctx.TimeLeft(); i++ {
		c12BlackBox(ctx, &c12BBCase{Mode: "blackbox", StateTy: ctx.Rng.Intn(len(c12BBTypes)), Seed: ctx.Rng.U64(),
			NilPtr: []int{5, 25, 50}[ctx.Rng.Intn(3)], Budget: []int{12, 40, 120}[ctx.Rng.Intn(3)],
			Share: []int{0, 30, 60}[ctx.Rng.Intn(3)], UnregAny: []int{0, 0, 0, 10}[ctx.Rng.Intn(4)],
			Alias: ctx.Rng.Chance(15), Fan: []int{0, 0, 2, 3}[ctx.Rng.Intn(4)], AllPred: ctx.Rng.Bool()})
	}
	n := ctx.N(20000, 150000)
	const batch = 400
	for done := 0; done < n && ctx.TimeLeft(); done += batch {
		var rs []c12Recipe
		for i := 0; i < batch && done+i < n; i++ {
			rc := c12Recipe{TypeIdx: ctx.Rng.Intn(len(c12Menu)), Seed: ctx.Rng.U64(),
				NilPtr: []int{5, 25, 50}[ctx.Rng.Intn(3)], NilCont: []int{0, 0, 0, 0, 2, 30}[ctx.Rng.Intn(6)],
				Budget: []int{12, 40, 120, 300}[ctx.Rng.Intn(4)], Special: ctx.Rng.Chance(5),
				Share: []int{0, 0, 25, 60}[ctx.Rng.Intn(4)], UnregAny: []int{0, 0, 0, 0, 3, 12}[ctx.Rng.Intn(6)]}
			rs = append(rs, rc)
		}
		if err := c12RunBatch(ctx, rs); err != nil {
			return err
		}
	}
	var missing []string
	for n := range c12UnregSeen {
		if strings.HasPrefix(n, "schema.") {
			missing = append(missing, n)
		}
	}
	sort.Strings(missing)
	if len(missing) > 0 {
		ctx.Res.Note("observation (loud, within the property): eino types reachable from the registered schema.Message / schema.Document but not registered themselves, so a message using them cannot be checkpointed (Marshal answers `unknown type`): " + strings.Join(missing, ", "))
	}
	// malformed stream
	m := ctx.N(300, 4000)
	for i := 0; i < m && ctx.TimeLeft(); i++ {
		rc := c12Recipe{TypeIdx: ctx.Rng.Intn(len(c12Menu)), Seed: ctx.Rng.U64(), NilPtr: 25, Budget: 30,
			Mutate: c12Mutations[ctx.Rng.Intn(len(c12Mutations))], Share: []int{0, 40}[ctx.Rng.Intn(2)]}
		if err := c12Malformed(ctx, rc); err != nil {
			return err
		}
	}
	return nil
}
