//go:build verif && (vh_all || vh_c07)

package props

// C07 — two more places where a declared type is decided:
//
//   * state handlers (compose/graph.go addNode): WithStatePreHandler / WithStatePostHandler and the
//     stream forms must be declared on the node's input / output type itself (identity – no
//     run-time check stands between a handler and its node).  c07PairCase shapes "pre-handler" /
//     "post-handler": for every ordered pair (A, B) a node A -> A with a handler on B; random
//     graphs get a handler retyped now and then (c07TweakHandler);
//   * WithInputKey / WithOutputKey (compose/graph_node.go inputType / outputType): the node's
//     declared type on that side is map[string]any, for a lambda and for a graph used as a node
//     (AddGraphNode) alike.  c07KeyedCases: for every menu type A a keyed node behind START(A), a
//     pass-through or a branch, and in front of END(A); c07GenKeyed: random linear graphs of
//     lambdas / sub-graphs / pass-through nodes with and without keys.  These graphs are linear,
//     so every run is also made through Stream (output drained) and must end in the same class.
//
// Values under a key: every map that reaches a keyed node here holds a string under "k" and the
// inner input type of a keyed node is string or any – what is *inside* a map[string]any is not
// a declared type and not this property's subject.

import (
	"context"
	"fmt"

	"github.com/cloudwego/eino/compose"
	"github.com/cloudwego/eino/schema"
	"github.com/cloudwego/eino/verifharness/vh"
)

func c07RegStreamHandler[T, S any](t string, s int) {
	k := fmt.Sprintf("%s/%d", t, s)
	c20StreamPres[k] = func() compose.GraphAddNodeOpt {
		return compose.WithStreamStatePreHandler(func(ctx context.Context, in *schema.StreamReader[T], st S) (*schema.StreamReader[T], error) {
			return in, nil
		})
	}
	c20StreamPosts[k] = func() compose.GraphAddNodeOpt {
		return compose.WithStreamStatePostHandler(func(ctx context.Context, out *schema.StreamReader[T], st S) (*schema.StreamReader[T], error) {
			return out, nil
		})
	}
}

func c07RegStreamHandlers[T any](t string) {
	c07RegStreamHandler[T, *c20StA](t, 0)
	c07RegStreamHandler[T, *c20StB](t, 1)
}

func init() {
	c07RegStreamHandlers[string]("c0")
	c07RegStreamHandlers[int]("c1")
	c07RegStreamHandlers[c20S]("c2")
	c07RegStreamHandlers[c20ImplA]("c3")
	c07RegStreamHandlers[c20ImplB]("c4")
	c07RegStreamHandlers[map[string]any]("c5")
	c07RegStreamHandlers[c07MyMap]("c6")
	c07RegStreamHandlers[[]int]("c7")
	c07RegStreamHandlers[c07Ints]("c8")
	c07RegStreamHandlers[c07MyStr]("c9")
	c07RegStreamHandlers[func(int) int]("c10")
	c07RegStreamHandlers[c07Fn]("c11")
	c07RegStreamHandlers[chan int]("c12")
	c07RegStreamHandlers[<-chan int]("c13")
	c07RegStreamHandlers[c20I0]("i0")
	c07RegStreamHandlers[c20I1]("i1")
	c07RegStreamHandlers[any]("any")
}

// ---- state handlers ----

// c07HandlerCase: START(A) -> b(A -> A, handler on B) -> END(A), with a state
func c07HandlerCase(shape, a, b string, stream bool) *c20Case {
	st := 0
	c := &c20Case{Stream: "graph", Cmp: "graph", Impl: c07Impl(), InT: a, OutT: a, State: &st,
		Inject: "pair:" + shape + ":" + a + ">" + b}
	n := c20Op{Op: "node", Key: "b", In: a, Out: a, Dyn: c20FirstInhabitant(a)}
	h := &c20Handler{S: 0, T: b, Stream: stream}
	if shape == "pre-handler" {
		n.Pre = h
	} else {
		n.Post = h
	}
	c.Ops = []c20Op{n, {Op: "edge", S: "start", E: "b"}, {Op: "edge", S: "b", E: "end"}, {Op: "compile"}}
	return c
}

func c07HandlerCases() []*c20Case {
	var out []*c20Case
	for i, a := range c07AllNames {
		for j, b := range c07AllNames {
			out = append(out, c07HandlerCase("pre-handler", a, b, (i+j)%2 == 1))
			out = append(out, c07HandlerCase("post-handler", a, b, (i+j)%2 == 0))
		}
	}
	return out
}

// c07TweakHandler: give one lambda of a random graph a pre / post handler declared on a type
// related to (or just different from) the node's own
func c07TweakHandler(r *vh.Rand, c *c20Case) {
	var idx []int
	for i, o := range c.Ops {
		if o.Op == "node" && !o.PT {
			idx = append(idx, i)
		}
	}
	if len(idx) == 0 {
		return
	}
	if c.State == nil {
		s := r.Intn(2)
		c.State = &s
	}
	o := &c.Ops[idx[r.Intn(len(idx))]]
	side := o.In
	if r.Bool() {
		side = o.Out
	}
	t := c20CompatibleIn(r, side) // 70% the same type, else one assignable either way
	if r.Chance(15) {
		t = c20Pick(r, c20TyNames)
	}
	h := &c20Handler{S: *c.State, T: t, Stream: r.Chance(35)}
	if side == o.In && r.Bool() {
		o.Pre = h
	} else if side == o.Out {
		o.Post = h
	} else {
		o.Pre = h
	}
	if c.Inject == "" {
		c.Inject = "handler-retyped"
	}
}

// ---- input / output keys, graphs as nodes ----

func c07KeyedNode(key string, sub, inKey, outKey bool, in, out, dyn string) c20Op {
	op := c20Op{Op: "node", Key: key, Sub: sub, InKey: inKey, OutKey: outKey, In: in, Out: out, Dyn: dyn}
	if outKey {
		op.IDyn = dyn
		op.Dyn = "c5"
	}
	return op
}

func c07KeyedCases() []*c20Case {
	var out []*c20Case
	edge := func(s, e string) c20Op { return c20Op{Op: "edge", S: s, E: e} }
	pt := func(k string) c20Op { return c20Op{Op: "node", Key: k, PT: true} }
	mk := func(shape, a, b, inT, outT string) *c20Case {
		return &c20Case{Stream: "graph", Cmp: "graph", Impl: c07Impl(), InT: inT, OutT: outT, SRuns: true,
			Inject: "pair:" + shape + ":" + a + ">" + b}
	}
	for _, a := range c07AllNames {
		for _, sub := range []bool{false, true} {
			tag := ""
			if sub {
				tag = "-sub"
			}
			for _, inner := range []string{"c0", "any"} {
				// the keyed node takes map[string]any whatever is inside it
				c := mk("key-in"+tag, a, "c5", a, "c0")
				c.Ops = []c20Op{c07KeyedNode("s", sub, true, false, inner, "c0", "c0"), edge("start", "s"), edge("s", "end"), {Op: "compile"}}
				out = append(out, c)
				c = mk("key-in-pt"+tag, a, "c5", a, "c0")
				c.Ops = []c20Op{pt("p"), c07KeyedNode("s", sub, true, false, inner, "c0", "c0"), edge("start", "p"), edge("p", "s"), edge("s", "end"), {Op: "compile"}}
				out = append(out, c)
				c = mk("key-in-branch"+tag, a, "c5", a, "c0")
				c.Ops = []c20Op{c07KeyedNode("s", sub, true, false, inner, "c0", "c0"), c07KeyedNode("t", sub, true, false, inner, "c0", "c0"),
					{Op: "branch", S: "start", T: a, Ends: []string{"s", "t"}, Pick: "s"}, edge("s", "end"), edge("t", "end"), {Op: "compile"}}
				out = append(out, c)
			}
			// the keyed node produces map[string]any
			c := mk("key-out"+tag, "c5", a, "c0", a)
			c.Ops = []c20Op{c07KeyedNode("s", sub, false, true, "c0", "c0", "c0"), edge("start", "s"), edge("s", "end"), {Op: "compile"}}
			out = append(out, c)
			c = mk("key-out-pt"+tag, "c5", a, "c0", a)
			c.Ops = []c20Op{pt("p"), c07KeyedNode("s", sub, false, true, "c0", "c0", "c0"), edge("start", "s"), edge("s", "p"), edge("p", "end"), {Op: "compile"}}
			out = append(out, c)
		}
	}
	return out
}

// c07GenKeyed: START -> n0 -> … -> END, each node a lambda, a graph used as a node or a
// pass-through node; lambdas and graphs with / without WithInputKey, WithOutputKey
func c07GenKeyed(r *vh.Rand) *c20Case {
	c := &c20Case{Stream: "graph", Cmp: "graph", Impl: c07Impl(), SRuns: true, Inject: "keyed"}
	few := []string{"c0", "c5", "c5", "any", "c6", "c1", "i0"}
	c.InT = c20Pick(r, few)
	n := r.Range(1, 4)
	cur := c.InT // declared type arriving
	var nodeOps, linkOps []c20Op
	prev := "start"
	names := []string{"a", "b", "c", "d"}
	for i := 0; i < n; i++ {
		key := names[i]
		if r.Chance(15) {
			nodeOps = append(nodeOps, c20Op{Op: "node", Key: key, PT: true})
			linkOps = append(linkOps, c20Op{Op: "edge", S: prev, E: key})
			prev = key
			continue
		}
		sub := r.Chance(50)
		inKey := r.Chance(35) || (cur == "c5" && r.Chance(40))
		outKey := r.Chance(30)
		var in, out, dyn string
		if inKey {
			in = c20Pick(r, []string{"c0", "any"})
		} else if r.Chance(75) {
			in = cur
		} else {
			in = c20Pick(r, few)
		}
		if outKey {
			out = c20Pick(r, []string{"c0", "any"})
			dyn = "c0"
		} else {
			out = c20Pick(r, few)
			dyn = c07DynFor(r, out)
		}
		op := c07KeyedNode(key, sub, inKey, outKey, in, out, dyn)
		nodeOps = append(nodeOps, op)
		linkOps = append(linkOps, c20Op{Op: "edge", S: prev, E: key})
		prev = key
		cur = out
		if outKey {
			cur = "c5"
		}
	}
	linkOps = append(linkOps, c20Op{Op: "edge", S: prev, E: "end"})
	if r.Chance(80) {
		c.OutT = cur
	} else {
		c.OutT = c20Pick(r, few)
	}
	p := r.Perm(len(linkOps))
	ops := append([]c20Op{}, nodeOps...)
	for _, j := range p {
		ops = append(ops, linkOps[j])
	}
	comp := c20Op{Op: "compile"}
	if r.Chance(30) {
		comp.Mode = "all"
	}
	c.Ops = append(ops, comp)
	return c
}
