//go:build verif && (vh_all || vh_c10)

package props

// C10, case kind "builtin" — the shipped components that fire their callbacks THEMSELVES, with
// a fault at each point of their execution.
//
// The graph injects node-level callbacks only for components that do not fire their own; for
// the others nobody but the component reports the unit.  A case is a graph
//
//	START → n₁ ∥ … ∥ n_k → join → END        (Graph[map[string]any, string], pregel | dag)
//
// whose nodes are
//
//	tpl     a components/prompt.DefaultChatTemplate (FString | GoTemplate | Jinja2) over 0-4
//	        message templates: messages, placeholders (present / optional+absent / missing /
//	        ill-typed value), custom schema.MessagesTemplate values; any of them may fail to
//	        format (missing variable, template that does not parse, missing placeholder, …)
//	router  a flow/retriever/router retriever: Router function ok / error / selects nothing /
//	        selects an unregistered name / not configured (default), 1-3 selected retrievers each
//	        ok / error / panic (they meet at a barrier: ConcurrentRetrieveWithCallback really
//	        runs them concurrently), FusionFunc default / custom / failing
//	mq      a flow/retriever/multiquery retriever: RewriteHandler (ok / error) or RewriteLLM
//	        (default or custom RewriteTemplate — a DefaultChatTemplate inside the rewriting chain
//	        inside the node —, chat model ok / error, default or custom or failing parser), 0-6
//	        queries each ok / error / panic, MaxQueriesNum truncation, FusionFunc default /
//	        custom / failing
//	lam     a plain lambda (ok / error)
//	graph   a nested graph of the same form (tpl / lam inside)
//
// run with Invoke or Stream and with recording handlers supplied globally / in the caller's
// context / in undesignated options / designated to node paths.  The Lean side
// (EinoV/Model/C10Builtin.lean, bUnits) lists the execution units of the run and the callbacks
// each issues; the unit machine computes what every handler must receive.  Compared per run
// info: the callbacks of each handler (several units of one run can carry the same run info —
// the tasks of a multi-query retriever — then as multisets), the run's outcome, the flow's
// result against a handler-free run, and the oracle-independent pairing predicate.

import (
	"context"
	"encoding/json"
	"errors"
	"fmt"
	"sort"
	"strings"
	"time"

	"github.com/cloudwego/eino/callbacks"
	"github.com/cloudwego/eino/components/model"
	"github.com/cloudwego/eino/components/prompt"
	"github.com/cloudwego/eino/components/retriever"
	"github.com/cloudwego/eino/compose"
	"github.com/cloudwego/eino/flow/retriever/multiquery"
	"github.com/cloudwego/eino/flow/retriever/router"
	icb "github.com/cloudwego/eino/internal/callbacks"
	"github.com/cloudwego/eino/schema"
	"github.com/cloudwego/eino/verifharness/vh"
)

func init() {
	c10Extra = append(c10Extra, c10Family{
		Kind: "builtin",
		Rule: "builtin: START→1-3 parallel nodes→join, nodes = DefaultChatTemplate (f|go|jinja, 0-4 message templates: message / placeholder / custom, any of them failing: missing variable, syntax, missing or ill-typed placeholder, custom error) | router retriever (route ok/err/none/unknown/default, 1-3 selected retrievers ok/err/panic at a barrier, fusion default/custom/failing) | multi-query retriever (rewrite handler ok/err or LLM chain with default/custom template, model, parser faults; 0-6 queries ok/err/panic; max-queries truncation; fusion) | lambda ok/err | nested graph, invoke|stream, pregel|dag, handlers global / caller context / undesignated / designated; units from the Lean model bUnits; non-trivial = ≥1 self-firing component and ≥1 handler source; distinct by shape+fault positions+handler-supply signature",
		Fixed: c10bFixed,
		Gen:   func(r *vh.Rand) any { return c10bGen(r) },
		Parse: func(raw []byte) (any, error) {
			var c c10bCase
			if err := json.Unmarshal(raw, &c); err != nil {
				return nil, err
			}
			return &c, nil
		},
		One: func(ctx *vh.Ctx, c any) error { return c10bOne(ctx, c.(*c10bCase)) },
	})
}

// ---------------------------------------------------------------- case language

// one message template of a chat template
type c10bMsg struct {
	K    string `json:"k"`              // msg | ph | custom
	Fail string `json:"fail,omitempty"` // "" | var | syntax (msg) | missing | type (ph) | err (custom)
	Opt  bool   `json:"opt,omitempty"`  // ph: optional placeholder whose key is absent (formats to nothing)
}

type c10bTask struct {
	Type string `json:"type"` // GetType() of the retriever
	Out  string `json:"out"`  // ok | err | panic
}

type c10bNode struct {
	Key string `json:"key"`
	NK  string `json:"nk"` // tpl | router | mq | lam | graph
	// tpl, and the custom rewrite template of mq/llm.  Fails is what the model is told
	// (Fails[i] = message template i fails), Msgs how the implementation side builds it.
	Fails  []bool    `json:"fails"`
	Format string    `json:"format,omitempty"` // f | go | jinja
	Msgs   []c10bMsg `json:"msgs,omitempty"`
	// router
	Route        string     `json:"route,omitempty"` // ok | err | none | unknown | default
	Children     []c10bTask `json:"children,omitempty"`
	Others       int        `json:"others,omitempty"` // registered retrievers the route does not select
	FusionFails  bool       `json:"fusionFails,omitempty"`
	CustomFusion bool       `json:"customFusion,omitempty"`
	// mq
	Rewrite      string   `json:"rewrite,omitempty"` // handler | llm
	RewriteFails bool     `json:"rewriteFails,omitempty"`
	CustomTpl    bool     `json:"customTpl,omitempty"`
	ModelFails   bool     `json:"modelFails,omitempty"`
	ParserFails  bool     `json:"parserFails,omitempty"`
	CustomParser bool     `json:"customParser,omitempty"`
	OrigType     string   `json:"origType,omitempty"`
	Queries      []string `json:"queries,omitempty"` // outcome of each query that is retrieved (after truncation)
	Extra        int      `json:"extra,omitempty"`   // queries produced beyond MaxQueriesNum
	Max          int      `json:"max,omitempty"`     // MaxQueriesNum (0 = default 5)
	// lam
	Fail bool `json:"fail,omitempty"`
	// graph
	Inner []c10bNode `json:"inner,omitempty"`
}

type c10bCase struct {
	Kind     string       `json:"kind"` // "builtin"
	Mode     string       `json:"mode"`
	Paradigm string       `json:"paradigm"`
	Globals  []c10Hd      `json:"globals"`
	UserInit *c10UserInit `json:"userInit,omitempty"`
	Opts     []c10Opt     `json:"opts"`
	Nodes    []c10bNode   `json:"nodes"`
}

// ---------------------------------------------------------------- the components

var errC10b = errors.New("c10 builtin fault")

type c10bCustomTpl struct{ fail bool }

func (t c10bCustomTpl) Format(_ context.Context, _ map[string]any, _ schema.FormatType) ([]*schema.Message, error) {
	if t.fail {
		return nil, errC10b
	}
	return []*schema.Message{schema.SystemMessage("custom")}, nil
}

func c10bFormatType(f string) schema.FormatType {
	switch f {
	case "go":
		return schema.GoTemplate
	case "jinja":
		return schema.Jinja2
	}
	return schema.FString
}

// the message template of spec m in format f; v = the variable the input map has a string under
// (a node-level template: "a"; the rewrite template: the QueryVar), hist = the key it has
// messages under ("" = none)
func c10bMsgTemplate(f string, m c10bMsg, v, hist string) schema.MessagesTemplate {
	ref := func(name string) string {
		switch f {
		case "go":
			return "say {{." + name + "}}"
		case "jinja":
			return "say {{" + name + "}}"
		}
		return "say {" + name + "}"
	}
	switch m.K {
	case "ph":
		switch {
		case m.Fail == "type":
			return schema.MessagesPlaceholder(v, false) // a string, not messages
		case m.Fail == "missing":
			return schema.MessagesPlaceholder("no-such-key", false)
		case m.Opt || hist == "":
			return schema.MessagesPlaceholder("no-such-key", true)
		}
		return schema.MessagesPlaceholder(hist, false)
	case "custom":
		return c10bCustomTpl{fail: m.Fail != ""}
	}
	switch m.Fail {
	case "var":
		return schema.UserMessage(ref("nosuchvar"))
	case "syntax":
		switch f {
		case "go":
			return schema.UserMessage("say {{")
		case "jinja":
			return schema.UserMessage("say {% if %}")
		}
		return schema.UserMessage("say {" + v)
	}
	return schema.UserMessage(ref(v))
}

func c10bChatTemplate(f string, msgs []c10bMsg, v, hist string) prompt.ChatTemplate {
	ts := make([]schema.MessagesTemplate, 0, len(msgs))
	for _, m := range msgs {
		ts = append(ts, c10bMsgTemplate(f, m, v, hist))
	}
	return prompt.FromMessages(c10bFormatType(f), ts...)
}

// a retriever whose outcome is fixed (router children) or encoded in the query (multi-query)
type c10bRetriever struct {
	typ string
	out string // "" = taken from the query "<text>:<outcome>"
	b   *c10Barrier
}

func (r *c10bRetriever) GetType() string { return r.typ }
func (r *c10bRetriever) Retrieve(_ context.Context, q string, _ ...retriever.Option) ([]*schema.Document, error) {
	r.b.wait()
	out := r.out
	if out == "" {
		if i := strings.LastIndex(q, ":"); i >= 0 {
			out = q[i+1:]
		}
	}
	switch out {
	case "err":
		return nil, errC10b
	case "panic":
		panic("c10 builtin retriever panic")
	}
	return []*schema.Document{{ID: r.typ + "/" + q, Content: "doc"}}, nil
}

type c10bChatModel struct {
	content string
	fail    bool
}

func (m *c10bChatModel) GetType() string { return "CM" }
func (m *c10bChatModel) Generate(_ context.Context, _ []*schema.Message, _ ...model.Option) (*schema.Message, error) {
	if m.fail {
		return nil, errC10b
	}
	return schema.AssistantMessage(m.content, nil), nil
}
func (m *c10bChatModel) Stream(_ context.Context, _ []*schema.Message, _ ...model.Option) (*schema.StreamReader[*schema.Message], error) {
	if m.fail {
		return nil, errC10b
	}
	return schema.StreamReaderFromArray([]*schema.Message{schema.AssistantMessage(m.content, nil)}), nil
}
func (m *c10bChatModel) BindTools(_ []*schema.ToolInfo) error { return nil }

func c10bDocIDs(docs []*schema.Document) string {
	ids := make([]string, 0, len(docs))
	for _, d := range docs {
		if d != nil {
			ids = append(ids, d.ID)
		}
	}
	sort.Strings(ids)
	return strings.Join(ids, ",")
}

func c10bRouter(n c10bNode) (retriever.Retriever, error) {
	cfg := &router.Config{Retrievers: map[string]retriever.Retriever{}}
	b := c10NewBarrier(len(n.Children))
	var names []string
	for i, ch := range n.Children {
		name := fmt.Sprintf("c%d", i)
		names = append(names, name)
		cfg.Retrievers[name] = &c10bRetriever{typ: ch.Type, out: ch.Out, b: b}
	}
	for i := 0; i < n.Others; i++ {
		cfg.Retrievers[fmt.Sprintf("o%d", i)] = &c10bRetriever{typ: fmt.Sprintf("R%so%d", n.Key, i), out: "ok"}
	}
	switch n.Route {
	case "ok":
		cfg.Router = func(context.Context, string) ([]string, error) { return names, nil }
	case "err":
		cfg.Router = func(context.Context, string) ([]string, error) { return nil, errC10b }
	case "none":
		cfg.Router = func(context.Context, string) ([]string, error) { return []string{}, nil }
	case "unknown":
		cfg.Router = func(context.Context, string) ([]string, error) {
			return append(append([]string{}, names...), "not-registered"), nil
		}
	case "default":
		// Config.Router left nil: NewRetriever supplies "all registered retrievers"
	}
	if n.CustomFusion || n.FusionFails {
		fails := n.FusionFails
		cfg.FusionFunc = func(_ context.Context, res map[string][]*schema.Document) ([]*schema.Document, error) {
			if fails {
				return nil, errC10b
			}
			var out []*schema.Document
			for _, ds := range res {
				out = append(out, ds...)
			}
			return out, nil
		}
	}
	return router.NewRetriever(context.Background(), cfg)
}

func c10bMultiQuery(n c10bNode) (retriever.Retriever, error) {
	b := c10NewBarrier(len(n.Queries))
	cfg := &multiquery.Config{OrigRetriever: &c10bRetriever{typ: n.OrigType, b: b}, MaxQueriesNum: n.Max}
	var produced []string
	for i, q := range n.Queries {
		produced = append(produced, fmt.Sprintf("q%d:%s", i, q))
	}
	for i := 0; i < n.Extra; i++ {
		produced = append(produced, fmt.Sprintf("x%d:panic", i)) // beyond MaxQueriesNum: must never be retrieved
	}
	if produced == nil {
		produced = []string{}
	}
	if n.Rewrite == "handler" {
		fails := n.RewriteFails
		cfg.RewriteHandler = func(context.Context, string) ([]string, error) {
			if fails {
				return nil, errC10b
			}
			return produced, nil
		}
	} else {
		cfg.RewriteLLM = &c10bChatModel{content: strings.Join(produced, "\n"), fail: n.ModelFails}
		if n.CustomTpl {
			cfg.RewriteTemplate = c10bChatTemplate(n.Format, n.Msgs, "q", "")
			cfg.QueryVar = "q"
		}
		if n.CustomParser || n.ParserFails {
			fails := n.ParserFails
			cfg.LLMOutputParser = func(context.Context, *schema.Message) ([]string, error) {
				if fails {
					return nil, errC10b
				}
				return produced, nil
			}
		}
	}
	if n.CustomFusion || n.FusionFails {
		fails := n.FusionFails
		cfg.FusionFunc = func(_ context.Context, res [][]*schema.Document) ([]*schema.Document, error) {
			if fails {
				return nil, errC10b
			}
			var out []*schema.Document
			for _, ds := range res {
				out = append(out, ds...)
			}
			return out, nil
		}
	}
	return multiquery.NewRetriever(context.Background(), cfg)
}

func c10bJoin() *compose.Lambda {
	return compose.InvokableLambda(func(_ context.Context, in map[string]any) (string, error) {
		keys := make([]string, 0, len(in))
		for k := range in {
			keys = append(keys, k)
		}
		sort.Strings(keys)
		var sb strings.Builder
		for _, k := range keys {
			var v string
			switch x := in[k].(type) {
			case []*schema.Message:
				var ps []string
				for _, m := range x {
					if m != nil {
						ps = append(ps, string(m.Role)+":"+m.Content)
					}
				}
				v = strings.Join(ps, ";")
			case []*schema.Document:
				v = c10bDocIDs(x)
			default:
				v = fmt.Sprint(x)
			}
			sb.WriteString("[" + k + "=" + v + "]")
		}
		return sb.String(), nil
	}, compose.WithLambdaType("Li"))
}

// START → nodes (parallel) → join → END below `prefix`
func c10bGraph(prefix []string, nodes []c10bNode, mode string) (*compose.Graph[map[string]any, string], error) {
	g := compose.NewGraph[map[string]any, string]()
	jpath := append(append([]string{}, prefix...), "join")
	if err := g.AddLambdaNode("join", c10bJoin(), compose.WithNodeName(c10NodeName(jpath))); err != nil {
		return nil, err
	}
	for _, n := range nodes {
		path := append(append([]string{}, prefix...), n.Key)
		opts := []compose.GraphAddNodeOpt{compose.WithNodeName(c10NodeName(path)), compose.WithOutputKey(n.Key)}
		var err error
		switch n.NK {
		case "tpl":
			err = g.AddChatTemplateNode(n.Key, c10bChatTemplate(n.Format, n.Msgs, "a", "hist"), opts...)
		case "router":
			r, e := c10bRouter(n)
			if e != nil {
				return nil, e
			}
			err = g.AddRetrieverNode(n.Key, r, append(opts, compose.WithInputKey("query"))...)
		case "mq":
			r, e := c10bMultiQuery(n)
			if e != nil {
				return nil, e
			}
			err = g.AddRetrieverNode(n.Key, r, append(opts, compose.WithInputKey("query"))...)
		case "graph":
			sub, e := c10bGraph(path, n.Inner, mode)
			if e != nil {
				return nil, e
			}
			if mode == "dag" {
				opts = append(opts, compose.WithGraphCompileOptions(compose.WithNodeTriggerMode(compose.AllPredecessor)))
			}
			err = g.AddGraphNode(n.Key, sub, opts...)
		default:
			nn := n
			err = g.AddLambdaNode(n.Key, compose.InvokableLambda(func(_ context.Context, in map[string]any) (string, error) {
				if nn.Fail {
					return "", errC10b
				}
				return fmt.Sprint(in["a"]) + ">" + nn.Key, nil
			}, compose.WithLambdaType("Li")), opts...)
		}
		if err != nil {
			return nil, err
		}
		if err = g.AddEdge(compose.START, n.Key); err != nil {
			return nil, err
		}
		if err = g.AddEdge(n.Key, "join"); err != nil {
			return nil, err
		}
	}
	if err := g.AddEdge("join", compose.END); err != nil {
		return nil, err
	}
	return g, nil
}

// ---------------------------------------------------------------- running

type c10bObs struct {
	Class    string              `json:"class"` // ok | error | panic:… | hang | build:…
	Out      string              `json:"out"`
	RefClass string              `json:"refClass"`
	RefOut   string              `json:"refOut"`
	Units    map[string][][2]int `json:"units"`
	Payloads map[string][]string `json:"payloads,omitempty"`
}

func c10bExec(c *c10bCase, withHandlers bool) (out, class string, rec *c10Rec) {
	rec = &c10Rec{}
	saved := icb.GlobalHandlers
	defer func() { icb.GlobalHandlers = saved }()
	callbacks.InitCallbackHandlers(nil)
	ctx := context.Background()
	copts := []compose.GraphCompileOption{compose.WithGraphName("G")}
	if c.Mode == "dag" {
		copts = append(copts, compose.WithNodeTriggerMode(compose.AllPredecessor))
	}
	var opts []compose.Option
	if withHandlers {
		if len(c.Globals) > 0 {
			callbacks.AppendGlobalHandlers(c10MkAll(c.Globals, rec)...)
		}
		if c.UserInit != nil {
			backing := make([]callbacks.Handler, len(c.UserInit.Hs)+c.UserInit.Spare)
			copy(backing, c10MkAll(c.UserInit.Hs, rec))
			for i := len(c.UserInit.Hs); i < len(backing); i++ {
				backing[i] = c10Mk(c10Hd{ID: 0}, rec)
			}
			ctx = callbacks.InitCallbacks(ctx, &callbacks.RunInfo{Name: "caller"}, backing[:len(c.UserInit.Hs)]...)
		}
		opts = append(opts, c10CallOpts(&c10Compose{Opts: c.Opts}, rec)...)
	}
	var runErr error
	finished := false
	panicked, pv := vh.Safely(func() {
		finished = vh.WithTimeout(40*time.Second, func() {
			g, err := c10bGraph(nil, c.Nodes, c.Mode)
			if err != nil {
				class = "build:" + err.Error()
				return
			}
			r, err := g.Compile(ctx, copts...)
			if err != nil {
				class = "build:" + err.Error()
				return
			}
			in := map[string]any{"query": "the query", "a": "A",
				"hist": []*schema.Message{schema.UserMessage("earlier"), schema.AssistantMessage("reply", nil)}}
			if c.Paradigm == "stream" {
				var sr *schema.StreamReader[string]
				sr, runErr = r.Stream(ctx, in, opts...)
				if runErr == nil {
					out, runErr = c10ReadAll(sr)
				}
			} else {
				out, runErr = r.Invoke(ctx, in, opts...)
			}
		})
	})
	switch {
	case panicked:
		class = fmt.Sprint("panic:", pv)
	case !finished:
		class = "hang"
	case class != "":
	case runErr != nil:
		class = "error"
	default:
		class = "ok"
	}
	vh.WithTimeout(20*time.Second, func() { rec.wg.Wait() })
	return
}

func c10bRun(c *c10bCase) *c10bObs {
	o := &c10bObs{Units: map[string][][2]int{}, Payloads: map[string][]string{}}
	o.RefOut, o.RefClass, _ = c10bExec(c, false)
	var rec *c10Rec
	o.Out, o.Class, rec = c10bExec(c, true)
	rec.mu.Lock()
	defer rec.mu.Unlock()
	addP := func(k, p string) {
		for _, q := range o.Payloads[k] {
			if q == p {
				return
			}
		}
		o.Payloads[k] = append(o.Payloads[k], p)
	}
	for _, e := range rec.evs {
		o.Units[e.Info] = append(o.Units[e.Info], [2]int{e.H, e.T})
	}
	for k, ps := range rec.streams {
		for _, p := range ps {
			addP(k, p)
		}
	}
	for k := range o.Payloads {
		sort.Strings(o.Payloads[k])
	}
	return o
}

type c10bModelUnit struct {
	Info     string   `json:"info"`
	Ev       [][2]int `json:"ev"`
	Handlers []int    `json:"handlers"`
	Path     []string `json:"path"`
}

type c10bModel struct {
	Outcome string          `json:"outcome"`
	Units   []c10bModelUnit `json:"units"`
	CbsLen  int             `json:"cbsLen"`
	CbsCap  int             `json:"cbsCap"`
}

// which node of the case a unit belongs to, and its role inside the node:
// "tpl/node", "router/route", "mq/task", "mq/rewrite-node", "graph/node", "root/node", "lam/node" …
func c10bOwner(c *c10bCase, path []string) string {
	if len(path) == 0 {
		return "root/node"
	}
	nodes := c.Nodes
	nk := "?"
	var owner *c10bNode
	rest := path
	for len(rest) > 0 {
		found := false
		for i := range nodes {
			if n := nodes[i]; n.Key == rest[0] {
				owner = &nodes[i]
				nk, nodes, rest, found = n.NK, n.Inner, rest[1:], true
				break
			}
		}
		if !found {
			break
		}
		if nk != "graph" {
			break
		}
	}
	if owner != nil && owner.NK == "router" && owner.Route == "default" {
		nk = "router-default" // Config.Router nil: the route is the one NewRetriever supplies
	}
	if len(rest) == 0 {
		return nk + "/node"
	}
	if rest[0] == "join" {
		return "join/node"
	}
	last := rest[len(rest)-1]
	switch {
	case last == "#route":
		return nk + "/route"
	case last == "#fusion":
		return nk + "/fusion"
	case strings.HasPrefix(last, "#task"):
		return nk + "/task"
	case last == "QueryRewrite":
		return nk + "/rewrite-chain"
	case strings.HasPrefix(last, "node_"):
		return nk + "/rewrite-node"
	}
	return nk + "/?"
}

func c10bNodeKey(n c10bNode) string {
	switch n.NK {
	case "tpl":
		var ms []string
		for _, m := range n.Msgs {
			s := m.K
			if m.Opt {
				s += "?"
			}
			if m.Fail != "" {
				s += "!" + m.Fail
			}
			ms = append(ms, s)
		}
		return "tpl:" + n.Format + "(" + strings.Join(ms, ",") + ")"
	case "router":
		var cs []string
		for _, ch := range n.Children {
			cs = append(cs, ch.Out)
		}
		f := ""
		if n.CustomFusion {
			f = "+cf"
		}
		if n.FusionFails {
			f = "+ff"
		}
		return fmt.Sprintf("router:%s(%s)+%d%s", n.Route, strings.Join(cs, ","), n.Others, f)
	case "mq":
		rw := n.Rewrite
		if n.RewriteFails {
			rw += "!"
		}
		if n.Rewrite == "llm" {
			t := n
			t.NK = "tpl"
			if n.CustomTpl {
				rw += "[" + c10bNodeKey(t) + "]"
			}
			if n.ModelFails {
				rw += "!model"
			}
			if n.ParserFails {
				rw += "!parser"
			} else if n.CustomParser {
				rw += "+cp"
			}
		}
		f := ""
		if n.CustomFusion {
			f = "+cf"
		}
		if n.FusionFails {
			f = "+ff"
		}
		return fmt.Sprintf("mq:%s(%s)max%d+%d%s", rw, strings.Join(n.Queries, ","), n.Max, n.Extra, f)
	case "graph":
		var in []string
		for _, m := range n.Inner {
			in = append(in, c10bNodeKey(m))
		}
		return "graph(" + strings.Join(in, "∥") + ")"
	}
	if n.Fail {
		return "lam!"
	}
	return "lam"
}

func c10bOne(ctx *vh.Ctx, c *c10bCase) error {
	ctx.Progress.Mark(c)
	raw, err := ctx.Oracle.Ask("C10", c)
	if err != nil {
		return err
	}
	var mdl c10bModel
	if err := json.Unmarshal(raw, &mdl); err != nil {
		return err
	}
	impl := c10bRun(c)

	nDesig, nUndes := 0, 0
	masked := map[int]bool{}
	for _, o := range c.Opts {
		if len(o.Paths) > 0 {
			nDesig++
		} else {
			nUndes++
		}
		for _, h := range o.Hs {
			masked[h.ID] = masked[h.ID] || h.Mask != nil
		}
	}
	for _, h := range c.Globals {
		masked[h.ID] = masked[h.ID] || h.Mask != nil
	}
	if c.UserInit != nil {
		for _, h := range c.UserInit.Hs {
			masked[h.ID] = masked[h.ID] || h.Mask != nil
		}
	}
	var keys []string
	selfFiring := 0
	var walk func(ns []c10bNode)
	walk = func(ns []c10bNode) {
		for _, n := range ns {
			ctx.Res.Dist("builtin.node=" + n.NK)
			switch n.NK {
			case "tpl":
				selfFiring++
				ctx.Res.Dist(fmt.Sprintf("builtin.tpl.msgs=%d", len(n.Msgs)))
				pos := "none"
				for i, m := range n.Msgs {
					if m.Fail != "" {
						pos = fmt.Sprintf("%d/%s:%s", i, m.K, m.Fail)
						break
					}
				}
				ctx.Res.Dist("builtin.tpl.firstFault=" + pos)
			case "router":
				selfFiring++
				ctx.Res.Dist("builtin.router.route=" + n.Route)
				for _, ch := range n.Children {
					ctx.Res.Dist("builtin.router.child=" + ch.Out)
				}
				ctx.Res.Dist(fmt.Sprintf("builtin.router.fusionFails=%v", n.FusionFails))
			case "mq":
				selfFiring++
				rw := n.Rewrite
				switch {
				case n.RewriteFails:
					rw += "!handler"
				case n.Rewrite == "llm" && c10bAny(n.Fails):
					rw += "!template"
				case n.ModelFails:
					rw += "!model"
				case n.ParserFails:
					rw += "!parser"
				}
				ctx.Res.Dist("builtin.mq.rewrite=" + rw)
				ctx.Res.Dist(fmt.Sprintf("builtin.mq.queries=%d", len(n.Queries)))
				for _, q := range n.Queries {
					ctx.Res.Dist("builtin.mq.query=" + q)
				}
				ctx.Res.Dist(fmt.Sprintf("builtin.mq.fusionFails=%v", n.FusionFails))
			}
			walk(n.Inner)
		}
	}
	walk(c.Nodes)
	for _, n := range c.Nodes {
		keys = append(keys, c10bNodeKey(n))
	}
	tag := c.Mode + "/" + c.Paradigm
	ctx.Res.Dist("kind=builtin")
	ctx.Res.Dist("family=builtin:" + tag)
	ctx.Res.Dist("builtin.class=" + strings.SplitN(impl.Class, ":", 2)[0])
	ui := "-"
	if c.UserInit != nil {
		ui = fmt.Sprintf("%d+%d", len(c.UserInit.Hs), c.UserInit.Spare)
	}
	ctx.Res.Count(fmt.Sprintf("builtin|%s|%s|g%d|u%s|o%d|d%d", tag, strings.Join(keys, "∥"), len(c.Globals), ui, nUndes, nDesig),
		selfFiring > 0 && (nDesig+nUndes+len(c.Globals) > 0 || c.UserInit != nil))
	ctx.Res.Sample(c)

	dis := func(what, owner, msg string) {
		ctx.Res.Disagree(vh.Disagreement{Signature: "C10:builtin:" + what + ":" + owner, What: msg, Case: c, Model: mdl, Impl: impl})
	}
	if strings.HasPrefix(impl.Class, "panic") || impl.Class == "hang" || strings.HasPrefix(impl.Class, "build") ||
		strings.HasPrefix(impl.RefClass, "build") {
		dis("run-"+strings.SplitN(impl.Class, ":", 2)[0], "root/node", "the run did not complete normally: "+impl.Class+" (handler-free run: "+impl.RefClass+")")
		return nil
	}
	// the model's units grouped by run info (the tasks of one multi-query retriever share theirs)
	type group struct {
		owner    string
		n        int
		ev       [][2]int
		handlers []int
	}
	groups := map[string]*group{}
	var order []string
	for _, mu := range mdl.Units {
		g := groups[mu.Info]
		if g == nil {
			g = &group{owner: c10bOwner(c, mu.Path), handlers: mu.Handlers}
			groups[mu.Info] = g
			order = append(order, mu.Info)
		}
		g.n++
		g.ev = append(g.ev, mu.Ev...)
	}
	handled := map[string]bool{}
	// (1) oracle-independent: per run info, every unfiltered handler got as many finishing
	// callbacks (end / stream end / error) as start callbacks
	infos := make([]string, 0, len(impl.Units))
	for info := range impl.Units {
		infos = append(infos, info)
	}
	sort.Strings(infos)
	for _, info := range infos {
		starts, ends := map[int]int{}, map[int]int{}
		hs := map[int]bool{}
		for _, e := range impl.Units[info] {
			hs[e[0]] = true
			if e[1] == 0 || e[1] == 3 {
				starts[e[0]]++
			} else {
				ends[e[0]]++
			}
		}
		ids := make([]int, 0, len(hs))
		for h := range hs {
			ids = append(ids, h)
		}
		sort.Ints(ids)
		for _, h := range ids {
			if masked[h] || starts[h] == ends[h] {
				continue
			}
			owner := "?/?"
			if g := groups[info]; g != nil {
				owner = g.owner
			}
			dis("unpaired", owner, fmt.Sprintf("unit %q: handler %d got %d start and %d end/error callbacks (every started unit must be finished exactly once): %v",
				info, h, starts[h], ends[h], impl.Units[info]))
			handled[info] = true
			break
		}
	}
	if len(handled) > 0 {
		// a unit that started was never finished: whatever else differs (the run's outcome, units
		// the model expects after it) follows from what cut the unit short
		return nil
	}
	if impl.Class != mdl.Outcome {
		dis("outcome", "root/node", fmt.Sprintf("run outcome %q, expected %q", impl.Class, mdl.Outcome))
		return nil // the model's units are those of the other outcome
	}
	if impl.Out != impl.RefOut || impl.Class != impl.RefClass {
		dis("flow-output", "root/node", fmt.Sprintf("result with handlers %s %q differs from the handler-free run %s %q", impl.Class, impl.Out, impl.RefClass, impl.RefOut))
	}
	// (2) per run info against the unit machine
	for _, info := range order {
		g := groups[info]
		if handled[info] {
			continue
		}
		got := impl.Units[info]
		var cl string
		if g.n == 1 {
			cl = c10DiffClass(c10ModelUnit{Info: info, Ev: g.ev, Handlers: g.handlers}, c.Globals, got)
		} else {
			// several concurrent units with one run info: as multisets
			cl = c10DiffClass(c10ModelUnit{Info: info, Ev: g.ev, Handlers: g.handlers}, c.Globals, got)
			if cl == "order" {
				cl = ""
			}
		}
		if cl != "" {
			if cl == "missing-callback" && c10xOnlyErrorsMissing(g.ev, got) {
				cl = "unpaired" // the same observable as (1), seen through handlers with a timing filter
			}
			dis(cl, g.owner, fmt.Sprintf("unit %q (%d execution(s)): callbacks (handler,timing) %v on the implementation, %v in the model", info, g.n, got, g.ev))
		}
	}
	for _, info := range infos {
		if groups[info] == nil && len(impl.Units[info]) > 0 {
			dis("unknown-unit", "root/node", fmt.Sprintf("callbacks delivered with run info %q, which no unit of this run has: %v", info, impl.Units[info]))
		}
	}
	for k, ps := range impl.Payloads {
		if len(ps) > 1 {
			dis("payload-differs", "root/node", fmt.Sprintf("handlers of %s saw different stream payloads: %q", k, ps))
		}
	}
	return nil
}

func c10bAny(bs []bool) bool {
	for _, b := range bs {
		if b {
			return true
		}
	}
	return false
}

// ---------------------------------------------------------------- generator

func c10bGenMsgs(r *vh.Rand, format string, rewrite bool, faultPct int) ([]c10bMsg, []bool) {
	n := r.Intn(5)
	if rewrite && n == 0 {
		n = 1
	}
	msgs := make([]c10bMsg, 0, n)
	fails := make([]bool, 0, n)
	for i := 0; i < n; i++ {
		m := c10bMsg{K: "msg"}
		switch x := r.Intn(10); {
		case x < 5:
		case x < 8:
			m.K = "ph"
			if rewrite || r.Chance(30) {
				m.Opt = true
			}
		default:
			m.K = "custom"
		}
		if r.Chance(faultPct) {
			switch m.K {
			case "msg":
				m.Fail = "var"
				if format == "jinja" || r.Chance(35) {
					m.Fail = "syntax" // Jinja2 renders an undefined variable as nothing
				}
			case "ph":
				m.Opt = false
				m.Fail = "missing"
				if r.Chance(40) {
					m.Fail = "type"
				}
			default:
				m.Fail = "err"
			}
		}
		msgs = append(msgs, m)
		fails = append(fails, m.Fail != "")
	}
	return msgs, fails
}

func c10bGenNode(r *vh.Rand, key, nk string) c10bNode {
	n := c10bNode{Key: key, NK: nk, Fails: []bool{}}
	outs := func() string {
		switch x := r.Intn(100); {
		case x < 84:
			return "ok"
		case x < 93:
			return "err"
		}
		return "panic"
	}
	switch nk {
	case "tpl":
		n.Format = []string{"f", "go", "jinja"}[r.Intn(3)]
		n.Msgs, n.Fails = c10bGenMsgs(r, n.Format, false, 13)
	case "router":
		switch x := r.Intn(100); {
		case x < 58:
			n.Route = "ok"
		case x < 66:
			n.Route = "err"
		case x < 73:
			n.Route = "none"
		case x < 80:
			n.Route = "unknown"
		default:
			n.Route = "default"
		}
		for i, k := 0, r.Range(1, 3); i < k; i++ {
			n.Children = append(n.Children, c10bTask{Type: fmt.Sprintf("R%sc%d", key, i), Out: outs()})
		}
		if n.Route != "default" {
			n.Others = r.Intn(2)
		}
		n.CustomFusion = r.Chance(40)
		n.FusionFails = r.Chance(12)
	case "mq":
		n.OrigType = "RO" + key
		n.Rewrite = "handler"
		if r.Chance(50) {
			n.Rewrite = "llm"
		}
		n.Max = []int{0, 0, 1, 2, 3}[r.Intn(5)]
		eff := n.Max
		if eff == 0 {
			eff = 5
		}
		produced := r.Intn(7)
		if n.Rewrite == "llm" {
			n.Fails = []bool{false} // the default template: one message
			if r.Chance(60) {
				n.CustomTpl = true
				n.Format = []string{"f", "go", "jinja"}[r.Intn(3)]
				n.Msgs, n.Fails = c10bGenMsgs(r, n.Format, true, 12)
			}
			n.ModelFails = r.Chance(8)
			n.ParserFails = r.Chance(8)
			n.CustomParser = r.Chance(40) || produced == 0 // strings.Split("", "\n") is one empty query
		} else {
			n.RewriteFails = r.Chance(12)
		}
		for i := 0; i < produced && i < eff; i++ {
			n.Queries = append(n.Queries, outs())
		}
		if produced > eff {
			n.Extra = produced - eff
		}
		n.CustomFusion = r.Chance(40)
		n.FusionFails = r.Chance(12)
	default:
		n.Fail = r.Chance(8)
	}
	return n
}

func c10bGen(r *vh.Rand) *c10bCase {
	c := &c10bCase{Kind: "builtin", Mode: "pregel", Paradigm: "invoke", Opts: []c10Opt{}, Globals: []c10Hd{}}
	ids := &c10IDs{}
	if r.Chance(40) {
		c.Mode = "dag"
	}
	if r.Chance(45) {
		c.Paradigm = "stream"
	}
	// at most one retriever flow per graph: the stages of two of them would share their run infos
	flowLeft := 1
	pick := func(allowFlow, allowGraph bool) string {
		for {
			switch x := r.Intn(100); {
			case x < 42:
				return "tpl"
			case x < 58:
				if allowFlow && flowLeft > 0 {
					flowLeft--
					return "router"
				}
			case x < 74:
				if allowFlow && flowLeft > 0 {
					flowLeft--
					return "mq"
				}
			case x < 86:
				if allowGraph {
					return "graph"
				}
			default:
				return "lam"
			}
		}
	}
	var paths [][]string
	hasGraph := false
	for i, k := 0, r.Range(1, 3); i < k; i++ {
		key := string(rune('A' + i))
		nk := pick(true, !hasGraph)
		if nk == "graph" {
			hasGraph = true
			sub := c10bNode{Key: key, NK: "graph", Fails: []bool{}}
			for j, m := 0, r.Range(1, 2); j < m; j++ {
				ik := string(rune('X' + j))
				sub.Inner = append(sub.Inner, c10bGenNode(r, ik, pick(false, false)))
				paths = append(paths, []string{key, ik})
			}
			if r.Chance(30) {
				paths = append(paths, []string{key, "join"})
			}
			c.Nodes = append(c.Nodes, sub)
			paths = append(paths, []string{key})
			continue
		}
		c.Nodes = append(c.Nodes, c10bGenNode(r, key, nk))
		paths = append(paths, []string{key})
	}
	if r.Chance(30) {
		paths = append(paths, []string{"join"})
	}
	if r.Chance(35) {
		c.Globals = ids.hds(r, r.Range(1, 2))
	}
	if r.Chance(20) {
		c.UserInit = &c10UserInit{Hs: ids.hds(r, r.Range(0, 3)), Spare: r.Intn(3)}
	}
	nU := r.Intn(4)
	if r.Chance(25) {
		nU = 3 // three single-handler options: len 3, cap 4
	}
	for i := 0; i < nU; i++ {
		n := 1
		if r.Chance(25) {
			n = r.Range(1, 3)
		}
		c.Opts = append(c.Opts, c10Opt{Hs: ids.hds(r, n)})
	}
	for _, p := range paths {
		if r.Chance(60) {
			o := c10Opt{Hs: ids.hds(r, r.Range(1, 2)), Paths: [][]string{p}}
			if r.Chance(12) {
				q := paths[r.Intn(len(paths))]
				if strings.Join(q, "/") != strings.Join(p, "/") {
					o.Paths = append(o.Paths, q)
				}
			}
			c.Opts = append(c.Opts, o)
		}
	}
	perm := r.Perm(len(c.Opts))
	sh := make([]c10Opt, len(c.Opts))
	for i, j := range perm {
		sh[i] = c.Opts[j]
	}
	c.Opts = sh
	return c
}

// hand-written cases run first on every seed: the smallest scenario of every component with
// each of its fault points
func c10bFixed() []any {
	var out []any
	mk := func(paradigm string, n c10bNode) {
		if n.Fails == nil {
			n.Fails = []bool{}
		}
		out = append(out, &c10bCase{Kind: "builtin", Mode: "pregel", Paradigm: paradigm, Globals: []c10Hd{},
			Opts:  []c10Opt{{Hs: []c10Hd{{ID: 1}}}, {Hs: []c10Hd{{ID: 2}}, Paths: [][]string{{n.Key}}}},
			Nodes: []c10bNode{n}})
	}
	tpl := func(format string, msgs ...c10bMsg) c10bNode {
		n := c10bNode{Key: "A", NK: "tpl", Format: format, Msgs: msgs, Fails: []bool{}}
		for _, m := range msgs {
			n.Fails = append(n.Fails, m.Fail != "")
		}
		return n
	}
	ok, ph := c10bMsg{K: "msg"}, c10bMsg{K: "ph"}
	mk("invoke", tpl("f", ok, ph))
	mk("stream", tpl("go", ok))
	mk("invoke", tpl("f", c10bMsg{K: "msg", Fail: "var"}))
	mk("stream", tpl("f", ok, c10bMsg{K: "msg", Fail: "var"}, ok))
	mk("invoke", tpl("go", ok, ok, c10bMsg{K: "msg", Fail: "var"}))
	mk("invoke", tpl("jinja", ok, c10bMsg{K: "msg", Fail: "syntax"}))
	mk("invoke", tpl("f", ph, c10bMsg{K: "ph", Fail: "missing"}))
	mk("stream", tpl("go", c10bMsg{K: "ph", Fail: "type"}, ok))
	mk("invoke", tpl("f", c10bMsg{K: "custom"}, c10bMsg{K: "custom", Fail: "err"}))
	mk("invoke", tpl("f"))
	rt := func(route string, fusionFails bool, outs ...string) c10bNode {
		n := c10bNode{Key: "R", NK: "router", Route: route, FusionFails: fusionFails}
		for i, o := range outs {
			n.Children = append(n.Children, c10bTask{Type: fmt.Sprintf("RRc%d", i), Out: o})
		}
		return n
	}
	mk("invoke", rt("ok", false, "ok", "ok"))
	mk("stream", rt("ok", false, "ok", "err"))
	mk("invoke", rt("ok", false, "panic", "ok"))
	mk("invoke", rt("ok", true, "ok"))
	mk("invoke", rt("err", false, "ok"))
	mk("invoke", rt("none", false, "ok"))
	mk("invoke", rt("unknown", false, "ok"))
	mk("invoke", rt("default", false, "ok", "ok"))
	mq := func(n c10bNode, qs ...string) c10bNode {
		n.Key, n.NK, n.OrigType, n.Queries = "M", "mq", "ROM", qs
		return n
	}
	mk("invoke", mq(c10bNode{Rewrite: "handler"}, "ok", "ok"))
	mk("stream", mq(c10bNode{Rewrite: "handler", RewriteFails: true}, "ok"))
	mk("invoke", mq(c10bNode{Rewrite: "handler"}, "ok", "err", "panic"))
	mk("invoke", mq(c10bNode{Rewrite: "handler", FusionFails: true}, "ok"))
	mk("invoke", mq(c10bNode{Rewrite: "handler", Max: 1, Extra: 2}, "ok"))
	mk("invoke", mq(c10bNode{Rewrite: "llm", Fails: []bool{false}}, "ok", "ok"))
	mk("invoke", mq(c10bNode{Rewrite: "llm", CustomTpl: true, Format: "f", Msgs: []c10bMsg{ok, {K: "msg", Fail: "var"}}, Fails: []bool{false, true}}, "ok"))
	mk("invoke", mq(c10bNode{Rewrite: "llm", Fails: []bool{false}, ModelFails: true}, "ok"))
	mk("invoke", mq(c10bNode{Rewrite: "llm", Fails: []bool{false}, ParserFails: true}, "ok"))
	return out
}
